(* C18 — lemmas about the model of Reconcile.v. *)
From Verif Require Import Common Gen_Reconcile Reconcile.
Open Scope N_scope.

(* ---------- facts about the regenerated table ---------- *)
Lemma live_states_killed :
  forallb (fun s => memN s recon_kill_states) mesos_live_states = true.
Proof. vm_compute. reflexivity. Qed.

Lemma live_state_is_killed s :
  memN s mesos_live_states = true -> memN s recon_kill_states = true.
Proof.
  intro H. pose proof live_states_killed as A.
  rewrite forallb_forall in A. apply A.
  unfold memN in H. apply existsb_exists in H. destruct H as [x [Hx Hs]].
  apply N.eqb_eq in Hs. subst. exact Hx.
Qed.

Lemma running_live : memN mesos_running mesos_live_states = true.
Proof. vm_compute. reflexivity. Qed.

(* ---------- small list facts ---------- *)
Lemma memN_In x l : memN x l = true <-> In x l.
Proof.
  unfold memN. rewrite existsb_exists. split.
  - intros [y [Hy E]]. apply N.eqb_eq in E. subst. exact Hy.
  - intro H. exists x. split; [exact H|apply N.eqb_refl].
Qed.

Lemma memN_single x t : memN x [t] = N.eqb x t.
Proof. unfold memN. cbn. apply orb_false_r. Qed.

Lemma in_roster_spec t ros :
  in_roster t ros = true <-> exists r, In r ros /\ rt_id r = t.
Proof.
  unfold in_roster. rewrite existsb_exists. split.
  - intros [r [Hr E]]. apply N.eqb_eq in E. eauto.
  - intros [r [Hr E]]. exists r. split; [exact Hr|apply N.eqb_eq; exact E].
Qed.

Lemma in_roster_app t a b : in_roster t (a ++ b) = in_roster t a || in_roster t b.
Proof. unfold in_roster. apply existsb_app. Qed.

(* ---------- run ---------- *)
Lemma run_app w a b :
  run w (a ++ b) =
  let '(w1, c1) := run w a in let '(w2, c2) := run w1 b in (w2, c1 ++ c2).
Proof.
  revert w. induction a as [|o a IH]; intro w; cbn.
  - destruct (run w b). reflexivity.
  - destruct (step w o) as [w1 c1]. rewrite IH.
    destruct (run w1 a) as [w2 c2]. destruct (run w2 b) as [w3 c3].
    rewrite app_assoc. reflexivity.
Qed.

Lemma after_cons w o ops : after w (o :: ops) = after (fst (step w o)) ops.
Proof.
  unfold after. cbn. destruct (step w o) as [w1 c1]. cbn.
  destruct (run w1 ops). reflexivity.
Qed.

Lemma calls_cons w o ops :
  calls_of w (o :: ops) = snd (step w o) ++ calls_of (fst (step w o)) ops.
Proof.
  unfold calls_of. cbn. destruct (step w o) as [w1 c1]. cbn.
  destruct (run w1 ops). reflexivity.
Qed.

Lemma after_app w a b : after w (a ++ b) = after (after w a) b.
Proof.
  unfold after. rewrite run_app. destruct (run w a) as [w1 c1]. cbn.
  destruct (run w1 b). reflexivity.
Qed.

Lemma run_invariant (Inv : world -> Prop) (ok : op -> bool) :
  (forall w o, ok o = true -> Inv w -> Inv (fst (step w o))) ->
  forall ops w, forallb ok ops = true -> Inv w -> Inv (after w ops).
Proof.
  intros Hstep. induction ops as [|o ops IH]; intros w Hok Hw.
  - exact Hw.
  - cbn in Hok. apply andb_true_iff in Hok. destruct Hok as [Ho Hops].
    rewrite after_cons. apply IH; [exact Hops|]. apply Hstep; assumption.
Qed.

(* updateTaskStatus refreshes the ids of the roster task only from fields the status carries
   (status_refresh_guarded = true, regenerated): an answer that lacks executor_id / agent_id /
   source has exactly the effect of a complete one *)
Lemma refreshed_id om t ros : refreshed om t ros = ros.
Proof. reflexivity. Qed.

Lemma answer_with_eq w om : answer_with w om = answer w.
Proof.
  unfold answer, answer_with. destruct (w_pending w) as [|[t s] rest]; [reflexivity|].
  rewrite !refreshed_id. reflexivity.
Qed.

Lemma step_bare w om : step w (OAnswerBare om) = step w OAnswer.
Proof. cbn [step]. apply answer_with_eq. Qed.

Lemma run_bare n om : forall w, run w (repeat (OAnswerBare om) n) = run w (repeat OAnswer n).
Proof.
  induction n as [|n IH]; intro w; [reflexivity|].
  cbn [repeat run]. rewrite step_bare. destruct (step w OAnswer) as [w1 c1]. rewrite IH. reflexivity.
Qed.

(* the quiescent step of the harness is a particular history *)
Lemma hstep_is_run w o :
  hstep w o = run w (o :: repeat OAnswer (length (w_pending (fst (step w o))))).
Proof.
  unfold hstep. cbn [run]. destruct (step w o) as [w1 c1]. cbn [fst].
  destruct o; cbn [drain_op]; try reflexivity. rewrite run_bare. reflexivity.
Qed.

(* ---------- master_kill / roster_deactivate ---------- *)
Lemma master_kill_in ts m x :
  In x (master_kill ts m) ->
  exists y, In y m /\ mt_id x = mt_id y /\ mt_fw x = mt_fw y /\ mt_state x = mt_state y /\
            (mt_alive x = true -> mt_alive y = true /\ memN (mt_id y) ts = false).
Proof.
  unfold master_kill. rewrite in_map_iff. intros [y [E Hy]]. exists y.
  split; [exact Hy|]. destruct (memN (mt_id y) ts) eqn:M; subst x; cbn.
  - repeat split; try reflexivity; discriminate.
  - repeat split; try reflexivity; auto.
Qed.

Lemma master_kill_id ts m : map mt_id (master_kill ts m) = map mt_id m.
Proof.
  unfold master_kill. rewrite map_map. apply map_ext. intro y.
  destruct (memN (mt_id y) ts); reflexivity.
Qed.

Lemma roster_deactivate_in ts ros r :
  In r (roster_deactivate ts ros) ->
  exists q, In q ros /\ rt_id r = rt_id q /\ rt_env r = rt_env q /\
            (rt_active r = true -> rt_active q = true /\ memN (rt_id q) ts = false) /\
            (memN (rt_id q) ts = false -> rt_active r = rt_active q).
Proof.
  unfold roster_deactivate. rewrite in_map_iff. intros [q [E Hq]]. exists q.
  split; [exact Hq|]. destruct (memN (rt_id q) ts) eqn:M; subst r; cbn.
  - repeat split; try reflexivity; discriminate.
  - repeat split; try reflexivity; auto.
Qed.

Lemma roster_deactivate_in_roster t ts ros :
  in_roster t (roster_deactivate ts ros) = in_roster t ros.
Proof.
  unfold in_roster, roster_deactivate. induction ros as [|q ros IH]; cbn; [reflexivity|].
  rewrite IH. destruct (memN (rt_id q) ts); reflexivity.
Qed.

Lemma roster_activate_in ts ros r :
  In r (roster_activate ts ros) ->
  exists q, In q ros /\ rt_id r = rt_id q /\ rt_env r = rt_env q.
Proof.
  unfold roster_activate. rewrite in_map_iff. intros [q [E Hq]]. exists q.
  split; [exact Hq|]. destruct (memN (rt_id q) ts); subst r; cbn; split; reflexivity.
Qed.

Lemma roster_activate_in_roster t ts ros :
  in_roster t (roster_activate ts ros) = in_roster t ros.
Proof.
  unfold in_roster, roster_activate. induction ros as [|q ros IH]; cbn; [reflexivity|].
  rewrite IH. destruct (memN (rt_id q) ts); reflexivity.
Qed.

Lemma master_state_in ts s m x :
  In x (master_state ts s m) ->
  exists y, In y m /\ mt_id x = mt_id y /\ mt_fw x = mt_fw y /\ mt_alive x = mt_alive y /\
            (mt_state x = mt_state y \/ mt_state x = s).
Proof.
  unfold master_state. rewrite in_map_iff. intros [y [E Hy]]. exists y. split; [exact Hy|].
  destruct (memN (mt_id y) ts && mt_alive y) eqn:C; subst x; cbn.
  - apply andb_true_iff in C. destruct C as [_ A]. rewrite A. auto.
  - auto.
Qed.

Lemma held_state_live s : memN (held_state s) mesos_live_states = true.
Proof.
  unfold held_state. destruct (N.eqb s mesos_starting || N.eqb s mesos_running) eqn:E.
  - apply orb_true_iff in E. destruct E as [E|E]; apply N.eqb_eq in E; subst s; vm_compute; reflexivity.
  - vm_compute. reflexivity.
Qed.

Lemma release_in e ros r :
  In r (release e ros) ->
  exists q, In q ros /\ rt_id r = rt_id q /\ rt_active r = rt_active q /\
            (forall e', rt_env r = Some e' -> rt_env q = Some e' /\ e' <> e).
Proof.
  unfold release. rewrite in_map_iff. intros [q [E Hq]]. exists q. split; [exact Hq|].
  destruct (option_eqb N.eqb (rt_env q) (Some e)) eqn:M; subst r; cbn.
  - split; [reflexivity|]. split; [reflexivity|]. intros e' H. discriminate.
  - split; [reflexivity|]. split; [reflexivity|]. intros e' H. split; [exact H|].
    intro Ee. subst e'. rewrite H in M. cbn in M. rewrite N.eqb_refl in M. discriminate.
Qed.

Lemma release_in_roster t e ros : in_roster t (release e ros) = in_roster t ros.
Proof.
  unfold in_roster, release. induction ros as [|q ros IH]; cbn; [reflexivity|].
  rewrite IH. destruct (option_eqb N.eqb (rt_env q) (Some e)); reflexivity.
Qed.

Lemma remove_ids_in ts ros r :
  In r (remove_ids ts ros) <-> In r ros /\ memN (rt_id r) ts = false.
Proof.
  unfold remove_ids. rewrite filter_In. rewrite negb_true_iff. reflexivity.
Qed.

Lemma kill_set_spec victims t :
  In t (kill_set victims) <->
  exists r, In r victims /\ rt_active r || kill_inactive = true /\ rt_id r = t.
Proof.
  unfold kill_set. rewrite in_map_iff. split.
  - intros [r [E Hr]]. apply filter_In in Hr. destruct Hr. eauto.
  - intros [r [Hr [A E]]]. exists r. split; [exact E|]. apply filter_In. auto.
Qed.

Lemma new_ids_spec from k t : In t (new_ids from k) <-> from <= t < from + N.of_nat k.
Proof.
  revert from. induction k as [|k IH]; intro from; cbn [new_ids In].
  - cbn. lia.
  - rewrite IH. lia.
Qed.

(* ================================================================ identity *)
Definition fw_all (f : N) (m : list mtask) : Prop := forall t, In t m -> mt_fw t = f.

Definition Inv1 (w : world) : Prop :=
  w_failover w = true /\ w_mem w = 1 /\ w_store w = Some 1 /\ fw_all 1 (w_master w).

Definition call_id1 (c : call) : Prop :=
  match c with
  | CSubscribe carried i => carried = true /\ i = 1
  | CLaunch _ f => f = 1
  | _ => True
  end.

Lemma fw_all_master_kill f ts m : fw_all f m -> fw_all f (master_kill ts m).
Proof.
  intros H t Ht. apply master_kill_in in Ht. destruct Ht as [y [Hy [_ [E _]]]].
  rewrite E. apply H. exact Hy.
Qed.

Lemma Forall_map_kill ks : Forall call_id1 (map CKill ks).
Proof. apply Forall_forall. intros c Hc. apply in_map_iff in Hc. destruct Hc as [t [E _]]. subst. exact I. Qed.

Lemma inv1_cleanup w : Inv1 w -> Inv1 (fst (cleanup w)) /\ Forall call_id1 (snd (cleanup w)).
Proof.
  intros [F [M [S A]]]. unfold cleanup. cbn. split.
  - repeat split; try assumption. apply fw_all_master_kill. exact A.
  - apply Forall_map_kill.
Qed.

Lemma inv1_cleanup_ids w ts :
  Inv1 w -> Inv1 (fst (cleanup_ids w ts)) /\ Forall call_id1 (snd (cleanup_ids w ts)).
Proof.
  intros [F [M [S A]]]. unfold cleanup_ids. cbn. split.
  - repeat split; try assumption. apply fw_all_master_kill. exact A.
  - apply Forall_map_kill.
Qed.

Lemma inv1_launch w k : Inv1 w -> Inv1 (fst (launch w k)) /\ Forall call_id1 (snd (launch w k)).
Proof.
  intros [F [M [S A]]]. unfold launch. cbn. split.
  - repeat split; try assumption. intros t Ht. apply in_app_or in Ht. destruct Ht as [Ht|Ht].
    + apply A. exact Ht.
    + apply in_map_iff in Ht. destruct Ht as [i [E _]]. subst t. cbn. exact M.
  - apply Forall_forall. intros c Hc. apply in_map_iff in Hc. destruct Hc as [t [E _]]. subst c. cbn. exact M.
Qed.

Lemma inv1_create w k : Inv1 w -> Inv1 (fst (create w k)) /\ Forall call_id1 (snd (create w k)).
Proof.
  intro H. unfold create. destruct (cleanup w) as [w1 c1] eqn:E1.
  destruct (inv1_cleanup w H) as [H1 C1]. rewrite E1 in H1, C1. cbn in H1, C1.
  destruct (launch w1 k) as [w2 c2] eqn:E2.
  destruct (inv1_launch w1 k H1) as [H2 C2]. rewrite E2 in H2, C2. cbn in H2, C2.
  cbn. split; [exact H2|]. apply Forall_app. split; assumption.
Qed.

Lemma fw_all_master_state f ts s m : fw_all f m -> fw_all f (master_state ts s m).
Proof.
  intros H t Ht. apply master_state_in in Ht. destruct Ht as [y [Hy [_ [E _]]]].
  rewrite E. apply H. exact Hy.
Qed.

Lemma inv1_create_held w k s :
  Inv1 w -> Inv1 (fst (create_held w k s)) /\ Forall call_id1 (snd (create_held w k s)).
Proof.
  intro H. unfold create_held. destruct (inv1_create w k H) as [H1 C1].
  destruct (create w k) as [w1 c1]. cbn [fst snd] in *. split; [|exact C1].
  destruct H1 as [F [M [S A]]]. unfold Inv1. cbn. repeat split; try assumption.
  apply fw_all_master_state. exact A.
Qed.

Lemma inv1_destroy w e keep eff :
  Inv1 w -> Inv1 (fst (destroy w e keep eff)) /\ Forall call_id1 (snd (destroy w e keep eff)).
Proof.
  intros H. unfold destroy. destruct (negb (memN e (w_envs w))); [split; [exact H|constructor]|].
  destruct H as [F [M [S A]]].
  destruct keep; cbn.
  - split; [repeat split; assumption|constructor].
  - split; [|apply Forall_map_kill]. repeat split; try assumption.
    destruct eff; [apply fw_all_master_kill|]; exact A.
Qed.

Lemma inv1_answer w : Inv1 w -> Inv1 (fst (answer w)) /\ Forall call_id1 (snd (answer w)).
Proof.
  intros H. unfold answer, answer_with. destruct (w_pending w) as [|[t s] rest]; [split; [exact H|constructor]|].
  destruct H as [F [M [S A]]].
  destruct (memN s recon_kill_states && negb (recon_guarded && in_roster t (w_roster w))); cbn.
  - split; [|repeat constructor]. repeat split; try assumption. apply fw_all_master_kill. exact A.
  - split; [|constructor]. repeat split; assumption.
Qed.

Lemma inv1_subscribe w : Inv1 w -> Inv1 (fst (subscribe w)) /\ Forall call_id1 (snd (subscribe w)).
Proof.
  intros [F [M [S A]]]. unfold subscribe. rewrite F, M. cbn. split.
  - repeat split; assumption.
  - repeat constructor.
Qed.

Lemma inv1_crash w : Inv1 w -> Inv1 (crash w).
Proof.
  intros [F [M [S A]]]. unfold crash, Inv1. cbn. rewrite S. repeat split; assumption.
Qed.

Lemma inv1_crashstep w p k :
  Inv1 w -> Inv1 (fst (step w (OCrash p k))) /\ Forall call_id1 (snd (step w (OCrash p k))).
Proof.
  intro H. cbn [step].
  assert (P : exists w1 c1, (match p with
      | PIdle => (w, [])
      | PBeforeLaunch =>
        let '(w0, c0) := cleanup w in
        (mkW (w_failover w0) (w_store w0) (w_nextfw w0) (w_master w0) (w_mem w0) (w_roster w0) (w_envs w0)
             (w_ntask w0) (N.succ (w_nenv w0)) (w_pending w0), c0)
      | PAfterLaunch | PMidConfigure => create w k
      end) = (w1, c1) /\ Inv1 w1 /\ Forall call_id1 c1).
    { destruct p.
      - exists w, []. repeat split; try apply H. constructor.
      - destruct (cleanup w) as [w0 c0] eqn:E0. destruct (inv1_cleanup w H) as [H0 C0].
        rewrite E0 in H0, C0. cbn in H0, C0. eexists _, c0. split; [reflexivity|]. split; [|exact C0].
        destruct H0 as [F [M [S A]]]. repeat split; assumption.
      - destruct (create w k) as [w0 c0] eqn:E0. destruct (inv1_create w k H) as [H0 C0].
        rewrite E0 in H0, C0. exists w0, c0. auto.
      - destruct (create w k) as [w0 c0] eqn:E0. destruct (inv1_create w k H) as [H0 C0].
        rewrite E0 in H0, C0. exists w0, c0. auto. }
    destruct P as [w1 [c1 [E [H1 C1]]]]. rewrite E.
    destruct (subscribe (crash w1)) as [w2 c2] eqn:E2.
    destruct (inv1_subscribe (crash w1) (inv1_crash w1 H1)) as [H2 C2]. rewrite E2 in H2, C2.
    cbn. split; [exact H2|]. apply Forall_app. split; assumption.
Qed.

Lemma inv1_resub wc :
  Inv1 (fst wc) /\ Forall call_id1 (snd wc) ->
  Inv1 (fst (resubscribe_after_loss wc)) /\ Forall call_id1 (snd (resubscribe_after_loss wc)).
Proof.
  destruct wc as [w2 c2]. cbn [fst snd]. intros [H2 C2]. unfold resubscribe_after_loss.
  assert (H2' : Inv1 (set_w_pending w2 [])) by exact H2.
  destruct (inv1_subscribe _ H2') as [H3 C3].
  destruct (subscribe (set_w_pending w2 [])) as [w3 c3]. cbn [fst snd] in *.
  split; [exact H3|]. apply Forall_app. split; assumption.
Qed.

Lemma inv1_step w o :
  is_tamper o = false -> Inv1 w -> Inv1 (fst (step w o)) /\ Forall call_id1 (snd (step w o)).
Proof.
  intros T H. destruct o; cbn [step]; try discriminate.
  - apply inv1_create. exact H.
  - split; [exact H|constructor].
  - apply inv1_destroy. exact H.
  - apply inv1_destroy. exact H.
  - destruct H as [F [M [S A]]]. cbn. split; [|constructor].
    repeat split; try assumption. apply fw_all_master_kill. exact A.
  - destruct (memN s mesos_live_states); [|split; [exact H|constructor]].
    destruct H as [F [M [S A]]]. cbn. split; [|constructor]. repeat split; try assumption.
    intros x Hx. apply in_map_iff in Hx. destruct Hx as [y [E Hy]].
    destruct (N.eqb (mt_id y) t && mt_alive y); subst x; cbn; apply A; exact Hy.
  - apply inv1_cleanup. exact H.
  - apply inv1_subscribe. exact H.
  - apply inv1_crashstep. exact H.
  - apply inv1_answer. exact H.
  - apply inv1_create_held. exact H.
  - destruct (alive_at t (w_master w)); [|split; [exact H|constructor]].
    destruct H as [F [M [S A]]]. cbn. split; [|constructor]. repeat split; try assumption.
    apply fw_all_master_state. exact A.
  - destruct (alive_at t (w_master w)); [|split; [exact H|constructor]].
    destruct H as [F [M [S A]]]. cbn. split; [|constructor]. repeat split; assumption.
  - split; [exact H|constructor].
  - apply inv1_resub. apply (inv1_crashstep w p k H).
  - apply inv1_resub. apply inv1_subscribe. exact H.
  - apply inv1_subscribe. exact H.
  - rewrite answer_with_eq. apply inv1_answer. exact H.
  - cbn [fst snd]. destruct (inv1_destroy w e false false H) as [X _]. split; [exact X|constructor].
  - destruct H as [F [M [S A]]]. cbn. split; [|constructor]. repeat split; assumption.
  - apply inv1_cleanup_ids. exact H.
Qed.

Lemma inv1_boot : Inv1 (boot true).
Proof. unfold Inv1, boot. cbn. repeat split. intros t []. Qed.

Lemma inv1_run ops w :
  no_tamper ops = true -> Inv1 w ->
  Inv1 (after w ops) /\ Forall call_id1 (calls_of w ops).
Proof.
  revert w. induction ops as [|o ops IH]; intros w T H.
  - split; [exact H|constructor].
  - unfold no_tamper in T. cbn in T. apply andb_true_iff in T. destruct T as [To Tops].
    apply negb_true_iff in To. destruct (inv1_step w o To H) as [H1 C1].
    destruct (IH _ Tops H1) as [H2 C2]. rewrite after_cons, calls_cons.
    split; [exact H2|]. apply Forall_app. split; assumption.
Qed.

(* every SUBSCRIBE after the first carries the id the first one was given, that id stays in the
   store and every task is launched under it *)
Lemma same_identity ops :
  no_tamper ops = true ->
  let w := after (boot true) ops in
  (forall c i, In (CSubscribe c i) (calls_of (boot true) ops) -> c = true /\ i = 1) /\
  (forall t f, In (CLaunch t f) (calls_of (boot true) ops) -> f = 1) /\
  w_mem w = 1 /\ w_store w = Some 1 /\ (forall t, In t (w_master w) -> mt_fw t = 1).
Proof.
  intros T w. destruct (inv1_run ops (boot true) T inv1_boot) as [[F [M [S A]]] C].
  rewrite Forall_forall in C. repeat split.
  - apply (C _ H).
  - apply (C _ H).
  - intros t f H. apply (C _ H).
  - exact M.
  - exact S.
  - exact A.
Qed.

Lemma first_subscribe fo :
  snd (subscribe (blank fo)) = [CSubscribe false 1; CReconcile] /\ w_store (boot fo) = Some 1.
Proof. destruct fo; split; reflexivity. Qed.

(* whatever the failover setting: the id in use is the stored one, and it is not empty *)
Definition InvS (w : world) : Prop :=
  w_mem w <> 0 /\ w_store w = Some (w_mem w) /\ w_nextfw w <> 0.

Lemma cleanup_fields w :
  let w1 := fst (cleanup w) in
  w_failover w1 = w_failover w /\ w_store w1 = w_store w /\ w_nextfw w1 = w_nextfw w /\
  w_mem w1 = w_mem w /\ w_envs w1 = w_envs w /\ w_ntask w1 = w_ntask w /\ w_nenv w1 = w_nenv w /\
  w_pending w1 = w_pending w.
Proof. cbn. repeat split. Qed.

Lemma launch_fields w k :
  let w1 := fst (launch w k) in
  w_failover w1 = w_failover w /\ w_store w1 = w_store w /\ w_nextfw w1 = w_nextfw w /\
  w_mem w1 = w_mem w /\ w_pending w1 = w_pending w.
Proof. cbn. repeat split. Qed.

Lemma create_fields w k :
  let w1 := fst (create w k) in
  w_failover w1 = w_failover w /\ w_store w1 = w_store w /\ w_nextfw w1 = w_nextfw w /\
  w_mem w1 = w_mem w /\ w_pending w1 = w_pending w.
Proof. unfold create. cbn. repeat split. Qed.

Lemma create_launches w k t f : In (CLaunch t f) (snd (create w k)) -> f = w_mem w.
Proof.
  unfold create. cbn. intro H. apply in_app_or in H. destruct H as [H|H].
  - apply in_map_iff in H. destruct H as [x [E _]]. discriminate.
  - apply in_map_iff in H. destruct H as [x [E _]]. inversion E. reflexivity.
Qed.

Lemma create_held_fields w k s :
  let w1 := fst (create_held w k s) in
  w_failover w1 = w_failover w /\ w_store w1 = w_store w /\ w_nextfw w1 = w_nextfw w /\
  w_mem w1 = w_mem w /\ w_pending w1 = w_pending w.
Proof. unfold create_held, create. cbn. repeat split. Qed.

Lemma create_held_launches w k s t f : In (CLaunch t f) (snd (create_held w k s)) -> f = w_mem w.
Proof.
  intro H. apply (create_launches w k t f). unfold create_held in H.
  destruct (create w k) as [w1 c1]. exact H.
Qed.

Lemma destroy_fields w e keep eff :
  let w1 := fst (destroy w e keep eff) in
  w_failover w1 = w_failover w /\ w_store w1 = w_store w /\ w_nextfw w1 = w_nextfw w /\
  w_mem w1 = w_mem w /\ w_ntask w1 = w_ntask w /\ w_nenv w1 = w_nenv w /\ w_pending w1 = w_pending w.
Proof.
  unfold destroy. destruct (negb (memN e (w_envs w))); [cbn; repeat split|].
  destruct keep; cbn; repeat split.
Qed.

Lemma answer_fields w :
  let w1 := fst (answer w) in
  w_failover w1 = w_failover w /\ w_store w1 = w_store w /\ w_nextfw w1 = w_nextfw w /\
  w_mem w1 = w_mem w /\ w_envs w1 = w_envs w /\ w_ntask w1 = w_ntask w /\ w_nenv w1 = w_nenv w.
Proof.
  unfold answer, answer_with. destruct (w_pending w) as [|[t s] rest]; [cbn; repeat split|].
  destruct (memN s recon_kill_states && negb (recon_guarded && in_roster t (w_roster w)));
    cbn; repeat split.
Qed.

Lemma invS_subscribe w : InvS w \/ (w_mem w = 0 /\ w_nextfw w <> 0) -> InvS (fst (subscribe w)).
Proof.
  intros H. unfold subscribe, InvS. cbn.
  destruct (w_failover w && negb (w_mem w =? 0)) eqn:C.
  - destruct H as [[M [S X]]|[M X]].
    + rewrite N.eqb_refl. cbn. repeat split; assumption.
    + rewrite M in C. cbn in C. rewrite andb_false_r in C. discriminate.
  - assert (X : w_nextfw w <> 0) by (destruct H as [[_ [_ X]]|[_ X]]; exact X).
    split; [exact X|]. split; [|lia].
    destruct (w_mem w =? w_nextfw w) eqn:E; cbn; [|reflexivity].
    apply N.eqb_eq in E. destruct H as [[M [S _]]|[M _]].
    + rewrite S, E. reflexivity.
    + congruence.
Qed.

Lemma invS_crashstep w p k : InvS w -> InvS (fst (step w (OCrash p k))).
Proof.
  intro H. cbn [step].
  assert (P : exists w1 c1, (match p with
      | PIdle => (w, [])
      | PBeforeLaunch =>
        let '(w0, c0) := cleanup w in
        (mkW (w_failover w0) (w_store w0) (w_nextfw w0) (w_master w0) (w_mem w0) (w_roster w0) (w_envs w0)
             (w_ntask w0) (N.succ (w_nenv w0)) (w_pending w0), c0)
      | PAfterLaunch | PMidConfigure => create w k
      end) = (w1, c1) /\ InvS w1).
    { destruct p.
      - exists w, []. auto.
      - eexists _, _. split; [reflexivity|]. exact H.
      - destruct (create w k) as [w0 c0] eqn:E0. exists w0, c0. split; [reflexivity|].
        destruct (create_fields w k) as [_ [S [X [M _]]]]. rewrite E0 in S, X, M. cbn in S, X, M.
        unfold InvS. rewrite S, X, M. exact H.
      - destruct (create w k) as [w0 c0] eqn:E0. exists w0, c0. split; [reflexivity|].
        destruct (create_fields w k) as [_ [S [X [M _]]]]. rewrite E0 in S, X, M. cbn in S, X, M.
        unfold InvS. rewrite S, X, M. exact H. }
    destruct P as [w1 [c1 [E H1]]]. rewrite E.
    destruct (subscribe (crash w1)) as [w2 c2] eqn:E2. cbn.
    replace w2 with (fst (subscribe (crash w1))) by (rewrite E2; reflexivity).
    apply invS_subscribe. left. destruct H1 as [M [S X]]. unfold InvS, crash. cbn. rewrite S.
    repeat split; assumption.
Qed.

Lemma invS_resub wc : InvS (fst wc) -> InvS (fst (resubscribe_after_loss wc)).
Proof.
  destruct wc as [w2 c2]. cbn [fst]. intro H2. unfold resubscribe_after_loss.
  pose proof (invS_subscribe (set_w_pending w2 []) (or_introl H2)) as H3.
  destruct (subscribe (set_w_pending w2 [])) as [w3 c3]. exact H3.
Qed.

Lemma invS_step w o : is_tamper o = false -> InvS w -> InvS (fst (step w o)).
Proof.
  intros T H. destruct o as [k|e|e keep|e|t|t s| |v| |p k| |k s|t|t| |p k| |om|om|eh|tr|ts]; cbn [step]; try discriminate.
  - destruct (create_fields w k) as [_ [S [X [M _]]]]. unfold InvS. rewrite S, X, M. exact H.
  - exact H.
  - destruct (destroy_fields w e keep true) as [_ [S [X [M _]]]]. unfold InvS. rewrite S, X, M. exact H.
  - destruct (destroy_fields w e false false) as [_ [S [X [M _]]]]. unfold InvS. rewrite S, X, M. exact H.
  - exact H.
  - destruct (memN s mesos_live_states); exact H.
  - exact H.
  - apply invS_subscribe. left. exact H.
  - apply invS_crashstep. exact H.
  - destruct (answer_fields w) as [_ [S [X [M _]]]]. unfold InvS. rewrite S, X, M. exact H.
  - destruct (create_held_fields w k s) as [_ [S [X [M _]]]]. unfold InvS. rewrite S, X, M. exact H.
  - destruct (alive_at t (w_master w)); exact H.
  - destruct (alive_at t (w_master w)); exact H.
  - exact H.
  - apply invS_resub. apply (invS_crashstep w p k H).
  - apply invS_resub. apply invS_subscribe. left. exact H.
  - apply invS_subscribe. left. exact H.
  - rewrite answer_with_eq. destruct (answer_fields w) as [_ [S [X [M _]]]]. unfold InvS. rewrite S, X, M. exact H.
  - destruct (destroy_fields w eh false false) as [_ [S [X [M _]]]]. unfold InvS. cbn [fst]. rewrite S, X, M. exact H.
  - exact H.
  - exact H.
Qed.

Lemma invS_boot fo : InvS (boot fo).
Proof. unfold boot. apply invS_subscribe. right. cbn. split; [reflexivity|discriminate]. Qed.

Lemma crashstep_launches w p k t f : In (CLaunch t f) (snd (step w (OCrash p k))) -> f = w_mem w.
Proof.
  cbn [step].
  destruct p.
    + cbn. intros [H|[H|[]]]; discriminate.
    + cbn. intro H. apply in_app_or in H. destruct H as [H|[H|[H|[]]]]; try discriminate.
      apply in_map_iff in H. destruct H as [x [E _]]. discriminate.
    + destruct (create w k) as [w0 c0] eqn:E0. cbn. intro H. apply in_app_or in H.
      destruct H as [H|[H|[H|[]]]]; try discriminate.
      apply (create_launches w k t f). rewrite E0. exact H.
    + destruct (create w k) as [w0 c0] eqn:E0. cbn. intro H. apply in_app_or in H.
      destruct H as [H|[H|[H|[]]]]; try discriminate.
      apply (create_launches w k t f). rewrite E0. exact H.
Qed.

Lemma subscribe_no_launch w t f : ~ In (CLaunch t f) (snd (subscribe w)).
Proof. cbn. intros [H|[H|[]]]; discriminate. Qed.

Lemma resub_launches wc t f :
  In (CLaunch t f) (snd (resubscribe_after_loss wc)) -> In (CLaunch t f) (snd wc).
Proof.
  destruct wc as [w2 c2]. unfold resubscribe_after_loss.
  pose proof (subscribe_no_launch (set_w_pending w2 []) t f) as N.
  destruct (subscribe (set_w_pending w2 [])) as [w3 c3]. cbn [snd] in *.
  intro H. apply in_app_or in H. destruct H as [H|H]; [exact H|contradiction].
Qed.

Lemma answer_launches w t f : In (CLaunch t f) (snd (answer w)) -> f = w_mem w.
Proof.
  unfold answer, answer_with. destruct (w_pending w) as [|[t0 s] rest]; [intros []|].
    destruct (memN s recon_kill_states && negb (recon_guarded && in_roster t0 (w_roster w))); cbn.
    + intros [H|[]]. discriminate.
    + intros [].
Qed.

Lemma step_launches w o t f : In (CLaunch t f) (snd (step w o)) -> f = w_mem w.
Proof.
  destruct o as [k|e|e keep|e|t1|t1 s| |v| |p k| |k s|t1|t1| |p k| |om|om|eh|tr|ts]; cbn [step]; try (cbn; intros []; fail).
  - apply create_launches.
  - unfold destroy. destruct (negb (memN e (w_envs w))); [intros []|].
    destruct keep; cbn; [intros []|]. intro H. apply in_map_iff in H. destruct H as [x [E _]]. discriminate.
  - unfold destroy. destruct (negb (memN e (w_envs w))); [intros []|]. cbn.
    intro H. apply in_map_iff in H. destruct H as [x [E _]]. discriminate.
  - destruct (memN s mesos_live_states); intros [].
  - cbn. intro H. apply in_map_iff in H. destruct H as [x [E _]]. discriminate.
  - cbn. intros [H|[H|[]]]; discriminate.
  - apply crashstep_launches.
  - apply answer_launches.
  - apply create_held_launches.
  - destruct (alive_at t1 (w_master w)); intros [].
  - destruct (alive_at t1 (w_master w)); intros [].
  - intro H. apply resub_launches in H. apply (crashstep_launches w p k t f H).
  - intro H. apply resub_launches in H. destruct (subscribe_no_launch w t f H).
  - intro H. destruct (subscribe_no_launch w t f H).
  - rewrite answer_with_eq. apply answer_launches.
  - cbn. intro H. apply in_map_iff in H. destruct H as [x [E _]]. discriminate.
Qed.

(* the framework id is in the store before any task is launched under it *)
Lemma stored_before_launch fo ops o t f :
  no_tamper ops = true ->
  In (CLaunch t f) (snd (step (after (boot fo) ops) o)) ->
  w_store (after (boot fo) ops) = Some f /\ f <> 0.
Proof.
  intros T H. apply step_launches in H. subst f.
  assert (I : InvS (after (boot fo) ops)).
  { apply (run_invariant InvS (fun o => negb (is_tamper o))); [|exact T|apply invS_boot].
    intros w o' To. apply invS_step. apply negb_true_iff. exact To. }
  destruct I as [M [S _]]. split; assumption.
Qed.

(* ================================================================ restart kills orphans *)
Definition prephase (w : world) (p : point) (k : N) : world * list call :=
  match p with
  | PIdle => (w, [])
  | PBeforeLaunch =>
    let '(w0, c0) := cleanup w in
    (mkW (w_failover w0) (w_store w0) (w_nextfw w0) (w_master w0) (w_mem w0) (w_roster w0) (w_envs w0)
         (w_ntask w0) (N.succ (w_nenv w0)) (w_pending w0), c0)
  | PAfterLaunch | PMidConfigure => create w k
  end.

Lemma step_crash w p k :
  step w (OCrash p k) =
  let '(w1, c1) := prephase w p k in
  let '(w2, c2) := subscribe (crash w1) in (w2, c1 ++ c2).
Proof. reflexivity. Qed.

Definition live_ok (m : list mtask) : Prop :=
  forall t, In t m -> mt_alive t = true -> memN (mt_state t) mesos_live_states = true.

Lemma live_ok_master_kill ts m : live_ok m -> live_ok (master_kill ts m).
Proof.
  intros H x Hx A. apply master_kill_in in Hx. destruct Hx as [y [Hy [_ [_ [S L]]]]].
  rewrite S. apply H; [exact Hy|]. apply L. exact A.
Qed.

Lemma live_ok_launch w k : live_ok (w_master w) -> live_ok (w_master (fst (launch w k))).
Proof.
  intros H x Hx A. cbn in Hx. apply in_app_or in Hx. destruct Hx as [Hx|Hx].
  - apply H; assumption.
  - apply in_map_iff in Hx. destruct Hx as [i [E _]]. subst x. cbn. apply running_live.
Qed.

Lemma live_ok_cleanup w : live_ok (w_master w) -> live_ok (w_master (fst (cleanup w))).
Proof. intro H. cbn. apply live_ok_master_kill. exact H. Qed.

Lemma live_ok_create w k : live_ok (w_master w) -> live_ok (w_master (fst (create w k))).
Proof.
  intro H. unfold create. destruct (cleanup w) as [w1 c1] eqn:E1.
  pose proof (live_ok_cleanup w H) as H1. rewrite E1 in H1. cbn [fst] in H1.
  destruct (launch w1 k) as [w2 c2] eqn:E2.
  pose proof (live_ok_launch w1 k H1) as H2. rewrite E2 in H2. exact H2.
Qed.

Lemma live_ok_master_state ts s m :
  memN s mesos_live_states = true -> live_ok m -> live_ok (master_state ts s m).
Proof.
  intros L H x Hx A. apply master_state_in in Hx. destruct Hx as [y [Hy [_ [_ [Ea [E|E]]]]]].
  - rewrite E. apply H; [exact Hy|]. rewrite <- Ea. exact A.
  - rewrite E. exact L.
Qed.

Lemma live_ok_create_held w k s :
  live_ok (w_master w) -> live_ok (w_master (fst (create_held w k s))).
Proof.
  intro H. unfold create_held. pose proof (live_ok_create w k H) as H1.
  destruct (create w k) as [w1 c1]. cbn [fst] in *. cbn.
  apply live_ok_master_state; [apply held_state_live|exact H1].
Qed.

Lemma live_ok_destroy w e keep eff :
  live_ok (w_master w) -> live_ok (w_master (fst (destroy w e keep eff))).
Proof.
  intro H. unfold destroy. destruct (negb (memN e (w_envs w))); [exact H|].
  destruct keep; cbn; [exact H|]. destruct eff; [apply live_ok_master_kill|]; exact H.
Qed.

Lemma live_ok_prephase w p k : live_ok (w_master w) -> live_ok (w_master (fst (prephase w p k))).
Proof.
  intro H. destruct p; cbn [prephase].
  - exact H.
  - cbn. apply live_ok_master_kill. exact H.
  - apply live_ok_create. exact H.
  - apply live_ok_create. exact H.
Qed.

Lemma live_ok_answer w : live_ok (w_master w) -> live_ok (w_master (fst (answer w))).
Proof.
  intro H. unfold answer, answer_with. destruct (w_pending w) as [|[t s] rest]; [exact H|].
    destruct (memN s recon_kill_states && negb (recon_guarded && in_roster t (w_roster w))); cbn.
    + apply live_ok_master_kill. exact H.
    + exact H.
Qed.

Lemma live_ok_step w o : live_ok (w_master w) -> live_ok (w_master (fst (step w o))).
Proof.
  intro H. destruct o as [k|e|e keep|e|t|t s| |v| |p k| |k s|t|t| |p k| |om|om|eh|tr|ts];
    [cbn [step]|cbn [step]|cbn [step]|cbn [step]|cbn [step]|cbn [step]|cbn [step]|cbn [step]|cbn [step]
    |rewrite step_crash|cbn [step]|cbn [step]|cbn [step]|cbn [step]|cbn [step]|cbn [step]|cbn [step]|cbn [step]|cbn [step]|cbn [step]|cbn [step]|cbn [step]].
  - apply live_ok_create. exact H.
  - exact H.
  - apply live_ok_destroy. exact H.
  - apply live_ok_destroy. exact H.
  - cbn. apply live_ok_master_kill. exact H.
  - destruct (memN s mesos_live_states) eqn:L; [|exact H]. cbn.
    intros x Hx A. apply in_map_iff in Hx. destruct Hx as [y [E Hy]].
    destruct (N.eqb (mt_id y) t && mt_alive y) eqn:C; subst x; cbn.
    + exact L.
    + apply H; assumption.
  - apply live_ok_cleanup. exact H.
  - exact H.
  - exact H.
  - pose proof (live_ok_prephase w p k H) as H1.
    destruct (prephase w p k) as [w1 c1]. cbn [fst] in H1. cbn. exact H1.
  - apply live_ok_answer. exact H.
  - apply live_ok_create_held. exact H.
  - destruct (alive_at t (w_master w)); [|exact H]. cbn.
    apply live_ok_master_state; [apply running_live|exact H].
  - destruct (alive_at t (w_master w)); exact H.
  - exact H.
  - change (crash_step w p k) with (step w (OCrash p k)). rewrite step_crash.
    pose proof (live_ok_prephase w p k H) as H1.
    destruct (prephase w p k) as [w1 c1]. cbn [fst] in H1. cbn. exact H1.
  - cbn. exact H.
  - exact H.
  - rewrite answer_with_eq. apply live_ok_answer. exact H.
  - cbn [fst]. apply live_ok_destroy. exact H.
  - cbn. exact H.
  - cbn. apply live_ok_master_kill. exact H.
Qed.

Lemma live_ok_run w ops : live_ok (w_master w) -> live_ok (w_master (after w ops)).
Proof.
  intro H. apply (run_invariant (fun w => live_ok (w_master w)) (fun _ => true)).
  - intros w0 o _. apply live_ok_step.
  - apply forallb_forall. reflexivity.
  - exact H.
Qed.

Lemma inv1_prephase w p k : Inv1 w -> Inv1 (fst (prephase w p k)).
Proof.
  intro H. destruct p; cbn [prephase].
  - exact H.
  - destruct (inv1_cleanup w H) as [[F [M [S A]]] _]. cbn. cbn in F, M, S, A. repeat split; assumption.
  - apply inv1_create. exact H.
  - apply inv1_create. exact H.
Qed.

(* the invariant of a life after its reconciliation started *)
Definition covered (m : list mtask) (ros : list rtask) (pend : list (N * N)) : Prop :=
  forall t, In t m -> mt_alive t = true ->
            (exists s, In (mt_id t, s) pend) \/ in_roster (mt_id t) ros = true.
Definition pend_live (p : list (N * N)) : Prop :=
  forall t s, In (t, s) p -> memN s mesos_live_states = true.
Definition roster_lt (ros : list rtask) (n : N) : Prop := forall r, In r ros -> rt_id r < n.

(* (whether a roster task is ACTIVE plays no part: a roster task of a live environment can be
   INACTIVE while the master has it alive - launch window, TASK_LOST) *)
Definition Inv2 (w : world) : Prop :=
  covered (w_master w) (w_roster w) (w_pending w) /\ pend_live (w_pending w).

(* doKillTasks sends KILL to every task of the set it drops from the roster, ACTIVE or not (the
   regenerated kill_inactive = true: without the second loop of doKillTasks a held or lost task
   would leave the roster alive and unowned, and restart_kills_orphans would be false) *)
Lemma kill_set_all victims : kill_set victims = map rt_id victims.
Proof.
  assert (K : kill_inactive = true) by reflexivity. unfold kill_set.
  induction victims as [|v vs IH]; [reflexivity|].
  cbn [filter]. rewrite K, orb_true_r. cbn [map]. rewrite K in IH. rewrite IH. reflexivity.
Qed.

(* a set of roster tasks leaves the roster and is killed at the master *)
Lemma purge_ok m ros ros1 victims pend :
  (forall t, in_roster t ros1 = in_roster t ros) ->
  covered m ros pend ->
  covered (master_kill (kill_set victims) m) (remove_ids (map rt_id victims) ros1) pend.
Proof.
  intros Hin C x Hx Ax. apply master_kill_in in Hx. destruct Hx as [y [Hy [Ei [_ [_ L]]]]].
  destruct (L Ax) as [Ay Ny]. rewrite Ei. destruct (C y Hy Ay) as [P|R]; [left; exact P|]. right.
  rewrite kill_set_all in Ny.
  rewrite <- Hin in R. apply in_roster_spec in R. destruct R as [r [Hr1 Er]].
  apply in_roster_spec. exists r. split; [|exact Er]. apply remove_ids_in. split; [exact Hr1|].
  rewrite Er. exact Ny.
Qed.

Lemma roster_lt_remove ts ros n : roster_lt ros n -> roster_lt (remove_ids ts ros) n.
Proof. intros H r Hr. apply remove_ids_in in Hr. apply H. apply Hr. Qed.

Lemma roster_lt_release e ros n : roster_lt ros n -> roster_lt (release e ros) n.
Proof.
  intros H r Hr. apply release_in in Hr. destruct Hr as [q [Hq [E _]]]. rewrite E. apply H. exact Hq.
Qed.

Lemma roster_lt_deactivate ts ros n : roster_lt ros n -> roster_lt (roster_deactivate ts ros) n.
Proof.
  intros L r Hr. apply roster_deactivate_in in Hr. destruct Hr as [q [Hq [E _]]].
  rewrite E. apply L. exact Hq.
Qed.

Lemma roster_lt_activate ts ros n : roster_lt ros n -> roster_lt (roster_activate ts ros) n.
Proof.
  intros L r Hr. apply roster_activate_in in Hr. destruct Hr as [q [Hq [E _]]].
  rewrite E. apply L. exact Hq.
Qed.

(* the master's view of some tasks and the ACTIVE marks of the roster change: nothing is uncovered *)
Lemma covered_relabel m m' ros ros' pend :
  (forall x, In x m' -> exists y, In y m /\ mt_id x = mt_id y /\ mt_alive x = mt_alive y) ->
  (forall t, in_roster t ros' = in_roster t ros) ->
  covered m ros pend -> covered m' ros' pend.
Proof.
  intros Hm Hr C x Hx Ax. destruct (Hm x Hx) as [y [Hy [Ei Ea]]]. rewrite Ei, Hr.
  apply (C y Hy). rewrite <- Ea. exact Ax.
Qed.

Lemma master_state_same ts s m x :
  In x (master_state ts s m) -> exists y, In y m /\ mt_id x = mt_id y /\ mt_alive x = mt_alive y.
Proof.
  intro Hx. apply master_state_in in Hx. destruct Hx as [y [Hy [Ei [_ [Ea _]]]]]. eauto.
Qed.

Lemma inv2_cleanup w : Inv2 w -> Inv2 (fst (cleanup w)).
Proof.
  intros [C P]. unfold Inv2. cbn. split; [|exact P].
  apply (purge_ok _ (w_roster w)); [intro t; reflexivity|exact C].
Qed.

Lemma inv2_cleanup_ids w ts : Inv2 w -> Inv2 (fst (cleanup_ids w ts)).
Proof.
  intros [C P]. unfold Inv2. cbn. split; [|exact P].
  apply (purge_ok _ (w_roster w)); [intro t; reflexivity|exact C].
Qed.

Lemma inv2_launch w k : Inv2 w -> Inv2 (fst (launch w k)).
Proof.
  intros [C P]. unfold Inv2. cbn. split; [|exact P].
  intros x Hx Ax. apply in_app_or in Hx. destruct Hx as [Hx|Hx].
  - destruct (C x Hx Ax) as [Q|R]; [left; exact Q|]. right. rewrite in_roster_app, R. reflexivity.
  - right. apply in_map_iff in Hx. destruct Hx as [i [E Hi]]. subst x. cbn.
    rewrite in_roster_app. apply orb_true_iff. right. apply in_roster_spec.
    exists (mkR i (Some (w_nenv w)) true). split; [|reflexivity]. apply in_map_iff. eauto.
Qed.

Lemma inv2_create w k : Inv2 w -> Inv2 (fst (create w k)).
Proof.
  intro H. unfold create. destruct (cleanup w) as [w1 c1] eqn:E1.
  pose proof (inv2_cleanup w H) as H1. rewrite E1 in H1. cbn [fst] in H1.
  destruct (launch w1 k) as [w2 c2] eqn:E2.
  pose proof (inv2_launch w1 k H1) as H2. rewrite E2 in H2. exact H2.
Qed.

Lemma inv2_create_held w k s : Inv2 w -> Inv2 (fst (create_held w k s)).
Proof.
  intro H. unfold create_held. pose proof (inv2_create w k H) as H1.
  destruct (create w k) as [w1 c1]. cbn [fst] in *. destruct H1 as [C P].
  unfold Inv2. cbn. split; [|exact P].
  apply (covered_relabel (w_master w1) _ (w_roster w1)); [|intro t; apply roster_deactivate_in_roster|exact C].
  intros x Hx. apply (master_state_same _ _ _ _ Hx).
Qed.

Lemma inv2_destroy w e keep : Inv2 w -> Inv2 (fst (destroy w e keep true)).
Proof.
  intros H. unfold destroy. destruct (negb (memN e (w_envs w))); [exact H|].
  destruct H as [C P]. destruct keep; unfold Inv2; cbn.
  - split; [|exact P].
    intros x Hx Ax. destruct (C x Hx Ax) as [Q|R]; [left; exact Q|]. right.
    rewrite release_in_roster. exact R.
  - split; [|exact P].
    apply (purge_ok _ (w_roster w)); [intro t; apply release_in_roster|exact C].
Qed.

Lemma kill_one_ok m ros pend pend' t0 :
  covered m ros pend ->
  (forall t s, In (t, s) pend -> t <> t0 -> In (t, s) pend') ->
  covered (master_kill [t0] m) (roster_deactivate [t0] ros) pend'.
Proof.
  intros C Hp x Hx Ax. apply master_kill_in in Hx. destruct Hx as [y [Hy [Ei [_ [_ L]]]]].
  destruct (L Ax) as [Ay Ny]. rewrite Ei. rewrite roster_deactivate_in_roster.
  destruct (C y Hy Ay) as [[s Q]|R]; [left|right; exact R].
  exists s. apply Hp; [exact Q|]. intro E. rewrite memN_single in Ny.
  apply N.eqb_neq in Ny. contradiction.
Qed.

Lemma inv2_answer w : Inv2 w -> Inv2 (fst (answer w)).
Proof.
  intros [C P]. unfold answer, answer_with. destruct (w_pending w) as [|[t0 s] rest] eqn:EP.
  - cbn [fst]. unfold Inv2. rewrite EP. auto.
  - assert (Prest : pend_live rest) by (intros t s' H; apply (P t s'); right; exact H).
    assert (Ks : memN s recon_kill_states = true).
    { apply live_state_is_killed. apply (P t0 s). left. reflexivity. }
    rewrite Ks. cbn [andb].
    change (refreshed 0 t0 (roster_activate [t0] (w_roster w))) with (roster_activate [t0] (w_roster w)).
    remember (if memN s status_activating then roster_activate [t0] (w_roster w) else w_roster w)
      as ros' eqn:Eros.
    assert (IR : forall t, in_roster t ros' = in_roster t (w_roster w)).
    { intro t. subst ros'. destruct (memN s status_activating); [apply roster_activate_in_roster|reflexivity]. }
    clear Eros.
    destruct (negb (recon_guarded && in_roster t0 (w_roster w))) eqn:G; unfold Inv2; cbn.
    + split; [|exact Prest].
      apply (kill_one_ok (w_master w) (w_roster w) ((t0, s) :: rest) rest t0); [exact C|].
      intros t s' [Q|Q] Ne; [inversion Q; subst; exfalso; apply Ne; reflexivity|exact Q].
    + split; [|exact Prest].
      intros x Hx Ax. rewrite IR. destruct (C x Hx Ax) as [[s' [Q|Q]]|R].
      * inversion Q; subst. right. apply negb_false_iff in G. apply andb_true_iff in G. apply G.
      * left. eauto.
      * right. exact R.
Qed.

Lemma inv2_step w o : tame o = true -> Inv2 w -> Inv2 (fst (step w o)).
Proof.
  intros T H. destruct o as [k|e|e keep|e|t|t s| |v| |p k| |k s|t|t| |p k| |om|om|eh|tr|ts]; cbn [step]; try discriminate.
  - apply inv2_create. exact H.
  - exact H.
  - apply inv2_destroy. exact H.
  - destruct H as [C P]. unfold Inv2. cbn. split; [|exact P].
    apply (kill_one_ok (w_master w) (w_roster w) (w_pending w) (w_pending w) t); auto.
  - destruct (memN s mesos_live_states); [|exact H].
    destruct H as [C P]. unfold Inv2. cbn. split; [|exact P].
    intros x Hx Ax. apply in_map_iff in Hx. destruct Hx as [y [E Hy]].
    destruct (N.eqb (mt_id y) t && mt_alive y) eqn:B; subst x; cbn in *.
    + apply andb_true_iff in B. apply (C y Hy). apply B.
    + apply (C y Hy Ax).
  - apply inv2_cleanup. exact H.
  - apply inv2_answer. exact H.
  - apply inv2_create_held. exact H.
  - destruct (alive_at t (w_master w)); [|exact H]. destruct H as [C P]. unfold Inv2. cbn.
    split; [|exact P].
    apply (covered_relabel (w_master w) _ (w_roster w)); [|intro t'; apply roster_activate_in_roster|exact C].
    intros x Hx. apply (master_state_same _ _ _ _ Hx).
  - destruct (alive_at t (w_master w)); [|exact H]. destruct H as [C P]. unfold Inv2. cbn.
    split; [|exact P].
    apply (covered_relabel (w_master w) _ (w_roster w)); [|intro t'; apply roster_deactivate_in_roster|exact C].
    intros x Hx. exists x. auto.
  - rewrite answer_with_eq. apply inv2_answer. exact H.
  - apply inv2_cleanup_ids. exact H.
Qed.

(* EVERY (re)subscription is followed by the implicit reconciliation (the regenerated
   reconcile_every_subscribed = true: the handler installed in the SUBSCRIBED chain sends RECONCILE
   unconditionally), and the master answers with every live task of the framework: whatever was
   lost before, after a subscription everything alive at the master has an answer on its way *)
Lemma inv2_after_subscribe w :
  Inv1 w -> live_ok (w_master w) -> Inv2 (fst (subscribe w)).
Proof.
  assert (E : reconcile_every_subscribed = true) by reflexivity.
  intros [F [M [S A]]] L1. unfold subscribe. rewrite F, M. cbn. unfold Inv2. cbn. split.
  - intros x Hx Ax. left. exists (mt_state x). unfold snapshot. apply in_map_iff.
    exists x. split; [reflexivity|]. apply filter_In. split; [exact Hx|].
    rewrite Ax, (A x Hx). reflexivity.
  - intros t s Hts. unfold snapshot in Hts. apply in_map_iff in Hts. destruct Hts as [x [E' Hx]].
    apply filter_In in Hx. destruct Hx as [Hx B]. apply andb_true_iff in B. inversion E'; subst.
    apply L1; [exact Hx|apply B].
Qed.

(* a restart establishes the invariant *)
Lemma inv2_after_crash w p k :
  Inv1 w -> live_ok (w_master w) -> Inv2 (fst (step w (OCrash p k))).
Proof.
  intros H1 HL. rewrite step_crash.
  pose proof (inv1_prephase w p k H1) as I1. pose proof (live_ok_prephase w p k HL) as L1.
  destruct (prephase w p k) as [w1 c1]. cbn [fst] in I1, L1.
  destruct I1 as [F [M [S A]]].
  unfold subscribe, crash. cbn. rewrite F, S. cbn. unfold Inv2. cbn. repeat split.
  - intros x Hx Ax. left. exists (mt_state x). unfold snapshot. apply in_map_iff.
    exists x. split; [reflexivity|]. apply filter_In. split; [exact Hx|].
    rewrite Ax, (A x Hx). reflexivity.
  - intros t s Hts. unfold snapshot in Hts. apply in_map_iff in Hts. destruct Hts as [x [E Hx]].
    apply filter_In in Hx. destruct Hx as [Hx B]. apply andb_true_iff in B. inversion E; subst.
    apply L1; [exact Hx|apply B].
Qed.

(* after a restart at any crash point, whatever the new life does and however the answers
   interleave with it: once every answer is processed, whatever is alive at the master is in
   the roster of the new life *)
Lemma restart_kills_orphans ops p k ops' :
  no_tamper ops = true -> forallb tame ops' = true ->
  let w1 := fst (step (after (boot true) ops) (OCrash p k)) in
  let w2 := after w1 ops' in
  w_pending w2 = [] ->
  forall t, In t (w_master w2) -> mt_alive t = true -> in_roster (mt_id t) (w_roster w2) = true.
Proof.
  intros T Tm w1 w2 E t Ht At.
  assert (I1 : Inv1 (after (boot true) ops)) by (apply inv1_run; [exact T|apply inv1_boot]).
  assert (L0 : live_ok (w_master (after (boot true) ops))).
  { apply live_ok_run. unfold boot. cbn. intros x []. }
  assert (I2 : Inv2 w2).
  { apply (run_invariant Inv2 tame); [apply inv2_step|exact Tm|].
    apply inv2_after_crash; assumption. }
  destruct I2 as [C _]. destruct (C t Ht At) as [[s Q]|R]; [|exact R].
  rewrite E in Q. destruct Q.
Qed.

(* ---------- the quiescent form: right after the restart and its answers ---------- *)
Lemma answer_pending_length w :
  length (w_pending (fst (answer w))) = pred (length (w_pending w)).
Proof.
  unfold answer, answer_with. destruct (w_pending w) as [|[t s] rest] eqn:E; [cbn; rewrite E; reflexivity|].
  destruct (memN s recon_kill_states && negb (recon_guarded && in_roster t (w_roster w))); reflexivity.
Qed.

Lemma answer_roster_nil w : w_roster w = [] -> w_roster (fst (answer w)) = [].
Proof.
  intro E. unfold answer, answer_with. destruct (w_pending w) as [|[t s] rest]; [exact E|].
  destruct (memN s status_activating);
    destruct (memN s recon_kill_states && negb (recon_guarded && in_roster t (w_roster w))); cbn;
    rewrite E; reflexivity.
Qed.

Lemma drain_spec n w :
  length (w_pending w) = n ->
  w_pending (after w (repeat OAnswer n)) = [] /\
  (w_roster w = [] -> w_roster (after w (repeat OAnswer n)) = []) /\
  w_envs (after w (repeat OAnswer n)) = w_envs w.
Proof.
  revert w. induction n as [|n IH]; intros w L.
  - cbn. destruct (w_pending w); [auto|discriminate].
  - cbn [repeat]. rewrite after_cons. cbn [step].
    destruct (IH (fst (answer w))) as [P [R E]].
    + rewrite answer_pending_length, L. reflexivity.
    + split; [exact P|]. split.
      * intro Z. apply R. apply answer_roster_nil. exact Z.
      * rewrite E. apply answer_fields.
Qed.

Lemma crash_roster_nil w p k :
  w_roster (fst (step w (OCrash p k))) = [] /\ w_envs (fst (step w (OCrash p k))) = [].
Proof. rewrite step_crash. destruct (prephase w p k) as [w1 c1]. cbn. split; reflexivity. Qed.

Lemma forallb_tame_answers n : forallb tame (repeat OAnswer n) = true.
Proof. induction n; cbn; auto. Qed.

Lemma restart_quiescent ops p k :
  no_tamper ops = true ->
  let w2 := fst (hstep (after (boot true) ops) (OCrash p k)) in
  (forall t, In t (w_master w2) -> mt_alive t = false) /\ w_roster w2 = [] /\ w_envs w2 = [].
Proof.
  intros T w2. subst w2. rewrite hstep_is_run.
  set (w := after (boot true) ops). set (w1 := fst (step w (OCrash p k))).
  set (n := length (w_pending w1)).
  change (fst (run w (OCrash p k :: repeat OAnswer n))) with (after w (OCrash p k :: repeat OAnswer n)).
  rewrite after_cons. fold w1.
  destruct (drain_spec n w1 eq_refl) as [P [R E]].
  destruct (crash_roster_nil w p k) as [R1 E1]. fold w1 in R1, E1.
  specialize (R R1). split; [|split; [exact R|rewrite E; exact E1]].
  intros t Ht. destruct (mt_alive t) eqn:A; [|reflexivity]. exfalso.
  pose proof (restart_kills_orphans ops p k (repeat OAnswer n) T (forallb_tame_answers n)) as K.
  cbn zeta in K. fold w in K. fold w1 in K. specialize (K P t Ht A).
  rewrite R in K. discriminate.
Qed.

(* ================================================================ owned tasks *)
Definition owned_c (envs : list N) (ros : list rtask) (t : N) : bool :=
  existsb (fun r => N.eqb (rt_id r) t && owned_by envs r) ros.

Lemma owned_is_owned_c w t : owned w t = owned_c (w_envs w) (w_roster w) t.
Proof. reflexivity. Qed.

Lemma owned_c_spec envs ros t :
  owned_c envs ros t = true <->
  exists r e, In r ros /\ rt_id r = t /\ rt_env r = Some e /\ memN e envs = true.
Proof.
  unfold owned_c, owned_by. rewrite existsb_exists. split.
  - intros [r [Hr B]]. apply andb_true_iff in B. destruct B as [B1 B2]. apply N.eqb_eq in B1.
    destruct (rt_env r) as [e|] eqn:E; [|discriminate]. exists r, e. auto.
  - intros [r [e [Hr [I [E M]]]]]. exists r. split; [exact Hr|]. rewrite E, M.
    rewrite (proj2 (N.eqb_eq _ _) I). reflexivity.
Qed.

(* the repaired rule (roster consulted) satisfies the full statement *)
Lemma guarded_spares_owned w ops : recon_guarded = true -> spares_owned w ops = true.
Proof.
  intro G. revert w. induction ops as [|o ops IH]; intro w; [reflexivity|].
  cbn [spares_owned]. apply andb_true_iff. split; [|apply IH].
  assert (HO : negb (hits_owned w) = true).
  { apply negb_true_iff. unfold hits_owned.
    destruct (w_pending w) as [|[t s] rest]; [reflexivity|].
    destruct (owned w t) eqn:O; [|apply andb_false_r].
    assert (IR : in_roster t (w_roster w) = true).
    { rewrite owned_is_owned_c in O. apply owned_c_spec in O. destruct O as [r [e [Hr [I _]]]].
      apply in_roster_spec. eauto. }
    rewrite G, IR. cbn. rewrite andb_false_r. reflexivity. }
  destruct o; try reflexivity; exact HO.
Qed.

(* the regression witness (what the rule without the roster lookup got wrong) *)
Lemma witness_no_tamper : no_tamper c18_witness = true.
Proof. reflexivity. Qed.

Lemma witness_spares : spares_owned (boot true) c18_witness = recon_guarded.
Proof. vm_compute. reflexivity. Qed.

(* ---------- every task alive before the restart receives KILL ---------- *)
Lemma drain_kills n : forall w,
  w_roster w = [] -> pend_live (w_pending w) -> length (w_pending w) = n ->
  forall t s, In (t, s) (w_pending w) -> In (CKill t) (calls_of w (repeat OAnswer n)).
Proof.
  induction n as [|n IH]; intros w R P L t s H.
  - destruct (w_pending w); [destruct H|discriminate].
  - cbn [repeat]. rewrite calls_cons. cbn [step]. apply in_or_app.
    unfold answer, answer_with. destruct (w_pending w) as [|[t0 s0] rest] eqn:EP; [discriminate|].
    assert (Ks : memN s0 recon_kill_states = true).
    { apply live_state_is_killed. apply (P t0 s0). left. reflexivity. }
    rewrite Ks, R. cbn [in_roster existsb andb negb]. rewrite andb_false_r. cbn [negb fst snd].
    destruct H as [H|H].
    + inversion H; subst. left. left. reflexivity.
    + right. apply (IH _) with (s := s).
      * cbn. reflexivity.
      * cbn. intros t1 s1 Q. apply (P t1 s1). right. exact Q.
      * cbn. cbn in L. lia.
      * cbn. exact H.
Qed.

Lemma master_kill_keeps ts m x :
  In x m -> mt_alive x = true ->
  memN (mt_id x) ts = true \/ In x (master_kill ts m).
Proof.
  intros Hx A. destruct (memN (mt_id x) ts) eqn:M; [left; reflexivity|right].
  unfold master_kill. apply in_map_iff. exists x. rewrite M. auto.
Qed.

Lemma cleanup_keeps w x :
  In x (w_master w) -> mt_alive x = true ->
  In (CKill (mt_id x)) (snd (cleanup w)) \/ In x (w_master (fst (cleanup w))).
Proof.
  intros Hx A. cbn.
  destruct (master_kill_keeps
              (kill_set (filter (fun r => match rt_env r with None => true | Some _ => false end) (w_roster w)))
              (w_master w) x Hx A) as [K|K].
  - left. apply in_map. apply memN_In. exact K.
  - right. exact K.
Qed.

Lemma prephase_keeps w p k x :
  In x (w_master w) -> mt_alive x = true ->
  In (CKill (mt_id x)) (snd (prephase w p k)) \/ In x (w_master (fst (prephase w p k))).
Proof.
  intros Hx A. destruct p; cbn [prephase].
  - right. exact Hx.
  - destruct (cleanup_keeps w x Hx A) as [K|K]; [left|right]; exact K.
  - unfold create. destruct (cleanup_keeps w x Hx A) as [K|K]; cbn in K |- *.
    + left. apply in_or_app. left. exact K.
    + right. apply in_or_app. left. exact K.
  - unfold create. destruct (cleanup_keeps w x Hx A) as [K|K]; cbn in K |- *.
    + left. apply in_or_app. left. exact K.
    + right. apply in_or_app. left. exact K.
Qed.

Lemma restart_kill_calls ops p k x :
  no_tamper ops = true ->
  let w := after (boot true) ops in
  In x (w_master w) -> mt_alive x = true ->
  In (CKill (mt_id x)) (snd (hstep w (OCrash p k))).
Proof.
  intros T w Hx A.
  assert (I1 : Inv1 w) by (apply inv1_run; [exact T|apply inv1_boot]).
  assert (L0 : live_ok (w_master w)) by (apply live_ok_run; unfold boot; cbn; intros y []).
  unfold hstep. cbn [drain_op]. rewrite step_crash.
  pose proof (inv1_prephase w p k I1) as I1'. pose proof (live_ok_prephase w p k L0) as L1.
  pose proof (prephase_keeps w p k x Hx A) as K.
  destruct (prephase w p k) as [w1 c1]. cbn [fst snd] in I1', L1, K.
  destruct I1' as [F [M [S FA]]].
  destruct (subscribe (crash w1)) as [w2 c2] eqn:E2.
  assert (W2 : w2 = fst (subscribe (crash w1))) by (rewrite E2; reflexivity).
  destruct (run w2 (repeat OAnswer (length (w_pending w2)))) as [w3 c3] eqn:E3. cbn [snd].
  destruct K as [K|K].
  - apply in_or_app. left. apply in_or_app. left. exact K.
  - apply in_or_app. right.
    change c3 with (snd (w3, c3)). rewrite <- E3.
    apply (drain_kills (length (w_pending w2)) w2) with (s := mt_state x).
    + subst w2. reflexivity.
    + subst w2. unfold subscribe, crash. cbn. rewrite F, S. cbn.
      intros t s Hts. unfold snapshot in Hts. apply in_map_iff in Hts. destruct Hts as [y [E Hy]].
      apply filter_In in Hy. destruct Hy as [Hy B]. apply andb_true_iff in B. inversion E; subst.
      apply L1; [exact Hy|apply B].
    + reflexivity.
    + subst w2. unfold subscribe, crash. cbn. rewrite F, S. cbn.
      unfold snapshot. apply in_map_iff. exists x. split; [reflexivity|].
      apply filter_In. split; [exact K|]. rewrite A, (FA x K). reflexivity.
Qed.

(* ================================================================ the repaired rule:
   reconciliation answers leave every task of the roster alone *)
Lemma spares_owned_full w ops : spares_owned w ops = true.
Proof. apply guarded_spares_owned. reflexivity. Qed.

Lemma roster_deactivate_absent t ros :
  in_roster t ros = false -> roster_deactivate [t] ros = ros.
Proof.
  unfold in_roster, roster_deactivate. induction ros as [|q ros IH]; intro H; [reflexivity|].
  cbn [existsb] in H. apply orb_false_iff in H. destruct H as [Hq Hr].
  cbn [map]. rewrite memN_single, Hq, (IH Hr). reflexivity.
Qed.

Lemma master_kill_spares t m x :
  In x m -> N.eqb (mt_id x) t = false -> In x (master_kill [t] m).
Proof.
  intros Hx Ne. unfold master_kill. apply in_map_iff. exists x. split; [|exact Hx].
  rewrite memN_single, Ne. reflexivity.
Qed.

(* the roster keeps its tasks, in order, with their locks; none loses its ACTIVE mark *)
Definition keeps (ros ros' : list rtask) : Prop :=
  Forall2 (fun r r' => rt_id r' = rt_id r /\ rt_env r' = rt_env r /\
                       (rt_active r = true -> rt_active r' = true)) ros ros'.

Lemma keeps_refl ros : keeps ros ros.
Proof. induction ros; constructor; auto. Qed.

Lemma keeps_trans a b c : keeps a b -> keeps b c -> keeps a c.
Proof.
  intro H. revert c. induction H as [|x y a b [I [E A]] H IH]; intros c Hc; inversion Hc; subst.
  - constructor.
  - constructor; [|apply IH; assumption].
    destruct H2 as [I2 [E2 A2]]. repeat split; [congruence|congruence|auto].
Qed.

Lemma keeps_activate ts ros : keeps ros (roster_activate ts ros).
Proof.
  induction ros as [|q ros IH]; cbn; constructor; [|exact IH].
  destruct (memN (rt_id q) ts); cbn; auto.
Qed.

Lemma keeps_in_roster ros ros' t : keeps ros ros' -> in_roster t ros' = in_roster t ros.
Proof.
  intro H. induction H as [|x y a b [I _] H IH]; [reflexivity|].
  unfold in_roster in *. cbn. rewrite I, IH. reflexivity.
Qed.

Definition untouched (w w' : world) (cs : list call) : Prop :=
  keeps (w_roster w) (w_roster w') /\ w_envs w' = w_envs w /\
  (forall x, In x (w_master w) -> in_roster (mt_id x) (w_roster w) = true -> In x (w_master w')) /\
  (forall t, In (CKill t) cs -> in_roster t (w_roster w) = false).

Lemma answer_untouched w : untouched w (fst (answer w)) (snd (answer w)).
Proof.
  assert (G : recon_guarded = true) by reflexivity.
  unfold untouched, answer, answer_with. destruct (w_pending w) as [|[t s] rest].
  { cbn. split; [apply keeps_refl|]. repeat split; auto. intros t []. }
  rewrite G. cbn [andb].
  change (refreshed 0 t (roster_activate [t] (w_roster w))) with (roster_activate [t] (w_roster w)).
  remember (if memN s status_activating then roster_activate [t] (w_roster w) else w_roster w)
    as ros' eqn:Eros.
  assert (KP : keeps (w_roster w) ros').
  { subst ros'. destruct (memN s status_activating); [apply keeps_activate|apply keeps_refl]. }
  clear Eros.
  destruct (in_roster t (w_roster w)) eqn:IR.
  - rewrite andb_false_r. cbn. split; [exact KP|]. repeat split; auto. intros t' [].
  - cbn [negb]. rewrite andb_true_r. destruct (memN s recon_kill_states); cbn.
    + split; [rewrite (roster_deactivate_absent _ _ IR); apply keeps_refl|]. split; [reflexivity|]. split.
      * intros x Hx Rx. apply master_kill_spares; [exact Hx|].
        destruct (N.eqb (mt_id x) t) eqn:E; [|reflexivity].
        apply N.eqb_eq in E. rewrite E, IR in Rx. discriminate.
      * intros t' [E|[]]. inversion E; subst. exact IR.
    + split; [exact KP|]. repeat split; auto. intros t' [].
Qed.

Lemma answer_kills_unrostered w t :
  In (CKill t) (snd (step w OAnswer)) -> in_roster t (w_roster w) = false /\ owned w t = false.
Proof.
  cbn [step]. intro H. destruct (answer_untouched w) as [_ [_ [_ K]]]. specialize (K t H).
  split; [exact K|]. destruct (owned w t) eqn:O; [|reflexivity].
  rewrite owned_is_owned_c in O. apply owned_c_spec in O. destruct O as [r [e [Hr [I _]]]].
  assert (IR : in_roster t (w_roster w) = true) by (apply in_roster_spec; eauto).
  rewrite IR in K. discriminate.
Qed.

Lemma drain_untouched n : forall w,
  untouched w (fst (run w (repeat OAnswer n))) (snd (run w (repeat OAnswer n))).
Proof.
  induction n as [|n IH]; intro w.
  - cbn. unfold untouched. split; [apply keeps_refl|]. repeat split; auto. intros t [].
  - cbn [repeat run step]. pose proof (answer_untouched w) as A.
    destruct (answer w) as [w1 c1]. cbn [fst snd] in A. specialize (IH w1).
    destruct (run w1 (repeat OAnswer n)) as [w2 c2]. cbn [fst snd] in IH |- *.
    destruct A as [R1 [E1 [M1 K1]]]. destruct IH as [R2 [E2 [M2 K2]]].
    unfold untouched. split; [apply (keeps_trans _ _ _ R1 R2)|]. split; [rewrite E2; exact E1|]. split.
    + intros x Hx Rx. apply M2; [apply M1; assumption|rewrite (keeps_in_roster _ _ _ R1); exact Rx].
    + intros t Ht. apply in_app_or in Ht. destruct Ht as [Ht|Ht]; [apply K1; exact Ht|].
      rewrite <- (keeps_in_roster _ _ t R1). apply K2. exact Ht.
Qed.

(* a dropped and re-established connection, with all its reconciliation answers processed *)
Lemma reconnect_untouched w :
  untouched w (fst (hstep w OReconnect)) (snd (hstep w OReconnect)).
Proof.
  unfold hstep. cbn [step drain_op].
  destruct (subscribe w) as [w1 c1] eqn:S.
  assert (W1 : w_roster w1 = w_roster w /\ w_envs w1 = w_envs w /\ w_master w1 = w_master w /\
               forall t, ~ In (CKill t) c1).
  { unfold subscribe in S. inversion S; subst. cbn. repeat split.
    intros t [H|[H|[]]]; discriminate. }
  destruct W1 as [R1 [E1 [M1 K1]]].
  pose proof (drain_untouched (length (w_pending w1)) w1) as D.
  destruct (run w1 (repeat OAnswer (length (w_pending w1)))) as [w2 c2]. cbn [fst snd] in D |- *.
  destruct D as [R2 [E2 [M2 K2]]]. unfold untouched.
  split; [rewrite <- R1; exact R2|]. split; [rewrite E2; exact E1|]. split.
  - intros x Hx Rx. apply M2; [rewrite M1; exact Hx|rewrite R1; exact Rx].
  - intros t Ht. apply in_app_or in Ht. destruct Ht as [Ht|Ht]; [destruct (K1 t Ht)|].
    rewrite <- R1. apply K2. exact Ht.
Qed.

(* ... and the same when the answers lack executor_id / agent_id / source *)
Lemma reconnect_omit_is_reconnect w om : hstep w (OReconnectOmit om) = hstep w OReconnect.
Proof.
  unfold hstep. cbn [step drain_op]. destruct (subscribe w) as [w1 c1]. rewrite run_bare. reflexivity.
Qed.

Lemma reconnect_omit_untouched w om :
  untouched w (fst (hstep w (OReconnectOmit om))) (snd (hstep w (OReconnectOmit om))).
Proof. rewrite reconnect_omit_is_reconnect. apply reconnect_untouched. Qed.

(* no reconciliation answer, whatever fields it carries, takes the lock of a roster task away *)
Lemma answers_never_unlock w om :
  step w (OAnswerBare om) = step w OAnswer /\
  keeps (w_roster w) (w_roster (fst (step w (OAnswerBare om)))).
Proof.
  split; [apply step_bare|]. rewrite step_bare. cbn [step].
  destruct (answer_untouched w) as [K _]. exact K.
Qed.

(* the status a roster task has plays no part in that: in the launch window (tasks accepted and in
   the roster, first TASK_RUNNING not delivered) and after a TASK_LOST the tasks are INACTIVE,
   alive at the master and owned; a reconnection there sends no KILL at all *)
Lemma status_rule_shape :
  memN mesos_running status_activating = true /\
  memN mesos_lost status_deactivating = true /\ memN mesos_failed status_deactivating = true /\
  forallb (fun s => negb (memN s status_deactivating)) mesos_live_states = true /\
  filter (fun s => memN s status_activating) mesos_live_states = [mesos_running].
Proof. vm_compute. repeat split; reflexivity. Qed.

(* ================================================================ a lost reconciliation is
   repeated: every (re)subscription - a restart, a reconnection, and the automatic re-subscription
   after the answers of either were lost - re-establishes the invariant of restart_kills_orphans *)
Lemma inv2_after_resub wc :
  Inv1 (fst wc) -> live_ok (w_master (fst wc)) -> Inv2 (fst (resubscribe_after_loss wc)).
Proof.
  destruct wc as [w2 c2]. cbn [fst]. intros I L. unfold resubscribe_after_loss.
  pose proof (inv2_after_subscribe (set_w_pending w2 []) I L) as X.
  destruct (subscribe (set_w_pending w2 [])) as [w3 c3]. exact X.
Qed.

Lemma inv2_after_sub_step w o :
  is_sub o = true -> Inv1 w -> live_ok (w_master w) -> Inv2 (fst (step w o)).
Proof.
  intros S I L. destruct o; try discriminate.
  - cbn [step]. apply inv2_after_subscribe; assumption.
  - apply inv2_after_crash; assumption.
  - cbn [step]. change (crash_step w p k) with (step w (OCrash p k)).
    apply inv2_after_resub; [apply (inv1_crashstep w p k I)|apply live_ok_step; exact L].
  - cbn [step]. apply inv2_after_resub; [apply inv1_subscribe; exact I|exact L].
  - cbn [step]. apply inv2_after_subscribe; assumption.
Qed.

Lemma resubscription_kills_orphans ops o ops' :
  no_tamper ops = true -> is_sub o = true -> forallb tame ops' = true ->
  let w1 := fst (step (after (boot true) ops) o) in
  let w2 := after w1 ops' in
  w_pending w2 = [] ->
  forall t, In t (w_master w2) -> mt_alive t = true -> in_roster (mt_id t) (w_roster w2) = true.
Proof.
  intros T S Tm w1 w2 E t Ht At.
  assert (I1 : Inv1 (after (boot true) ops)) by (apply inv1_run; [exact T|apply inv1_boot]).
  assert (L0 : live_ok (w_master (after (boot true) ops))).
  { apply live_ok_run. unfold boot. cbn. intros x []. }
  assert (I2 : Inv2 w2).
  { apply (run_invariant Inv2 tame); [apply inv2_step|exact Tm|].
    apply inv2_after_sub_step; assumption. }
  destruct I2 as [C _]. destruct (C t Ht At) as [[s Q]|R]; [|exact R].
  rewrite E in Q. destruct Q.
Qed.

(* the quiescent operations of the harness with a lost reconciliation are histories of that kind *)
Lemma run_cons w o ops :
  run w (o :: ops) =
  let '(w1, c1) := step w o in let '(w2, c2) := run w1 ops in (w2, c1 ++ c2).
Proof. reflexivity. Qed.

Lemma resub_is_run wc :
  resubscribe_after_loss wc =
  let '(w2, c2) := wc in
  let '(w3, c3) := run w2 [OLoseAnswers; OReconnect] in (w3, c2 ++ c3).
Proof.
  destruct wc as [w2 c2]. unfold resubscribe_after_loss. rewrite !run_cons. cbn [step run].
  destruct (subscribe (set_w_pending w2 [])) as [w3 c3]. cbn [app]. rewrite app_nil_r. reflexivity.
Qed.

Lemma crash_lost_is_run w p k :
  step w (OCrashLost p k) = run w [OCrash p k; OLoseAnswers; OReconnect].
Proof.
  rewrite run_cons.
  change (step w (OCrashLost p k)) with (resubscribe_after_loss (step w (OCrash p k))).
  apply resub_is_run.
Qed.

Lemma reconnect_lost_is_run w :
  step w OReconnectLost = run w [OReconnect; OLoseAnswers; OReconnect].
Proof.
  rewrite run_cons.
  change (step w OReconnectLost) with (resubscribe_after_loss (step w OReconnect)).
  apply resub_is_run.
Qed.

(* a restart whose first reconciliation is lost: once the answers of the repeated one are
   processed nothing is alive at the master *)
Lemma restart_lost_quiescent ops p k :
  no_tamper ops = true ->
  let w2 := fst (hstep (after (boot true) ops) (OCrashLost p k)) in
  (forall t, In t (w_master w2) -> mt_alive t = false) /\ w_roster w2 = [] /\ w_envs w2 = [].
Proof.
  intros T w2. subst w2. rewrite hstep_is_run.
  set (w := after (boot true) ops). set (w1 := fst (step w (OCrashLost p k))).
  set (n := length (w_pending w1)).
  change (fst (run w (OCrashLost p k :: repeat OAnswer n))) with (after w (OCrashLost p k :: repeat OAnswer n)).
  rewrite after_cons. fold w1.
  destruct (drain_spec n w1 eq_refl) as [P [R E]].
  assert (RE : w_roster w1 = [] /\ w_envs w1 = []).
  { unfold w1. cbn [step]. change (crash_step w p k) with (step w (OCrash p k)).
    destruct (crash_roster_nil w p k) as [R1 E1]. unfold resubscribe_after_loss.
    destruct (step w (OCrash p k)) as [wa ca]. cbn [fst] in R1, E1.
    unfold subscribe. cbn. split; assumption. }
  destruct RE as [R1 E1]. specialize (R R1). split; [|split; [exact R|rewrite E; exact E1]].
  intros t Ht. destruct (mt_alive t) eqn:A; [|reflexivity]. exfalso.
  pose proof (resubscription_kills_orphans ops (OCrashLost p k) (repeat OAnswer n) T eq_refl
                (forallb_tame_answers n)) as K.
  cbn zeta in K. fold w in K. fold w1 in K. specialize (K P t Ht A).
  rewrite R in K. discriminate.
Qed.

(* ================================================================ ownership survives every
   operation that is neither the teardown of that environment nor a restart: a task locked by a
   live environment stays in the roster, locked by it (kill requests - Cleanup, KillTasks with a
   list of ids, the Cleanup of a CreateEnvironment - only ever remove unlocked tasks) *)
Definition Own (w : world) (t e : N) : Prop :=
  (exists r, In r (w_roster w) /\ rt_id r = t /\ rt_env r = Some e) /\ memN e (w_envs w) = true.

Definition tears_down (o : op) (e : N) : bool :=
  match o with
  | ODestroy e' _ | ODestroyStuck e' | OKillHeld e' => N.eqb e' e
  | OCrash _ _ | OCrashLost _ _ => true
  | _ => false
  end.

(* roster ids are unique and below the task counter: in every world reachable from boot *)
Definition RI (w : world) : Prop :=
  NoDup (map rt_id (w_roster w)) /\ roster_lt (w_roster w) (w_ntask w).

Lemma map_id_activate ts ros : map rt_id (roster_activate ts ros) = map rt_id ros.
Proof. unfold roster_activate. rewrite map_map. apply map_ext. intro r. destruct (memN (rt_id r) ts); reflexivity. Qed.
Lemma map_id_deactivate ts ros : map rt_id (roster_deactivate ts ros) = map rt_id ros.
Proof. unfold roster_deactivate. rewrite map_map. apply map_ext. intro r. destruct (memN (rt_id r) ts); reflexivity. Qed.
Lemma map_id_release e ros : map rt_id (release e ros) = map rt_id ros.
Proof. unfold release. rewrite map_map. apply map_ext. intro r. destruct (option_eqb N.eqb (rt_env r) (Some e)); reflexivity. Qed.

Lemma NoDup_map_filter {A B} (f : A -> B) (p : A -> bool) l :
  NoDup (map f l) -> NoDup (map f (filter p l)).
Proof.
  induction l as [|a l IH]; cbn; intro H; [constructor|]. inversion H; subst.
  destruct (p a); cbn; [constructor|]; auto.
  intro X. apply H2. apply in_map_iff in X. destruct X as [b [E Hb]]. apply filter_In in Hb.
  apply in_map_iff. exists b. split; [exact E|apply Hb].
Qed.

Lemma new_ids_NoDup k : forall from, NoDup (new_ids from k).
Proof.
  induction k as [|k IH]; intro from; cbn; constructor; [|apply IH].
  intro H. apply new_ids_spec in H. lia.
Qed.

Lemma ri_remove ts w ros' :
  RI w -> ros' = remove_ids ts (w_roster w) ->
  NoDup (map rt_id ros') /\ roster_lt ros' (w_ntask w).
Proof.
  intros [N L] E. subst. split; [apply NoDup_map_filter; exact N|apply roster_lt_remove; exact L].
Qed.

Lemma ri_cleanup w : RI w -> RI (fst (cleanup w)).
Proof. intro H. unfold RI. cbn. eapply ri_remove; [exact H|reflexivity]. Qed.

Lemma ri_cleanup_ids w ts : RI w -> RI (fst (cleanup_ids w ts)).
Proof. intro H. unfold RI. cbn. eapply ri_remove; [exact H|reflexivity]. Qed.

Lemma NoDup_append {A} (a b : list A) :
  NoDup a -> NoDup b -> (forall x, In x a -> ~ In x b) -> NoDup (a ++ b).
Proof.
  induction a as [|x a IH]; cbn; intros Na Nb D; [exact Nb|]. inversion Na; subst. constructor.
  - intro H. apply in_app_or in H. destruct H as [H|H]; [contradiction|]. apply (D x); auto.
  - apply IH; auto.
Qed.

Lemma ri_launch w k : RI w -> RI (fst (launch w k)).
Proof.
  intros [N L]. unfold RI. cbn. split.
  - rewrite map_app, map_map. cbn. rewrite map_id. apply NoDup_append; [exact N|apply new_ids_NoDup|].
    intros x Hx Hn. apply in_map_iff in Hx. destruct Hx as [r [E Hr]]. apply new_ids_spec in Hn.
    pose proof (L r Hr). lia.
  - intros r Hr. apply in_app_or in Hr. destruct Hr as [Hr|Hr].
    + pose proof (L r Hr). lia.
    + apply in_map_iff in Hr. destruct Hr as [i [E Hi]]. subst r. cbn.
      apply new_ids_spec in Hi. rewrite N2Nat.id in Hi. lia.
Qed.

Lemma ri_create w k : RI w -> RI (fst (create w k)).
Proof.
  intro H. unfold create. pose proof (ri_cleanup w H) as H1. destruct (cleanup w) as [w1 c1]. cbn [fst] in H1.
  pose proof (ri_launch w1 k H1) as H2. destruct (launch w1 k) as [w2 c2]. exact H2.
Qed.

Lemma ri_same_ids w w' :
  RI w -> map rt_id (w_roster w') = map rt_id (w_roster w) -> w_ntask w' = w_ntask w -> RI w'.
Proof.
  intros [N L] E T. unfold RI. rewrite E, T. split; [exact N|].
  intros r Hr. assert (I : In (rt_id r) (map rt_id (w_roster w'))) by (apply in_map; exact Hr).
  rewrite E in I. apply in_map_iff in I. destruct I as [q [Eq Hq]]. rewrite <- Eq. apply L. exact Hq.
Qed.

Lemma ri_answer w om : RI w -> RI (fst (answer_with w om)).
Proof.
  intro H. unfold answer_with. destruct (w_pending w) as [|[t s] rest]; [exact H|].
  destruct (memN s recon_kill_states && negb (recon_guarded && in_roster t (w_roster w))).
  - apply (ri_same_ids w); [exact H|cbn; apply map_id_deactivate|reflexivity].
  - apply (ri_same_ids w); [exact H| |reflexivity]. cbn [fst w_roster].
    destruct (memN s status_activating); [rewrite refreshed_id; apply map_id_activate|reflexivity].
Qed.

Lemma ri_subscribe w : RI w -> RI (fst (subscribe w)).
Proof. intro H. apply (ri_same_ids w); [exact H|reflexivity|reflexivity]. Qed.

Lemma ri_empty w : w_roster w = [] -> RI w.
Proof. intro E. unfold RI. rewrite E. split; [constructor|intros r []]. Qed.

Lemma ri_destroy w e keep eff : RI w -> RI (fst (destroy w e keep eff)).
Proof.
  intro H. unfold destroy. destruct (negb (memN e (w_envs w))); [exact H|]. destruct keep.
  - apply (ri_same_ids w); [exact H|cbn; apply map_id_release|reflexivity].
  - destruct H as [N L]. unfold RI. cbn. split.
    + apply NoDup_map_filter. rewrite map_id_release. exact N.
    + apply roster_lt_remove. apply roster_lt_release. exact L.
Qed.

Lemma ri_crashstep w p k : RI (fst (step w (OCrash p k))).
Proof.
  apply ri_empty. destruct (crash_roster_nil w p k) as [R _]. exact R.
Qed.

Lemma ri_resub wc : RI (fst wc) -> RI (fst (resubscribe_after_loss wc)).
Proof.
  destruct wc as [w2 c2]. cbn [fst]. intro H. unfold resubscribe_after_loss.
  pose proof (ri_subscribe (set_w_pending w2 []) H) as X.
  destruct (subscribe (set_w_pending w2 [])) as [w3 c3]. exact X.
Qed.

Lemma ri_readd ts b : forall ros,
  NoDup (map rt_id ros) /\ roster_lt ros b -> NoDup (map rt_id (readd ts b ros)) /\ roster_lt (readd ts b ros) b.
Proof.
  induction ts as [|t ts IH]; intros ros H; [exact H|]. cbn [readd]. apply IH.
  destruct (negb (in_roster t ros) && N.ltb t b) eqn:C; [|exact H].
  apply andb_true_iff in C. destruct C as [C1 C2]. apply negb_true_iff in C1. apply N.ltb_lt in C2.
  destruct H as [N L]. split.
  - rewrite map_app. cbn. apply NoDup_append; [exact N|constructor; [intros []|constructor]|].
    intros x Hx [E|[]]. subst x. apply in_map_iff in Hx. destruct Hx as [r [E Hr]].
    assert (X : in_roster t ros = true) by (apply in_roster_spec; eauto). congruence.
  - intros r Hr. apply in_app_or in Hr. destruct Hr as [Hr|[E|[]]]; [apply L; exact Hr|subst r; exact C2].
Qed.

Lemma readd_keeps ts b : forall ros r, In r ros -> In r (readd ts b ros).
Proof.
  induction ts as [|t ts IH]; intros ros r Hr; [exact Hr|]. cbn [readd]. apply IH.
  destruct (negb (in_roster t ros) && N.ltb t b); [apply in_or_app; left|]; exact Hr.
Qed.

Lemma ri_step w o : RI w -> RI (fst (step w o)).
Proof.
  intro H. destruct o as [k|e|e keep|e|t|t s| |v| |p k| |k s|t|t| |p k| |om|om|eh|tr|ts].
  - apply ri_create. exact H.
  - exact H.
  - apply ri_destroy. exact H.
  - apply ri_destroy. exact H.
  - apply (ri_same_ids w); [exact H|cbn; apply map_id_deactivate|reflexivity].
  - cbn [step]. destruct (memN s mesos_live_states); exact H.
  - apply ri_cleanup. exact H.
  - exact H.
  - apply ri_subscribe. exact H.
  - apply ri_crashstep.
  - apply (ri_answer w 0 H).
  - cbn [step]. unfold create_held. pose proof (ri_create w k H) as H1.
    destruct (create w k) as [w1 c1]. cbn [fst] in *.
    apply (ri_same_ids w1); [exact H1|cbn; apply map_id_deactivate|reflexivity].
  - cbn [step]. destruct (alive_at t (w_master w)); [|exact H].
    apply (ri_same_ids w); [exact H|cbn; apply map_id_activate|reflexivity].
  - cbn [step]. destruct (alive_at t (w_master w)); [|exact H].
    apply (ri_same_ids w); [exact H|cbn; apply map_id_deactivate|reflexivity].
  - exact H.
  - cbn [step]. change (crash_step w p k) with (step w (OCrash p k)). apply ri_resub. apply ri_crashstep.
  - cbn [step]. apply ri_resub. apply ri_subscribe. exact H.
  - apply ri_subscribe. exact H.
  - apply (ri_answer w om H).
  - cbn [step fst]. apply ri_destroy. exact H.
  - cbn [step fst]. unfold RI. cbn. apply ri_readd. exact H.
  - apply ri_cleanup_ids. exact H.
Qed.

Lemma ri_reachable fo ops : RI (after (boot fo) ops).
Proof.
  apply (run_invariant RI (fun _ => true)).
  - intros w o _. apply ri_step.
  - apply forallb_forall. reflexivity.
  - apply ri_empty. reflexivity.
Qed.

(* --- Own is preserved --- *)
Lemma own_map (f : rtask -> rtask) w w' t e :
  (forall r, rt_id (f r) = rt_id r /\ (rt_env r = Some e -> rt_env (f r) = Some e)) ->
  w_roster w' = map f (w_roster w) -> w_envs w' = w_envs w -> Own w t e -> Own w' t e.
Proof.
  intros Hf R E [[r [Hr [I V]]] M]. unfold Own. rewrite R, E. split; [|exact M].
  exists (f r). destruct (Hf r) as [A B]. split; [apply in_map; exact Hr|]. split; [congruence|auto].
Qed.

(* a purge of unlocked tasks: what is locked stays (ids are unique) *)
Lemma own_purge w sel t e :
  RI w -> (forall r, sel r = true -> rt_env r = None) ->
  Own w t e ->
  (exists r, In r (remove_ids (map rt_id (filter sel (w_roster w))) (w_roster w)) /\ rt_id r = t /\ rt_env r = Some e).
Proof.
  intros [N _] Hs [[r [Hr [I V]]] _]. exists r. split; [|auto]. apply remove_ids_in. split; [exact Hr|].
  destruct (memN (rt_id r) (map rt_id (filter sel (w_roster w)))) eqn:X; [|reflexivity]. exfalso.
  apply memN_In in X. apply in_map_iff in X. destruct X as [q [Eq Hq]]. apply filter_In in Hq.
  destruct Hq as [Hq Sq]. assert (q = r).
  { clear - N Hq Hr Eq. induction (w_roster w) as [|a l IH]; [destruct Hq|]. cbn in N. inversion N; subst.
    destruct Hq as [Hq|Hq], Hr as [Hr|Hr]; subst; auto.
    - exfalso. apply H1. rewrite Eq. apply in_map. exact Hr.
    - exfalso. apply H1. rewrite <- Eq. apply in_map. exact Hq. }
  subst q. rewrite (Hs r Sq) in V. discriminate.
Qed.

Lemma own_same w w' t e :
  w_roster w' = w_roster w -> w_envs w' = w_envs w -> Own w t e -> Own w' t e.
Proof. intros R E H. unfold Own in *. rewrite R, E. exact H. Qed.

Lemma own_purge_gen ros ros1 sel t e :
  NoDup (map rt_id ros) ->
  (forall r, sel r = true -> rt_env r <> Some e) ->
  (forall r, In r ros -> rt_env r = Some e -> In r ros1) ->
  (exists r, In r ros /\ rt_id r = t /\ rt_env r = Some e) ->
  exists r, In r (remove_ids (map rt_id (filter sel ros)) ros1) /\ rt_id r = t /\ rt_env r = Some e.
Proof.
  intros N Hs H1 [r [Hr [I V]]]. exists r. split; [|auto]. apply remove_ids_in. split; [apply H1; assumption|].
  destruct (memN (rt_id r) (map rt_id (filter sel ros))) eqn:X; [|reflexivity]. exfalso.
  apply memN_In in X. apply in_map_iff in X. destruct X as [q [Eq Hq]]. apply filter_In in Hq.
  destruct Hq as [Hq Sq]. assert (q = r).
  { clear - N Hq Hr Eq. induction ros as [|a l IH]; [destruct Hq|]. cbn in N. inversion N; subst.
    destruct Hq as [Hq|Hq], Hr as [Hr|Hr]; subst; auto.
    - exfalso. apply H1. rewrite Eq. apply in_map. exact Hr.
    - exfalso. apply H1. rewrite <- Eq. apply in_map. exact Hq. }
  subst q. apply (Hs r Sq). exact V.
Qed.

(* (dokill_writes_back_snapshot = false, regenerated: once its KILL calls have started doKillTasks
   changes the roster only task by task, so nothing another goroutine appends meanwhile is lost) *)
Lemma own_cleanup w t e : RI w -> Own w t e -> Own (fst (cleanup w)) t e.
Proof.
  assert (E : dokill_writes_back_snapshot = false) by reflexivity.
  intros [N _] [X M]. unfold Own. cbn. split; [|exact M].
  apply own_purge_gen; auto. intros r S V. rewrite V in S. discriminate.
Qed.

(* (killtasks_removes_unlisted = false, regenerated: KillTasks itself writes the roster with
   nothing but its kill list - the unlocked roster tasks among the ids it was given) *)
Lemma own_cleanup_ids w ts t e : RI w -> Own w t e -> Own (fst (cleanup_ids w ts)) t e.
Proof.
  assert (E : killtasks_removes_unlisted = false) by reflexivity.
  intros [N _] [X M]. unfold Own. cbn. split; [|exact M].
  apply own_purge_gen; auto. intros r S V. rewrite V in S. rewrite andb_false_r in S. discriminate.
Qed.

Lemma own_launch w k t e : Own w t e -> Own (fst (launch w k)) t e.
Proof.
  intros [[r [Hr IV]] M]. unfold Own. cbn. split.
  - exists r. split; [apply in_or_app; left; exact Hr|exact IV].
  - unfold memN in *. rewrite existsb_app, M. reflexivity.
Qed.

Lemma own_create w k t e : RI w -> Own w t e -> Own (fst (create w k)) t e.
Proof.
  intros R H. unfold create. pose proof (own_cleanup w t e R H) as H1.
  destruct (cleanup w) as [w1 c1]. cbn [fst] in H1. pose proof (own_launch w1 k t e H1) as H2.
  destruct (launch w1 k) as [w2 c2]. exact H2.
Qed.

Lemma memN_remove_env e e' envs : N.eqb e' e = false -> memN e envs = true -> memN e (remove_env e' envs) = true.
Proof.
  intros Ne M. apply memN_In. apply memN_In in M. unfold remove_env. apply filter_In. split; [exact M|].
  rewrite N.eqb_sym. rewrite Ne. reflexivity.
Qed.

Lemma own_destroy w e' keep eff t e :
  RI w -> N.eqb e' e = false -> Own w t e -> Own (fst (destroy w e' keep eff)) t e.
Proof.
  intros [N _] Ne H. unfold destroy. destruct (negb (memN e' (w_envs w))); [exact H|].
  destruct H as [X M].
  assert (REL : forall r, In r (w_roster w) -> rt_env r = Some e -> In r (release e' (w_roster w))).
  { intros r Hr V. unfold release. apply in_map_iff. exists r. split; [|exact Hr].
    rewrite V. cbn. rewrite N.eqb_sym, Ne. reflexivity. }
  destruct keep; unfold Own; cbn; (split; [|apply memN_remove_env; assumption]).
  - destruct X as [r [Hr [I V]]]. exists r. auto.
  - unfold env_tasks. apply own_purge_gen; auto.
    intros r S V. rewrite V in S. cbn in S. rewrite N.eqb_sym, Ne in S. discriminate.
Qed.

Lemma own_answer w om t e : Own w t e -> Own (fst (answer_with w om)) t e.
Proof.
  intro H. unfold answer_with. destruct (w_pending w) as [|[t0 s] rest]; [exact H|].
  destruct (memN s recon_kill_states && negb (recon_guarded && in_roster t0 (w_roster w))).
  - apply (own_map (fun r => if memN (rt_id r) [t0] then mkR (rt_id r) (rt_env r) false else r) w); auto.
    intro r. destruct (memN (rt_id r) [t0]); cbn; auto.
  - destruct (memN s status_activating) eqn:A.
    + apply (own_map (fun r => if memN (rt_id r) [t0] then mkR (rt_id r) (rt_env r) true else r) w);
        [intro r; destruct (memN (rt_id r) [t0]); cbn; auto
        |cbn [fst w_roster]; rewrite refreshed_id; reflexivity|reflexivity|exact H].
    + apply (own_same w); [reflexivity|reflexivity|exact H].
Qed.

Lemma own_resub wc w t e :
  w_roster (fst wc) = w_roster w -> w_envs (fst wc) = w_envs w -> Own w t e ->
  Own (fst (resubscribe_after_loss wc)) t e.
Proof.
  destruct wc as [w2 c2]. cbn [fst]. intros R E H. unfold resubscribe_after_loss.
  assert (X : Own (fst (subscribe (set_w_pending w2 []))) t e) by (apply (own_same w); assumption).
  destruct (subscribe (set_w_pending w2 [])) as [w3 c3]. exact X.
Qed.

(* a task locked by a live environment stays in the roster, locked by it, through every operation
   that is neither the teardown of that environment nor a restart *)
Lemma own_step w o t e :
  RI w -> tears_down o e = false -> Own w t e -> Own (fst (step w o)) t e.
Proof.
  intros R T H. destruct o as [k|e'|e' keep|e'|t'|t' s| |v| |p k| |k s|t'|t'| |p k| |om|om|eh|tr|ts];
    cbn [tears_down] in T; try discriminate.
  - apply own_create; assumption.
  - exact H.
  - apply own_destroy; assumption.
  - apply own_destroy; assumption.
  - apply (own_map (fun r => if memN (rt_id r) [t'] then mkR (rt_id r) (rt_env r) false else r) w); auto.
    intro r. destruct (memN (rt_id r) [t']); cbn; auto.
  - cbn [step]. destruct (memN s mesos_live_states); [apply (own_same w); auto|exact H].
  - apply own_cleanup; assumption.
  - exact H.
  - apply (own_same w); auto.
  - apply (own_answer w 0 t e H).
  - cbn [step]. unfold create_held. pose proof (own_create w k t e R H) as H1.
    destruct (create w k) as [w1 c1]. cbn [fst] in *.
    apply (own_map (fun r => if memN (rt_id r) (new_ids (w_ntask w) (N.to_nat k)) then mkR (rt_id r) (rt_env r) false else r) w1); auto.
    intro r. destruct (memN (rt_id r) (new_ids (w_ntask w) (N.to_nat k))); cbn; auto.
  - cbn [step]. destruct (alive_at t' (w_master w)); [|exact H].
    apply (own_map (fun r => if memN (rt_id r) [t'] then mkR (rt_id r) (rt_env r) true else r) w); auto.
    intro r. destruct (memN (rt_id r) [t']); cbn; auto.
  - cbn [step]. destruct (alive_at t' (w_master w)); [|exact H].
    apply (own_map (fun r => if memN (rt_id r) [t'] then mkR (rt_id r) (rt_env r) false else r) w); auto.
    intro r. destruct (memN (rt_id r) [t']); cbn; auto.
  - exact H.
  - cbn [step]. apply (own_resub _ w); auto.
  - apply (own_same w); auto.
  - apply (own_answer w om t e H).
  - cbn [step fst]. apply own_destroy; assumption.
  - cbn [step fst]. destruct H as [[r [Hr IV]] M]. unfold Own. cbn. split; [|exact M].
    exists r. split; [apply readd_keeps; exact Hr|exact IV].
  - apply own_cleanup_ids; assumption.
Qed.

Lemma ownership_survives fo ops o t e :
  tears_down o e = false ->
  Own (after (boot fo) ops) t e -> Own (fst (step (after (boot fo) ops) o)) t e.
Proof. intros T H. apply own_step; [apply ri_reachable|exact T|exact H]. Qed.

Lemma own_in_roster w t e : Own w t e -> in_roster t (w_roster w) = true /\ owned w t = true.
Proof.
  intros [[r [Hr [I V]]] M]. split; [apply in_roster_spec; eauto|].
  rewrite owned_is_owned_c. apply owned_c_spec. exists r, e. auto.
Qed.

(* C18: the two halves put together - a task owned by a live environment of the current life is
   never sent KILL while a reconciliation answer is processed, in any state at all *)
Lemma owned_never_killed_by_answer w t e :
  Own w t e -> ~ In (CKill t) (snd (step w OAnswer)).
Proof.
  intros Ho Hk. destruct (own_in_roster _ _ _ Ho) as [Hr _].
  destruct (answer_kills_unrostered _ _ Hk) as [Hn _]. congruence.
Qed.

(* C18: ... nor by a mere reconnection with all its reconciliation answers processed *)
Lemma owned_never_killed_by_reconnect w t e :
  Own w t e -> ~ In (CKill t) (snd (hstep w OReconnect)).
Proof.
  intros Ho Hk. destruct (own_in_roster _ _ _ Ho) as [Hr _].
  pose proof (reconnect_untouched w) as H. cbv zeta in H. destruct H as (_ & _ & _ & H4).
  specialize (H4 t Hk). congruence.
Qed.
