(* Lemmas about the TaskCmd model (property C02). *)
From Verif Require Import Common RoleTree TaskCmd.
From Coq Require Import Lia.
Open Scope N_scope.

(* ------------------------------------------------------------------ *)
(* 0. Finite domains                                                   *)
(* ------------------------------------------------------------------ *)

Lemma status_beq_iff a b : status_beq a b = true <-> a = b.
Proof. destruct a, b; cbn; split; intro H; try reflexivity; try discriminate. Qed.
Lemma state_beq_iff a b : state_beq a b = true <-> a = b.
Proof. destruct a, b; cbn; split; intro H; try reflexivity; try discriminate. Qed.
Lemma estate_beq_iff a b : estate_beq a b = true <-> a = b.
Proof. destruct a, b; cbn; split; intro H; try reflexivity; try discriminate. Qed.
Lemma estate_beq_refl a : estate_beq a a = true.
Proof. apply estate_beq_iff. reflexivity. Qed.

Lemma is_ack_iff o : is_ack o = true <-> o = Ack.
Proof. destruct o; cbn; split; intro H; try reflexivity; try discriminate. Qed.
Lemma is_ack_false o : is_ack o = false <-> o <> Ack.
Proof. destruct o; cbn; split; intro H; try reflexivity; try discriminate; try congruence. Qed.
Lemma is_run_iff l : is_run l = true <-> l = LRun.
Proof. destruct l; cbn; split; intro H; try reflexivity; try discriminate. Qed.

(* the status product, on the table translated from core/task/status.go *)
Lemma statusX_ACTIVE a b : statusX a b = ACTIVE <-> a = ACTIVE /\ b = ACTIVE.
Proof.
  destruct a, b; vm_compute; split; intro H; try discriminate; try (destruct H; discriminate);
    try (split; reflexivity); reflexivity.
Qed.

Lemma ev_dst_src e : ev_dst e <> ev_src e.
Proof. destruct e; discriminate. Qed.
Lemma ev_dst_not_error e : ev_dst e <> E_ERROR.
Proof. destruct e; discriminate. Qed.
Lemma ev_src_live e : go_error_ok (ev_src e) = true.
Proof. destruct e; reflexivity. Qed.
Lemma N_of_estate_inj a b : N_of_estate a = N_of_estate b -> a = b.
Proof. destruct a, b; cbn; intro H; try reflexivity; discriminate. Qed.

(* ------------------------------------------------------------------ *)
(* 1. The workflow status: ACTIVE iff there is a role and all are ACTIVE *)
(* ------------------------------------------------------------------ *)

Lemma fold_status_from_ACTIVE r : forall s,
  fold_status_from s r = ACTIVE <-> s = ACTIVE /\ forall c, In c r -> stat_of c = ACTIVE.
Proof.
  induction r as [|c r IH]; intro s; cbn [fold_status_from].
  - split; [intro H; split; [exact H|intros c []]|intros [H _]; exact H].
  - destruct (status_beq s UNDEFINED) eqn:E.
    + apply status_beq_iff in E. subst s. split; [discriminate|intros [H _]; discriminate].
    + rewrite IH, statusX_ACTIVE. split.
      * intros [[Hs Hc] Hr]. split; [exact Hs|]. intros x [<-|Hx]; [exact Hc|apply Hr, Hx].
      * intros [Hs Hall]. split; [split; [exact Hs|apply Hall; left; reflexivity]|].
        intros x Hx. apply Hall. right. exact Hx.
Qed.

Lemma fold_status_ACTIVE l :
  fold_status l = ACTIVE <-> l <> [] /\ forall c, In c l -> stat_of c = ACTIVE.
Proof.
  destruct l as [|c r]; cbn [fold_status].
  - split; [discriminate|intros [H _]; congruence].
  - rewrite fold_status_from_ACTIVE. split.
    + intros [Hc Hr]. split; [discriminate|]. intros x [<-|Hx]; [exact Hc|apply Hr, Hx].
    + intros [_ Hall]. split; [apply Hall; left; reflexivity|]. intros x Hx. apply Hall. right. exact Hx.
Qed.

(* ------------------------------------------------------------------ *)
(* 2. Indexed lists and targets                                        *)
(* ------------------------------------------------------------------ *)

Lemma indexed_from_In {A} (l : list A) : forall k i x,
  In (i, x) (indexed_from k l) <-> (k <= i)%nat /\ nth_error l (i - k) = Some x.
Proof.
  induction l as [|a l IH]; intros k i x; cbn [indexed_from].
  - split; [intros []|]. intros [_ H]. destruct (i - k)%nat; discriminate.
  - split.
    + intros [E|H].
      * inversion E; subst. split; [lia|]. replace (i - i)%nat with 0%nat by lia. reflexivity.
      * apply IH in H. destruct H as [Hk Hn]. split; [lia|].
        replace (i - k)%nat with (S (i - S k)) by lia. exact Hn.
    + intros [Hk Hn]. destruct (Nat.eq_dec i k) as [->|Hne].
      * left. replace (k - k)%nat with 0%nat in Hn by lia. cbn in Hn. congruence.
      * right. apply IH. split; [lia|].
        replace (i - k)%nat with (S (i - S k)) in Hn by lia. exact Hn.
Qed.

Lemma indexed_In {A} (l : list A) i x : In (i, x) (indexed l) <-> nth_error l i = Some x.
Proof.
  unfold indexed. rewrite indexed_from_In. replace (i - 0)%nat with i by lia.
  split; [intros [_ H]; exact H|intro H; split; [lia|exact H]].
Qed.

Lemma targets_In ts i t :
  In (i, t) (targets ts) <-> nth_error ts i = Some t /\ active t = true.
Proof. unfold targets. rewrite filter_In, indexed_In. cbn. tauto. Qed.

(* ------------------------------------------------------------------ *)
(* 3. The command decision                                             *)
(* ------------------------------------------------------------------ *)

(* all critical targets acknowledged *)
Definition crit_acked (ts : list rtask) (oc : list outc) : Prop :=
  forall i t, In (i, t) (targets ts) -> r_crit t = true -> oc_at oc i = Ack.

Definition crit_acked_l (tg : list (nat * rtask)) (oc : list outc) : Prop :=
  forall i t, In (i, t) tg -> r_crit t = true -> oc_at oc i = Ack.

(* the executor's message handler, as probed on this run, answers without error only for a task
   that performed the transition *)
Lemma executor_faithful_in_source : executor_faithful = true.
Proof. vm_compute. reflexivity. Qed.

Lemma resp_err_faithful o : executor_faithful = true -> resp_err o = negb (is_ack o).
Proof. unfold resp_err. intros ->. reflexivity. Qed.

Lemma resp_err_unfaithful o : executor_faithful = false -> resp_err o = false.
Proof. unfold resp_err. intros ->. reflexivity. Qed.

Lemma existsb_commit_crit tg oc : executor_faithful = true ->
  (existsb (fun r : bool * bool => fst r && snd r) (commit tg oc) = false <-> crit_acked_l tg oc).
Proof.
  intro Hef.
  unfold crit_acked_l, commit. induction tg as [|[j u] tg IH]; cbn [map existsb fst snd].
  - split; [intros _ i t []|reflexivity].
  - rewrite orb_false_iff, IH. rewrite (resp_err_faithful _ Hef). split.
    + intros [H1 H2] i t [E|Hin] Hc.
      * inversion E; subst. rewrite Hc in H1. cbn in H1.
        apply negb_false_iff in H1. apply is_ack_iff. exact H1.
      * exact (H2 i t Hin Hc).
    + intro H. split.
      * destruct (r_crit u) eqn:Hc; [|reflexivity]. cbn.
        rewrite (H j u (or_introl eq_refl) Hc). reflexivity.
      * intros i t Hin Hc. exact (H i t (or_intror Hin) Hc).
Qed.

(* Tasks.Filtered, as probed on this run, is a pure function of its receiver: the roster's filters
   leave the roster what it is *)
Lemma roster_intact_in_source : roster_intact = true.
Proof. vm_compute. reflexivity. Qed.

Lemma cmd_multi tg oc : roster_intact = true -> executor_faithful = true -> (2 <= length tg)%nat ->
  classify (consolidate (commit tg oc)) = ROk <-> crit_acked_l tg oc.
Proof.
  intros Hri Hef Hlen. destruct tg as [|a [|b tg]]; cbn [length] in Hlen; try lia.
  rewrite <- (existsb_commit_crit _ _ Hef).
  remember (a :: b :: tg) as l. unfold consolidate.
  assert (Hc : exists x y r, commit l oc = x :: y :: r).
  { subst l. cbn. eauto. }
  destruct Hc as (x & y & r & Hc). rewrite Hc. cbn [classify]. rewrite Hri. cbn [andb].
  destruct (existsb _ (x :: y :: r)); split; intro H; try reflexivity; discriminate.
Qed.

(* one target: its own response, classified by its critical trait *)
Lemma cmd_single i t oc : executor_faithful = true ->
  classify (consolidate (commit [(i, t)] oc)) = ROk <-> crit_acked_l [(i, t)] oc.
Proof.
  intro Hef. rewrite <- (existsb_commit_crit _ _ Hef).
  unfold commit. cbn [map consolidate classify existsb fst snd]. rewrite orb_false_r.
  destruct (r_crit t && resp_err (oc_at oc i)); split; intro H; try reflexivity; discriminate.
Qed.

Lemma classify_commit tg oc : roster_intact = true -> executor_faithful = true -> tg <> [] ->
  classify (consolidate (commit tg oc)) = ROk <-> crit_acked_l tg oc.
Proof.
  intros Hri Hef Hne. destruct tg as [|[i t] [|b tg]].
  - congruence.
  - apply cmd_single. exact Hef.
  - apply cmd_multi; [exact Hri|exact Hef|cbn; lia].
Qed.

(* without that, the error of a critical task among several is tolerated *)
Lemma classify_multi_not_intact rs : roster_intact = false -> classify (CMulti rs) = ROk.
Proof. intro H. cbn [classify]. rewrite H. reflexivity. Qed.

Definition has_crit_target (ts : list rtask) : bool := existsb (fun p => r_crit (snd p)) (targets ts).

Lemma res_ok_iff r : res_ok r = true <-> r = ROk.
Proof. destruct r; cbn; split; intro H; try reflexivity; discriminate. Qed.

(* the decision: the command goes through iff every critical commanded task acknowledged; for
   every task list (no target, one target, several) *)
Lemma cmd_iff_given ts oc : roster_intact = true -> executor_faithful = true ->
  (res_ok (cmd_result ts oc) = true <-> crit_acked ts oc).
Proof.
  intros Hri Hef. unfold cmd_result, crit_acked. rewrite res_ok_iff.
  destruct (targets ts) as [|p tg] eqn:Et.
  - split; [intros _ i t []|reflexivity].
  - apply classify_commit; [exact Hri|exact Hef|discriminate].
Qed.

Lemma cmd_iff_intact ts oc : roster_intact = true ->
  (res_ok (cmd_result ts oc) = true <-> crit_acked ts oc).
Proof. intro Hri. exact (cmd_iff_given ts oc Hri executor_faithful_in_source). Qed.

Lemma cmd_iff_faithful ts oc : executor_faithful = true ->
  (res_ok (cmd_result ts oc) = true <-> crit_acked ts oc).
Proof. intro Hef. exact (cmd_iff_given ts oc roster_intact_in_source Hef). Qed.

(* when an answer without error proves nothing every command goes through *)
Lemma existsb_commit_unfaithful tg oc : executor_faithful = false ->
  existsb (fun r : bool * bool => fst r && snd r) (commit tg oc) = false.
Proof.
  intro Hef. unfold commit. induction tg as [|[j u] tg IH]; cbn [map existsb fst snd]; [reflexivity|].
  rewrite IH, (resp_err_unfaithful _ Hef), andb_false_r. reflexivity.
Qed.

Lemma cmd_unfaithful ts oc : executor_faithful = false -> res_ok (cmd_result ts oc) = true.
Proof.
  intro Hef. unfold cmd_result. destruct (targets ts) as [|[i t] [|b tg]]; [reflexivity| |].
  - unfold commit. cbn [map consolidate classify fst snd]. rewrite (resp_err_unfaithful _ Hef), andb_false_r. reflexivity.
  - remember ((i, t) :: b :: tg) as l.
    assert (Hc : exists x y r, commit l oc = x :: y :: r) by (subst l; cbn; eauto).
    pose proof (existsb_commit_unfaithful l oc Hef) as He.
    destruct Hc as (x & y & r & Hc). subst l. rewrite Hc in *. unfold consolidate. cbn [classify].
    rewrite He, andb_false_r. reflexivity.
Qed.

Lemma cmd_iff ts oc : res_ok (cmd_result ts oc) = true <-> crit_acked ts oc.
Proof. exact (cmd_iff_intact ts oc roster_intact_in_source). Qed.

(* with two targets or more and a roster that may have lost tasks every command goes through *)
Lemma cmd_not_intact ts oc : roster_intact = false -> (2 <= length (targets ts))%nat ->
  res_ok (cmd_result ts oc) = true.
Proof.
  intros Hri Hlen. unfold cmd_result. destruct (targets ts) as [|a [|b tg]]; cbn [length] in Hlen; try lia.
  remember (a :: b :: tg) as l.
  assert (Hc : exists x y r, commit l oc = x :: y :: r) by (subst l; cbn; eauto).
  destruct Hc as (x & y & r & Hc). subst l. rewrite Hc. unfold consolidate.
  rewrite (classify_multi_not_intact _ Hri). reflexivity.
Qed.

(* a critical commanded task that does not acknowledge fails the command, whatever else *)
Lemma cmd_critical_failure_fails ts oc i t :
  In (i, t) (targets ts) -> r_crit t = true -> oc_at oc i <> Ack ->
  res_ok (cmd_result ts oc) = false.
Proof.
  intros Hin Hc Hna. destruct (res_ok (cmd_result ts oc)) eqn:E; [|reflexivity]. exfalso.
  apply cmd_iff in E. apply Hna. exact (E i t Hin Hc).
Qed.

(* no target: the command succeeds at once, whatever the tasks would do *)
Lemma cmd_zero_targets ts oc : targets ts = [] -> cmd_result ts oc = ROk.
Proof. unfold cmd_result. intros ->. reflexivity. Qed.

(* what the non-critical tasks do is irrelevant *)
Lemma cmd_noncritical_inert ts oc oc' :
  (forall i t, In (i, t) (targets ts) -> r_crit t = true -> oc_at oc i = oc_at oc' i) ->
  res_ok (cmd_result ts oc) = res_ok (cmd_result ts oc').
Proof.
  intros Hsame.
  assert (Hiff : res_ok (cmd_result ts oc) = true <-> res_ok (cmd_result ts oc') = true).
  { rewrite !cmd_iff. unfold crit_acked. split; intros H i t Hin Hc.
    - rewrite <- (Hsame i t Hin Hc). exact (H i t Hin Hc).
    - rewrite (Hsame i t Hin Hc). exact (H i t Hin Hc). }
  destruct (res_ok (cmd_result ts oc)), (res_ok (cmd_result ts oc')); try reflexivity.
  - symmetry. apply Hiff. reflexivity.
  - apply Hiff. reflexivity.
Qed.

(* control mode and host play no part in the decision *)
Definition retag (f : tdesc -> cmode * N) (t : rtask) : rtask :=
  mkR (mkT (t_crit (r_d t)) (fst (f (r_d t))) (snd (f (r_d t)))) (r_stat t) (r_st t).

Lemma indexed_from_map {A B} (g : A -> B) l : forall k,
  indexed_from k (map g l) = map (fun p => (fst p, g (snd p))) (indexed_from k l).
Proof. induction l as [|a l IH]; intro k; cbn; [reflexivity|]. rewrite IH. reflexivity. Qed.

Lemma commit_retag f ts oc :
  commit (targets (map (retag f) ts)) oc = commit (targets ts) oc.
Proof.
  unfold targets, indexed. rewrite indexed_from_map.
  generalize (indexed_from 0 ts) as l. induction l as [|[i t] l IH]; [reflexivity|].
  cbn [map filter fst snd].
  change (active (retag f t)) with (active t).
  destruct (active t); [|exact IH].
  unfold commit in *. cbn [map fst snd]. rewrite IH. reflexivity.
Qed.

Lemma cmd_result_commit ts oc :
  cmd_result ts oc = match commit (targets ts) oc with
                     | [] => ROk
                     | _ :: _ => classify (consolidate (commit (targets ts) oc))
                     end.
Proof. unfold cmd_result. destruct (targets ts); reflexivity. Qed.

Lemma cmd_mode_host_irrelevant f ts oc : cmd_result (map (retag f) ts) oc = cmd_result ts oc.
Proof. rewrite !cmd_result_commit, commit_retag. reflexivity. Qed.

(* ------------------------------------------------------------------ *)
(* 4. Requests through the API                                         *)
(* ------------------------------------------------------------------ *)

Lemma memN_In x l : memN x l = true <-> In x l.
Proof.
  unfold memN. rewrite existsb_exists. split.
  - intros (y & Hy & E). apply N.eqb_eq in E. subst. exact Hy.
  - intro H. exists x. split; [exact H|apply N.eqb_refl].
Qed.

Lemma targets_nonempty_of_In ts i t : In (i, t) (targets ts) -> targets ts <> [].
Proof. intros H E. rewrite E in H. destruct H. Qed.

Lemma no_targets_false_of_In ts i t : In (i, t) (targets ts) -> no_targets ts = false.
Proof. unfold no_targets. intro H. destruct (targets ts); [destruct H|reflexivity]. Qed.

Lemma api_control_body e oc s :
  s_env s = ev_src e -> api_control e oc s = cmd_body e oc s.
Proof. intros Hsrc. unfold api_control. rewrite Hsrc, estate_beq_refl. reflexivity. Qed.

(* a critical commanded task that does not acknowledge: the environment ends in ERROR, the
   destination is never published, the request returns with an error *)
Lemma api_critical_failure e oc s i t :
  s_env s = ev_src e -> In (i, t) (targets (s_ts s)) -> r_crit t = true -> oc_at oc i <> Ack ->
  let (s', ob) := api_control e oc s in
  s_env s' = E_ERROR /\ o_state ob = 5 /\ o_hang ob = false /\
  ~ In (N_of_estate (ev_dst e)) (o_reported ob) /\ o_err ob = true.
Proof.
  intros Hsrc Hin Hc Hna.
  rewrite api_control_body by exact Hsrc.
  unfold cmd_body. rewrite (cmd_critical_failure_fails _ oc i t Hin Hc Hna). cbn.
  repeat split; try reflexivity. rewrite Hsrc. intros [H|[H|[]]].
  - apply N_of_estate_inj in H. symmetry in H. exact (ev_dst_src e H).
  - destruct e; discriminate.
Qed.

(* every failed command transition requested in the right state is answered with an error and
   the state ERROR *)
Lemma api_failure_returned e oc s :
  s_env s = ev_src e -> res_ok (cmd_result (s_ts s) oc) = false ->
  o_err (snd (api_control e oc s)) = true /\ o_state (snd (api_control e oc s)) = 5.
Proof.
  intros Hsrc Hf. rewrite (api_control_body e oc s Hsrc). unfold cmd_body. rewrite Hf. split; reflexivity.
Qed.

(* success: destination reached, published, no error *)
Lemma api_success e oc s :
  s_env s = ev_src e -> res_ok (cmd_result (s_ts s) oc) = true ->
  let (s', ob) := api_control e oc s in
  s_env s' = ev_dst e /\ o_state ob = N_of_estate (ev_dst e) /\ o_err ob = false /\ o_hang ob = false /\
  In (N_of_estate (ev_dst e)) (o_reported ob).
Proof.
  intros Hsrc Hf. rewrite (api_control_body e oc s Hsrc). unfold cmd_body. rewrite Hf. cbn.
  repeat split; try reflexivity. right. left. reflexivity.
Qed.

(* a request always returns, in whatever state it is made *)
Lemma api_never_hangs e oc s : o_hang (snd (api_control e oc s)) = false.
Proof.
  unfold api_control. destruct (negb (estate_beq (s_env s) (ev_src e))).
  - destruct (go_error_ok (s_env s)); reflexivity.
  - unfold cmd_body. destruct (res_ok (cmd_result (s_ts s) oc)); reflexivity.
Qed.

(* an answer without an error carries the destination state: no OK reply with state ERROR *)
Lemma api_ok_reply_is_dst e oc s :
  o_err (snd (api_control e oc s)) = false -> o_state (snd (api_control e oc s)) = N_of_estate (ev_dst e).
Proof.
  unfold api_control. destruct (negb (estate_beq (s_env s) (ev_src e))).
  - destruct (go_error_ok (s_env s)); cbn; discriminate.
  - unfold cmd_body. destruct (res_ok (cmd_result (s_ts s) oc)); cbn; [reflexivity|discriminate].
Qed.

(* ------------------------------------------------------------------ *)
(* 5. Creation                                                         *)
(* ------------------------------------------------------------------ *)

Lemma launch_all_stat ds : forall ls,
  (forall c, In c (map leaf_of (launch_all ds ls)) -> stat_of c = ACTIVE) <-> all_launch_ok ds ls = true.
Proof.
  induction ds as [|d ds IH]; intro ls; cbn [launch_all map all_launch_ok].
  - split; [reflexivity|intros _ c []].
  - rewrite andb_true_iff, <- IH. split.
    + intro H. split.
      * specialize (H _ (or_introl eq_refl)). destruct (hd LRun ls); cbn in H; try discriminate; reflexivity.
      * intros c Hc. apply H. right. exact Hc.
    + intros [H1 H2] c [<-|Hc]; [|apply H2, Hc].
      apply is_run_iff in H1. rewrite H1. reflexivity.
Qed.

Lemma launch_all_length ds : forall ls, length (launch_all ds ls) = length ds.
Proof. induction ds as [|d ds IH]; intro ls; cbn; [reflexivity|]. rewrite IH. reflexivity. Qed.

(* the lock discipline of SafeStatus.merge / get counted by the translator is the one under which
   the root's status is the fold of the leaves *)
Lemma status_merge_atomic_in_source : status_merge_atomic = true.
Proof. vm_compute. reflexivity. Qed.

Lemma deploy_needs_atomic ts nc : status_merge_atomic = false -> deploy_ok ts nc = false.
Proof. unfold deploy_ok. intros ->. reflexivity. Qed.

(* DEPLOY succeeds iff the workflow has a role and every task (critical or not) became active -
   given that status aggregation is atomic *)
Lemma deploy_ok_iff_atomic ds nc ls : status_merge_atomic = true ->
  (deploy_ok (launch_all ds ls) nc = true <-> (ds <> [] \/ nc <> 0) /\ all_launch_ok ds ls = true).
Proof.
  intro Hat. unfold deploy_ok. rewrite Hat. cbn [andb].
  unfold wf_status, wf_leaves. rewrite status_beq_iff, fold_status_ACTIVE. split.
  - intros [Hne Hall]. split.
    + destruct ds as [|d ds]; [|left; discriminate]. right. intro E. subst nc. apply Hne. reflexivity.
    + apply launch_all_stat. intros c Hc. apply Hall. apply in_or_app. left. exact Hc.
  - intros [Hne Hall]. split.
    + intro E. apply app_eq_nil in E. destruct E as [E1 E2].
      destruct Hne as [Hd|Hn].
      * apply Hd. destruct ds; [reflexivity|]. cbn in E1. discriminate.
      * apply Hn. destruct nc as [|p]; [reflexivity|].
        assert (Hp : (0 < N.to_nat (N.pos p))%nat) by lia.
        destruct (N.to_nat (N.pos p)); [lia|]. cbn in E2. discriminate.
    + intros c Hc. apply in_app_or in Hc. destruct Hc as [Hc|Hc].
      * exact (proj2 (launch_all_stat ds ls) Hall c Hc).
      * apply repeat_spec in Hc. subst c. reflexivity.
Qed.

Lemma all_launch_ok_crit ds : forall ls, all_launch_ok ds ls = true -> crit_launch_ok ds ls = true.
Proof.
  induction ds as [|d ds IH]; intro ls; cbn; [reflexivity|]. rewrite !andb_true_iff.
  intros [H1 H2]. split; [rewrite H1; apply orb_true_r|apply IH, H2].
Qed.

(* when no non-critical task exists, "all launched" is "all critical launched" *)
Lemma crit_launch_ok_all ds : forall ls, forallb t_crit ds = true ->
  crit_launch_ok ds ls = all_launch_ok ds ls.
Proof.
  induction ds as [|d ds IH]; intro ls; cbn; [reflexivity|]. rewrite andb_true_iff.
  intros [H1 H2]. rewrite H1. cbn. rewrite IH by exact H2. reflexivity.
Qed.

(* what a failed creation looks like *)
Lemma create_failed_obs ds nc ls oc :
  fst (create ds nc ls oc) = None ->
  let ob := snd (create ds nc ls oc) in
  o_err ob = true /\ o_hang ob = false /\ In 5 (o_reported ob) /\ ~ In 3 (o_reported ob) /\
  (deploy_ok (launch_all ds ls) nc = false -> ~ In 2 (o_reported ob)).
Proof.
  unfold create. destruct (deploy_ok (launch_all ds ls) nc) eqn:Ed; cbn [negb].
  - destruct (res_ok (cmd_result (launch_all ds ls) oc)); cbn; [discriminate|].
    intros _. repeat split; try tauto.
    + intros [H|[H|[H|[H|[]]]]]; discriminate.
    + discriminate.
  - cbn. intros _. repeat split; try tauto.
    + intros [H|[H|[H|[]]]]; discriminate.
    + intros _ [H|[H|[H|[]]]]; discriminate.
Qed.

(* ------------------------------------------------------------------ *)
(* 6. Histories                                                        *)
(* ------------------------------------------------------------------ *)

(* in every history, a request that hangs or leaves ERROR is the last one *)
Lemma run_ops_stops ops : forall s pre ob post,
  run_ops ops s = pre ++ ob :: post -> post <> [] ->
  o_hang ob = false /\ o_state ob <> 5.
Proof.
  induction ops as [|o ops IH]; intros s pre ob post H Hpost; cbn [run_ops] in H.
  - destruct pre; discriminate.
  - destruct (step o s) as [s' ob0] eqn:Es.
    assert (Hst : o_state ob0 = N_of_estate (s_env s') \/ o_hang ob0 = true).
    { destruct o as [e oc|i]; cbn [step] in Es.
      - unfold api_control in Es.
        destruct (negb (estate_beq (s_env s) (ev_src e))).
        + destruct (go_error_ok (s_env s)); inversion Es; subst; left; reflexivity.
        + unfold cmd_body in Es. destruct (res_ok (cmd_result (s_ts s) oc)); inversion Es; subst; left; reflexivity.
      - unfold idle_kill in Es. inversion Es; subst. left. reflexivity. }
    destruct pre as [|p pre].
    + cbn in H. inversion H; subst ob0. clear H.
      destruct (o_hang ob) eqn:Eh; cbn [orb] in H2.
      * symmetry in H2. congruence.
      * destruct (estate_beq (s_env s') E_ERROR) eqn:Ee; [symmetry in H2; congruence|].
        split; [reflexivity|]. destruct Hst as [Hst|Hst]; [|congruence].
        rewrite Hst. intro X. change 5 with (N_of_estate E_ERROR) in X.
        apply N_of_estate_inj in X. rewrite X in Ee. cbn in Ee. discriminate.
    + cbn in H. inversion H; subst p. clear H.
      destruct (o_hang ob0 || estate_beq (s_env s') E_ERROR).
      * destruct pre; discriminate.
      * eapply IH; eassumption.
Qed.

Lemma deploy_ok_iff ds nc ls :
  deploy_ok (launch_all ds ls) nc = true <-> (ds <> [] \/ nc <> 0) /\ all_launch_ok ds ls = true.
Proof. exact (deploy_ok_iff_atomic ds nc ls status_merge_atomic_in_source). Qed.

(* ------------------------------------------------------------------ *)
(* 7. Creation: the exact condition under which "iff critical" holds   *)
(* ------------------------------------------------------------------ *)

Definition ready (d : tdesc) : rtask := mkR d ACTIVE STANDBY.

Fixpoint noncrit_launch_ok (ds : list tdesc) (ls : list launch) : bool :=
  match ds with
  | [] => true
  | d :: r => (t_crit d || is_run (hd LRun ls)) && noncrit_launch_ok r (tl ls)
  end.

Lemma all_launch_split ds : forall ls,
  all_launch_ok ds ls = crit_launch_ok ds ls && noncrit_launch_ok ds ls.
Proof.
  induction ds as [|d ds IH]; intro ls; cbn; [reflexivity|]. rewrite IH.
  destruct (t_crit d), (is_run (hd LRun ls)); cbn; try reflexivity;
    destruct (crit_launch_ok ds (tl ls)); reflexivity.
Qed.

Lemma launch_all_ready ds : forall ls, all_launch_ok ds ls = true -> launch_all ds ls = map ready ds.
Proof.
  induction ds as [|d ds IH]; intro ls; cbn; [reflexivity|]. rewrite andb_true_iff. intros [H1 H2].
  apply is_run_iff in H1. rewrite H1, IH by exact H2. reflexivity.
Qed.

Lemma filter_all {A} (f : A -> bool) l : (forall x, In x l -> f x = true) -> filter f l = l.
Proof.
  induction l as [|a l IH]; intro H; cbn; [reflexivity|].
  rewrite (H a (or_introl eq_refl)), IH; [reflexivity|]. intros x Hx. apply H. right. exact Hx.
Qed.

Lemma targets_ready ds : targets (map ready ds) = indexed (map ready ds).
Proof.
  unfold targets. apply filter_all. intros [i t] Hin. apply indexed_In in Hin. cbn.
  apply nth_error_In in Hin. apply in_map_iff in Hin. destruct Hin as (d & <- & _). reflexivity.
Qed.

Lemma indexed_from_length {A} (l : list A) : forall k, length (indexed_from k l) = length l.
Proof. induction l as [|a l IH]; intro k; cbn; [reflexivity|]. rewrite IH. reflexivity. Qed.

Lemma nth_error_map_ready ds i t :
  nth_error (map ready ds) i = Some t <-> exists d, nth_error ds i = Some d /\ t = ready d.
Proof.
  rewrite nth_error_map. destruct (nth_error ds i) as [d|]; cbn; split.
  - intro H. inversion H. eauto.
  - intros (d' & H & ->). inversion H. reflexivity.
  - discriminate.
  - intros (d' & H & _). discriminate.
Qed.

Lemma crit_cfg_ok_from_spec ds oc : forall k,
  crit_cfg_ok_from k ds oc = true <->
  forall i d, nth_error ds i = Some d -> t_crit d = true -> oc_at oc (k + i) = Ack.
Proof.
  induction ds as [|d ds IH]; intro k; cbn [crit_cfg_ok_from].
  - split; [intros _ i d H; destruct i; discriminate|reflexivity].
  - rewrite andb_true_iff, IH. split.
    + intros [H1 H2] i x Hn Hc. destruct i as [|i]; cbn in Hn.
      * inversion Hn; subst x. rewrite Hc in H1. cbn in H1. apply is_ack_iff in H1.
        replace (k + 0)%nat with k by lia. exact H1.
      * replace (k + S i)%nat with (S k + i)%nat by lia. exact (H2 i x Hn Hc).
    + intro H. split.
      * destruct (t_crit d) eqn:Hc; [|reflexivity]. cbn. apply is_ack_iff.
        specialize (H 0%nat d eq_refl Hc). replace (k + 0)%nat with k in H by lia. exact H.
      * intros i x Hn Hc. replace (S k + i)%nat with (k + S i)%nat by lia. exact (H (S i) x Hn Hc).
Qed.

Lemma crit_acked_ready ds oc : crit_acked (map ready ds) oc <-> crit_cfg_ok_from 0 ds oc = true.
Proof.
  rewrite crit_cfg_ok_from_spec. unfold crit_acked. split.
  - intros H i d Hn Hc. apply (H i (ready d)); [|exact Hc].
    apply targets_In. split; [|reflexivity]. apply nth_error_map_ready. eauto.
  - intros H i t Hin Hc. apply targets_In in Hin. destruct Hin as [Hn _].
    apply nth_error_map_ready in Hn. destruct Hn as (d & Hn & ->). exact (H i d Hn Hc).
Qed.

Lemma has_crit_target_ready ds : has_crit_target (map ready ds) = existsb t_crit ds.
Proof.
  unfold has_crit_target. rewrite targets_ready.
  destruct (existsb t_crit ds) eqn:E.
  - apply existsb_exists in E. destruct E as (d & Hd & Hc). apply In_nth_error in Hd.
    destruct Hd as (i & Hi). apply existsb_exists. exists (i, ready d). split; [|exact Hc].
    apply indexed_In. apply nth_error_map_ready. eauto.
  - destruct (existsb _ (indexed (map ready ds))) eqn:E2; [|reflexivity].
    apply existsb_exists in E2. destruct E2 as ([i t] & Hin & Hc). apply indexed_In in Hin.
    apply nth_error_map_ready in Hin. destruct Hin as (d & Hn & ->). cbn in Hc.
    assert (X : existsb t_crit ds = true).
    { apply existsb_exists. exists d. split; [eapply nth_error_In; exact Hn|exact Hc]. }
    congruence.
Qed.

Lemma targets_ready_length ds : length (targets (map ready ds)) = length ds.
Proof. rewrite targets_ready. unfold indexed. rewrite indexed_from_length, map_length. reflexivity. Qed.

Definition created (ds : list tdesc) (nc : N) (ls : list launch) (oc : list outc) : bool :=
  match fst (create ds nc ls oc) with Some _ => true | None => false end.

(* creation, exactly: the workflow has a role, every task (critical or not) launched, and every
   critical task acknowledged CONFIGURE *)
Lemma create_exact ds nc ls oc :
  created ds nc ls oc = true <->
  (ds <> [] \/ nc <> 0) /\ all_launch_ok ds ls = true /\ crit_cfg_ok_from 0 ds oc = true.
Proof.
  unfold created, create.
  destruct (deploy_ok (launch_all ds ls) nc) eqn:Ed; cbn [negb].
  - apply deploy_ok_iff in Ed. destruct Ed as [Hne Hall].
    rewrite (launch_all_ready ds ls Hall).
    pose proof (cmd_iff (map ready ds) oc) as Hiff. rewrite crit_acked_ready in Hiff.
    destruct (res_ok (cmd_result (map ready ds) oc)) eqn:Er; cbn.
    + split; [intros _; split; [exact Hne|split; [exact Hall|apply Hiff; reflexivity]]|reflexivity].
    + split; [discriminate|]. intros (_ & _ & H). apply Hiff in H. discriminate.
  - cbn. split; [discriminate|]. intros (Hne & Hall & _). exfalso.
    assert (X : deploy_ok (launch_all ds ls) nc = true); [|congruence].
    apply deploy_ok_iff. split; assumption.
Qed.

(* creation succeeds iff every critical task launched and acknowledged CONFIGURE — provided the
   workflow has a role and every non-critical task launched too *)
Lemma create_iff_partial ds nc ls oc :
  noncrit_launch_ok ds ls = true ->
  ds <> [] \/ nc <> 0 ->
  (created ds nc ls oc = true <-> crit_launch_ok ds ls = true /\ crit_cfg_ok_from 0 ds oc = true).
Proof.
  intros Hnon Hne. rewrite create_exact, all_launch_split, Hnon, andb_true_r. tauto.
Qed.

(* both extra hypotheses are necessary: without them creation fails whatever the critical tasks do *)
Lemma create_needs_role ls oc : created [] 0 ls oc = false.
Proof. reflexivity. Qed.

Lemma create_needs_noncrit ds nc ls oc : noncrit_launch_ok ds ls = false -> created ds nc ls oc = false.
Proof.
  intro Hn. destruct (created ds nc ls oc) eqn:E; [|reflexivity].
  apply create_exact in E. destruct E as (_ & Hall & _).
  rewrite all_launch_split, Hn, andb_false_r in Hall. discriminate.
Qed.

(* ------------------------------------------------------------------ *)
(* 8. Bridge: the monitor on the model's own behaviour                 *)
(* ------------------------------------------------------------------ *)
(* On what the model does, the monitor reports nothing but the recorded classes 6 and 7 (DEPLOY):
   any other class seen on the implementation means the implementation left the model. *)

Definition allowed02 : list N := [0; 6; 7].

Lemma stat_active_view t : stat_active (N_of_state (r_st t), N_of_status (r_stat t)) = active t.
Proof. unfold stat_active, active. cbn. destruct (r_stat t); reflexivity. Qed.

Lemma positions_cmded ts : forall n,
  positions_from (N.of_nat n) (tasks_view ts) =
  map (fun p : nat * rtask => N.of_nat (fst p)) (filter (fun p => active (snd p)) (indexed_from n ts)).
Proof.
  induction ts as [|t ts IH]; intro n; cbn [tasks_view map positions_from indexed_from filter snd]; [reflexivity|].
  rewrite stat_active_view. rewrite <- Nat2N.inj_succ. fold (tasks_view ts). rewrite IH.
  destruct (active t); reflexivity.
Qed.

Lemma active_positions_view ts : active_positions (tasks_view ts) = cmded_view ts.
Proof. unfold active_positions, cmded_view, targets, indexed. exact (positions_cmded ts 0). Qed.

Lemma crit_all_ok_from_spec ts oc : forall k,
  crit_all_ok_from k (map r_d ts) (tasks_view ts) oc = true <->
  forall i t, nth_error ts i = Some t -> r_crit t = true -> active t = true /\ oc_at oc (k + i) = Ack.
Proof.
  induction ts as [|t ts IH]; intro k; cbn [map tasks_view crit_all_ok_from tl].
  - split; [intros _ i t H; destruct i; discriminate|reflexivity].
  - fold (tasks_view ts). rewrite andb_true_iff, IH, stat_active_view. split.
    + intros [H1 H2] i x Hn Hc. destruct i as [|i]; cbn in Hn.
      * inversion Hn; subst x. unfold r_crit in Hc. rewrite Hc in H1. cbn in H1.
        apply andb_true_iff in H1. destruct H1 as [Ha Hk]. apply is_ack_iff in Hk.
        replace (k + 0)%nat with k by lia. split; assumption.
      * replace (k + S i)%nat with (S k + i)%nat by lia. exact (H2 i x Hn Hc).
    + intro H. split.
      * destruct (t_crit (r_d t)) eqn:Hc; [|reflexivity]. cbn.
        destruct (H 0%nat t eq_refl Hc) as [Ha Hk]. replace (k + 0)%nat with k in Hk by lia.
        rewrite Ha, Hk. reflexivity.
      * intros i x Hn Hc. replace (S k + i)%nat with (k + S i)%nat by lia. exact (H (S i) x Hn Hc).
Qed.

(* critical tasks are all active: true of every state a history reaches *)
Definition crit_active (ts : list rtask) : Prop := forall t, In t ts -> r_crit t = true -> active t = true.

Lemma expected_iff_acked ts oc : crit_active ts ->
  (crit_all_ok (map r_d ts) (tasks_view ts) oc = true <-> crit_acked ts oc).
Proof.
  intro Hca. unfold crit_all_ok. rewrite crit_all_ok_from_spec. unfold crit_acked. split.
  - intros H i t Hin Hc. apply targets_In in Hin. destruct Hin as [Hn _].
    exact (proj2 (H i t Hn Hc)).
  - intros H i t Hn Hc. assert (Ha : active t = true) by (apply Hca; [eapply nth_error_In; exact Hn|exact Hc]).
    split; [exact Ha|]. apply (H i t); [apply targets_In; split; assumption|exact Hc].
Qed.

Lemma N_of_estate_eqb a b : N.eqb (N_of_estate a) (N_of_estate b) = estate_beq a b.
Proof. destruct a, b; reflexivity. Qed.

Lemma dst_not_in_failed e : memN (N_of_estate (ev_dst e)) [N_of_estate (ev_src e); 5] = false.
Proof. destruct e; reflexivity. Qed.
Lemma dst_in_ok e : memN (N_of_estate (ev_dst e)) [N_of_estate (ev_src e); N_of_estate (ev_dst e)] = true.
Proof. destruct e; reflexivity. Qed.
Lemma dst_neq_5 e : N.eqb 5 (N_of_estate (ev_dst e)) = false.
Proof. destruct e; reflexivity. Qed.
Lemma src_neq_dst e : N.eqb (N_of_estate (ev_src e)) (N_of_estate (ev_dst e)) = false.
Proof. destruct e; reflexivity. Qed.

Lemma In_allowed_0 : In 0 allowed02. Proof. cbn; tauto. Qed.

(* one command request made in the right state *)
Lemma mon_cmd_model e oc s :
  crit_active (s_ts s) -> s_env s = ev_src e ->
  mon_cmd (map r_d (s_ts s)) (tasks_view (s_ts s)) (N_of_estate (s_env s)) e oc
          (snd (api_control e oc s)) = 0.
Proof.
  intros Hca Hsrc. unfold mon_cmd. rewrite Hsrc, N.eqb_refl. cbn [negb].
  pose proof (expected_iff_acked (s_ts s) oc Hca) as Hexp.
  assert (Hcm : list_eqb N.eqb (cmded_view (s_ts s)) (active_positions (tasks_view (s_ts s))) = true).
  { rewrite active_positions_view. apply list_eqb_spec; [intros x y; apply N.eqb_eq|reflexivity]. }
  rewrite (api_control_body e oc s Hsrc). unfold cmd_body. rewrite Hsrc.
  destruct (res_ok (cmd_result (s_ts s) oc)) eqn:Er; cbn [snd o_cmded o_hang o_state o_err o_reported];
    rewrite Hcm; cbn [negb andb].
  - (* the command went through *)
    rewrite N.eqb_refl, dst_in_ok. cbn [negb andb].
    destruct (crit_all_ok (map r_d (s_ts s)) (tasks_view (s_ts s)) oc) eqn:Ee; [reflexivity|].
    exfalso. apply cmd_iff in Er. apply Hexp in Er. congruence.
  - (* the command failed *)
    rewrite dst_neq_5. cbn [andb negb].
    destruct (crit_all_ok (map r_d (s_ts s)) (tasks_view (s_ts s)) oc) eqn:Ee.
    + exfalso. pose proof (proj1 Hexp eq_refl) as Ha. apply cmd_iff in Ha. congruence.
    + rewrite dst_not_in_failed. reflexivity.
Qed.

(* a command that went through had all its critical targets acknowledging *)
Lemma cmd_ok_acked ts oc : res_ok (cmd_result ts oc) = true -> crit_acked ts oc.
Proof. apply cmd_iff. Qed.

Lemma task_after_rd e o t : r_d (task_after e o t) = r_d t.
Proof. destruct o; reflexivity. Qed.

Lemma tasks_after_rd e ts oc : map r_d (tasks_after e ts oc) = map r_d ts.
Proof.
  unfold tasks_after, indexed. generalize 0%nat as k.
  induction ts as [|t ts IH]; intro k; cbn [indexed_from map]; [reflexivity|].
  rewrite IH. cbn [fst snd]. destruct (active t); [rewrite task_after_rd|]; reflexivity.
Qed.

Lemma tasks_after_In e ts oc t' : In t' (tasks_after e ts oc) ->
  exists i t, nth_error ts i = Some t /\ t' = if active t then task_after e (oc_at oc i) t else t.
Proof.
  unfold tasks_after. intro H. apply in_map_iff in H. destruct H as ([i t] & <- & Hin).
  apply indexed_In in Hin. exists i, t. split; [exact Hin|reflexivity].
Qed.

Lemma cmd_ok_preserves_crit_active e ts oc :
  crit_active ts -> res_ok (cmd_result ts oc) = true -> crit_active (tasks_after e ts oc).
Proof.
  intros Hca Er t' Hin Hc. apply tasks_after_In in Hin. destruct Hin as (i & t & Hn & ->).
  assert (Hct : r_crit t = true).
  { destruct (active t); [|exact Hc]. unfold r_crit in *. rewrite task_after_rd in Hc. exact Hc. }
  assert (Ha : active t = true) by (apply Hca; [eapply nth_error_In; exact Hn|exact Hct]).
  rewrite Ha. assert (Hk : oc_at oc i = Ack).
  { apply (cmd_ok_acked ts oc Er i t); [apply targets_In; split; assumption|exact Hct]. }
  rewrite Hk. cbn. exact Ha.
Qed.

Lemma map_rd_ready ds : map r_d (map ready ds) = ds.
Proof. rewrite map_map. cbn. apply map_id. Qed.

Lemma crit_active_ready ds : crit_active (map ready ds).
Proof. intros t Hin _. apply in_map_iff in Hin. destruct Hin as (d & <- & _). reflexivity. Qed.

(* creation *)
Lemma mon_create_model ds nc ls oc :
  In (mon_create ds nc ls oc (snd (create ds nc ls oc))) allowed02.
Proof.
  unfold create. destruct (deploy_ok (launch_all ds ls) nc) eqn:Ed; cbn [negb].
  - pose proof (proj1 (deploy_ok_iff ds nc ls) Ed) as [Hne Hall].
    rewrite (launch_all_ready ds ls Hall).
    pose proof (all_launch_ok_crit ds ls Hall) as Hlc.
    destruct (res_ok (cmd_result (map ready ds) oc)) eqn:Er; unfold mon_create;
      cbn [snd o_state o_err o_hang o_reported o_cmded]; rewrite Hlc; cbn [andb negb].
    + (* created *)
      pose proof (proj1 (crit_acked_ready ds oc) (cmd_ok_acked _ oc Er)) as Hk. rewrite Hk. cbn. tauto.
    + (* CONFIGURE failed *)
      destruct (crit_cfg_ok_from 0 ds oc) eqn:Ek.
      * exfalso. apply crit_acked_ready in Ek. apply cmd_iff in Ek. congruence.
      * cbn. tauto.
  - (* DEPLOY failed *)
    unfold mon_create. cbn [snd o_state o_err o_hang o_reported o_cmded].
    destruct (crit_launch_ok ds ls && crit_cfg_ok_from 0 ds oc) eqn:Ee.
    + cbn. destruct ds as [|d ds].
      * destruct nc as [|p]; [cbn; tauto|]. exfalso.
        assert (X : deploy_ok (launch_all [] ls) (N.pos p) = true); [|congruence].
        apply deploy_ok_iff. split; [right; discriminate|reflexivity].
      * destruct (all_launch_ok (d :: ds) ls) eqn:Ea; [|cbn; tauto]. exfalso.
        assert (X : deploy_ok (launch_all (d :: ds) ls) nc = true); [|congruence].
        apply deploy_ok_iff. split; [left; discriminate|exact Ea].
    + cbn. rewrite andb_false_r. cbn. tauto.
Qed.

(* idle death *)
Lemma kill_nth_rd i : forall ts, map r_d (kill_nth i ts) = map r_d ts.
Proof.
  induction i as [|i IH]; intros [|t ts]; cbn; try reflexivity. rewrite IH. reflexivity.
Qed.

Lemma kill_nth_In i : forall ts t', In t' (kill_nth i ts) ->
  In t' ts \/ exists t, nth_error ts i = Some t /\ t' = mkR (r_d t) INACTIVE ERROR.
Proof.
  induction i as [|i IH]; intros [|t ts] t' H; cbn in H; try (destruct H; fail).
  - destruct H as [<-|H]; [right; exists t; split; reflexivity|left; right; exact H].
  - destruct H as [<-|H]; [left; left; reflexivity|].
    destruct (IH ts t' H) as [H1|(u & Hu & ->)]; [left; right; exact H1|right; exists u; split; [exact Hu|reflexivity]].
Qed.

Definition inv (ds : list tdesc) (s : sys) : Prop :=
  map r_d (s_ts s) = ds /\ crit_active (s_ts s) /\ go_error_ok (s_env s) = true.

Definition mon_step (ds : list tdesc) (s : sys) (o : op) (ob : step_obs) : N :=
  match o with
  | OCmd e oc => mon_cmd ds (tasks_view (s_ts s)) (N_of_estate (s_env s)) e oc ob
  | OKill i => mon_kill ds (N_of_estate (s_env s)) i ob
  end.

Lemma step_model ds o s : inv ds s ->
  In (mon_step ds s o (snd (step o s))) allowed02 /\
  (o_hang (snd (step o s)) || estate_beq (s_env (fst (step o s))) E_ERROR = false ->
   inv ds (fst (step o s)) /\ o_tasks (snd (step o s)) = tasks_view (s_ts (fst (step o s))) /\
   o_state (snd (step o s)) = N_of_estate (s_env (fst (step o s)))).
Proof.
  intros (Hds & Hca & Hlive). destruct o as [e oc|i]; cbn [step mon_step].
  - destruct (estate_beq (s_env s) (ev_src e)) eqn:Es.
    + apply estate_beq_iff in Es. split.
      * subst ds. rewrite mon_cmd_model by assumption. apply In_allowed_0.
      * rewrite (api_control_body e oc s Es). unfold cmd_body.
        destruct (res_ok (cmd_result (s_ts s) oc)) eqn:Er; cbn; [|discriminate].
        intros _. split; [|split; reflexivity]. split; [|split].
        -- cbn. rewrite tasks_after_rd. exact Hds.
        -- cbn. apply cmd_ok_preserves_crit_active; assumption.
        -- cbn. destruct e; reflexivity.
    + split.
      * unfold mon_cmd. rewrite N_of_estate_eqb, Es. cbn. tauto.
      * unfold api_control. rewrite Es. cbn [negb]. rewrite Hlive. cbn. discriminate.
  - unfold idle_kill. cbn [fst snd o_hang o_tasks o_state s_env s_ts orb].
    assert (Hn : nth_error ds i = option_map r_d (nth_error (s_ts s) i)).
    { subst ds. apply nth_error_map. }
    destruct (nth_error (s_ts s) i) as [t|] eqn:Et; cbn [option_map] in Hn.
    + destruct (r_crit t) eqn:Hc; rewrite Hlive; cbn [andb].
      * split; [|cbn; discriminate].
        unfold mon_kill. rewrite Hn. unfold r_crit in Hc. rewrite Hc. cbn. tauto.
      * split.
        -- unfold mon_kill. rewrite Hn. unfold r_crit in Hc. rewrite Hc. cbn. rewrite N.eqb_refl. cbn. tauto.
        -- intros _. split; [|split; reflexivity]. split; [|split].
           ++ cbn. rewrite kill_nth_rd. exact Hds.
           ++ cbn. intros t' Hin Hct. apply kill_nth_In in Hin.
              destruct Hin as [Hin|(u & Hu & ->)]; [apply Hca; assumption|].
              rewrite Et in Hu. inversion Hu; subst u. unfold r_crit in *. cbn in Hct. congruence.
           ++ exact Hlive.
    + cbn [andb]. split.
      * unfold mon_kill. rewrite Hn. rewrite N.eqb_refl. cbn. tauto.
      * intros _. split; [|split; reflexivity]. split; [|split].
        -- cbn. rewrite kill_nth_rd. exact Hds.
        -- cbn. intros t' Hin Hct. apply kill_nth_In in Hin.
           destruct Hin as [Hin|(u & Hu & _)]; [apply Hca; assumption|congruence].
        -- exact Hlive.
Qed.

Lemma mon_ops_nil ds v p ops : mon_ops ds v p ops [] = [].
Proof. destruct ops; reflexivity. Qed.

Lemma mon_ops_model ds ops : forall s, inv ds s ->
  forall c, In c (mon_ops ds (tasks_view (s_ts s)) (N_of_estate (s_env s)) ops (run_ops ops s)) ->
  In c allowed02.
Proof.
  induction ops as [|o ops IH]; intros s Hinv c Hc; cbn [run_ops] in Hc.
  - destruct Hc.
  - pose proof (step_model ds o s Hinv) as [Hm Hnext].
    destruct (step o s) as [s' ob] eqn:Es. cbn [fst snd] in *.
    cbn [mon_ops] in Hc. destruct Hc as [<-|Hc].
    + destruct o; exact Hm.
    + destruct (o_hang ob || estate_beq (s_env s') E_ERROR) eqn:Estop.
      * destruct ops; cbn in Hc; destruct Hc.
      * destruct (Hnext eq_refl) as (Hinv' & Ht & Hst). rewrite Ht, Hst in Hc.
        exact (IH s' Hinv' c Hc).
Qed.

Lemma pick02_allowed l : (forall c, In c l -> In c allowed02) -> In (pick02 l) allowed02.
Proof.
  intro H. unfold pick02. destruct (filter (fun c => memN c l) prio02) as [|c r] eqn:E.
  - cbn. tauto.
  - assert (Hin : In c (filter (fun c => memN c l) prio02)) by (rewrite E; left; reflexivity).
    apply filter_In in Hin. destruct Hin as [_ Hm]. apply memN_In in Hm. apply H, Hm.
Qed.

(* the bridge *)
Lemma mon_model_allowed i : In (mon02 (mkCase i (run_model i))) allowed02.
Proof.
  unfold mon02. apply pick02_allowed. unfold mon_codes, run_model. cbn [c_in c_obs].
  pose proof (mon_create_model (i_tasks i) (i_ncalls i) (i_launch i) (i_cfg i)) as Hc.
  destruct (create (i_tasks i) (i_ncalls i) (i_launch i) (i_cfg i)) as [[s|] ob] eqn:Ec; cbn [snd] in Hc.
  - intros c [<-|Hin]; [exact Hc|].
    (* the created system satisfies the invariant and is what the observation shows *)
    unfold create in Ec.
    destruct (deploy_ok (launch_all (i_tasks i) (i_launch i)) (i_ncalls i)) eqn:Ed; cbn [negb] in Ec; [|discriminate].
    pose proof (proj1 (deploy_ok_iff _ _ _) Ed) as [_ Hall].
    rewrite (launch_all_ready _ _ Hall) in Ec.
    destruct (res_ok (cmd_result (map ready (i_tasks i)) (i_cfg i))) eqn:Er; [|discriminate].
    inversion Ec; subst s ob. clear Ec. cbn [o_tasks o_state] in Hin.
    apply (mon_ops_model (i_tasks i) (i_ops i)
             (mkSys E_CONFIGURED (tasks_after CONFIGURE (map ready (i_tasks i)) (i_cfg i)) (i_ncalls i))); [|exact Hin].
    split; [|split].
    + cbn. rewrite tasks_after_rd. apply map_rd_ready.
    + cbn. apply cmd_ok_preserves_crit_active; [apply crit_active_ready|exact Er].
    + reflexivity.
  - rewrite mon_ops_nil. intros c [<-|[]]. exact Hc.
Qed.

(* ------------------------------------------------------------------ *)
(* 9. Statements at the level of a request                             *)
(* ------------------------------------------------------------------ *)

(* the request returned, without an error, with the destination state *)
Definition reached (e : cev) (ob : step_obs) : Prop :=
  o_state ob = N_of_estate (ev_dst e) /\ o_hang ob = false /\ o_err ob = false.

(* a request made in the right state reaches its destination iff every critical commanded task
   acknowledged *)
Lemma api_iff e oc s :
  s_env s = ev_src e ->
  (reached e (snd (api_control e oc s)) <-> crit_acked (s_ts s) oc).
Proof.
  intros Hsrc. rewrite <- (cmd_iff _ oc).
  rewrite api_control_body by exact Hsrc.
  unfold cmd_body, reached. destruct (res_ok (cmd_result (s_ts s) oc)); cbn.
  - split; [reflexivity|]. intros _. repeat split; reflexivity.
  - split; [|discriminate]. intros [H _]. destruct e; discriminate.
Qed.

(* with nothing to command a request reaches its destination, and nothing is commanded *)
Lemma api_nothing_to_command e oc s :
  s_env s = ev_src e -> targets (s_ts s) = [] ->
  reached e (snd (api_control e oc s)) /\ o_cmded (snd (api_control e oc s)) = [].
Proof.
  intros Hsrc Et. split.
  - apply api_iff; [exact Hsrc|]. unfold crit_acked. rewrite Et. intros ? ? [].
  - rewrite api_control_body by exact Hsrc. unfold cmd_body.
    destruct (res_ok (cmd_result (s_ts s) oc)); cbn; unfold cmded_view; rewrite Et; reflexivity.
Qed.

(* failures confined to non-critical tasks never make a request fail *)
Lemma api_noncritical_never_fails e oc s :
  s_env s = ev_src e -> crit_acked (s_ts s) oc -> reached e (snd (api_control e oc s)).
Proof. intros Hsrc H. apply api_iff; assumption. Qed.

Lemma created_sound ds nc ls oc :
  created ds nc ls oc = true -> crit_launch_ok ds ls = true /\ crit_cfg_ok_from 0 ds oc = true.
Proof.
  unfold created, create. destruct (deploy_ok (launch_all ds ls) nc) eqn:Ed; cbn [negb]; [|discriminate].
  pose proof (proj1 (deploy_ok_iff _ _ _) Ed) as [_ Hall]. rewrite (launch_all_ready _ _ Hall).
  destruct (res_ok (cmd_result (map ready ds) oc)) eqn:Er; [|discriminate]. intros _.
  split; [apply all_launch_ok_crit, Hall|apply crit_acked_ready, cmd_ok_acked, Er].
Qed.

Lemma created_obs ds nc ls oc : created ds nc ls oc = true ->
  let ob := snd (create ds nc ls oc) in
  o_state ob = 3 /\ o_err ob = false /\ o_hang ob = false /\ In 3 (o_reported ob).
Proof.
  unfold created, create. destruct (deploy_ok (launch_all ds ls) nc); cbn [negb]; [|discriminate].
  destruct (res_ok (cmd_result (launch_all ds ls) oc)); [|discriminate]. intros _. cbn.
  repeat split; try reflexivity. right. right. left. reflexivity.
Qed.
