From Coq Require Import List NArith Bool.
From Verif Require Import Common Gen_ProxyMiss CacheProxy.
Import ListNotations.
Open Scope N_scope.

Lemma proxy_miss_keeps_answer : Nat.leb proxy_miss 1 = true.
Proof. vm_compute. reflexivity. Qed.

Lemma walk_cached : forall mode cache i all hosts,
  snapshot_of cache i -> all_cached cache hosts = true ->
  proxy_walk mode cache i all hosts = backend i hosts.
Proof.
  intros mode cache i all hosts Hs. induction hosts as [|h r IH]; simpl; intros Ha; [reflexivity|].
  apply andb_true_iff in Ha. destruct Ha as [Hh Hr].
  destruct (inv_find h cache) as [d|] eqn:E; [|discriminate].
  rewrite (Hs _ _ E). rewrite (IH Hr). reflexivity.
Qed.

Lemma walk_one : forall cache i all hosts,
  snapshot_of cache i -> proxy_walk 1 cache i all hosts = backend i hosts.
Proof.
  intros cache i all hosts Hs. induction hosts as [|h r IH]; simpl; [reflexivity|].
  destruct (inv_find h cache) as [d|] eqn:E.
  - rewrite (Hs _ _ E). rewrite IH. reflexivity.
  - rewrite IH. reflexivity.
Qed.

Lemma proxy_mode_is_backend : forall mode cache i hosts,
  Nat.leb mode 1 = true -> snapshot_of cache i -> proxy_mode mode cache i hosts = backend i hosts.
Proof.
  intros mode cache i hosts Hm Hs. destruct mode as [|[|m]]; simpl in Hm; try discriminate.
  - unfold proxy_mode. destruct (all_cached cache hosts) eqn:E; [|reflexivity].
    apply walk_cached; assumption.
  - unfold proxy_mode. apply walk_one; assumption.
Qed.

(* the proxy answers like the backend: for every host list, every snapshot, every later inventory *)
Lemma proxy_is_backend : forall cache i hosts,
  snapshot_of cache i -> proxy cache i hosts = backend i hosts.
Proof. intros. apply proxy_mode_is_backend; [exact proxy_miss_keeps_answer | assumption]. Qed.

(* regression witness: a proxy that drops the answer of the per-host look-up gives the empty name for a late host *)
Lemma proxy_drop_refuted :
  proxy_mode 2 [(0, 1)] [(0, 1); (1, 1)] [1] = Some [0] /\ backend [(0, 1); (1, 1)] [1] = Some [1].
Proof. vm_compute. split; reflexivity. Qed.
