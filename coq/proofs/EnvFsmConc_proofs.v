(* Lemmas about the concurrent semantics of EnvFsm.v (threads, schedules, the transition mutex)
   for property C01: mutual exclusion under every schedule, refinement of every schedule into an
   atomic (one action at a time) execution, the documented graph under every schedule, and the two
   schedules that refuted the statements before the forced state was taken under the mutex. *)
From Verif Require Import Common EnvFsmTypes Gen_EnvEvents Gen_EnvCan EnvFsm EnvFsm_proofs.
Open Scope N_scope.

Notation tbl := env_events.
Notation bf := api_bodyful.
Definition cstp := cstep tbl bf.
Definition runs := run_sched tbl bf.

(* ------------------------------------------------------------------------------------------ *)
(* lists *)
Lemma nth_set_same {A} i (x : A) l th :
  nth_error l i = Some th -> nth_error (set_nth i x l) i = Some x.
Proof.
  revert l. induction i as [|i IH]; intros [|y l] H; cbn in *; try discriminate; [reflexivity|].
  apply IH. exact H.
Qed.

Lemma nth_set_other {A} i j (x : A) l : i <> j -> nth_error (set_nth i x l) j = nth_error l j.
Proof.
  revert j l. induction i as [|i IH]; intros j [|y l] H; cbn; try reflexivity.
  - destruct j; [contradiction|reflexivity].
  - destruct j; [reflexivity|]. cbn. apply IH. congruence.
Qed.

Lemma map_set_nth {A B} (f : A -> B) i x l : map f (set_nth i x l) = set_nth i (f x) (map f l).
Proof.
  revert l. induction i as [|i IH]; intros [|y l]; cbn; try reflexivity. rewrite IH. reflexivity.
Qed.

Lemma set_nth_id {A} i (x : A) l : nth_error l i = Some x -> set_nth i x l = l.
Proof.
  revert l. induction i as [|i IH]; intros [|y l] H; cbn in *; try discriminate.
  - congruence.
  - rewrite IH; [reflexivity|exact H].
Qed.

(* ------------------------------------------------------------------------------------------ *)
(* counting the threads that are inside a locked section *)
Definition busy (t : thread) : bool := negb (th_idle t).
Definition cnt (l : list thread) : nat := length (filter busy l).
Definition b2n (b : bool) : nat := if b then 1%nat else 0%nat.

Lemma busy_count_cnt c : busy_count c = cnt (c_threads c).
Proof. reflexivity. Qed.

Lemma cnt_set i th th' l :
  nth_error l i = Some th ->
  (cnt (set_nth i th' l) + b2n (busy th) = cnt l + b2n (busy th'))%nat.
Proof.
  revert l. induction i as [|i IH]; intros [|y l] H; cbn in *; try discriminate.
  - inversion H; subst. unfold cnt. cbn. destruct (busy th), (busy th'); cbn; lia.
  - specialize (IH l H). unfold cnt in *. cbn. destruct (busy y); cbn; lia.
Qed.

Lemma cnt_zero_idle l : cnt l = 0%nat -> forall j t, nth_error l j = Some t -> th_idle t = true.
Proof.
  induction l as [|y l IH]; intros H j t Hn; [destruct j; discriminate|].
  unfold cnt in *. cbn in H. destruct (busy y) eqn:B; [cbn in H; discriminate|].
  destruct j; cbn in Hn.
  - inversion Hn; subst. unfold busy in B. apply negb_false_iff in B. exact B.
  - eapply IH; eassumption.
Qed.

Lemma cnt_busy_pos l i th : nth_error l i = Some th -> busy th = true -> (1 <= cnt l)%nat.
Proof.
  intros Hn Hb. pose proof (cnt_set i th th l Hn) as H. rewrite (set_nth_id _ _ _ Hn) in H.
  revert l Hn H. induction i as [|i IH]; intros [|y l] Hn H; cbn in Hn; try discriminate.
  - inversion Hn; subst. unfold cnt. cbn. rewrite Hb. cbn. lia.
  - unfold cnt. cbn. destruct (busy y); cbn; [lia|]. apply IH; [exact Hn|lia].
Qed.

Lemma others_idle l i th :
  nth_error l i = Some th -> busy th = true -> (cnt l <= 1)%nat ->
  forall j t, j <> i -> nth_error l j = Some t -> th_idle t = true.
Proof.
  revert l. induction i as [|i IH]; intros [|y l] Hn Hb Hc j t Hj Ht; cbn in Hn; try discriminate.
  - inversion Hn; subst. destruct j; [contradiction|]. cbn in Ht.
    unfold cnt in Hc. cbn in Hc. rewrite Hb in Hc. cbn in Hc.
    apply (cnt_zero_idle l) with (j := j); [unfold cnt; lia|exact Ht].
  - pose proof (cnt_busy_pos l i th Hn Hb) as Hp.
    unfold cnt in Hc, Hp. cbn in Hc. destruct (busy y) eqn:B; cbn in Hc; [lia|].
    destruct j; cbn in Ht.
    + inversion Ht; subst. unfold busy in B. apply negb_false_iff in B. exact B.
    + apply (IH l Hn Hb) with (j := j); [unfold cnt; lia|congruence|exact Ht].
Qed.

Lemma idle_phase t : th_idle t = true -> th_phase t = TIdle.
Proof. unfold th_idle. destruct (th_phase t); try discriminate; reflexivity. Qed.

(* ------------------------------------------------------------------------------------------ *)
(* Mutual exclusion: under every schedule at most one thread is inside a locked section, and the
   mutex is held exactly while one is *)
Definition mutex (c : cstate) : Prop := cnt (c_threads c) = b2n (c_lock c).

Ltac count_set Hn :=
  match goal with
  | |- context [set_nth ?i ?x ?l] =>
    let Hc := fresh "Hc" in
    pose proof (cnt_set i _ x l Hn) as Hc; unfold busy, th_idle in Hc; cbn [th_phase] in Hc
  end.

Lemma mutex_step c i : mutex c -> mutex (cstp c i).
Proof.
  unfold mutex, cstp, cstep. intro H.
  destruct (nth_error (c_threads c) i) as [th|] eqn:Hn; [|exact H].
  cbv zeta.
  destruct (th_phase th) as [|sec k|sec k] eqn:Hp.
  - destruct (th_prog th) as [cd s|a k] eqn:Hpr; [exact H|].
    destruct a; cbn [c_threads c_lock].
    + count_set Hn. rewrite Hp in Hc. cbn in Hc. lia.
    + destruct (c_lock c) eqn:L; [rewrite L; exact H|].
      cbn [c_threads c_lock]. count_set Hn. rewrite Hp in Hc. cbn in Hc. cbn in *. lia.
    + destruct (c_lock c) eqn:L; [rewrite L; exact H|].
      cbn [c_threads c_lock]. count_set Hn. rewrite Hp in Hc. cbn in Hc. cbn in *. lia.
    + destruct (c_lock c) eqn:L; [rewrite L; exact H|].
      cbn [c_threads c_lock]. count_set Hn. rewrite Hp in Hc. cbn in Hc. cbn in *. lia.
    + count_set Hn. rewrite Hp in Hc. cbn in Hc. lia.
  - destruct (sec_commit sec) as [[d u]|]; cbn [c_threads c_lock];
      count_set Hn; rewrite Hp in Hc; cbn in Hc; lia.
  - cbn [c_threads c_lock]. count_set Hn. rewrite Hp in Hc. cbn in Hc.
    assert (Hb : busy th = true) by (unfold busy, th_idle; rewrite Hp; reflexivity).
    pose proof (cnt_busy_pos _ _ _ Hn Hb) as Hpos.
    destruct (c_lock c); cbn in *; lia.
Qed.

Lemma cnt_init ths : cnt (map (fun po : prog * oracle => mkThread (fst po) TIdle (snd po)) ths) = 0%nat.
Proof. induction ths as [|x l IH]; [reflexivity|]. unfold cnt in *. cbn. exact IH. Qed.

Lemma mutex_init w ths : mutex (init_c w ths).
Proof. unfold mutex, init_c. cbn [c_threads c_lock]. rewrite cnt_init. reflexivity. Qed.

Lemma mutex_runs sched : forall c, mutex c -> mutex (runs sched c).
Proof.
  induction sched as [|i r IH]; intros c H; [exact H|]. cbn. apply IH. apply mutex_step. exact H.
Qed.

Lemma mutual_exclusion sched w ths :
  (busy_count (runs sched (init_c w ths)) <= 1)%nat /\
  (c_lock (runs sched (init_c w ths)) = true <-> busy_count (runs sched (init_c w ths)) = 1%nat).
Proof.
  pose proof (mutex_runs sched _ (mutex_init w ths)) as H. unfold mutex in H.
  rewrite busy_count_cnt, H. destruct (c_lock (runs sched (init_c w ths))); cbn; split; try lia; split; intro; try reflexivity; try discriminate.
Qed.

(* ------------------------------------------------------------------------------------------ *)
(* Every state write happens under the mutex, so the section a thread computed when it took the
   mutex is still the section of the current state when it commits *)
Definition locked_act (a : act) : bool := match a with ATry _ | ATeardown _ | AForce _ => true | _ => false end.

Definition th_inv (w : world) (th : thread) : Prop :=
  match th_phase th with
  | TPre sec k => exists a, th_prog th = Do a k /\ locked_act a = true /\
                            sec = act_section tbl bf (th_or th) a (w_st w)
  | _ => True
  end.

Definition ths_inv (c : cstate) : Prop :=
  forall j t, nth_error (c_threads c) j = Some t -> th_inv (c_w c) t.

Lemma th_inv_idle w t : th_idle t = true -> th_inv w t.
Proof. intro H. unfold th_inv. rewrite (idle_phase t H). exact I. Qed.

(* threads after replacing thread i *)
Lemma set_cases {A} i j (x : A) l th t :
  nth_error l i = Some th -> nth_error (set_nth i x l) j = Some t ->
  (j = i /\ t = x) \/ (j <> i /\ nth_error l j = Some t).
Proof.
  intros Hn Ht. destruct (Nat.eq_dec j i) as [E|E].
  - subst. rewrite (nth_set_same _ _ _ _ Hn) in Ht. left. split; congruence.
  - rewrite nth_set_other in Ht by congruence. right. split; assumption.
Qed.

Lemma inv_step c i :
  mutex c -> ths_inv c -> ths_inv (cstp c i).
Proof.
  unfold mutex, ths_inv, cstp, cstep. intros Hm Hi.
  destruct (nth_error (c_threads c) i) as [th|] eqn:Hn; [|exact Hi].
  cbv zeta in *.
  destruct (th_phase th) as [|sec k|sec k] eqn:Hp.
  - destruct (th_prog th) as [cd s|a k] eqn:Hpr; [exact Hi|].
    destruct a; cbn [c_threads c_w] in *.
    + intros j t Ht. destruct (set_cases _ _ _ _ _ _ Hn Ht) as [[_ E]|[_ E]]; [subst; exact I|exact (Hi _ _ E)].
    + destruct (c_lock c) eqn:L; [exact Hi|]. cbn [c_threads c_w].
      intros j t Ht. destruct (set_cases _ _ _ _ _ _ Hn Ht) as [[_ E]|[_ E]]; [|exact (Hi _ _ E)].
      subst. unfold th_inv. cbn [th_phase th_prog th_or]. exists (ATry ev). split; [reflexivity|split; reflexivity].
    + destruct (c_lock c) eqn:L; [exact Hi|]. cbn [c_threads c_w].
      intros j t Ht. destruct (set_cases _ _ _ _ _ _ Hn Ht) as [[_ E]|[_ E]]; [|exact (Hi _ _ E)].
      subst. unfold th_inv. cbn [th_phase th_prog th_or]. exists (ATeardown force). split; [reflexivity|split; reflexivity].
    + destruct (c_lock c) eqn:L; [exact Hi|]. cbn [c_threads c_w].
      intros j t Ht. destruct (set_cases _ _ _ _ _ _ Hn Ht) as [[_ E]|[_ E]]; [|exact (Hi _ _ E)].
      subst. unfold th_inv. cbn [th_phase th_prog th_or]. exists (AForce s). split; [reflexivity|split; reflexivity].
    + intros j t Ht. destruct (set_cases _ _ _ _ _ _ Hn Ht) as [[_ E]|[_ E]]; [subst; exact I|exact (Hi _ _ E)].
  - (* commit: every other thread is idle *)
    assert (Hb : busy th = true) by (unfold busy, th_idle; rewrite Hp; reflexivity).
    assert (Hle : (cnt (c_threads c) <= 1)%nat) by (rewrite Hm; destruct (c_lock c); cbn; lia).
    destruct (sec_commit sec) as [[d u]|]; cbn [c_threads c_w];
      intros j t Ht; (destruct (set_cases _ _ _ _ _ _ Hn Ht) as [[_ E]|[Hj E]]; [subst; exact I|]);
      apply th_inv_idle; eapply (others_idle _ _ _ Hn Hb Hle); eassumption.
  - cbn [c_threads c_w].
    intros j t Ht. destruct (set_cases _ _ _ _ _ _ Hn Ht) as [[_ E]|[_ E]]; [subst; exact I|exact (Hi _ _ E)].
Qed.

Lemma inv_init w ths : ths_inv (init_c w ths).
Proof.
  unfold ths_inv, init_c. cbn [c_threads c_w]. intros j t Ht. apply th_inv_idle.
  eapply cnt_zero_idle; [apply cnt_init|exact Ht].
Qed.

(* ------------------------------------------------------------------------------------------ *)
(* Atomic semantics: one whole action of one thread at a time (a locked section is one step),
   each action seeing the world left by the previous one *)
Definition astate := (world * list (prog * oracle))%type.

Definition astep (a : astate) (i : nat) : astate :=
  match nth_error (snd a) i with
  | Some (Do ac k, o) =>
    let '(w1, r, _) := exec_act tbl bf o ac (fst a) in (w1, set_nth i (k r, o) (snd a))
  | _ => a
  end.

Definition run_atomic (order : list nat) (a : astate) : astate := fold_left astep order a.

(* a section that has committed counts as executed *)
Definition th_abs (th : thread) : prog * oracle :=
  (match th_phase th with
   | TPost sec k => k (RB (sec_err sec))
   | _ => th_prog th
   end, th_or th).

Definition abs (c : cstate) : astate := (c_w c, map th_abs (c_threads c)).

Inductive subseq {A} : list A -> list A -> Prop :=
| ss_nil : subseq [] []
| ss_skip x a b : subseq a b -> subseq a (x :: b)
| ss_take x a b : subseq a b -> subseq (x :: a) (x :: b).

Lemma abs_same_threads i th th' l :
  nth_error l i = Some th -> th_abs th' = th_abs th -> map th_abs (set_nth i th' l) = map th_abs l.
Proof.
  intros Hn E. rewrite map_set_nth, E. apply set_nth_id. rewrite nth_error_map, Hn. reflexivity.
Qed.

Lemma sim_step c i :
  ths_inv c -> abs (cstp c i) = abs c \/ abs (cstp c i) = astep (abs c) i.
Proof.
  unfold ths_inv, cstp, cstep. intros Hi.
  destruct (nth_error (c_threads c) i) as [th|] eqn:Hn; [|left; reflexivity].
  cbv zeta.
  assert (Hnm : nth_error (map th_abs (c_threads c)) i = Some (th_abs th))
    by (rewrite nth_error_map, Hn; reflexivity).
  destruct (th_phase th) as [|sec k|sec k] eqn:Hp.
  - destruct (th_prog th) as [cd s|a k] eqn:Hpr; [left; reflexivity|].
    assert (Habs : th_abs th = (Do a k, th_or th)) by (unfold th_abs; rewrite Hp, Hpr; reflexivity).
    destruct a.
    + right. unfold abs, astep. cbn [c_w c_threads fst snd]. rewrite Hnm, Habs. cbn [exec_act].
      rewrite map_set_nth. reflexivity.
    + left. destruct (c_lock c); [reflexivity|]. unfold abs. cbn [c_w c_threads]. f_equal.
      apply (abs_same_threads _ _ _ _ Hn). rewrite Habs. unfold th_abs. cbn [th_phase th_prog th_or]. reflexivity.
    + left. destruct (c_lock c); [reflexivity|]. unfold abs. cbn [c_w c_threads]. f_equal.
      apply (abs_same_threads _ _ _ _ Hn). rewrite Habs. unfold th_abs. cbn [th_phase th_prog th_or]. reflexivity.
    + left. destruct (c_lock c); [reflexivity|]. unfold abs. cbn [c_w c_threads]. f_equal.
      apply (abs_same_threads _ _ _ _ Hn). rewrite Habs. unfold th_abs. cbn [th_phase th_prog th_or]. reflexivity.
    + right. unfold abs, astep. cbn [c_w c_threads fst snd]. rewrite Hnm, Habs. cbn [exec_act].
      rewrite map_set_nth. reflexivity.
  - (* commit = the atomic execution of the section *)
    right. pose proof (Hi _ _ Hn) as Ht. unfold th_inv in Ht. rewrite Hp in Ht.
    destruct Ht as [a [Hpr [Hl Hs]]].
    assert (Habs : th_abs th = (Do a k, th_or th)) by (unfold th_abs; rewrite Hp, Hpr; reflexivity).
    unfold abs, astep. cbn [fst snd]. rewrite Hnm, Habs.
    destruct a; try discriminate Hl; cbn [exec_act]; rewrite <- Hs;
      unfold sec_final, sec_unlists; destruct (sec_commit sec) as [[d u]|]; cbn [c_w c_threads];
      rewrite map_set_nth; unfold th_abs; cbn [th_phase th_prog th_or];
      try reflexivity; cbn [negb]; rewrite andb_true_r, world_eta; reflexivity.
  - left. unfold abs. cbn [c_w c_threads]. f_equal.
    apply (abs_same_threads _ _ _ _ Hn). unfold th_abs. cbn [th_phase th_prog th_or]. rewrite Hp. reflexivity.
Qed.

Lemma pair_eta {A B} (l : list (A * B)) : map (fun po => (fst po, snd po)) l = l.
Proof. induction l as [|[a b] l IH]; [reflexivity|]. cbn. rewrite IH. reflexivity. Qed.

Lemma abs_init w ths : abs (init_c w ths) = (w, ths).
Proof.
  unfold abs, init_c. cbn [c_w c_threads]. rewrite map_map. unfold th_abs. cbn [th_phase th_prog th_or].
  rewrite pair_eta. reflexivity.
Qed.

(* every schedule is an atomic execution of the same actions, in the order in which the sections
   commit *)
Lemma refinement sched :
  forall c, mutex c -> ths_inv c ->
  exists order, subseq order sched /\ abs (runs sched c) = run_atomic order (abs c).
Proof.
  induction sched as [|i r IH]; intros c Hm Hi.
  - exists []. split; [constructor|reflexivity].
  - change (runs (i :: r) c) with (runs r (cstp c i)) in *.
    destruct (IH (cstp c i) (mutex_step c i Hm) (inv_step c i Hm Hi)) as [order [Hs He]].
    destruct (sim_step c i Hi) as [E|E].
    + exists order. split; [constructor; exact Hs|]. rewrite <- E. exact He.
    + exists (i :: order). split; [constructor; exact Hs|].
      change (run_atomic (i :: order) (abs c)) with (run_atomic order (astep (abs c) i)).
      rewrite <- E. exact He.
Qed.

Lemma serial_refinement sched w ths :
  exists order, subseq order sched /\ abs (runs sched (init_c w ths)) = run_atomic order (w, ths).
Proof.
  destruct (refinement sched _ (mutex_init w ths) (inv_init w ths)) as [order [Hs He]].
  exists order. rewrite abs_init in He. split; assumption.
Qed.

(* ------------------------------------------------------------------------------------------ *)
(* The documented graph under every schedule *)
Definition th_ok (th : thread) : Prop :=
  match th_phase th with
  | TPost sec k => forall r, prog_ok (k r)
  | _ => prog_ok (th_prog th)
  end.

Definition ths_ok (c : cstate) : Prop := forall j t, nth_error (c_threads c) j = Some t -> th_ok t.

Definition G (c : cstate) : Prop := ths_ok c /\ J (c_w c) /\ edges_ok (c_edges c) = true.

Lemma prog_ok_inv a k : prog_ok (Do a k) -> act_ok a /\ forall r, prog_ok (k r).
Proof. intro H. inversion H; subst. split; assumption. Qed.

Lemma write_edges_ok old new es :
  edges_ok es = true -> (old = new \/ doc_edge old new = true) -> edges_ok (write_edges old new es) = true.
Proof.
  intros He H. unfold write_edges. destruct (estate_eqb old new) eqn:E; [exact He|].
  unfold edges_ok in *. cbn [forallb]. rewrite He, andb_true_r. unfold edge_ok. cbn [fst snd]. rewrite E.
  destruct H as [H|H]; [apply estate_eqb_eq in H; congruence|exact H].
Qed.

Lemma graph_step c i :
  mutex c -> ths_inv c -> G c -> G (cstp c i).
Proof.
  unfold G, ths_ok, ths_inv, cstp, cstep. intros Hm Hi [Hok [HJ He]].
  destruct (nth_error (c_threads c) i) as [th|] eqn:Hn; [|repeat split; assumption].
  cbv zeta in *.
  pose proof (Hok _ _ Hn) as Hth. unfold th_ok in Hth.
  destruct (th_phase th) as [|sec k|sec k] eqn:Hp.
  - destruct (th_prog th) as [cd s|a k] eqn:Hpr; [repeat split; assumption|].
    destruct (prog_ok_inv _ _ Hth) as [Ha Hk].
    destruct a; cbn [c_threads c_w c_edges] in *.
    + split; [|split; assumption].
      intros j t Ht. destruct (set_cases _ _ _ _ _ _ Hn Ht) as [[_ E]|[_ E]]; [|exact (Hok _ _ E)].
      subst. unfold th_ok. cbn [th_phase th_prog]. apply Hk.
    + destruct (c_lock c) eqn:L; [repeat split; assumption|]. cbn [c_threads c_w c_edges].
      split; [|split; assumption].
      intros j t Ht. destruct (set_cases _ _ _ _ _ _ Hn Ht) as [[_ E]|[_ E]]; [|exact (Hok _ _ E)].
      subst. unfold th_ok. cbn [th_phase th_prog]. exact Hth.
    + destruct (c_lock c) eqn:L; [repeat split; assumption|]. cbn [c_threads c_w c_edges].
      split; [|split; assumption].
      intros j t Ht. destruct (set_cases _ _ _ _ _ _ Hn Ht) as [[_ E]|[_ E]]; [|exact (Hok _ _ E)].
      subst. unfold th_ok. cbn [th_phase th_prog]. exact Hth.
    + destruct (c_lock c) eqn:L; [repeat split; assumption|]. cbn [c_threads c_w c_edges].
      split; [|split; assumption].
      intros j t Ht. destruct (set_cases _ _ _ _ _ _ Hn Ht) as [[_ E]|[_ E]]; [|exact (Hok _ _ E)].
      subst. unfold th_ok. cbn [th_phase th_prog]. exact Hth.
    + split; [|split; assumption].
      intros j t Ht. destruct (set_cases _ _ _ _ _ _ Hn Ht) as [[_ E]|[_ E]]; [|exact (Hok _ _ E)].
      subst. unfold th_ok. cbn [th_phase th_prog]. apply Hk.
  - (* commit *)
    pose proof (Hi _ _ Hn) as Ht. unfold th_inv in Ht. rewrite Hp in Ht.
    destruct Ht as [a [Hpr [Hl Hs]]]. rewrite Hpr in Hth.
    destruct (prog_ok_inv _ _ Hth) as [Ha Hk].
    destruct (sec_commit sec) as [[d u]|] eqn:Hc; cbn [c_threads c_w c_edges].
    + rewrite Hs in Hc. destruct (act_section_commit _ _ _ _ _ Ha Hc) as [Hd [Hnd [Hdu _]]].
      split; [|split].
      * intros j t Hj. destruct (set_cases _ _ _ _ _ _ Hn Hj) as [[_ E]|[_ E]]; [|exact (Hok _ _ E)].
        subst t. unfold th_ok. cbn [th_phase]. exact Hk.
      * unfold J. cbn [w_st w_listed]. intro E. rewrite (Hdu E). apply andb_false_r.
      * apply write_edges_ok; [exact He|right; exact Hd].
    + split; [|split; assumption].
      intros j t Hj. destruct (set_cases _ _ _ _ _ _ Hn Hj) as [[_ E]|[_ E]]; [|exact (Hok _ _ E)].
      subst t. unfold th_ok. cbn [th_phase]. exact Hk.
  - cbn [c_threads c_w c_edges]. split; [|split; assumption].
    intros j t Hj. destruct (set_cases _ _ _ _ _ _ Hn Hj) as [[_ E]|[_ E]]; [|exact (Hok _ _ E)].
    subst t. unfold th_ok. cbn [th_phase th_prog]. apply Hth.
Qed.

Lemma graph_runs sched :
  forall c, mutex c -> ths_inv c -> G c -> G (runs sched c).
Proof.
  induction sched as [|i r IH]; intros c Hm Hi Hg; [exact Hg|].
  change (runs (i :: r) c) with (runs r (cstp c i)) in *.
  apply IH; [apply mutex_step; exact Hm|apply inv_step; assumption|apply graph_step; assumption].
Qed.

Lemma G_init w ths :
  J w -> Forall (fun po => prog_ok (fst po)) ths -> G (init_c w ths).
Proof.
  intros HJ Hf. unfold G, ths_ok, init_c. cbn [c_threads c_w c_edges]. split; [|split; [exact HJ|reflexivity]].
  intros j t Ht. rewrite nth_error_map in Ht. destruct (nth_error ths j) as [po|] eqn:E; [|discriminate].
  cbn in Ht. inversion Ht; subst. unfold th_ok. cbn [th_phase th_prog].
  rewrite Forall_forall in Hf. apply Hf. eapply nth_error_In. exact E.
Qed.

Lemma graph_sched sched w ths :
  J w -> Forall (fun po => prog_ok (fst po)) ths ->
  edges_ok (c_edges (runs sched (init_c w ths))) = true /\ J (c_w (runs sched (init_c w ths))).
Proof.
  intros HJ Hf.
  destruct (graph_runs sched _ (mutex_init w ths) (inv_init w ths) (G_init w ths HJ Hf)) as [_ [H1 H2]].
  split; assumption.
Qed.

(* c_edges records every state change: its newest entry ends in the current state, consecutive
   entries are chained *)
Fixpoint chained (s0 : estate) (es : list (estate * estate)) (cur : estate) : Prop :=
  match es with
  | [] => cur = s0
  | (a, b) :: r => b = cur /\ a <> b /\ chained s0 r a
  end.

Lemma write_chained s0 es old new : chained s0 es old -> chained s0 (write_edges old new es) new.
Proof.
  intro H. unfold write_edges. destruct (estate_eqb old new) eqn:E.
  - apply estate_eqb_eq in E. subst. exact H.
  - apply estate_eqb_neq in E. cbn. repeat split; assumption.
Qed.

Lemma chained_step s0 c i :
  chained s0 (c_edges c) (w_st (c_w c)) -> chained s0 (c_edges (cstp c i)) (w_st (c_w (cstp c i))).
Proof.
  unfold cstp, cstep. intro H.
  destruct (nth_error (c_threads c) i) as [th|]; [|exact H]. cbv zeta.
  destruct (th_phase th) as [|sec k|sec k].
  - destruct (th_prog th) as [cd s|a k]; [exact H|].
    destruct a; cbn [c_edges c_w w_st]; try exact H.
    + destruct (c_lock c); exact H.
    + destruct (c_lock c); exact H.
    + destruct (c_lock c); exact H.
  - destruct (sec_commit sec) as [[d u]|]; cbn [c_edges c_w w_st]; [apply write_chained|]; exact H.
  - exact H.
Qed.

Lemma edges_chained sched w ths :
  chained (w_st w) (c_edges (runs sched (init_c w ths))) (w_st (c_w (runs sched (init_c w ths)))).
Proof.
  assert (H : forall c, chained (w_st w) (c_edges c) (w_st (c_w c)) ->
                        chained (w_st w) (c_edges (runs sched c)) (w_st (c_w (runs sched c)))).
  { induction sched as [|i r IH]; intros c Hc; [exact Hc|].
    change (runs (i :: r) c) with (runs r (cstp c i)). apply IH, chained_step, Hc. }
  apply H. cbn. reflexivity.
Qed.

(* ------------------------------------------------------------------------------------------ *)
(* The atomic semantics of one thread run to completion is the sequential semantics run_prog *)
Fixpoint prog_len (o : oracle) (p : prog) (w : world) (fuel : nat) : nat :=
  match fuel with
  | O => O
  | S f => match p with
           | Ret _ _ => O
           | Do a k => let '(w1, r, _) := exec_act tbl bf o a w in S (prog_len o (k r) w1 f)
           end
  end.

Lemma atomic_single o p : forall w,
  exists n c s, run_atomic (repeat 0%nat n) (w, [(p, o)]) =
                (fst (fst (run_prog tbl bf o p w)), [(Ret c s, o)]) /\
                snd (fst (run_prog tbl bf o p w)) = (c, s).
Proof.
  induction p as [c s|a k IH]; intro w.
  - exists 0%nat, c, s. split; reflexivity.
  - cbn [run_prog]. destruct (exec_act tbl bf o a w) as [[w1 r] t1] eqn:E.
    destruct (IH r w1) as [n [c [s [H1 H2]]]].
    destruct (run_prog tbl bf o (k r) w1) as [[w2 res] t2] eqn:E2. cbn [fst snd] in *.
    exists (S n), c, s. split; [|exact H2].
    cbn [repeat run_atomic fold_left]. unfold astep at 2. cbn [snd fst nth_error]. rewrite E. cbn [set_nth].
    exact H1.
Qed.

(* ------------------------------------------------------------------------------------------ *)
(* The schedules that refuted the statements while the forced state was set without the mutex
   (recorded as C01-a and C01-b, repaired by Environment.ForceError), kept as regression examples *)

(* C01-a: environment CONFIGURED; thread 0 = forced teardown, thread 1 = ControlEnvironment(START).
   Thread 1 looks the environment up, thread 0 runs (lookup, lock, commit DONE + unlist, unlock),
   then thread 1 executes: START refused in DONE, GO_ERROR refused in DONE, forced state refused in
   DONE: the environment stays DONE, the caller gets Aborted / DONE. *)
Definition wit_stale_threads : list (prog * oracle) :=
  [(prog_of (QTeardown true), no_faults); (prog_of (QControl oSTART_ACTIVITY), no_faults)].
Definition wit_stale_sched : list nat := [1; 0; 0; 0; 0; 1; 1; 1; 1; 1; 1; 1; 1; 1; 1]%nat.
Definition wit_stale : cstate := runs wit_stale_sched (init_c (mkWorld sCONFIGURED true) wit_stale_threads).

Lemma wit_stale_edges :
  c_edges wit_stale = [(sCONFIGURED, sDONE)] /\
  w_st (c_w wit_stale) = sDONE /\ w_listed (c_w wit_stale) = false /\
  map th_abs (c_threads wit_stale) = [(Ret 0 None, no_faults); (Ret 3 (Some sDONE), no_faults)].
Proof. vm_compute. repeat split; reflexivity. Qed.

(* C01-b: environment DEPLOYED, the before_GO_ERROR hook fails; thread 0 = ControlEnvironment(START)
   (illegal; fallback cancelled; ERROR to be forced), thread 1 = ControlEnvironment(CONFIGURE).
   Thread 0 runs up to its forced state, thread 1 takes the mutex; thread 0 now waits for it;
   thread 1 commits CONFIGURED and answers; thread 0 forces ERROR: DEPLOYED -> CONFIGURED -> ERROR. *)
Definition wit_race_oracle : oracle := mkOracle [MBefore eGO_ERROR] [] false false.
Definition wit_race_threads : list (prog * oracle) :=
  [(prog_of (QControl oSTART_ACTIVITY), wit_race_oracle); (prog_of (QControl oCONFIGURE), wit_race_oracle)].
Definition wit_race_sched : list nat := [0; 0; 0; 0; 0; 0; 0; 1; 1; 0; 0; 1; 1; 1; 0; 0; 0; 0]%nat.
Definition wit_force_race : cstate := runs wit_race_sched (init_c (mkWorld sDEPLOYED true) wit_race_threads).

Lemma wit_force_race_edges :
  c_edges wit_force_race = [(sCONFIGURED, sERROR); (sDEPLOYED, sCONFIGURED)] /\
  w_st (c_w wit_force_race) = sERROR /\
  map th_abs (c_threads wit_force_race) =
    [(Ret 3 (Some sERROR), wit_race_oracle); (Ret 0 (Some sCONFIGURED), wit_race_oracle)].
Proof. vm_compute. repeat split; reflexivity. Qed.

(* ------------------------------------------------------------------------------------------ *)
(* Statements over requests *)
Definition req_threads (reqs : list (req * oracle)) : list (prog * oracle) :=
  map (fun qo => (prog_of (fst qo), snd qo)) reqs.

Lemma req_threads_ok reqs :
  Forall (fun qo => req_ok (fst qo)) reqs -> Forall (fun po => prog_ok (fst po)) (req_threads reqs).
Proof.
  intro H. unfold req_threads. rewrite Forall_map. eapply Forall_impl; [|exact H].
  intros [q o] Hq. cbn in *. apply prog_of_ok. exact Hq.
Qed.

Lemma edges_no_done es : forall s0 cur,
  edges_ok es = true -> chained s0 es cur -> forall e, In e es -> fst e <> sDONE.
Proof.
  induction es as [|[a b] r IH]; intros s0 cur He Hc e Hin; [destruct Hin|].
  unfold edges_ok in He. cbn [forallb] in He. apply andb_true_iff in He. destruct He as [H1 H2].
  cbn [chained] in Hc. destruct Hc as [Hb [Hab Hr]].
  destruct Hin as [Hin|Hin].
  - subst e. cbn [fst]. intro E. subst a. unfold edge_ok in H1. cbn [fst snd] in H1.
    destruct b; cbn in H1; try discriminate. contradiction Hab. reflexivity.
  - eapply IH; eassumption.
Qed.

(* the graph, and DONE being terminal, for every schedule of every set of requests of every kind
   of caller (API, watcher, auto-stop timer, bare TryTransition) *)
Lemma graph_sched_reqs sched reqs w :
  Forall (fun qo => req_ok (fst qo)) reqs -> J w ->
  edges_ok (c_edges (runs sched (init_c w (req_threads reqs)))) = true /\
  chained (w_st w) (c_edges (runs sched (init_c w (req_threads reqs))))
          (w_st (c_w (runs sched (init_c w (req_threads reqs))))) /\
  (forall e, In e (c_edges (runs sched (init_c w (req_threads reqs)))) -> fst e <> sDONE) /\
  J (c_w (runs sched (init_c w (req_threads reqs)))).
Proof.
  intros Hr HJ.
  destruct (graph_sched sched w _ HJ (req_threads_ok reqs Hr)) as [He HJ'].
  pose proof (edges_chained sched w (req_threads reqs)) as Hc.
  split; [exact He|]. split; [exact Hc|]. split; [|exact HJ'].
  eapply edges_no_done; eassumption.
Qed.

(* the full statements over concurrent API requests (refuted before the repair of C01-a / C01-b) *)
Definition graph_sched_statement : Prop :=
  forall sched (reqs : list (req * oracle)) w,
    Forall (fun qo => api_req (fst qo)) reqs -> J w -> w_listed w = true ->
    edges_ok (c_edges (runs sched (init_c w (req_threads reqs)))) = true.

Definition done_terminal_statement : Prop :=
  forall sched (reqs : list (req * oracle)) w,
    Forall (fun qo => api_req (fst qo)) reqs -> J w -> w_listed w = true ->
    forall e, In e (c_edges (runs sched (init_c w (req_threads reqs)))) -> fst e <> sDONE.

Lemma graph_sched_holds : graph_sched_statement.
Proof.
  intros sched reqs w Ha HJ _. apply (graph_sched_reqs sched reqs w (api_all_ok _ Ha) HJ).
Qed.

Lemma done_terminal_holds : done_terminal_statement.
Proof.
  intros sched reqs w Ha HJ _. apply (graph_sched_reqs sched reqs w (api_all_ok _ Ha) HJ).
Qed.

(* the refinement, stated over requests: the world reached and every thread's remaining program
   (for finished threads: result code and reported state) are those of an atomic execution *)
Lemma serial_refinement_reqs sched reqs w :
  exists order, subseq order sched /\
    abs (runs sched (init_c w (req_threads reqs))) = run_atomic order (w, req_threads reqs).
Proof. apply serial_refinement. Qed.
