(* Lemmas for C09 (hook failures) about the model of coq/model/EnvHooks.v. *)
From Verif Require Import Common Gen_HookFail EnvHooks EnvHooks_proofs.
From Coq Require Import ZArith List Bool Lia Sorting.Sorted.
Import ListNotations.
Open Scope N_scope.

(* ------------------------------------------------------------------ events of one callback *)
(* what the trace of the callback of moment [m] may contain *)
Definition stage_ev (m : mname) (x : tev) : Prop :=
  match x with
  | TStart _ h _ => fst (h_trig h) = m
  | TCollect _ p | TTasks _ p | TUnsure p | TCrash p => fst p = m
  | TStep n _ _ => n = SMoment m
  | TRun _ _ _ => True
  | TBody _ | TCancel _ => False
  end.

Lemma pass_ev_stage hooks orc m ws r t : Forall (pass_ev hooks orc m ws r) t -> Forall (stage_ev m) t.
Proof.
  intro H. eapply Forall_impl; [|exact H]. intros x Hx.
  destruct x; cbn in *; try contradiction; try tauto.
Qed.
Lemma runs_stage m t : Forall is_run_ev t -> Forall (stage_ev m) t.
Proof. intro H. eapply Forall_impl; [|exact H]. intros x Hx. destruct x; cbn in *; tauto. Qed.

Ltac sev :=
  repeat first
    [ apply Forall_nil
    | apply Forall_cons; [cbn; reflexivity|]
    | apply Forall_app; split
    | eapply pass_ev_stage; eassumption
    | eapply runs_stage; eassumption ].

(* errors raised by the callback of moment m: each names m and at least one failing critical hook *)
Definition errs_of (m : mname) (l : list perr) : Prop :=
  Forall (fun pe => exists f, pe = PE m f /\ (wf_calls f <> [] \/ wf_tasks f <> [])) l.

Lemma perrs_errs hooks orc m pred s s' t p :
  run_pass hooks orc m pred s = (s', t, p) -> errs_of m (perrs m p).
Proof.
  intro H. apply run_pass_crit in H. destruct p; cbn [perrs]; [apply Forall_nil| |apply Forall_nil].
  destruct H as (-> & _ & Hne). apply Forall_cons; [|apply Forall_nil]. exists f. auto.
Qed.

Lemma set_soeor_st s : e_st (fst (set_soeor_if_empty s)) = e_st s.
Proof. unfold set_soeor_if_empty. destruct (is_empty _); reflexivity. Qed.
Lemma set_eoeor_st s : e_st (fst (set_eoeor_if_empty s)) = e_st s.
Proof. unfold set_eoeor_if_empty. destruct (is_empty _); reflexivity. Qed.
Lemma builtin_before_st e s : e_st (fst (builtin_before e s)) = e_st s.
Proof.
  unfold builtin_before. destruct e; try reflexivity;
    pose proof (set_soeor_st s) as P; destruct (set_soeor_if_empty s); exact P.
Qed.
Lemma builtin_leave_st src s : e_st (builtin_leave src s) = e_st s.
Proof. unfold builtin_leave. destruct src; try reflexivity. apply set_soeor_st. Qed.
Lemma builtin_after_st e err s : e_st (fst (builtin_after e err s)) = e_st s.
Proof.
  unfold builtin_after. destruct e; try reflexivity.
  pose proof (set_eoeor_st s) as P; destruct (set_eoeor_if_empty s); exact P.
Qed.
Lemma drop_run_number_st e s : e_st (drop_run_number e s) = e_st s.
Proof. destruct e; reflexivity. Qed.

Lemma run_pass_st hooks orc m pred s s' t p :
  run_pass hooks orc m pred s = (s', t, p) -> e_st s' = e_st s.
Proof. intro H. apply run_pass_frame in H. tauto. Qed.

(* before_event: a failure ends the callback at once; at most one error part *)
Lemma before_stage_spec hooks orc e s s' t errs c :
  before_stage hooks orc e s = (s', t, errs, c) ->
  Forall (stage_ev (MBefore e)) t /\ e_st s' = e_st s /\ errs_of (MBefore e) errs /\
  (errs = [] \/ exists pe t0, errs = [pe] /\ t = t0 ++ [TStep (SMoment (MBefore e)) false true]).
Proof.
  unfold before_stage, bstep, estep.
  destruct (run_pass hooks orc (MBefore e) wneg s) as [[s1 t1] p1] eqn:E1.
  pose proof (run_pass_events _ _ _ _ _ _ _ _ E1) as V1.
  pose proof (run_pass_st _ _ _ _ _ _ _ _ E1) as S1.
  pose proof (perrs_errs _ _ _ _ _ _ _ _ E1) as P1.
  destruct p1.
  - destruct (builtin_before e s1) as [s2 tb] eqn:Eb.
    pose proof (builtin_before_runs _ _ _ _ Eb) as Vb.
    pose proof (builtin_before_st e s1) as Sb. rewrite Eb in Sb. cbn in Sb.
    destruct (run_pass hooks orc (MBefore e) wnonneg s2) as [[s3 t3] p3] eqn:E3.
    pose proof (run_pass_events _ _ _ _ _ _ _ _ E3) as V3.
    pose proof (run_pass_st _ _ _ _ _ _ _ _ E3) as S3.
    pose proof (perrs_errs _ _ _ _ _ _ _ _ E3) as P3.
    destruct p3; intro H; inversion H; subst; clear H;
      (split; [sev|]); (split; [congruence|]); (split; [first [exact P3|constructor]|]).
    + left; reflexivity.
    + right. eexists; exists (TStep (SMoment (MBefore e)) true false :: t1 ++ tb ++ t3).
      split; [reflexivity|]. cbn. rewrite <- !app_assoc. reflexivity.
    + left; reflexivity.
  - intro H; inversion H; subst; clear H. split; [sev|]. split; [congruence|]. split; [exact P1|].
    right. eexists; exists (TStep (SMoment (MBefore e)) true false :: t1). split; reflexivity.
  - intro H; inversion H; subst; clear H. split; [sev|]. split; [congruence|]. split; [constructor|].
    left; reflexivity.
Qed.

Lemma leave_stage_spec hooks orc src s s' t errs c :
  leave_stage hooks orc src s = (s', t, errs, c) ->
  Forall (stage_ev (MLeave src)) t /\ e_st s' = e_st s /\ errs_of (MLeave src) errs /\
  (errs = [] \/ exists pe t0, errs = [pe] /\ t = t0 ++ [TStep (SMoment (MLeave src)) false true]).
Proof.
  unfold leave_stage, bstep, estep.
  destruct (run_pass hooks orc (MLeave src) wneg s) as [[s1 t1] p1] eqn:E1.
  pose proof (run_pass_events _ _ _ _ _ _ _ _ E1) as V1.
  pose proof (run_pass_st _ _ _ _ _ _ _ _ E1) as S1.
  pose proof (perrs_errs _ _ _ _ _ _ _ _ E1) as P1.
  pose proof (builtin_leave_st src s1) as Sb.
  destruct p1.
  - destruct (run_pass hooks orc (MLeave src) wnonneg (builtin_leave src s1)) as [[s3 t3] p3] eqn:E3.
    pose proof (run_pass_events _ _ _ _ _ _ _ _ E3) as V3.
    pose proof (run_pass_st _ _ _ _ _ _ _ _ E3) as S3.
    pose proof (perrs_errs _ _ _ _ _ _ _ _ E3) as P3.
    destruct p3; intro H; inversion H; subst; clear H;
      (split; [sev|]); (split; [congruence|]); (split; [first [exact P3|constructor]|]).
    + left; reflexivity.
    + right. eexists; exists (TStep (SMoment (MLeave src)) true false :: t1 ++ t3).
      split; [reflexivity|]. cbn. rewrite <- !app_assoc. reflexivity.
    + left; reflexivity.
  - intro H; inversion H; subst; clear H. split; [sev|]. split; [congruence|]. split; [exact P1|].
    right. eexists; exists (TStep (SMoment (MLeave src)) true false :: t1). split; reflexivity.
  - intro H; inversion H; subst; clear H. split; [sev|]. split; [congruence|]. split; [constructor|].
    left; reflexivity.
Qed.

Lemma errs_of_app m a b : errs_of m a -> errs_of m b -> errs_of m (a ++ b).
Proof. intros A B. apply Forall_app. split; assumption. Qed.

(* enter_state / after_event: both passes always run; when the core did not die the end marker
   of the step is the last event and carries the error flag *)
Lemma enter_stage_spec hooks orc d s s' t errs c :
  enter_stage hooks orc d s = (s', t, errs, c) ->
  Forall (stage_ev (MEnter d)) t /\ e_st s' = e_st s /\ errs_of (MEnter d) errs /\
  (c = false -> exists t0, t = TStep (SMoment (MEnter d)) true false :: t0 ++ [TStep (SMoment (MEnter d)) false (nonnil errs)]).
Proof.
  unfold enter_stage, bstep, estep.
  destruct (run_pass hooks orc (MEnter d) wneg s) as [[s1 t1] p1] eqn:E1.
  pose proof (run_pass_events _ _ _ _ _ _ _ _ E1) as V1.
  pose proof (run_pass_st _ _ _ _ _ _ _ _ E1) as S1.
  pose proof (perrs_errs _ _ _ _ _ _ _ _ E1) as P1.
  destruct (is_crash p1).
  - intro H; inversion H; subst; clear H. split; [sev|]. split; [congruence|]. split; [constructor|discriminate].
  - destruct (run_pass hooks orc (MEnter d) wnonneg s1) as [[s2 t2] p2] eqn:E2.
    pose proof (run_pass_events _ _ _ _ _ _ _ _ E2) as V2.
    pose proof (run_pass_st _ _ _ _ _ _ _ _ E2) as S2.
    pose proof (perrs_errs _ _ _ _ _ _ _ _ E2) as P2.
    destruct (is_crash p2); intro H; inversion H; subst; clear H.
    + split; [sev|]. split; [congruence|]. split; [constructor|discriminate].
    + split; [sev|]. split; [congruence|]. split; [apply errs_of_app; assumption|].
      intros _. exists (t1 ++ t2). rewrite <- app_assoc. reflexivity.
Qed.

Lemma after_stage_spec hooks orc e err0 s s' t errs c :
  after_stage hooks orc e err0 s = (s', t, errs, c) ->
  Forall (stage_ev (MAfter e)) t /\ e_st s' = e_st s /\ errs_of (MAfter e) errs /\
  (c = false -> exists t0, t = TStep (SMoment (MAfter e)) true false :: t0 ++ [TStep (SMoment (MAfter e)) false (err0 || nonnil errs)]).
Proof.
  unfold after_stage, bstep, estep.
  destruct (run_pass hooks orc (MAfter e) wneg s) as [[s1 t1] p1] eqn:E1.
  pose proof (run_pass_events _ _ _ _ _ _ _ _ E1) as V1.
  pose proof (run_pass_st _ _ _ _ _ _ _ _ E1) as S1.
  pose proof (perrs_errs _ _ _ _ _ _ _ _ E1) as P1.
  destruct (is_crash p1).
  - intro H; inversion H; subst; clear H. split; [sev|]. split; [congruence|]. split; [constructor|discriminate].
  - destruct (builtin_after e (err0 || nonnil (perrs (MAfter e) p1)) s1) as [s2 ta] eqn:Ea.
    pose proof (builtin_after_runs _ _ _ _ _ Ea) as Va.
    pose proof (builtin_after_st e (err0 || nonnil (perrs (MAfter e) p1)) s1) as Sa. rewrite Ea in Sa. cbn in Sa.
    destruct (run_pass hooks orc (MAfter e) wnonneg s2) as [[s3 t3] p3] eqn:E3.
    pose proof (run_pass_events _ _ _ _ _ _ _ _ E3) as V3.
    pose proof (run_pass_st _ _ _ _ _ _ _ _ E3) as S3.
    pose proof (perrs_errs _ _ _ _ _ _ _ _ E3) as P3.
    destruct (is_crash p3); intro H; inversion H; subst; clear H.
    + split; [sev|]. split; [congruence|]. split; [constructor|discriminate].
    + split; [sev|]. split; [rewrite drop_run_number_st; congruence|].
      split; [apply errs_of_app; assumption|].
      intros _. exists (t1 ++ ta ++ t3). rewrite <- !app_assoc. reflexivity.
Qed.

(* ------------------------------------------------------------------ shape of a transition *)

Inductive outcome (hooks : list hook) (orc : oracle) (e : evt) (b : body) (s : est) (d : st)
  : est -> list tev -> result -> Prop :=
| OutCrash s' t : outcome hooks orc e b s d s' t RCrash
| OutBefore s1 tB pe t0 :
    before_stage hooks orc e s = (s1, tB, [pe], false) ->
    tB = t0 ++ [TStep (SMoment (MBefore e)) false true] ->
    outcome hooks orc e b s d s1 tB (RHook [pe])
| OutLeave s1 tB s2 tL pe t0 :
    before_stage hooks orc e s = (s1, tB, [], false) ->
    leave_stage hooks orc (e_st s) s1 = (s2, tL, [pe], false) ->
    tL = t0 ++ [TStep (SMoment (MLeave (e_st s))) false true] ->
    outcome hooks orc e b s d s2 (tB ++ tL) (RHook [pe])
| OutBody s1 tB s2 tL s2' :
    before_stage hooks orc e s = (s1, tB, [], false) ->
    leave_stage hooks orc (e_st s) s1 = (s2, tL, [], false) ->
    b <> BOk -> e_st s2' = e_st s2 ->
    outcome hooks orc e b s d s2' (tB ++ tL ++ body_trace e false) RBody
| OutDone s1 tB s2 tL s4 tE eE s5 tA eA :
    before_stage hooks orc e s = (s1, tB, [], false) ->
    leave_stage hooks orc (e_st s) s1 = (s2, tL, [], false) ->
    b = BOk ->
    enter_stage hooks orc d (set_st d s2) = (s4, tE, eE, false) ->
    after_stage hooks orc e (nonnil eE) s4 = (s5, tA, eA, false) ->
    outcome hooks orc e b s d s5 (tB ++ tL ++ body_trace e true ++ tE ++ tA)
            (match eE ++ eA with _ :: _ => RHook (eE ++ eA) | [] => ROk end).

Lemma transition_outcome hooks orc e b s s' t r d :
  transition hooks orc e b s = (s', t, r) -> dst_of e (e_st s) = Some d ->
  outcome hooks orc e b s d s' t r.
Proof.
  unfold transition. intros H Hd. rewrite Hd in H.
  destruct (before_stage hooks orc e s) as [[[s1 tB] eB] cB] eqn:EB.
  pose proof (before_stage_spec _ _ _ _ _ _ _ _ EB) as (_ & _ & _ & SB).
  destruct cB; [inversion H; constructor|].
  destruct eB as [|pe eB].
  2:{ inversion H; subst. destruct SB as [SB|(pe' & t0 & SB & ST)]; [discriminate|].
      inversion SB; subst. eapply OutBefore; [exact EB|reflexivity]. }
  destruct (leave_stage hooks orc (e_st s) s1) as [[[s2 tL] eL] cL] eqn:EL.
  pose proof (leave_stage_spec _ _ _ _ _ _ _ _ EL) as (_ & _ & _ & SL).
  destruct cL; [inversion H; constructor|].
  destruct eL as [|pe eL].
  2:{ inversion H; subst. destruct SL as [SL|(pe' & t0 & SL & ST)]; [discriminate|].
      inversion SL; subst. eapply OutLeave; [exact EB|exact EL|reflexivity]. }
  destruct b.
  - destruct (enter_stage hooks orc d (set_st d s2)) as [[[s4 tE] eE] cE] eqn:EE.
    destruct cE; [inversion H; constructor|].
    destruct (after_stage hooks orc e (nonnil eE) s4) as [[[s5 tA] eA] cA] eqn:EA.
    destruct cA; [inversion H; constructor|].
    inversion H; subst. eapply OutDone; eauto.
  - inversion H; subst. eapply OutBody; eauto. discriminate.
  - inversion H; subst. eapply OutBody; eauto; [discriminate|]. destruct e; reflexivity.
Qed.

(* no event of a later step, no task transition in the traces of before_event / leave_state *)
Definition early_only (e : evt) (src : st) (x : tev) : Prop :=
  match x with
  | TBody _ | TCancel _ => False
  | TStep n _ _ => n = SMoment (MBefore e) \/ n = SMoment (MLeave src)
  | TStart _ h _ => fst (h_trig h) = MBefore e \/ fst (h_trig h) = MLeave src
  | TCollect _ p | TTasks _ p | TUnsure p | TCrash p => fst p = MBefore e \/ fst p = MLeave src
  | TRun _ _ _ => True
  end.

Lemma stage_early_b e src t : Forall (stage_ev (MBefore e)) t -> Forall (early_only e src) t.
Proof. intro H. eapply Forall_impl; [|exact H]. intros x; destruct x; cbn; auto. Qed.
Lemma stage_early_l e src t : Forall (stage_ev (MLeave src)) t -> Forall (early_only e src) t.
Proof. intro H. eapply Forall_impl; [|exact H]. intros x; destruct x; cbn; auto. Qed.

Lemma done_result eA eE l :
  (match eE ++ eA with _ :: _ => RHook (eE ++ eA) | [] => ROk end) = RHook l ->
  l = eE ++ eA /\ nonnil eE || nonnil eA = true.
Proof.
  destruct (eE ++ eA) as [|x r] eqn:E; [discriminate|]. intro H; inversion H; subst.
  split; [reflexivity|].
  destruct eE; [destruct eA; [discriminate|reflexivity]|reflexivity].
Qed.

Ltac find_hr :=
  match goal with
  | Hr : RHook _ = _ |- _ => symmetry in Hr; apply done_result in Hr; destruct Hr as [Hr1 Hr2]
  | Hr : _ = RHook _ |- _ => apply done_result in Hr; destruct Hr as [Hr1 Hr2]
  end.

(* C09, first clause: an error naming before_<event> or leave_<state> means the transition was
   cancelled there *)
Lemma cancel_early hooks orc e b s s' t l d m f :
  transition hooks orc e b s = (s', t, RHook l) -> dst_of e (e_st s) = Some d ->
  In (PE m f) l -> m = MBefore e \/ m = MLeave (e_st s) ->
  e_st s' = e_st s /\ l = [PE m f] /\ (wf_calls f <> [] \/ wf_tasks f <> []) /\
  Forall (early_only e (e_st s)) t /\
  exists t0, t = t0 ++ [TStep (SMoment m) false true].
Proof.
  intros H Hd Hin Hm. apply transition_outcome with (d := d) in H; [|exact Hd].
  inversion H as [| s1 tB pe t0 EB ET | s1 tB s2 tL pe t0 EB EL ET | | s1 tB s2 tL s4 tE eE s5 tA eA EB EL Hb EE EA Hr]; subst.
  - pose proof (before_stage_spec _ _ _ _ _ _ _ _ EB) as (V & S & P & _).
    destruct Hin as [->|[]]. apply Forall_inv in P. destruct P as (f' & Hpe & Hne).
    inversion Hpe; subst. split; [exact S|]. split; [reflexivity|]. split; [exact Hne|].
    split; [apply stage_early_b; exact V|]. exists t0. reflexivity.
  - pose proof (before_stage_spec _ _ _ _ _ _ _ _ EB) as (VB & SB & _ & _).
    pose proof (leave_stage_spec _ _ _ _ _ _ _ _ EL) as (V & S & P & _).
    destruct Hin as [->|[]]. apply Forall_inv in P. destruct P as (f' & Hpe & Hne).
    inversion Hpe; subst. split; [congruence|]. split; [reflexivity|]. split; [exact Hne|].
    split; [apply Forall_app; split; [apply stage_early_b; exact VB|apply stage_early_l; exact V]|].
    exists (tB ++ t0). rewrite <- app_assoc. reflexivity.
  - exfalso.
    pose proof (enter_stage_spec _ _ _ _ _ _ _ _ EE) as (_ & _ & PE_ & _).
    pose proof (after_stage_spec _ _ _ _ _ _ _ _ _ EA) as (_ & _ & PA & _).
    find_hr. subst l. pose proof Hin as Hl.
    apply in_app_or in Hl. unfold errs_of in *. rewrite Forall_forall in PE_, PA.
    destruct Hl as [Hl|Hl]; [destruct (PE_ _ Hl) as (f' & Hpe & _)|destruct (PA _ Hl) as (f' & Hpe & _)];
      inversion Hpe; subst; destruct Hm; discriminate.
Qed.

(* C09, second clause: an error naming enter_<state> or after_<event> is only reported: the
   environment is in the destination state and after_<event> ran to its end *)
Lemma report_late hooks orc e b s s' t l d m f :
  transition hooks orc e b s = (s', t, RHook l) -> dst_of e (e_st s) = Some d ->
  In (PE m f) l -> m = MEnter d \/ m = MAfter e ->
  e_st s' = d /\ In (TBody e) t /\
  exists t0 t1, t = t0 ++ TStep (SMoment (MAfter e)) true false :: t1 ++ [TStep (SMoment (MAfter e)) false true].
Proof.
  intros H Hd Hin Hm. apply transition_outcome with (d := d) in H; [|exact Hd].
  inversion H as [| s1 tB pe t0 EB ET | s1 tB s2 tL pe t0 EB EL ET | | s1 tB s2 tL s4 tE eE s5 tA eA EB EL Hb EE EA Hr]; subst.
  - exfalso. pose proof (before_stage_spec _ _ _ _ _ _ _ _ EB) as (_ & _ & P & _).
    destruct Hin as [->|[]]. apply Forall_inv in P. destruct P as (f' & Hpe & _). inversion Hpe; subst.
    destruct Hm; discriminate.
  - exfalso. pose proof (leave_stage_spec _ _ _ _ _ _ _ _ EL) as (_ & _ & P & _).
    destruct Hin as [->|[]]. apply Forall_inv in P. destruct P as (f' & Hpe & _). inversion Hpe; subst.
    destruct Hm; discriminate.
  - pose proof (enter_stage_spec _ _ _ _ _ _ _ _ EE) as (_ & SE & _ & _).
    pose proof (after_stage_spec _ _ _ _ _ _ _ _ _ EA) as (_ & SA & _ & TA).
    destruct (TA eq_refl) as (t0 & ->).
    split; [rewrite SA, SE; reflexivity|].
    split; [apply in_or_app; right; apply in_or_app; right; cbn; auto|].
    find_hr. rewrite Hr2.
    exists (tB ++ tL ++ body_trace e true ++ tE), t0. rewrite <- !app_assoc. reflexivity.
Qed.

(* ------------------------------------------------------------------ failing critical calls are reported *)

Lemma in_collects i p t : In (TCollect i p) t -> In i (collects t).
Proof.
  induction t as [|x t IH]; [intros []|]. intros [->|H].
  - cbn. left. reflexivity.
  - unfold collects. cbn [flat_map]. apply in_or_app. right. apply IH. exact H.
Qed.

Lemma pass_crit_in hooks orc m pred s s' t p i q :
  run_pass hooks orc m pred s = (s', t, p) -> In (TCollect i q) t -> critfail i = true ->
  p = PCrash \/ exists f, p = PFail m f /\ In i (wf_calls f).
Proof.
  intros H Hin Hc. apply run_pass_crit in H. apply in_collects in Hin.
  assert (Hf : In i (filter critfail (collects t))) by (apply filter_In; auto).
  destruct p.
  - rewrite H in Hf. destruct Hf.
  - destruct H as (-> & Hw & _). right. exists f. rewrite <- Hw. auto.
  - left. reflexivity.
Qed.

Lemma collects_runs t : Forall is_run_ev t -> collects t = [].
Proof.
  induction 1 as [|x t Hx _ IH]; [reflexivity|]. destruct x; cbn in Hx; try contradiction. exact IH.
Qed.

Lemma collects_cons_step n b er t : collects (TStep n b er :: t) = collects t.
Proof. reflexivity. Qed.
Lemma collects_step n b er : collects [TStep n b er] = [].
Proof. reflexivity. Qed.

Lemma crit_in_filter i l : In i l -> critfail i = true -> In i (filter critfail l).
Proof. intros. apply filter_In. auto. Qed.

(* result of a pass, as far as failing critical calls go *)
Definition pass_crit_spec (m : mname) (t : list tev) (p : pres) : Prop :=
  match p with
  | POk => filter critfail (collects t) = []
  | PFail m' f => m' = m /\ filter critfail (collects t) = wf_calls f
  | PCrash => True
  end.
Lemma run_pass_crit' hooks orc m pred s s' t p :
  run_pass hooks orc m pred s = (s', t, p) -> pass_crit_spec m t p.
Proof. intro H. apply run_pass_crit in H. destruct p; cbn; tauto. Qed.

(* in every callback that did not crash: a failing critical call collected there is named in the
   callback's error *)
Lemma before_stage_crit hooks orc e s s' t errs i :
  before_stage hooks orc e s = (s', t, errs, false) -> In i (collects t) -> critfail i = true ->
  exists f, errs = [PE (MBefore e) f] /\ In i (wf_calls f).
Proof.
  unfold before_stage, bstep, estep.
  destruct (run_pass hooks orc (MBefore e) wneg s) as [[s1 t1] p1] eqn:E1.
  apply run_pass_crit' in E1.
  destruct p1.
  - destruct (builtin_before e s1) as [s2 tb] eqn:Eb. apply builtin_before_runs, collects_runs in Eb.
    destruct (run_pass hooks orc (MBefore e) wnonneg s2) as [[s3 t3] p3] eqn:E3.
    apply run_pass_crit' in E3.
    destruct p3; intro H; inversion H; subst; clear H;
      rewrite collects_cons_step, ?collects_app, Eb, ?collects_step, ?app_nil_r; cbn [app];
      intros Hin Hc; apply in_app_or in Hin; cbn in E1, E3.
    + exfalso. destruct Hin as [Hin|Hin]; apply crit_in_filter in Hin; auto; [rewrite E1 in Hin|rewrite E3 in Hin]; exact Hin.
    + destruct E3 as [-> E3]. exists f. split; [reflexivity|]. rewrite <- E3.
      destruct Hin as [Hin|Hin]; apply crit_in_filter in Hin; auto. rewrite E1 in Hin. destruct Hin.
  - intro H; inversion H; subst; clear H.
    rewrite collects_cons_step, collects_app, collects_step, app_nil_r.
    intros Hin Hc. cbn in E1. destruct E1 as [-> E1]. exists f. split; [reflexivity|].
    rewrite <- E1. apply crit_in_filter; assumption.
  - intro H; inversion H.
Qed.

Lemma leave_stage_crit hooks orc src s s' t errs i :
  leave_stage hooks orc src s = (s', t, errs, false) -> In i (collects t) -> critfail i = true ->
  exists f, errs = [PE (MLeave src) f] /\ In i (wf_calls f).
Proof.
  unfold leave_stage, bstep, estep.
  destruct (run_pass hooks orc (MLeave src) wneg s) as [[s1 t1] p1] eqn:E1.
  apply run_pass_crit' in E1.
  destruct p1.
  - destruct (run_pass hooks orc (MLeave src) wnonneg (builtin_leave src s1)) as [[s3 t3] p3] eqn:E3.
    apply run_pass_crit' in E3.
    destruct p3; intro H; inversion H; subst; clear H;
      rewrite collects_cons_step, ?collects_app, ?collects_step, ?app_nil_r; cbn [app];
      intros Hin Hc; apply in_app_or in Hin; cbn in E1, E3.
    + exfalso. destruct Hin as [Hin|Hin]; apply crit_in_filter in Hin; auto; [rewrite E1 in Hin|rewrite E3 in Hin]; exact Hin.
    + destruct E3 as [-> E3]. exists f. split; [reflexivity|]. rewrite <- E3.
      destruct Hin as [Hin|Hin]; apply crit_in_filter in Hin; auto. rewrite E1 in Hin. destruct Hin.
  - intro H; inversion H; subst; clear H.
    rewrite collects_cons_step, collects_app, collects_step, app_nil_r.
    intros Hin Hc. cbn in E1. destruct E1 as [-> E1]. exists f. split; [reflexivity|].
    rewrite <- E1. apply crit_in_filter; assumption.
  - intro H; inversion H.
Qed.

Lemma perrs_crit m t p i :
  pass_crit_spec m t p -> p <> PCrash -> In i (collects t) -> critfail i = true ->
  exists f, In (PE m f) (perrs m p) /\ In i (wf_calls f).
Proof.
  intros H Hp Hin Hc. apply crit_in_filter in Hin; [|exact Hc]. destruct p; cbn in H.
  - rewrite H in Hin. destruct Hin.
  - destruct H as [-> H]. exists f. split; [left; reflexivity|]. rewrite <- H. exact Hin.
  - contradiction.
Qed.

Lemma is_crash_false p : is_crash p = false -> p <> PCrash.
Proof. intros H ->. discriminate. Qed.

Lemma enter_stage_crit hooks orc d s s' t errs i :
  enter_stage hooks orc d s = (s', t, errs, false) -> In i (collects t) -> critfail i = true ->
  exists f, In (PE (MEnter d) f) errs /\ In i (wf_calls f).
Proof.
  unfold enter_stage, bstep, estep.
  destruct (run_pass hooks orc (MEnter d) wneg s) as [[s1 t1] p1] eqn:E1.
  apply run_pass_crit' in E1.
  destruct (is_crash p1) eqn:C1; [intro H; inversion H|]. apply is_crash_false in C1.
  destruct (run_pass hooks orc (MEnter d) wnonneg s1) as [[s2 t2] p2] eqn:E2.
  apply run_pass_crit' in E2.
  destruct (is_crash p2) eqn:C2; [intro H; inversion H|]. apply is_crash_false in C2.
  intro H; inversion H; subst; clear H.
  rewrite collects_cons_step, !collects_app, collects_step, app_nil_r.
  intros Hin Hc. apply in_app_or in Hin. destruct Hin as [Hin|Hin].
  - destruct (perrs_crit _ _ _ _ E1 C1 Hin Hc) as (f & Hf & Hi). exists f. split; [apply in_or_app; left; exact Hf|exact Hi].
  - destruct (perrs_crit _ _ _ _ E2 C2 Hin Hc) as (f & Hf & Hi). exists f. split; [apply in_or_app; right; exact Hf|exact Hi].
Qed.

Lemma after_stage_crit hooks orc e err0 s s' t errs i :
  after_stage hooks orc e err0 s = (s', t, errs, false) -> In i (collects t) -> critfail i = true ->
  exists f, In (PE (MAfter e) f) errs /\ In i (wf_calls f).
Proof.
  unfold after_stage, bstep, estep.
  destruct (run_pass hooks orc (MAfter e) wneg s) as [[s1 t1] p1] eqn:E1.
  apply run_pass_crit' in E1.
  destruct (is_crash p1) eqn:C1; [intro H; inversion H|]. apply is_crash_false in C1.
  destruct (builtin_after e (err0 || nonnil (perrs (MAfter e) p1)) s1) as [s2 ta] eqn:Ea.
  apply builtin_after_runs, collects_runs in Ea.
  destruct (run_pass hooks orc (MAfter e) wnonneg s2) as [[s3 t3] p3] eqn:E3.
  apply run_pass_crit' in E3.
  destruct (is_crash p3) eqn:C3; [intro H; inversion H|]. apply is_crash_false in C3.
  intro H; inversion H; subst; clear H.
  rewrite collects_cons_step, !collects_app, Ea, collects_step, app_nil_r. cbn [app].
  intros Hin Hc. apply in_app_or in Hin. destruct Hin as [Hin|Hin].
  - destruct (perrs_crit _ _ _ _ E1 C1 Hin Hc) as (f & Hf & Hi). exists f. split; [apply in_or_app; left; exact Hf|exact Hi].
  - destruct (perrs_crit _ _ _ _ E3 C3 Hin Hc) as (f & Hf & Hi). exists f. split; [apply in_or_app; right; exact Hf|exact Hi].
Qed.

Lemma collects_body e ok : collects (body_trace e ok) = [].
Proof. reflexivity. Qed.

Lemma done_result_eq eA eE x :
  In x (eE ++ eA) -> (match eE ++ eA with _ :: _ => RHook (eE ++ eA) | [] => ROk end) = RHook (eE ++ eA).
Proof. destruct (eE ++ eA); [intros []|reflexivity]. Qed.

(* C09: a failing critical call whose result is taken during a transition makes the transition
   return a hook error that names the trigger and the call *)
Lemma critical_failure_reported hooks orc e b s s' t r d i :
  transition hooks orc e b s = (s', t, r) -> dst_of e (e_st s) = Some d -> r <> RCrash ->
  In i (collects t) -> critfail i = true ->
  exists l m f, r = RHook l /\ In (PE m f) l /\ In i (wf_calls f).
Proof.
  intros H Hd Hr Hin Hc. apply transition_outcome with (d := d) in H; [|exact Hd].
  inversion H as [| s1 tB pe t0 EB ET | s1 tB s2 tL pe t0 EB EL ET | s1 tB s2 tL s2' EB EL Hb Hs | s1 tB s2 tL s4 tE eE s5 tA eA EB EL Hb EE EA]; subst.
  - contradiction.
  - destruct (before_stage_crit _ _ _ _ _ _ _ _ EB Hin Hc) as (f & Hf & Hi). inversion Hf; subst.
    do 3 eexists. split; [reflexivity|]. split; [left; reflexivity|exact Hi].
  - rewrite collects_app in Hin. apply in_app_or in Hin. destruct Hin as [Hin|Hin].
    + destruct (before_stage_crit _ _ _ _ _ _ _ _ EB Hin Hc) as (f & Hf & _). discriminate.
    + destruct (leave_stage_crit _ _ _ _ _ _ _ _ EL Hin Hc) as (f & Hf & Hi). inversion Hf; subst.
      do 3 eexists. split; [reflexivity|]. split; [left; reflexivity|exact Hi].
  - exfalso. rewrite !collects_app, collects_body, app_nil_r in Hin. apply in_app_or in Hin. destruct Hin as [Hin|Hin].
    + destruct (before_stage_crit _ _ _ _ _ _ _ _ EB Hin Hc) as (f & Hf & _). discriminate.
    + destruct (leave_stage_crit _ _ _ _ _ _ _ _ EL Hin Hc) as (f & Hf & _). discriminate.
  - rewrite !collects_app, collects_body in Hin. cbn [app] in Hin.
    apply in_app_or in Hin. destruct Hin as [Hin|Hin];
      [destruct (before_stage_crit _ _ _ _ _ _ _ _ EB Hin Hc) as (f & Hf & _); discriminate|].
    apply in_app_or in Hin. destruct Hin as [Hin|Hin];
      [destruct (leave_stage_crit _ _ _ _ _ _ _ _ EL Hin Hc) as (f & Hf & _); discriminate|].
    apply in_app_or in Hin. destruct Hin as [Hin|Hin].
    + destruct (enter_stage_crit _ _ _ _ _ _ _ _ EE Hin Hc) as (f & Hf & Hi).
      assert (Hx : In (PE (MEnter d) f) (eE ++ eA)) by (apply in_or_app; left; exact Hf).
      rewrite (done_result_eq _ _ _ Hx). do 3 eexists. split; [reflexivity|]. split; [exact Hx|exact Hi].
    + destruct (after_stage_crit _ _ _ _ _ _ _ _ _ EA Hin Hc) as (f & Hf & Hi).
      assert (Hx : In (PE (MAfter e) f) (eE ++ eA)) by (apply in_or_app; right; exact Hf).
      rewrite (done_result_eq _ _ _ Hx). do 3 eexists. split; [reflexivity|]. split; [exact Hx|exact Hi].
Qed.

Lemma stage_collect_moment m t i p : Forall (stage_ev m) t -> In (TCollect i p) t -> fst p = m.
Proof. intros H Hin. rewrite Forall_forall in H. exact (H _ Hin). Qed.

(* C09: in particular a critical failure at enter_<state> is in the returned error, whether or
   not hooks of after_<event> fail too *)
Lemma enter_reported hooks orc e b s s' t l d i p :
  transition hooks orc e b s = (s', t, RHook l) -> dst_of e (e_st s) = Some d ->
  In (TCollect i p) t -> critfail i = true -> fst p = MEnter d ->
  exists f, In (PE (MEnter d) f) l /\ In i (wf_calls f).
Proof.
  intros H Hd Hin Hc Hp. apply transition_outcome with (d := d) in H; [|exact Hd].
  inversion H as [| s1 tB pe t0 EB ET | s1 tB s2 tL pe t0 EB EL ET | s1 tB s2 tL s2' EB EL Hb Hs | s1 tB s2 tL s4 tE eE s5 tA eA EB EL Hb EE EA Hres]; subst.
  - exfalso. pose proof (before_stage_spec _ _ _ _ _ _ _ _ EB) as (V & _).
    rewrite (stage_collect_moment _ _ _ _ V Hin) in Hp. discriminate.
  - exfalso. pose proof (before_stage_spec _ _ _ _ _ _ _ _ EB) as (VB & _).
    pose proof (leave_stage_spec _ _ _ _ _ _ _ _ EL) as (VL & _).
    apply in_app_or in Hin. destruct Hin as [Hin|Hin];
      [rewrite (stage_collect_moment _ _ _ _ VB Hin) in Hp|rewrite (stage_collect_moment _ _ _ _ VL Hin) in Hp];
      discriminate.
  - pose proof (before_stage_spec _ _ _ _ _ _ _ _ EB) as (VB & _).
    pose proof (leave_stage_spec _ _ _ _ _ _ _ _ EL) as (VL & _).
    pose proof (after_stage_spec _ _ _ _ _ _ _ _ _ EA) as (VA & _).
    find_hr.
    apply in_app_or in Hin. destruct Hin as [Hin|Hin];
      [rewrite (stage_collect_moment _ _ _ _ VB Hin) in Hp; discriminate|].
    apply in_app_or in Hin. destruct Hin as [Hin|Hin];
      [rewrite (stage_collect_moment _ _ _ _ VL Hin) in Hp; discriminate|].
    apply in_app_or in Hin. destruct Hin as [Hin|Hin];
      [cbn in Hin; destruct Hin as [Hin|[Hin|[Hin|[]]]]; discriminate|].
    apply in_app_or in Hin. destruct Hin as [Hin|Hin];
      [|rewrite (stage_collect_moment _ _ _ _ VA Hin) in Hp; discriminate].
    destruct (enter_stage_crit _ _ _ _ _ _ _ _ EE (in_collects _ _ _ Hin) Hc) as (f & Hf & Hi).
    exists f. split; [|exact Hi].
    subst l. apply in_or_app. left. exact Hf.
Qed.

(* ------------------------------------------------------------------ non-critical failures are silent *)

(* no hook task is critical *)
Definition tasks_noncritical (hooks : list hook) : Prop :=
  forall h, In h hooks -> is_task h = true -> crit_of hooks (h_id h) = false.

Definition crit_task (hooks : list hook) (x : N) : Prop :=
  crit_of hooks x = true /\ exists h, In h hooks /\ is_task h = true /\ h_id h = x.

Lemma do_weight_tasks hooks orc m w s s' t wf c :
  do_weight hooks orc m w s = (s', t, Some wf, c) -> Forall (crit_task hooks) (wf_tasks wf).
Proof.
  unfold do_weight. fold (dw_tasks hooks m w).
  destruct (run_tasks (dw_tasks hooks m w) (or_touts orc)) as [errs|];
    [|intro H; inversion H].
  set (cf := filter (fun i => i_fail i && i_crit i) _).
  set (tf := filter (crit_of hooks) (filter (fun h => memN h errs) (dw_tasks hooks m w))).
  assert (Htf : Forall (crit_task hooks) tf).
  { unfold tf. rewrite Forall_forall. intros x Hx. apply filter_In in Hx. destruct Hx as [Hx Hc].
    apply filter_In in Hx. destruct Hx as [Hx _]. split; [exact Hc|].
    unfold dw_tasks in Hx. apply in_map_iff in Hx. destruct Hx as (h & <- & Hh).
    apply filter_In in Hh. destruct Hh as [Hh Ht]. apply hooks_at_in in Hh. exists h. tauto. }
  destruct cf; [destruct tf|]; intro H; inversion H; subst; cbn; exact Htf.
Qed.

Lemma pass_loop_tasks hooks orc m ws : forall s s' t m' f,
  pass_loop hooks orc m ws s = (s', t, PFail m' f) -> Forall (crit_task hooks) (wf_tasks f).
Proof.
  induction ws as [|w ws IH]; intros s s' t m' f; cbn.
  - intro H; inversion H.
  - destruct (do_weight hooks orc m w s) as [[[s1 t1] fo] c] eqn:E.
    destruct c; [intro H; inversion H|].
    destruct fo as [wf|].
    + intro H; inversion H; subst. eapply do_weight_tasks; exact E.
    + destruct (pass_loop hooks orc m ws s1) as [[s2 t2] p2] eqn:E2.
      intro H; inversion H; subst. eapply IH; exact E2.
Qed.

Lemma run_pass_silent hooks orc m pred s s' t p :
  run_pass hooks orc m pred s = (s', t, p) -> tasks_noncritical hooks ->
  (forall i, In i (collects t) -> critfail i = false) -> p = POk \/ p = PCrash.
Proof.
  intros H Hnt Hc. destruct p as [|m' f|]; auto. exfalso.
  pose proof (pass_loop_tasks _ _ _ _ _ _ _ _ _ H) as Ht.
  apply run_pass_crit in H. destruct H as (_ & Hw & Hne).
  assert (Hz : wf_calls f = []).
  { rewrite <- Hw. destruct (filter critfail (collects t)) as [|x l] eqn:Ef; [reflexivity|].
    assert (Hx : In x (filter critfail (collects t))) by (rewrite Ef; left; reflexivity).
    apply filter_In in Hx. destruct Hx as [Hx Hcx]. rewrite (Hc x Hx) in Hcx. discriminate. }
  destruct Hne as [Hne|Hne]; [contradiction|].
  destruct (wf_tasks f) as [|x l]; [contradiction|].
  apply Forall_inv in Ht. destruct Ht as (Hcx & h & Hh & Hth & <-).
  rewrite (Hnt h Hh Hth) in Hcx. discriminate.
Qed.

Ltac incl_tac :=
  rewrite ?collects_cons_step, ?collects_app;
  repeat first [assumption | apply in_or_app; first [left; assumption | right]].

Lemma before_stage_silent hooks orc e s s' t errs c :
  before_stage hooks orc e s = (s', t, errs, c) -> tasks_noncritical hooks ->
  (forall i, In i (collects t) -> critfail i = false) -> errs = [].
Proof.
  unfold before_stage, bstep, estep. intros H Hnt.
  destruct (run_pass hooks orc (MBefore e) wneg s) as [[s1 t1] p1] eqn:E1.
  pose proof (run_pass_silent _ _ _ _ _ _ _ _ E1 Hnt) as Q1.
  destruct p1.
  - destruct (builtin_before e s1) as [s2 tb] eqn:Eb.
    destruct (run_pass hooks orc (MBefore e) wnonneg s2) as [[s3 t3] p3] eqn:E3.
    pose proof (run_pass_silent _ _ _ _ _ _ _ _ E3 Hnt) as Q3.
    destruct p3; inversion H; subst; clear H; intro Hc; try reflexivity.
    exfalso. destruct Q3 as [Q|Q]; [|discriminate|discriminate]. intros i Hi. apply Hc. incl_tac.
  - inversion H; subst; clear H; intro Hc.
    exfalso. destruct Q1 as [Q|Q]; [|discriminate|discriminate]. intros i Hi. apply Hc. incl_tac.
  - inversion H; subst; reflexivity.
Qed.

Lemma leave_stage_silent hooks orc src s s' t errs c :
  leave_stage hooks orc src s = (s', t, errs, c) -> tasks_noncritical hooks ->
  (forall i, In i (collects t) -> critfail i = false) -> errs = [].
Proof.
  unfold leave_stage, bstep, estep. intros H Hnt.
  destruct (run_pass hooks orc (MLeave src) wneg s) as [[s1 t1] p1] eqn:E1.
  pose proof (run_pass_silent _ _ _ _ _ _ _ _ E1 Hnt) as Q1.
  destruct p1.
  - destruct (run_pass hooks orc (MLeave src) wnonneg (builtin_leave src s1)) as [[s3 t3] p3] eqn:E3.
    pose proof (run_pass_silent _ _ _ _ _ _ _ _ E3 Hnt) as Q3.
    destruct p3; inversion H; subst; clear H; intro Hc; try reflexivity.
    exfalso. destruct Q3 as [Q|Q]; [|discriminate|discriminate]. intros i Hi. apply Hc. incl_tac.
  - inversion H; subst; clear H; intro Hc.
    exfalso. destruct Q1 as [Q|Q]; [|discriminate|discriminate]. intros i Hi. apply Hc. incl_tac.
  - inversion H; subst; reflexivity.
Qed.

Lemma perrs_silent m p : p = POk \/ p = PCrash -> perrs m p = [].
Proof. intros [->| ->]; reflexivity. Qed.

Lemma enter_stage_silent hooks orc d s s' t errs c :
  enter_stage hooks orc d s = (s', t, errs, c) -> tasks_noncritical hooks ->
  (forall i, In i (collects t) -> critfail i = false) -> errs = [].
Proof.
  unfold enter_stage, bstep, estep. intros H Hnt.
  destruct (run_pass hooks orc (MEnter d) wneg s) as [[s1 t1] p1] eqn:E1.
  pose proof (run_pass_silent _ _ _ _ _ _ _ _ E1 Hnt) as Q1.
  destruct (is_crash p1); [inversion H; reflexivity|].
  destruct (run_pass hooks orc (MEnter d) wnonneg s1) as [[s2 t2] p2] eqn:E2.
  pose proof (run_pass_silent _ _ _ _ _ _ _ _ E2 Hnt) as Q2.
  destruct (is_crash p2); inversion H; subst; clear H; intro Hc; [reflexivity|].
  rewrite (perrs_silent (MEnter d) p1), (perrs_silent (MEnter d) p2); [reflexivity| |].
  - apply Q2. intros i Hi. apply Hc. incl_tac.
  - apply Q1. intros i Hi. apply Hc. incl_tac.
Qed.

Lemma after_stage_silent hooks orc e err0 s s' t errs c :
  after_stage hooks orc e err0 s = (s', t, errs, c) -> tasks_noncritical hooks ->
  (forall i, In i (collects t) -> critfail i = false) -> errs = [].
Proof.
  unfold after_stage, bstep, estep. intros H Hnt.
  destruct (run_pass hooks orc (MAfter e) wneg s) as [[s1 t1] p1] eqn:E1.
  pose proof (run_pass_silent _ _ _ _ _ _ _ _ E1 Hnt) as Q1.
  destruct (is_crash p1); [inversion H; reflexivity|].
  destruct (builtin_after e (err0 || nonnil (perrs (MAfter e) p1)) s1) as [s2 ta] eqn:Ea.
  destruct (run_pass hooks orc (MAfter e) wnonneg s2) as [[s3 t3] p3] eqn:E3.
  pose proof (run_pass_silent _ _ _ _ _ _ _ _ E3 Hnt) as Q3.
  destruct (is_crash p3); inversion H; subst; clear H; intro Hc; [reflexivity|].
  rewrite (perrs_silent (MAfter e) p1), (perrs_silent (MAfter e) p3); [reflexivity| |].
  - apply Q3. intros i Hi. apply Hc. incl_tac.
  - apply Q1. intros i Hi. apply Hc. incl_tac.
Qed.

(* C09, third clause: when no critical hook fails (no hook task is critical and every call whose
   failing result is taken is non-critical), whatever else fails, the transition returns what the
   task transition returns: no hook error, destination state reached when the body succeeds *)
Lemma noncritical_silent hooks orc e b s s' t r d :
  transition hooks orc e b s = (s', t, r) -> dst_of e (e_st s) = Some d ->
  tasks_noncritical hooks -> (forall i, In i (collects t) -> critfail i = false) ->
  r = RCrash \/ (b = BOk /\ r = ROk /\ e_st s' = d) \/ (b <> BOk /\ r = RBody /\ e_st s' = e_st s).
Proof.
  intros H Hd Hnt Hc. apply transition_outcome with (d := d) in H; [|exact Hd].
  inversion H as [| s1 tB pe t0 EB ET | s1 tB s2 tL pe t0 EB EL ET | s1 tB s2 tL s2' EB EL Hb Hs | s1 tB s2 tL s4 tE eE s5 tA eA EB EL Hb EE EA]; subst.
  - left. reflexivity.
  - exfalso. pose proof (before_stage_silent _ _ _ _ _ _ _ _ EB Hnt Hc). discriminate.
  - exfalso. assert (Q : [pe] = []); [|discriminate].
    eapply leave_stage_silent; [exact EL|exact Hnt|]. intros i Hi. apply Hc.
    rewrite collects_app. apply in_or_app. right. exact Hi.
  - right. right. split; [exact Hb|]. split; [reflexivity|].
    pose proof (before_stage_spec _ _ _ _ _ _ _ _ EB) as (_ & SB & _).
    pose proof (leave_stage_spec _ _ _ _ _ _ _ _ EL) as (_ & SL & _). congruence.
  - right. left. split; [reflexivity|].
    assert (QE : eE = []).
    { eapply enter_stage_silent; [exact EE|exact Hnt|]. intros i Hi. apply Hc. incl_tac. }
    assert (QA : eA = []).
    { eapply after_stage_silent; [exact EA|exact Hnt|]. intros i Hi. apply Hc. incl_tac. }
    subst. split; [reflexivity|].
    pose proof (enter_stage_spec _ _ _ _ _ _ _ _ EE) as (_ & SE & _).
    pose proof (after_stage_spec _ _ _ _ _ _ _ _ _ EA) as (_ & SA & _).
    rewrite SA, SE. reflexivity.
Qed.

(* ------------------------------------------------------------------ several failures at one point *)

Lemma oerr_count m f : oe_count (oerr_of (PE m f)) = wfail_count f /\ oe_trig (oerr_of (PE m f)) = m.
Proof. unfold oerr_of. destruct (wfail_count f <=? 3); split; reflexivity. Qed.

Lemma oerr_names m f : wfail_count f <= 3 ->
  oe_ids (oerr_of (PE m f)) = id_sort (map id_of (wf_calls f)).
Proof. intro H. unfold oerr_of. apply N.leb_le in H. rewrite H. reflexivity. Qed.

(* C09, fourth clause: the error of a pass carries ALL critical calls that failed at the weight
   where the pass stopped, as one error: count = number of failed critical hooks, every failed
   call named when there are at most three *)
Lemma consolidated hooks orc m pred s s' t m' f :
  run_pass hooks orc m pred s = (s', t, PFail m' f) ->
  m' = m /\ wf_calls f = filter critfail (collects t) /\
  oe_count (oerr_of (PE m' f)) = Nlen (wf_calls f) + Nlen (wf_tasks f) /\
  (wfail_count f <= 3 -> oe_ids (oerr_of (PE m' f)) = id_sort (map id_of (filter critfail (collects t)))).
Proof.
  intro H. apply run_pass_crit in H. destruct H as (-> & Hw & _).
  split; [reflexivity|]. split; [symmetry; exact Hw|]. split; [apply oerr_count|].
  intro Hk. rewrite Hw. apply oerr_names. exact Hk.
Qed.

(* ------------------------------------------------------------------ former refutation witnesses *)
(* kept as regression examples: with the repaired code (model) they behave *)

Definition wit_enter_hooks : list hook :=
  [mkHook 1 HCall (MEnter CONFIGURED, 0%Z) (MEnter CONFIGURED, 0%Z) true;
   mkHook 2 HCall (MAfter CONFIGURE, 0%Z) (MAfter CONFIGURE, 0%Z) true].

Lemma wit_enter_both_reported :
  snd (transition wit_enter_hooks (mkOracle 0 [1; 2] [] []) CONFIGURE BOk (est0 DEPLOYED)) =
  RHook [PE (MEnter CONFIGURED) (mkWfail [mkInst 1 0 true true] [] true);
         PE (MAfter CONFIGURE) (mkWfail [mkInst 2 0 true true] [] true)].
Proof. vm_compute. reflexivity. Qed.

Definition wit_late_hooks : list hook :=
  [mkHook 1 HTask (MBefore CONFIGURE, 0%Z) (MBefore CONFIGURE, 0%Z) true;
   mkHook 2 HTask (MBefore CONFIGURE, 0%Z) (MBefore CONFIGURE, 0%Z) false].
Definition wit_late_ops : list op :=
  [mkOp (OEvent CONFIGURE) BOk [] [(1, TLate); (2, TOkSlow)] []].
Definition wit_stale_hooks : list hook :=
  [mkHook 1 HTask (MBefore CONFIGURE, 0%Z) (MBefore CONFIGURE, 0%Z) false].
Definition wit_stale_ops : list op :=
  [mkOp (OEvent CONFIGURE) BOk [] [(1, TTrigFail)] []; mkOp (OEvent RESET) BOk [] [] [];
   mkOp (OEvent CONFIGURE) BOk [] [] []].

(* the late termination is ignored: the timed-out critical hook cancels CONFIGURE, nothing dies *)
Lemma wit_late_cancelled :
  map (fun x => snd (fst x)) (snd (run_ops wit_late_hooks 0 wit_late_ops (est0 DEPLOYED))) =
  [RHook [PE (MBefore CONFIGURE) (mkWfail [] [1] true)]].
Proof. vm_compute. reflexivity. Qed.

(* the failed trigger leaves nothing behind: the next CONFIGURE runs the hook normally *)
Lemma wit_stale_clean :
  map (fun x => snd (fst x)) (snd (run_ops wit_stale_hooks 0 wit_stale_ops (est0 DEPLOYED))) = [ROk; ROk; ROk].
Proof. vm_compute. reflexivity. Qed.

(* ------------------------------------------------------------------ no crash *)

Lemma hook_loop_nocrash sched : forall group timers errs succ,
  hook_loop group timers errs succ sched <> LCrash.
Proof.
  induction sched as [|ev r IH]; intros group timers errs succ; cbn [hook_loop]; [discriminate|].
  destruct ev as [h|h nz vol].
  - destruct (memN h group && memN h timers); [|apply IH].
    destruct (remN h timers); [discriminate|apply IH].
  - destruct (negb (memN h group)); [apply IH|].
    destruct (negb (memN h timers)); [apply IH|].
    destruct (remN h timers); [discriminate|apply IH].
Qed.

Lemma run_tasks_nocrash group touts : run_tasks group touts <> LCrash.
Proof.
  unfold run_tasks. destruct group; [discriminate|].
  destruct (trig_fails _ touts); [discriminate|apply hook_loop_nocrash].
Qed.

Lemma do_weight_nocrash hooks orc m w s s' t f c :
  do_weight hooks orc m w s = (s', t, f, c) -> c = false.
Proof.
  unfold do_weight.
  destruct (run_tasks (map h_id (filter is_task (hooks_at hooks (m, w)))) (or_touts orc)) as [errs|] eqn:E;
    [|exfalso; exact (run_tasks_nocrash _ _ E)].
  destruct (filter (fun i => i_fail i && i_crit i) _);
    [destruct (filter (crit_of hooks) _)|]; intro H; inversion H; reflexivity.
Qed.

Lemma pass_loop_nocrash hooks orc m ws : forall s s' t p,
  pass_loop hooks orc m ws s = (s', t, p) -> p <> PCrash.
Proof.
  induction ws as [|w ws IH]; intros s s' t p; cbn.
  - intro H; inversion H. discriminate.
  - destruct (do_weight hooks orc m w s) as [[[s1 t1] f] c] eqn:E.
    rewrite (do_weight_nocrash _ _ _ _ _ _ _ _ _ E).
    destruct f as [wf|]; [intro H; inversion H; discriminate|].
    destruct (pass_loop hooks orc m ws s1) as [[s2 t2] p2] eqn:E2.
    intro H; inversion H; subst. eapply IH; exact E2.
Qed.

Lemma run_pass_nocrash hooks orc m pred s s' t p :
  run_pass hooks orc m pred s = (s', t, p) -> is_crash p = false.
Proof.
  intros H. apply pass_loop_nocrash in H. destruct p; try reflexivity. contradiction.
Qed.

Lemma transition_nocrash hooks orc e b s s' t r :
  transition hooks orc e b s = (s', t, r) -> r <> RCrash.
Proof.
  unfold transition. destruct (dst_of e (e_st s)) as [d|]; [|intro H; inversion H; discriminate].
  unfold before_stage, leave_stage, enter_stage, after_stage.
  destruct (run_pass hooks orc (MBefore e) wneg s) as [[s1 t1] p1] eqn:E1.
  pose proof (run_pass_nocrash _ _ _ _ _ _ _ _ E1) as C1.
  destruct p1; [|intro H; inversion H; discriminate|discriminate].
  destruct (builtin_before e s1) as [s2 tb].
  destruct (run_pass hooks orc (MBefore e) wnonneg s2) as [[s3 t3] p3] eqn:E3.
  pose proof (run_pass_nocrash _ _ _ _ _ _ _ _ E3) as C3.
  destruct p3; [|intro H; inversion H; discriminate|discriminate].
  destruct (run_pass hooks orc (MLeave (e_st s)) wneg s3) as [[s4 t4] p4] eqn:E4.
  pose proof (run_pass_nocrash _ _ _ _ _ _ _ _ E4) as C4.
  destruct p4; [|intro H; inversion H; discriminate|discriminate].
  destruct (run_pass hooks orc (MLeave (e_st s)) wnonneg (builtin_leave (e_st s) s4)) as [[s5 t5] p5] eqn:E5.
  pose proof (run_pass_nocrash _ _ _ _ _ _ _ _ E5) as C5.
  destruct p5; [|intro H; inversion H; discriminate|discriminate].
  destruct b; [|intro H; inversion H; discriminate..].
  destruct (run_pass hooks orc (MEnter d) wneg (set_st d s5)) as [[s6 t6] p6] eqn:E6.
  rewrite (run_pass_nocrash _ _ _ _ _ _ _ _ E6).
  destruct (run_pass hooks orc (MEnter d) wnonneg s6) as [[s7 t7] p7] eqn:E7.
  rewrite (run_pass_nocrash _ _ _ _ _ _ _ _ E7).
  destruct (run_pass hooks orc (MAfter e) wneg s7) as [[s8 t8] p8] eqn:E8.
  rewrite (run_pass_nocrash _ _ _ _ _ _ _ _ E8).
  destruct (builtin_after e _ s8) as [s9 ta].
  destruct (run_pass hooks orc (MAfter e) wnonneg s9) as [[s10 t10] p10] eqn:E10.
  rewrite (run_pass_nocrash _ _ _ _ _ _ _ _ E10).
  intro H; inversion H.
  destruct ((perrs (MEnter d) p6 ++ perrs (MEnter d) p7) ++ perrs (MAfter e) p8 ++ perrs (MAfter e) p10); discriminate.
Qed.

Lemma run_op_nocrash hooks i o s s' t r :
  run_op hooks i o s = (s', t, r) -> r <> RCrash.
Proof.
  unfold run_op. destruct (o_kind o).
  - apply transition_nocrash.
  - intro H; inversion H. discriminate.
  - destruct (transition hooks (oracle_of i o) GO_ERROR (o_body o) s) as [[s1 t1] r1] eqn:E.
    apply transition_nocrash in E. destruct (force_error s1) as [s2 tf].
    destruct r1; intro H; inversion H; subst; try discriminate. exact E.
  - unfold leave_all. destruct (run_pass hooks (oracle_of i o) (MLeave (e_st s)) wall s) as [[s1 t1] p] eqn:E.
    pose proof (run_pass_nocrash _ _ _ _ _ _ _ _ E) as C.
    destruct p; intro H; inversion H; discriminate.
  - unfold leave_all. destruct (run_pass hooks (oracle_of i o) (MLeave (e_st s)) wall s) as [[s1 t1] p] eqn:E.
    rewrite (run_pass_nocrash _ _ _ _ _ _ _ _ E).
    destruct (teardown_stamps s1) as [s2 ts]. intro H; inversion H. discriminate.
Qed.

(* C09, "without harming the core": no history crashes the core, whatever fails, with any number
   of calls failing at one point, hook tasks timing out, terminating late or failing to trigger *)
Lemma no_crash hooks : forall ops i s,
  model_crashed (snd (run_ops hooks i ops s)) = false.
Proof.
  induction ops as [|o ops IH]; intros i s; cbn; [reflexivity|].
  destruct (run_op hooks i o s) as [[s1 t] res] eqn:E.
  pose proof (run_op_nocrash _ _ _ _ _ _ _ E) as Hr.
  destruct res; try contradiction;
    (specialize (IH (N.succ i) s1); destruct (run_ops hooks (N.succ i) ops s1) as [s2 l2]; cbn in *; exact IH).
Qed.

(* ------------------------------------------------------------------ which reports are failures *)
(* tied to the source: the comparison on the exit code and the involuntary test are read from
   runTasksAsHooks by the translator (Gen_HookFail) *)
Lemma term_fails_spec c vol : term_fails c vol = true <-> (c <> 0%Z \/ vol = false).
Proof.
  unfold term_fails, exit_fails, gen_exit_op, gen_exit_lit, gen_invol_fails. cbn.
  rewrite orb_true_iff, negb_true_iff, Z.eqb_neq, negb_true_iff. tauto.
Qed.

(* a hook task alone at its weight: its termination report decides *)
Lemma tout_of_single h o : tout_of [(h, o)] h = o.
Proof. unfold tout_of. cbn. rewrite N.eqb_refl. reflexivity. Qed.

Lemma single_task_report h c v f :
  run_tasks [h] [(h, TTermX c v f)] = LDone (if term_fails c v then [h] else []).
Proof.
  unfold run_tasks, trig_fails, sched_of. cbn [existsb filter flat_map map app].
  rewrite !tout_of_single. cbn. rewrite !N.eqb_refl. cbn.
  unfold term_fails, exit_fails, gen_exit_op, gen_invol_fails. cbn.
  destruct (negb (c =? gen_exit_lit)%Z || negb v); reflexivity.
Qed.

(* ------------------------------------------------------------------ success excludes critical failures *)
(* the contrapositive of critical_failure_reported, as the user reads it: a transition that
   returned success, or only the error of the task transition, collected no failing critical call *)
Lemma success_no_critical_failure hooks orc e b s s' t r d i :
  transition hooks orc e b s = (s', t, r) -> dst_of e (e_st s) = Some d ->
  r = ROk \/ r = RBody -> In i (collects t) -> critfail i = false.
Proof.
  intros Ht Hd Hr Hi. destruct (critfail i) eqn:Hc; [|reflexivity].
  assert (Hn : r <> RCrash) by (destruct Hr as [-> | ->]; discriminate).
  destruct (critical_failure_reported _ _ _ _ _ _ _ _ _ _ Ht Hd Hn Hi Hc) as (l & m & f & Hl & _).
  destruct Hr as [-> | ->]; discriminate.
Qed.
