(* Where core/environment writes Environment.currentRunNumber and where it calls NewRunNumber
   (table gen/Gen_RunNumberSites.v, regenerated from the source on every run): exactly the sites
   and conditions that the history model of model/RunCounter.v ([hstep]) is written from.
   A new write, a write under another condition, or a draw that became conditional changes the
   table and breaks this lemma; the model has to be looked at again then. *)
From Coq Require Import String List.
From Coq Require Import ZArith.
From Verif Require Import Gen_RunNumberSites Gen_FileCounter.
Import ListNotations.
Open Scope string_scope.

Definition expected_rn_writes : list (string * string * string * string * list string) := [
  (* assigned on every START attempt that got past the hooks of negative weight *)
  ("environment.go", "newEnvironment", "before_event", "value", ["e.Event == ""START_ACTIVITY"""]);
  (* cleared when a run was stopped *)
  ("environment.go", "newEnvironment", "after_event", "zero", ["e.Event == ""STOP_ACTIVITY"""]);
  (* cleared when tasks fail to start *)
  ("transition_startactivity.go", "do", "", "zero", ["tasksStateErrors != nil"])
].
Definition expected_rn_draws : list (string * string * string * list string) := [
  (* a fresh number is drawn on every such attempt, under no other condition *)
  ("environment.go", "newEnvironment", "before_event", ["e.Event == ""START_ACTIVITY"""])
].

Lemma rn_sites_as_modelled :
  gen_rn_writes = expected_rn_writes /\ gen_rn_draws = expected_rn_draws.
Proof. split; reflexivity. Qed.

(* The file branch of Service.NewRunNumber (table gen/Gen_FileCounter.v, regenerated from the
   source on every run): the file and parsing operations the file model of model/RunCounter.v
   ([fstep]) is written from - os.Stat, a create with WriteFile, ReadFile, ONE strict
   ParseUint(_, 10, 32) of the bytes read as they are (nothing trimmed, nothing defaulted), a
   write-back with WriteFile (truncate, then write; no rename).  A reader that forgives, or
   another way of writing, changes the table and breaks this lemma. *)
Definition expected_fc_ops : list string := ["Stat"; "WriteFile"; "ReadFile"; "ParseUint"; "WriteFile"].
Definition expected_fc_parse : string * Z * Z := ("the bytes read", 10%Z, 32%Z).

Lemma file_counter_as_modelled :
  gen_fc_ops = expected_fc_ops /\ gen_fc_parse = expected_fc_parse.
Proof. split; reflexivity. Qed.
