(* Where core/environment writes Environment.currentRunNumber and where it calls NewRunNumber
   (table gen/Gen_RunNumberSites.v, regenerated from the source on every run): exactly the sites
   and conditions that the history model of model/RunCounter.v ([hstep]) is written from.
   A new write, a write under another condition, or a draw that became conditional changes the
   table and breaks this lemma; the model has to be looked at again then. *)
From Coq Require Import String List.
From Coq Require Import ZArith.
From Verif Require Import Gen_RunNumberSites Gen_FileCounter Gen_RemoteGlue.
Import ListNotations.
Open Scope string_scope.

(* In the conditions a parameter or receiver is written as its type (<fsm.Event>, <Environment>),
   a local that is assigned once as the expression it was assigned, a named constant as its
   value; a site in an unexported helper is listed where the helper is called; statements after
   "if c { ...; return }" and else branches carry the negation of c; the lists are sorted. *)
Definition expected_rn_writes : list (string * string * string * list string) := [
  (* cleared when tasks fail to start *)
  ("StartActivityTransition.do", "", "zero",
   ["<Environment> != nil"; "((<-<Environment>.stateChangedCh).GetTasksStateChangedError()) != nil"]);
  (* cleared when a run was stopped *)
  ("newEnvironment", "after_event", "zero", ["<fsm.Event>.Event == ""STOP_ACTIVITY"""]);
  (* assigned on every START attempt that got past the hooks of negative weight and drew a number *)
  ("newEnvironment", "before_event", "value",
   ["errHooks == nil"; "<fsm.Event>.Event == ""START_ACTIVITY"""; "(the.ConfSvc().NewRunNumber()#1) == nil"])
].
Definition expected_rn_draws : list (string * string * list string) := [
  (* a fresh number is drawn on every such attempt, under no other condition *)
  ("newEnvironment", "before_event", ["errHooks == nil"; "<fsm.Event>.Event == ""START_ACTIVITY"""])
].

Lemma rn_sites_as_modelled :
  gen_rn_writes = expected_rn_writes /\ gen_rn_draws = expected_rn_draws.
Proof. split; reflexivity. Qed.

(* The file branch of Service.NewRunNumber (table gen/Gen_FileCounter.v, regenerated from the
   source on every run): the file and parsing operations the file model of model/RunCounter.v
   ([fstep]) is written from - os.Stat, a create with WriteFile, ReadFile, ONE strict
   ParseUint(_, 10, 32) of the bytes read as they are (nothing trimmed, nothing defaulted), a
   write-back with WriteFile (truncate, then write; no rename).  A reader that forgives, or
   another way of writing, changes the table and breaks this lemma. *)
Definition expected_fc_ops : list string := ["Stat"; "WriteFile"; "ReadFile"; "ParseUint"; "WriteFile"].
Definition expected_fc_parse : string * Z * Z := ("the bytes read", 10%Z, 32%Z).

Lemma file_counter_as_modelled :
  gen_fc_ops = expected_fc_ops /\ gen_fc_parse = expected_fc_parse.
Proof. split; reflexivity. Qed.

(* The glue between the core and the counter (table gen/Gen_RemoteGlue.v, a path analysis of
   RemoteService.NewRunNumber and RpcServer.NewRunNumber regenerated from the source on every
   run): every way out of either function returns the number of a successful inner NewRunNumber
   call with a nil error, or a non-nil error - which is what [remote_client] of the model says. *)
Lemma remote_glue_as_modelled :
  gen_glue_client_faithful = true /\ gen_glue_server_faithful = true.
Proof. split; reflexivity. Qed.
