(* Where core/environment writes Environment.currentRunNumber and where it calls NewRunNumber
   (table gen/Gen_RunNumberSites.v, regenerated from the source on every run): exactly the sites
   and conditions that the history model of model/RunCounter.v ([hstep]) is written from.
   A new write, a write under another condition, or a draw that became conditional changes the
   table and breaks this lemma; the model has to be looked at again then. *)
From Coq Require Import String List.
From Verif Require Import Gen_RunNumberSites.
Import ListNotations.
Open Scope string_scope.

Definition expected_rn_writes : list (string * string * string * string * list string) := [
  (* assigned on every START attempt that got past the hooks of negative weight *)
  ("environment.go", "newEnvironment", "before_event", "value", ["e.Event == ""START_ACTIVITY"""]);
  (* cleared when a run was stopped *)
  ("environment.go", "newEnvironment", "after_event", "zero", ["e.Event == ""STOP_ACTIVITY"""]);
  (* cleared when tasks fail to start *)
  ("transition_startactivity.go", "do", "", "zero", ["tasksStateErrors != nil"])
].
Definition expected_rn_draws : list (string * string * string * list string) := [
  (* a fresh number is drawn on every such attempt, under no other condition *)
  ("environment.go", "newEnvironment", "before_event", ["e.Event == ""START_ACTIVITY"""])
].

Lemma rn_sites_as_modelled :
  gen_rn_writes = expected_rn_writes /\ gen_rn_draws = expected_rn_draws.
Proof. split; reflexivity. Qed.
