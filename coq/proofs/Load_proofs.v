(* Lemmas about the workflow-loader model (model/Load.v). *)
From Verif Require Import Common Gen_LoadStages Load.
Open Scope N_scope.

(* ---------- induction principles for the nested types ---------- *)
Section RoleInd.
  Variable P : role -> Prop.
  Hypothesis H : forall fo k b kids, Forall P kids -> P (Role fo k b kids).
  Fixpoint role_ind' (r : role) : P r :=
    match r with
    | Role fo k b kids =>
      H fo k b kids
        ((fix go (l : list role) : Forall P l :=
            match l with
            | [] => Forall_nil _
            | x :: t => Forall_cons _ (role_ind' x) (go t)
            end) kids)
    end.
End RoleInd.

Section WtInd.
  Variable P : wt -> Prop.
  Hypothesis Htodo : forall c loc r, P (WTodo c loc r).
  Hypothesis Hagg : forall i crit ws, Forall P ws -> P (WAgg i crit ws).
  Hypothesis Hiter : forall nm en ws, Forall P ws -> P (WIter nm en ws).
  Hypothesis Hdone : forall r, P (WDone r).
  Fixpoint wt_ind' (w : wt) : P w :=
    let go := fix go (l : list wt) : Forall P l :=
                match l with
                | [] => Forall_nil _
                | x :: t => Forall_cons _ (wt_ind' x) (go t)
                end in
    match w with
    | WTodo c loc r => Htodo c loc r
    | WAgg i crit ws => Hagg i crit ws (go ws)
    | WIter nm en ws => Hiter nm en ws (go ws)
    | WDone r => Hdone r
    end.
End WtInd.

Section OnodeInd.
  Variable P : onode -> Prop.
  Hypothesis Hnode : forall k i crit ks, Forall P ks -> P (ONode k i crit ks).
  Hypothesis Hiter : forall nm en ks, Forall P ks -> P (OIter nm en ks).
  Fixpoint onode_ind' (n : onode) : P n :=
    let go := fix go (l : list onode) : Forall P l :=
                match l with
                | [] => Forall_nil _
                | x :: t => Forall_cons _ (onode_ind' x) (go t)
                end in
    match n with
    | ONode k i crit ks => Hnode k i crit ks (go ks)
    | OIter nm en ks => Hiter nm en ks (go ks)
    end.
End OnodeInd.

(* ---------- unfolding proc ---------- *)
Lemma proc_none f k b kids c loc :
  proc f (Role None k b kids) c loc =
  match own f c loc b with
  | OwnErr => Err
  | OwnDis i => Ok (ONode k (dis_info k i) (r_crit b) [])
  | OwnOk i =>
    match k with
    | KAgg => join_agg f i (r_crit b) (map (fun kid => proc f kid (child_ctx c i) []) kids)
    | _ => Ok (ONode k (fin_info k i) (r_crit b) [])
    end
  end.
Proof. reflexivity. Qed.

Lemma proc_for f fs k b kids c loc :
  proc f (Role (Some fs) k b kids) c loc =
  match range_vals (stack [] c) fs with
  | None => Err
  | Some vals => join_iter f (show (r_name b)) (show (r_enabled b))
                           (map (fun v => proc f (Role None k b kids) c [(f_var fs, v)]) vals)
  end.
Proof. reflexivity. Qed.

(* ---------- all_ok ---------- *)
Lemma all_ok_in_err rs : In Err rs -> all_ok rs = None.
Proof.
  induction rs as [|r rs IH]; intros Hin; [destruct Hin|].
  destruct Hin as [->|Hin]; [reflexivity|].
  cbn. destruct r; [reflexivity|]. rewrite (IH Hin). reflexivity.
Qed.

Lemma all_ok_none_inv rs : all_ok rs = None -> In Err rs.
Proof.
  induction rs as [|r rs IH]; cbn; intros E; [discriminate|].
  destruct r; [left; reflexivity|].
  destruct (all_ok rs) eqn:E2; [discriminate|]. right. apply IH. reflexivity.
Qed.

Lemma all_ok_some rs ns : all_ok rs = Some ns -> rs = map Ok ns.
Proof.
  revert ns. induction rs as [|r rs IH]; cbn; intros ns E.
  - inversion E. reflexivity.
  - destruct r; [discriminate|]. destruct (all_ok rs) eqn:E2; [|discriminate].
    inversion E; subst. cbn. f_equal. apply IH. reflexivity.
Qed.

Lemma all_ok_map_F2 {A} (g : A -> res) l ns :
  all_ok (map g l) = Some ns -> Forall2 (fun x n => g x = Ok n) l ns.
Proof.
  revert ns. induction l as [|x l IH]; cbn; intros ns E.
  - inversion E. constructor.
  - destruct (g x) eqn:Ex; [discriminate|].
    destruct (all_ok (map g l)) eqn:E2; [|discriminate].
    inversion E; subst. constructor; [exact Ex|]. apply IH. reflexivity.
Qed.

Lemma all_ok_map_in {A} (g : A -> res) l ns n :
  all_ok (map g l) = Some ns -> In n ns -> exists x, In x l /\ g x = Ok n.
Proof.
  intros E Hin. apply all_ok_map_F2 in E.
  induction E as [|x m l ns Hx E IH]; [destruct Hin|].
  destruct Hin as [->|Hin].
  - exists x. split; [left; reflexivity|exact Hx].
  - destruct (IH Hin) as [y [Hy1 Hy2]]. exists y. split; [right; exact Hy1|exact Hy2].
Qed.

Lemma all_ok_map_err {A} (g : A -> res) l x :
  In x l -> g x = Err -> all_ok (map g l) = None.
Proof.
  intros Hin Hx. apply all_ok_in_err. rewrite <- Hx. apply in_map. exact Hin.
Qed.

Lemma all_ok_map_none_inv {A} (g : A -> res) l :
  all_ok (map g l) = None -> exists x, In x l /\ g x = Err.
Proof.
  intros E. apply all_ok_none_inv in E. apply in_map_iff in E.
  destruct E as [x [Hx Hin]]. exists x. split; assumption.
Qed.

(* ---------- schedules: every step preserves the result the work tree stands for ---------- *)
Lemma denote_start f c loc r : denote f (start f c loc r) = proc f r c loc.
Proof.
  destruct r as [fo k b kids]. destruct fo as [fs|].
  - rewrite proc_for. cbn [start]. destruct (range_vals (stack [] c) fs) as [vals|]; [|reflexivity].
    cbn [denote]. rewrite map_map. reflexivity.
  - rewrite proc_none. cbn [start]. destruct (own f c loc b) as [|i|i]; try reflexivity.
    destruct k; try reflexivity. cbn [denote]. rewrite map_map. reflexivity.
Qed.

Lemma map_denote_done f ws :
  forallb is_done ws = true -> map (denote f) ws = map done_res ws.
Proof.
  induction ws as [|w ws IH]; cbn; intros E; [reflexivity|].
  apply andb_true_iff in E. destruct E as [E1 E2].
  destruct w; try discriminate. cbn. f_equal. apply IH. exact E2.
Qed.

Lemma failed_all_ok f ws :
  existsb is_failed ws = true -> all_ok (map (denote f) ws) = None.
Proof.
  induction ws as [|w ws IH]; cbn; intros E; [discriminate|].
  apply orb_true_iff in E. destruct E as [E|E].
  - destruct w as [| | |r]; try discriminate. destruct r; [reflexivity|discriminate].
  - destruct (denote f w); [reflexivity|]. rewrite (IH E). reflexivity.
Qed.

Lemma map_apply_nth {A B} (h : A -> B) (g : A -> A) l n :
  Forall (fun x => h (g x) = h x) l -> map h (apply_nth g l n) = map h l.
Proof.
  intros HF. revert n. induction HF as [|x l Hx HF IH]; intros n; [reflexivity|].
  destruct n; cbn.
  - rewrite Hx. reflexivity.
  - rewrite IH. reflexivity.
Qed.

Lemma step_denote f w : forall p, denote f (step f p w) = denote f w.
Proof.
  induction w as [c loc r|i crit ws IH|nm en ws IH|r] using wt_ind'; intros p.
  - destruct p; cbn [step]; [apply denote_start|reflexivity].
  - destruct p as [|n p]; cbn [step].
    + unfold try_join. destruct (forallb is_done ws) eqn:E1.
      * cbn [denote]. rewrite (map_denote_done f ws E1). reflexivity.
      * destruct (existsb is_failed ws) eqn:E2; [|reflexivity].
        cbn [denote]. unfold join_agg. rewrite (failed_all_ok f ws E2). reflexivity.
    + cbn [denote]. f_equal. apply map_apply_nth.
      eapply Forall_impl; [|exact IH]. intros w Hw. apply Hw.
  - destruct p as [|n p]; cbn [step].
    + unfold try_join. destruct (forallb is_done ws) eqn:E1.
      * cbn [denote]. rewrite (map_denote_done f ws E1). reflexivity.
      * destruct (existsb is_failed ws) eqn:E2; [|reflexivity].
        cbn [denote]. unfold join_iter. rewrite (failed_all_ok f ws E2). reflexivity.
    + cbn [denote]. f_equal. apply map_apply_nth.
      eapply Forall_impl; [|exact IH]. intros w Hw. apply Hw.
  - destruct p; reflexivity.
Qed.

Lemma run_denote f s : forall w, denote f (run f s w) = denote f w.
Proof.
  induction s as [|p s IH]; intros w; cbn [run]; [reflexivity|].
  rewrite IH. apply step_denote.
Qed.

Lemma schedule_independent f c loc r s o :
  run f s (WTodo c loc r) = WDone o -> o = proc f r c loc.
Proof.
  intros E. pose proof (run_denote f s (WTodo c loc r)) as D.
  rewrite E in D. cbn [denote] in D. exact D.
Qed.

Lemma schedules_agree f c loc r s1 s2 o1 o2 :
  run f s1 (WTodo c loc r) = WDone o1 -> run f s2 (WTodo c loc r) = WDone o2 -> o1 = o2.
Proof.
  intros E1 E2. rewrite (schedule_independent _ _ _ _ _ _ E1).
  rewrite (schedule_independent _ _ _ _ _ _ E2). reflexivity.
Qed.

(* ---------- no deadlock: an unfinished work tree always has a position that can move ---------- *)
Lemma start_moves f c loc r : start f c loc r <> WTodo c loc r.
Proof.
  destruct r as [fo k b kids]. destruct fo as [fs|]; cbn [start].
  - destruct (range_vals (stack [] c) fs); discriminate.
  - destruct (own f c loc b); try discriminate. destruct k; discriminate.
Qed.

Lemma some_child_moves f ws :
  Forall (fun w => is_done w = false -> exists p, step f p w <> w) ws ->
  forallb is_done ws = false ->
  exists n p, apply_nth (step f p) ws n <> ws.
Proof.
  intros HF. induction HF as [|w ws Hw HF IH]; cbn; intros E; [discriminate|].
  destruct (is_done w) eqn:Ew.
  - cbn in E. destruct (IH E) as [n [p Hnp]]. exists (S n), p. cbn.
    intros C. inversion C as [C']. apply Hnp. exact C'.
  - destruct (Hw eq_refl) as [p Hp]. exists O, p. cbn.
    intros C. inversion C as [[C1]]. apply Hp. exact C1.
Qed.

Lemma no_deadlock f w : is_done w = false -> exists p, step f p w <> w.
Proof.
  induction w as [c loc r|i crit ws IH|nm en ws IH|r] using wt_ind'; intros E.
  - exists []. cbn [step]. apply start_moves.
  - destruct (forallb is_done ws) eqn:E1.
    + exists []. cbn [step]. unfold try_join. rewrite E1. discriminate.
    + destruct (some_child_moves f ws IH E1) as [n [p Hnp]]. exists (n :: p). cbn [step].
      intros C. inversion C as [C']. apply Hnp. exact C'.
  - destruct (forallb is_done ws) eqn:E1.
    + exists []. cbn [step]. unfold try_join. rewrite E1. discriminate.
    + destruct (some_child_moves f ws IH E1) as [n [p Hnp]]. exists (n :: p). cbn [step].
      intros C. inversion C as [C']. apply Hnp. exact C'.
  - discriminate.
Qed.

(* ---------- the sequential loader is one of the schedules, and it terminates ---------- *)
Lemma apply_nth_id {A} (l : list A) n : apply_nth (fun x => x) l n = l.
Proof.
  revert n. induction l as [|x l IH]; intros n; [reflexivity|].
  destruct n; cbn; [reflexivity|]. rewrite IH. reflexivity.
Qed.

Lemma apply_nth_comp {A} (g h : A -> A) l n :
  apply_nth g (apply_nth h l n) n = apply_nth (fun x => g (h x)) l n.
Proof.
  revert n. induction l as [|x l IH]; intros n; [reflexivity|].
  destruct n; cbn; [reflexivity|]. rewrite IH. reflexivity.
Qed.

Lemma apply_nth_ext {A} (g h : A -> A) l n :
  (forall x, g x = h x) -> apply_nth g l n = apply_nth h l n.
Proof.
  intros E. revert n. induction l as [|x l IH]; intros n; [reflexivity|].
  destruct n; cbn; [rewrite E; reflexivity|]. rewrite IH. reflexivity.
Qed.

Lemma run_app f s1 s2 w : run f (s1 ++ s2) w = run f s2 (run f s1 w).
Proof. revert w. induction s1 as [|p s1 IH]; intros w; cbn; [reflexivity|apply IH]. Qed.

Lemma run_under_agg f s i crit ws n :
  run f (map (cons n) s) (WAgg i crit ws) = WAgg i crit (apply_nth (run f s) ws n).
Proof.
  revert ws. induction s as [|p s IH]; intros ws; cbn [map run].
  - rewrite apply_nth_id. reflexivity.
  - cbn [step]. rewrite IH. rewrite apply_nth_comp. reflexivity.
Qed.

Lemma run_under_iter f s nm en ws n :
  run f (map (cons n) s) (WIter nm en ws) = WIter nm en (apply_nth (run f s) ws n).
Proof.
  revert ws. induction s as [|p s IH]; intros ws; cbn [map run].
  - rewrite apply_nth_id. reflexivity.
  - cbn [step]. rewrite IH. rewrite apply_nth_comp. reflexivity.
Qed.

(* schedules that finish the children one after the other, left to right *)
Lemma finish_children f (wrap : list wt -> wt)
      (Hwrap : forall s ws n, run f (map (cons n) s) (wrap ws) = wrap (apply_nth (run f s) ws n))
      (todo : list wt) :
  Forall (fun w => exists s, run f s w = WDone (denote f w)) todo ->
  forall done, exists s,
      run f s (wrap (done ++ todo)) = wrap (done ++ map (fun w => WDone (denote f w)) todo).
Proof.
  intros HF. induction HF as [|w todo [sw Hw] HF IH]; intros done.
  - exists []. reflexivity.
  - destruct (IH (done ++ [WDone (denote f w)])) as [s Hs].
    exists (map (cons (length done)) sw ++ s).
    rewrite run_app. rewrite Hwrap.
    assert (E : apply_nth (run f sw) (done ++ w :: todo) (length done) =
                (done ++ [WDone (denote f w)]) ++ todo).
    { clear -Hw. induction done as [|d done IHd]; cbn.
      - rewrite Hw. reflexivity.
      - rewrite IHd. reflexivity. }
    rewrite E. rewrite Hs. rewrite <- app_assoc. reflexivity.
Qed.

Lemma forallb_done_map f (ws : list wt) :
  forallb is_done (map (fun w => WDone (denote f w)) ws) = true.
Proof. induction ws; cbn; [reflexivity|assumption]. Qed.

Lemma done_res_map f (ws : list wt) :
  map done_res (map (fun w => WDone (denote f w)) ws) = map (denote f) ws.
Proof. rewrite map_map. reflexivity. Qed.

Lemma complete_wt f w : exists s, run f s w = WDone (denote f w).
Proof.
  assert (Hrole : forall r c loc, exists s, run f s (WTodo c loc r) = WDone (proc f r c loc)).
  { induction r as [fo k b kids IH] using role_ind'.
    assert (Hbody : forall c loc, exists s,
               run f s (WTodo c loc (Role None k b kids)) = WDone (proc f (Role None k b kids) c loc)).
    { intros c loc. rewrite proc_none.
      destruct (own f c loc b) as [|i|i] eqn:Eo.
      - exists [[]]. cbn. rewrite Eo. reflexivity.
      - exists [[]]. cbn. rewrite Eo. reflexivity.
      - destruct k.
        + exists [[]]. cbn. rewrite Eo. reflexivity.
        + exists [[]]. cbn. rewrite Eo. reflexivity.
        + set (ws := map (fun kid => WTodo (child_ctx c i) [] kid) kids).
          assert (HF : Forall (fun w => exists s, run f s w = WDone (denote f w)) ws).
          { unfold ws. apply Forall_forall. intros w0 Hin. apply in_map_iff in Hin.
            destruct Hin as [kid [<- Hkid]]. rewrite Forall_forall in IH.
            cbn [denote]. apply IH. exact Hkid. }
          destruct (finish_children f (WAgg i (r_crit b)) (fun s ws n => run_under_agg f s i (r_crit b) ws n)
                                    ws HF []) as [s Hs].
          exists ([] :: s ++ [[]]). cbn [run step start]. rewrite Eo. fold ws.
          rewrite run_app. cbn [app] in Hs. rewrite Hs. cbn [run step].
          unfold try_join. rewrite forallb_done_map. rewrite done_res_map.
          unfold ws. rewrite map_map. reflexivity. }
    intros c loc. destruct fo as [fs|]; [|apply Hbody].
    rewrite proc_for. destruct (range_vals (stack [] c) fs) as [vals|] eqn:Er.
    - set (ws := map (fun v => WTodo c [(f_var fs, v)] (Role None k b kids)) vals).
      assert (HF : Forall (fun w => exists s, run f s w = WDone (denote f w)) ws).
      { unfold ws. apply Forall_forall. intros w0 Hin. apply in_map_iff in Hin.
        destruct Hin as [v [<- Hv]]. cbn [denote]. apply Hbody. }
      destruct (finish_children f (WIter (show (r_name b)) (show (r_enabled b)))
                                (fun s ws n => run_under_iter f s _ _ ws n) ws HF []) as [s Hs].
      exists ([] :: s ++ [[]]). cbn [run step start]. rewrite Er. fold ws.
      rewrite run_app. cbn [app] in Hs. rewrite Hs. cbn [run step].
      unfold try_join. rewrite forallb_done_map. rewrite done_res_map.
      unfold ws. rewrite map_map. reflexivity.
    - exists [[]]. cbn [run step start]. rewrite Er. reflexivity. }
  induction w as [c loc r|i crit ws IH|nm en ws IH|r] using wt_ind'.
  - cbn [denote]. apply Hrole.
  - destruct (finish_children f (WAgg i crit) (fun s ws n => run_under_agg f s i crit ws n) ws IH [])
      as [s Hs].
    exists (s ++ [[]]). rewrite run_app. cbn [app] in Hs. rewrite Hs. cbn [run step].
    unfold try_join. rewrite forallb_done_map. rewrite done_res_map. reflexivity.
  - destruct (finish_children f (WIter nm en) (fun s ws n => run_under_iter f s nm en ws n) ws IH [])
      as [s Hs].
    exists (s ++ [[]]). rewrite run_app. cbn [app] in Hs. rewrite Hs. cbn [run step].
    unfold try_join. rewrite forallb_done_map. rewrite done_res_map. reflexivity.
  - exists []. reflexivity.
Qed.

Lemma schedule_complete f c loc r : exists s, run f s (WTodo c loc r) = WDone (proc f r c loc).
Proof. apply (complete_wt f (WTodo c loc r)). Qed.

(* ---------- pruning ---------- *)
Definition agg_ok (f : flags) (n : onode) : Prop :=
  match n with
  | ONode KAgg i _ ks => agg_empty f ks = true -> is_true (i_enabled i) = false
  | _ => True
  end.

Definition good (f : flags) (t : onode) : Prop :=
  agg_ok f t /\ forall n, In n (desc t) -> node_enabled f n = true /\ agg_ok f n.

Lemma is_true_false : is_true s_false = false.
Proof. reflexivity. Qed.

Lemma desc_cons_in n ks m k i crit :
  n = ONode k i crit ks \/ (exists nm en, n = OIter nm en ks) ->
  In m (desc n) <-> exists x, In x ks /\ (m = x \/ In m (desc x)).
Proof.
  intros Hn.
  assert (E : desc n = flat_map (fun k => k :: desc k) ks).
  { destruct Hn as [->|[nm [en ->]]]; reflexivity. }
  rewrite E. rewrite in_flat_map. split.
  - intros [x [Hx Hm]]. exists x. split; [exact Hx|]. destruct Hm as [<-|Hm]; [left; reflexivity|right; exact Hm].
  - intros [x [Hx Hm]]. exists x. split; [exact Hx|]. destruct Hm as [->|Hm]; [left; reflexivity|right; exact Hm].
Qed.

Lemma good_filtered f ns (wrap : list onode -> onode) :
  (forall ks, (exists k i crit, wrap ks = ONode k i crit ks) \/ (exists nm en, wrap ks = OIter nm en ks)) ->
  (forall n, In n ns -> good f n) ->
  agg_ok f (wrap (filter (node_enabled f) ns)) ->
  good f (wrap (filter (node_enabled f) ns)).
Proof.
  intros Hwrap Hns Hok. split; [exact Hok|].
  intros m Hm.
  assert (Hd : exists x, In x (filter (node_enabled f) ns) /\ (m = x \/ In m (desc x))).
  { destruct (Hwrap (filter (node_enabled f) ns)) as [[k [i [crit E]]]|[nm [en E]]].
    - eapply (desc_cons_in _ _ m k i crit); [left; exact E|exact Hm].
    - eapply (desc_cons_in _ _ m KAgg (mkInfo [] [] [] [] [] []) false); [right; exists nm, en; exact E|exact Hm]. }
  destruct Hd as [x [Hx Hmx]]. apply filter_In in Hx. destruct Hx as [Hx1 Hx2].
  destruct (Hns x Hx1) as [Hxok Hxd].
  destruct Hmx as [->|Hmx]; [split; assumption|apply Hxd; exact Hmx].
Qed.

Lemma good_leaf f k i crit :
  (k = KAgg -> is_true (i_enabled i) = false) -> good f (ONode k i crit []).
Proof.
  intros Hk. split.
  - destruct k; cbn; try exact I. intros _. apply Hk. reflexivity.
  - intros n Hn. destruct Hn.
Qed.

Lemma proc_good f r : forall c loc t, proc f r c loc = Ok t -> good f t.
Proof.
  induction r as [fo k b kids IH] using role_ind'.
  assert (Hbody : forall c loc t, proc f (Role None k b kids) c loc = Ok t -> good f t).
  { intros c loc t. rewrite proc_none. destruct (own f c loc b) as [|i|i]; [discriminate| |].
    - intros E. inversion E; subst. apply good_leaf. intros ->. reflexivity.
    - destruct k.
      + intros E. inversion E; subst. apply good_leaf. discriminate.
      + intros E. inversion E; subst. apply good_leaf. discriminate.
      + unfold join_agg.
        destruct (all_ok (map (fun kid => proc f kid (child_ctx c i) []) kids)) as [ns|] eqn:Ea;
          [|discriminate].
        assert (Hns : forall n, In n ns -> good f n).
        { intros n Hn. destruct (all_ok_map_in _ _ _ _ Ea Hn) as [kid [Hkid Hp]].
          rewrite Forall_forall in IH. eapply IH; eassumption. }
        destruct (agg_empty f (filter (node_enabled f) ns)) eqn:Ee; intros E; inversion E; subst.
        * apply (good_filtered f ns (fun ks => ONode KAgg (set_enabled i s_false) (r_crit b) ks)).
          -- intros ks. left. exists KAgg, (set_enabled i s_false), (r_crit b). reflexivity.
          -- exact Hns.
          -- cbn. intros _. reflexivity.
        * apply (good_filtered f ns (fun ks => ONode KAgg i (r_crit b) ks)).
          -- intros ks. left. exists KAgg, i, (r_crit b). reflexivity.
          -- exact Hns.
          -- cbn. rewrite Ee. discriminate. }
  intros c loc t. destruct fo as [fs|]; [|apply Hbody].
  rewrite proc_for. destruct (range_vals (stack [] c) fs) as [vals|]; [|discriminate].
  unfold join_iter.
  destruct (all_ok (map (fun v => proc f (Role None k b kids) c [(f_var fs, v)]) vals)) as [ns|] eqn:Ea;
    [|discriminate].
  intros E. inversion E; subst.
  apply (good_filtered f ns (fun ks => OIter (show (r_name b)) (show (r_enabled b)) ks)).
  - intros ks. right. eexists. eexists. reflexivity.
  - intros n Hn. destruct (all_ok_map_in _ _ _ _ Ea Hn) as [v [Hv Hp]]. eapply Hbody. exact Hp.
  - exact I.
Qed.

(* every role below the root of a loaded tree is enabled *)
Lemma desc_enabled f r c loc t n :
  proc f r c loc = Ok t -> In n (desc t) -> node_enabled f n = true.
Proof. intros E Hn. destruct (proc_good f r c loc t E) as [_ H]. apply H. exact Hn. Qed.

(* no aggregator below the root is empty (in the flags' sense of empty) *)
Lemma desc_agg_nonempty f r c loc t i crit ks :
  proc f r c loc = Ok t -> In (ONode KAgg i crit ks) (desc t) -> agg_empty f ks = false.
Proof.
  intros E Hn. destruct (proc_good f r c loc t E) as [_ H].
  destruct (H _ Hn) as [Hen Hok]. cbn in Hen, Hok.
  destruct (agg_empty f ks); [|reflexivity]. rewrite (Hok eq_refl) in Hen. discriminate.
Qed.

(* a child whose `enabled` evaluates to something that is not true leaves nothing behind *)
Lemma disabled_child f k b kids c loc s :
  eval (stack loc c) (r_enabled b) = Some s -> is_true s = false ->
  exists n, proc f (Role None k b kids) c loc = Ok n /\ node_enabled f n = false /\ onode_kids n = [].
Proof.
  intros Ev Ht. rewrite proc_none. unfold own. rewrite Ev, Ht.
  eexists. split; [reflexivity|]. split; [|reflexivity].
  destruct k; cbn; try exact Ht. reflexivity.
Qed.

Lemma filter_drops {A} (p : A -> bool) l x : p x = false -> ~ In x (filter p l).
Proof. intros Hp Hin. apply filter_In in Hin. destruct Hin as [_ H]. congruence. Qed.

Lemma disabled_child_dropped f k b kids c loc s :
  eval (stack loc c) (r_enabled b) = Some s -> is_true s = false ->
  exists n, proc f (Role None k b kids) c loc = Ok n /\
            node_enabled f n = false /\ onode_kids n = [] /\
            forall ns, ~ In n (filter (node_enabled f) ns).
Proof.
  intros Ev Ht. destruct (disabled_child f k b kids c loc s Ev Ht) as [n [E [Hd Hk]]].
  exists n. split; [exact E|]. split; [exact Hd|]. split; [exact Hk|].
  intros ns. apply filter_drops. exact Hd.
Qed.

(* children of an aggregator: exactly the enabled results of its child templates, in order *)
Lemma agg_children f b kids c loc s i t :
  eval (stack loc c) (r_enabled b) = Some s -> is_true s = true -> stages c loc b s = Some i ->
  proc f (Role None KAgg b kids) c loc = Ok t ->
  exists ns, Forall2 (fun kid n => proc f kid (child_ctx c i) [] = Ok n) kids ns /\
             (t = ONode KAgg i (r_crit b) (filter (node_enabled f) ns) \/
              (agg_empty f (filter (node_enabled f) ns) = true /\
               t = ONode KAgg (set_enabled i s_false) (r_crit b) (filter (node_enabled f) ns))).
Proof.
  intros Ev Ht Hs. rewrite proc_none. unfold own. rewrite Ev, Ht, Hs. unfold join_agg.
  destruct (all_ok (map (fun kid => proc f kid (child_ctx c i) []) kids)) as [ns|] eqn:Ea;
    [|discriminate].
  intros E. exists ns. split; [apply all_ok_map_F2; exact Ea|].
  destruct (agg_empty f (filter (node_enabled f) ns)) eqn:Ee; inversion E; subst.
  - right. split; reflexivity.
  - left. reflexivity.
Qed.

(* visibly empty aggregators: ruled out when every surviving iterator container has a child *)
Lemma visible_nonempty n : containers_nonempty n = true -> visible n <> [].
Proof.
  induction n as [k i crit ks IH|nm en ks IH] using onode_ind'; intros Hc.
  - discriminate.
  - cbn in Hc. apply andb_true_iff in Hc. destruct Hc as [Hne Hall].
    destruct ks as [|x ks]; [discriminate|]. cbn in Hall. apply andb_true_iff in Hall.
    destruct Hall as [Hx _]. inversion IH as [|? ? IHx _]; subst.
    cbn. intros C. apply app_eq_nil in C. destruct C as [C _]. exact (IHx Hx C).
Qed.

(* ---------- iterators ---------- *)
Lemma iterator_exact f fs k b kids c loc n :
  proc f (Role (Some fs) k b kids) c loc = Ok n ->
  exists vals ns,
    range_vals (stack [] c) fs = Some vals /\
    Forall2 (fun v m => proc f (Role None k b kids) c [(f_var fs, v)] = Ok m) vals ns /\
    n = OIter (show (r_name b)) (show (r_enabled b)) (filter (node_enabled f) ns).
Proof.
  rewrite proc_for. destruct (range_vals (stack [] c) fs) as [vals|]; [|discriminate].
  unfold join_iter.
  destruct (all_ok (map (fun v => proc f (Role None k b kids) c [(f_var fs, v)]) vals)) as [ns|] eqn:Ea;
    [|discriminate].
  intros E. inversion E; subst. exists vals, ns. split; [reflexivity|].
  split; [apply all_ok_map_F2; exact Ea|reflexivity].
Qed.

Lemma filter_all {A} (p : A -> bool) l : (forall x, In x l -> p x = true) -> filter p l = l.
Proof.
  induction l as [|x l IH]; intros H; [reflexivity|]. cbn.
  rewrite (H x (or_introl eq_refl)). f_equal. apply IH. intros y Hy. apply H. right. exact Hy.
Qed.

Lemma filter_none {A} (p : A -> bool) l : (forall x, In x l -> p x = false) -> filter p l = [].
Proof.
  induction l as [|x l IH]; intros H; [reflexivity|]. cbn.
  rewrite (H x (or_introl eq_refl)). apply IH. intros y Hy. apply H. right. exact Hy.
Qed.

Lemma stages_vars c loc b en i :
  stages c loc b en = Some i -> exists V1, i_vars i = loc ++ V1.
Proof.
  unfold stages. destruct (evalmap (stack loc c) (r_defaults b)) as [D1|]; [|discriminate].
  destruct (evalmap _ (r_vars b)) as [V1|]; [|discriminate].
  destruct (eval _ (r_name b)); [|discriminate].
  destruct (evalmap _ (r_s4 b)); [|discriminate].
  destruct (evalmap _ (r_s5 b)); [|discriminate].
  intros E. inversion E; subst. exists V1. reflexivity.
Qed.

(* the copy generated for element v carries the iteration variable bound to v *)
Lemma copy_binds f k b kids c x v n :
  proc f (Role None k b kids) c [(x, v)] = Ok n ->
  exists k' i crit ks, n = ONode k' i crit ks /\ assoc x (i_vars i) = Some v.
Proof.
  rewrite proc_none. unfold own.
  assert (Hraw : forall en, assoc x (i_vars (raw_info [(x, v)] b en)) = Some v).
  { intros en. cbn. rewrite str_eqb_refl. reflexivity. }
  assert (Hst : forall en i, stages c [(x, v)] b en = Some i -> assoc x (i_vars i) = Some v).
  { intros en i Hs. destruct (stages_vars _ _ _ _ _ Hs) as [V1 ->]. cbn. rewrite str_eqb_refl. reflexivity. }
  destruct (eval (stack [(x, v)] c) (r_enabled b)) as [s|].
  - destruct (is_true s).
    + destruct (stages c [(x, v)] b s) as [i|] eqn:Hs; [|discriminate].
      pose proof (Hst _ _ Hs) as Hi.
      destruct k.
      * intros E. inversion E; subst. do 4 eexists. split; [reflexivity|]. exact Hi.
      * intros E. inversion E; subst. do 4 eexists. split; [reflexivity|]. exact Hi.
      * unfold join_agg. destruct (all_ok _) as [ns|]; [|discriminate].
        destruct (agg_empty f _); intros E; inversion E; subst;
          do 4 eexists; (split; [reflexivity|]); exact Hi.
    + intros E. inversion E; subst. do 4 eexists. split; [reflexivity|].
      destruct k; apply Hraw.
  - destruct (fl_mask f); [|discriminate].
    intros E. inversion E; subst. do 4 eexists. split; [reflexivity|].
    destruct k; apply Hraw.
Qed.

(* a literal `enabled` evaluates to its own text *)
Lemma eval_literal e t : literal t = true -> eval e t = Some (show t).
Proof.
  induction t as [|p t IH]; cbn; intros H; [reflexivity|].
  apply andb_true_iff in H. destruct H as [Hp Ht]. destruct p; try discriminate.
  cbn. unfold show in IH. rewrite (IH Ht). reflexivity.
Qed.

(* the parent's filter keeps every iterator container (repair of C15-b) *)
Lemma iterator_kept fs k b kids c loc n :
  proc coded (Role (Some fs) k b kids) c loc = Ok n -> node_enabled coded n = true.
Proof.
  intros E. destruct (iterator_exact _ _ _ _ _ _ _ _ E) as [vals [ns [_ [_ ->]]]]. reflexivity.
Qed.

(* ---------- template errors ---------- *)
Lemma terr_fails f we c loc r :
  terr we c loc r -> (we = true -> fl_mask f = false) -> proc f r c loc = Err.
Proof.
  intros T Hm. induction T as
      [c loc fs k b kids Hr
      |c loc fs k b kids vals v Hr Hv T IH
      |c loc k b kids Hwe He
      |c loc k b kids s He Ht Hs
      |c loc b kids s i kid He Ht Hs Hkid T IH].
  - rewrite proc_for, Hr. reflexivity.
  - rewrite proc_for, Hr. unfold join_iter.
    rewrite (all_ok_map_err _ vals v Hv IH). reflexivity.
  - rewrite proc_none. unfold own. rewrite He, (Hm Hwe). reflexivity.
  - rewrite proc_none. unfold own. rewrite He, Ht, Hs. reflexivity.
  - rewrite proc_none. unfold own. rewrite He, Ht, Hs. unfold join_agg.
    rewrite (all_ok_map_err _ kids kid Hkid IH). reflexivity.
Qed.

Lemma fails_terr f r : forall c loc, proc f r c loc = Err -> terr (negb (fl_mask f)) c loc r.
Proof.
  induction r as [fo k b kids IH] using role_ind'.
  assert (Hbody : forall c loc, proc f (Role None k b kids) c loc = Err ->
                                terr (negb (fl_mask f)) c loc (Role None k b kids)).
  { intros c loc. rewrite proc_none. unfold own.
    destruct (eval (stack loc c) (r_enabled b)) as [s|] eqn:He.
    - destruct (is_true s) eqn:Ht; [|discriminate].
      destruct (stages c loc b s) as [i|] eqn:Hs.
      + destruct k; try discriminate. unfold join_agg.
        destruct (all_ok (map (fun kid => proc f kid (child_ctx c i) []) kids)) as [ns|] eqn:Ea.
        * destruct (agg_empty f _); discriminate.
        * intros _. destruct (all_ok_map_none_inv _ _ Ea) as [kid [Hkid Hp]].
          rewrite Forall_forall in IH.
          eapply TE_kid; try eassumption. apply IH; assumption.
      + intros _. eapply TE_field; eassumption.
    - destruct (fl_mask f) eqn:Hm; [discriminate|].
      intros _. apply TE_enabled; [reflexivity|exact He]. }
  intros c loc. destruct fo as [fs|]; [|apply Hbody].
  rewrite proc_for. destruct (range_vals (stack [] c) fs) as [vals|] eqn:Hr.
  - unfold join_iter.
    destruct (all_ok (map (fun v => proc f (Role None k b kids) c [(f_var fs, v)]) vals)) as [ns|] eqn:Ea;
      [discriminate|].
    intros _. destruct (all_ok_map_none_inv _ _ Ea) as [v [Hv Hp]].
    eapply TE_elem; try eassumption. apply Hbody. exact Hp.
  - intros _. apply TE_range. exact Hr.
Qed.

Lemma load_fails_iff c r : load c r = Err <-> terr true c [] r.
Proof.
  split.
  - intros E. apply (fails_terr coded r c [] E).
  - intros T. apply (terr_fails coded true c [] r T). reflexivity.
Qed.

(* the loader before the repair of C15-a failed exactly on the errors outside `enabled` *)
Lemma legacy_fails_iff c r : proc legacy r c [] = Err <-> terr false c [] r.
Proof.
  split.
  - intros E. apply (fails_terr legacy r c [] E).
  - intros T. apply (terr_fails legacy false c [] r T). discriminate.
Qed.

(* ---------- witnesses of the clauses that the loader violated before the repairs ---------- *)
Definition lit (s : str) : texpr := [PLit s].
Definition base0 (name : str) (en : texpr) : rbase :=
  mkBase (lit name) en [] [] [] [] true.
Definition kx : str := [120].           (* x *)
Definition va : str := [97].            (* a *)
Definition ctx_xa : ctx := mkCtx [] [(kx, va)] [].
Definition task_ok (name : str) : role := Role None KTask (base0 name (lit s_true)) [].

(* C15-a: root { t1: enabled "{{ 1 + }}" ; t2 } *)
Definition wit_masked : role :=
  Role None KAgg (base0 [114] (lit s_true))
       [Role None KTask (base0 [116;49] [PBad 0]) []; task_ok [116;50]].

(* C15-b: root { i{{it}}: for it in ["p"], enabled "{{ x == 'a' }}" ; t2 } with x = a *)
Definition wit_iter : role :=
  Role (Some (mkFor (RExpr (lit [91;34;112;34;93])) [105;116])) KTask
       (mkBase [PLit [105]; PVar [105;116]] [PEq kx va] [] [] [] [] true) [].
Definition wit_iter_root : role :=
  Role None KAgg (base0 [114] (lit s_true)) [wit_iter; task_ok [116;50]].

(* C15-d: root { t2 ; g { e{{it}}: for it in [] } } *)
Definition wit_empty : role :=
  Role None KAgg (base0 [114] (lit s_true))
       [task_ok [116;50];
        Role None KAgg (base0 [103] (lit s_true))
             [Role (Some (mkFor (RExpr (lit [91;93])) [105;116])) KTask
                   (mkBase [PLit [101]; PVar [105;116]] (lit s_true) [] [] [] [] true) []]].

Definition ctx0 : ctx := mkCtx [] [] [].

(* the full statements (refuted by the loader before the repairs of C15-a, C15-b, C15-d) *)
Definition error_fails_statement : Prop :=
  forall c r, terr true c [] r -> load c r = Err.
Definition iterator_enabled_statement : Prop :=
  forall c fs k b kids n,
    proc coded (Role (Some fs) k b kids) c [] = Ok n -> onode_kids n <> [] ->
    node_enabled coded n = true.
Definition no_visibly_empty_statement : Prop :=
  forall c r t i crit ks,
    load c r = Ok t -> In (ONode KAgg i crit ks) (desc t) -> flat_map visible ks <> [].

Lemma wit_masked_terr : terr true ctx0 [] wit_masked.
Proof.
  unfold wit_masked. eapply TE_kid with (s := s_true).
  - reflexivity.
  - reflexivity.
  - reflexivity.
  - left. reflexivity.
  - apply TE_enabled; reflexivity.
Qed.

(* the three witnesses: what the loader did before the repairs, and what it does now *)
Lemma wit_masked_legacy_loads :
  exists t, proc legacy wit_masked ctx0 [] = Ok t /\ length (flat_map visible (onode_kids t)) = 1%nat.
Proof. vm_compute. eexists. split; reflexivity. Qed.

Lemma wit_masked_fails : load ctx0 wit_masked = Err.
Proof. reflexivity. Qed.

Lemma error_fails_holds : error_fails_statement.
Proof. intros c r T. apply load_fails_iff. exact T. Qed.

Lemma legacy_error_masked :
  exists c r, terr true c [] r /\ exists t, proc legacy r c [] = Ok t.
Proof.
  exists ctx0, wit_masked. split; [exact wit_masked_terr|].
  destruct wit_masked_legacy_loads as [t [E _]]. exists t. exact E.
Qed.

Lemma iterator_enabled_holds : iterator_enabled_statement.
Proof. intros c fs k b kids n E _. exact (iterator_kept _ _ _ _ _ _ _ E). Qed.

Lemma legacy_iterator_dropped :
  exists n, proc legacy wit_iter ctx_xa [] = Ok n /\ onode_kids n <> [] /\
            node_enabled legacy n = false.
Proof. vm_compute. eexists. split; [reflexivity|]. split; [discriminate|reflexivity]. Qed.

(* the same witness seen from the root: before the repair the element for which `enabled` is
   true was missing *)
Lemma iterator_enabled_witness :
  exists t, load ctx_xa wit_iter_root = Ok t /\
            length (flat_map visible (onode_kids t)) = 2%nat /\
            exists t', proc legacy wit_iter_root ctx_xa [] = Ok t' /\
                       length (flat_map visible (onode_kids t')) = 1%nat.
Proof.
  vm_compute. eexists. split; [reflexivity|]. split; [reflexivity|].
  eexists. split; reflexivity.
Qed.

(* no aggregator below the root is left without a visible role (repair of C15-d) *)
Lemma no_visibly_empty_holds : no_visibly_empty_statement.
Proof.
  intros c r t i crit ks E Hn. pose proof (desc_agg_nonempty coded r c [] t i crit ks E Hn) as Hne.
  cbn in Hne. intros C. rewrite C in Hne. discriminate.
Qed.

Lemma legacy_visibly_empty :
  exists t i crit ks, proc legacy wit_empty ctx0 [] = Ok t /\
                      In (ONode KAgg i crit ks) (desc t) /\ flat_map visible ks = [].
Proof.
  vm_compute. do 4 eexists. split; [reflexivity|]. split; [right; left; reflexivity|reflexivity].
Qed.

Lemma wit_empty_pruned :
  exists t, load ctx0 wit_empty = Ok t /\ length (desc t) = 1%nat.
Proof. vm_compute. eexists. split; reflexivity. Qed.

Lemma coded_no_bare_aggregator r c loc t i crit ks :
  proc coded r c loc = Ok t -> In (ONode KAgg i crit ks) (desc t) -> ks <> [].
Proof.
  intros E Hn. pose proof (desc_agg_nonempty coded r c loc t i crit ks E Hn) as Hne.
  cbn in Hne. intros C. rewrite C in Hne. discriminate.
Qed.

(* one child per element when no copy is disabled *)
Lemma iterator_count f fs k b kids c loc n :
  proc f (Role (Some fs) k b kids) c loc = Ok n ->
  exists vals ns,
    range_vals (stack [] c) fs = Some vals /\
    Forall2 (fun v m => proc f (Role None k b kids) c [(f_var fs, v)] = Ok m) vals ns /\
    ((forall m, In m ns -> node_enabled f m = true) ->
     onode_kids n = ns /\ length (onode_kids n) = length vals).
Proof.
  intros E. destruct (iterator_exact _ _ _ _ _ _ _ _ E) as [vals [ns [Hr [HF ->]]]].
  exists vals, ns. split; [exact Hr|]. split; [exact HF|].
  intros Hall. cbn [onode_kids]. rewrite (filter_all _ _ Hall).
  split; [reflexivity|]. clear -HF. induction HF as [|v m vals ns _ HF IH]; [reflexivity|].
  cbn. rewrite IH. reflexivity.
Qed.

(* ---------- nesting: iterators inside the templates of iterators, at any depth ---------- *)
Lemma all_ok_map_ok {A} (g : A -> res) l ns x :
  all_ok (map g l) = Some ns -> In x l -> exists n, In n ns /\ g x = Ok n.
Proof.
  intros E Hin. apply all_ok_map_F2 in E.
  induction E as [|y m l ns Hy E IH]; [destruct Hin|].
  destruct Hin as [->|Hin].
  - exists m. split; [left; reflexivity|exact Hy].
  - destruct (IH Hin) as [n [Hn1 Hn2]]. exists n. split; [right; exact Hn1|exact Hn2].
Qed.

(* a load that succeeds has processed every occurrence successfully *)
Lemma occ_proc_ok f c loc r c' loc' r' :
  occ c loc r c' loc' r' -> forall t, proc f r c loc = Ok t -> exists n', proc f r' c' loc' = Ok n'.
Proof.
  intros O. induction O as
      [c loc r
      |c loc fs k b kids vals v c' loc' r' Hr Hv O IH
      |c loc b kids s i kid c' loc' r' He Ht Hs Hkid O IH]; intros t E.
  - exists t. exact E.
  - rewrite proc_for, Hr in E. unfold join_iter in E.
    destruct (all_ok (map (fun v => proc f (Role None k b kids) c [(f_var fs, v)]) vals)) as [ns|] eqn:Ea;
      [|discriminate].
    destruct (all_ok_map_ok _ _ _ _ Ea Hv) as [m [_ Hm]]. exact (IH m Hm).
  - rewrite proc_none in E. unfold own in E. rewrite He, Ht, Hs in E. unfold join_agg in E.
    destruct (all_ok (map (fun kid => proc f kid (child_ctx c i) []) kids)) as [ns|] eqn:Ea;
      [|discriminate].
    destruct (all_ok_map_ok _ _ _ _ Ea Hkid) as [m [_ Hm]]. exact (IH m Hm).
Qed.

(* every iterator occurrence of a successful load — whatever the depth, whatever encloses it —
   expands to exactly one copy per element of its range as evaluated in the scope of that
   occurrence, in order, the disabled copies filtered *)
Lemma nested_iterator_exact f c loc r t c' loc' fs k b kids :
  proc f r c loc = Ok t -> occ c loc r c' loc' (Role (Some fs) k b kids) ->
  exists vals ns,
    range_vals (stack [] c') fs = Some vals /\
    Forall2 (fun v m => proc f (Role None k b kids) c' [(f_var fs, v)] = Ok m) vals ns /\
    proc f (Role (Some fs) k b kids) c' loc' =
    Ok (OIter (show (r_name b)) (show (r_enabled b)) (filter (node_enabled f) ns)).
Proof.
  intros E O. destruct (occ_proc_ok f _ _ _ _ _ _ O t E) as [n' En].
  destruct (iterator_exact _ _ _ _ _ _ _ _ En) as [vals [ns [Hr [HF ->]]]].
  exists vals, ns. split; [exact Hr|]. split; [exact HF|exact En].
Qed.

Lemma nested_iterator_count f c loc r t c' loc' fs k b kids :
  proc f r c loc = Ok t -> occ c loc r c' loc' (Role (Some fs) k b kids) ->
  exists vals ns n,
    range_vals (stack [] c') fs = Some vals /\
    Forall2 (fun v m => proc f (Role None k b kids) c' [(f_var fs, v)] = Ok m) vals ns /\
    proc f (Role (Some fs) k b kids) c' loc' = Ok n /\
    ((forall m, In m ns -> node_enabled f m = true) ->
     onode_kids n = ns /\ length (onode_kids n) = length vals).
Proof.
  intros E O. destruct (occ_proc_ok f _ _ _ _ _ _ O t E) as [n' En].
  destruct (iterator_count _ _ _ _ _ _ _ _ En) as [vals [ns [Hr [HF Hc]]]].
  exists vals, ns, n'. split; [exact Hr|]. split; [exact HF|]. split; [exact En|exact Hc].
Qed.

Lemma occ_trans c1 l1 r1 c2 l2 r2 c3 l3 r3 :
  occ c1 l1 r1 c2 l2 r2 -> occ c2 l2 r2 c3 l3 r3 -> occ c1 l1 r1 c3 l3 r3.
Proof.
  intros O1 O2. induction O1 as
      [c loc r
      |c loc fs k b kids vals v c' loc' r' Hr Hv O IH
      |c loc b kids s i kid c' loc' r' He Ht Hs Hkid O IH].
  - exact O2.
  - eapply Occ_elem; try eassumption. apply IH. exact O2.
  - eapply Occ_kid; try eassumption. apply IH. exact O2.
Qed.

Lemma in_nodes_kids n ks m k i crit :
  n = ONode k i crit ks \/ (exists nm en, n = OIter nm en ks) ->
  In m (desc n) <-> exists x, In x ks /\ In m (nodes x).
Proof.
  intros Hn. rewrite (desc_cons_in n ks m k i crit Hn). unfold nodes. split.
  - intros [x [Hx [->|Hm]]]; exists x; (split; [exact Hx|]); [left; reflexivity|right; exact Hm].
  - intros [x [Hx [<-|Hm]]]; exists x; (split; [exact Hx|]); [left; reflexivity|right; exact Hm].
Qed.

Lemma own_ok_inv f c loc b i :
  own f c loc b = OwnOk i ->
  exists s, eval (stack loc c) (r_enabled b) = Some s /\ is_true s = true /\ stages c loc b s = Some i.
Proof.
  unfold own. destruct (eval (stack loc c) (r_enabled b)) as [s|].
  - destruct (is_true s) eqn:Ht; [|discriminate].
    destruct (stages c loc b s) as [i'|] eqn:Hs; [|discriminate].
    intros E. inversion E; subst. exists s. repeat split; assumption.
  - destruct (fl_mask f); discriminate.
Qed.

(* the other direction, anchored in the loaded tree: every iterator container anywhere in the
   tree is the expansion of a live iterator occurrence; it holds exactly the enabled copies, one
   per element of the range evaluated under the maps of that occurrence *)
Definition container_spec (f : flags) (c : ctx) (loc : env) (r : role) (nm en : str) (ks : list onode) : Prop :=
  exists c' loc' fs k b kids vals ns,
    occ c loc r c' loc' (Role (Some fs) k b kids) /\
    range_vals (stack [] c') fs = Some vals /\
    Forall2 (fun v m => proc f (Role None k b kids) c' [(f_var fs, v)] = Ok m) vals ns /\
    nm = show (r_name b) /\ en = show (r_enabled b) /\ ks = filter (node_enabled f) ns.

Lemma container_spec_under f c loc r c1 l1 r1 nm en ks :
  occ c loc r c1 l1 r1 -> container_spec f c1 l1 r1 nm en ks -> container_spec f c loc r nm en ks.
Proof.
  intros O [c' [loc' [fs [k [b [kids [vals [ns [O2 H]]]]]]]]].
  exists c', loc', fs, k, b, kids, vals, ns. split; [|exact H].
  eapply occ_trans; eassumption.
Qed.

Lemma containers_sound f r : forall c loc t nm en ks,
  proc f r c loc = Ok t -> In (OIter nm en ks) (nodes t) -> container_spec f c loc r nm en ks.
Proof.
  induction r as [fo k b kids IH] using role_ind'.
  assert (Hbody : forall c loc t nm en ks,
             proc f (Role None k b kids) c loc = Ok t -> In (OIter nm en ks) (nodes t) ->
             container_spec f c loc (Role None k b kids) nm en ks).
  { intros c loc t nm en ks. rewrite proc_none.
    destruct (own f c loc b) as [|i|i] eqn:Eo; [discriminate| |].
    - intros E Hin. inversion E; subst. destruct Hin as [C|[]]. discriminate.
    - destruct k.
      + intros E Hin. inversion E; subst. destruct Hin as [C|[]]. discriminate.
      + intros E Hin. inversion E; subst. destruct Hin as [C|[]]. discriminate.
      + unfold join_agg.
        destruct (all_ok (map (fun kid => proc f kid (child_ctx c i) []) kids)) as [ns|] eqn:Ea;
          [|discriminate].
        destruct (own_ok_inv _ _ _ _ _ Eo) as [s [He [Ht Hs]]].
        assert (Hk : forall i', In (OIter nm en ks) (desc (ONode KAgg i' (r_crit b) (filter (node_enabled f) ns))) ->
                           container_spec f c loc (Role None KAgg b kids) nm en ks).
        { intros i' Hin.
          apply (in_nodes_kids _ (filter (node_enabled f) ns) _ KAgg i' (r_crit b)) in Hin;
            [|left; reflexivity].
          destruct Hin as [x [Hx Hm]]. apply filter_In in Hx. destruct Hx as [Hx _].
          destruct (all_ok_map_in _ _ _ _ Ea Hx) as [kid [Hkid Hp]].
          rewrite Forall_forall in IH.
          eapply container_spec_under; [|eapply IH; eassumption].
          eapply Occ_kid; try eassumption. apply Occ_here. }
        destruct (agg_empty f (filter (node_enabled f) ns)) eqn:Ee; intros E Hin; inversion E; subst.
        * destruct Hin as [C|Hin]; [discriminate|]. exact (Hk _ Hin).
        * destruct Hin as [C|Hin]; [discriminate|]. exact (Hk _ Hin). }
  intros c loc t nm en ks. destruct fo as [fs|]; [|apply Hbody].
  intros E Hin. destruct (iterator_exact _ _ _ _ _ _ _ _ E) as [vals [ns [Hr [HF ->]]]].
  destruct Hin as [C|Hin].
  - inversion C; subst. exists c, loc, fs, k, b, kids, vals, ns.
    split; [apply Occ_here|]. repeat split; assumption.
  - apply (in_nodes_kids _ (filter (node_enabled f) ns) _ KAgg (mkInfo [] [] [] [] [] []) false) in Hin;
      [|right; eexists; eexists; reflexivity].
    destruct Hin as [x [Hx Hm]]. apply filter_In in Hx. destruct Hx as [Hx _].
    assert (Hv : exists v, In v vals /\ proc f (Role None k b kids) c [(f_var fs, v)] = Ok x).
    { clear -HF Hx. induction HF as [|v m' vals ns Hv HF IH]; [destruct Hx|].
      destruct Hx as [->|Hx].
      - exists v. split; [left; reflexivity|exact Hv].
      - destruct (IH Hx) as [w [Hw1 Hw2]]. exists w. split; [right; exact Hw1|exact Hw2]. }
    destruct Hv as [v [Hv Hp]].
    eapply container_spec_under; [|eapply Hbody; eassumption].
    eapply Occ_elem; try eassumption. apply Occ_here.
Qed.

(* the scope in which the ranges (and all fields) of the roles inside a copy are evaluated binds
   the iteration variable of the copy to its element *)
Lemma assoc_app {V} k (a b : list (str * V)) :
  assoc k (a ++ b) = match assoc k a with Some v => Some v | None => assoc k b end.
Proof.
  induction a as [|[k' v'] a IH]; [reflexivity|]. cbn. destruct (str_eqb k k'); [reflexivity|exact IH].
Qed.

Lemma stages_vars_eq c loc b en i :
  stages c loc b en = Some i ->
  exists D1 V1, evalmap (loc ++ cU c ++ cV c ++ (D1 ++ cD c)) (r_vars b) = Some V1 /\
                i_vars i = loc ++ V1.
Proof.
  unfold stages. destruct (evalmap (stack loc c) (r_defaults b)) as [D1|]; [|discriminate].
  destruct (evalmap _ (r_vars b)) as [V1|] eqn:EV; [|discriminate].
  destruct (eval _ (r_name b)); [|discriminate].
  destruct (evalmap _ (r_s4 b)); [|discriminate].
  destruct (evalmap _ (r_s5 b)); [|discriminate].
  intros E. inversion E; subst. exists D1, V1. split; [exact EV|reflexivity].
Qed.

Lemma evalmap_assoc_none e m m' x :
  evalmap e m = Some m' -> assoc x m = None -> assoc x m' = None.
Proof.
  revert m'. induction m as [|[k t] m IH]; cbn; intros m' E Hx.
  - inversion E. reflexivity.
  - destruct (eval e t) as [v|]; [|discriminate].
    destruct (evalmap e m) as [r'|]; [|discriminate].
    inversion E; subst. cbn. destruct (str_eqb x k); [discriminate|]. apply IH; [reflexivity|exact Hx].
Qed.

Lemma eval_var e x v : assoc x e = Some v -> eval e [PVar x] = Some v.
Proof. intros H. cbn. rewrite H. rewrite app_nil_r. reflexivity. Qed.

Lemma scope_var c x v :
  assoc x (cU c) = None -> assoc x (cV c) = Some v -> eval (stack [] c) [PVar x] = Some v.
Proof.
  intros Hu Hv. apply eval_var. unfold stack. cbn [app]. rewrite assoc_app, Hu, assoc_app, Hv. reflexivity.
Qed.

Lemma copy_scope c x v b s i :
  stages c [(x, v)] b s = Some i -> assoc x (cU c) = None ->
  assoc x (cV (child_ctx c i)) = Some v /\ assoc x (cU (child_ctx c i)) = None /\
  eval (stack [] (child_ctx c i)) [PVar x] = Some v.
Proof.
  intros Hs Hu. destruct (stages_vars _ _ _ _ _ Hs) as [V1 HV].
  assert (A : assoc x (cV (child_ctx c i)) = Some v).
  { unfold child_ctx. cbn [cV]. rewrite HV. cbn. rewrite str_eqb_refl. reflexivity. }
  split; [exact A|]. split; [exact Hu|]. apply scope_var; [exact Hu|exact A].
Qed.

(* ... and the binding passes through every role below that does not define the name *)
Lemma scope_inherited c loc x v b s i :
  assoc x (cV c) = Some v -> assoc x (cU c) = None ->
  assoc x loc = None -> assoc x (r_vars b) = None ->
  stages c loc b s = Some i ->
  assoc x (cV (child_ctx c i)) = Some v /\ assoc x (cU (child_ctx c i)) = None /\
  eval (stack [] (child_ctx c i)) [PVar x] = Some v.
Proof.
  intros Hx Hu Hl Hv Hs. destruct (stages_vars_eq _ _ _ _ _ Hs) as [D1 [V1 [EV HV]]].
  assert (A : assoc x (cV (child_ctx c i)) = Some v).
  { unfold child_ctx. cbn [cV]. rewrite HV. rewrite !assoc_app. rewrite Hl.
    rewrite (evalmap_assoc_none _ _ _ x EV Hv). exact Hx. }
  split; [exact A|]. split; [exact Hu|]. apply scope_var; [exact Hu|exact A].
Qed.

(* the template of the seeded example: host{{it}} for it in 1..3 [ worker{{jt}} for jt in 1..{{it}} ] *)
Definition s_it : str := [105;116].
Definition s_jt : str := [106;116].
Definition ex_nested : role :=
  Role None KAgg (base0 [114] (lit s_true))
    [Role (Some (mkFor (RBeginEnd (lit [49]) (lit [51])) s_it)) KAgg
          (mkBase [PLit [104]; PVar s_it] (lit s_true) [] [] [] [] false)
          [Role (Some (mkFor (RBeginEnd (lit [49]) [PVar s_it]) s_jt)) KTask
                (mkBase [PLit [119]; PVar s_jt] (lit s_true) [] [] [] [] true) []]].

Lemma ex_nested_loads :
  exists t, load ctx0 ex_nested = Ok t /\ profile t = [3; 1; 2; 3] /\
            length (flat_map visible (onode_kids t)) = 3%nat /\ length (flat t) = 1%nat /\
            vis_count t = 10%nat.
Proof. vm_compute. eexists. repeat split; reflexivity. Qed.


(* a concrete template, its load, and two complete schedules (left-to-right, right-to-left) *)
Definition ex_role : role :=
  Role None KAgg (mkBase (lit [114]) (lit s_true) [([100], [PLit [68]; PVar kx])] [] [] [] false)
       [Role (Some (mkFor (RExpr (lit [91;34;112;34;44;34;113;34;93])) [105;116])) KAgg
             (mkBase [PLit [105]; PVar [105;116]] (lit s_true) [] [([119], [PVar [105;116]])] [] [] false)
             [task_ok [99]; Role None KTask (base0 [122] [PNe kx va]) []];
        Role None KCall (base0 [104] [PEq kx va]) []].
Definition ex_sched_lr : schedule :=
  [[]; [0]; [0;0]; [0;0;0]; [0;0;1]; [0;0]; [0;1]; [0;1;0]; [0;1;1]; [0;1]; [0]; [1]; []]%nat.
Definition ex_sched_rl : schedule :=
  [[]; [1]; [0]; [0;1]; [0;0]; [0;1;1]; [0;0;1]; [0;1;0]; [0;0;0]; [0;1]; [0;0]; [0]; []]%nat.

(* the stage assignment found in the source is the one the model implements *)
Lemma stages_as_modelled :
  load_stage_table = model_stage_table /\ load_stage_count = model_stage_count /\
  load_disabled_check_stage = model_disabled_check_stage.
Proof. repeat split; reflexivity. Qed.

(* under every schedule a live template error (other than in `enabled`) fails the load *)
Lemma error_fails_every_schedule c r s o :
  terr true c [] r -> run coded s (WTodo c [] r) = WDone o -> o = Err.
Proof.
  intros T E. rewrite (schedule_independent coded c [] r s o E).
  apply (terr_fails coded true c [] r T). reflexivity.
Qed.

(* ---------- histories: a load does not depend on what the process loaded before ---------- *)
Definition load_of (cr : ctx * role) : res := load (fst cr) (snd cr).

Lemma history_independent ss : forall h outs,
  run_history ss h = Some outs -> outs = map load_of h.
Proof.
  induction ss as [|s ss IH]; intros h outs E.
  - destruct h as [|[c r] h]; cbn in E; [inversion E; reflexivity|discriminate].
  - destruct h as [|[c r] h]; cbn [run_history] in E; [inversion E; reflexivity|].
    destruct (run coded s (WTodo c [] r)) as [| | |o] eqn:Er; try discriminate.
    destruct (run_history ss h) as [t|] eqn:Eh; [|discriminate].
    inversion E; subst. cbn [map]. f_equal.
    + apply (schedule_independent coded c [] r s o Er).
    + apply IH. exact Eh.
Qed.

(* whatever was loaded before, under whatever schedules: the last load of two histories that end
   with the same template and variables gives the same result *)
Lemma history_prefix_irrelevant ss1 ss2 h1 h2 c r outs1 outs2 :
  run_history ss1 (h1 ++ [(c, r)]) = Some outs1 ->
  run_history ss2 (h2 ++ [(c, r)]) = Some outs2 ->
  last outs1 Err = load c r /\ last outs2 Err = load c r.
Proof.
  intros E1 E2. apply history_independent in E1. apply history_independent in E2.
  subst. rewrite !map_app. cbn [map]. rewrite !last_last. split; reflexivity.
Qed.

(* every history can be run: the sequential loader finishes each load *)
Lemma history_complete h : exists ss, run_history ss h = Some (map load_of h).
Proof.
  induction h as [|[c r] h [ss IH]].
  - exists []. reflexivity.
  - destruct (schedule_complete coded c [] r) as [s Hs]. exists (s :: ss).
    cbn [run_history]. rewrite Hs, IH. reflexivity.
Qed.
