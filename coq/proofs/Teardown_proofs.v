(* Lemmas about model/Teardown.v: frame properties of the requests (C04), invariants of the
   reachable states, post-conditions of teardown / failed creation (C06). *)
From Verif Require Import Common Ownership Ownership_proofs Teardown.
Open Scope N_scope.

(* ------------------------------------------------------------------ small list facts *)
Lemma nodup_map_inj {A B} (f : A -> B) (l : list A) a b :
  NoDup (map f l) -> In a l -> In b l -> f a = f b -> a = b.
Proof.
  induction l as [|x l IH]; cbn [map In]; [tauto|].
  intros H Ha Hb E. inversion H as [|y m Hnin Hnd]; subst.
  destruct Ha as [->|Ha], Hb as [->|Hb]; auto.
  - exfalso. apply Hnin. rewrite E. apply in_map, Hb.
  - exfalso. apply Hnin. rewrite <- E. apply in_map, Ha.
Qed.

Lemma find_env_In e l x : find_env e l = Some x -> In x l /\ e_id x = e.
Proof.
  unfold find_env. intro H. apply find_some in H. destruct H as [H1 H2].
  split; [exact H1|apply N.eqb_eq, H2].
Qed.

Lemma find_env_None e l : find_env e l = None -> forall x, In x l -> e_id x <> e.
Proof.
  unfold find_env. intros H x Hx E. apply (find_none _ _ H) in Hx. apply N.eqb_neq in Hx. contradiction.
Qed.

Lemma find_env_remove e l : find_env e (remove_env e l) = None.
Proof.
  unfold find_env, remove_env. induction l as [|x l IH]; cbn [filter find]; [reflexivity|].
  destruct (N.eqb (e_id x) e) eqn:E; cbn [negb]; [exact IH|].
  cbn [find]. rewrite E. exact IH.
Qed.

(* ------------------------------------------------------------------ what a request for [e] may do to the roster *)
Inductive emoves (e : N) : roster -> roster -> Prop :=
| em_refl r : emoves e r r
| em_release r r' ids : emoves e r r' -> emoves e r (fst (release e ids r'))
| em_command r r' tg rf dst : emoves e r r' -> emoves e r (command e tg rf dst r')
| em_kill r r' ids : emoves e r r' -> emoves e r (fst (kill_tasks ids r'))
| em_cleanup r r' : emoves e r r' -> emoves e r (fst (cleanup r')).

Lemma emoves_trans e a b c : emoves e a b -> emoves e b c -> emoves e a c.
Proof.
  intros H1 H2. induction H2; try (constructor; auto); auto.
Qed.

(* tasks locked by other environments are kept verbatim *)
Lemma emoves_keep e r r' :
  emoves e r r' -> forall t, In t r -> is_locked t = true -> owner_is e t = false -> In t r'.
Proof.
  induction 1 as [r|r r' ids H IH|r r' tg rf dst H IH|r r' ids H IH|r r' H IH]; intros t Hin Hl Ho; auto.
  - apply release_keeps; auto. right. apply is_locked_true in Hl. apply Hl.
  - apply command_keeps; auto.
  - apply kill_keeps_locked; auto.
  - apply cleanup_keeps_locked; auto.
Qed.

Lemma emoves_nodup e r r' : emoves e r r' -> NoDup (map t_id r) -> NoDup (map t_id r').
Proof.
  induction 1 as [r|r r' ids H IH|r r' tg rf dst H IH|r r' ids H IH|r r' H IH]; intros Hnd; auto.
  - rewrite release_ids. auto.
  - rewrite command_ids. auto.
  - apply kill_ids_nodup. auto.
  - apply cleanup_ids_nodup. auto.
Qed.

(* every task of the result stems from a task of the same id, status, id-flag and owner,
   except that the parent may have been cleared *)
Lemma emoves_origin e r r' :
  emoves e r r' -> forall t', In t' r' ->
  exists t, In t r /\ t_id t = t_id t' /\ t_active t = t_active t' /\
            (t_owner t' = t_owner t \/ t_owner t' = None).
Proof.
  induction 1 as [r|r r' ids H IH|r r' tg rf dst H IH|r r' ids H IH|r r' H IH]; intros t' Hin.
  - exists t'. auto.
  - apply release_spec in Hin. destruct Hin as [Hin|[t [Ht [Ho [_ ->]]]]]; [auto|].
    destruct (IH t Ht) as [t0 [H0 [H1 [H2 H3]]]]. exists t0. repeat split; auto.
  - apply command_spec in Hin. destruct Hin as [t [Ht [->|[_ ->]]]]; [auto|].
    destruct (IH t Ht) as [t0 [H0 [H1 [H2 H3]]]]. exists t0. repeat split; auto.
  - apply kill_from in Hin. destruct Hin as [t [Ht [E1 [E2 [E3 E4]]]]].
    destruct (IH t Ht) as [t0 [H0 [H1 [H2 H3]]]]. exists t0.
    split; [exact H0|]. split; [congruence|]. split; [congruence|].
    destruct H3 as [H3|H3]; [left|right]; congruence.
  - apply cleanup_sub in Hin. auto.
Qed.

(* a task of the result that is unlocked or owned by [e] does not bear the id of a task that
   another environment held locked before *)
Lemma emoves_touch e r r' :
  NoDup (map t_id r) -> emoves e r r' ->
  forall t', In t' r' -> (is_locked t' = false \/ t_owner t' = Some e) ->
  forall t0 e', In t0 r -> t_id t0 = t_id t' -> t_owner t0 = Some e' -> t_idok t0 = true -> e' = e.
Proof.
  intros Hnd Hm t' Hin' Ho' t0 e' Hin0 Eid Ho0 Hk0.
  destruct (N.eq_dec e' e) as [|Hne]; [assumption|exfalso].
  assert (Hk : In t0 r').
  { eapply emoves_keep; eauto.
    - eapply locked_intro; eauto.
    - eapply owner_is_other; eauto. }
  assert (E : t0 = t').
  { apply (nodup_map_inj t_id r'); auto. eapply emoves_nodup; eauto. }
  subst t'. destruct Ho' as [Ho'|Ho']; [|congruence].
  rewrite (locked_intro t0 e' Ho0 Hk0) in Ho'. discriminate.
Qed.

Definition touched (e : N) (r0 : roster) (k : tid) : Prop :=
  exists r', emoves e r0 r' /\
             exists t', In t' r' /\ t_id t' = k /\ (is_locked t' = false \/ t_owner t' = Some e).

Lemma touched_ok e r0 k :
  NoDup (map t_id r0) -> touched e r0 k ->
  forall t0 e', In t0 r0 -> t_id t0 = k -> t_owner t0 = Some e' -> t_idok t0 = true -> e' = e.
Proof.
  intros Hnd [r' [Hm [t' [Hin [Eid Ho]]]]] t0 e' H0 E0 Ho0 Hk0.
  eapply emoves_touch; eauto. congruence.
Qed.

Lemma touched_mono e r0 r1 k : emoves e r0 r1 -> touched e r1 k -> touched e r0 k.
Proof.
  intros H [r' [Hm Ht]]. exists r'. split; [eapply emoves_trans; eauto|exact Ht].
Qed.

Lemma kill_touched e r ids k : In k (snd (kill_tasks ids r)) -> touched e r k.
Proof.
  intro H. apply kill_kills in H. destruct H as [t [Hin [Eid [Hl _]]]].
  exists r. split; [constructor|]. exists t. repeat split; auto.
Qed.

Lemma cleanup_touched e r k : In k (snd (cleanup r)) -> touched e r k.
Proof.
  intro H. apply cleanup_kills in H. destruct H as [t [Hin [Eid Hl]]].
  exists r. split; [constructor|]. exists t. repeat split; auto.
Qed.

Lemma active_owned_touched e ids r k : In k (active_owned_in e ids r) -> touched e r k.
Proof.
  unfold active_owned_in. intro H. apply in_map_iff in H. destruct H as [t [Eid Hin]].
  apply filter_In in Hin. destruct Hin as [Hin Hf].
  apply andb_true_iff in Hf. destruct Hf as [Hf _]. apply andb_true_iff in Hf. destruct Hf as [Ho _].
  exists r. split; [constructor|]. exists t. repeat split; auto. right. apply owner_is_true, Ho.
Qed.

(* ------------------------------------------------------------------ environments other than [e] *)
Definition envs_kept (e : N) (l l' : list env) : Prop :=
  forall x, In x l -> e_id x <> e -> In x l'.

Lemma envs_kept_refl e l : envs_kept e l l.
Proof. intros x H _. exact H. Qed.

Lemma envs_kept_trans e a b c : envs_kept e a b -> envs_kept e b c -> envs_kept e a c.
Proof. intros H1 H2 x Hx Hne. apply H2; auto. Qed.

Lemma envs_kept_remove e l : envs_kept e l (remove_env e l).
Proof.
  intros x Hx Hne. unfold remove_env. apply filter_In. split; [exact Hx|].
  apply negb_true_iff, N.eqb_neq, Hne.
Qed.

Lemma envs_kept_upd e f l : envs_kept e l (upd_env e f l).
Proof.
  intros x Hx Hne. unfold upd_env. apply in_map_iff. exists x. split; [|exact Hx].
  destruct (N.eqb (e_id x) e) eqn:E; [apply N.eqb_eq in E; contradiction|reflexivity].
Qed.

Lemma envs_kept_app e l m : envs_kept e l (l ++ m).
Proof. intros x Hx _. apply in_or_app. left. exact Hx. Qed.

Lemma transition_good x dst fail r :
  let '(r', tg, ok) := transition x dst fail r in
  emoves (e_id x) r r' /\ forall k, In k tg -> touched (e_id x) r k.
Proof.
  unfold transition. split.
  - constructor. constructor.
  - intros k Hk. eapply active_owned_touched. exact Hk.
Qed.
