(* Lemmas about the RoleTree model (property C11). *)
From Verif Require Import Common Gen_StateX Gen_StatusX Gen_StatusProduct Gen_MergeAtomic RoleTree.
From Coq Require Import Permutation.
Open Scope N_scope.

(* ================================================================== *)
(* 1. The two products: complete tie to the code, algebraic laws       *)
(* ================================================================== *)

Lemma state_beq_eq a b : state_beq a b = true <-> a = b.
Proof. split; [apply internal_state_dec_bl | apply internal_state_dec_lb]. Qed.
Lemma status_beq_eq a b : status_beq a b = true <-> a = b.
Proof. split; [apply internal_status_dec_bl | apply internal_status_dec_lb]. Qed.
Lemma state_beq_refl a : state_beq a a = true.
Proof. apply state_beq_eq. reflexivity. Qed.
Lemma status_beq_refl a : status_beq a a = true.
Proof. apply status_beq_eq. reflexivity. Qed.
Lemma state_beq_neq a b : state_beq a b = false <-> a <> b.
Proof.
  split.
  - intros H E. apply state_beq_eq in E. congruence.
  - intro H. destruct (state_beq a b) eqn:E; [apply state_beq_eq in E; contradiction|reflexivity].
Qed.
Lemma status_beq_neq a b : status_beq a b = false <-> a <> b.
Proof.
  split.
  - intros H E. apply status_beq_eq in E. congruence.
  - intro H. destruct (status_beq a b) eqn:E; [apply status_beq_eq in E; contradiction|reflexivity].
Qed.

(* the model's State.X is the running code's, on all 64 pairs; the numbering of the constants
   is the running code's *)
Lemma stateX_enum_complete : forall a b,
  enum_lookup (N_of_state a) (N_of_state b) stateX_enum = Some (N_of_state (stateX a b)).
Proof. intros a b; destruct a, b; vm_compute; reflexivity. Qed.

Lemma stateX_enum_size : length stateX_enum = 64%nat.
Proof. vm_compute. reflexivity. Qed.

Lemma state_codes_ok :
  map N_of_state all_states =
  [go_state_UNKNOWN; go_state_STANDBY; go_state_CONFIGURED; go_state_RUNNING;
   go_state_ERROR; go_state_DONE; go_state_MIXED; go_state_INVARIANT].
Proof. vm_compute. reflexivity. Qed.

(* the translated STATUS_PRODUCT literal (which defines statusX) agrees with the running code
   on all 25 pairs; numbering as in the source and in the running code *)
Lemma statusX_enum_complete : forall a b,
  enum_lookup (N_of_status a) (N_of_status b) statusX_enum = Some (N_of_status (statusX a b)).
Proof. intros a b; destruct a, b; vm_compute; reflexivity. Qed.

Lemma statusX_enum_size : length statusX_enum = 25%nat.
Proof. vm_compute. reflexivity. Qed.

Lemma status_codes_ok :
  map N_of_status all_statuses =
  [go_status_UNDEFINED; go_status_INACTIVE; go_status_PARTIAL; go_status_ACTIVE;
   go_status_UNDEPLOYABLE] /\
  map N_of_status all_statuses =
  [src_status_UNDEFINED; src_status_INACTIVE; src_status_PARTIAL; src_status_ACTIVE;
   src_status_UNDEPLOYABLE].
Proof. vm_compute. split; reflexivity. Qed.

Lemma all_states_complete : forall s, In s all_states.
Proof. intro s; destruct s; cbn; tauto. Qed.
Lemma all_statuses_complete : forall s, In s all_statuses.
Proof. intro s; destruct s; cbn; tauto. Qed.

Lemma stateX_comm a b : stateX a b = stateX b a.
Proof. destruct a, b; reflexivity. Qed.
Lemma stateX_assoc a b c : stateX a (stateX b c) = stateX (stateX a b) c.
Proof. destruct a, b, c; reflexivity. Qed.
Lemma stateX_idem a : stateX a a = a.
Proof. destruct a; reflexivity. Qed.
Lemma stateX_ERROR_l a : stateX ERROR a = ERROR.
Proof. destruct a; reflexivity. Qed.
Lemma stateX_ERROR_r a : stateX a ERROR = ERROR.
Proof. destruct a; reflexivity. Qed.
Lemma stateX_INV_l a : stateX INVARIANT a = a.
Proof. destruct a; reflexivity. Qed.
Lemma stateX_INV_r a : stateX a INVARIANT = a.
Proof. destruct a; reflexivity. Qed.
Lemma stateX_ERROR_inv a b : stateX a b = ERROR -> a = ERROR \/ b = ERROR.
Proof. destruct a, b; cbn; intro H; try discriminate; auto. Qed.

Lemma statusX_comm a b : statusX a b = statusX b a.
Proof. destruct a, b; vm_compute; reflexivity. Qed.
Lemma statusX_assoc a b c : statusX a (statusX b c) = statusX (statusX a b) c.
Proof. destruct a, b, c; vm_compute; reflexivity. Qed.
Lemma statusX_idem a : statusX a a = a.
Proof. destruct a; vm_compute; reflexivity. Qed.
Lemma statusX_UNDEF_l a : statusX UNDEFINED a = UNDEFINED.
Proof. destruct a; vm_compute; reflexivity. Qed.
Lemma statusX_UNDEF_r a : statusX a UNDEFINED = UNDEFINED.
Proof. destruct a; vm_compute; reflexivity. Qed.
Lemma statusX_UNDEPL a : a <> UNDEFINED -> statusX UNDEPLOYABLE a = UNDEPLOYABLE.
Proof. destruct a; vm_compute; congruence. Qed.

(* the shortcuts of SafeState.merge / SafeStatus.merge are sound when the cache was the fold:
   finite statements over (old value of the child, incoming value, fold of the siblings) *)
Lemma merge_state_finite : forall a s R,
  (let cache := stateX a R in
   if state_beq cache s then cache
   else if state_beq s MIXED && negb (state_beq cache ERROR) then MIXED
   else if state_beq s ERROR then ERROR
   else stateX s R) = stateX s R.
Proof. intros a s R; destruct a, s, R; reflexivity. Qed.

Lemma merge_status_finite : forall a s R,
  (let cache := statusX a R in
   if status_beq cache s then cache
   else if status_beq s UNDEFINED then UNDEFINED
   else statusX s R) = statusX s R.
Proof. intros a s R; destruct a, s, R; vm_compute; reflexivity. Qed.

Lemma merge_status_finite1 : forall a s : status,
  (if status_beq a s then a else if status_beq s UNDEFINED then UNDEFINED else s) = s.
Proof. intros a s; destruct a, s; reflexivity. Qed.

(* ================================================================== *)
(* 2. Folds over lists of values                                       *)
(* ================================================================== *)

Lemma fold_left_stateX l : forall a, fold_left stateX l a = stateX a (foldX l).
Proof.
  unfold foldX. induction l as [|x l IH]; intro a; cbn [fold_left].
  - symmetry. apply stateX_INV_r.
  - rewrite IH. rewrite (IH (stateX INVARIANT x)). rewrite stateX_INV_l.
    symmetry. apply stateX_assoc.
Qed.

Lemma foldX_cons a l : foldX (a :: l) = stateX a (foldX l).
Proof. unfold foldX at 1. cbn [fold_left]. rewrite stateX_INV_l. apply fold_left_stateX. Qed.

Lemma foldX_nil : foldX [] = INVARIANT.
Proof. reflexivity. Qed.

Lemma foldX_app l1 l2 : foldX (l1 ++ l2) = stateX (foldX l1) (foldX l2).
Proof.
  induction l1 as [|a l1 IH]; cbn [app].
  - rewrite foldX_nil, stateX_INV_l. reflexivity.
  - rewrite !foldX_cons, IH. apply stateX_assoc.
Qed.

Lemma foldX_perm l l' : Permutation l l' -> foldX l = foldX l'.
Proof.
  induction 1 as [|x l l' _ IH|x y l|l l' l'' _ IH1 _ IH2].
  - reflexivity.
  - rewrite !foldX_cons, IH. reflexivity.
  - rewrite !foldX_cons, !stateX_assoc, (stateX_comm y x). reflexivity.
  - congruence.
Qed.

Lemma foldX_ERROR l : foldX l = ERROR <-> In ERROR l.
Proof.
  induction l as [|a l IH].
  - cbn. split; [discriminate|tauto].
  - rewrite foldX_cons. split.
    + intro H. apply stateX_ERROR_inv in H. destruct H as [H|H]; [left; auto|right; apply IH, H].
    + intros [H|H]; [subst; apply stateX_ERROR_l|]. apply IH in H. rewrite H. apply stateX_ERROR_r.
Qed.

(* the fold is what the text says *)
Lemma existsb_ERROR_In l : existsb (state_beq ERROR) l = true <-> In ERROR l.
Proof.
  rewrite existsb_exists. split.
  - intros [x [Hx E]]. apply state_beq_eq in E. subst. exact Hx.
  - intro H. exists ERROR. split; [exact H|reflexivity].
Qed.

Lemma spec_state_cons a l : spec_state (a :: l) = stateX a (spec_state l).
Proof.
  unfold spec_state. cbn [existsb filter].
  destruct (existsb (state_beq ERROR) l) eqn:EE.
  - rewrite orb_true_r. symmetry. apply stateX_ERROR_r.
  - rewrite orb_false_r.
    assert (HnE : forall x, In x (filter (fun s => negb (state_beq s INVARIANT)) l) ->
                            x <> ERROR /\ x <> INVARIANT).
    { intros x Hx. apply filter_In in Hx. destruct Hx as [Hx Hn]. split.
      - intro; subst. assert (existsb (state_beq ERROR) l = true) by (apply existsb_ERROR_In; exact Hx).
        congruence.
      - intro; subst. discriminate. }
    destruct (filter (fun s => negb (state_beq s INVARIANT)) l) as [|b r] eqn:EF.
    + destruct a; reflexivity.
    + destruct (HnE b (or_introl eq_refl)) as [Hb1 Hb2].
      destruct (state_beq ERROR a) eqn:Ea.
      { apply state_beq_eq in Ea. subst a. symmetry. apply stateX_ERROR_l. }
      destruct (state_beq a INVARIANT) eqn:Ei; cbn [negb].
      { apply state_beq_eq in Ei. subst a. rewrite stateX_INV_l. reflexivity. }
      cbn [forallb].
      destruct (forallb (state_beq b) r) eqn:Fb.
      * destruct (state_beq a b) eqn:Eab; cbn [andb].
        -- apply state_beq_eq in Eab. subst b. rewrite Fb. symmetry. apply stateX_idem.
        -- destruct a, b; try discriminate; try congruence; reflexivity.
      * assert (Hm : stateX a MIXED = MIXED) by (destruct a; try discriminate; reflexivity).
        rewrite Hm.
        destruct (state_beq a b) eqn:Eab; cbn [andb]; [|reflexivity].
        apply state_beq_eq in Eab. subst b. rewrite Fb. reflexivity.
Qed.

Lemma foldX_spec l : foldX l = spec_state l.
Proof.
  induction l as [|a l IH]; [reflexivity|].
  rewrite foldX_cons, spec_state_cons, IH. reflexivity.
Qed.

(* statuses: no neutral element, so non-empty lists *)
Lemma fold_left_statusX l : forall a,
  fold_left statusX l a = match l with [] => a | _ :: _ => statusX a (foldS l) end.
Proof.
  induction l as [|x l IH]; intro a; [reflexivity|].
  cbn [fold_left foldS]. rewrite IH. rewrite (IH x).
  destruct l; [reflexivity|]. symmetry. apply statusX_assoc.
Qed.

Lemma foldS_cons a l :
  foldS (a :: l) = match l with [] => a | _ :: _ => statusX a (foldS l) end.
Proof. cbn [foldS]. apply fold_left_statusX. Qed.

Lemma foldS_app l1 l2 : l1 <> [] -> l2 <> [] ->
  foldS (l1 ++ l2) = statusX (foldS l1) (foldS l2).
Proof.
  intros H1 H2. induction l1 as [|a l1 IH]; [congruence|].
  cbn [app]. rewrite !foldS_cons.
  destruct l1 as [|b l1].
  - cbn [app]. destruct l2; [congruence|reflexivity].
  - cbn [app] in *. rewrite IH by discriminate. apply statusX_assoc.
Qed.

Lemma foldS_perm l l' : Permutation l l' -> foldS l = foldS l'.
Proof.
  induction 1 as [|x l l' HP IH|x y l|l l' l'' _ IH1 _ IH2].
  - reflexivity.
  - rewrite !foldS_cons, IH. destruct l, l'; try reflexivity.
    + apply Permutation_nil in HP. discriminate.
    + apply Permutation_sym, Permutation_nil in HP. discriminate.
  - rewrite !foldS_cons. destruct l.
    + apply statusX_comm.
    + rewrite !statusX_assoc, (statusX_comm y x). reflexivity.
  - congruence.
Qed.

Lemma spec_status_cons a l : l <> [] -> spec_status (a :: l) = statusX a (spec_status l).
Proof.
  intro Hl. destruct l as [|b r]; [congruence|].
  unfold spec_status.
  remember (b :: r) as l eqn:El.
  cbn [existsb forallb].
  destruct (existsb (status_beq UNDEFINED) l) eqn:E1.
  { rewrite orb_true_r. symmetry. apply statusX_UNDEF_r. }
  rewrite orb_false_r.
  destruct (existsb (status_beq UNDEPLOYABLE) l) eqn:E2.
  { rewrite orb_true_r. destruct a; vm_compute; reflexivity. }
  rewrite orb_false_r.
  destruct (forallb (status_beq ACTIVE) l) eqn:E3.
  { rewrite andb_true_r.
    assert (forallb (status_beq INACTIVE) l = false) as E4.
    { rewrite El in *. cbn [forallb] in *. apply andb_true_iff in E3. destruct E3 as [E3 _].
      apply status_beq_eq in E3. subst b. reflexivity. }
    rewrite E4, andb_false_r. destruct a; vm_compute; reflexivity. }
  rewrite andb_false_r.
  destruct (forallb (status_beq INACTIVE) l) eqn:E4.
  { rewrite andb_true_r. destruct a; vm_compute; reflexivity. }
  rewrite andb_false_r. destruct a; vm_compute; reflexivity.
Qed.

Lemma spec_status_single a : spec_status [a] = a.
Proof. destruct a; reflexivity. Qed.

Lemma foldS_spec l : foldS l = spec_status l.
Proof.
  induction l as [|a l IH]; [reflexivity|].
  rewrite foldS_cons. destruct l as [|b r].
  - symmetry. apply spec_status_single.
  - rewrite spec_status_cons by discriminate. rewrite IH. reflexivity.
Qed.
(* ================================================================== *)
(* 3. Folds over children lists, soundness of one merge                *)
(* ================================================================== *)

Definition contrib (c : rtree) : state := if counted c then st_of c else INVARIANT.

Lemma fold_state_contrib cs : fold_state cs = foldX (map contrib cs).
Proof.
  unfold fold_state, foldX. generalize INVARIANT as a.
  induction cs as [|c cs IH]; intro a; cbn [fold_left map]; [reflexivity|].
  rewrite IH. unfold contrib. destruct (counted c); [reflexivity|].
  rewrite stateX_INV_r. reflexivity.
Qed.

Lemma fold_left_statusX_UNDEF l : fold_left statusX l UNDEFINED = UNDEFINED.
Proof. induction l as [|x l IH]; [reflexivity|]. cbn [fold_left]. rewrite statusX_UNDEF_l. exact IH. Qed.

Lemma fold_status_from_fold cs : forall s,
  fold_status_from s cs = fold_left statusX (map stat_of cs) s.
Proof.
  induction cs as [|c cs IH]; intro s; cbn [fold_status_from map fold_left]; [reflexivity|].
  destruct (status_beq s UNDEFINED) eqn:E.
  - apply status_beq_eq in E. subst s. rewrite statusX_UNDEF_l, fold_left_statusX_UNDEF. reflexivity.
  - apply IH.
Qed.

Lemma fold_status_foldS cs : fold_status cs = foldS (map stat_of cs).
Proof. destruct cs as [|c cs]; [reflexivity|]. cbn [fold_status map foldS]. apply fold_status_from_fold. Qed.

Lemma replace_nth_app {A} (l1 l2 : list A) x y :
  replace_nth (length l1) y (l1 ++ x :: l2) = l1 ++ y :: l2.
Proof. induction l1 as [|a l1 IH]; cbn; [reflexivity|]. rewrite IH. reflexivity. Qed.

Lemma replace_nth_length {A} i (x : A) l : length (replace_nth i x l) = length l.
Proof. revert i; induction l as [|a l IH]; intros [|i]; cbn; auto. Qed.

Lemma replace_nth_none {A} i (x : A) l : nth_error l i = None -> replace_nth i x l = l.
Proof.
  revert i; induction l as [|a l IH]; intros [|i]; cbn; intro H; try reflexivity; try discriminate.
  rewrite IH by exact H. reflexivity.
Qed.

Lemma nth_error_replace_same {A} i (x : A) l : (i < length l)%nat ->
  nth_error (replace_nth i x l) i = Some x.
Proof.
  revert i; induction l as [|a l IH]; intros [|i]; cbn; intro H; try lia; [reflexivity|].
  apply IH. lia.
Qed.

Lemma nth_error_replace_other {A} i j (x : A) l : i <> j ->
  nth_error (replace_nth i x l) j = nth_error l j.
Proof.
  revert i j; induction l as [|a l IH]; intros [|i] [|j]; cbn; intro H; try reflexivity; try congruence.
  apply IH. congruence.
Qed.

Lemma fold_state_split l1 c l2 :
  fold_state (l1 ++ c :: l2) = stateX (contrib c) (foldX (map contrib (l1 ++ l2))).
Proof.
  rewrite fold_state_contrib.
  rewrite (foldX_perm (map contrib (l1 ++ c :: l2)) (map contrib (c :: l1 ++ l2))).
  - cbn [map]. apply foldX_cons.
  - apply Permutation_map. symmetry. apply Permutation_middle.
Qed.

Lemma fold_status_split l1 c l2 :
  fold_status (l1 ++ c :: l2) =
  match l1 ++ l2 with
  | [] => stat_of c
  | _ :: _ => statusX (stat_of c) (foldS (map stat_of (l1 ++ l2)))
  end.
Proof.
  rewrite fold_status_foldS.
  rewrite (foldS_perm (map stat_of (l1 ++ c :: l2)) (map stat_of (c :: l1 ++ l2))).
  - cbn [map]. rewrite foldS_cons. destruct (l1 ++ l2); reflexivity.
  - apply Permutation_map. symmetry. apply Permutation_middle.
Qed.

(* order of the children does not matter *)
Lemma fold_state_perm cs cs' : Permutation cs cs' -> fold_state cs = fold_state cs'.
Proof. intro H. rewrite !fold_state_contrib. apply foldX_perm, Permutation_map, H. Qed.
Lemma fold_status_perm cs cs' : Permutation cs cs' -> fold_status cs = fold_status cs'.
Proof. intro H. rewrite !fold_status_foldS. apply foldS_perm, Permutation_map, H. Qed.

Lemma nth_error_split_len {A} (l : list A) i x : nth_error l i = Some x ->
  exists l1 l2, l = l1 ++ x :: l2 /\ length l1 = i.
Proof. apply nth_error_split. Qed.

Lemma merge_state_sound cs i c c' cache :
  nth_error cs i = Some c -> counted c = true -> counted c' = true ->
  cache = fold_state cs ->
  merge_state cache (st_of c') (replace_nth i c' cs) = fold_state (replace_nth i c' cs).
Proof.
  intros Hn Hc Hc' Hcache.
  destruct (nth_error_split_len _ _ _ Hn) as [l1 [l2 [-> <-]]].
  rewrite replace_nth_app. subst cache.
  unfold merge_state. rewrite !fold_state_split. unfold contrib. rewrite Hc, Hc'.
  exact (merge_state_finite (st_of c) (st_of c') (foldX (map contrib (l1 ++ l2)))).
Qed.

Lemma merge_status_sound cs i c c' cache :
  nth_error cs i = Some c ->
  cache = fold_status cs ->
  merge_status cache (stat_of c') (replace_nth i c' cs) = fold_status (replace_nth i c' cs).
Proof.
  intros Hn Hcache.
  destruct (nth_error_split_len _ _ _ Hn) as [l1 [l2 [-> <-]]].
  rewrite replace_nth_app. subst cache.
  unfold merge_status. rewrite !fold_status_split.
  destruct (l1 ++ l2) as [|d r].
  - apply merge_status_finite1.
  - exact (merge_status_finite (stat_of c) (stat_of c') (foldS (map stat_of (d :: r)))).
Qed.

(* replacing a child by one with the same contribution does not change the folds *)
Lemma fold_state_replace_same cs i c c' :
  nth_error cs i = Some c -> contrib c' = contrib c ->
  fold_state (replace_nth i c' cs) = fold_state cs.
Proof.
  intros Hn Hc.
  destruct (nth_error_split_len _ _ _ Hn) as [l1 [l2 [-> <-]]].
  rewrite replace_nth_app, !fold_state_split, Hc. reflexivity.
Qed.

Lemma fold_status_replace_same cs i c c' :
  nth_error cs i = Some c -> stat_of c' = stat_of c ->
  fold_status (replace_nth i c' cs) = fold_status cs.
Proof.
  intros Hn Hc.
  destruct (nth_error_split_len _ _ _ Hn) as [l1 [l2 [-> <-]]].
  rewrite replace_nth_app, !fold_status_split, Hc. reflexivity.
Qed.

Lemma existsb_counted_replace cs i c c' :
  nth_error cs i = Some c -> counted c' = counted c ->
  existsb counted (replace_nth i c' cs) = existsb counted cs.
Proof.
  intros Hn Hc.
  destruct (nth_error_split_len _ _ _ Hn) as [l1 [l2 [-> <-]]].
  rewrite replace_nth_app, !existsb_app. cbn [existsb]. rewrite Hc. reflexivity.
Qed.

Lemma existsb_counted_nth cs i c :
  nth_error cs i = Some c -> counted c = true -> existsb counted cs = true.
Proof.
  intros Hn Hc. apply existsb_exists. exists c. split; [|exact Hc].
  eapply nth_error_In. exact Hn.
Qed.

(* ================================================================== *)
(* 4. Induction over role trees; the invariant                         *)
(* ================================================================== *)

Section rtree_induction.
  Variable Q : rtree -> Prop.
  Hypothesis HLeaf : forall c s x, Q (Leaf c s x).
  Hypothesis HAgg : forall s x cs, Forall Q cs -> Q (Agg s x cs).
  Fixpoint rtree_ind2 (t : rtree) : Q t :=
    match t with
    | Leaf c s x => HLeaf c s x
    | Agg s x cs =>
        HAgg s x cs ((fix go (l : list rtree) : Forall Q l :=
                        match l with
                        | [] => Forall_nil Q
                        | c :: r => Forall_cons c (rtree_ind2 c) (go r)
                        end) cs)
    end.
End rtree_induction.

Lemma Inv_Agg w s x cs :
  Inv w (Agg s x cs) <->
  ((w = true /\ existsb counted cs = false) \/ s = fold_state cs) /\
  ((w = true /\ cs = []) \/ x = fold_status cs) /\
  Forall (Inv w) cs.
Proof.
  unfold Inv. cbn [inv_b]. rewrite !andb_true_iff, !orb_true_iff, !andb_true_iff.
  rewrite negb_true_iff, state_beq_eq, status_beq_eq, forallb_forall, Forall_forall.
  assert (E : (match cs with [] => true | _ :: _ => false end) = true <-> cs = []).
  { destruct cs; split; congruence. }
  rewrite E. tauto.
Qed.

Lemma Inv_Leaf w c s x : Inv w (Leaf c s x).
Proof. reflexivity. Qed.

Lemma Forall_replace_nth {A} (Q : A -> Prop) i x l :
  Forall Q l -> Q x -> Forall Q (replace_nth i x l).
Proof.
  intros Hl Hx. revert i. induction Hl as [|a l Ha Hl IH]; intros [|i]; cbn; auto.
Qed.

Lemma Forall_nth_error {A} (Q : A -> Prop) l i x :
  Forall Q l -> nth_error l i = Some x -> Q x.
Proof. intros H Hn. rewrite Forall_forall in H. apply H. eapply nth_error_In, Hn. Qed.

Lemma replace_nth_nil_iff {A} i (x : A) l : replace_nth i x l = [] <-> l = [].
Proof. destruct l, i; cbn; split; congruence. Qed.

Lemma replace_nth_same {A} i (x : A) l : nth_error l i = Some x -> replace_nth i x l = l.
Proof.
  revert i; induction l as [|a l IH]; intros [|i]; cbn; intro H; try discriminate.
  - congruence.
  - rewrite IH by exact H. reflexivity.
Qed.

(* what one state update does to a subtree *)
Lemma upd_state_spec w : forall p v t t' fwd,
  upd_state p v t = (t', fwd) -> Inv w t ->
  Inv w t' /\ counted t' = counted t /\ stat_of t' = stat_of t /\
  match fwd with
  | Some s => counted t' = true /\ st_of t' = s
  | None => contrib t' = contrib t
  end.
Proof.
  induction p as [|i p IH]; intros v t t' fwd Hu Hinv.
  - destruct t as [c s x|s x cs]; cbn in Hu; inversion Hu; subst; clear Hu.
    + split; [apply Inv_Leaf|]. split; [reflexivity|]. split; [reflexivity|].
      destruct c; cbn; auto.
    + repeat split; auto.
  - destruct t as [c s x|s x cs]; cbn [upd_state] in Hu.
    { inversion Hu; subst. repeat split; auto. }
    destruct (nth_error cs i) as [c|] eqn:Hn.
    2:{ inversion Hu; subst. repeat split; auto. }
    destruct (upd_state p v c) as [c' f] eqn:Hc.
    apply Inv_Agg in Hinv. destruct Hinv as [Hs [Hx Hcs]].
    assert (Hic : Inv w c) by (eapply Forall_nth_error; eauto).
    destruct (IH v c c' f Hc Hic) as [Hic' [Hcnt [Hstat Hf]]].
    assert (Hx' : (w = true /\ replace_nth i c' cs = []) \/ x = fold_status (replace_nth i c' cs)).
    { destruct Hx as [[Hw He]|Hx]; [left; split; [exact Hw|apply replace_nth_nil_iff; exact He]|].
      right. rewrite (fold_status_replace_same cs i c c' Hn Hstat). exact Hx. }
    assert (Hcs' : Forall (Inv w) (replace_nth i c' cs)) by (apply Forall_replace_nth; assumption).
    destruct f as [inc|]; inversion Hu; subst; clear Hu.
    + destruct Hf as [Hc1 Hc2].
      assert (Hc0 : counted c = true) by congruence.
      split.
      * apply Inv_Agg. split; [|split; assumption].
        right.
        destruct Hs as [[_ He]|Hs].
        { rewrite (existsb_counted_nth cs i c Hn Hc0) in He. discriminate. }
        rewrite <- Hc2. apply merge_state_sound with (c := c); assumption.
      * cbn. repeat split; reflexivity.
    + split.
      * apply Inv_Agg. split; [|split; assumption].
        destruct Hs as [[Hw He]|Hs].
        { left. split; [exact Hw|]. rewrite (existsb_counted_replace cs i c c' Hn Hcnt). exact He. }
        right. rewrite (fold_state_replace_same cs i c c' Hn Hf). exact Hs.
      * cbn. repeat split; reflexivity.
Qed.

Lemma upd_status_spec w : forall p v t t' fwd,
  upd_status p v t = (t', fwd) -> Inv w t ->
  Inv w t' /\ counted t' = counted t /\ st_of t' = st_of t /\
  match fwd with
  | Some s => stat_of t' = s
  | None => t' = t
  end.
Proof.
  induction p as [|i p IH]; intros v t t' fwd Hu Hinv.
  - destruct t as [c s x|s x cs]; cbn in Hu; inversion Hu; subst; clear Hu.
    + repeat split; auto.
    + repeat split; auto.
  - destruct t as [c s x|s x cs]; cbn [upd_status] in Hu.
    { inversion Hu; subst. repeat split; auto. }
    destruct (nth_error cs i) as [c|] eqn:Hn.
    2:{ inversion Hu; subst. repeat split; auto. }
    destruct (upd_status p v c) as [c' f] eqn:Hc.
    apply Inv_Agg in Hinv. destruct Hinv as [Hs [Hx Hcs]].
    assert (Hic : Inv w c) by (eapply Forall_nth_error; eauto).
    destruct (IH v c c' f Hc Hic) as [Hic' [Hcnt [Hst Hf]]].
    assert (Hcon : contrib c' = contrib c) by (unfold contrib; rewrite Hcnt, Hst; reflexivity).
    assert (Hs' : (w = true /\ existsb counted (replace_nth i c' cs) = false) \/
                  s = fold_state (replace_nth i c' cs)).
    { destruct Hs as [[Hw He]|Hs].
      - left. split; [exact Hw|]. rewrite (existsb_counted_replace cs i c c' Hn Hcnt). exact He.
      - right. rewrite (fold_state_replace_same cs i c c' Hn Hcon). exact Hs. }
    assert (Hcs' : Forall (Inv w) (replace_nth i c' cs)) by (apply Forall_replace_nth; assumption).
    destruct f as [inc|]; inversion Hu; subst; clear Hu.
    + split.
      * apply Inv_Agg. split; [exact Hs'|]. split; [|exact Hcs'].
        right.
        destruct Hx as [[_ He]|Hx].
        { subst cs. destruct i; discriminate. }
        apply merge_status_sound with (c := c); assumption.
      * cbn. repeat split; reflexivity.
    + rewrite (replace_nth_same _ _ _ Hn). repeat split; auto. apply Inv_Agg. auto.
Qed.

(* ================================================================== *)
(* 5. Sequential runs keep the invariant; freshly loaded trees         *)
(* ================================================================== *)

Lemma apply_op_Inv w o t : Inv w t -> Inv w (apply_op o t).
Proof.
  intro H. destruct o as [p v|p v]; cbn [apply_op].
  - destruct (upd_state p v t) as [t' f] eqn:E. cbn [fst].
    exact (proj1 (upd_state_spec w p v t t' f E H)).
  - destruct (upd_status p v t) as [t' f] eqn:E. cbn [fst].
    exact (proj1 (upd_status_spec w p v t t' f E H)).
Qed.

Lemma run_ops_Inv w ops : forall t, Inv w t -> Inv w (run_ops ops t).
Proof.
  induction ops as [|o ops IH]; intros t H; [exact H|].
  cbn [run_ops fold_left]. apply IH, apply_op_Inv, H.
Qed.

Lemma Inv_strong_weak t : Inv false t -> Inv true t.
Proof.
  induction t as [c s x|s x cs IH] using rtree_ind2; [reflexivity|].
  rewrite !Inv_Agg. intros [[[Hw _]|Hs] [[[Hw' _]|Hx] Hcs]]; try discriminate.
  split; [right; exact Hs|]. split; [right; exact Hx|].
  rewrite Forall_forall in *. intros c Hc. apply IH; auto.
Qed.

Lemma Inv_sub w : forall p t n, Inv w t -> get_sub p t = Some n -> Inv w n.
Proof.
  induction p as [|i p IH]; intros t n H Hg; cbn in Hg.
  - inversion Hg; subst; exact H.
  - destruct (nth_error (children t) i) as [c|] eqn:Hn; [|discriminate].
    destruct t as [c0 s x|s x cs]; cbn in Hn; [destruct i; discriminate|].
    apply Inv_Agg in H. destruct H as [_ [_ Hcs]].
    eapply IH; [|exact Hg]. eapply Forall_nth_error; eauto.
Qed.

Lemma counted_fresh t : counted (fresh t) = counted t.
Proof. destruct t; reflexivity. Qed.

Lemma existsb_map_counted (f : rtree -> rtree) cs :
  (forall c, counted (f c) = counted c) ->
  existsb counted (map f cs) = existsb counted cs.
Proof. intro H. induction cs as [|c cs IH]; cbn; [reflexivity|]. rewrite H, IH. reflexivity. Qed.

Lemma fold_state_fresh cs :
  fold_state (map fresh cs) = if existsb counted cs then STANDBY else INVARIANT.
Proof.
  rewrite fold_state_contrib.
  induction cs as [|c cs IH]; [reflexivity|].
  cbn [map existsb]. rewrite foldX_cons, IH. unfold contrib. rewrite counted_fresh.
  destruct c as [cr s x|s x l]; cbn; [destruct cr|]; destruct (existsb counted cs); reflexivity.
Qed.

Lemma fold_status_fresh cs :
  fold_status (map fresh cs) = match cs with [] => UNDEFINED | _ :: _ => INACTIVE end.
Proof.
  rewrite fold_status_foldS.
  induction cs as [|c cs IH]; [reflexivity|].
  cbn [map]. rewrite foldS_cons.
  assert (Hc : stat_of (fresh c) = INACTIVE) by (destruct c; reflexivity).
  rewrite Hc. destruct cs as [|d cs]; [reflexivity|].
  cbn [map] in *. rewrite IH. reflexivity.
Qed.

(* whatever the shape, the loaded tree satisfies the weak invariant *)
Lemma fresh_weak t : Inv true (fresh t).
Proof.
  induction t as [c s x|s x cs IH] using rtree_ind2; [reflexivity|].
  cbn [fresh]. apply Inv_Agg.
  rewrite fold_state_fresh, fold_status_fresh.
  rewrite (existsb_map_counted fresh cs counted_fresh).
  split; [|split].
  - destruct (existsb counted cs); [right; reflexivity|left; auto].
  - destruct cs; [left; auto|right; reflexivity].
  - rewrite Forall_forall in *. intros c Hc. apply in_map_iff in Hc.
    destruct Hc as [c0 [<- Hc0]]. apply IH, Hc0.
Qed.

(* it satisfies the strong one exactly when every aggregator has a child that counts *)
Lemma fresh_strong_iff t : Inv false (fresh t) <-> all_counted t = true.
Proof.
  induction t as [c s x|s x cs IH] using rtree_ind2; [cbn; split; reflexivity|].
  cbn [fresh all_counted]. rewrite Inv_Agg, fold_state_fresh, fold_status_fresh.
  rewrite andb_true_iff, forallb_forall, Forall_forall.
  rewrite Forall_forall in IH.
  split.
  - intros [[[Hw _]|Hs] [[[Hw' _]|Hx] Hcs]]; try discriminate.
    split.
    + destruct (existsb counted cs); [reflexivity|discriminate].
    + intros c Hc. apply IH; [exact Hc|]. apply Hcs. apply in_map, Hc.
  - intros [He Hcs]. rewrite He. split; [right; reflexivity|]. split.
    + right. destruct cs; [discriminate|reflexivity].
    + intros c Hc. apply in_map_iff in Hc. destruct Hc as [c0 [<- Hc0]].
      apply IH; auto.
Qed.

(* ================================================================== *)
(* 6. The caches are determined by the leaves                          *)
(* ================================================================== *)

Definition is_nil {A} (l : list A) : bool := match l with [] => true | _ :: _ => false end.

Fixpoint canonw (w : bool) (t : rtree) : rtree :=
  match t with
  | Leaf _ _ _ => t
  | Agg s x cs =>
      let cs' := map (canonw w) cs in
      Agg (if w && negb (existsb counted cs) then s else fold_state cs')
          (if w && is_nil cs then x else fold_status cs') cs'
  end.

(* forget every cache an update may write *)
Fixpoint erasew (w : bool) (t : rtree) : rtree :=
  match t with
  | Leaf _ _ _ => t
  | Agg s x cs =>
      Agg (if w && negb (existsb counted cs) then s else STANDBY)
          (if w && is_nil cs then x else INACTIVE) (map (erasew w) cs)
  end.

Lemma canonw_false t : canonw false t = canon t.
Proof.
  induction t as [c s x|s x cs IH] using rtree_ind2; [reflexivity|].
  cbn [canonw canon andb].
  assert (E : map (canonw false) cs = map canon cs).
  { apply map_ext_in. rewrite Forall_forall in IH. exact IH. }
  rewrite E. reflexivity.
Qed.

Lemma counted_canonw w t : counted (canonw w t) = counted t.
Proof. destruct t; reflexivity. Qed.
Lemma counted_erasew w t : counted (erasew w t) = counted t.
Proof. destruct t; reflexivity. Qed.

Lemma is_nil_map {A B} (f : A -> B) l : is_nil (map f l) = is_nil l.
Proof. destruct l; reflexivity. Qed.

Lemma is_nil_true {A} (l : list A) : is_nil l = true <-> l = [].
Proof. destruct l; cbn; split; congruence. Qed.

Lemma Inv_canonw w t : Inv w t -> canonw w t = t.
Proof.
  induction t as [c s x|s x cs IH] using rtree_ind2; [reflexivity|].
  intro H. apply Inv_Agg in H. destruct H as [Hs [Hx Hcs]].
  cbn [canonw].
  assert (E : map (canonw w) cs = cs).
  { rewrite <- (map_id cs) at 2. apply map_ext_in. intros c Hc.
    rewrite Forall_forall in IH, Hcs. apply IH; auto. }
  rewrite E. f_equal.
  - destruct Hs as [[-> He]|Hs]; [rewrite He; reflexivity|].
    destruct (w && negb (existsb counted cs)); congruence.
  - destruct Hx as [[-> He]|Hx]; [subst cs; reflexivity|].
    destruct (w && is_nil cs); congruence.
Qed.

Lemma canonw_Inv w t : Inv w (canonw w t).
Proof.
  induction t as [c s x|s x cs IH] using rtree_ind2; [reflexivity|].
  cbn [canonw]. apply Inv_Agg.
  rewrite (existsb_map_counted (canonw w) cs (counted_canonw w)).
  split; [|split].
  - destruct w; cbn [andb]; [|right; reflexivity].
    destruct (existsb counted cs); cbn [negb]; [right; reflexivity|left; auto].
  - destruct w; cbn [andb]; [|right; reflexivity].
    destruct cs; cbn [is_nil]; [left; auto|right; reflexivity].
  - rewrite Forall_forall in *. intros c Hc. apply in_map_iff in Hc.
    destruct Hc as [c0 [<- Hc0]]. apply IH, Hc0.
Qed.

Lemma canonw_erasew w t : canonw w (erasew w t) = canonw w t.
Proof.
  induction t as [c s x|s x cs IH] using rtree_ind2; [reflexivity|].
  cbn [erasew canonw].
  rewrite (existsb_map_counted (erasew w) cs (counted_erasew w)), is_nil_map.
  assert (E : map (canonw w) (map (erasew w) cs) = map (canonw w) cs).
  { rewrite map_map. apply map_ext_in. rewrite Forall_forall in IH. exact IH. }
  rewrite E.
  destruct (w && negb (existsb counted cs)), (w && is_nil cs); reflexivity.
Qed.

Lemma map_replace_nth {A B} (g : A -> B) i x l :
  map g (replace_nth i x l) = replace_nth i (g x) (map g l).
Proof. revert i; induction l as [|a l IH]; intros [|i]; cbn; try reflexivity. rewrite IH. reflexivity. Qed.

Lemma upd_state_counted : forall p v t, counted (fst (upd_state p v t)) = counted t.
Proof.
  intros [|i p] v [c s x|s x cs]; cbn; try reflexivity.
  destruct (nth_error cs i); [|reflexivity].
  destruct (upd_state p v r) as [c' [f|]]; reflexivity.
Qed.

Lemma upd_state_fwd_counted : forall p v t s, snd (upd_state p v t) = Some s -> counted t = true.
Proof.
  intros [|i p] v [c s0 x|s0 x cs] s; cbn; try discriminate; try reflexivity.
  destruct c; [reflexivity|discriminate].
Qed.

Lemma upd_status_counted : forall p v t, counted (fst (upd_status p v t)) = counted t.
Proof.
  intros [|i p] v [c s x|s x cs]; cbn; try reflexivity.
  destruct (nth_error cs i); [|reflexivity].
  destruct (upd_status p v r) as [c' [f|]]; reflexivity.
Qed.

Lemma write_leaf_counted v t : counted (write_leaf_f v t) = counted t.
Proof. destruct t; reflexivity. Qed.
Lemma write_status_counted v t : counted (write_status_f v t) = counted t.
Proof. destruct t; reflexivity. Qed.

Lemma map_at_counted f : (forall t, counted (f t) = counted t) ->
  forall p t, counted (map_at p f t) = counted t.
Proof.
  intros Hf [|i p] t; cbn; [apply Hf|].
  destruct t as [c s x|s x cs]; [reflexivity|]. destruct (nth_error cs i); reflexivity.
Qed.

Lemma nth_error_map_some {A B} (g : A -> B) l i x :
  nth_error l i = Some x -> nth_error (map g l) i = Some (g x).
Proof. intro H. rewrite nth_error_map, H. reflexivity. Qed.
Lemma nth_error_map_none {A B} (g : A -> B) l i :
  nth_error l i = None -> nth_error (map g l) i = None.
Proof. intro H. rewrite nth_error_map, H. reflexivity. Qed.

Lemma is_nil_replace_nth {A} i (x : A) l : is_nil (replace_nth i x l) = is_nil l.
Proof. destruct l, i; reflexivity. Qed.

Lemma erasew_upd_state w : forall p v t,
  erasew w (fst (upd_state p v t)) = map_at p (write_leaf_f v) (erasew w t).
Proof.
  induction p as [|i p IH]; intros v t.
  - destruct t; reflexivity.
  - destruct t as [c s x|s x cs]; [reflexivity|].
    cbn [upd_state erasew map_at].
    destruct (nth_error cs i) as [c|] eqn:Hn.
    2:{ rewrite (nth_error_map_none (erasew w) cs i Hn). reflexivity. }
    rewrite (nth_error_map_some (erasew w) cs i c Hn).
    specialize (IH v c).
    pose proof (upd_state_counted p v c) as Hcnt.
    pose proof (upd_state_fwd_counted p v c) as Hfc.
    destruct (upd_state p v c) as [c' f]. cbn [fst snd] in *.
    rewrite <- IH, <- map_replace_nth.
    destruct f as [inc|]; cbn [fst erasew];
      rewrite (existsb_counted_replace cs i c c' Hn Hcnt), is_nil_replace_nth.
    + assert (He : existsb counted cs = true).
      { eapply existsb_counted_nth; [exact Hn|]. eapply Hfc. reflexivity. }
      rewrite He. cbn [negb]. rewrite andb_false_r. reflexivity.
    + reflexivity.
Qed.

Lemma upd_status_fwd_nonempty : forall p v t s,
  snd (upd_status p v t) = Some s -> is_agg t = true -> children t <> [].
Proof.
  intros [|i p] v [c s0 x|s0 x cs] s; cbn; try discriminate.
  destruct cs; [destruct i; discriminate|]. discriminate.
Qed.

Lemma erasew_upd_status w : forall p v t,
  erasew w (fst (upd_status p v t)) = map_at p (write_status_f v) (erasew w t).
Proof.
  induction p as [|i p IH]; intros v t.
  - destruct t; reflexivity.
  - destruct t as [c s x|s x cs]; [reflexivity|].
    cbn [upd_status erasew map_at].
    destruct (nth_error cs i) as [c|] eqn:Hn.
    2:{ rewrite (nth_error_map_none (erasew w) cs i Hn). reflexivity. }
    rewrite (nth_error_map_some (erasew w) cs i c Hn).
    specialize (IH v c).
    pose proof (upd_status_counted p v c) as Hcnt.
    destruct (upd_status p v c) as [c' f]. cbn [fst snd] in *.
    rewrite <- IH, <- map_replace_nth.
    assert (Hnil : is_nil cs = false) by (destruct cs; [destruct i; discriminate|reflexivity]).
    destruct f as [inc|]; cbn [fst erasew];
      rewrite (existsb_counted_replace cs i c c' Hn Hcnt), is_nil_replace_nth, Hnil, andb_false_r;
      reflexivity.
Qed.

Lemma erasew_map_at_leaf w f :
  (forall t, counted (f t) = counted t) ->
  (forall t, is_agg t = true -> f t = t) ->
  (forall t, is_agg t = false -> is_agg (f t) = false) ->
  forall p t, erasew w (map_at p f t) = map_at p f (erasew w t).
Proof.
  intros Hc Ha Hl. induction p as [|i p IH]; intro t.
  - cbn [map_at]. destruct t as [c s x|s x cs].
    + specialize (Hl (Leaf c s x) eq_refl). cbn [erasew].
      destruct (f (Leaf c s x)); [reflexivity|discriminate].
    + rewrite (Ha (Agg s x cs) eq_refl). cbn [erasew]. rewrite Ha; reflexivity.
  - destruct t as [c s x|s x cs]; [reflexivity|].
    cbn [erasew map_at].
    destruct (nth_error cs i) as [c|] eqn:Hn.
    2:{ rewrite (nth_error_map_none (erasew w) cs i Hn). reflexivity. }
    rewrite (nth_error_map_some (erasew w) cs i c Hn).
    cbn [erasew]. rewrite <- IH, <- map_replace_nth.
    rewrite (existsb_counted_replace cs i c (map_at p f c) Hn (map_at_counted f Hc p c)).
    rewrite is_nil_replace_nth. reflexivity.
Qed.

Lemma erasew_write_op w o t : erasew w (write_op o t) = write_op o (erasew w t).
Proof.
  destruct o as [p v|p v]; cbn [write_op]; apply erasew_map_at_leaf;
    try (intros [? ? ?|? ? ?]; cbn; congruence).
Qed.

Lemma erasew_apply_op w o t : erasew w (apply_op o t) = write_op o (erasew w t).
Proof. destruct o; cbn [apply_op write_op]; [apply erasew_upd_state|apply erasew_upd_status]. Qed.

Lemma erasew_run_ops w ops : forall t, erasew w (run_ops ops t) = write_ops ops (erasew w t).
Proof.
  induction ops as [|o ops IH]; intro t; [reflexivity|].
  cbn [run_ops write_ops fold_left]. fold (run_ops ops (apply_op o t)).
  fold (write_ops ops (write_op o (erasew w t))).
  rewrite IH, erasew_apply_op. reflexivity.
Qed.

Lemma erasew_write_ops w ops : forall t, erasew w (write_ops ops t) = write_ops ops (erasew w t).
Proof.
  induction ops as [|o ops IH]; intro t; [reflexivity|].
  cbn [write_ops fold_left]. fold (write_ops ops (write_op o t)).
  fold (write_ops ops (write_op o (erasew w t))).
  rewrite IH, erasew_write_op. reflexivity.
Qed.

(* after any sequence of updates the tree is the canonical one for the last values the leaves
   were told *)
Lemma seq_fold w t ops : Inv w t -> run_ops ops t = canonw w (write_ops ops t).
Proof.
  intro H.
  rewrite <- (Inv_canonw w (run_ops ops t)) by (apply run_ops_Inv, H).
  rewrite <- (canonw_erasew w (run_ops ops t)), <- (canonw_erasew w (write_ops ops t)).
  rewrite erasew_run_ops, erasew_write_ops. reflexivity.
Qed.

Lemma same_writes_same_result w t ops1 ops2 :
  Inv w t -> write_ops ops1 t = write_ops ops2 t -> run_ops ops1 t = run_ops ops2 t.
Proof. intros H E. rewrite !(seq_fold w) by exact H. rewrite E. reflexivity. Qed.

(* leaf writes at different paths commute *)
Definition leaf_fn (f : rtree -> rtree) : Prop :=
  (forall t, is_agg t = true -> f t = t) /\ (forall t, is_agg t = false -> is_agg (f t) = false).

Lemma replace_nth_twice {A} i (x y : A) l : replace_nth i x (replace_nth i y l) = replace_nth i x l.
Proof. revert i; induction l as [|a l IH]; intros [|i]; cbn; try reflexivity. rewrite IH. reflexivity. Qed.

Lemma replace_nth_comm {A} i j (x y : A) l : i <> j ->
  replace_nth i x (replace_nth j y l) = replace_nth j y (replace_nth i x l).
Proof.
  revert i j; induction l as [|a l IH]; intros [|i] [|j] H; cbn; try reflexivity; try congruence.
  rewrite IH by congruence. reflexivity.
Qed.

Lemma map_at_is_agg f (Hf : leaf_fn f) : forall p t, is_agg (map_at p f t) = is_agg t.
Proof.
  destruct Hf as [Ha Hl]. intros [|i p] t; cbn.
  - destruct (is_agg t) eqn:E; [rewrite Ha by exact E; exact E|apply Hl, E].
  - destruct t as [c s x|s x cs]; [reflexivity|]. destruct (nth_error cs i); reflexivity.
Qed.

Lemma map_at_comm f g (Hf : leaf_fn f) (Hg : leaf_fn g) : forall p q t, p <> q ->
  map_at p f (map_at q g t) = map_at q g (map_at p f t).
Proof.
  induction p as [|i p IH]; intros q t Hpq.
  - destruct q as [|j q]; [congruence|]. cbn [map_at].
    destruct t as [c s x|s x cs].
    + pose proof (proj2 Hf (Leaf c s x) eq_refl) as H.
      destruct (f (Leaf c s x)) eqn:E; [reflexivity|discriminate].
    + rewrite (proj1 Hf (Agg s x cs) eq_refl).
      destruct (nth_error cs j); [|apply (proj1 Hf); reflexivity].
      apply (proj1 Hf). reflexivity.
  - destruct q as [|j q].
    + cbn [map_at]. destruct t as [c s x|s x cs].
      * pose proof (proj2 Hg (Leaf c s x) eq_refl) as H.
        destruct (g (Leaf c s x)) eqn:E; [reflexivity|discriminate].
      * rewrite (proj1 Hg (Agg s x cs) eq_refl).
        destruct (nth_error cs i); [|symmetry; apply (proj1 Hg); reflexivity].
        symmetry. apply (proj1 Hg). reflexivity.
    + destruct t as [c s x|s x cs]; [reflexivity|].
      cbn [map_at].
      destruct (Nat.eq_dec i j) as [->|Hij].
      * destruct (nth_error cs j) as [c|] eqn:Hn; cbn [map_at]; rewrite ?Hn; [|reflexivity].
        assert (Hlen : (j < length cs)%nat) by (apply nth_error_Some; congruence).
        rewrite !nth_error_replace_same by exact Hlen.
        rewrite !replace_nth_twice. rewrite IH by congruence. reflexivity.
      * destruct (nth_error cs j) as [cj|] eqn:Hnj; destruct (nth_error cs i) as [ci|] eqn:Hni;
          cbn [map_at]; rewrite ?Hni, ?Hnj; try reflexivity.
        -- rewrite (nth_error_replace_other j i) by congruence.
           rewrite (nth_error_replace_other i j) by congruence.
           rewrite Hni, Hnj. rewrite replace_nth_comm by exact Hij. reflexivity.
        -- rewrite (nth_error_replace_other j i) by congruence. rewrite Hni. reflexivity.
        -- rewrite (nth_error_replace_other i j) by congruence. rewrite Hnj. reflexivity.
Qed.

Lemma leaf_fn_state v : leaf_fn (write_leaf_f v).
Proof. split; intros [? ? ?|? ? ?]; cbn; congruence. Qed.
Lemma leaf_fn_status v : leaf_fn (write_status_f v).
Proof. split; intros [? ? ?|? ? ?]; cbn; congruence. Qed.

Lemma write_op_comm o1 o2 t : op_path o1 <> op_path o2 ->
  write_op o2 (write_op o1 t) = write_op o1 (write_op o2 t).
Proof.
  destruct o1 as [p v|p v], o2 as [q u|q u]; cbn [op_path write_op]; intro H;
    apply map_at_comm; auto using leaf_fn_state, leaf_fn_status.
Qed.

Lemma updates_commute w t o1 o2 :
  Inv w t -> op_path o1 <> op_path o2 -> run_ops [o1; o2] t = run_ops [o2; o1] t.
Proof.
  intros H Hp. apply (same_writes_same_result w); [exact H|].
  cbn [write_ops fold_left]. apply write_op_comm, Hp.
Qed.

(* ================================================================== *)
(* 7. What a consistent node reports, in terms of the leaves below it  *)
(* ================================================================== *)

Lemma foldX_flat_map {A} (f : A -> list state) l :
  foldX (flat_map f l) = foldX (map (fun a => foldX (f a)) l).
Proof.
  induction l as [|a l IH]; [reflexivity|].
  cbn [flat_map map]. rewrite foldX_app, foldX_cons, IH. reflexivity.
Qed.

Lemma flat_map_nonempty {A B} (f : A -> list B) l :
  l <> [] -> (forall a, In a l -> f a <> []) -> flat_map f l <> [].
Proof.
  destruct l as [|a l]; [congruence|]. intros _ H. cbn [flat_map].
  specialize (H a (or_introl eq_refl)). destruct (f a); [congruence|discriminate].
Qed.

Lemma foldS_flat_map {A} (f : A -> list status) l :
  l <> [] -> (forall a, In a l -> f a <> []) ->
  foldS (flat_map f l) = foldS (map (fun a => foldS (f a)) l).
Proof.
  induction l as [|a l IH]; [congruence|]. intros _ Hf.
  cbn [flat_map map]. rewrite foldS_cons.
  destruct l as [|b l].
  - cbn [flat_map map]. rewrite app_nil_r. reflexivity.
  - rewrite foldS_app.
    + rewrite IH; [reflexivity|discriminate|]. intros a' Ha'. apply Hf. right. exact Ha'.
    + apply Hf. left. reflexivity.
    + apply flat_map_nonempty; [discriminate|]. intros a' Ha'. apply Hf. right. exact Ha'.
Qed.

Lemma leaf_stats_cons s x c cs :
  leaf_stats (Agg s x (c :: cs)) = flat_map leaf_stats (c :: cs).
Proof. reflexivity. Qed.

Lemma leaf_stats_nonempty t : leaf_stats t <> [].
Proof.
  induction t as [c s x|s x cs IH] using rtree_ind2; [discriminate|].
  destruct cs as [|c cs]; [discriminate|].
  change (leaf_stats (Agg s x (c :: cs))) with (flat_map leaf_stats (c :: cs)).
  apply flat_map_nonempty; [discriminate|]. rewrite Forall_forall in IH. exact IH.
Qed.

Lemma deep_fold t : Inv false t ->
  contrib t = foldX (crit_states t) /\ stat_of t = foldS (leaf_stats t).
Proof.
  induction t as [c s x|s x cs IH] using rtree_ind2; intro H.
  - unfold contrib. cbn [counted st_of stat_of crit_states leaf_stats]. destruct c.
    + rewrite foldX_cons, foldX_nil, stateX_INV_r. split; reflexivity.
    + split; reflexivity.
  - apply Inv_Agg in H. destruct H as [[[Hw _]|Hs] [[[Hw' _]|Hx] Hcs]]; try discriminate.
    rewrite Forall_forall in IH, Hcs.
    split.
    + unfold contrib. cbn [counted st_of crit_states]. rewrite Hs, fold_state_contrib, foldX_flat_map.
      f_equal. apply map_ext_in. intros c Hc. apply (IH c Hc (Hcs c Hc)).
    + cbn [stat_of]. rewrite Hx, fold_status_foldS.
      destruct cs as [|c0 cs0]; [reflexivity|].
      rewrite leaf_stats_cons.
      rewrite foldS_flat_map; [|discriminate|intros; apply leaf_stats_nonempty].
      f_equal. apply map_ext_in. intros c Hc. apply (IH c Hc (Hcs c Hc)).
Qed.

(* every role of a consistent tree reports what the text says *)
Lemma deep_spec t p n : Inv false t -> get_sub p t = Some n -> is_agg n = true ->
  st_of n = spec_state (crit_states n) /\ stat_of n = spec_status (leaf_stats n).
Proof.
  intros H Hg Ha. pose proof (Inv_sub false p t n H Hg) as Hn.
  destruct (deep_fold n Hn) as [H1 H2].
  rewrite <- foldX_spec, <- foldS_spec, <- H1, <- H2.
  destruct n; [discriminate|]. split; reflexivity.
Qed.

(* ================================================================== *)
(* 8. Interleaved updates: an ERROR of a critical task is never lost   *)
(* ================================================================== *)

Definition info_at (q : list nat) (t : rtree) : option (bool * state) :=
  match get_sub q t with Some n => Some (counted n, st_of n) | None => None end.

Definition cache_only (g : rtree -> rtree) : Prop := forall n, children (g n) = children n.

Lemma cache_only_write v : cache_only (write_leaf_f v).
Proof. intros [? ? ?|? ? ?]; reflexivity. Qed.
Lemma cache_only_merge s : cache_only (merge_f s).
Proof. intros [? ? ?|? ? ?]; reflexivity. Qed.

Lemma get_sub_app p : forall r t,
  get_sub (p ++ r) t = match get_sub p t with Some n => get_sub r n | None => None end.
Proof.
  induction p as [|i p IH]; intros r t; [reflexivity|].
  cbn [app get_sub]. destruct (nth_error (children t) i); [apply IH|reflexivity].
Qed.

Lemma get_sub_map_at_same g : forall q t n,
  get_sub q t = Some n -> get_sub q (map_at q g t) = Some (g n).
Proof.
  induction q as [|i q IH]; intros t n H; cbn in *.
  - inversion H; reflexivity.
  - destruct t as [c s x|s x cs]; cbn [children] in H; [destruct i; discriminate|].
    destruct (nth_error cs i) as [c|] eqn:Hn; [|discriminate].
    cbn [get_sub children].
    rewrite nth_error_replace_same by (apply nth_error_Some; congruence).
    apply IH, H.
Qed.

Lemma info_at_map_at_other g (Hg : cache_only g) : forall q p t,
  p <> q -> info_at p (map_at q g t) = info_at p t.
Proof.
  unfold info_at.
  induction q as [|i q IH]; intros p t Hpq.
  - destruct p as [|j p]; [congruence|]. cbn [map_at get_sub]. rewrite Hg. reflexivity.
  - destruct t as [c s x|s x cs]; [reflexivity|]. cbn [map_at].
    destruct (nth_error cs i) as [c|] eqn:Hn; [|reflexivity].
    destruct p as [|j p]; [reflexivity|].
    cbn [get_sub children].
    destruct (Nat.eq_dec j i) as [->|Hji].
    + rewrite nth_error_replace_same by (apply nth_error_Some; congruence).
      rewrite Hn. apply IH. congruence.
    + rewrite nth_error_replace_other by congruence. reflexivity.
Qed.

Lemma st_at_info p t s : st_at p t = Some s <-> exists b, info_at p t = Some (b, s).
Proof.
  unfold st_at, info_at. destruct (get_sub p t) as [n|].
  - split; [intro H; inversion H; eauto|intros [b H]; inversion H; reflexivity].
  - split; [discriminate|intros [b H]; discriminate].
Qed.

Lemma st_at_map_at_other g (Hg : cache_only g) q p t :
  p <> q -> st_at p (map_at q g t) = st_at p t.
Proof.
  intro H. pose proof (info_at_map_at_other g Hg q p t H) as E.
  unfold info_at, st_at in *.
  destruct (get_sub p (map_at q g t)), (get_sub p t); inversion E; congruence.
Qed.

Lemma token_eq_dec (a b : token) : {a = b} + {a <> b}.
Proof.
  decide equality.
  - decide equality.
  - apply state_eq_dec.
  - apply (list_eq_dec Nat.eq_dec).
Qed.

Lemma In_replace_nth_other {A} (k k0 k' : A) l i :
  In k l -> nth_error l i = Some k0 -> k <> k0 -> In k (replace_nth i k' l).
Proof.
  intros Hin Hn Hne. apply In_nth_error in Hin. destruct Hin as [j Hj].
  assert (i <> j) by (intro; subst; congruence).
  eapply nth_error_In. rewrite nth_error_replace_other by exact H. exact Hj.
Qed.

Lemma In_replace_nth_new {A} (k0 k' : A) l i :
  nth_error l i = Some k0 -> In k' (replace_nth i k' l).
Proof.
  intro Hn. eapply nth_error_In. apply nth_error_replace_same.
  apply nth_error_Some. congruence.
Qed.

(* a token that is about to hand ERROR over the edge into node q's parent *)
Definition ewit (q : list nat) (k : token) : Prop :=
  tk_path k = q /\ ((tk_ph k = PFwd /\ tk_val k = ERROR) \/ tk_ph k = PRead).

(* edge-local invariant: a counted child in ERROR has an ERROR parent, or a token is on that
   edge which will deliver ERROR *)
Definition EL (c : cstate) : Prop :=
  forall p i, info_at (p ++ [i]) (c_tree c) = Some (true, ERROR) ->
    st_at p (c_tree c) = Some ERROR \/ exists k, In k (c_toks c) /\ ewit (p ++ [i]) k.

Lemma fold_state_ERROR_child cs i c :
  nth_error cs i = Some c -> counted c = true -> st_of c = ERROR -> fold_state cs = ERROR.
Proof.
  intros Hn Hc Hs. destruct (nth_error_split_len _ _ _ Hn) as [l1 [l2 [-> _]]].
  rewrite fold_state_split. unfold contrib. rewrite Hc, Hs. apply stateX_ERROR_l.
Qed.

Lemma merge_state_ERROR_in cache cs : merge_state cache ERROR cs = ERROR.
Proof. unfold merge_state. destruct cache; reflexivity. Qed.

Lemma merge_state_keeps_ERROR s cs : fold_state cs = ERROR -> merge_state ERROR s cs = ERROR.
Proof. intro H. unfold merge_state. destruct s; cbn; auto. Qed.

Lemma removelast_app1 {A} (p : list A) i : removelast (p ++ [i]) = p.
Proof. apply removelast_last. Qed.

Lemma app_last_neq_nil {A} (p : list A) i : p ++ [i] <> [].
Proof. destruct p; discriminate. Qed.

Lemma exists_last' {A} (q : list A) : q <> [] -> exists p i, q = p ++ [i].
Proof. intro H. destruct (exists_last H) as [p [i E]]. eauto. Qed.

Lemma app_single_inj {A} (p p' : list A) i i' : p ++ [i] = p' ++ [i'] -> p = p' /\ i = i'.
Proof. apply app_inj_tail. Qed.

(* a token that is no witness can change without harm *)
Lemma EL_keep_witness (k k0 k' : token) toks i0 q :
  In k toks -> nth_error toks i0 = Some k0 -> ewit q k -> ~ ewit q k0 ->
  In k (replace_nth i0 k' toks).
Proof.
  intros Hin Hn Hw Hn0. eapply In_replace_nth_other; [exact Hin|exact Hn|].
  intro E. subst k. contradiction.
Qed.

Lemma EL_step i0 c : EL c -> EL (cstep i0 c).
Proof.
  intro H. unfold cstep.
  destruct (nth_error (c_toks c) i0) as [k0|] eqn:Hk0; [|exact H].
  destruct c as [t toks ad]. cbn [c_tree c_toks c_adapter] in *.
  destruct k0 as [q v ph]. unfold step_tok. cbn [tk_ph tk_path tk_val].
  (* the generic "nothing relevant changed" argument *)
  assert (Hsame : forall k' ad',
             (forall p i, ~ ewit (p ++ [i]) (mkTok q v ph)) ->
             EL (mkC t (replace_nth i0 k' toks) ad')).
  { intros k' ad' Hnw p i Hinfo. cbn [c_tree c_toks] in *.
    destruct (H p i Hinfo) as [Hs|[k [Hin Hw]]]; [left; exact Hs|].
    right. exists k. split; [|exact Hw].
    eapply EL_keep_witness; eauto. }
  destruct ph.
  - (* PWrite *)
    assert (Hnw : forall e, ~ ewit e (mkTok q v PWrite)).
    { intros e [_ [[Hph _]|Hph]]; discriminate. }
    destruct (get_sub q t) as [[cr s0 x0|s0 x0 cs0]|] eqn:Hq.
    + (* a leaf is written *)
      intros p i Hinfo. cbn [c_tree c_toks] in *.
      destruct (list_eq_dec Nat.eq_dec (p ++ [i]) q) as [Epq|Npq].
      * (* the edge above the written leaf *)
        right. exists (mkTok q v (if cr then PFwd else PDone)).
        split; [eapply In_replace_nth_new; exact Hk0|].
        unfold info_at in Hinfo. rewrite Epq in Hinfo.
        rewrite (get_sub_map_at_same _ q t _ Hq) in Hinfo. cbn in Hinfo.
        injection Hinfo as Hcr Hv. subst cr v.
        split; [symmetry; exact Epq|]. left. split; reflexivity.
      * rewrite (info_at_map_at_other _ (cache_only_write v) q (p ++ [i]) t Npq) in Hinfo.
        destruct (list_eq_dec Nat.eq_dec p q) as [Ep|Np].
        { (* below a leaf there is nothing *)
          subst p. unfold info_at in Hinfo. rewrite get_sub_app, Hq in Hinfo.
          cbn in Hinfo. destruct i; discriminate. }
        rewrite (st_at_map_at_other _ (cache_only_write v) q p t Np).
        destruct (H p i Hinfo) as [Hs|[k [Hin Hw]]]; [left; exact Hs|].
        right. exists k. split; [|exact Hw].
        eapply EL_keep_witness; eauto.
    + apply Hsame. intros; apply Hnw.
    + apply Hsame. intros; apply Hnw.
  - (* PFwd *)
    destruct q as [|a q0] eqn:Eq.
    + (* at the root: handed to the ParentAdapter *)
      apply Hsame. intros p i [Hp _]. cbn in Hp. symmetry in Hp.
      exact (app_last_neq_nil _ _ Hp).
    + (* merge into the parent *)
      rewrite <- Eq in *. assert (Hq : q <> []) by (subst q; discriminate). clear Eq a q0.
      destruct (exists_last' q Hq) as [p' [i' ->]].
      rewrite removelast_app1.
      intros p i Hinfo. cbn [c_tree c_toks] in *.
      destruct (list_eq_dec Nat.eq_dec (p ++ [i]) p') as [Epq|Npq].
      * (* the edge above the merged node: the token itself, now in PRead *)
        right. exists (mkTok p' v PRead).
        split; [eapply In_replace_nth_new; exact Hk0|].
        split; [symmetry; exact Epq|right; reflexivity].
      * rewrite (info_at_map_at_other _ (cache_only_merge v) p' (p ++ [i]) t Npq) in Hinfo.
        destruct (list_eq_dec Nat.eq_dec p p') as [Ep|Np].
        { (* an edge below the merged node *)
          subst p'.
          assert (Hnode : exists n ci, get_sub p t = Some n /\ nth_error (children n) i = Some ci /\
                                       counted ci = true /\ st_of ci = ERROR).
          { unfold info_at in Hinfo. rewrite get_sub_app in Hinfo.
            destruct (get_sub p t) as [n|]; [|discriminate]. cbn [get_sub] in Hinfo.
            destruct (nth_error (children n) i) as [ci|] eqn:Hci; [|discriminate].
            injection Hinfo as Hc1 Hc2. eauto 6. }
          destruct Hnode as [n [ci [Hn [Hci [Hcc Hcs]]]]].
          assert (Hnew : forall s0 x0 cs0, n = Agg s0 x0 cs0 ->
                     st_at p (map_at p (merge_f v) t) = Some (merge_state s0 v cs0)).
          { intros s0 x0 cs0 ->. unfold st_at. rewrite (get_sub_map_at_same _ p t _ Hn).
            reflexivity. }
          destruct n as [cr s0 x0|s0 x0 cs0]; [destruct i; discriminate|].
          cbn [children] in Hci. rewrite (Hnew s0 x0 cs0 eq_refl).
          destruct (H p i Hinfo) as [Hs|[k [Hin Hw]]].
          - left. cbn [c_tree] in Hs. unfold st_at in Hs. rewrite Hn in Hs. cbn in Hs. injection Hs as Hs. subst s0.
            f_equal. apply merge_state_keeps_ERROR. eapply fold_state_ERROR_child; eauto.
          - cbn [c_toks] in Hin. destruct (token_eq_dec k (mkTok (p ++ [i']) v PFwd)) as [Ek|Nk].
            + left. subst k. destruct Hw as [_ [[_ Hv]|Hph]]; [|discriminate].
              cbn in Hv. subst v. f_equal. apply merge_state_ERROR_in.
            + right. exists k. split; [|exact Hw].
              eapply In_replace_nth_other; eauto. }
        rewrite (st_at_map_at_other _ (cache_only_merge v) p' p t Np).
        destruct (H p i Hinfo) as [Hs|[k [Hin Hw]]]; [left; exact Hs|].
        right. exists k. split; [|exact Hw].
        eapply In_replace_nth_other; [exact Hin|exact Hk0|].
        intro E. subst k. destruct Hw as [Hp _]. cbn in Hp.
        apply app_single_inj in Hp. destruct Hp as [Hp _]. congruence.
  - (* PRead *)
    destruct (st_at q t) as [s|] eqn:Hs.
    + intros p i Hinfo. cbn [c_tree c_toks] in *.
      destruct (H p i Hinfo) as [Hs'|[k [Hin Hw]]]; [left; exact Hs'|].
      right.
      destruct (token_eq_dec k (mkTok q v PRead)) as [Ek|Nk].
      * (* the reading token was the witness: it now carries the ERROR it read *)
        subst k. destruct Hw as [Hp _]. cbn in Hp. subst q.
        assert (s = ERROR).
        { unfold info_at in Hinfo. unfold st_at in Hs.
          destruct (get_sub (p ++ [i]) t); [|discriminate]. congruence. }
        subst s. exists (mkTok (p ++ [i]) ERROR PFwd).
        split; [eapply In_replace_nth_new; exact Hk0|].
        split; [reflexivity|left; split; reflexivity].
      * exists k. split; [|exact Hw]. eapply In_replace_nth_other; eauto.
    + (* no such node: the token cannot have been a witness *)
      intros p i Hinfo. cbn [c_tree c_toks] in *.
      destruct (H p i Hinfo) as [Hs'|[k [Hin Hw]]]; [left; exact Hs'|].
      right. exists k. split; [|exact Hw].
      eapply In_replace_nth_other; [exact Hin|exact Hk0|].
      intro E. subst k. destruct Hw as [Hp _]. cbn in Hp. subst q.
      unfold info_at in Hinfo. unfold st_at in Hs.
      destruct (get_sub (p ++ [i]) t); discriminate.
  - (* PDone *)
    intros p i Hinfo. cbn [c_tree c_toks] in *.
    rewrite (replace_nth_same _ _ _ Hk0). exact (H p i Hinfo).
Qed.

Lemma EL_run sched : forall c, EL c -> EL (run_sched sched c).
Proof.
  induction sched as [|i sched IH]; intros c H; [exact H|].
  cbn [run_sched fold_left]. apply IH, EL_step, H.
Qed.

(* every counted child in ERROR has an ERROR parent *)
Definition EdgeOK (t : rtree) : Prop :=
  forall p i, info_at (p ++ [i]) t = Some (true, ERROR) -> st_at p t = Some ERROR.

Lemma Inv_EdgeOK w t : Inv w t -> EdgeOK t.
Proof.
  intros H p i Hinfo. unfold info_at in Hinfo. rewrite get_sub_app in Hinfo.
  destruct (get_sub p t) as [n|] eqn:Hn; [|discriminate].
  cbn [get_sub] in Hinfo.
  destruct (nth_error (children n) i) as [ci|] eqn:Hci; [|discriminate].
  injection Hinfo as Hc Hs.
  unfold st_at. rewrite Hn. f_equal.
  pose proof (Inv_sub w p t n H Hn) as Hin.
  destruct n as [cr s0 x0|s0 x0 cs0]; [destruct i; discriminate|].
  cbn [children] in Hci. apply Inv_Agg in Hin. destruct Hin as [[[_ He]|Hs0] _].
  - rewrite (existsb_counted_nth cs0 i ci Hci Hc) in He. discriminate.
  - cbn [st_of]. rewrite Hs0. eapply fold_state_ERROR_child; eauto.
Qed.

Lemma pending_no_witness ups q k : In k (pending ups) -> ~ ewit q k.
Proof.
  unfold pending. intro Hin. apply in_map_iff in Hin. destruct Hin as [u [<- _]].
  intros [_ [[Hph _]|Hph]]; discriminate.
Qed.

Lemma EL_init t ups : EdgeOK t -> EL (cinit t ups).
Proof. intros H p i Hinfo. left. exact (H p i Hinfo). Qed.

Lemma quiescent_no_witness c q k : quiescent c = true -> In k (c_toks c) -> ~ ewit q k.
Proof.
  unfold quiescent. rewrite forallb_forall. intros Hq Hin [_ Hw].
  specialize (Hq k Hin). unfold tok_done in Hq.
  destruct Hw as [[Hph _]|Hph]; rewrite Hph in Hq; discriminate.
Qed.

Lemma EL_quiescent c : EL c -> quiescent c = true -> EdgeOK (c_tree c).
Proof.
  intros H Hq p i Hinfo. destruct (H p i Hinfo) as [Hs|[k [Hin Hw]]]; [exact Hs|].
  exfalso. exact (quiescent_no_witness c _ k Hq Hin Hw).
Qed.

(* from edges to whole paths: every proper ancestor of a critical leaf in ERROR is in ERROR *)
Lemma EdgeOK_ancestors t : EdgeOK t ->
  forall r p x, r <> [] -> get_sub (p ++ r) t = Some (Leaf true ERROR x) ->
  st_at p t = Some ERROR.
Proof.
  intros H r. induction r as [|i r IH]; intros p x Hr Hg; [congruence|].
  destruct r as [|j r].
  - apply (H p i). unfold info_at. rewrite Hg. reflexivity.
  - assert (Hg' : get_sub ((p ++ [i]) ++ j :: r) t = Some (Leaf true ERROR x)).
    { rewrite <- app_assoc. exact Hg. }
    pose proof (IH (p ++ [i]) x ltac:(discriminate) Hg') as Hs.
    apply (H p i). unfold info_at. unfold st_at in Hs.
    rewrite get_sub_app in Hg'.
    destruct (get_sub (p ++ [i]) t) as [n|]; [|discriminate].
    injection Hs as Hs. rewrite Hs.
    destruct n as [cr s0 x0|s0 x0 cs0]; [cbn in Hg'; destruct j; discriminate|reflexivity].
Qed.

Lemma never_lost w t ups sched :
  Inv w t ->
  let c := run_sched sched (cinit t ups) in
  quiescent c = true ->
  forall p r x, r <> [] -> get_sub (p ++ r) (c_tree c) = Some (Leaf true ERROR x) ->
  st_at p (c_tree c) = Some ERROR.
Proof.
  intros H c Hq p r x Hr Hg.
  eapply EdgeOK_ancestors; [|exact Hr|exact Hg].
  apply EL_quiescent; [|exact Hq].
  apply EL_run, EL_init, (Inv_EdgeOK w), H.
Qed.

(* at every moment, not only at quiescence: the ERROR is in the parent or on its way *)
Lemma never_lost_in_flight w t ups sched :
  Inv w t -> EL (run_sched sched (cinit t ups)).
Proof. intro H. apply EL_run, EL_init, (Inv_EdgeOK w), H. Qed.

(* ---- section 7b of the model: merges are atomic because the source says so ---- *)

(* the lock discipline counted by the translator is the one the token semantics assumes *)
Lemma merge_atomic_in_source : merge_is_atomic = true.
Proof. vm_compute. reflexivity. Qed.

Lemma merge_atomic_in_source_spelled :
  merge_is_atomic = true /\
  (section_ok state_merge_facts = true /\ section_ok status_merge_facts = true /\
   lf_entry state_merge_facts = 1 /\ lf_entry status_merge_facts = 1 /\
   lf_locks state_merge_facts = 1 /\ lf_locks status_merge_facts = 1 /\
   lf_agg_out state_merge_facts = 0 /\ lf_agg_out status_merge_facts = 0 /\
   section_ok state_get_facts = true /\ section_ok status_get_facts = true /\
   direct_accesses_runtime = 0).
Proof.
  vm_compute. repeat split; reflexivity.
Qed.

Lemma state_merge_atomic_in_source : state_merge_atomic = true.
Proof. vm_compute. reflexivity. Qed.

Lemma run_sched_g_atomic sched : forall g,
  run_sched_g true sched g = mkG (run_sched sched (g_c g)) (g_pend g).
Proof.
  unfold run_sched_g, run_sched.
  induction sched as [|i s IH]; intro g; cbn [fold_left].
  - destruct g; reflexivity.
  - rewrite IH. reflexivity.
Qed.

Lemma never_lost_g (atomic : bool) w t ups sched :
  atomic = true ->
  Inv w t ->
  let g := run_sched_g atomic sched (ginit t ups) in
  gquiescent g = true ->
  forall p r x, r <> [] -> get_sub (p ++ r) (g_tree g) = Some (Leaf true ERROR x) ->
  st_at p (g_tree g) = Some ERROR.
Proof.
  intros Ha H g Hq p r x Hr Hg. subst atomic g.
  rewrite run_sched_g_atomic in *. unfold gquiescent, g_tree in *. cbn [g_c g_pend ginit] in *.
  apply andb_true_iff in Hq. destruct Hq as [Hq _].
  exact (never_lost w t ups sched H Hq p r x Hr Hg).
Qed.

(* the theorem about the code: the switch is set by the translated lock facts *)
Lemma never_lost_src w t ups sched :
  Inv w t ->
  let g := run_sched_g state_merge_atomic sched (ginit t ups) in
  gquiescent g = true ->
  forall p r x, r <> [] -> get_sub (p ++ r) (g_tree g) = Some (Leaf true ERROR x) ->
  st_at p (g_tree g) = Some ERROR.
Proof. exact (never_lost_g state_merge_atomic w t ups sched state_merge_atomic_in_source). Qed.

(* with the lock released between re-aggregating and storing, the statement is false, already on
   a loaded tree of two critical tasks: B := CONFIGURED is inside the recompute (it has read A as
   STANDBY) when A := ERROR is merged through the ERROR shortcut; B then stores MIXED *)
Definition never_lost_split_statement : Prop :=
  forall t0 ups sched,
    let g := run_sched_g false sched (ginit (fresh t0) ups) in
    gquiescent g = true ->
    forall p r x, r <> [] -> get_sub (p ++ r) (g_tree g) = Some (Leaf true ERROR x) ->
    st_at p (g_tree g) = Some ERROR.

Definition wit_s_tree : rtree :=
  Agg STANDBY INACTIVE [Leaf true STANDBY INACTIVE; Leaf true STANDBY INACTIVE].
Definition wit_s_ups : list (list nat * state) := [([0]%nat, CONFIGURED); ([1]%nat, ERROR)].
Definition wit_s_sched : list nat := [0; 0; 1; 1; 1; 1; 0; 0; 0]%nat.

Lemma never_lost_split_refuted : ~ never_lost_split_statement.
Proof.
  intro H.
  specialize (H wit_s_tree wit_s_ups wit_s_sched eq_refl [] [1%nat] INACTIVE
                (fun e => match e with eq_refl => I end) eq_refl).
  vm_compute in H. discriminate.
Qed.

Lemma wit_s_facts :
  fresh wit_s_tree = wit_s_tree /\ all_counted wit_s_tree = true /\
  g_tree (run_sched_g false wit_s_sched (ginit wit_s_tree wit_s_ups)) =
    Agg MIXED INACTIVE [Leaf true CONFIGURED INACTIVE; Leaf true ERROR INACTIVE] /\
  c_adapter (g_c (run_sched_g false wit_s_sched (ginit wit_s_tree wit_s_ups))) = [ERROR; MIXED] /\
  (* the same schedule minus the extra step, with atomic merges: nothing is lost *)
  g_tree (run_sched_g true wit_s_sched (ginit wit_s_tree wit_s_ups)) =
    Agg ERROR INACTIVE [Leaf true CONFIGURED INACTIVE; Leaf true ERROR INACTIVE].
Proof. vm_compute. repeat split; reflexivity. Qed.

(* ================================================================== *)
(* 9. The full statements, where the code falls short, and what holds  *)
(* ================================================================== *)

(* "after any sequence of updates every role reports the combination of its children", for
   every tree as the loader leaves it *)
Definition fold_statement : Prop :=
  forall t0 ops p n,
    get_sub p (run_ops ops (fresh t0)) = Some n -> is_agg n = true ->
    st_of n = spec_state (crit_states n) /\ stat_of n = spec_status (leaf_stats n).

(* C11-a: an aggregator whose only child is a non-critical task, next to a critical task;
   the critical task goes to CONFIGURED: the root says MIXED *)
Definition wit_a_tree : rtree :=
  Agg STANDBY INACTIVE [Agg STANDBY INACTIVE [Leaf false STANDBY INACTIVE];
                        Leaf true STANDBY INACTIVE].
Definition wit_a_ops : list op := [OpState [1%nat] CONFIGURED].

Lemma fold_statement_refuted : ~ fold_statement.
Proof.
  intro H. specialize (H wit_a_tree wit_a_ops [] _ eq_refl eq_refl).
  vm_compute in H. destruct H as [H _]. discriminate.
Qed.

Lemma fold_partial t0 ops p n :
  all_counted t0 = true ->
  get_sub p (run_ops ops (fresh t0)) = Some n -> is_agg n = true ->
  st_of n = spec_state (crit_states n) /\ stat_of n = spec_status (leaf_stats n).
Proof.
  intros Hc Hg Ha. eapply deep_spec; [|exact Hg|exact Ha].
  apply run_ops_Inv, fresh_strong_iff, Hc.
Qed.

Lemma fold_consistent t ops p n :
  Inv false t ->
  get_sub p (run_ops ops t) = Some n -> is_agg n = true ->
  st_of n = spec_state (crit_states n) /\ stat_of n = spec_status (leaf_stats n).
Proof.
  intros Hi Hg Ha. eapply deep_spec; [|exact Hg|exact Ha]. apply run_ops_Inv, Hi.
Qed.

(* "an ERROR is never invented at the root, also when updates arrive concurrently" *)
Definition not_invented_statement : Prop :=
  forall t0 ups sched,
    let c := run_sched sched (cinit (fresh t0) ups) in
    quiescent c = true ->
    st_of (c_tree c) = ERROR -> In ERROR (crit_states (c_tree c)).

(* C11-b: ERROR is written to a leaf, the call is overtaken by a complete STANDBY update of the
   same leaf, then the stale ERROR is merged upwards *)
Definition wit_b_tree : rtree :=
  Agg STANDBY INACTIVE [Agg STANDBY INACTIVE [Leaf true STANDBY INACTIVE; Leaf true STANDBY INACTIVE];
                        Leaf true STANDBY INACTIVE].
Definition wit_b_ups : list (list nat * state) := [([0; 0]%nat, ERROR); ([0; 0]%nat, STANDBY)].
Definition wit_b_sched : list nat := [0; 1; 1; 1; 1; 1; 1; 0; 0; 0; 0; 0]%nat.

Lemma not_invented_refuted : ~ not_invented_statement.
Proof.
  intro H. specialize (H wit_b_tree wit_b_ups wit_b_sched eq_refl eq_refl).
  vm_compute in H. intuition discriminate.
Qed.

Lemma wit_b_all_counted : all_counted wit_b_tree = true.
Proof. reflexivity. Qed.

(* without interleaving nothing is invented: a consistent tree reports ERROR exactly where a
   critical task below is in ERROR *)
Lemma error_iff_seq t ops p n :
  Inv false t ->
  get_sub p (run_ops ops t) = Some n -> is_agg n = true ->
  (st_of n = ERROR <-> In ERROR (crit_states n)).
Proof.
  intros Hi Hg Ha. destruct (fold_consistent t ops p n Hi Hg Ha) as [Hs _].
  rewrite Hs, <- foldX_spec. apply foldX_ERROR.
Qed.

(* the two folds, as the text puts them *)
Lemma foldX_contrib_filter cs :
  foldX (map contrib cs) = foldX (map st_of (filter counted cs)).
Proof.
  induction cs as [|c cs IH]; [reflexivity|].
  cbn [map filter]. unfold contrib at 1. destruct (counted c).
  - cbn [map]. rewrite !foldX_cons, IH. reflexivity.
  - rewrite foldX_cons, stateX_INV_l. exact IH.
Qed.

Lemma fold_state_text cs : fold_state cs = spec_state (map st_of (filter counted cs)).
Proof. rewrite fold_state_contrib, foldX_contrib_filter. apply foldX_spec. Qed.

Lemma fold_status_text cs : fold_status cs = spec_status (map stat_of cs).
Proof. rewrite fold_status_foldS. apply foldS_spec. Qed.

Lemma state_product_laws :
  (forall a b, stateX a b = stateX b a) /\
  (forall a b c, stateX a (stateX b c) = stateX (stateX a b) c) /\
  (forall a, stateX a a = a) /\
  (forall a, stateX ERROR a = ERROR) /\
  (forall a, stateX INVARIANT a = a).
Proof.
  repeat split; intros.
  - apply stateX_comm. - apply stateX_assoc. - apply stateX_idem.
  - apply stateX_ERROR_l. - apply stateX_INV_l.
Qed.

Lemma status_product_laws :
  (forall a b, statusX a b = statusX b a) /\
  (forall a b c, statusX a (statusX b c) = statusX (statusX a b) c) /\
  (forall a, statusX a a = a) /\
  (forall a, statusX UNDEFINED a = UNDEFINED) /\
  (forall a, a <> UNDEFINED -> statusX UNDEPLOYABLE a = UNDEPLOYABLE) /\
  statusX ACTIVE INACTIVE = PARTIAL.
Proof.
  repeat split; intros.
  - apply statusX_comm. - apply statusX_assoc. - apply statusX_idem.
  - apply statusX_UNDEF_l. - apply statusX_UNDEPL; assumption.
Qed.

Lemma stateX_tied :
  (forall a b, enum_lookup (N_of_state a) (N_of_state b) stateX_enum = Some (N_of_state (stateX a b))) /\
  length stateX_enum = 64%nat /\
  map N_of_state all_states =
  [go_state_UNKNOWN; go_state_STANDBY; go_state_CONFIGURED; go_state_RUNNING;
   go_state_ERROR; go_state_DONE; go_state_MIXED; go_state_INVARIANT] /\
  (forall s, In s all_states).
Proof.
  split; [exact stateX_enum_complete|]. split; [exact stateX_enum_size|].
  split; [exact state_codes_ok|exact all_states_complete].
Qed.

Lemma statusX_tied :
  (forall a b, enum_lookup (N_of_status a) (N_of_status b) statusX_enum = Some (N_of_status (statusX a b))) /\
  length statusX_enum = 25%nat /\
  map N_of_status all_statuses =
  [go_status_UNDEFINED; go_status_INACTIVE; go_status_PARTIAL; go_status_ACTIVE;
   go_status_UNDEPLOYABLE] /\
  map N_of_status all_statuses =
  [src_status_UNDEFINED; src_status_INACTIVE; src_status_PARTIAL; src_status_ACTIVE;
   src_status_UNDEPLOYABLE] /\
  (forall s, In s all_statuses).
Proof.
  split; [exact statusX_enum_complete|]. split; [exact statusX_enum_size|].
  split; [exact (proj1 status_codes_ok)|]. split; [exact (proj2 status_codes_ok)|].
  exact all_statuses_complete.
Qed.

Lemma order_independent cs cs' :
  Permutation cs cs' -> fold_state cs = fold_state cs' /\ fold_status cs = fold_status cs'.
Proof. intro H. split; [apply fold_state_perm, H|apply fold_status_perm, H]. Qed.

Lemma loaded_invariant t :
  Inv true (fresh t) /\ (Inv false (fresh t) <-> all_counted t = true).
Proof. split; [apply fresh_weak|apply fresh_strong_iff]. Qed.

(* ================================================================== *)
(* 10. The sequential semantics is the token semantics under           *)
(*     schedules that run one call at a time                           *)
(* ================================================================== *)

Fixpoint tok_run (n : nat) (t : rtree) (k : token) : rtree * token * list state :=
  match n with
  | O => (t, k, [])
  | S n' =>
      match step_tok t k with
      | (t', k', out) =>
          match tok_run n' t' k' with
          | (t'', k'', outs) =>
              (t'', k'', match out with Some s => s :: outs | None => outs end)
          end
      end
  end.

Definition lift (i : nat) (k : token) : token := mkTok (i :: tk_path k) (tk_val k) (tk_ph k).

Definition emits (k : token) : bool :=
  match tk_ph k, tk_path k with PFwd, [] => true | _, _ => false end.

Lemma step_tok_out t k : emits k = false -> snd (step_tok t k) = None.
Proof.
  destruct k as [q v ph]. unfold emits, step_tok. cbn [tk_ph tk_path tk_val].
  destruct ph; intro H.
  - destruct (get_sub q t) as [[? ? ?|? ? ?]|]; reflexivity.
  - destruct q; [discriminate|reflexivity].
  - destruct (st_at q t); reflexivity.
  - reflexivity.
Qed.

Lemma step_tok_emits t k : emits k = true -> exists s, snd (step_tok t k) = Some s.
Proof.
  destruct k as [q v ph]. unfold emits, step_tok. cbn [tk_ph tk_path tk_val].
  destruct ph; try discriminate. destruct q; [|discriminate]. intros _. eexists. reflexivity.
Qed.

Lemma step_tok_lift s x cs i c k c' k' out :
  nth_error cs i = Some c -> emits k = false ->
  step_tok c k = (c', k', out) ->
  step_tok (Agg s x cs) (lift i k) = (Agg s x (replace_nth i c' cs), lift i k', None).
Proof.
  intros Hn He Hs.
  destruct k as [q v ph]. unfold emits in He. unfold lift, step_tok in *.
  cbn [tk_ph tk_path tk_val] in *.
  destruct ph.
  - cbn [get_sub children]. rewrite Hn.
    destruct (get_sub q c) as [[cr s0 x0|s0 x0 cs0]|] eqn:Hq.
    + inversion Hs; subst. cbn [map_at]. rewrite Hn. reflexivity.
    + inversion Hs; subst. rewrite (replace_nth_same _ _ _ Hn). reflexivity.
    + inversion Hs; subst. rewrite (replace_nth_same _ _ _ Hn). reflexivity.
  - destruct q as [|a q0]; [discriminate|].
    inversion Hs; subst. cbn [removelast map_at]. 
    change (removelast (i :: a :: q0)) with (i :: removelast (a :: q0)).
    cbn [map_at]. rewrite Hn. reflexivity.
  - assert (E : st_at (i :: q) (Agg s x cs) = st_at q c).
    { unfold st_at. cbn [get_sub children]. rewrite Hn. reflexivity. }
    rewrite E. destruct (st_at q c); inversion Hs; subst;
      rewrite (replace_nth_same _ _ _ Hn); reflexivity.
  - inversion Hs; subst. rewrite (replace_nth_same _ _ _ Hn). reflexivity.
Qed.

Lemma tok_run_lift n : forall s x cs i c k c' k',
  nth_error cs i = Some c ->
  tok_run n c k = (c', k', []) ->
  tok_run n (Agg s x cs) (lift i k) = (Agg s x (replace_nth i c' cs), lift i k', []).
Proof.
  induction n as [|n IH]; intros s x cs i c k c' k' Hn Hr.
  - cbn in *. inversion Hr; subst. rewrite (replace_nth_same _ _ _ Hn). reflexivity.
  - cbn [tok_run] in *.
    destruct (step_tok c k) as [[c1 k1] out] eqn:Hs.
    destruct (tok_run n c1 k1) as [[c2 k2] outs] eqn:Hr2.
    assert (He : emits k = false).
    { destruct (emits k) eqn:E; [|reflexivity].
      destruct (step_tok_emits c k E) as [s0 Hs0]. rewrite Hs in Hs0. cbn in Hs0. subst out.
      inversion Hr. }
    pose proof (step_tok_out c k He) as Ho. rewrite Hs in Ho. cbn in Ho. subst out.
    inversion Hr; subst.
    rewrite (step_tok_lift s x cs i c k c1 k1 None Hn He Hs).
    assert (Hn1 : nth_error (replace_nth i c1 cs) i = Some c1).
    { apply nth_error_replace_same. apply nth_error_Some. congruence. }
    rewrite (IH s x (replace_nth i c1 cs) i c1 k1 c' k' Hn1 Hr2).
    rewrite replace_nth_twice. reflexivity.
Qed.

Lemma tok_run_done n : forall t k, tk_ph k = PDone -> tok_run n t k = (t, k, []).
Proof.
  induction n as [|n IH]; intros t k H; [reflexivity|].
  cbn [tok_run]. unfold step_tok. rewrite H. rewrite (IH t k H). reflexivity.
Qed.

Lemma tok_run_add n m t k :
  tok_run (n + m) t k =
  match tok_run n t k with
  | (t1, k1, o1) => match tok_run m t1 k1 with (t2, k2, o2) => (t2, k2, o1 ++ o2) end
  end.
Proof.
  revert t k. induction n as [|n IH]; intros t k.
  - cbn. destruct (tok_run m t k) as [[? ?] ?]. reflexivity.
  - cbn [Nat.add tok_run]. destruct (step_tok t k) as [[t' k'] out].
    rewrite IH. destruct (tok_run n t' k') as [[t1 k1] o1].
    destruct (tok_run m t1 k1) as [[t2 k2] o2]. destruct out; reflexivity.
Qed.

(* after 2*depth+1 steps the call has done everything but telling the ParentAdapter *)
Lemma alone_run : forall p v t,
  exists k', tok_run (2 * length p + 1) t (mkTok p v PWrite) = (fst (upd_state p v t), k', []) /\
             match snd (upd_state p v t) with
             | Some s => k' = mkTok [] s PFwd
             | None => tk_ph k' = PDone
             end.
Proof.
  induction p as [|i p IH]; intros v t.
  - cbn [length Nat.mul Nat.add tok_run]. unfold step_tok. cbn [tk_ph tk_path tk_val get_sub].
    destruct t as [c s x|s x cs]; cbn [map_at write_leaf_f upd_state fst snd].
    + destruct c; eexists; split; reflexivity.
    + eexists; split; reflexivity.
  - replace (2 * length (i :: p) + 1)%nat with ((2 * length p + 1) + 2)%nat by (cbn [length]; lia).
    destruct t as [c s x|s x cs].
    { (* below a leaf: nothing *)
      exists (mkTok (i :: p) v PDone). split; [|reflexivity].
      replace (2 * length p + 1 + 2)%nat with (S (2 * length p + 2))%nat by lia.
      cbn [tok_run]. unfold step_tok at 1. cbn [tk_ph tk_path tk_val get_sub children].
      assert (E : nth_error (@nil rtree) i = None) by (destruct i; reflexivity).
      rewrite E. rewrite tok_run_done by reflexivity. reflexivity. }
    cbn [upd_state].
    destruct (nth_error cs i) as [c|] eqn:Hn.
    2:{ exists (mkTok (i :: p) v PDone). split; [|reflexivity].
        replace (2 * length p + 1 + 2)%nat with (S (2 * length p + 2))%nat by lia.
        cbn [tok_run]. unfold step_tok at 1. cbn [tk_ph tk_path tk_val get_sub children].
        rewrite Hn. rewrite tok_run_done by reflexivity. reflexivity. }
    destruct (IH v c) as [k1 [Hrun Hk1]].
    rewrite tok_run_add.
    change (mkTok (i :: p) v PWrite) with (lift i (mkTok p v PWrite)).
    rewrite (tok_run_lift _ s x cs i c _ _ _ Hn Hrun).
    destruct (upd_state p v c) as [c' fwd]. cbn [fst snd] in *.
    destruct fwd as [s1|].
    + subst k1. cbn [fst snd].
      exists (mkTok [] (merge_state s s1 (replace_nth i c' cs)) PFwd). split; [|reflexivity].
      cbn [tok_run]. unfold step_tok, lift. cbn [tk_ph tk_path tk_val removelast map_at merge_f].
      unfold st_at. cbn [get_sub st_of]. reflexivity.
    + cbn [fst snd]. exists (lift i k1). split; [|exact Hk1].
      rewrite tok_run_done by exact Hk1. reflexivity.
Qed.

Lemma run_sched_cons i s c : run_sched (i :: s) c = run_sched s (cstep i c).
Proof. reflexivity. Qed.

(* stepping entry i of the token list only touches that entry *)
Lemma run_sched_repeat n : forall i t toks ad k,
  nth_error toks i = Some k ->
  run_sched (repeat i n) (mkC t toks ad) =
  match tok_run n t k with
  | (t', k', outs) => mkC t' (replace_nth i k' toks) (ad ++ outs)
  end.
Proof.
  induction n as [|n IH]; intros i t toks ad k Hk.
  - cbn. rewrite (replace_nth_same _ _ _ Hk), app_nil_r. reflexivity.
  - cbn [repeat]. rewrite run_sched_cons. unfold cstep. cbn [c_toks c_tree c_adapter].
    rewrite Hk. cbn [tok_run].
    destruct (step_tok t k) as [[t1 k1] out].
    rewrite (IH i t1 (replace_nth i k1 toks) _ k1).
    + destruct (tok_run n t1 k1) as [[t2 k2] outs]. rewrite replace_nth_twice.
      destruct out; [rewrite <- app_assoc|]; reflexivity.
    + apply nth_error_replace_same. apply nth_error_Some. congruence.
Qed.

Lemma alone_full p v t :
  exists k', tok_run (alone_steps p) t (mkTok p v PWrite) =
             (fst (upd_state p v t), k',
              match snd (upd_state p v t) with Some s => [s] | None => [] end) /\
             tk_ph k' = PDone.
Proof.
  unfold alone_steps.
  replace (2 * length p + 2)%nat with ((2 * length p + 1) + 1)%nat by lia.
  destruct (alone_run p v t) as [k1 [Hrun Hk1]].
  rewrite tok_run_add, Hrun.
  destruct (snd (upd_state p v t)) as [s|].
  - subst k1. eexists. split; reflexivity.
  - exists k1. rewrite tok_run_done by exact Hk1. split; [reflexivity|exact Hk1].
Qed.

Lemma run_alone_spec p v t :
  c_tree (run_alone p v t) = fst (upd_state p v t) /\
  quiescent (run_alone p v t) = true /\
  c_adapter (run_alone p v t) = match snd (upd_state p v t) with Some s => [s] | None => [] end.
Proof.
  unfold run_alone, cinit, pending. cbn [map fst snd].
  rewrite (run_sched_repeat (alone_steps p) 0 t [mkTok p v PWrite] [] (mkTok p v PWrite) eq_refl).
  destruct (alone_full p v t) as [k' [Hrun Hk']]. rewrite Hrun.
  cbn [c_tree c_adapter c_toks replace_nth app]. repeat split.
  unfold quiescent. cbn [c_toks forallb]. unfold tok_done. rewrite Hk'. reflexivity.
Qed.

(* several calls, one after the other *)
Fixpoint seq_sched_from (j : nat) (ups : list (list nat * state)) : list nat :=
  match ups with
  | [] => []
  | u :: r => repeat j (alone_steps (fst u)) ++ seq_sched_from (S j) r
  end.
Definition seq_sched (ups : list (list nat * state)) : list nat := seq_sched_from 0 ups.

Definition ops_of (ups : list (list nat * state)) : list op :=
  map (fun u => OpState (fst u) (snd u)) ups.

Lemma run_sched_app s1 s2 c : run_sched (s1 ++ s2) c = run_sched s2 (run_sched s1 c).
Proof. unfold run_sched. apply fold_left_app. Qed.

Lemma seq_sched_run : forall ups pre t ad,
  forallb tok_done pre = true ->
  let c := run_sched (seq_sched_from (length pre) ups) (mkC t (pre ++ pending ups) ad) in
  c_tree c = run_ops (ops_of ups) t /\ quiescent c = true.
Proof.
  induction ups as [|[p v] ups IH]; intros pre t ad Hpre; cbn zeta.
  - cbn [seq_sched_from run_sched fold_left pending map ops_of run_ops c_tree].
    split; [reflexivity|]. unfold quiescent. cbn [c_toks]. rewrite app_nil_r. exact Hpre.
  - cbn [seq_sched_from pending map fst snd ops_of run_ops fold_left apply_op].
    rewrite run_sched_app.
    assert (Hk : nth_error (pre ++ mkTok p v PWrite :: pending ups) (length pre) =
                 Some (mkTok p v PWrite)).
    { rewrite nth_error_app2 by lia. rewrite Nat.sub_diag. reflexivity. }
    rewrite (run_sched_repeat _ _ _ _ _ _ Hk).
    destruct (alone_full p v t) as [k' [Hrun Hk']]. rewrite Hrun.
    rewrite replace_nth_app.
    replace (pre ++ k' :: pending ups) with ((pre ++ [k']) ++ pending ups)
      by (rewrite <- app_assoc; reflexivity).
    replace (S (length pre)) with (length (pre ++ [k'])) by (rewrite app_length; cbn; lia).
    apply IH.
    rewrite forallb_app, Hpre. cbn. unfold tok_done. rewrite Hk'. reflexivity.
Qed.

Lemma sequential_schedules t ups :
  let c := run_sched (seq_sched ups) (cinit t ups) in
  c_tree c = run_ops (ops_of ups) t /\ quiescent c = true.
Proof. exact (seq_sched_run ups [] t [] eq_refl). Qed.

Lemma upd_state_is_agg p v t : is_agg (fst (upd_state p v t)) = is_agg t.
Proof.
  destruct p as [|i p], t as [c s x|s x cs]; cbn; try reflexivity.
  destruct (nth_error cs i) as [c|]; [|reflexivity].
  destruct (upd_state p v c) as [c' [f|]]; reflexivity.
Qed.
Lemma upd_status_is_agg p v t : is_agg (fst (upd_status p v t)) = is_agg t.
Proof.
  destruct p as [|i p], t as [c s x|s x cs]; cbn; try reflexivity.
  destruct (nth_error cs i) as [c|]; [|reflexivity].
  destruct (upd_status p v c) as [c' [f|]]; reflexivity.
Qed.
Lemma run_ops_is_agg ops : forall t, is_agg (run_ops ops t) = is_agg t.
Proof.
  induction ops as [|o ops IH]; intro t; [reflexivity|].
  cbn [run_ops fold_left]. fold (run_ops ops (apply_op o t)). rewrite IH.
  destruct o; cbn [apply_op]; [apply upd_state_is_agg|apply upd_status_is_agg].
Qed.
Lemma is_agg_fresh t : is_agg (fresh t) = is_agg t.
Proof. destruct t; reflexivity. Qed.

(* hence, run one call at a time, nothing is invented either *)
Lemma not_invented_sequential t0 ups :
  all_counted t0 = true -> is_agg t0 = true ->
  let c := run_sched (seq_sched ups) (cinit (fresh t0) ups) in
  quiescent c = true /\
  (st_of (c_tree c) = ERROR <-> In ERROR (crit_states (c_tree c))).
Proof.
  intros Hc Ha. cbn zeta.
  destruct (sequential_schedules (fresh t0) ups) as [Ht Hq]. split; [exact Hq|].
  rewrite Ht.
  apply (error_iff_seq (fresh t0) (ops_of ups) [] _); [apply fresh_strong_iff, Hc|reflexivity|].
  rewrite run_ops_is_agg, is_agg_fresh. exact Ha.
Qed.

(* two consistent roles whose critical descendants hold the same states (as multisets) report
   the same state, whatever the nesting and the order of the roles between them and the tasks;
   likewise for the statuses of all descendants *)
Lemma report_depends_on_multiset t t' :
  Inv false t -> Inv false t' -> is_agg t = true -> is_agg t' = true ->
  (Permutation (crit_states t) (crit_states t') -> st_of t = st_of t') /\
  (Permutation (leaf_stats t) (leaf_stats t') -> stat_of t = stat_of t').
Proof.
  intros Hi Hi' Ha Ha'.
  destruct (deep_fold t Hi) as [H1 H2]. destruct (deep_fold t' Hi') as [H1' H2'].
  destruct t as [|s x cs]; [discriminate|]. destruct t' as [|s' x' cs']; [discriminate|].
  unfold contrib in H1, H1'. cbn [counted st_of] in H1, H1'. cbn [st_of stat_of] in *.
  split; intro HP.
  - rewrite H1, H1'. apply foldX_perm, HP.
  - rewrite H2, H2'. apply foldS_perm, HP.
Qed.

(* ================================================================== *)
(* 11. What a loaded tree reports exactly (finding C11-a made precise) *)
(* ================================================================== *)

(* every aggregator without a counted child has a cache satisfying Q *)
Fixpoint exempt_all (Q : state -> bool) (t : rtree) : bool :=
  match t with
  | Leaf _ _ _ => true
  | Agg s _ cs => (existsb counted cs || Q s) && forallb (exempt_all Q) cs
  end.

(* the opinions a loaded tree combines: the critical tasks' states, plus one STANDBY for every
   aggregator that has no counted child *)
Fixpoint opinions_loaded (t : rtree) : list state :=
  match t with
  | Leaf c s _ => if c then [s] else []
  | Agg _ _ cs => if existsb counted cs then flat_map opinions_loaded cs else [STANDBY]
  end.

Lemma forallb_replace_nth {A} (f : A -> bool) i x l :
  forallb f l = true -> f x = true -> forallb f (replace_nth i x l) = true.
Proof.
  revert i. induction l as [|a l IH]; intros [|i] Hl Hx; cbn in *; auto.
  - apply andb_true_iff in Hl. destruct Hl as [_ Hl]. rewrite Hx, Hl. reflexivity.
  - apply andb_true_iff in Hl. destruct Hl as [Ha Hl]. rewrite Ha, IH; auto.
Qed.

Lemma forallb_nth_error {A} (f : A -> bool) l i x :
  forallb f l = true -> nth_error l i = Some x -> f x = true.
Proof. intros H Hn. rewrite forallb_forall in H. apply H. eapply nth_error_In, Hn. Qed.

Lemma upd_state_exempt Q : forall p v t,
  exempt_all Q t = true -> exempt_all Q (fst (upd_state p v t)) = true.
Proof.
  induction p as [|i p IH]; intros v t H.
  - destruct t; cbn; auto.
  - destruct t as [c s x|s x cs]; [exact H|]. cbn [upd_state].
    destruct (nth_error cs i) as [c|] eqn:Hn; [|exact H].
    cbn [exempt_all] in H. apply andb_true_iff in H. destruct H as [H1 H2].
    specialize (IH v c (forallb_nth_error _ _ _ _ H2 Hn)).
    pose proof (upd_state_counted p v c) as Hcnt.
    pose proof (upd_state_fwd_counted p v c) as Hfc.
    destruct (upd_state p v c) as [c' f]. cbn [fst snd] in *.
    destruct f as [inc|]; cbn [fst exempt_all];
      rewrite (existsb_counted_replace cs i c c' Hn Hcnt);
      rewrite (forallb_replace_nth _ i c' cs H2 IH), andb_true_r.
    + rewrite (existsb_counted_nth cs i c Hn (Hfc inc eq_refl)). reflexivity.
    + exact H1.
Qed.

Lemma upd_status_exempt Q : forall p v t,
  exempt_all Q t = true -> exempt_all Q (fst (upd_status p v t)) = true.
Proof.
  induction p as [|i p IH]; intros v t H.
  - destruct t; cbn; auto.
  - destruct t as [c s x|s x cs]; [exact H|]. cbn [upd_status].
    destruct (nth_error cs i) as [c|] eqn:Hn; [|exact H].
    cbn [exempt_all] in H. apply andb_true_iff in H. destruct H as [H1 H2].
    specialize (IH v c (forallb_nth_error _ _ _ _ H2 Hn)).
    pose proof (upd_status_counted p v c) as Hcnt.
    destruct (upd_status p v c) as [c' f]. cbn [fst snd] in *.
    destruct f as [inc|]; cbn [fst exempt_all];
      rewrite (existsb_counted_replace cs i c c' Hn Hcnt);
      rewrite (forallb_replace_nth _ i c' cs H2 IH), andb_true_r; exact H1.
Qed.

Lemma run_ops_exempt Q ops : forall t,
  exempt_all Q t = true -> exempt_all Q (run_ops ops t) = true.
Proof.
  induction ops as [|o ops IH]; intros t H; [exact H|].
  cbn [run_ops fold_left]. fold (run_ops ops (apply_op o t)). apply IH.
  destruct o; cbn [apply_op]; [apply upd_state_exempt|apply upd_status_exempt]; exact H.
Qed.

Lemma fresh_exempt t : exempt_all (state_beq STANDBY) (fresh t) = true.
Proof.
  induction t as [c s x|s x cs IH] using rtree_ind2; [reflexivity|].
  cbn [fresh exempt_all]. rewrite orb_true_r. cbn [andb].
  apply forallb_forall. intros c Hc. apply in_map_iff in Hc. destruct Hc as [c0 [<- Hc0]].
  rewrite Forall_forall in IH. apply IH, Hc0.
Qed.

Lemma exempt_sub Q : forall p t n,
  exempt_all Q t = true -> get_sub p t = Some n -> exempt_all Q n = true.
Proof.
  induction p as [|i p IH]; intros t n H Hg; cbn in Hg.
  - inversion Hg; subst; exact H.
  - destruct (nth_error (children t) i) as [c|] eqn:Hn; [|discriminate].
    destruct t as [c0 s x|s x cs]; cbn in Hn; [destruct i; discriminate|].
    cbn [exempt_all] in H. apply andb_true_iff in H. destruct H as [_ H2].
    eapply IH; [|exact Hg]. eapply forallb_nth_error; eauto.
Qed.

Lemma deep_fold_loaded t :
  Inv true t -> exempt_all (state_beq STANDBY) t = true ->
  contrib t = foldX (opinions_loaded t).
Proof.
  induction t as [c s x|s x cs IH] using rtree_ind2; intros Hi He.
  - unfold contrib. cbn [counted st_of opinions_loaded]. destruct c; [|reflexivity].
    rewrite foldX_cons, foldX_nil, stateX_INV_r. reflexivity.
  - apply Inv_Agg in Hi. destruct Hi as [Hs [_ Hcs]].
    cbn [exempt_all] in He. apply andb_true_iff in He. destruct He as [He1 He2].
    unfold contrib. cbn [counted st_of opinions_loaded].
    destruct (existsb counted cs) eqn:Ec.
    + destruct Hs as [[_ Hf]|Hs]; [discriminate|].
      rewrite Hs, fold_state_contrib, foldX_flat_map. f_equal.
      apply map_ext_in. intros c Hc.
      rewrite Forall_forall in IH, Hcs. rewrite forallb_forall in He2.
      apply IH; auto.
    + cbn [orb] in He1. apply state_beq_eq in He1. subst s.
      rewrite foldX_cons, foldX_nil, stateX_INV_r. reflexivity.
Qed.

(* every role of every loaded tree, after any sequence of updates *)
Lemma loaded_actual t0 ops p n :
  get_sub p (run_ops ops (fresh t0)) = Some n -> is_agg n = true ->
  st_of n = spec_state (opinions_loaded n).
Proof.
  intros Hg Ha.
  assert (Hi : Inv true n).
  { eapply Inv_sub; [|exact Hg]. apply run_ops_Inv, fresh_weak. }
  assert (He : exempt_all (state_beq STANDBY) n = true).
  { eapply exempt_sub; [|exact Hg]. apply run_ops_exempt, fresh_exempt. }
  rewrite <- foldX_spec, <- (deep_fold_loaded n Hi He).
  destruct n; [discriminate|reflexivity].
Qed.

(* in particular no loaded tree ever shows an ERROR that no critical task has (sequentially) *)
Lemma opinions_loaded_ERROR t : In ERROR (opinions_loaded t) -> In ERROR (crit_states t).
Proof.
  induction t as [c s x|s x cs IH] using rtree_ind2; [cbn; auto|].
  cbn [opinions_loaded crit_states].
  destruct (existsb counted cs).
  - rewrite !in_flat_map. intros [c [Hc He]]. exists c. split; [exact Hc|].
    rewrite Forall_forall in IH. apply IH; assumption.
  - cbn. intros [H|[]]. discriminate.
Qed.

Lemma loaded_not_invented t0 ops p n :
  get_sub p (run_ops ops (fresh t0)) = Some n -> is_agg n = true ->
  st_of n = ERROR -> In ERROR (crit_states n).
Proof.
  intros Hg Ha Hs. rewrite (loaded_actual t0 ops p n Hg Ha) in Hs.
  rewrite <- foldX_spec in Hs. apply foldX_ERROR in Hs. apply opinions_loaded_ERROR, Hs.
Qed.

Lemma crit_states_in_opinions t : In ERROR (crit_states t) -> In ERROR (opinions_loaded t).
Proof.
  induction t as [c s x|s x cs IH] using rtree_ind2; [cbn; auto|].
  cbn [opinions_loaded crit_states].
  destruct (existsb counted cs) eqn:Ec.
  - rewrite !in_flat_map. intros [c [Hc He]]. exists c. split; [exact Hc|].
    rewrite Forall_forall in IH. apply IH; assumption.
  - rewrite in_flat_map. intros [c [Hc He]]. exfalso.
    assert (Hcc : counted c = false).
    { destruct (counted c) eqn:E; [|reflexivity].
      assert (existsb counted cs = true) by (apply existsb_exists; eauto). congruence. }
    destruct c as [cr s0 x0|? ? ?]; [|discriminate]. cbn in Hcc. subst cr. cbn in He. exact He.
Qed.

(* sequential updates on any loaded tree: a role reports ERROR exactly when a critical task
   below it is in ERROR (C11-a does not touch this clause) *)
Lemma loaded_error_iff t0 ops p n :
  get_sub p (run_ops ops (fresh t0)) = Some n -> is_agg n = true ->
  (st_of n = ERROR <-> In ERROR (crit_states n)).
Proof.
  intros Hg Ha. split; [apply (loaded_not_invented t0 ops p n Hg Ha)|].
  intro H. rewrite (loaded_actual t0 ops p n Hg Ha), <- foldX_spec.
  apply foldX_ERROR, crit_states_in_opinions, H.
Qed.

(* ================================================================== *)
(* 12. Bridge: the monitor accepts every consistent tree               *)
(* ================================================================== *)

Lemma leafless_stats t : has_leaf t = false -> forall y, In y (leaf_stats t) -> y = UNDEFINED.
Proof.
  induction t as [c s x|s x cs IH] using rtree_ind2; [discriminate|].
  intros H y Hy. destruct cs as [|c0 cs0].
  - cbn in Hy. destruct Hy as [<-|[]]. reflexivity.
  - rewrite leaf_stats_cons in Hy. apply in_flat_map in Hy. destruct Hy as [c [Hc Hy]].
    rewrite Forall_forall in IH. apply (IH c Hc); [|exact Hy].
    cbn [has_leaf] in H. destruct (has_leaf c) eqn:E; [|reflexivity].
    assert (existsb has_leaf (c0 :: cs0) = true) by (apply existsb_exists; eauto). congruence.
Qed.

Lemma spec_status_all_UNDEF l : l <> [] -> (forall y, In y l -> y = UNDEFINED) ->
  spec_status l = UNDEFINED.
Proof.
  intros Hl H. destruct l as [|a l]; [congruence|].
  unfold spec_status. rewrite (H a (or_introl eq_refl)). reflexivity.
Qed.

Definition all_zero (l : list N) : Prop := Forall (fun c => c = 0) l.

Lemma all_zero_app l1 l2 : all_zero l1 -> all_zero l2 -> all_zero (l1 ++ l2).
Proof. unfold all_zero. intros. apply Forall_app. split; assumption. Qed.

Lemma pick_code_zero l : all_zero l -> pick_code l = 0.
Proof.
  intro H. unfold pick_code.
  assert (E : filter (fun c => memN c l) prio = []).
  { assert (Hm : forall c, c <> 0 -> memN c l = false).
    { intros c Hc. unfold memN. destruct (existsb (N.eqb c) l) eqn:E; [|reflexivity].
      apply existsb_exists in E. destruct E as [y [Hy Hcy]]. apply N.eqb_eq in Hcy. subst y.
      unfold all_zero in H. rewrite Forall_forall in H. specialize (H c Hy). contradiction. }
    unfold prio. cbn [filter]. rewrite !Hm by discriminate. reflexivity. }
  rewrite E. reflexivity.
Qed.

Lemma snap_codes_r_consistent t : forall top, Inv false t -> all_zero (snap_codes_r top [] t).
Proof.
  induction t as [c s x|s x cs IH] using rtree_ind2; intros top Hi; [constructor|].
  destruct (deep_spec (Agg s x cs) [] (Agg s x cs) Hi eq_refl eq_refl) as [F1 F2].
  cbn [st_of stat_of] in F1, F2.
  pose proof Hi as Hi'. apply Inv_Agg in Hi'. destruct Hi' as [[[Hw _]|F3] [[[Hw' _]|F4] Hcs]]; try discriminate.
  rewrite fold_state_text in F3. rewrite fold_status_text in F4.
  cbn [snap_codes_r].
  set (cst := crit_states (Agg s x cs)) in *.
  assert (Herr : existsb (state_beq ERROR) cst = state_beq s ERROR).
  { rewrite F1, <- foldX_spec.
    destruct (existsb (state_beq ERROR) cst) eqn:E.
    - apply existsb_ERROR_In, foldX_ERROR in E. rewrite E. reflexivity.
    - symmetry. apply state_beq_neq. intro H. apply foldX_ERROR, existsb_ERROR_In in H. congruence. }
  rewrite Herr.
  assert (Hinv : state_beq s ERROR && negb (state_beq s ERROR) = false) by (destruct (state_beq s ERROR); reflexivity).
  rewrite Hinv. cbn [andb].
  apply all_zero_app; [|apply all_zero_app].
  - (* 4, 5, 1, 6 *)
    repeat constructor.
    + rewrite <- F1, state_beq_refl. cbn. rewrite andb_false_r. reflexivity.
    + rewrite <- F3, state_beq_refl. cbn. rewrite andb_false_r. reflexivity.
  - (* 2, 14, 3/9, 10/15 *)
    repeat constructor.
    + rewrite <- F2, status_beq_refl. cbn. rewrite andb_false_r. reflexivity.
    + rewrite <- F4, status_beq_refl. cbn. rewrite andb_false_r. reflexivity.
    + unfold has_crit. fold cst. destruct cst as [|a r] eqn:Ec; [|reflexivity].
      cbn [negb andb]. rewrite F1. reflexivity.
    + destruct (has_leaf (Agg s x cs)) eqn:Hl; [reflexivity|]. cbn [negb].
      assert (Hx : x = UNDEFINED).
      { rewrite F2. apply spec_status_all_UNDEF; [apply leaf_stats_nonempty|].
        apply leafless_stats, Hl. }
      rewrite Hx. reflexivity.
  - (* children *)
    clear - IH Hcs. generalize 0%nat as i.
    induction cs as [|c cs IHcs]; intro i; [constructor|].
    inversion IH; subst. inversion Hcs; subst.
    apply all_zero_app; [cbn [sub_paths flat_map]; auto|apply IHcs; assumption].
Qed.

Lemma snap_codes_consistent t : Inv false t -> all_zero (snap_codes [] t).
Proof. apply snap_codes_r_consistent. Qed.

(* after any sequence of updates from a consistent tree the monitor finds nothing, whether the
   tree is judged as a whole workflow (what mon11 does) or as a part of one *)
Lemma monitor_accepts_model t ops :
  Inv false t ->
  pick_code (snap_top [] (run_ops ops t)) = 0 /\ pick_code (snap_codes [] (run_ops ops t)) = 0.
Proof.
  intro H. split; apply pick_code_zero, snap_codes_r_consistent, run_ops_Inv, H.
Qed.

(* ---- status half for loaded trees without the criticality condition: what the loader
        guarantees since 3e1e68b is that every aggregator has a role below it ---- *)
Fixpoint ne_aggs (t : rtree) : bool :=
  match t with
  | Leaf _ _ _ => true
  | Agg _ _ cs => negb (is_nil cs) && forallb ne_aggs cs
  end.

Lemma no_leafless_ne t : no_leafless t = true -> ne_aggs t = true.
Proof.
  induction t as [c s x|s x cs IH] using rtree_ind2; intro H; [reflexivity|].
  cbn [no_leafless ne_aggs] in *. apply andb_true_iff in H. destruct H as [H1 H2].
  apply andb_true_iff. split.
  - destruct cs; [discriminate|reflexivity].
  - apply forallb_forall. intros c Hc. rewrite Forall_forall in IH. apply IH; [exact Hc|].
    rewrite forallb_forall in H2. apply H2, Hc.
Qed.

Lemma ne_fresh t : ne_aggs t = true -> ne_aggs (fresh t) = true.
Proof.
  induction t as [c s x|s x cs IH] using rtree_ind2; intro H; [reflexivity|].
  cbn [fresh ne_aggs] in *. apply andb_true_iff in H. destruct H as [H1 H2].
  rewrite is_nil_map, H1. cbn [andb].
  apply forallb_forall. intros c Hc. apply in_map_iff in Hc. destruct Hc as [c0 [<- Hc0]].
  rewrite Forall_forall in IH. apply IH; [exact Hc0|]. rewrite forallb_forall in H2. apply H2, Hc0.
Qed.

Lemma upd_state_ne : forall p v t, ne_aggs t = true -> ne_aggs (fst (upd_state p v t)) = true.
Proof.
  induction p as [|i p IH]; intros v t H.
  - destruct t; cbn; auto.
  - destruct t as [c s x|s x cs]; [exact H|]. cbn [upd_state].
    destruct (nth_error cs i) as [c|] eqn:Hn; [|exact H].
    cbn [ne_aggs] in H. apply andb_true_iff in H. destruct H as [H1 H2].
    specialize (IH v c (forallb_nth_error _ _ _ _ H2 Hn)).
    destruct (upd_state p v c) as [c' f]. cbn [fst] in IH.
    destruct f as [inc|]; cbn [fst ne_aggs];
      rewrite is_nil_replace_nth, H1, (forallb_replace_nth _ i c' cs H2 IH); reflexivity.
Qed.

Lemma upd_status_ne : forall p v t, ne_aggs t = true -> ne_aggs (fst (upd_status p v t)) = true.
Proof.
  induction p as [|i p IH]; intros v t H.
  - destruct t; cbn; auto.
  - destruct t as [c s x|s x cs]; [exact H|]. cbn [upd_status].
    destruct (nth_error cs i) as [c|] eqn:Hn; [|exact H].
    cbn [ne_aggs] in H. apply andb_true_iff in H. destruct H as [H1 H2].
    specialize (IH v c (forallb_nth_error _ _ _ _ H2 Hn)).
    destruct (upd_status p v c) as [c' f]. cbn [fst] in IH.
    destruct f as [inc|]; cbn [fst ne_aggs];
      rewrite is_nil_replace_nth, H1, (forallb_replace_nth _ i c' cs H2 IH); reflexivity.
Qed.

Lemma run_ops_ne ops : forall t, ne_aggs t = true -> ne_aggs (run_ops ops t) = true.
Proof.
  induction ops as [|o ops IH]; intros t H; [exact H|].
  cbn [run_ops fold_left]. fold (run_ops ops (apply_op o t)). apply IH.
  destruct o; cbn [apply_op]; [apply upd_state_ne|apply upd_status_ne]; exact H.
Qed.

Lemma ne_sub : forall p t n, ne_aggs t = true -> get_sub p t = Some n -> ne_aggs n = true.
Proof.
  induction p as [|i p IH]; intros t n H Hg; cbn in Hg.
  - inversion Hg; subst; exact H.
  - destruct (nth_error (children t) i) as [c|] eqn:Hn; [|discriminate].
    destruct t as [c0 s x|s x cs]; cbn in Hn; [destruct i; discriminate|].
    cbn [ne_aggs] in H. apply andb_true_iff in H. destruct H as [_ H2].
    eapply IH; [|exact Hg]. eapply forallb_nth_error; eauto.
Qed.

Lemma deep_fold_status t : Inv true t -> ne_aggs t = true -> stat_of t = foldS (leaf_stats t).
Proof.
  induction t as [c s x|s x cs IH] using rtree_ind2; intros H Hne; [reflexivity|].
  apply Inv_Agg in H. destruct H as [_ [Hx Hcs]].
  cbn [ne_aggs] in Hne. apply andb_true_iff in Hne. destruct Hne as [Hnil Hne].
  destruct Hx as [[_ Hx]|Hx]; [subst cs; discriminate|].
  rewrite Forall_forall in IH, Hcs. rewrite forallb_forall in Hne.
  cbn [stat_of]. rewrite Hx, fold_status_foldS.
  destruct cs as [|c0 cs0]; [discriminate|].
  rewrite leaf_stats_cons.
  rewrite foldS_flat_map; [|discriminate|intros; apply leaf_stats_nonempty].
  f_equal. apply map_ext_in. intros c Hc. apply (IH c Hc (Hcs c Hc) (Hne c Hc)).
Qed.

Lemma loaded_status_fold t0 ops p n :
  no_leafless t0 = true ->
  get_sub p (run_ops ops (fresh t0)) = Some n ->
  stat_of n = spec_status (leaf_stats n).
Proof.
  intros Hl Hg. rewrite <- foldS_spec. apply deep_fold_status.
  - eapply Inv_sub; [|exact Hg]. apply run_ops_Inv, fresh_weak.
  - eapply ne_sub; [|exact Hg]. apply run_ops_ne, ne_fresh, no_leafless_ne, Hl.
Qed.

(* and the monitor class that guards it: a loaded tree in which an aggregator below the root has
   no role below it is flagged (10) before any update; the same tree as a whole workflow with
   nothing at all below the root is not *)
Lemma code10_witness :
  pick_code (snap_top [] (Agg STANDBY INACTIVE [Agg STANDBY INACTIVE []; Leaf true STANDBY INACTIVE])) = 10 /\
  memN 10 (snap_top [] (Agg STANDBY INACTIVE [])) = false /\
  memN 10 (snap_codes [] (Agg STANDBY INACTIVE [])) = true.
Proof. vm_compute. repeat split; reflexivity. Qed.
