(* Lemmas about the RoleTree model (property C11). *)
From Verif Require Import Common Gen_StateX Gen_StatusX Gen_StatusProduct RoleTree.
From Coq Require Import Permutation.
Open Scope N_scope.

(* ================================================================== *)
(* 1. The two products: complete tie to the code, algebraic laws       *)
(* ================================================================== *)

Lemma state_beq_eq a b : state_beq a b = true <-> a = b.
Proof. split; [apply internal_state_dec_bl | apply internal_state_dec_lb]. Qed.
Lemma status_beq_eq a b : status_beq a b = true <-> a = b.
Proof. split; [apply internal_status_dec_bl | apply internal_status_dec_lb]. Qed.
Lemma state_beq_refl a : state_beq a a = true.
Proof. apply state_beq_eq. reflexivity. Qed.
Lemma status_beq_refl a : status_beq a a = true.
Proof. apply status_beq_eq. reflexivity. Qed.
Lemma state_beq_neq a b : state_beq a b = false <-> a <> b.
Proof.
  split.
  - intros H E. apply state_beq_eq in E. congruence.
  - intro H. destruct (state_beq a b) eqn:E; [apply state_beq_eq in E; contradiction|reflexivity].
Qed.
Lemma status_beq_neq a b : status_beq a b = false <-> a <> b.
Proof.
  split.
  - intros H E. apply status_beq_eq in E. congruence.
  - intro H. destruct (status_beq a b) eqn:E; [apply status_beq_eq in E; contradiction|reflexivity].
Qed.

(* the model's State.X is the running code's, on all 64 pairs; the numbering of the constants
   is the running code's *)
Lemma stateX_enum_complete : forall a b,
  enum_lookup (N_of_state a) (N_of_state b) stateX_enum = Some (N_of_state (stateX a b)).
Proof. intros a b; destruct a, b; vm_compute; reflexivity. Qed.

Lemma stateX_enum_size : length stateX_enum = 64%nat.
Proof. vm_compute. reflexivity. Qed.

Lemma state_codes_ok :
  map N_of_state all_states =
  [go_state_UNKNOWN; go_state_STANDBY; go_state_CONFIGURED; go_state_RUNNING;
   go_state_ERROR; go_state_DONE; go_state_MIXED; go_state_INVARIANT].
Proof. vm_compute. reflexivity. Qed.

(* the translated STATUS_PRODUCT literal (which defines statusX) agrees with the running code
   on all 25 pairs; numbering as in the source and in the running code *)
Lemma statusX_enum_complete : forall a b,
  enum_lookup (N_of_status a) (N_of_status b) statusX_enum = Some (N_of_status (statusX a b)).
Proof. intros a b; destruct a, b; vm_compute; reflexivity. Qed.

Lemma statusX_enum_size : length statusX_enum = 25%nat.
Proof. vm_compute. reflexivity. Qed.

Lemma status_codes_ok :
  map N_of_status all_statuses =
  [go_status_UNDEFINED; go_status_INACTIVE; go_status_PARTIAL; go_status_ACTIVE;
   go_status_UNDEPLOYABLE] /\
  map N_of_status all_statuses =
  [src_status_UNDEFINED; src_status_INACTIVE; src_status_PARTIAL; src_status_ACTIVE;
   src_status_UNDEPLOYABLE].
Proof. vm_compute. split; reflexivity. Qed.

Lemma all_states_complete : forall s, In s all_states.
Proof. intro s; destruct s; cbn; tauto. Qed.
Lemma all_statuses_complete : forall s, In s all_statuses.
Proof. intro s; destruct s; cbn; tauto. Qed.

Lemma stateX_comm a b : stateX a b = stateX b a.
Proof. destruct a, b; reflexivity. Qed.
Lemma stateX_assoc a b c : stateX a (stateX b c) = stateX (stateX a b) c.
Proof. destruct a, b, c; reflexivity. Qed.
Lemma stateX_idem a : stateX a a = a.
Proof. destruct a; reflexivity. Qed.
Lemma stateX_ERROR_l a : stateX ERROR a = ERROR.
Proof. destruct a; reflexivity. Qed.
Lemma stateX_ERROR_r a : stateX a ERROR = ERROR.
Proof. destruct a; reflexivity. Qed.
Lemma stateX_INV_l a : stateX INVARIANT a = a.
Proof. destruct a; reflexivity. Qed.
Lemma stateX_INV_r a : stateX a INVARIANT = a.
Proof. destruct a; reflexivity. Qed.
Lemma stateX_ERROR_inv a b : stateX a b = ERROR -> a = ERROR \/ b = ERROR.
Proof. destruct a, b; cbn; intro H; try discriminate; auto. Qed.

Lemma statusX_comm a b : statusX a b = statusX b a.
Proof. destruct a, b; vm_compute; reflexivity. Qed.
Lemma statusX_assoc a b c : statusX a (statusX b c) = statusX (statusX a b) c.
Proof. destruct a, b, c; vm_compute; reflexivity. Qed.
Lemma statusX_idem a : statusX a a = a.
Proof. destruct a; vm_compute; reflexivity. Qed.
Lemma statusX_UNDEF_l a : statusX UNDEFINED a = UNDEFINED.
Proof. destruct a; vm_compute; reflexivity. Qed.
Lemma statusX_UNDEF_r a : statusX a UNDEFINED = UNDEFINED.
Proof. destruct a; vm_compute; reflexivity. Qed.
Lemma statusX_UNDEPL a : a <> UNDEFINED -> statusX UNDEPLOYABLE a = UNDEPLOYABLE.
Proof. destruct a; vm_compute; congruence. Qed.

(* the shortcuts of SafeState.merge / SafeStatus.merge are sound when the cache was the fold:
   finite statements over (old value of the child, incoming value, fold of the siblings) *)
Lemma merge_state_finite : forall a s R,
  (let cache := stateX a R in
   if state_beq cache s then cache
   else if state_beq s MIXED && negb (state_beq cache ERROR) then MIXED
   else if state_beq s ERROR then ERROR
   else stateX s R) = stateX s R.
Proof. intros a s R; destruct a, s, R; reflexivity. Qed.

Lemma merge_status_finite : forall a s R,
  (let cache := statusX a R in
   if status_beq cache s then cache
   else if status_beq s UNDEFINED then UNDEFINED
   else statusX s R) = statusX s R.
Proof. intros a s R; destruct a, s, R; vm_compute; reflexivity. Qed.

Lemma merge_status_finite1 : forall a s : status,
  (if status_beq a s then a else if status_beq s UNDEFINED then UNDEFINED else s) = s.
Proof. intros a s; destruct a, s; reflexivity. Qed.

(* ================================================================== *)
(* 2. Folds over lists of values                                       *)
(* ================================================================== *)

Lemma fold_left_stateX l : forall a, fold_left stateX l a = stateX a (foldX l).
Proof.
  unfold foldX. induction l as [|x l IH]; intro a; cbn [fold_left].
  - symmetry. apply stateX_INV_r.
  - rewrite IH. rewrite (IH (stateX INVARIANT x)). rewrite stateX_INV_l.
    symmetry. apply stateX_assoc.
Qed.

Lemma foldX_cons a l : foldX (a :: l) = stateX a (foldX l).
Proof. unfold foldX at 1. cbn [fold_left]. rewrite stateX_INV_l. apply fold_left_stateX. Qed.

Lemma foldX_nil : foldX [] = INVARIANT.
Proof. reflexivity. Qed.

Lemma foldX_app l1 l2 : foldX (l1 ++ l2) = stateX (foldX l1) (foldX l2).
Proof.
  induction l1 as [|a l1 IH]; cbn [app].
  - rewrite foldX_nil, stateX_INV_l. reflexivity.
  - rewrite !foldX_cons, IH. apply stateX_assoc.
Qed.

Lemma foldX_perm l l' : Permutation l l' -> foldX l = foldX l'.
Proof.
  induction 1 as [|x l l' _ IH|x y l|l l' l'' _ IH1 _ IH2].
  - reflexivity.
  - rewrite !foldX_cons, IH. reflexivity.
  - rewrite !foldX_cons, !stateX_assoc, (stateX_comm y x). reflexivity.
  - congruence.
Qed.

Lemma foldX_ERROR l : foldX l = ERROR <-> In ERROR l.
Proof.
  induction l as [|a l IH].
  - cbn. split; [discriminate|tauto].
  - rewrite foldX_cons. split.
    + intro H. apply stateX_ERROR_inv in H. destruct H as [H|H]; [left; auto|right; apply IH, H].
    + intros [H|H]; [subst; apply stateX_ERROR_l|]. apply IH in H. rewrite H. apply stateX_ERROR_r.
Qed.

(* the fold is what the text says *)
Lemma existsb_ERROR_In l : existsb (state_beq ERROR) l = true <-> In ERROR l.
Proof.
  rewrite existsb_exists. split.
  - intros [x [Hx E]]. apply state_beq_eq in E. subst. exact Hx.
  - intro H. exists ERROR. split; [exact H|reflexivity].
Qed.

Lemma spec_state_cons a l : spec_state (a :: l) = stateX a (spec_state l).
Proof.
  unfold spec_state. cbn [existsb filter].
  destruct (existsb (state_beq ERROR) l) eqn:EE.
  - rewrite orb_true_r. symmetry. apply stateX_ERROR_r.
  - rewrite orb_false_r.
    assert (HnE : forall x, In x (filter (fun s => negb (state_beq s INVARIANT)) l) ->
                            x <> ERROR /\ x <> INVARIANT).
    { intros x Hx. apply filter_In in Hx. destruct Hx as [Hx Hn]. split.
      - intro; subst. assert (existsb (state_beq ERROR) l = true) by (apply existsb_ERROR_In; exact Hx).
        congruence.
      - intro; subst. discriminate. }
    destruct (filter (fun s => negb (state_beq s INVARIANT)) l) as [|b r] eqn:EF.
    + destruct a; reflexivity.
    + destruct (HnE b (or_introl eq_refl)) as [Hb1 Hb2].
      destruct (state_beq ERROR a) eqn:Ea.
      { apply state_beq_eq in Ea. subst a. symmetry. apply stateX_ERROR_l. }
      destruct (state_beq a INVARIANT) eqn:Ei; cbn [negb].
      { apply state_beq_eq in Ei. subst a. rewrite stateX_INV_l. reflexivity. }
      cbn [forallb].
      destruct (forallb (state_beq b) r) eqn:Fb.
      * destruct (state_beq a b) eqn:Eab; cbn [andb].
        -- apply state_beq_eq in Eab. subst b. rewrite Fb. symmetry. apply stateX_idem.
        -- destruct a, b; try discriminate; try congruence; reflexivity.
      * assert (Hm : stateX a MIXED = MIXED) by (destruct a; try discriminate; reflexivity).
        rewrite Hm.
        destruct (state_beq a b) eqn:Eab; cbn [andb]; [|reflexivity].
        apply state_beq_eq in Eab. subst b. rewrite Fb. reflexivity.
Qed.

Lemma foldX_spec l : foldX l = spec_state l.
Proof.
  induction l as [|a l IH]; [reflexivity|].
  rewrite foldX_cons, spec_state_cons, IH. reflexivity.
Qed.

(* statuses: no neutral element, so non-empty lists *)
Lemma fold_left_statusX l : forall a,
  fold_left statusX l a = match l with [] => a | _ :: _ => statusX a (foldS l) end.
Proof.
  induction l as [|x l IH]; intro a; [reflexivity|].
  cbn [fold_left foldS]. rewrite IH. rewrite (IH x).
  destruct l; [reflexivity|]. symmetry. apply statusX_assoc.
Qed.

Lemma foldS_cons a l :
  foldS (a :: l) = match l with [] => a | _ :: _ => statusX a (foldS l) end.
Proof. cbn [foldS]. apply fold_left_statusX. Qed.

Lemma foldS_app l1 l2 : l1 <> [] -> l2 <> [] ->
  foldS (l1 ++ l2) = statusX (foldS l1) (foldS l2).
Proof.
  intros H1 H2. induction l1 as [|a l1 IH]; [congruence|].
  cbn [app]. rewrite !foldS_cons.
  destruct l1 as [|b l1].
  - cbn [app]. destruct l2; [congruence|reflexivity].
  - cbn [app] in *. rewrite IH by discriminate. apply statusX_assoc.
Qed.

Lemma foldS_perm l l' : Permutation l l' -> foldS l = foldS l'.
Proof.
  induction 1 as [|x l l' HP IH|x y l|l l' l'' _ IH1 _ IH2].
  - reflexivity.
  - rewrite !foldS_cons, IH. destruct l, l'; try reflexivity.
    + apply Permutation_nil in HP. discriminate.
    + apply Permutation_sym, Permutation_nil in HP. discriminate.
  - rewrite !foldS_cons. destruct l.
    + apply statusX_comm.
    + rewrite !statusX_assoc, (statusX_comm y x). reflexivity.
  - congruence.
Qed.

Lemma spec_status_cons a l : l <> [] -> spec_status (a :: l) = statusX a (spec_status l).
Proof.
  intro Hl. destruct l as [|b r]; [congruence|].
  unfold spec_status.
  remember (b :: r) as l eqn:El.
  cbn [existsb forallb].
  destruct (existsb (status_beq UNDEFINED) l) eqn:E1.
  { rewrite orb_true_r. symmetry. apply statusX_UNDEF_r. }
  rewrite orb_false_r.
  destruct (existsb (status_beq UNDEPLOYABLE) l) eqn:E2.
  { rewrite orb_true_r. destruct a; vm_compute; reflexivity. }
  rewrite orb_false_r.
  destruct (forallb (status_beq ACTIVE) l) eqn:E3.
  { rewrite andb_true_r.
    assert (forallb (status_beq INACTIVE) l = false) as E4.
    { rewrite El in *. cbn [forallb] in *. apply andb_true_iff in E3. destruct E3 as [E3 _].
      apply status_beq_eq in E3. subst b. reflexivity. }
    rewrite E4, andb_false_r. destruct a; vm_compute; reflexivity. }
  rewrite andb_false_r.
  destruct (forallb (status_beq INACTIVE) l) eqn:E4.
  { rewrite andb_true_r. destruct a; vm_compute; reflexivity. }
  rewrite andb_false_r. destruct a; vm_compute; reflexivity.
Qed.

Lemma spec_status_single a : spec_status [a] = a.
Proof. destruct a; reflexivity. Qed.

Lemma foldS_spec l : foldS l = spec_status l.
Proof.
  induction l as [|a l IH]; [reflexivity|].
  rewrite foldS_cons. destruct l as [|b r].
  - symmetry. apply spec_status_single.
  - rewrite spec_status_cons by discriminate. rewrite IH. reflexivity.
Qed.
(* ================================================================== *)
(* 3. Folds over children lists, soundness of one merge                *)
(* ================================================================== *)

Definition contrib (c : rtree) : state := if counted c then st_of c else INVARIANT.

Lemma fold_state_contrib cs : fold_state cs = foldX (map contrib cs).
Proof.
  unfold fold_state, foldX. generalize INVARIANT as a.
  induction cs as [|c cs IH]; intro a; cbn [fold_left map]; [reflexivity|].
  rewrite IH. unfold contrib. destruct (counted c); [reflexivity|].
  rewrite stateX_INV_r. reflexivity.
Qed.

Lemma fold_left_statusX_UNDEF l : fold_left statusX l UNDEFINED = UNDEFINED.
Proof. induction l as [|x l IH]; [reflexivity|]. cbn [fold_left]. rewrite statusX_UNDEF_l. exact IH. Qed.

Lemma fold_status_from_fold cs : forall s,
  fold_status_from s cs = fold_left statusX (map stat_of cs) s.
Proof.
  induction cs as [|c cs IH]; intro s; cbn [fold_status_from map fold_left]; [reflexivity|].
  destruct (status_beq s UNDEFINED) eqn:E.
  - apply status_beq_eq in E. subst s. rewrite statusX_UNDEF_l, fold_left_statusX_UNDEF. reflexivity.
  - apply IH.
Qed.

Lemma fold_status_foldS cs : fold_status cs = foldS (map stat_of cs).
Proof. destruct cs as [|c cs]; [reflexivity|]. cbn [fold_status map foldS]. apply fold_status_from_fold. Qed.

Lemma replace_nth_app {A} (l1 l2 : list A) x y :
  replace_nth (length l1) y (l1 ++ x :: l2) = l1 ++ y :: l2.
Proof. induction l1 as [|a l1 IH]; cbn; [reflexivity|]. rewrite IH. reflexivity. Qed.

Lemma replace_nth_length {A} i (x : A) l : length (replace_nth i x l) = length l.
Proof. revert i; induction l as [|a l IH]; intros [|i]; cbn; auto. Qed.

Lemma replace_nth_none {A} i (x : A) l : nth_error l i = None -> replace_nth i x l = l.
Proof.
  revert i; induction l as [|a l IH]; intros [|i]; cbn; intro H; try reflexivity; try discriminate.
  rewrite IH by exact H. reflexivity.
Qed.

Lemma nth_error_replace_same {A} i (x : A) l : (i < length l)%nat ->
  nth_error (replace_nth i x l) i = Some x.
Proof.
  revert i; induction l as [|a l IH]; intros [|i]; cbn; intro H; try lia; [reflexivity|].
  apply IH. lia.
Qed.

Lemma nth_error_replace_other {A} i j (x : A) l : i <> j ->
  nth_error (replace_nth i x l) j = nth_error l j.
Proof.
  revert i j; induction l as [|a l IH]; intros [|i] [|j]; cbn; intro H; try reflexivity; try congruence.
  apply IH. congruence.
Qed.

Lemma fold_state_split l1 c l2 :
  fold_state (l1 ++ c :: l2) = stateX (contrib c) (foldX (map contrib (l1 ++ l2))).
Proof.
  rewrite fold_state_contrib.
  rewrite (foldX_perm (map contrib (l1 ++ c :: l2)) (map contrib (c :: l1 ++ l2))).
  - cbn [map]. apply foldX_cons.
  - apply Permutation_map. symmetry. apply Permutation_middle.
Qed.

Lemma fold_status_split l1 c l2 :
  fold_status (l1 ++ c :: l2) =
  match l1 ++ l2 with
  | [] => stat_of c
  | _ :: _ => statusX (stat_of c) (foldS (map stat_of (l1 ++ l2)))
  end.
Proof.
  rewrite fold_status_foldS.
  rewrite (foldS_perm (map stat_of (l1 ++ c :: l2)) (map stat_of (c :: l1 ++ l2))).
  - cbn [map]. rewrite foldS_cons. destruct (l1 ++ l2); reflexivity.
  - apply Permutation_map. symmetry. apply Permutation_middle.
Qed.

(* order of the children does not matter *)
Lemma fold_state_perm cs cs' : Permutation cs cs' -> fold_state cs = fold_state cs'.
Proof. intro H. rewrite !fold_state_contrib. apply foldX_perm, Permutation_map, H. Qed.
Lemma fold_status_perm cs cs' : Permutation cs cs' -> fold_status cs = fold_status cs'.
Proof. intro H. rewrite !fold_status_foldS. apply foldS_perm, Permutation_map, H. Qed.

Lemma nth_error_split_len {A} (l : list A) i x : nth_error l i = Some x ->
  exists l1 l2, l = l1 ++ x :: l2 /\ length l1 = i.
Proof. apply nth_error_split. Qed.

Lemma merge_state_sound cs i c c' cache :
  nth_error cs i = Some c -> counted c = true -> counted c' = true ->
  cache = fold_state cs ->
  merge_state cache (st_of c') (replace_nth i c' cs) = fold_state (replace_nth i c' cs).
Proof.
  intros Hn Hc Hc' Hcache.
  destruct (nth_error_split_len _ _ _ Hn) as [l1 [l2 [-> <-]]].
  rewrite replace_nth_app. subst cache.
  unfold merge_state. rewrite !fold_state_split. unfold contrib. rewrite Hc, Hc'.
  exact (merge_state_finite (st_of c) (st_of c') (foldX (map contrib (l1 ++ l2)))).
Qed.

Lemma merge_status_sound cs i c c' cache :
  nth_error cs i = Some c ->
  cache = fold_status cs ->
  merge_status cache (stat_of c') (replace_nth i c' cs) = fold_status (replace_nth i c' cs).
Proof.
  intros Hn Hcache.
  destruct (nth_error_split_len _ _ _ Hn) as [l1 [l2 [-> <-]]].
  rewrite replace_nth_app. subst cache.
  unfold merge_status. rewrite !fold_status_split.
  destruct (l1 ++ l2) as [|d r].
  - apply merge_status_finite1.
  - exact (merge_status_finite (stat_of c) (stat_of c') (foldS (map stat_of (d :: r)))).
Qed.

(* replacing a child by one with the same contribution does not change the folds *)
Lemma fold_state_replace_same cs i c c' :
  nth_error cs i = Some c -> contrib c' = contrib c ->
  fold_state (replace_nth i c' cs) = fold_state cs.
Proof.
  intros Hn Hc.
  destruct (nth_error_split_len _ _ _ Hn) as [l1 [l2 [-> <-]]].
  rewrite replace_nth_app, !fold_state_split, Hc. reflexivity.
Qed.

Lemma fold_status_replace_same cs i c c' :
  nth_error cs i = Some c -> stat_of c' = stat_of c ->
  fold_status (replace_nth i c' cs) = fold_status cs.
Proof.
  intros Hn Hc.
  destruct (nth_error_split_len _ _ _ Hn) as [l1 [l2 [-> <-]]].
  rewrite replace_nth_app, !fold_status_split, Hc. reflexivity.
Qed.

Lemma existsb_counted_replace cs i c c' :
  nth_error cs i = Some c -> counted c' = counted c ->
  existsb counted (replace_nth i c' cs) = existsb counted cs.
Proof.
  intros Hn Hc.
  destruct (nth_error_split_len _ _ _ Hn) as [l1 [l2 [-> <-]]].
  rewrite replace_nth_app, !existsb_app. cbn [existsb]. rewrite Hc. reflexivity.
Qed.

Lemma existsb_counted_nth cs i c :
  nth_error cs i = Some c -> counted c = true -> existsb counted cs = true.
Proof.
  intros Hn Hc. apply existsb_exists. exists c. split; [|exact Hc].
  eapply nth_error_In. exact Hn.
Qed.
