(* Proofs about the EventWriter model (property C19). *)
From Verif Require Import Common Gen_EventWriter EventWriter.
From Coq Require Import Lia.
Open Scope N_scope.

Arguments pop_max : simpl never.

(* ---------- schedules ---------- *)
Lemma run_app a b s : run (a ++ b) s = run b (run a s).
Proof. unfold run. apply fold_left_app. Qed.

Lemma run_snoc a l s : run (a ++ [l]) s = step l (run a s).
Proof. rewrite run_app. reflexivity. Qed.

Lemma reach_ind (P : st -> Prop) :
  P init -> (forall s l, P s -> P (step l s)) -> forall sched, P (run sched init).
Proof.
  intros H0 HS sched. induction sched as [|l sched IH] using rev_ind.
  - exact H0.
  - rewrite run_snoc. apply HS, IH.
Qed.

(* ---------- constants of the regenerated table, as the model needs them ---------- *)
Lemma pop_max_pos d : (1 <= pop_max d)%nat.
Proof. destruct d; vm_compute; lia. Qed.

Lemma pop_max_le d : (pop_max d <= 100)%nat.
Proof. destruct d; vm_compute; lia. Qed.

Global Opaque pop_max.

Lemma chan_cap_pos : (1 <= N.to_nat ew_chan_cap)%nat.
Proof. vm_compute. lia. Qed.

Lemma drain_on_done : ew_drain_on_done = true.
Proof. reflexivity. Qed.

Lemma done_cap_one : ew_done_cap = 1.
Proof. reflexivity. Qed.

(* FifoBuffer remembers ReleaseGoroutines: PopMultiple does not wait on an empty released buffer *)
Lemma release_sticky : ew_release_sticky = true.
Proof. reflexivity. Qed.

(* the producers' hand-over read from writer.go is one plain blocking send of the converted
   message: no select, no go statement, a single send (a change of that shape breaks this proof
   and, with it, everything below that speaks about publications) *)
Lemma pub_sync_true : pub_sync = true.
Proof. reflexivity. Qed.

(* ---------- the invariant ---------- *)
Definition ok_batch (b : list msg) : Prop := (1 <= length b <= 100)%nat.

Definition b_late (b : bpc) : bool :=
  match b with BSignal | BBcast | BWg | BExit => true | _ => false end.
Definition b_signalled (b : bpc) : bool :=
  match b with BBcast | BWg | BExit => true | _ => false end.
(* the writer has consumed the done token *)
Definition w_post (w : wpc) : bool :=
  match w with
  | WPop true | WWait true | WSend true _ | WInWrite true | WLen | WWg | WExit => true
  | _ => false
  end.

(* the batcher is past ReleaseGoroutines *)
Definition b_released (b : bpc) : bool := match b with BWg | BExit => true | _ => false end.

Record Inv (s : st) : Prop := mkInv {
  i_cons : accepted s = concat (delivered s) ++ pending s;
  i_keys : Forall (fun m => key_of (m_ev m) = Some (m_key m)) (accepted s);
  i_batches : Forall ok_batch (delivered s);
  i_inflight : forall d b, wp s = WSend d b -> ok_batch b;
  i_cap : (length (chan s) <= N.to_nat ew_chan_cap)%nat;
  i_closed : closed s = match cp s with CClosed | CReturned => true | _ => false end;
  i_wg : wg s = ((match cp s with CNot => 0 | _ => 2 end)
                 - (match bp s with BExit => 1 | _ => 0 end)
                 - (match wp s with WExit => 1 | _ => 0 end))%Z;
  i_blate : b_late (bp s) = true -> chan s = [] /\ closed s = true;
  i_done : done_sig s = b_signalled (bp s) && negb (w_post (wp s));
  i_wpost : w_post (wp s) = true -> b_signalled (bp s) = true;
  i_wpop : wp s = WPop true -> buf s <> [];
  i_nowait : wp s <> WWait true;
  i_wend : wp s = WWg \/ wp s = WExit -> buf s = [];
  i_woken : woken s = true -> waiting (wp s) = true;
  i_wait : waiting (wp s) = true -> woken s = false -> buf s = [];
  i_ret : cp s = CReturned -> bp s = BExit /\ wp s = WExit;
  i_panic : panicked s = true -> closed s = true;
  i_rel : released s = b_released (bp s);
  i_nolost : b_released (bp s) = true -> waiting (wp s) = true -> woken s = true
}.

Lemma inv_init : Inv init.
Proof.
  constructor; cbn; try reflexivity; try discriminate; try (intros; discriminate);
    try constructor; try (intros [?|?]; discriminate); try lia.
Qed.

Ltac pj := cbn [chan closed buf woken done_sig released wg bp wp cp delivered accepted panicked
                 b_late b_signalled b_released w_post waiting hand inflight pending after
                 app concat negb andb orb] in *.

Ltac crush :=
  pj; intros;
  repeat match goal with
         | H : _ /\ _ |- _ => destruct H
         | H : ?a = ?a -> _ |- _ => specialize (H eq_refl)
         end;
  try solve [ assumption | reflexivity | discriminate | congruence | lia
            | intuition (try congruence; try discriminate; try lia)
            | split; intuition (try congruence; try discriminate) ].

(* --- producers --- *)
Lemma inv_pub p e s : Inv s -> Inv (step_pub p e s).
Proof.
  intros [Hc Hk Hb Hi Hcap Hcl Hwg Hbl Hd Hwp Hpop Hnw Hwe Hwk Hwt Hr Hp Hrl Hnl].
  destruct s as [ch cl bf wk dn rl g b w c dl ac pn]. unfold step_pub. rewrite pub_sync_true. cbv iota.
  destruct (key_of e) as [k|] eqn:Ek; [|constructor; assumption].
  destruct cl.
  - constructor; pj; try assumption. reflexivity.
  - destruct (Nlen ch <? ew_chan_cap) eqn:El; [|constructor; assumption].
    apply N.ltb_lt in El. unfold Nlen in El.
    constructor; pj; try assumption.
    + rewrite Hc. unfold pending. cbn. repeat rewrite <- app_assoc. reflexivity.
    + apply Forall_app. split; [assumption|]. constructor; [exact Ek|constructor].
    + rewrite app_length. cbn [length]. lia.
    + intro Hl. destruct (Hbl Hl) as [_ F]. discriminate.
Qed.

(* --- batcher --- *)
Lemma inv_B s : Inv s -> Inv (step_B s).
Proof.
  intros [Hc Hk Hb Hi Hcap Hcl Hwg Hbl Hd Hwp Hpop Hnw Hwe Hwk Hwt Hr Hp Hrl Hnl].
  destruct s as [ch cl bf wk dn rl g b w c dl ac pn]. unfold step_B. unfold pending in *. rewrite release_sticky.
  assert (Hnp : b_signalled b = false -> w_post w = false).
  { pj. intro E. destruct (w_post w); [rewrite (Hwp eq_refl) in E; discriminate|reflexivity]. }
  destruct b as [|m| | | |]; [destruct ch as [|m r]; [destruct cl|]| | | | |];
    try (constructor; assumption);
    (constructor; unfold pending; pj; try assumption; try solve [crush]).
  - cbn [length] in Hcap. lia.
  - rewrite Hc. repeat rewrite <- app_assoc. reflexivity.
  - intros ->. discriminate (Hnp eq_refl).
  - intros [-> | ->]; discriminate (Hnp eq_refl).
  - destruct wk; pj; [intros _; apply Hwk; reflexivity|auto].
  - intros H1 H2. rewrite H1 in H2. destruct wk; discriminate.
  - rewrite (Hnp eq_refl). reflexivity.
  - destruct wk; pj; [intros _; apply Hwk; reflexivity|auto].
  - intros H1 H2. rewrite H1 in H2. destruct wk; discriminate.
  - intros _ ->. destruct wk; reflexivity.
Qed.

(* --- writer --- *)
Lemma firstn_ok_batch d (bf : list msg) : bf <> [] -> ok_batch (firstn (pop_max d) bf).
Proof.
  intro Hne. unfold ok_batch. rewrite firstn_length.
  pose proof (pop_max_pos d). pose proof (pop_max_le d).
  destruct bf as [|x bf]; [congruence|]. cbn [length]. lia.
Qed.

Lemma inv_W s : Inv s -> Inv (step_W s).
Proof.
  intros [Hc Hk Hb Hi Hcap Hcl Hwg Hbl Hd Hwp Hpop Hnw Hwe Hwk Hwt Hr Hp Hrl Hnl].
  destruct s as [ch cl bf wk dn rl g b w c dl ac pn]. unfold step_W. unfold pending in *.
  rewrite drain_on_done.
  destruct w as [|d|d|d bt|d| | |];
    [destruct dn|destruct bf as [|x bf]; [destruct rl|]|destruct wk; [destruct bf as [|x bf]|]
     |destruct bt as [|x bt]| |destruct bf as [|x bf]| |];
    try destruct d;
    try (constructor; assumption);
    (constructor; unfold pending; pj; try assumption; try solve [crush]).
  - intros _. destruct (b_signalled b); [reflexivity|discriminate].
  - rewrite Hc. rewrite (app_assoc (firstn _ _)). rewrite firstn_skipn. reflexivity.
  - intros d0 b0 [= <- <-]. apply firstn_ok_batch. discriminate.
  - rewrite Hc. rewrite (app_assoc (firstn _ _)). rewrite firstn_skipn. reflexivity.
  - intros d0 b0 [= <- <-]. apply firstn_ok_batch. discriminate.
  - rewrite Hc. rewrite (app_assoc (firstn _ _)). rewrite firstn_skipn. reflexivity.
  - intros d0 b0 [= <- <-]. apply firstn_ok_batch. discriminate.
  - rewrite concat_app. cbn [concat]. rewrite app_nil_r. rewrite <- app_assoc. exact Hc.
  - apply Forall_app. split; [assumption|]. constructor; [eapply Hi; reflexivity|constructor].
  - rewrite concat_app. cbn [concat]. rewrite app_nil_r. rewrite <- app_assoc. exact Hc.
  - apply Forall_app. split; [assumption|]. constructor; [eapply Hi; reflexivity|constructor].
Qed.

(* --- closer --- *)
Lemma inv_C s : Inv s -> Inv (step_C s).
Proof.
  intros [Hc Hk Hb Hi Hcap Hcl Hwg Hbl Hd Hwp Hpop Hnw Hwe Hwk Hwt Hr Hp Hrl Hnl].
  destruct s as [ch cl bf wk dn rl g b w c dl ac pn]. unfold step_C. unfold pending in *.
  destruct c; [| |destruct (g =? 0)%Z eqn:Eg|];
    try (constructor; assumption);
    (constructor; unfold pending; pj; try assumption; try solve [crush]).
  intros _. apply Z.eqb_eq in Eg. destruct b, w; try lia; split; reflexivity.
Qed.

Lemma step_inv l s : Inv s -> Inv (step l s).
Proof.
  destruct l; cbn [step]; [apply inv_pub|apply inv_B|apply inv_W|apply inv_C].
Qed.

Lemma inv_reach sched : Inv (run sched init).
Proof. apply reach_ind; [exact inv_init|intros s l; apply step_inv]. Qed.

(* ---------- consequences ---------- *)
Definition id_of (m : msg) : N * N := (m_prod m, e_tag (m_ev m)).
Definition by_prod (p : N) (m : msg) : bool := m_prod m =? p.

Lemma conservation sched :
  let s := run sched init in accepted s = concat (delivered s) ++ pending s.
Proof. apply i_cons, inv_reach. Qed.

(* meaning of the ghost variable [accepted]: it grows exactly when a producer's send succeeds *)
Lemma accepted_spec s :
  (forall p e,
     accepted (step (LPub p e) s) =
     match key_of e with
     | Some k => if publish_enabled s then accepted s ++ [mkMsg p e k] else accepted s
     | None => accepted s
     end) /\
  accepted (step LB s) = accepted s /\ accepted (step LW s) = accepted s /\
  accepted (step LC s) = accepted s.
Proof.
  destruct s as [ch cl bf wk dn rl g b w c dl ac pn]. unfold publish_enabled.
  repeat split; cbn [step].
  - intros p e. unfold step_pub. rewrite pub_sync_true. cbn [closed chan accepted].
    destruct (key_of e); [|reflexivity]. destruct cl; cbn [negb andb]; [reflexivity|].
    destruct (Nlen ch <? ew_chan_cap); reflexivity.
  - unfold step_B. destruct b; try reflexivity. destruct ch; [destruct cl|]; reflexivity.
  - unfold step_W. destruct w as [|d|d|d bt|d| | |]; try reflexivity.
    + destruct dn; reflexivity.
    + destruct bf; [destruct rl|]; reflexivity.
    + destruct wk; [destruct bf|]; reflexivity.
    + destruct bt; reflexivity.
    + destruct bf; reflexivity.
  - unfold step_C. destruct c; try reflexivity. destruct (g =? 0)%Z; reflexivity.
Qed.

Lemma delivered_incl_accepted sched m :
  In m (concat (delivered (run sched init))) -> In m (accepted (run sched init)).
Proof. intro H. rewrite (conservation sched). apply in_or_app. left. exact H. Qed.

Lemma NoDup_app_l {A} (l l' : list A) : NoDup (l ++ l') -> NoDup l.
Proof.
  induction l' as [|a l' IH] using rev_ind; intro H.
  - rewrite app_nil_r in H. exact H.
  - apply IH. rewrite app_assoc in H. rewrite <- (app_nil_r (l ++ l')).
    apply NoDup_remove_1 with (a := a). exact H.
Qed.

Lemma exactly_once sched :
  let s := run sched init in
  NoDup (map id_of (accepted s)) -> NoDup (map id_of (concat (delivered s))).
Proof.
  cbn zeta. rewrite (conservation sched). rewrite map_app. apply NoDup_app_l.
Qed.

Lemma per_producer_order sched p :
  let s := run sched init in
  exists rest, filter (by_prod p) (accepted s) = filter (by_prod p) (concat (delivered s)) ++ rest.
Proof.
  cbn zeta. exists (filter (by_prod p) (pending (run sched init))).
  rewrite <- filter_app. f_equal. apply conservation.
Qed.

Lemma batch_bound sched b :
  In b (delivered (run sched init)) -> (1 <= length b <= 100)%nat.
Proof.
  intro H. pose proof (i_batches _ (inv_reach sched)) as HF.
  rewrite Forall_forall in HF. apply (HF b H).
Qed.

Lemma flush sched :
  let s := run sched init in
  cp s = CReturned -> pending s = [] /\ concat (delivered s) = accepted s.
Proof.
  cbn zeta. intro Hret. pose proof (inv_reach sched) as I.
  destruct (i_ret _ I Hret) as [Hb Hw].
  assert (Hp : pending (run sched init) = []).
  { unfold pending. rewrite Hb, Hw. cbn [inflight hand app].
    rewrite (i_wend _ I (or_intror Hw)).
    assert (Hl : b_late (bp (run sched init)) = true) by (rewrite Hb; reflexivity).
    destruct (i_blate _ I Hl) as [-> _]. reflexivity. }
  split; [exact Hp|]. rewrite (i_cons _ I), Hp, app_nil_r. reflexivity.
Qed.

Lemma wg_nonneg sched : (0 <= wg (run sched init))%Z.
Proof.
  pose proof (inv_reach sched) as I. rewrite (i_wg _ I).
  pose proof (i_closed _ I) as Hcl. pose proof (i_blate _ I) as Hbl. pose proof (i_wpost _ I) as Hwp.
  destruct (cp (run sched init)) eqn:Ec.
  2-4: destruct (bp (run sched init)), (wp (run sched init)); lia.
  destruct (bp (run sched init)) eqn:Eb; destruct (wp (run sched init)) eqn:Ew; try lia;
    cbn in Hbl, Hwp; try (destruct (Hbl eq_refl) as [_ F]; congruence);
    try (discriminate (Hwp eq_refl)).
Qed.

Lemma no_panic_before_close sched :
  panicked (run sched init) = true -> closed (run sched init) = true.
Proof. apply i_panic, inv_reach. Qed.

(* producers wait for the batcher only, never for the writer / the broker: whatever the writer
   is doing (for instance sitting in the write function for ever), at most two steps of the
   batcher alone make room in the channel *)
Lemma producers_never_wait sched :
  let s := run sched init in
  closed s = false ->
  exists k, (k <= 2)%nat /\
    let s' := run (repeat LB k) s in
    publish_enabled s' = true /\ wp s' = wp s /\ delivered s' = delivered s /\
    accepted s' = accepted s.
Proof.
  cbn zeta. intro Hcl. pose proof (inv_reach sched) as I.
  pose proof (i_cap _ I) as Hcap. pose proof (i_blate _ I) as Hbl.
  destruct (run sched init) as [ch cl bf wk dn rl g b w c dl ac pn]. cbn [closed chan bp] in *. subst cl.
  pose proof chan_cap_pos as Hpos.
  destruct (Nlen ch <? ew_chan_cap) eqn:El.
  - exists 0%nat. split; [lia|]. cbn. unfold publish_enabled. cbn. rewrite El. auto.
  - apply N.ltb_ge in El. unfold Nlen in El.
    destruct ch as [|m r]; [cbn in El; lia|]. cbn [length] in *.
    assert (Hr : (Nlen r <? ew_chan_cap) = true) by (apply N.ltb_lt; unfold Nlen; lia).
    destruct b as [|m0| | | |]; try (destruct (Hbl eq_refl) as [_ F]; discriminate).
    + exists 1%nat. split; [lia|]. cbn. unfold publish_enabled. cbn. rewrite Hr. auto.
    + exists 2%nat. split; [lia|]. cbn. unfold publish_enabled. cbn. rewrite Hr. auto.
Qed.

(* ---------- keys ---------- *)
Lemma key_table_documented :
  ew_key_table = [(0,0); (1,0); (2,0); (3,1); (4,2); (5,2); (6,2); (7,2); (8,2)].
Proof. reflexivity. Qed.

Lemma env_scoped_cases k :
  env_scoped_kind k = true -> k = 4 \/ k = 5 \/ k = 6 \/ k = 7 \/ k = 8.
Proof.
  unfold env_scoped_kind. intro H. apply andb_true_iff in H. destruct H as [H1 H2].
  apply N.leb_le in H1. apply N.leb_le in H2. lia.
Qed.

Lemma key_env_scoped e :
  env_scoped_kind (e_kind e) = true -> key_of e = Some (nonempty_key (e_env e)).
Proof.
  intro H. apply env_scoped_cases in H. unfold key_of.
  destruct H as [-> | [-> | [-> | [-> | ->]]]]; reflexivity.
Qed.

Lemma key_task e : e_kind e = 3 -> key_of e = Some (nonempty_key (e_task e)).
Proof. intro H. unfold key_of. rewrite H. reflexivity. Qed.

Lemma key_meta e : e_kind e <= 2 -> key_of e = Some None.
Proof.
  intro H. assert (C : e_kind e = 0 \/ e_kind e = 1 \/ e_kind e = 2) by lia.
  unfold key_of. destruct C as [-> | [-> | ->]]; reflexivity.
Qed.

Lemma key_unsupported e : 9 <= e_kind e -> key_of e = None.
Proof.
  intro H. unfold key_of.
  assert (E : assocN (e_kind e) ew_key_table = None).
  { rewrite key_table_documented. cbn [assocN].
    repeat match goal with
           | |- context [?a =? ?b] => destruct (N.eqb_spec a b); [lia|]
           end. reflexivity. }
  rewrite E. reflexivity.
Qed.

Lemma documented_key_agrees e k : key_of e = Some k -> k = documented_key e.
Proof.
  intro H. unfold documented_key.
  destruct (env_scoped_kind (e_kind e)) eqn:Es.
  - rewrite (key_env_scoped e Es) in H. congruence.
  - destruct (N.eqb_spec (e_kind e) 3) as [E3|N3].
    + rewrite (key_task e E3) in H. congruence.
    + destruct (N.le_gt_cases (e_kind e) 2) as [L|G].
      * rewrite (key_meta e L) in H. congruence.
      * assert (9 <= e_kind e).
        { unfold env_scoped_kind in Es. apply andb_false_iff in Es.
          destruct Es as [Es|Es]; apply N.leb_gt in Es; lia. }
        rewrite (key_unsupported e H0) in H. discriminate.
Qed.

Lemma delivered_key sched m :
  In m (concat (delivered (run sched init))) -> key_of (m_ev m) = Some (m_key m).
Proof.
  intro H. apply delivered_incl_accepted in H.
  pose proof (i_keys _ (inv_reach sched)) as HF. rewrite Forall_forall in HF. apply HF, H.
Qed.

Lemma same_key sched m1 m2 :
  let s := run sched init in
  In m1 (concat (delivered s)) -> In m2 (concat (delivered s)) ->
  env_scoped_kind (e_kind (m_ev m1)) = true -> env_scoped_kind (e_kind (m_ev m2)) = true ->
  e_env (m_ev m1) = e_env (m_ev m2) ->
  m_key m1 = m_key m2 /\ m_key m1 = nonempty_key (e_env (m_ev m1)).
Proof.
  cbn zeta. intros H1 H2 K1 K2 E.
  apply delivered_key in H1. apply delivered_key in H2.
  rewrite (key_env_scoped _ K1) in H1. rewrite (key_env_scoped _ K2) in H2.
  split; [congruence|congruence].
Qed.

Lemma task_key sched m :
  In m (concat (delivered (run sched init))) -> e_kind (m_ev m) = 3 ->
  m_key m = nonempty_key (e_task (m_ev m)).
Proof.
  intros H K. apply delivered_key in H. rewrite (key_task _ K) in H. congruence.
Qed.

(* the literal reading "same environment id => same key" over ALL event types fails for task
   events, which carry an environment id but are keyed by their task id *)
Definition ev_task_E : event := mkEvent 3 0 [69] [84].   (* task event of task "T" in environment "E" *)
Definition ev_env_E : event := mkEvent 5 1 [69] [].     (* environment event of environment "E" *)
Definition sched_two_keys : list label :=
  [LPub 0 ev_task_E; LPub 0 ev_env_E; LB; LB; LB; LB; LW; LW; LW].

Lemma task_event_other_key :
  let s := run sched_two_keys init in
  exists m1 m2, In m1 (concat (delivered s)) /\ In m2 (concat (delivered s)) /\
                e_env (m_ev m1) = e_env (m_ev m2) /\ e_env (m_ev m1) <> [] /\
                m_key m1 <> m_key m2.
Proof.
  exists (mkMsg 0 ev_task_E (Some [84])), (mkMsg 0 ev_env_E (Some [69])).
  vm_compute. repeat split; auto; try discriminate.
Qed.

(* ---------- the lost wake-up is gone ---------- *)
(* the schedule that made Close hang before FifoBuffer got its `released` flag: the writer
   decides `default:`, Close closes the channel, the batcher signals, broadcasts and leaves, and
   only then the writer enters PopMultiple on the empty buffer *)
Definition hang_sched : list label := [LW; LC; LC; LB; LB; LB; LB; LW].

Lemma no_lost_wakeup sched : ~ lost_wakeup (run sched init).
Proof.
  intros (_ & Hb & Hw & Hk & _). pose proof (i_nolost _ (inv_reach sched)) as H.
  rewrite Hb, Hw in H. specialize (H eq_refl eq_refl). congruence.
Qed.

(* on that schedule the writer now comes back from PopMultiple empty-handed, sees the done token
   at its next select, and Close returns *)
Lemma old_hang_schedule_terminates :
  wp (run hang_sched init) = WSelect /\ done_sig (run hang_sched init) = true /\
  cp (run (hang_sched ++ [LW; LW; LW; LC]) init) = CReturned.
Proof. vm_compute. repeat split; reflexivity. Qed.

(* every step of the batcher, the writer or Close strictly decreases [measure]: between two
   publications the service processes can only make finitely many steps (in particular, after
   Close was called, every run reaches a state where nothing can move) *)
Lemma skipn_shorter {A} k (l : list A) : (1 <= k)%nat -> l <> [] -> (length (skipn k l) < length l)%nat.
Proof.
  intros Hk Hl. rewrite skipn_length. destruct l; [congruence|]. cbn [length]. lia.
Qed.

Lemma measure_decreases l s :
  Inv s ->
  (l = LB \/ l = LW \/ l = LC) -> can l s = true -> (measure (step l s) < measure s)%nat.
Proof.
  intros I Hl Hcan.
  pose proof (i_done _ I) as Id. pose proof (i_rel _ I) as Irl. pose proof (i_wpop _ I) as Ipop.
  destruct s as [ch cl bf wk dn rl g b w c dl ac pn].
  cbn [done_sig released bp wp buf] in Id, Irl, Ipop.
  destruct Hl as [-> | [-> | ->]]; cbn [can] in Hcan; cbn [step].
  - unfold b_can in Hcan. cbn [bp chan closed] in Hcan.
    unfold step_B, measure, credits, b_rank, w_extra.
    assert (Hex : (match w with WPop false => 3 | _ => 0 end <= 3)%nat)
      by (destruct w as [|[|]|?|? ?|?| | |]; lia).
    destruct b as [|m| | | |]; try discriminate.
    + destruct ch as [|m r]; [subst cl|]; cbn; lia.
    + cbn. rewrite app_length. cbn. destruct wk, (waiting w); cbn; lia.
    + cbn. destruct dn; cbn; lia.
    + cbn. destruct wk, (waiting w); cbn; lia.
    + cbn. lia.
  - unfold w_can in Hcan. cbn [wp woken] in Hcan.
    unfold step_W, measure, credits, b_rank, w_extra.
    rewrite drain_on_done.
    destruct w as [|d|d|d bt|d| | |]; try discriminate.
    + destruct dn; cbn; lia.
    + destruct bf as [|x bf].
      * destruct rl.
        -- (* released buffer: PopMultiple returns at once; the done token is there *)
           destruct d; [exfalso; apply (Ipop eq_refl); reflexivity|].
           assert (Hs : b_signalled b = true) by (destruct b; try discriminate; reflexivity).
           rewrite Hs in Id. cbn in Id. subst dn. cbn. lia.
        -- cbn. destruct wk, d, dn; cbn; lia.
      * pose proof (skipn_shorter (pop_max d) (x :: bf) (pop_max_pos d) ltac:(discriminate)) as Hs.
        cbn [chan buf bp wp cp woken done_sig b_rank w_rank]. cbn [length] in *.
        destruct dn, d; lia.
    + subst wk. destruct bf as [|x bf].
      * cbn. destruct d, dn; cbn; lia.
      * pose proof (skipn_shorter (pop_max d) (x :: bf) (pop_max_pos d) ltac:(discriminate)) as Hs.
        cbn [chan buf bp wp cp woken done_sig b_rank w_rank b2n]. cbn [length] in *.
        destruct dn; lia.
    + destruct bt; cbn; destruct d, dn; cbn; lia.
    + cbn. destruct d, dn; cbn; lia.
    + destruct bf; cbn; destruct dn; lia.
    + cbn. destruct dn; lia.
  - unfold c_can in Hcan. cbn [cp wg] in Hcan. unfold step_C, measure, credits, b_rank, w_extra.
    destruct c; try discriminate; [cbn; lia|cbn; lia|]. rewrite Hcan. cbn. lia.
Qed.

(* ---------- the forced (coarse) schedules are schedules ---------- *)
Definition coarse_state (ops : list op) (s : st) : st :=
  fold_left (fun s o => run (coarse_labels o s) s) ops s.

Lemma coarse_state_is_run ops : forall s, coarse_state ops s = run (coarse_sched ops s) s.
Proof.
  induction ops as [|o r IH]; intro s; [reflexivity|].
  cbn [coarse_state fold_left coarse_sched]. rewrite run_app. apply IH.
Qed.

Lemma forced_schedule_is_schedule ops :
  coarse_state ops init_settled = run (init_labels ++ coarse_sched ops init_settled) init.
Proof. rewrite run_app. apply coarse_state_is_run. Qed.

(* ---------- Close returns ---------- *)
Definition service (l : label) : Prop := l = LB \/ l = LW \/ l = LC.
Definition quiescent (s : st) : Prop := b_can s = false /\ w_can s = false /\ c_can s = false.
(* a scheduling policy: which process moves next; fair = it picks a process that can move
   whenever there is one, and no producer publishes any more *)
Definition fair_policy (pol : st -> label) : Prop :=
  forall s, ~ quiescent s -> service (pol s) /\ can (pol s) s = true.
Fixpoint drive (pol : st -> label) (n : nat) (s : st) : st :=
  match n with O => s | S k => drive pol k (step (pol s) s) end.

(* once Close has been called, nothing can move only when Close has returned *)
Lemma quiescent_returned s :
  Inv s -> cp s <> CNot -> quiescent s -> cp s = CReturned.
Proof.
  intros I Hc (Hb & Hw & Hcc).
  destruct I as [_ _ _ _ _ Icl Iwg Ibl _ _ _ _ _ _ _ _ _ _ Inl].
  unfold b_can, w_can, c_can in *.
  destruct s as [ch cl bf wk dn rl g b w c dl ac pn]. cbn in *.
  destruct c; try congruence; try discriminate. subst cl.
  assert (Eb : b = BExit).
  { destruct b; try discriminate; [destruct ch; discriminate|reflexivity]. }
  subst b.
  destruct w as [|d|d|d bt|d| | |]; try discriminate.
  - rewrite (Inl eq_refl eq_refl) in Hw. discriminate.
  - exfalso. apply Z.eqb_neq in Hcc. lia.
Qed.

Lemma cp_not_back l s : cp s <> CNot -> cp (step l s) <> CNot.
Proof.
  destruct s as [ch cl bf wk dn rl g b w c dl ac pn]. cbn [cp]. intro H.
  destruct l as [p e| | |]; cbn [step].
  - unfold step_pub. rewrite pub_sync_true.
    destruct (key_of e); [destruct cl; [|destruct (Nlen ch <? ew_chan_cap)]|]; exact H.
  - unfold step_B. destruct b; try exact H. destruct ch; [destruct cl|]; exact H.
  - unfold step_W. destruct w as [|d|d|d bt|d| | |]; try exact H.
    + destruct dn; exact H.
    + destruct bf; [destruct rl|]; exact H.
    + destruct wk; [destruct bf|]; exact H.
    + destruct bt; exact H.
    + destruct bf; exact H.
  - unfold step_C. destruct c; try discriminate; try exact H. destruct (g =? 0)%Z; discriminate.
Qed.

Lemma quiescent_dec s : {quiescent s} + {~ quiescent s}.
Proof.
  unfold quiescent. destruct (b_can s), (w_can s), (c_can s);
    try (left; repeat split; reflexivity); right; intros (A & B & C); discriminate.
Qed.

Lemma close_terminates_inv pol :
  fair_policy pol ->
  forall m s, (measure s <= m)%nat -> Inv s -> cp s <> CNot ->
  exists n, (n <= m)%nat /\ cp (drive pol n s) = CReturned.
Proof.
  intros Hfair. induction m as [|m IH]; intros s Hm I Hc.
  - exists 0%nat. split; [lia|]. cbn [drive].
    destruct (quiescent_dec s) as [Q|Q]; [apply quiescent_returned; assumption|].
    destruct (Hfair s Q) as [Hs Hcan]. pose proof (measure_decreases _ _ I Hs Hcan). lia.
  - destruct (quiescent_dec s) as [Q|Q].
    + exists 0%nat. split; [lia|]. cbn [drive]. apply quiescent_returned; assumption.
    + destruct (Hfair s Q) as [Hs Hcan]. pose proof (measure_decreases _ _ I Hs Hcan) as Hd.
      destruct (IH (step (pol s) s)) as (n & Hn & Hres).
      * lia.
      * apply step_inv, I.
      * apply cp_not_back, Hc.
      * exists (S n). split; [lia|]. cbn [drive]. exact Hres.
Qed.

(* Close terminates: under every fair policy, from every reachable state in which Close has been
   called, Close has returned after at most [measure s] steps *)
Lemma close_terminates pol sched :
  fair_policy pol ->
  let s := run sched init in
  cp s <> CNot ->
  exists n, (n <= measure s)%nat /\ cp (drive pol n s) = CReturned.
Proof.
  cbn zeta. intros Hf Hc.
  apply (close_terminates_inv pol Hf (measure (run sched init))); auto. apply inv_reach.
Qed.

(* such policies exist: batcher first, then writer, then Close *)
Definition bwc_policy (s : st) : label := if b_can s then LB else if w_can s then LW else LC.
Lemma bwc_fair : fair_policy bwc_policy.
Proof.
  intros s Q. unfold bwc_policy, quiescent, service in *.
  destruct (b_can s) eqn:B; [split; [auto|exact B]|].
  destruct (w_can s) eqn:W; [split; [auto|exact W]|].
  destruct (c_can s) eqn:C; [split; [auto|exact C]|].
  exfalso. apply Q. auto.
Qed.

(* measure on reachable states, as stated in the props file *)
Lemma measure_decreases_reach sched l :
  let s := run sched init in
  (l = LB \/ l = LW \/ l = LC) -> can l s = true -> (measure (step l s) < measure s)%nat.
Proof. cbn zeta. apply measure_decreases, inv_reach. Qed.

Definition same_key_all_types_statement : Prop :=
  forall sched m1 m2,
    let s := run sched init in
    In m1 (concat (delivered s)) -> In m2 (concat (delivered s)) ->
    e_env (m_ev m1) = e_env (m_ev m2) -> e_env (m_ev m1) <> [] ->
    3 <= e_kind (m_ev m1) -> 3 <= e_kind (m_ev m2) ->
    m_key m1 = m_key m2.

Lemma same_key_all_types_refuted : ~ same_key_all_types_statement.
Proof.
  intro H.
  specialize (H sched_two_keys (mkMsg 0 ev_task_E (Some [84])) (mkMsg 0 ev_env_E (Some [69]))).
  cbn zeta in H.
  assert (E : Some [84] = Some [69]).
  { apply H; vm_compute; auto; try discriminate. }
  discriminate E.
Qed.

(* deciding NoDup on identities (for the non-vacuity example) *)
Definition id_eqb (a b : N * N) : bool := (fst a =? fst b) && (snd a =? snd b).
Lemma nodupb_NoDup (l : list (N * N)) : nodupb id_eqb l = true -> NoDup l.
Proof.
  induction l as [|x r IH]; intro H; [constructor|].
  cbn [nodupb] in H. apply andb_true_iff in H. destruct H as [H1 H2].
  constructor; [|apply IH, H2].
  intro Hin. apply negb_true_iff in H1.
  assert (E : existsb (id_eqb x) r = true).
  { apply existsb_exists. exists x. split; [exact Hin|].
    unfold id_eqb. rewrite !N.eqb_refl. reflexivity. }
  congruence.
Qed.

(* ---------- without shutdown: everything accepted reaches the broker ---------- *)
Definition bw_quiescent (s : st) : Prop := b_can s = false /\ w_can s = false.
(* fair among the two loops; Close is not called, nobody publishes *)
Definition fair_bw_policy (pol : st -> label) : Prop :=
  forall s, ~ bw_quiescent s -> (pol s = LB \/ pol s = LW) /\ can (pol s) s = true.

Lemma bw_quiescent_dec s : {bw_quiescent s} + {~ bw_quiescent s}.
Proof.
  unfold bw_quiescent. destruct (b_can s), (w_can s);
    try (left; split; reflexivity); right; intros (A & B); discriminate.
Qed.

Lemma bw_quiescent_delivered s :
  Inv s -> cp s = CNot -> bw_quiescent s ->
  pending s = [] /\ concat (delivered s) = accepted s.
Proof.
  intros I Hc (Hb & Hw).
  destruct I as [Ic _ _ _ _ Icl _ Ibl _ Iwp _ _ _ _ Iwt _ _ _ _].
  unfold b_can, w_can, pending in *.
  destruct s as [ch cl bf wk dn rl g b w c dl ac pn]. cbn in *. subst c. subst cl.
  assert (Eb : b = BIdle /\ ch = []).
  { destruct b; try discriminate.
    - destruct ch; [auto|discriminate].
    - destruct (Ibl eq_refl) as [_ F]. discriminate. }
  destruct Eb as [-> ->].
  destruct w as [|d|d|d bt|d| | |]; try discriminate.
  - subst wk. rewrite (Iwt eq_refl eq_refl) in *. cbn in *.
    rewrite app_nil_r in Ic. auto.
  - discriminate (Iwp eq_refl).
Qed.

Lemma bw_step_keeps l s :
  (l = LB \/ l = LW) -> cp (step l s) = cp s /\ accepted (step l s) = accepted s.
Proof.
  intros Hl. destruct (accepted_spec s) as (_ & HB & HW & _).
  destruct s as [ch cl bf wk dn rl g b w c dl ac pn].
  destruct Hl as [-> | ->]; (split; [|assumption]); cbn [step].
  - unfold step_B. destruct b; try reflexivity. destruct ch; [destruct cl|]; reflexivity.
  - unfold step_W. destruct w as [|d|d|d bt|d| | |]; try reflexivity.
    + destruct dn; reflexivity.
    + destruct bf; [destruct rl|]; reflexivity.
    + destruct wk; [destruct bf|]; reflexivity.
    + destruct bt; reflexivity.
    + destruct bf; reflexivity.
Qed.

Lemma eventually_delivered_inv pol :
  fair_bw_policy pol ->
  forall m s, (measure s <= m)%nat -> Inv s -> cp s = CNot ->
  exists n, (n <= m)%nat /\
            pending (drive pol n s) = [] /\
            concat (delivered (drive pol n s)) = accepted (drive pol n s) /\
            accepted (drive pol n s) = accepted s.
Proof.
  intros Hfair. induction m as [|m IH]; intros s Hm I Hc.
  - exists 0%nat. split; [lia|]. cbn [drive].
    destruct (bw_quiescent_dec s) as [Q|Q].
    + destruct (bw_quiescent_delivered s I Hc Q). auto.
    + destruct (Hfair s Q) as [Hs Hcan].
      assert (Hs' : pol s = LB \/ pol s = LW \/ pol s = LC) by tauto.
      pose proof (measure_decreases _ _ I Hs' Hcan). lia.
  - destruct (bw_quiescent_dec s) as [Q|Q].
    + exists 0%nat. split; [lia|]. cbn [drive].
      destruct (bw_quiescent_delivered s I Hc Q). auto.
    + destruct (Hfair s Q) as [Hs Hcan].
      assert (Hs' : pol s = LB \/ pol s = LW \/ pol s = LC) by tauto.
      pose proof (measure_decreases _ _ I Hs' Hcan) as Hd.
      destruct (bw_step_keeps (pol s) s Hs) as [Kc Ka].
      destruct (IH (step (pol s) s)) as (n & Hn & Hp & Hcd & Hacc).
      * lia.
      * apply step_inv, I.
      * congruence.
      * exists (S n). split; [lia|]. cbn [drive]. repeat split; try assumption. congruence.
Qed.

Lemma eventually_delivered pol sched :
  fair_bw_policy pol ->
  let s := run sched init in
  cp s = CNot ->
  exists n, (n <= measure s)%nat /\
            let s' := drive pol n s in
            pending s' = [] /\ concat (delivered s') = accepted s' /\ accepted s' = accepted s.
Proof.
  cbn zeta. intros Hf Hc.
  apply (eventually_delivered_inv pol Hf (measure (run sched init))); auto. apply inv_reach.
Qed.

Definition bw_policy (s : st) : label := if b_can s then LB else LW.
Lemma bw_fair : fair_bw_policy bw_policy.
Proof.
  intros s Q. unfold bw_policy, bw_quiescent in *.
  destruct (b_can s) eqn:B; [split; [auto|exact B]|].
  destruct (w_can s) eqn:W; [split; [auto|exact W]|].
  exfalso. apply Q. auto.
Qed.

(* ---------- the producer side: a full channel makes the producer wait ---------- *)
Lemma publish_blocks_when_full s p e :
  closed s = false -> publish_enabled s = false -> step (LPub p e) s = s.
Proof.
  destruct s as [ch cl bf wk dn rl g b w c dl ac pn]. unfold publish_enabled. cbn [closed chan step].
  intros -> H. cbn [negb andb] in H. unfold step_pub. rewrite pub_sync_true, H.
  destruct (key_of e); reflexivity.
Qed.

Lemma publish_is_blocking_send :
  ew_pub_single_send = true /\ ew_pub_plain_send = true /\ ew_pub_no_select = true /\
  ew_pub_no_go = true /\ ew_pub_convert_first = true /\
  (forall s p e, closed s = false -> publish_enabled s = false -> step (LPub p e) s = s).
Proof. repeat (split; [reflexivity|]). exact publish_blocks_when_full. Qed.

Lemma pub_step_counts p e s :
  (length (chan s) <= N.to_nat ew_chan_cap)%nat ->
  let s' := step (LPub p e) s in
  (length (accepted s') + length (chan s) = length (accepted s) + length (chan s'))%nat /\
  (length (chan s') <= N.to_nat ew_chan_cap)%nat /\ delivered s' = delivered s.
Proof.
  destruct s as [ch cl bf wk dn rl g b w c dl ac pn]. cbn [step chan accepted delivered]. intro Hcap.
  unfold step_pub. rewrite pub_sync_true.
  destruct (key_of e); [|cbn; auto]. destruct cl; [cbn; auto|].
  destruct (Nlen ch <? ew_chan_cap) eqn:El; [|cbn; auto].
  apply N.ltb_lt in El. unfold Nlen in El. cbn [chan accepted delivered].
  rewrite !app_length. cbn [length]. repeat split; lia.
Qed.

Lemma pubs_only_counts pubs : forall s,
  (length (chan s) <= N.to_nat ew_chan_cap)%nat ->
  let s' := run (map pub_label pubs) s in
  (length (accepted s') + length (chan s) = length (accepted s) + length (chan s'))%nat /\
  (length (chan s') <= N.to_nat ew_chan_cap)%nat /\ delivered s' = delivered s.
Proof.
  induction pubs as [|pe r IH]; intros s Hcap; [cbn; auto|].
  change (run (map pub_label (pe :: r)) s)
    with (run (map pub_label r) (step (LPub (fst pe) (snd pe)) s)).
  destruct (pub_step_counts (fst pe) (snd pe) s Hcap) as (A & B & C).
  destruct (IH _ B) as (A' & B' & C'). cbn zeta in *.
  repeat split; [lia|exact B'|congruence].
Qed.

(* whatever the producers do, while the batching loop does not move no more publications are
   accepted (WriteEvent returns) than the channel has room for *)
Lemma full_channel_blocks_producers sched pubs :
  let s := run sched init in
  let s' := run (map pub_label pubs) s in
  (length (accepted s') + length (chan s) <= length (accepted s) + N.to_nat ew_chan_cap)%nat /\
  delivered s' = delivered s.
Proof.
  cbn zeta. destruct (pubs_only_counts pubs _ (i_cap _ (inv_reach sched))) as (A & B & C).
  split; [lia|exact C].
Qed.

(* the stalled phase of the forced OFull schedules: the batching loop takes one message and then
   stands still, so at most capacity + 1 publications return *)
Definition idle1 (b : bpc) : nat := match b with BIdle => 1 | _ => 0 end.
Definition took (p : N) (e : event) (s : st) : list label :=
  match bp (step (LPub p e) s) with
  | BIdle => match chan (step (LPub p e) s) with _ :: _ => [LB] | [] => [] end
  | _ => []
  end.

Lemma stalled_iter p e s :
  (length (chan s) <= N.to_nat ew_chan_cap)%nat ->
  supported e && negb (closed s) && negb (publish_enabled s) = false ->
  let s2 := run (took p e s) (step (LPub p e) s) in
  (length (chan s2) <= N.to_nat ew_chan_cap)%nat /\
  ((if supported e && negb (closed s) then 1 else 0) + length (chan s) + idle1 (bp s2)
   <= length (chan s2) + idle1 (bp s))%nat.
Proof.
  destruct s as [ch cl bf wk dn rl g b w c dl ac pn]. unfold took, supported, publish_enabled.
  cbn [step closed chan bp]. unfold step_pub. rewrite pub_sync_true. intros Hcap Hblk.
  destruct (key_of e) as [k|].
  - destruct cl; cbn [negb andb] in *.
    + cbn [bp chan]. destruct b; cbn [run fold_left bp chan idle1]; try (split; lia).
      destruct ch as [|m r]; cbn [run fold_left step step_B bp chan idle1 length] in *; split; lia.
    + apply negb_false_iff in Hblk. rewrite Hblk. cbn [bp chan].
      apply N.ltb_lt in Hblk. unfold Nlen in Hblk.
      destruct b; cbn [run fold_left bp chan idle1]; rewrite ?app_length; cbn [length]; try (split; lia).
      destruct ch as [|m r]; cbn [app run fold_left step step_B bp chan idle1 length] in *;
        rewrite ?app_length; cbn [length]; split; lia.
  - cbn [andb bp chan]. destruct b; cbn [run fold_left bp chan idle1]; try (split; lia).
    destruct ch as [|m r]; cbn [run fold_left step step_B bp chan idle1 length] in *; split; lia.
Qed.

Lemma stalled_bound l : forall s,
  (length (chan s) <= N.to_nat ew_chan_cap)%nat ->
  (N.to_nat (stalled_returns l s) + length (chan s) <= N.to_nat ew_chan_cap + idle1 (bp s))%nat.
Proof.
  unfold stalled_returns.
  induction l as [|pe r IH]; intros s Hcap; [cbn [stalled snd]; change (N.to_nat 0) with 0%nat; lia|].
  cbn [stalled].
  destruct (supported (snd pe) && negb (closed s) && negb (publish_enabled s)) eqn:Eblk;
    [cbn [snd]; change (N.to_nat 0) with 0%nat; lia|].
  destruct (stalled_iter (fst pe) (snd pe) s Hcap Eblk) as [Hc2 Hit].
  unfold took in Hc2, Hit. unfold pub_label.
  specialize (IH _ Hc2).
  destruct (stalled r _) as [[ls rest] n]. cbn [snd] in *.
  rewrite N2Nat.inj_add.
  change (N.to_nat 1) with 1%nat in *. change (N.to_nat 0) with 0%nat in *.
  destruct (supported (snd pe) && negb (closed s));
    [change (N.to_nat 1) with 1%nat|change (N.to_nat 0) with 0%nat]; lia.
Qed.

Lemma stalled_returns_bound sched l :
  let s := run sched init in
  (N.to_nat (stalled_returns l s) + length (chan s) <= N.to_nat ew_chan_cap + 1)%nat.
Proof.
  cbn zeta. pose proof (stalled_bound l _ (i_cap _ (inv_reach sched))) as H.
  unfold idle1 in H. destruct (bp (run sched init)); lia.
Qed.

(* exact count: from a state in which the batching loop is idle with room in the channel, or
   already holds a message *)
Definition stall_pre (s : st) : Prop :=
  closed s = false /\
  ((bp s = BIdle /\ (length (chan s) < N.to_nat ew_chan_cap)%nat) \/
   ((exists m, bp s = BHold m) /\ (length (chan s) <= N.to_nat ew_chan_cap)%nat)).

Lemma stalled_step_acc p e s :
  supported e = true -> closed s = false -> publish_enabled s = true ->
  let s2 := run (took p e s) (step (LPub p e) s) in
  closed s2 = false /\
  (bp s = BIdle -> (exists m, bp s2 = BHold m) /\ length (chan s2) = length (chan s)) /\
  (forall m, bp s = BHold m -> bp s2 = BHold m /\ length (chan s2) = S (length (chan s))).
Proof.
  destruct s as [ch cl bf wk dn rl g b w c dl ac pn]. unfold took, supported, publish_enabled.
  cbn [step closed chan bp]. unfold step_pub. rewrite pub_sync_true.
  destruct (key_of e) as [k|]; [|discriminate]. intros _ -> El. cbn [negb andb] in El. rewrite El.
  cbn [bp chan].
  destruct b; cbn [run fold_left closed bp chan]; (split; [try reflexivity|split; [intro Hb; try discriminate Hb|intros m0 Hb; try discriminate Hb]]).
  - destruct ch as [|x r]; reflexivity.
  - destruct ch as [|x r]; cbn [app step step_B run fold_left bp chan length].
    + split; [eexists; reflexivity|reflexivity].
    + split; [eexists; reflexivity|]. rewrite app_length. cbn [length]. lia.
  - injection Hb as <-. split; [reflexivity|]. rewrite app_length. cbn [length]. lia.
Qed.

Lemma pe_room s : closed s = false ->
  (publish_enabled s = true -> (length (chan s) < N.to_nat ew_chan_cap)%nat) /\
  (publish_enabled s = false -> (N.to_nat ew_chan_cap <= length (chan s))%nat).
Proof.
  unfold publish_enabled. intros ->. cbn [negb andb]. unfold Nlen. split; intro H.
  - apply N.ltb_lt in H. lia.
  - apply N.ltb_ge in H. lia.
Qed.

Lemma stalled_exact l : forall s,
  stall_pre s -> forallb (fun pe => supported (snd pe)) l = true ->
  N.to_nat (stalled_returns l s) =
  Nat.min (length l) (N.to_nat ew_chan_cap - length (chan s) + idle1 (bp s)).
Proof.
  unfold stalled_returns. induction l as [|pe r IH]; intros s [Hcl Hpre] Hsup.
  - cbn [stalled snd length]. change (N.to_nat 0) with 0%nat. reflexivity.
  - cbn [forallb] in Hsup. apply andb_true_iff in Hsup. destruct Hsup as [Hs Hr].
    destruct (pe_room s Hcl) as [Hroom Hfull].
    cbn [stalled]. rewrite Hs, Hcl. cbn [negb andb].
    destruct (publish_enabled s) eqn:Epe; cbn [negb].
    + destruct (stalled_step_acc (fst pe) (snd pe) s Hs Hcl Epe) as (Hc2 & HI & HH).
      unfold took in Hc2, HI, HH. unfold pub_label. specialize (Hroom eq_refl).
      match goal with |- context [stalled r ?s2] => assert (P2 : stall_pre s2) end.
      { split; [exact Hc2|]. destruct Hpre as [[Hb Hlt] | [[m Hb] Hle]].
        - destruct (HI Hb) as [Hb2 Hlen]. right. split; [exact Hb2|lia].
        - destruct (HH m Hb) as [Hb2 Hlen]. right. split; [exists m; exact Hb2|lia]. }
      specialize (IH _ P2 Hr).
      destruct Hpre as [[Hb Hlt] | [[m Hb] Hle]].
      * destruct (HI Hb) as [[m' Hb2] Hlen]. rewrite Hb2, Hlen in IH. rewrite Hb.
        destruct (stalled r _) as [[ls rest] n]. cbn [snd idle1 length] in *.
        rewrite N2Nat.inj_add. change (N.to_nat 1) with 1%nat. lia.
      * destruct (HH m Hb) as [Hb2 Hlen]. rewrite Hb2, Hlen in IH. rewrite Hb.
        destruct (stalled r _) as [[ls rest] n]. cbn [snd idle1 length] in *.
        rewrite N2Nat.inj_add. change (N.to_nat 1) with 1%nat. lia.
    + specialize (Hfull eq_refl). cbn [snd length]. change (N.to_nat 0) with 0%nat.
      destruct Hpre as [[Hb Hlt] | [[m Hb] Hle]]; [lia|]. rewrite Hb. cbn [idle1]. lia.
Qed.

(* ---------- every publication of an OFull operation is accepted, in the listed order ---------- *)
Lemma run_cons l ls s : run (l :: ls) s = run ls (step l s).
Proof. reflexivity. Qed.

Lemma run_inv ls : forall s, Inv s -> Inv (run ls s).
Proof.
  induction ls as [|l ls IH]; intros s I; [exact I|]. rewrite run_cons. apply IH, step_inv, I.
Qed.

Lemma LB_keeps s : closed (step LB s) = closed s /\ accepted (step LB s) = accepted s.
Proof.
  destruct s as [ch cl bf wk dn rl g b w c dl ac pn]. cbn [step]. unfold step_B.
  destruct b; try (split; reflexivity). destruct ch; [destruct cl|]; split; reflexivity.
Qed.

Lemma took_keeps p e s :
  let s1 := step (LPub p e) s in
  closed (run (took p e s) s1) = closed s1 /\ accepted (run (took p e s) s1) = accepted s1.
Proof.
  cbn zeta. unfold took. destruct (bp (step (LPub p e) s)); try (split; reflexivity).
  destruct (chan (step (LPub p e) s)); [split; reflexivity|]. rewrite run_cons. apply LB_keeps.
Qed.

Lemma pub_accepts p e s :
  supported e = true -> closed s = false -> publish_enabled s = true ->
  accepted (step (LPub p e) s) = accepted s ++ [msg_of_pub (p, e)] /\
  closed (step (LPub p e) s) = false.
Proof.
  destruct s as [ch cl bf wk dn rl g b w c dl ac pn]. unfold supported, publish_enabled, msg_of_pub.
  cbn [step closed chan accepted fst snd]. unfold step_pub.
  destruct (key_of e) as [k|]; [|discriminate]. intros _ -> El. cbn [negb andb] in El. rewrite El.
  split; reflexivity.
Qed.

Lemma stalled_accepts l : forall s,
  closed s = false -> forallb (fun pe => supported (snd pe)) l = true ->
  exists acc,
    l = acc ++ snd (fst (stalled l s)) /\
    accepted (run (fst (fst (stalled l s))) s) = accepted s ++ map msg_of_pub acc /\
    closed (run (fst (fst (stalled l s))) s) = false.
Proof.
  induction l as [|pe r IH]; intros s Hcl Hsup.
  - exists []. cbn. rewrite app_nil_r. auto.
  - cbn [forallb] in Hsup. apply andb_true_iff in Hsup. destruct Hsup as [Hs Hr].
    cbn [stalled]. rewrite Hs, Hcl. cbn [negb andb].
    destruct (publish_enabled s) eqn:Epe; cbn [negb].
    + destruct (pub_accepts (fst pe) (snd pe) s Hs Hcl Epe) as [Ha Hc].
      destruct (took_keeps (fst pe) (snd pe) s) as [Kc Ka]. unfold took in Kc, Ka. unfold pub_label.
      rewrite Hc in Kc. rewrite Ha in Ka.
      destruct (IH _ Kc Hr) as (acc & El & Eacc & Ecl).
      destruct (stalled r _) as [[ls rest] n]. cbn [fst snd] in *.
      exists (pe :: acc). rewrite run_cons, run_app.
      split; [cbn [app]; congruence|]. split; [|exact Ecl].
      rewrite Eacc, Ka. cbn [map]. rewrite <- app_assoc. destruct pe; reflexivity.
    + exists []. cbn [fst snd app map run fold_left]. rewrite app_nil_r. auto.
Qed.

Lemma make_room_ok s :
  Inv s -> closed s = false ->
  let s' := run (make_room s) s in
  publish_enabled s' = true /\ accepted s' = accepted s /\ closed s' = false.
Proof.
  intros I Hcl. pose proof (i_cap _ I) as Hcap. pose proof (i_blate _ I) as Hbl.
  pose proof chan_cap_pos as Hpos.
  destruct s as [ch cl bf wk dn rl g b w c dl ac pn]. cbn [closed chan bp] in *. subst cl.
  unfold make_room, publish_enabled. cbn [closed chan negb andb orb].
  destruct (Nlen ch <? ew_chan_cap) eqn:El; cbn [orb].
  - cbn. rewrite El. auto.
  - apply N.ltb_ge in El. unfold Nlen in El.
    destruct ch as [|m r]; [cbn in El; lia|]. cbn [length] in *.
    assert (Hr : (Nlen r <? ew_chan_cap) = true) by (apply N.ltb_lt; unfold Nlen; lia).
    assert (Hf : (Nlen (m :: r) <? ew_chan_cap) = false) by (apply N.ltb_ge; unfold Nlen; cbn [length]; lia).
    destruct b as [|m0| | | |]; try (destruct (Hbl eq_refl) as [_ F]; discriminate).
    + cbn [step step_B closed chan negb andb]. rewrite Hr. cbn. rewrite Hr. auto.
    + cbn [step step_B closed chan negb andb]. rewrite Hf. cbn. rewrite Hr. auto.
Qed.

Lemma resumed_accepts l : forall s,
  Inv s -> closed s = false -> forallb (fun pe => supported (snd pe)) l = true ->
  accepted (run (resumed l s) s) = accepted s ++ map msg_of_pub l /\
  closed (run (resumed l s) s) = false.
Proof.
  induction l as [|pe r IH]; intros s I Hcl Hsup.
  - cbn. rewrite app_nil_r. auto.
  - cbn [forallb] in Hsup. apply andb_true_iff in Hsup. destruct Hsup as [Hs Hr].
    cbn [resumed]. rewrite Hs. rewrite run_app.
    destruct (make_room_ok s I Hcl) as (He & Ha & Hc).
    assert (I1 : Inv (run (make_room s) s)) by (apply run_inv, I).
    rewrite (run_app (make_room s) [pub_label pe]). unfold pub_label at 1 2 3 4. cbn [run fold_left] in *.
    fold (run (make_room s) s) in *.
    destruct (pub_accepts (fst pe) (snd pe) _ Hs Hc He) as [Ha2 Hc2].
    destruct (IH _ (step_inv _ _ I1) Hc2 Hr) as [A B].
    split; [|exact B]. rewrite A, Ha2, Ha. cbn [map]. rewrite <- app_assoc. destruct pe; reflexivity.
Qed.

Lemma full_accepts_all sched l :
  let s := run sched init in
  closed s = false -> forallb (fun pe => supported (snd pe)) l = true ->
  let s' := run (full_labels l s) s in
  accepted s' = accepted s ++ map msg_of_pub l /\ closed s' = false.
Proof.
  cbn zeta. intros Hcl Hsup. unfold full_labels.
  destruct (stalled_accepts l _ Hcl Hsup) as (acc & El & Ea & Ec).
  destruct (stalled l (run sched init)) as [[ls rest] n]. cbn [fst snd] in *.
  assert (Hrest : forallb (fun pe => supported (snd pe)) rest = true).
  { rewrite El in Hsup. rewrite forallb_app in Hsup. apply andb_true_iff in Hsup. tauto. }
  rewrite run_app.
  destruct (resumed_accepts rest _ (run_inv ls _ (inv_reach sched)) Ec Hrest) as [A B].
  split; [|exact B]. rewrite A, Ea, El, map_app, app_assoc. reflexivity.
Qed.

Lemma stalled_returns_closed_form sched l :
  let s := run sched init in
  full_pre_ok s = true -> forallb (fun pe => supported (snd pe)) l = true ->
  stalled_returns l s = full_returns l.
Proof.
  cbn zeta. intros Hpre Hsup. unfold full_pre_ok in Hpre.
  destruct (chan (run sched init)) eqn:Ech; [|discriminate].
  destruct (bp (run sched init)) eqn:Eb; try discriminate.
  apply negb_true_iff in Hpre. pose proof chan_cap_pos as Hpos.
  assert (P : stall_pre (run sched init)).
  { split; [exact Hpre|]. left. split; [exact Eb|]. rewrite Ech. cbn [length]. lia. }
  pose proof (stalled_exact l _ P Hsup) as H. rewrite Ech, Eb in H. cbn [length idle1] in H.
  apply N2Nat.inj. rewrite H. unfold full_returns, Nlen.
  rewrite N2Nat.inj_min, Nat2N.id, N2Nat.inj_add. change (N.to_nat 1) with 1%nat. lia.
Qed.

Lemma coarse_end_is_state ops s : coarse_end ops s = coarse_state ops s.
Proof. reflexivity. Qed.

Lemma constants_fit_model :
  ew_done_cap = 1 /\ ew_drain_on_done = true /\ ew_release_sticky = true /\
  (forall d, (1 <= pop_max d <= 100)%nat) /\ (1 <= N.to_nat ew_chan_cap)%nat.
Proof.
  split; [exact done_cap_one|]. split; [exact drain_on_done|]. split; [exact release_sticky|].
  split; [intro d; split; [apply pop_max_pos|apply pop_max_le]|exact chan_cap_pos].
Qed.
