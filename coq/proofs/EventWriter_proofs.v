(* Proofs about the EventWriter model (property C19). *)
From Verif Require Import Common Gen_EventWriter EventWriter.
From Coq Require Import Lia.
Open Scope N_scope.

Arguments pop_max : simpl never.

(* ---------- schedules ---------- *)
Lemma run_app a b s : run (a ++ b) s = run b (run a s).
Proof. unfold run. apply fold_left_app. Qed.

Lemma run_snoc a l s : run (a ++ [l]) s = step l (run a s).
Proof. rewrite run_app. reflexivity. Qed.

Lemma reach_ind (P : st -> Prop) :
  P init -> (forall s l, P s -> P (step l s)) -> forall sched, P (run sched init).
Proof.
  intros H0 HS sched. induction sched as [|l sched IH] using rev_ind.
  - exact H0.
  - rewrite run_snoc. apply HS, IH.
Qed.

(* ---------- constants of the regenerated table, as the model needs them ---------- *)
Lemma pop_max_pos d : (1 <= pop_max d)%nat.
Proof. destruct d; vm_compute; lia. Qed.

Lemma pop_max_le d : (pop_max d <= 100)%nat.
Proof. destruct d; vm_compute; lia. Qed.

Lemma chan_cap_pos : (1 <= N.to_nat ew_chan_cap)%nat.
Proof. vm_compute. lia. Qed.

Lemma drain_on_done : ew_drain_on_done = true.
Proof. reflexivity. Qed.

Lemma done_cap_one : ew_done_cap = 1.
Proof. reflexivity. Qed.

(* ---------- the invariant ---------- *)
Definition ok_batch (b : list msg) : Prop := (1 <= length b <= 100)%nat.

Definition b_late (b : bpc) : bool :=
  match b with BSignal | BBcast | BWg | BExit => true | _ => false end.
Definition b_signalled (b : bpc) : bool :=
  match b with BBcast | BWg | BExit => true | _ => false end.
(* the writer has consumed the done token *)
Definition w_post (w : wpc) : bool :=
  match w with
  | WPop true | WWait true | WSend true _ | WInWrite true | WLen | WWg | WExit => true
  | _ => false
  end.

Record Inv (s : st) : Prop := mkInv {
  i_cons : accepted s = concat (delivered s) ++ pending s;
  i_keys : Forall (fun m => key_of (m_ev m) = Some (m_key m)) (accepted s);
  i_batches : Forall ok_batch (delivered s);
  i_inflight : forall d b, wp s = WSend d b -> ok_batch b;
  i_cap : (length (chan s) <= N.to_nat ew_chan_cap)%nat;
  i_closed : closed s = match cp s with CClosed | CReturned => true | _ => false end;
  i_wg : wg s = ((match cp s with CNot => 0 | _ => 2 end)
                 - (match bp s with BExit => 1 | _ => 0 end)
                 - (match wp s with WExit => 1 | _ => 0 end))%Z;
  i_blate : b_late (bp s) = true -> chan s = [] /\ closed s = true;
  i_done : done_sig s = b_signalled (bp s) && negb (w_post (wp s));
  i_wpost : w_post (wp s) = true -> b_signalled (bp s) = true;
  i_wpop : wp s = WPop true -> buf s <> [];
  i_nowait : wp s <> WWait true;
  i_wend : wp s = WWg \/ wp s = WExit -> buf s = [];
  i_woken : woken s = true -> waiting (wp s) = true;
  i_wait : waiting (wp s) = true -> woken s = false -> buf s = [];
  i_ret : cp s = CReturned -> bp s = BExit /\ wp s = WExit;
  i_panic : panicked s = true -> closed s = true
}.

Lemma inv_init : Inv init.
Proof.
  constructor; cbn; try reflexivity; try discriminate; try (intros; discriminate);
    try constructor; try (intros [?|?]; discriminate); try lia.
  - pose proof chan_cap_pos. lia.
  - intuition discriminate.
Qed.

Ltac crush :=
  cbn in *; intros;
  repeat match goal with
         | H : _ /\ _ |- _ => destruct H
         | H : ?a = ?a -> _ |- _ => specialize (H eq_refl)
         end;
  try solve [ assumption | reflexivity | discriminate | congruence | lia
            | intuition (try congruence; try discriminate; try lia)
            | split; intuition (try congruence; try discriminate) ].

(* --- producers --- *)
Lemma inv_pub p e s : Inv s -> Inv (step_pub p e s).
Proof.
  intros [Hc Hk Hb Hi Hcap Hcl Hwg Hbl Hd Hwp Hpop Hnw Hwe Hwk Hwt Hr Hp].
  destruct s as [ch cl bf wk dn g b w c dl ac pn]. unfold step_pub.
  destruct (key_of e) as [k|] eqn:Ek; [|constructor; assumption].
  destruct cl.
  - constructor; cbn in *; try assumption. reflexivity.
  - destruct (Nlen ch <? ew_chan_cap) eqn:El; [|constructor; assumption].
    apply N.ltb_lt in El. unfold Nlen in El.
    constructor; cbn in *; try assumption.
    + rewrite Hc. unfold pending. cbn. repeat rewrite <- app_assoc. reflexivity.
    + apply Forall_app. split; [assumption|]. constructor; [exact Ek|constructor].
    + rewrite app_length. cbn. lia.
    + intro Hl. destruct (Hbl Hl) as [_ F]. discriminate.
Qed.

(* --- batcher --- *)
Lemma inv_B s : Inv s -> Inv (step_B s).
Proof.
  intros [Hc Hk Hb Hi Hcap Hcl Hwg Hbl Hd Hwp Hpop Hnw Hwe Hwk Hwt Hr Hp].
  destruct s as [ch cl bf wk dn g b w c dl ac pn]. unfold step_B.
  destruct b as [|m| | | |].
  - (* BIdle *)
    destruct ch as [|m r].
    + destruct cl; [|constructor; assumption].
      constructor; cbn in *; try assumption; crush.
      * destruct (w_post w); [discriminate (Hwp eq_refl)|]. reflexivity.
    + constructor; cbn in *; try assumption; crush.
      * destruct (w_post w); [discriminate (Hwp eq_refl)|]. reflexivity.
  - (* BHold: Push *)
    assert (Hnp : w_post w = false) by (destruct (w_post w); [discriminate (Hwp eq_refl)|reflexivity]).
    constructor; cbn in *; try assumption; crush.
    + rewrite Hc. unfold pending. cbn. repeat rewrite <- app_assoc. reflexivity.
    + subst w. discriminate.
    + destruct H as [H|H]; subst w; discriminate.
    + destruct wk; cbn in *; [apply Hwk; reflexivity|assumption].
    + destruct wk; cbn in *; [discriminate|]. rewrite H in H0. discriminate.
  - (* BSignal *)
    assert (Hnp : w_post w = false) by (destruct (w_post w); [discriminate (Hwp eq_refl)|reflexivity]).
    constructor; cbn in *; try assumption; crush.
    rewrite Hnp. reflexivity.
  - (* BBcast *)
    constructor; cbn in *; try assumption; crush.
    + destruct wk; cbn in *; [apply Hwk; reflexivity|assumption].
    + destruct wk; cbn in *; [discriminate|]. rewrite H in H0. discriminate.
  - (* BWg *)
    constructor; cbn in *; try assumption; crush.
  - constructor; assumption.
Qed.
