(* Lemmas about model/Channels.v *)
From Verif Require Import Common Channels.
Open Scope N_scope.

(* ====================================================================================== *)
(* strings, association lists, Go-map updates                                              *)
(* ====================================================================================== *)
Lemma str_eqb_false a b : str_eqb a b = false <-> a <> b.
Proof.
  split.
  - intros H E. apply str_eqb_spec in E. congruence.
  - intro H. destruct (str_eqb a b) eqn:E; [|reflexivity]. apply str_eqb_spec in E. contradiction.
Qed.

Lemma str_eqb_sym a b : str_eqb a b = str_eqb b a.
Proof.
  destruct (str_eqb a b) eqn:E.
  - apply str_eqb_spec in E. subst. symmetry. apply str_eqb_refl.
  - symmetry. apply str_eqb_false. apply str_eqb_false in E. congruence.
Qed.

Lemma assoc_In {V} k (l : list (str * V)) v : assoc k l = Some v -> In (k, v) l.
Proof.
  induction l as [|[k' v'] l IH]; cbn; [discriminate|].
  destruct (str_eqb k k') eqn:E.
  - intro H. inversion H; subst. apply str_eqb_spec in E. subst. left. reflexivity.
  - intro H. right. apply IH, H.
Qed.

Lemma assoc_None {V} k (l : list (str * V)) : assoc k l = None <-> ~ In k (map fst l).
Proof.
  induction l as [|[k' v'] l IH]; cbn.
  - split; [intros _ []|reflexivity].
  - destruct (str_eqb k k') eqn:E.
    + split; [discriminate|]. intro H. exfalso. apply H. left. apply str_eqb_spec in E. congruence.
    + rewrite IH. apply str_eqb_false in E. split.
      * intros H [H1|H1]; [congruence|contradiction].
      * intros H H1. apply H. right. exact H1.
Qed.

Lemma assoc_nodup_In {V} k v (l : list (str * V)) :
  NoDup (map fst l) -> In (k, v) l -> assoc k l = Some v.
Proof.
  induction l as [|[k' v'] l IH]; cbn; intros ND HI; [contradiction|].
  inversion ND as [|x xs Hnot ND']; subst.
  destruct HI as [HI|HI].
  - inversion HI; subst. rewrite str_eqb_refl. reflexivity.
  - destruct (str_eqb k k') eqn:E.
    + apply str_eqb_spec in E. subst. exfalso. apply Hnot.
      change k' with (fst (k', v)). apply in_map. exact HI.
    + apply IH; assumption.
Qed.

Lemma bm_remove_cons {V} k k' (v' : V) m :
  bm_remove k ((k', v') :: m) = if str_eqb k' k then bm_remove k m else (k', v') :: bm_remove k m.
Proof. unfold bm_remove. cbn [filter fst]. destruct (str_eqb k' k); reflexivity. Qed.

Lemma assoc_remove_same {V} k (m : list (str * V)) : assoc k (bm_remove k m) = None.
Proof.
  induction m as [|[k' v'] m IH]; [reflexivity|].
  rewrite bm_remove_cons. destruct (str_eqb k' k) eqn:E; [exact IH|].
  cbn [assoc]. rewrite str_eqb_sym, E. exact IH.
Qed.

Lemma assoc_remove_other {V} k k' (m : list (str * V)) :
  k <> k' -> assoc k' (bm_remove k m) = assoc k' m.
Proof.
  intro N. induction m as [|[k2 v2] m IH]; [reflexivity|].
  rewrite bm_remove_cons. destruct (str_eqb k2 k) eqn:E.
  - apply str_eqb_spec in E. subst. cbn [assoc].
    assert (str_eqb k' k = false) as ->. { apply str_eqb_false. congruence. }
    exact IH.
  - cbn [assoc]. rewrite IH. reflexivity.
Qed.

Lemma assoc_set_same {V} k (v : V) m : assoc k (bm_set k v m) = Some v.
Proof. unfold bm_set. cbn [assoc]. rewrite str_eqb_refl. reflexivity. Qed.

Lemma assoc_set_other {V} k k' (v : V) m : k <> k' -> assoc k' (bm_set k v m) = assoc k' m.
Proof.
  intro N. unfold bm_set. cbn [assoc].
  assert (str_eqb k' k = false) as ->. { apply str_eqb_false. congruence. }
  apply assoc_remove_other. exact N.
Qed.

Lemma assoc_set_inv {V} k (v : V) m k' v' :
  assoc k' (bm_set k v m) = Some v' -> (k' = k /\ v' = v) \/ (k' <> k /\ assoc k' m = Some v').
Proof.
  intro H. destruct (str_eqb k' k) eqn:E.
  - apply str_eqb_spec in E. subst. rewrite assoc_set_same in H. inversion H. left. split; reflexivity.
  - apply str_eqb_false in E. rewrite assoc_set_other in H by congruence. right. split; assumption.
Qed.

Lemma remove_keys_incl {V} k (m : list (str * V)) x : In x (map fst (bm_remove k m)) -> In x (map fst m) /\ x <> k.
Proof.
  induction m as [|[k' v'] m IH]; [intros []|].
  rewrite bm_remove_cons. destruct (str_eqb k' k) eqn:E.
  - intro H. destruct (IH H). split; [right|]; assumption.
  - cbn [map fst]. intros [H|H].
    + subst. split; [left; reflexivity|]. apply str_eqb_false. exact E.
    + destruct (IH H). split; [right|]; assumption.
Qed.

Lemma remove_nodup {V} k (m : list (str * V)) : NoDup (map fst m) -> NoDup (map fst (bm_remove k m)).
Proof.
  induction m as [|[k' v'] m IH]; intro ND; [constructor|].
  cbn [map fst] in ND. inversion ND as [|x xs Hnot ND']; subst.
  rewrite bm_remove_cons. destruct (str_eqb k' k); [apply IH, ND'|].
  cbn [map fst]. constructor; [|apply IH, ND'].
  intro H. apply remove_keys_incl in H. destruct H. contradiction.
Qed.

Lemma set_nodup {V} k (v : V) m : NoDup (map fst m) -> NoDup (map fst (bm_set k v m)).
Proof.
  intro ND. unfold bm_set. cbn [map fst]. constructor; [|apply remove_nodup, ND].
  intro H. apply remove_keys_incl in H. destruct H. congruence.
Qed.

Lemma assoc_some_key {V} k (m : list (str * V)) v : assoc k m = Some v -> In k (map fst m).
Proof. intro H. apply assoc_In in H. change k with (fst (k, v)). apply in_map. exact H. Qed.

(* NoDup over appends *)
Lemma nodup_app_intro {A} (a b : list A) :
  NoDup a -> NoDup b -> (forall x, In x a -> ~ In x b) -> NoDup (a ++ b).
Proof.
  induction a as [|x a IH]; cbn; intros Ha Hb Hd; [exact Hb|].
  inversion Ha; subst. constructor.
  - intro H. apply in_app_or in H. destruct H as [H|H]; [contradiction|].
    apply (Hd x); [left; reflexivity|exact H].
  - apply IH; try assumption. intros y Hy. apply Hd. right. exact Hy.
Qed.

Lemma nodup_app_elim {A} (a b : list A) :
  NoDup (a ++ b) -> NoDup a /\ NoDup b /\ (forall x, In x a -> ~ In x b).
Proof.
  induction a as [|x a IH]; cbn; intro H.
  - split; [constructor|]. split; [exact H|]. intros x [].
  - inversion H as [|y ys Hnot ND]; subst. destruct (IH ND) as (Ha & Hb & Hd).
    split; [|split; [exact Hb|]].
    + constructor; [|exact Ha]. intro Hx. apply Hnot. apply in_or_app. left. exact Hx.
    + intros y [Hy|Hy].
      * subst. intro Hb'. apply Hnot. apply in_or_app. right. exact Hb'.
      * apply Hd, Hy.
Qed.

(* ====================================================================================== *)
(* prefixes                                                                                *)
(* ====================================================================================== *)
Lemma has_prefix_app p s : has_prefix p (p ++ s) = true.
Proof. induction p as [|a p IH]; cbn; [reflexivity|]. rewrite N.eqb_refl. exact IH. Qed.

Lemma alias_key_is_alias g : is_alias_key (alias_key g) = true.
Proof. unfold is_alias_key, alias_key. apply has_prefix_app. Qed.

Lemma alias_key_inj g g' : alias_key g = alias_key g' -> g = g'.
Proof. unfold alias_key. apply app_inv_head. Qed.

(* a role path that does not start with a colon never produces an alias-looking key *)
Definition path_ok (p : str) : Prop := match p with [] => False | c :: _ => c <> 58 end.

Lemma path_key_not_alias p n : path_ok p -> is_alias_key (p ++ s_colon ++ n) = false.
Proof.
  destruct p as [|c p]; [intros []|]. intro H. cbn [path_ok] in H.
  unfold is_alias_key, s_alias. cbn [app has_prefix].
  destruct (58 =? c) eqn:E; [|reflexivity]. apply N.eqb_eq in E. congruence.
Qed.

(* ====================================================================================== *)
(* endpoints                                                                               *)
(* ====================================================================================== *)
Lemma ep_eqb_spec e f : ep_eqb e f = true <-> e = f.
Proof.
  destruct e as [h p t|p t], f as [h' p' t'|p' t']; cbn; split; intro H; try discriminate.
  - apply andb_true_iff in H. destruct H as [H H3]. apply andb_true_iff in H. destruct H as [H1 H2].
    apply str_eqb_spec in H1, H3. apply N.eqb_eq in H2. subst. reflexivity.
  - inversion H; subst. rewrite !str_eqb_refl, N.eqb_refl. reflexivity.
  - apply andb_true_iff in H. destruct H as [H1 H2]. apply str_eqb_spec in H1, H2. subst. reflexivity.
  - inversion H; subst. rewrite !str_eqb_refl. reflexivity.
Qed.

Lemma transport_to_target h e : ep_transport (to_target h e) = ep_transport e.
Proof. destruct e; reflexivity. Qed.

Lemma transport_to_bound e : ep_transport (to_bound e) = ep_transport e.
Proof. destruct e; reflexivity. Qed.

Lemma transport_mk_ep c a : ep_transport (mk_ep c a) = i_tr c.
Proof. unfold mk_ep. destruct (i_ipc c); reflexivity. Qed.

(* the address a peer is given / the binder is told, written out *)
Definition host_ok (h : str) : Prop := h <> [] /\ h <> s_star.

Definition conn_addr (host : str) (c : inbound) (a : N * str) : str :=
  if i_ipc c then s_ipc ++ snd a else s_tcp ++ host ++ s_colon ++ dec (fst a).
Definition bound_addr (c : inbound) (a : N * str) : str :=
  if i_ipc c then s_ipc ++ snd a else s_tcp ++ s_star ++ s_colon ++ dec (fst a).

Lemma address_target_mk_ep h c a :
  host_ok h -> ep_address (to_target h (mk_ep c a)) = conn_addr h c a.
Proof.
  intros [H1 H2]. unfold mk_ep, conn_addr. destruct (i_ipc c); cbn [to_target ep_address]; [reflexivity|].
  destruct h as [|x h]; [congruence|]. cbn [nonempty negb orb].
  assert (str_eqb (x :: h) s_star = false) as ->. { apply str_eqb_false. exact H2. }
  reflexivity.
Qed.

Lemma address_bound_mk_ep c a : ep_address (to_bound (mk_ep c a)) = bound_addr c a.
Proof.
  unfold mk_ep, bound_addr. destruct (i_ipc c); cbn [to_bound ep_address]; [reflexivity|].
  cbn. reflexivity.
Qed.

(* ====================================================================================== *)
(* MergeInbound / MergeOutbound / Collect*Channels                                         *)
(* ====================================================================================== *)
Section Merge.
  Context {A : Type} (nm : A -> str).

  Lemma find_by_app n (l1 l2 : list A) :
    find_by nm n (l1 ++ l2) =
    match find_by nm n l1 with Some c => Some c | None => find_by nm n l2 end.
  Proof.
    unfold find_by. induction l1 as [|c l1 IH]; cbn; [reflexivity|].
    destruct (str_eqb (nm c) n); [reflexivity|exact IH].
  Qed.

  Lemma has_name_find n (l : list A) : has_name nm n l = is_some (find_by nm n l).
  Proof.
    unfold has_name, find_by. induction l as [|c l IH]; cbn; [reflexivity|].
    destruct (str_eqb (nm c) n); [reflexivity|exact IH].
  Qed.

  Lemma has_name_false n (l : list A) : has_name nm n l = false <-> ~ In n (map nm l).
  Proof.
    unfold has_name. induction l as [|c l IH]; cbn.
    - split; [intros _ []|reflexivity].
    - destruct (str_eqb (nm c) n) eqn:E; cbn.
      + split; [discriminate|]. intro H. exfalso. apply H. left. apply str_eqb_spec. exact E.
      + rewrite IH. apply str_eqb_false in E. split.
        * intros H [H1|H1]; [contradiction|contradiction].
        * intros H H1. apply H. right. exact H1.
  Qed.

  Lemma find_by_some n (l : list A) c : find_by nm n l = Some c -> In c l /\ nm c = n.
  Proof.
    unfold find_by. intro H. apply find_some in H. destruct H as [H1 H2].
    apply str_eqb_spec in H2. split; assumption.
  Qed.

  Lemma find_by_none n (l : list A) : find_by nm n l = None <-> ~ In n (map nm l).
  Proof.
    rewrite <- has_name_false, has_name_find. destruct (find_by nm n l); cbn; split; congruence.
  Qed.

  (* with unique names, the declaration found under a name is the one that carries it *)
  Lemma find_by_unique (l : list A) c : NoDup (map nm l) -> In c l -> find_by nm (nm c) l = Some c.
  Proof.
    unfold find_by. induction l as [|d l IH]; cbn; intros ND HI; [contradiction|].
    inversion ND as [|x xs Hnot ND']; subst.
    destruct HI as [HI|HI].
    - subst. rewrite str_eqb_refl. reflexivity.
    - destruct (str_eqb (nm d) (nm c)) eqn:E.
      + apply str_eqb_spec in E. exfalso. apply Hnot. rewrite E. apply in_map. exact HI.
      + apply IH; assumption.
  Qed.

  Lemma merge_cons hp v lp : merge nm hp (v :: lp) = merge nm (merge_step nm hp v) lp.
  Proof. reflexivity. Qed.

  (* which declaration decides a name after a merge: the higher-priority list if it has one *)
  Lemma merge_find : forall lp hp n,
    find_by nm n (merge nm hp lp) =
    match find_by nm n hp with Some c => Some c | None => find_by nm n lp end.
  Proof.
    induction lp as [|v lp IH]; intros hp n.
    - unfold merge. cbn [fold_left]. destruct (find_by nm n hp); reflexivity.
    - rewrite merge_cons, IH. unfold merge_step.
      destruct (has_name nm (nm v) hp) eqn:H.
      + destruct (find_by nm n hp) eqn:F; [reflexivity|].
        unfold find_by at 2. cbn [find]. fold (find_by nm n lp).
        destruct (str_eqb (nm v) n) eqn:E; [|reflexivity].
        apply str_eqb_spec in E. subst. rewrite has_name_find, F in H. discriminate.
      + rewrite find_by_app. destruct (find_by nm n hp) eqn:F; [reflexivity|].
        unfold find_by at 1 3. cbn [find]. fold (find_by nm n lp).
        destruct (str_eqb (nm v) n); reflexivity.
  Qed.

  Lemma merge_step_nodup acc v : NoDup (map nm acc) -> NoDup (map nm (merge_step nm acc v)).
  Proof.
    intro ND. unfold merge_step. destruct (has_name nm (nm v) acc) eqn:H; [exact ND|].
    rewrite map_app. cbn. apply nodup_app_intro; [exact ND|constructor; [intros []|constructor]|].
    intros x Hx [Hy|[]]. subst. apply has_name_false in H. contradiction.
  Qed.

  (* names stay pairwise different when the higher-priority list has no duplicates *)
  Lemma merge_nodup : forall lp hp, NoDup (map nm hp) -> NoDup (map nm (merge nm hp lp)).
  Proof.
    induction lp as [|v lp IH]; intros hp ND; [exact ND|].
    rewrite merge_cons. apply IH. apply merge_step_nodup. exact ND.
  Qed.

  Lemma merge_In : forall lp hp c, In c (merge nm hp lp) -> In c hp \/ In c lp.
  Proof.
    induction lp as [|v lp IH]; intros hp c H; [left; exact H|].
    rewrite merge_cons in H. apply IH in H. destruct H as [H|H]; [|right; right; exact H].
    unfold merge_step in H. destruct (has_name nm (nm v) hp); [left; exact H|].
    apply in_app_or in H. destruct H as [H|[H|[]]]; [left; exact H|right; left; exact H].
  Qed.

  (* the higher-priority list is kept as it is, in front *)
  Lemma merge_keeps_hp : forall lp hp, exists rest, merge nm hp lp = hp ++ rest.
  Proof.
    induction lp as [|v lp IH]; intros hp; [exists []; symmetry; apply app_nil_r|].
    rewrite merge_cons. destruct (IH (merge_step nm hp v)) as [rest E]. rewrite E.
    unfold merge_step. destruct (has_name nm (nm v) hp); [exists rest; reflexivity|].
    exists ([v] ++ rest). rewrite app_assoc. reflexivity.
  Qed.

  Lemma collect_find n : forall chain, find_by nm n (collect nm chain) = nearest nm n chain.
  Proof.
    induction chain as [|l chain IH]; [reflexivity|].
    cbn [collect fold_right nearest]. fold (collect nm chain). rewrite merge_find, IH. reflexivity.
  Qed.

  Lemma collect_nodup : forall chain,
    Forall (fun l => NoDup (map nm l)) chain -> NoDup (map nm (collect nm chain)).
  Proof.
    induction chain as [|l chain IH]; intro H; [constructor|].
    cbn [collect fold_right]. apply merge_nodup. inversion H; assumption.
  Qed.
End Merge.

(* the declaration that applies to a task: nearest role, else the task template *)
Lemma w_in_decl w n :
  find_by i_name n (w_in w) =
  match nearest i_name n (w_binds w) with
  | Some c => Some c
  | None => find_by i_name n (w_cbind w)
  end.
Proof. unfold w_in. rewrite merge_find, collect_find. reflexivity. Qed.

Lemma find_by_map_clear n l :
  find_by o_name n (map clear_target l) = option_map clear_target (find_by o_name n l).
Proof.
  unfold find_by. induction l as [|c l IH]; cbn; [reflexivity|].
  destruct (str_eqb (o_name c) n); [reflexivity|exact IH].
Qed.

Lemma w_out_decl w n :
  find_by o_name n (w_out w) =
  match nearest o_name n (w_conns w) with
  | Some c => Some c
  | None => option_map clear_target (find_by o_name n (w_cconn w))
  end.
Proof. unfold w_out. rewrite merge_find, collect_find, find_by_map_clear. reflexivity. Qed.

Lemma w_in_nodup w :
  Forall (fun l => NoDup (map i_name l)) (w_binds w) -> NoDup (map i_name (w_in w)).
Proof. intro H. unfold w_in. apply merge_nodup, collect_nodup, H. Qed.

Lemma w_out_nodup w :
  Forall (fun l => NoDup (map o_name l)) (w_conns w) -> NoDup (map o_name (w_out w)).
Proof. intro H. unfold w_out. apply merge_nodup, collect_nodup, H. Qed.

(* ====================================================================================== *)
(* the task's local bind map                                                               *)
(* ====================================================================================== *)
(* channel [c] writes key [k]: only channels without a target of their own are registered *)
Definition sets_key (c : inbound) (k : str) : Prop :=
  i_target c = [] /\ (k = i_name c \/ (i_global c <> [] /\ k = alias_key (i_global c))).

Lemma nonempty_true {A} (l : list A) : nonempty l = true <-> l <> [].
Proof. destruct l; cbn; split; congruence. Qed.

Lemma nonempty_false {A} (l : list A) : nonempty l = false <-> l = [].
Proof. destruct l; cbn; split; congruence. Qed.

Lemma local_step_sets c a m k : sets_key c k -> assoc k (local_step c a m) = Some (mk_ep c a).
Proof.
  intros [T [H|[H1 H2]]]; unfold local_step; rewrite T; cbn [nonempty]; subst.
  - destruct (nonempty (i_global c)).
    + destruct (str_eqb (i_name c) (alias_key (i_global c))) eqn:E.
      * apply str_eqb_spec in E. rewrite E. apply assoc_set_same.
      * apply str_eqb_false in E. rewrite assoc_set_other by congruence. apply assoc_set_same.
    + apply assoc_set_same.
  - apply nonempty_true in H1. rewrite H1. apply assoc_set_same.
Qed.

Lemma local_step_other c a m k : ~ sets_key c k -> assoc k (local_step c a m) = assoc k m.
Proof.
  intro H. unfold local_step. destruct (nonempty (i_target c)) eqn:T; [reflexivity|].
  apply nonempty_false in T.
  assert (k <> i_name c) as N1. { intro E. apply H. split; [exact T|]. left. exact E. }
  destruct (nonempty (i_global c)) eqn:G.
  - assert (k <> alias_key (i_global c)) as N2.
    { intro E. apply H. split; [exact T|]. right. split; [apply nonempty_true, G|exact E]. }
    rewrite !assoc_set_other by congruence. reflexivity.
  - rewrite assoc_set_other by congruence. reflexivity.
Qed.

Lemma sets_key_dec c k : sets_key c k \/ ~ sets_key c k.
Proof.
  unfold sets_key. destruct (i_target c) as [|x t] eqn:T; [|right; intros [H _]; discriminate].
  destruct (str_eqb k (i_name c)) eqn:E1.
  - left. split; [reflexivity|]. left. apply str_eqb_spec. exact E1.
  - apply str_eqb_false in E1. destruct (i_global c) as [|y g] eqn:G.
    + right. intros [_ [H|[H _]]]; congruence.
    + destruct (str_eqb k (alias_key (y :: g))) eqn:E2.
      * left. split; [reflexivity|]. right. split; [congruence|apply str_eqb_spec; exact E2].
      * apply str_eqb_false in E2. right. intros [_ [H|[_ H]]]; congruence.
Qed.

Lemma local_from_other : forall chs j al m k,
  (forall c, In c chs -> ~ sets_key c k) -> assoc k (local_from chs j al m) = assoc k m.
Proof.
  induction chs as [|c chs IH]; intros j al m k H; [reflexivity|].
  cbn [local_from]. rewrite IH.
  - apply local_step_other. apply H. left. reflexivity.
  - intros c' Hc'. apply H. right. exact Hc'.
Qed.

Lemma local_from_app : forall l1 l2 j al m,
  local_from (l1 ++ l2) j al m = local_from l2 (j + length l1)%nat al (local_from l1 j al m).
Proof.
  induction l1 as [|c l1 IH]; intros l2 j al m; cbn [app local_from length].
  - rewrite Nat.add_0_r. reflexivity.
  - rewrite IH. f_equal. lia.
Qed.

(* the entry found under a key is the endpoint of the last channel that writes the key *)
Lemma local_from_last pre c post j al m k :
  sets_key c k -> (forall c', In c' post -> ~ sets_key c' k) ->
  assoc k (local_from (pre ++ c :: post) j al m) = Some (mk_ep c (al (j + length pre)%nat)).
Proof.
  intros Hs Hp. rewrite local_from_app. cbn [local_from].
  rewrite local_from_other by exact Hp. apply local_step_sets, Hs.
Qed.

(* every entry comes from a channel of the list *)
Lemma local_from_inv : forall chs j al m k ep,
  assoc k (local_from chs j al m) = Some ep ->
  assoc k m = Some ep \/
  exists i c, nth_error chs i = Some c /\ sets_key c k /\ ep = mk_ep c (al (j + i)%nat).
Proof.
  induction chs as [|c chs IH]; intros j al m k ep H; [left; exact H|].
  cbn [local_from] in H. apply IH in H. destruct H as [H|(i & c' & H1 & H2 & H3)].
  - destruct (sets_key_dec c k) as [S|S].
    + rewrite (local_step_sets c (al j) m k S) in H. inversion H; subst.
      right. exists 0%nat, c. rewrite Nat.add_0_r. split; [reflexivity|]. split; [exact S|reflexivity].
    + rewrite local_step_other in H by exact S. left. exact H.
  - right. exists (S i), c'. cbn [nth_error]. split; [exact H1|]. split; [exact H2|].
    rewrite H3. f_equal. f_equal. lia.
Qed.

Lemma local_bindmap_inv chs al k ep :
  assoc k (local_bindmap chs al) = Some ep ->
  exists i c, nth_error chs i = Some c /\ sets_key c k /\ ep = mk_ep c (al i).
Proof.
  intro H. apply local_from_inv in H. destruct H as [H|H]; [discriminate|exact H].
Qed.

Lemma local_step_nodup c a m : NoDup (map fst m) -> NoDup (map fst (local_step c a m)).
Proof.
  intro ND. unfold local_step. destruct (nonempty (i_target c)); [exact ND|].
  destruct (nonempty (i_global c)); repeat apply set_nodup; exact ND.
Qed.

Lemma local_from_nodup : forall chs j al m, NoDup (map fst m) -> NoDup (map fst (local_from chs j al m)).
Proof.
  induction chs as [|c chs IH]; intros j al m ND; [exact ND|].
  cbn [local_from]. apply IH, local_step_nodup, ND.
Qed.

Lemma local_bindmap_nodup chs al : NoDup (map fst (local_bindmap chs al)).
Proof. apply local_from_nodup. constructor. Qed.

Lemma nth_error_split {A} (l : list A) i c :
  nth_error l i = Some c -> exists pre post, l = pre ++ c :: post /\ length pre = i.
Proof.
  revert i. induction l as [|x l IH]; intros [|i] H; cbn in H; try discriminate.
  - inversion H; subst. exists [], l. split; reflexivity.
  - destruct (IH i H) as (pre & post & E & L). exists (x :: pre), post. subst. split; reflexivity.
Qed.

(* with unique, alias-free names every inbound channel without a target of its own has its own
   entry under its name *)
Lemma local_bindmap_name chs al i c :
  NoDup (map i_name chs) -> (forall c', In c' chs -> is_alias_key (i_name c') = false) ->
  nth_error chs i = Some c -> i_target c = [] ->
  assoc (i_name c) (local_bindmap chs al) = Some (mk_ep c (al i)).
Proof.
  intros ND PL H T. destruct (nth_error_split _ _ _ H) as (pre & post & E & L). subst chs.
  unfold local_bindmap. rewrite (local_from_last pre c post 0 al [] (i_name c)).
  - cbn. rewrite L. reflexivity.
  - split; [exact T|]. left. reflexivity.
  - intros c' Hc' [_ [S|[_ S]]].
    + rewrite map_app in ND. cbn in ND. apply NoDup_remove_2 in ND. apply ND.
      apply in_or_app. right. rewrite S. apply in_map. exact Hc'.
    + assert (is_alias_key (i_name c) = false) as P. { apply PL. apply in_or_app. right. left. reflexivity. }
      rewrite S, alias_key_is_alias in P. discriminate.
Qed.

(* an alias entry is the endpoint of the last registered channel that claims the alias *)
Lemma local_bindmap_alias pre c post al :
  (forall c', In c' (pre ++ c :: post) -> is_alias_key (i_name c') = false) ->
  i_target c = [] -> i_global c <> [] -> (forall c', In c' post -> i_global c' <> i_global c) ->
  assoc (alias_key (i_global c)) (local_bindmap (pre ++ c :: post) al) = Some (mk_ep c (al (length pre))).
Proof.
  intros PL T G Hp. unfold local_bindmap.
  rewrite (local_from_last pre c post 0 al [] (alias_key (i_global c))).
  - reflexivity.
  - split; [exact T|]. right. split; [exact G|reflexivity].
  - intros c' Hc' [_ [S|[_ S]]].
    + assert (is_alias_key (i_name c') = false) as P. { apply PL. apply in_or_app. right. right. exact Hc'. }
      rewrite <- S, alias_key_is_alias in P. discriminate.
    + apply alias_key_inj in S. apply (Hp c' Hc'). congruence.
Qed.

(* ====================================================================================== *)
(* the environment-wide bind map                                                           *)
(* ====================================================================================== *)
(* an endpoint as the scheduler creates it / as the environment map stores it *)
Definition raw (e : endpoint) : Prop :=
  match e with Tcp h _ _ => h = s_star | Ipc _ _ => True end.
Definition substituted (e : endpoint) : Prop :=
  match e with Tcp h _ _ => host_ok h | Ipc _ _ => True end.
Definition all_subst (bm : bindmap) : Prop := forall k ex, assoc k bm = Some ex -> substituted ex.

Lemma mk_ep_raw c a : raw (mk_ep c a).
Proof. unfold mk_ep. destruct (i_ipc c); cbn; reflexivity. Qed.

Lemma to_target_substituted h e : host_ok h -> substituted (to_target h e).
Proof. intro H. destruct e; cbn; [exact H|exact I]. Qed.

Lemma raw_subst_ipc e : raw e -> substituted e -> exists p t, e = Ipc p t.
Proof.
  destruct e as [h p t|p t]; cbn.
  - intros R [_ S]. contradiction.
  - intros _ _. exists p, t. reflexivity.
Qed.

Lemma to_target_ipc h p t : to_target h (Ipc p t) = Ipc p t.
Proof. reflexivity. Qed.

Lemma to_target_is_ipc h e p t : to_target h e = Ipc p t -> e = Ipc p t.
Proof. destruct e; cbn; intro H; [discriminate|exact H]. Qed.

Lemma bind_key_alias path n : is_alias_key n = true -> bind_key path n = n.
Proof. intro H. unfold bind_key. rewrite H. reflexivity. Qed.

Lemma bind_key_path path n : is_alias_key n = false -> bind_key path n = path ++ s_colon ++ n.
Proof. intro H. unfold bind_key. rewrite H. reflexivity. Qed.

(* ---------- one task's entries ---------- *)
Lemma env_add_other : forall entries path host bm bm' k,
  env_add path host entries bm = Some bm' ->
  (forall n ep, In (n, ep) entries -> bind_key path n <> k) ->
  assoc k bm' = assoc k bm.
Proof.
  induction entries as [|[n ep] r IH]; intros path host bm bm' k H Hn; cbn [env_add] in H.
  - inversion H. reflexivity.
  - assert (Hr : forall n' ep', In (n', ep') r -> bind_key path n' <> k).
    { intros n' ep' Hi. apply (Hn n' ep'). right. exact Hi. }
    specialize (Hn n ep (or_introl eq_refl)).
    destruct (is_alias_key n) eqn:A.
    + rewrite bind_key_alias in Hn by exact A.
      destruct (assoc n bm) as [ex|] eqn:E.
      * destruct (ep_eqb ex ep); [|discriminate]. apply (IH _ _ _ _ _ H Hr).
      * rewrite (IH _ _ _ _ _ H Hr). apply assoc_set_other. exact Hn.
    + rewrite bind_key_path in Hn by exact A.
      rewrite (IH _ _ _ _ _ H Hr). apply assoc_set_other. exact Hn.
Qed.

Lemma env_add_sets_path : forall e1 path host n ep e2 bm bm',
  is_alias_key n = false ->
  env_add path host (e1 ++ (n, ep) :: e2) bm = Some bm' ->
  (forall n' ep', In (n', ep') e2 -> bind_key path n' <> path ++ s_colon ++ n) ->
  assoc (path ++ s_colon ++ n) bm' = Some (to_target host ep).
Proof.
  induction e1 as [|[n0 ep0] e1 IH]; intros path host n ep e2 bm bm' A H Hn; cbn [app env_add] in H.
  - rewrite A in H. rewrite (env_add_other _ _ _ _ _ _ H Hn). apply assoc_set_same.
  - destruct (is_alias_key n0).
    + destruct (assoc n0 bm) as [ex|].
      * destruct (ep_eqb ex ep0); [|discriminate]. apply (IH _ _ _ _ _ _ _ A H Hn).
      * apply (IH _ _ _ _ _ _ _ A H Hn).
    + apply (IH _ _ _ _ _ _ _ A H Hn).
Qed.

Lemma env_add_subst : forall entries path host bm bm',
  host_ok host -> all_subst bm -> env_add path host entries bm = Some bm' -> all_subst bm'.
Proof.
  induction entries as [|[n ep] r IH]; intros path host bm bm' Hh Hs H; cbn [env_add] in H.
  - inversion H; subst. exact Hs.
  - assert (Hset : forall k, all_subst (bm_set k (to_target host ep) bm)).
    { intros k k' ex Hk. apply assoc_set_inv in Hk. destruct Hk as [[_ ->]|[_ Hk]].
      - apply to_target_substituted, Hh.
      - apply (Hs _ _ Hk). }
    destruct (is_alias_key n).
    + destruct (assoc n bm) as [ex|].
      * destruct (ep_eqb ex ep); [|discriminate]. apply (IH _ _ _ _ Hh Hs H).
      * apply (IH _ _ _ _ Hh (Hset n) H).
    + apply (IH _ _ _ _ Hh (Hset _) H).
Qed.

(* an alias entry, once present, is never replaced *)
Lemma env_add_alias_stable : forall entries path host bm bm' k ex,
  path_ok path -> is_alias_key k = true -> assoc k bm = Some ex ->
  env_add path host entries bm = Some bm' -> assoc k bm' = Some ex.
Proof.
  induction entries as [|[n ep] r IH]; intros path host bm bm' k ex Hp A E H; cbn [env_add] in H.
  - inversion H; subst. exact E.
  - destruct (is_alias_key n) eqn:An.
    + destruct (assoc n bm) as [ex0|] eqn:E0.
      * destruct (ep_eqb ex0 ep); [|discriminate]. apply (IH _ _ _ _ _ _ Hp A E H).
      * apply (IH _ _ _ _ _ _ Hp A) with (2 := H).
        rewrite assoc_set_other; [exact E|]. intro X. subst. congruence.
    + apply (IH _ _ _ _ _ _ Hp A) with (2 := H).
      rewrite assoc_set_other; [exact E|]. intro X.
      rewrite <- X, path_key_not_alias in A by exact Hp. discriminate.
Qed.

(* a later claim of a present alias passes only with an endpoint equal to the stored one *)
Lemma env_add_alias_check : forall entries path host bm bm' k ex ep,
  path_ok path -> is_alias_key k = true -> assoc k bm = Some ex -> In (k, ep) entries ->
  env_add path host entries bm = Some bm' -> ex = ep.
Proof.
  induction entries as [|[n ep0] r IH]; intros path host bm bm' k ex ep Hp A E HI H; [contradiction|].
  cbn [env_add] in H. destruct HI as [HI|HI].
  - inversion HI; subst. rewrite A, E in H.
    destruct (ep_eqb ex ep) eqn:Q; [|discriminate]. apply ep_eqb_spec. exact Q.
  - destruct (is_alias_key n) eqn:An.
    + destruct (assoc n bm) as [ex0|] eqn:E0.
      * destruct (ep_eqb ex0 ep0); [|discriminate]. apply (IH _ _ _ _ _ _ _ Hp A E HI H).
      * apply (IH _ _ _ _ _ _ _ Hp A) with (2 := HI) (3 := H).
        rewrite assoc_set_other; [exact E|]. intro X. subst. congruence.
    + apply (IH _ _ _ _ _ _ _ Hp A) with (2 := HI) (3 := H).
      rewrite assoc_set_other; [exact E|]. intro X.
      rewrite <- X, path_key_not_alias in A by exact Hp. discriminate.
Qed.

(* after a task that claims an alias, the alias is present: either this task registered it
   (host substituted) or an equal endpoint had been registered before *)
Lemma env_add_alias_entry : forall entries path host bm bm' k ep,
  path_ok path -> is_alias_key k = true -> In (k, ep) entries ->
  env_add path host entries bm = Some bm' ->
  exists ex, assoc k bm' = Some ex /\ (ex = to_target host ep \/ ex = ep).
Proof.
  induction entries as [|[n ep0] r IH]; intros path host bm bm' k ep Hp A HI H; [contradiction|].
  cbn [env_add] in H. destruct HI as [HI|HI].
  - inversion HI; subst. rewrite A in H. destruct (assoc k bm) as [ex0|] eqn:E0.
    + destruct (ep_eqb ex0 ep) eqn:Q; [|discriminate]. apply ep_eqb_spec in Q. subst ex0.
      exists ep. split; [|right; reflexivity]. apply (env_add_alias_stable _ _ _ _ _ _ _ Hp A E0 H).
    + exists (to_target host ep). split; [|left; reflexivity].
      apply (env_add_alias_stable _ _ _ _ _ _ _ Hp A) with (2 := H). apply assoc_set_same.
  - destruct (is_alias_key n).
    + destruct (assoc n bm) as [ex0|].
      * destruct (ep_eqb ex0 ep0); [|discriminate]. apply (IH _ _ _ _ _ _ Hp A HI H).
      * apply (IH _ _ _ _ _ _ Hp A HI H).
    + apply (IH _ _ _ _ _ _ Hp A HI H).
Qed.

(* ---------- all tasks ---------- *)
Lemma env_from_app : forall l1 l2 bm,
  env_from (l1 ++ l2) bm =
  match env_from l1 bm with None => None | Some bm1 => env_from l2 bm1 end.
Proof.
  induction l1 as [|t l1 IH]; intros l2 bm; cbn [app env_from]; [reflexivity|].
  destruct (alias_dup (t_in t)); [reflexivity|]. destruct (env_add (t_path t) (t_host t) (t_local t) bm); [apply IH|reflexivity].
Qed.

Lemma env_from_split pre b post bm0 bm :
  env_from (pre ++ b :: post) bm0 = Some bm ->
  exists bm1 bm2, env_from pre bm0 = Some bm1 /\
                  env_add (t_path b) (t_host b) (t_local b) bm1 = Some bm2 /\
                  env_from post bm2 = Some bm.
Proof.
  rewrite env_from_app. destruct (env_from pre bm0) as [bm1|] eqn:E1; [|discriminate].
  cbn [env_from]. destruct (alias_dup (t_in b)) eqn:AD; [discriminate|]. destruct (env_add (t_path b) (t_host b) (t_local b) bm1) as [bm2|] eqn:E2; [|discriminate].
  intro H. exists bm1, bm2. split; [reflexivity|]. split; [exact E2|exact H].
Qed.

Definition writes_key (t : task) (k : str) : Prop :=
  exists n ep, In (n, ep) (t_local t) /\ bind_key (t_path t) n = k.

Lemma env_from_other : forall tasks bm bm' k,
  env_from tasks bm = Some bm' -> (forall t, In t tasks -> ~ writes_key t k) ->
  assoc k bm' = assoc k bm.
Proof.
  induction tasks as [|t r IH]; intros bm bm' k H Hn; cbn [env_from] in H.
  - inversion H. reflexivity.
  - destruct (alias_dup (t_in t)) eqn:AD; [discriminate|]. destruct (env_add (t_path t) (t_host t) (t_local t) bm) as [bm1|] eqn:E; [|discriminate].
    rewrite (IH _ _ _ H) by (intros t' Ht'; apply Hn; right; exact Ht').
    apply (env_add_other _ _ _ _ _ _ E). intros n ep Hi X.
    apply (Hn t (or_introl eq_refl)). exists n, ep. split; assumption.
Qed.

Lemma env_from_subst : forall tasks bm bm',
  (forall t, In t tasks -> host_ok (t_host t)) -> all_subst bm ->
  env_from tasks bm = Some bm' -> all_subst bm'.
Proof.
  induction tasks as [|t r IH]; intros bm bm' Hh Hs H; cbn [env_from] in H.
  - inversion H; subst. exact Hs.
  - destruct (alias_dup (t_in t)) eqn:AD; [discriminate|]. destruct (env_add (t_path t) (t_host t) (t_local t) bm) as [bm1|] eqn:E; [|discriminate].
    apply (IH bm1 bm'); [intros t' Ht'; apply Hh; right; exact Ht'| |exact H].
    apply (env_add_subst _ _ _ _ _ (Hh t (or_introl eq_refl)) Hs E).
Qed.

Lemma env_from_alias_stable : forall tasks bm bm' k ex,
  (forall t, In t tasks -> path_ok (t_path t)) -> is_alias_key k = true -> assoc k bm = Some ex ->
  env_from tasks bm = Some bm' -> assoc k bm' = Some ex.
Proof.
  induction tasks as [|t r IH]; intros bm bm' k ex Hp A E H; cbn [env_from] in H.
  - inversion H; subst. exact E.
  - destruct (alias_dup (t_in t)) eqn:AD; [discriminate|]. destruct (env_add (t_path t) (t_host t) (t_local t) bm) as [bm1|] eqn:E1; [|discriminate].
    apply (IH bm1 bm' k ex); [intros t' Ht'; apply Hp; right; exact Ht'|exact A| |exact H].
    apply (env_add_alias_stable _ _ _ _ _ _ _ (Hp t (or_introl eq_refl)) A E E1).
Qed.

Lemma all_subst_nil : all_subst [].
Proof. intros k ex H. discriminate. Qed.

(* keys of a task's local map are pairwise different, so membership and lookup coincide *)
Lemma local_In_assoc t n ep : In (n, ep) (t_local t) <-> assoc n (t_local t) = Some ep.
Proof.
  split; [|apply assoc_In]. apply assoc_nodup_In. apply local_bindmap_nodup.
Qed.

(* ---------- well-formed environments ---------- *)
Definition no_colon (p : str) : Prop := ~ In 58 p.
Definition wf_env (tasks : list task) : Prop :=
  NoDup (map t_path tasks) /\
  forall t, In t tasks -> t_path t <> [] /\ no_colon (t_path t) /\ host_ok (t_host t).

Lemma no_colon_path_ok p : p <> [] -> no_colon p -> path_ok p.
Proof.
  destruct p as [|c p]; [congruence|]. intros _ H. cbn. intro E. apply H. left. exact E.
Qed.

Lemma key_inj : forall p p' n n',
  no_colon p -> no_colon p' -> p ++ s_colon ++ n = p' ++ s_colon ++ n' -> p = p' /\ n = n'.
Proof.
  unfold no_colon, s_colon.
  induction p as [|c p IH]; intros [|c' p'] n n' H H'; cbn [app]; intro E.
  - inversion E. split; reflexivity.
  - inversion E; subst. exfalso. apply H'. left. reflexivity.
  - inversion E; subst. exfalso. apply H. left. reflexivity.
  - inversion E; subst. destruct (IH p' n n') as [E1 E2].
    + intro X. apply H. right. exact X.
    + intro X. apply H'. right. exact X.
    + assumption.
    + subst. split; reflexivity.
Qed.

Lemma wf_env_path_ok tasks t : wf_env tasks -> In t tasks -> path_ok (t_path t).
Proof. intros [_ H] Ht. destruct (H t Ht) as (H1 & H2 & _). apply no_colon_path_ok; assumption. Qed.

Lemma wf_env_host_ok tasks t : wf_env tasks -> In t tasks -> host_ok (t_host t).
Proof. intros [_ H] Ht. destruct (H t Ht) as (_ & _ & H3). exact H3. Qed.

(* the entry under "path:name" is the named channel's endpoint with the binder's host *)
Lemma env_bindmap_path tasks bm b n ep :
  wf_env tasks -> env_bindmap tasks = Some bm -> In b tasks ->
  assoc n (t_local b) = Some ep -> is_alias_key n = false ->
  assoc (t_path b ++ s_colon ++ n) bm = Some (to_target (t_host b) ep).
Proof.
  intros W H Hb Hl A. destruct (in_split _ _ Hb) as (pre & post & ->).
  unfold env_bindmap in H. destruct (env_from_split _ _ _ _ _ H) as (bm1 & bm2 & H1 & H2 & H3).
  assert (Pb : path_ok (t_path b)) by (apply (wf_env_path_ok _ _ W Hb)).
  assert (Nb : no_colon (t_path b)). { destruct W as [_ W]. apply (W b Hb). }
  rewrite (env_from_other _ _ _ _ H3).
  - apply assoc_In in Hl. destruct (in_split _ _ Hl) as (e1 & e2 & El).
    rewrite El in H2. apply (env_add_sets_path _ _ _ _ _ _ _ _ A H2).
    intros n' ep' Hi X.
    pose proof (local_bindmap_nodup (t_in b) (t_alloc b)) as ND. fold (t_local b) in ND.
    rewrite El, map_app in ND. cbn [map fst] in ND. apply NoDup_remove_2 in ND.
    destruct (is_alias_key n') eqn:A'.
    + rewrite bind_key_alias in X by exact A'. rewrite X, path_key_not_alias in A' by exact Pb. discriminate.
    + rewrite bind_key_path in X by exact A'. apply app_inv_head in X. apply app_inv_head in X. subst n'.
      apply ND. apply in_or_app. right. change n with (fst (n, ep')). apply in_map. exact Hi.
  - intros t Ht (n' & ep' & Hi & X).
    destruct W as [ND W]. rewrite map_app in ND. cbn [map] in ND. apply NoDup_remove_2 in ND.
    destruct (is_alias_key n') eqn:A'.
    + rewrite bind_key_alias in X by exact A'. rewrite X, path_key_not_alias in A' by exact Pb. discriminate.
    + rewrite bind_key_path in X by exact A'.
      assert (Nt : no_colon (t_path t)). { apply W. apply in_or_app. right. right. exact Ht. }
      destruct (key_inj _ _ _ _ Nt Nb X) as [Ep _].
      apply ND. apply in_or_app. right. rewrite <- Ep. apply in_map. exact Ht.
Qed.

(* the entry under "::alias" after a successful pass: present, and it stands for the endpoint
   of every task that claims the alias *)
Lemma env_bindmap_alias_entry tasks bm b k ep :
  (forall t, In t tasks -> path_ok (t_path t)) ->
  env_bindmap tasks = Some bm -> In b tasks -> In (k, ep) (t_local b) -> is_alias_key k = true ->
  exists ex, assoc k bm = Some ex /\ (ex = to_target (t_host b) ep \/ ex = ep).
Proof.
  intros Hp H Hb Hl A. destruct (in_split _ _ Hb) as (pre & post & ->).
  unfold env_bindmap in H. destruct (env_from_split _ _ _ _ _ H) as (bm1 & bm2 & H1 & H2 & H3).
  destruct (env_add_alias_entry _ _ _ _ _ _ _ (Hp b Hb) A Hl H2) as (ex & E & D).
  exists ex. split; [|exact D].
  apply (env_from_alias_stable post bm2 bm k ex); try assumption.
  intros t Ht. apply Hp. apply in_or_app. right. right. exact Ht.
Qed.

Lemma local_entry_raw t k ep : In (k, ep) (t_local t) -> raw ep.
Proof.
  intro H. apply local_In_assoc in H. apply local_bindmap_inv in H.
  destruct H as (i & c & _ & _ & ->). apply mk_ep_raw.
Qed.

Lemma env_bindmap_subst tasks bm :
  (forall t, In t tasks -> host_ok (t_host t)) -> env_bindmap tasks = Some bm -> all_subst bm.
Proof. intros Hh H. apply (env_from_subst tasks [] bm Hh all_subst_nil H). Qed.

Lemma env_bindmap_alias tasks bm b k ep :
  (forall t, In t tasks -> path_ok (t_path t)) -> (forall t, In t tasks -> host_ok (t_host t)) ->
  env_bindmap tasks = Some bm -> In b tasks -> In (k, ep) (t_local b) -> is_alias_key k = true ->
  exists ex, assoc k bm = Some ex /\
             ep_address ex = ep_address (to_target (t_host b) ep) /\ ep_transport ex = ep_transport ep.
Proof.
  intros Hp Hh H Hb Hl A.
  destruct (env_bindmap_alias_entry _ _ _ _ _ Hp H Hb Hl A) as (ex & E & [D|D]); exists ex.
  - subst ex. split; [exact E|]. split; [reflexivity|apply transport_to_target].
  - subst ex. split; [exact E|].
    destruct (raw_subst_ipc ep (local_entry_raw _ _ _ Hl) (env_bindmap_subst _ _ Hh H _ _ E)) as (p & t & ->).
    split; reflexivity.
Qed.

(* two tasks claiming one alias: the configuration passes only if both endpoints are the same
   IPC endpoint *)
Lemma env_from_alias_two pre b1 mid b2 post bm k e1 e2 :
  let tasks := pre ++ b1 :: mid ++ b2 :: post in
  (forall t, In t tasks -> path_ok (t_path t)) -> (forall t, In t tasks -> host_ok (t_host t)) ->
  env_bindmap tasks = Some bm -> is_alias_key k = true ->
  In (k, e1) (t_local b1) -> In (k, e2) (t_local b2) ->
  exists p tr, e1 = Ipc p tr /\ e2 = Ipc p tr.
Proof.
  intros tasks Hp Hh H A H1 H2. subst tasks.
  assert (In1 : In b1 (pre ++ b1 :: mid ++ b2 :: post)) by (apply in_or_app; right; left; reflexivity).
  assert (In2 : In b2 (pre ++ b1 :: mid ++ b2 :: post)).
  { apply in_or_app. right. right. apply in_or_app. right. left. reflexivity. }
  pose proof (env_bindmap_subst _ _ Hh H) as Hs.
  unfold env_bindmap in H. destruct (env_from_split _ _ _ _ _ H) as (bm1 & bm2 & F1 & F2 & F3).
  destruct (env_add_alias_entry _ _ _ _ _ _ _ (Hp b1 In1) A H1 F2) as (ex & E & D).
  destruct (env_from_split _ _ _ _ _ F3) as (bm3 & bm4 & G1 & G2 & G3).
  assert (E3 : assoc k bm3 = Some ex).
  { apply (env_from_alias_stable mid bm2 bm3 k ex); try assumption.
    intros t Ht. apply Hp. apply in_or_app. right. right. apply in_or_app. left. exact Ht. }
  pose proof (env_add_alias_check _ _ _ _ _ _ _ _ (Hp b2 In2) A E3 H2 G2) as X. subst ex.
  assert (E4 : assoc k bm4 = Some e2) by (apply (env_add_alias_stable _ _ _ _ _ _ _ (Hp b2 In2) A E3 G2)).
  assert (E5 : assoc k bm = Some e2).
  { apply (env_from_alias_stable post bm4 bm k e2); try assumption.
    intros t Ht. apply Hp. apply in_or_app. right. right. apply in_or_app. right. right. exact Ht. }
  destruct (raw_subst_ipc e2 (local_entry_raw _ _ _ H2) (Hs _ _ E5)) as (p & tr & ->).
  exists p, tr. split; [|reflexivity].
  destruct D as [D|D]; [|symmetry; exact D].
  symmetry in D. apply to_target_is_ipc in D. exact D.
Qed.

(* ====================================================================================== *)
(* the chans.* part of the CONFIGURE payload                                               *)
(* ====================================================================================== *)
Lemma given_nodup n v (pr : props) : NoDup (map fst pr) -> In (n, v) pr -> given n pr = Some v.
Proof.
  intros ND HI. unfold given. apply assoc_nodup_In.
  - rewrite map_rev. apply NoDup_rev. exact ND.
  - apply in_rev in HI. exact HI.
Qed.

Lemma in_writes_keys : forall local ins w, in_writes local ins = Some w -> map fst w = map i_name ins.
Proof.
  induction ins as [|i r IH]; intros w H; cbn [in_writes] in H.
  - inversion H. reflexivity.
  - destruct (inbound_props local i) as [p|]; [|discriminate].
    destruct (in_writes local r) as [w'|]; [|discriminate].
    inversion H; subst. cbn. f_equal. apply IH. reflexivity.
Qed.

Lemma in_writes_In : forall local ins w i,
  in_writes local ins = Some w -> In i ins ->
  exists p, inbound_props local i = Some p /\ In (i_name i, p) w.
Proof.
  induction ins as [|i' r IH]; intros w i H HI; [contradiction|]. cbn [in_writes] in H.
  destruct (inbound_props local i') as [p|] eqn:P; [|discriminate].
  destruct (in_writes local r) as [w'|] eqn:W; [|discriminate].
  inversion H; subst. destruct HI as [HI|HI].
  - subst. exists p. split; [exact P|left; reflexivity].
  - destruct (IH w' i eq_refl HI) as (p' & P' & I'). exists p'. split; [exact P'|right; exact I'].
Qed.

Lemma in_writes_none : forall local ins i,
  In i ins -> inbound_props local i = None -> in_writes local ins = None.
Proof.
  induction ins as [|i' r IH]; intros i HI HP; [contradiction|]. cbn [in_writes].
  destruct HI as [HI|HI].
  - subst. rewrite HP. reflexivity.
  - rewrite (IH i HI HP). destruct (inbound_props local i'); reflexivity.
Qed.

Lemma in_writes_none_inv : forall local ins,
  in_writes local ins = None -> exists i, In i ins /\ inbound_props local i = None.
Proof.
  induction ins as [|i r IH]; intro H; cbn [in_writes] in H; [discriminate|].
  destruct (inbound_props local i) as [p|] eqn:P.
  - destruct (in_writes local r) as [w|] eqn:W; [discriminate|].
    destruct (IH eq_refl) as (i' & Hi' & P'). exists i'. split; [right; exact Hi'|exact P'].
  - exists i. split; [left; reflexivity|exact P].
Qed.

Lemma out_writes_keys : forall bm outs w, out_writes bm outs = Some w -> map fst w = map o_name outs.
Proof.
  induction outs as [|o r IH]; intros w H; cbn [out_writes] in H.
  - inversion H. reflexivity.
  - destruct (outbound_props bm o) as [p|]; [|discriminate].
    destruct (out_writes bm r) as [w'|]; [|discriminate].
    inversion H; subst. cbn. f_equal. apply IH. reflexivity.
Qed.

Lemma out_writes_In : forall bm outs w o,
  out_writes bm outs = Some w -> In o outs ->
  exists p, outbound_props bm o = Some p /\ In (o_name o, p) w.
Proof.
  induction outs as [|o' r IH]; intros w o H HI; [contradiction|]. cbn [out_writes] in H.
  destruct (outbound_props bm o') as [p|] eqn:P; [|discriminate].
  destruct (out_writes bm r) as [w'|] eqn:W; [|discriminate].
  inversion H; subst. destruct HI as [HI|HI].
  - subst. exists p. split; [exact P|left; reflexivity].
  - destruct (IH w' o eq_refl HI) as (p' & P' & I'). exists p'. split; [exact P'|right; exact I'].
Qed.

Lemma out_writes_none : forall bm outs o,
  In o outs -> outbound_props bm o = None -> out_writes bm outs = None.
Proof.
  induction outs as [|o' r IH]; intros o HI HP; [contradiction|]. cbn [out_writes].
  destruct HI as [HI|HI].
  - subst. rewrite HP. reflexivity.
  - rewrite (IH o HI HP). destruct (outbound_props bm o'); reflexivity.
Qed.

Lemma task_props_nodup bm t pr :
  t_chans t = true -> NoDup (names_of t) -> task_props bm t = Some pr ->
  NoDup (map fst pr) /\
  exists wi w, in_writes (t_local t) (t_in t) = Some wi /\ out_writes bm (t_out t) = Some w /\ pr = wi ++ w.
Proof.
  intros C ND H. unfold task_props in H. rewrite C in H.
  destruct (in_writes (t_local t) (t_in t)) as [wi|] eqn:Wi; [|discriminate].
  destruct (out_writes bm (t_out t)) as [w|] eqn:W; [|discriminate]. inversion H; subst.
  split; [|exists wi, w; repeat split; reflexivity].
  unfold names_of in ND. rewrite map_app, (in_writes_keys _ _ _ Wi), (out_writes_keys _ _ _ W). exact ND.
Qed.

Lemma all_props_nth : forall bm tasks ps j t,
  all_props bm tasks = Some ps -> nth_error tasks j = Some t ->
  exists pr, nth_error ps j = Some pr /\ task_props bm t = Some pr.
Proof.
  induction tasks as [|t' r IH]; intros ps j t H Hn; [destruct j; discriminate|].
  cbn [all_props] in H. destruct (task_props bm t') as [p|] eqn:P; [|discriminate].
  destruct (all_props bm r) as [ps'|] eqn:A; [|discriminate]. inversion H; subst.
  destruct j as [|j]; cbn [nth_error] in *.
  - inversion Hn; subst. exists p. split; [reflexivity|exact P].
  - apply (IH ps' j t eq_refl Hn).
Qed.

Lemma all_props_none : forall bm tasks t,
  In t tasks -> task_props bm t = None -> all_props bm tasks = None.
Proof.
  induction tasks as [|t' r IH]; intros t HI HP; [contradiction|]. cbn [all_props].
  destruct HI as [HI|HI].
  - subst. rewrite HP. reflexivity.
  - rewrite (IH t HI HP). destruct (task_props bm t'); reflexivity.
Qed.

Lemma all_props_length : forall bm tasks ps, all_props bm tasks = Some ps -> length ps = length tasks.
Proof.
  induction tasks as [|t r IH]; intros ps H; cbn [all_props] in H.
  - inversion H. reflexivity.
  - destruct (task_props bm t); [|discriminate]. destruct (all_props bm r) as [ps'|]; [|discriminate].
    inversion H; subst. cbn. f_equal. apply IH. reflexivity.
Qed.

Lemma configure_some tasks ps :
  configure tasks = Some ps ->
  exists bm, env_bindmap tasks = Some bm /\ existsb (cross_ipc tasks bm) tasks = false /\
             all_props bm tasks = Some ps.
Proof.
  unfold configure. destruct (env_bindmap tasks) as [bm|]; [|discriminate].
  destruct (existsb (cross_ipc tasks bm) tasks) eqn:X; [discriminate|].
  intro H. exists bm. repeat split; assumption.
Qed.

Lemma configure_props_none tasks bm :
  env_bindmap tasks = Some bm -> all_props bm tasks = None -> configure tasks = None.
Proof. intros B H. unfold configure. rewrite B, H. destruct (existsb (cross_ipc tasks bm) tasks); reflexivity. Qed.

(* what a successful configuration gives for one task *)
Lemma configure_task tasks ps j t pr :
  configure tasks = Some ps -> nth_error tasks j = Some t -> nth_error ps j = Some pr ->
  exists bm, env_bindmap tasks = Some bm /\ task_props bm t = Some pr.
Proof.
  intros H Ht Hp. destruct (configure_some _ _ H) as (bm & B & _ & AP).
  exists bm. split; [exact B|].
  destruct (all_props_nth _ _ _ _ _ AP Ht) as (pr' & E & P). congruence.
Qed.

(* an outbound channel of a configured task is told what Outbound.ToFMQMap answers on the
   environment map *)
Lemma given_outbound bm t pr o :
  t_chans t = true -> NoDup (names_of t) -> task_props bm t = Some pr -> In o (t_out t) ->
  exists p, outbound_props bm o = Some p /\ given (o_name o) pr = Some p.
Proof.
  intros C ND H HI. destruct (task_props_nodup _ _ _ C ND H) as (NDp & wi & w & Wi & W & ->).
  destruct (out_writes_In _ _ _ _ W HI) as (p & P & I). exists p. split; [exact P|].
  apply given_nodup; [exact NDp|]. apply in_or_app. right. exact I.
Qed.

(* every inbound channel of a configured task is told what Inbound.ToFMQMap answers on the
   task's local map - and it does answer *)
Lemma given_inbound bm t pr c :
  t_chans t = true -> NoDup (names_of t) -> task_props bm t = Some pr -> In c (t_in t) ->
  exists p, inbound_props (t_local t) c = Some p /\ given (i_name c) pr = Some p.
Proof.
  intros C ND H HI. destruct (task_props_nodup _ _ _ C ND H) as (NDp & wi & w & Wi & W & ->).
  destruct (in_writes_In _ _ _ _ Wi HI) as (p & P & I). exists p. split; [exact P|].
  apply given_nodup; [exact NDp|]. apply in_or_app. left. exact I.
Qed.

(* ====================================================================================== *)
(* presence and provenance of environment-map keys                                         *)
(* ====================================================================================== *)
Lemma set_present {V} k n (v : V) m : assoc k m <> None -> assoc k (bm_set n v m) <> None.
Proof.
  intro H. destruct (str_eqb k n) eqn:E.
  - apply str_eqb_spec in E. subst. rewrite assoc_set_same. discriminate.
  - apply str_eqb_false in E. rewrite assoc_set_other by congruence. exact H.
Qed.

Lemma env_add_present : forall entries path host bm bm' k,
  assoc k bm <> None -> env_add path host entries bm = Some bm' -> assoc k bm' <> None.
Proof.
  induction entries as [|[n ep] r IH]; intros path host bm bm' k P H; cbn [env_add] in H.
  - inversion H; subst. exact P.
  - destruct (is_alias_key n).
    + destruct (assoc n bm) as [ex|].
      * destruct (ep_eqb ex ep); [|discriminate]. apply (IH _ _ _ _ _ P H).
      * apply (IH _ _ _ _ _ (set_present _ _ _ _ P) H).
    + apply (IH _ _ _ _ _ (set_present _ _ _ _ P) H).
Qed.

Lemma env_add_written : forall entries path host bm bm' n ep,
  In (n, ep) entries -> env_add path host entries bm = Some bm' ->
  assoc (bind_key path n) bm' <> None.
Proof.
  induction entries as [|[n0 ep0] r IH]; intros path host bm bm' n ep HI H; [contradiction|].
  cbn [env_add] in H. destruct HI as [HI|HI].
  - inversion HI; subst. unfold bind_key. destruct (is_alias_key n).
    + destruct (assoc n bm) as [ex|] eqn:E.
      * destruct (ep_eqb ex ep); [|discriminate]. apply (env_add_present _ _ _ _ _ _) with (2 := H).
        rewrite E. discriminate.
      * apply (env_add_present _ _ _ _ _ _) with (2 := H). rewrite assoc_set_same. discriminate.
    + apply (env_add_present _ _ _ _ _ _) with (2 := H). rewrite assoc_set_same. discriminate.
  - destruct (is_alias_key n0).
    + destruct (assoc n0 bm) as [ex|].
      * destruct (ep_eqb ex ep0); [|discriminate]. apply (IH _ _ _ _ _ _ HI H).
      * apply (IH _ _ _ _ _ _ HI H).
    + apply (IH _ _ _ _ _ _ HI H).
Qed.

Lemma env_from_present : forall tasks bm bm' k,
  assoc k bm <> None -> env_from tasks bm = Some bm' -> assoc k bm' <> None.
Proof.
  induction tasks as [|t r IH]; intros bm bm' k P H; cbn [env_from] in H.
  - inversion H; subst. exact P.
  - destruct (alias_dup (t_in t)) eqn:AD; [discriminate|]. destruct (env_add (t_path t) (t_host t) (t_local t) bm) as [bm1|] eqn:E; [|discriminate].
    apply (IH bm1 bm' k); [|exact H]. apply (env_add_present _ _ _ _ _ _ P E).
Qed.

Lemma env_from_written : forall tasks bm bm' t k,
  In t tasks -> writes_key t k -> env_from tasks bm = Some bm' -> assoc k bm' <> None.
Proof.
  induction tasks as [|t' r IH]; intros bm bm' t k HI Wk H; [contradiction|]. cbn [env_from] in H.
  destruct (alias_dup (t_in t')) eqn:AD; [discriminate|]. destruct (env_add (t_path t') (t_host t') (t_local t') bm) as [bm1|] eqn:E; [|discriminate].
  destruct HI as [HI|HI].
  - subst t'. destruct Wk as (n & ep & Hi & <-).
    apply (env_from_present r bm1 bm'); [|exact H]. apply (env_add_written _ _ _ _ _ _ _ Hi E).
  - apply (IH bm1 bm' t k HI Wk H).
Qed.

Lemma env_add_keys : forall entries path host bm bm' k ex,
  env_add path host entries bm = Some bm' -> assoc k bm' = Some ex ->
  assoc k bm <> None \/ exists n ep, In (n, ep) entries /\ bind_key path n = k.
Proof.
  induction entries as [|[n ep] r IH]; intros path host bm bm' k ex H E; cbn [env_add] in H.
  - inversion H; subst. left. rewrite E. discriminate.
  - assert (Hset : forall key v, (assoc k (bm_set key v bm) <> None \/
                                  exists n' ep', In (n', ep') r /\ bind_key path n' = k) ->
                                 bind_key path n = key ->
                                 assoc k bm <> None \/ exists n' ep', In (n', ep') ((n, ep) :: r) /\ bind_key path n' = k).
    { intros key v [P|(n' & ep' & Hi & Bk)] Bn.
      2: { right. exists n', ep'. split; [right; exact Hi|exact Bk]. }
      destruct (str_eqb k key) eqn:Q.
      - apply str_eqb_spec in Q. right. exists n, ep. split; [left; reflexivity|]. rewrite Q. exact Bn.
      - apply str_eqb_false in Q. rewrite assoc_set_other in P by congruence. left. exact P. }
    destruct (is_alias_key n) eqn:A.
    + destruct (assoc n bm) as [ex0|] eqn:E0.
      * destruct (ep_eqb ex0 ep); [|discriminate].
        destruct (IH _ _ _ _ _ _ H E) as [P|(n' & ep' & Hi & Bk)]; [left; exact P|].
        right. exists n', ep'. split; [right; exact Hi|exact Bk].
      * apply (Hset n (to_target host ep) (IH _ _ _ _ _ _ H E)). apply bind_key_alias, A.
    + apply (Hset (path ++ s_colon ++ n) (to_target host ep) (IH _ _ _ _ _ _ H E)). apply bind_key_path, A.
Qed.

Lemma env_from_keys : forall tasks bm bm' k ex,
  env_from tasks bm = Some bm' -> assoc k bm' = Some ex ->
  assoc k bm <> None \/ exists t, In t tasks /\ writes_key t k.
Proof.
  induction tasks as [|t r IH]; intros bm bm' k ex H E; cbn [env_from] in H.
  - inversion H; subst. left. rewrite E. discriminate.
  - destruct (alias_dup (t_in t)); [discriminate|].
    destruct (env_add (t_path t) (t_host t) (t_local t) bm) as [bm1|] eqn:E1; [|discriminate].
    destruct (IH _ _ _ _ H E) as [P|(t' & Ht' & W)].
    + destruct (assoc k bm1) as [ex1|] eqn:X; [|congruence].
      destruct (env_add_keys _ _ _ _ _ _ _ E1 X) as [P0|(n & ep & Hi & Bk)]; [left; exact P0|].
      right. exists t. split; [left; reflexivity|]. exists n, ep. split; assumption.
    + right. exists t'. split; [right; exact Ht'|exact W].
Qed.

Lemma env_from_no_dup : forall tasks bm bm' t,
  env_from tasks bm = Some bm' -> In t tasks -> alias_dup (t_in t) = false.
Proof.
  induction tasks as [|t' r IH]; intros bm bm' t H HI; [contradiction|]. cbn [env_from] in H.
  destruct (alias_dup (t_in t')) eqn:AD; [discriminate|].
  destruct (env_add (t_path t') (t_host t') (t_local t') bm) as [bm1|]; [|discriminate].
  destruct HI as [HI|HI]; [subst; exact AD|apply (IH _ _ _ H HI)].
Qed.

Lemma env_from_dup_none : forall tasks bm t,
  In t tasks -> alias_dup (t_in t) = true -> env_from tasks bm = None.
Proof.
  induction tasks as [|t' r IH]; intros bm t HI AD; [contradiction|]. cbn [env_from].
  destruct HI as [HI|HI].
  - subst. rewrite AD. reflexivity.
  - destruct (alias_dup (t_in t')); [reflexivity|].
    destruct (env_add (t_path t') (t_host t') (t_local t') bm); [apply (IH _ t HI AD)|reflexivity].
Qed.

(* ---------- duplicates among the aliases of one task ---------- *)
Lemma nodupb_NoDup : forall l : list str, nodupb str_eqb l = true <-> NoDup l.
Proof.
  induction l as [|x l IH]; cbn; [split; [constructor|reflexivity]|].
  rewrite andb_true_iff, negb_true_iff, IH. split.
  - intros [Hx Hl]. constructor; [|exact Hl]. intro HI.
    assert (existsb (str_eqb x) l = true); [|congruence].
    apply existsb_exists. exists x. split; [exact HI|apply str_eqb_refl].
  - intro ND. inversion ND as [|y ys Hnot ND']; subst. split; [|exact ND'].
    destruct (existsb (str_eqb x) l) eqn:E; [|reflexivity]. exfalso. apply Hnot.
    apply existsb_exists in E. destruct E as (y & Hy & Q). apply str_eqb_spec in Q. subst. exact Hy.
Qed.

Lemma globals_of_app l1 l2 : globals_of (l1 ++ l2) = globals_of l1 ++ globals_of l2.
Proof. unfold globals_of. rewrite map_app, filter_app. reflexivity. Qed.

Lemma globals_of_cons c l : i_global c <> [] -> globals_of (c :: l) = i_global c :: globals_of l.
Proof. intro G. unfold globals_of. cbn [map filter]. apply nonempty_true in G. rewrite G. reflexivity. Qed.

Lemma globals_of_In c l : In c l -> i_global c <> [] -> In (i_global c) (globals_of l).
Proof.
  intros HI G. unfold globals_of. apply filter_In. split; [apply in_map; exact HI|apply nonempty_true, G].
Qed.

(* without duplicates, the channel that declares an alias is the only one *)
Lemma no_dup_unique pre c post :
  alias_dup (pre ++ c :: post) = false -> i_global c <> [] ->
  forall c', In c' (pre ++ post) -> i_global c' <> i_global c.
Proof.
  intros AD G c' HI E. unfold alias_dup in AD. apply negb_false_iff in AD. apply nodupb_NoDup in AD.
  rewrite globals_of_app, globals_of_cons in AD by exact G. apply NoDup_remove_2 in AD. apply AD.
  rewrite <- globals_of_app, <- E. apply globals_of_In; [exact HI|congruence].
Qed.

Lemma nth_error_two {A} (l : list A) j1 j2 a b :
  nth_error l j1 = Some a -> nth_error l j2 = Some b -> (j1 < j2)%nat ->
  exists pre mid post, l = pre ++ a :: mid ++ b :: post.
Proof.
  intros H1 H2 Lt. destruct (nth_error_split _ _ _ H1) as (pre & rest & -> & L).
  rewrite nth_error_app2 in H2 by lia. rewrite L in H2.
  destruct (j2 - j1)%nat as [|d] eqn:D; [lia|]. cbn [nth_error] in H2.
  destruct (nth_error_split _ _ _ H2) as (mid & post & -> & _).
  exists pre, mid, post. reflexivity.
Qed.

Lemma dup_two chs i1 i2 c1 c2 :
  nth_error chs i1 = Some c1 -> nth_error chs i2 = Some c2 -> i1 <> i2 ->
  i_global c1 <> [] -> i_global c2 = i_global c1 -> alias_dup chs = true.
Proof.
  intros H1 H2 Ne G E. destruct (alias_dup chs) eqn:AD; [reflexivity|]. exfalso.
  assert (G2 : i_global c2 <> []) by congruence.
  destruct (Nat.lt_total i1 i2) as [Lt|[Eq|Gt]]; [|contradiction|].
  - destruct (nth_error_two _ _ _ _ _ H1 H2 Lt) as (pre & mid & post & ->).
    apply (no_dup_unique pre c1 (mid ++ c2 :: post) AD G c2); [|exact E].
    apply in_or_app. right. apply in_or_app. right. left. reflexivity.
  - destruct (nth_error_two _ _ _ _ _ H2 H1 Gt) as (pre & mid & post & ->).
    apply (no_dup_unique pre c2 (mid ++ c1 :: post) AD G2 c1); [|congruence].
    apply in_or_app. right. apply in_or_app. right. left. reflexivity.
Qed.

Lemma local_from_present : forall chs j al m k,
  (assoc k m <> None \/ exists c, In c chs /\ sets_key c k) ->
  assoc k (local_from chs j al m) <> None.
Proof.
  induction chs as [|c chs IH]; intros j al m k H; cbn [local_from].
  - destruct H as [H|(c & [] & _)]. exact H.
  - apply IH. destruct (sets_key_dec c k) as [S|S].
    + left. rewrite (local_step_sets c (al j) m k S). discriminate.
    + destruct H as [H|(c' & [Hc|Hc] & S')].
      * left. rewrite local_step_other by exact S. exact H.
      * subst c'. contradiction.
      * right. exists c'. split; assumption.
Qed.

(* ====================================================================================== *)
(* the property                                                                            *)
(* ====================================================================================== *)
Lemma alias_not_explicit g : is_explicit (alias_key g) = false.
Proof. reflexivity. Qed.

(* a target names channel [c] of task [b]: by "path:name" or by its alias, and [c] takes part in
   matching (no target of its own) *)
Definition names_target (b : task) (c : inbound) (tgt : str) : Prop :=
  i_target c = [] /\
  (tgt = bind_key (t_path b) (i_name c) \/ (i_global c <> [] /\ tgt = alias_key (i_global c))).

Lemma writes_key_names b k : writes_key b k -> exists c, In c (t_in b) /\ names_target b c k.
Proof.
  intros (n & ep & Hi & E). apply local_In_assoc in Hi. apply local_bindmap_inv in Hi.
  destruct Hi as (i & c & Hc & [T S] & _). exists c. split; [apply (nth_error_In _ _ Hc)|].
  split; [exact T|]. destruct S as [S|[G S]]; subst n.
  - left. symmetry. exact E.
  - right. split; [exact G|]. rewrite bind_key_alias in E by apply alias_key_is_alias. symmetry. exact E.
Qed.

Lemma names_target_writes b c k : In c (t_in b) -> names_target b c k -> writes_key b k.
Proof.
  intros Hc [T Nt].
  assert (P : forall key, sets_key c key -> exists ep, In (key, ep) (t_local b)).
  { intros key S. destruct (assoc key (t_local b)) as [ep|] eqn:E.
    - exists ep. apply local_In_assoc. exact E.
    - exfalso. revert E. unfold t_local, local_bindmap. apply local_from_present.
      right. exists c. split; assumption. }
  destruct Nt as [->|[G ->]].
  - destruct (P (i_name c) (conj T (or_introl eq_refl))) as (ep & Hi). exists (i_name c), ep. split; [exact Hi|reflexivity].
  - destruct (P (alias_key (i_global c)) (conj T (or_intror (conj G eq_refl)))) as (ep & Hi).
    exists (alias_key (i_global c)), ep. split; [exact Hi|]. apply bind_key_alias, alias_key_is_alias.
Qed.

(* only channels without a target of their own are advertised under "path:name" *)
Lemma NoDup_map_In_eq {A B} (f : A -> B) (l : list A) a b :
  NoDup (map f l) -> In a l -> In b l -> f a = f b -> a = b.
Proof.
  induction l as [|x l IH]; intros ND Ha Hb E; [contradiction|]. cbn [map] in ND.
  inversion ND as [|y ys Hnot ND']; subst. destruct Ha as [Ha|Ha], Hb as [Hb|Hb].
  - congruence.
  - subst x. exfalso. apply Hnot. rewrite E. apply in_map. exact Hb.
  - subst x. exfalso. apply Hnot. rewrite <- E. apply in_map. exact Ha.
  - apply (IH ND' Ha Hb E).
Qed.

Lemma advertised_target_free tasks bm b c :
  wf_env tasks -> env_bindmap tasks = Some bm -> In b tasks -> names_ok b -> In c (t_in b) ->
  assoc (t_path b ++ s_colon ++ i_name c) bm <> None -> i_target c = [].
Proof.
  intros W B Hb [ND PL] Hc P.
  destruct (assoc (t_path b ++ s_colon ++ i_name c) bm) as [ex|] eqn:E; [clear P|congruence].
  unfold env_bindmap in B. destruct (env_from_keys _ _ _ _ _ B E) as [X|(b' & Hb' & n & ep & Hi & Bk)].
  - exfalso. apply X. reflexivity.
  - assert (Pb : path_ok (t_path b)) by (apply (wf_env_path_ok _ _ W Hb)).
    destruct (is_alias_key n) eqn:A.
    + rewrite bind_key_alias in Bk by exact A. rewrite Bk, path_key_not_alias in A by exact Pb. discriminate.
    + rewrite bind_key_path in Bk by exact A. destruct W as [NDp Wf].
      destruct (key_inj _ _ _ _ (proj1 (proj2 (Wf b' Hb'))) (proj1 (proj2 (Wf b Hb))) Bk) as [Ep En].
      assert (b' = b) by (apply (NoDup_map_In_eq t_path tasks); assumption). subst b' n.
      apply local_In_assoc in Hi. apply local_bindmap_inv in Hi.
      destruct Hi as (i & c' & Hc' & [T S] & _).
      assert (c' = c); [|subst; exact T].
      unfold names_of in ND. apply nodup_app_elim in ND. destruct ND as (N1 & _ & _).
      destruct S as [S|[_ S]].
      * apply (NoDup_map_In_eq i_name (t_in b)); [exact N1|apply (nth_error_In _ _ Hc')|exact Hc|congruence].
      * exfalso. specialize (PL c Hc). rewrite S, alias_key_is_alias in PL. discriminate.
Qed.

(* connect side, target "path:name" *)
Lemma connect_matches_bind_path tasks ps jt t pr b i c o :
  wf_env tasks -> configure tasks = Some ps ->
  In b tasks -> names_ok b -> nth_error (t_in b) i = Some c ->
  nth_error tasks jt = Some t -> nth_error ps jt = Some pr -> t_chans t = true -> NoDup (names_of t) ->
  In o (t_out t) -> o_target o = t_path b ++ s_colon ++ i_name c -> is_explicit (o_target o) = false ->
  i_target c = [] /\
  given (o_name o) pr = Some (conn_addr (t_host b) c (t_alloc b i), m_connect, i_tr c).
Proof.
  intros W H Hb Nb Hc Ht Hpr C NDt Ho Tg Ex.
  destruct (configure_task _ _ _ _ _ H Ht Hpr) as (bm & B & P).
  destruct (given_outbound _ _ _ _ C NDt P Ho) as (p & Po & G). rewrite G.
  unfold outbound_props in Po. rewrite Ex, Tg in Po.
  assert (T : i_target c = []).
  { apply (advertised_target_free tasks bm b c W B Hb Nb (nth_error_In _ _ Hc)).
    destruct (assoc (t_path b ++ s_colon ++ i_name c) bm); [discriminate|discriminate]. }
  split; [exact T|]. f_equal. destruct Nb as [NDb PLb].
  assert (L : assoc (i_name c) (t_local b) = Some (mk_ep c (t_alloc b i))).
  { unfold t_local. apply local_bindmap_name; [|exact PLb|exact Hc|exact T].
    unfold names_of in NDb. apply nodup_app_elim in NDb. apply NDb. }
  assert (A : is_alias_key (i_name c) = false) by (apply PLb; apply (nth_error_In _ _ Hc)).
  rewrite (env_bindmap_path _ _ _ _ _ W B Hb L A) in Po. inversion Po; subst.
  rewrite address_target_mk_ep by (apply (wf_env_host_ok _ _ W Hb)).
  rewrite transport_to_target, transport_mk_ep. reflexivity.
Qed.

(* connect side, target "::alias"; [c] is a channel of [b] that declares the alias and takes part
   in matching *)
Lemma connect_matches_bind_alias tasks ps jt t pr b i c o :
  (forall x, In x tasks -> path_ok (t_path x)) -> (forall x, In x tasks -> host_ok (t_host x)) ->
  configure tasks = Some ps ->
  In b tasks -> (forall c', In c' (t_in b) -> is_alias_key (i_name c') = false) ->
  nth_error (t_in b) i = Some c -> i_global c <> [] -> i_target c = [] ->
  nth_error tasks jt = Some t -> nth_error ps jt = Some pr -> t_chans t = true -> NoDup (names_of t) ->
  In o (t_out t) -> o_target o = alias_key (i_global c) ->
  given (o_name o) pr = Some (conn_addr (t_host b) c (t_alloc b i), m_connect, i_tr c).
Proof.
  intros Hp Hh H Hb PLb Hc G T Ht Hpr C NDt Ho Tg.
  destruct (configure_task _ _ _ _ _ H Ht Hpr) as (bm & B & P).
  destruct (given_outbound _ _ _ _ C NDt P Ho) as (p & Po & Gv). rewrite Gv. f_equal.
  unfold outbound_props in Po. rewrite Tg, alias_not_explicit in Po.
  destruct (nth_error_split _ _ _ Hc) as (pre & post & Eb & Li).
  pose proof (env_from_no_dup _ _ _ _ B Hb) as AD. rewrite Eb in AD.
  assert (L : In (alias_key (i_global c), mk_ep c (t_alloc b i)) (t_local b)).
  { apply local_In_assoc. unfold t_local. rewrite Eb, <- Li. apply local_bindmap_alias; try assumption.
    - rewrite <- Eb. exact PLb.
    - intros c' Hc'. apply (no_dup_unique pre c post AD G). apply in_or_app. right. exact Hc'. }
  destruct (env_bindmap_alias _ _ _ _ _ Hp Hh B Hb L (alias_key_is_alias _)) as (ex & E & Ad & Tr).
  rewrite E in Po. inversion Po; subst. rewrite Ad, Tr.
  rewrite address_target_mk_ep by (apply (Hh b Hb)). rewrite transport_mk_ep. reflexivity.
Qed.

(* bind side *)
Lemma bind_told tasks ps jb b pr i c :
  configure tasks = Some ps -> nth_error tasks jb = Some b -> nth_error ps jb = Some pr ->
  t_chans b = true -> names_ok b -> nth_error (t_in b) i = Some c -> i_target c = [] ->
  given (i_name c) pr = Some (bound_addr c (t_alloc b i), m_bind, i_tr c).
Proof.
  intros H Hb Hpr C [ND PL] Hc Tg.
  destruct (configure_task _ _ _ _ _ H Hb Hpr) as (bm & B & P).
  destruct (given_inbound bm b pr c C ND P (nth_error_In _ _ Hc)) as (p & Pi & G). rewrite G. f_equal.
  unfold inbound_props in Pi. rewrite Tg in Pi. cbn [is_explicit has_prefix s_tcp s_ipc orb nonempty] in Pi.
  assert (L : assoc (i_name c) (t_local b) = Some (mk_ep c (t_alloc b i))).
  { unfold t_local. apply local_bindmap_name; [|exact PL|exact Hc|exact Tg].
    unfold names_of in ND. apply nodup_app_elim in ND. apply ND. }
  rewrite L, address_bound_mk_ep, transport_mk_ep in Pi. inversion Pi. reflexivity.
Qed.

(* both sides: the peer is given the endpoint the binder is told to bind - for every inbound
   declaration *)
Lemma agreement tasks ps jb b prb i c jt t prt o :
  wf_env tasks -> configure tasks = Some ps ->
  nth_error tasks jb = Some b -> nth_error ps jb = Some prb -> t_chans b = true -> names_ok b ->
  nth_error (t_in b) i = Some c ->
  nth_error tasks jt = Some t -> nth_error ps jt = Some prt -> t_chans t = true -> names_ok t ->
  In o (t_out t) -> o_target o = t_path b ++ s_colon ++ i_name c -> is_explicit (o_target o) = false ->
  given (o_name o) prt = Some (conn_addr (t_host b) c (t_alloc b i), m_connect, i_tr c) /\
  given (i_name c) prb = Some (bound_addr c (t_alloc b i), m_bind, i_tr c).
Proof.
  intros W H Hb Hpb Cb Nb Hc Ht Hpt Ct [Nt _] Ho Tg Ex.
  destruct (connect_matches_bind_path tasks ps jt t prt b i c o W H (nth_error_In _ _ Hb) Nb Hc Ht Hpt Ct Nt Ho Tg Ex)
    as [T G].
  split; [exact G|]. apply (bind_told tasks ps jb b prb i c); assumption.
Qed.

(* a peer that names a channel with a target of its own fails the configuration *)
Lemma static_inbound_not_matched tasks jt t b c o :
  wf_env tasks -> In b tasks -> names_ok b -> In c (t_in b) -> i_target c <> [] ->
  nth_error tasks jt = Some t -> t_chans t = true -> NoDup (names_of t) ->
  In o (t_out t) -> o_target o = t_path b ++ s_colon ++ i_name c -> is_explicit (o_target o) = false ->
  configure tasks = None.
Proof.
  intros W Hb Nb Hc T Ht C NDt Ho Tg Ex.
  destruct (configure tasks) as [ps|] eqn:H; [|reflexivity]. exfalso.
  destruct (In_nth_error _ _ Hc) as (i & Hi).
  assert (L : length ps = length tasks).
  { destruct (configure_some _ _ H) as (bm0 & _ & _ & AP0). apply (all_props_length _ _ _ AP0). }
  destruct (nth_error ps jt) as [pr|] eqn:Hpr.
  - destruct (connect_matches_bind_path tasks ps jt t pr b i c o W H Hb Nb Hi Ht Hpr C NDt Ho Tg Ex) as [T0 _].
    contradiction.
  - apply nth_error_None in Hpr. assert (jt < length tasks)%nat by (apply nth_error_Some; congruence). lia.
Qed.

Lemma explicit_outbound tasks ps jt t pr o :
  configure tasks = Some ps -> nth_error tasks jt = Some t -> nth_error ps jt = Some pr ->
  t_chans t = true -> NoDup (names_of t) -> In o (t_out t) -> is_explicit (o_target o) = true ->
  given (o_name o) pr = Some (o_target o, m_connect, o_tr o).
Proof.
  intros H Ht Hpr C ND Ho Ex.
  destruct (configure_task _ _ _ _ _ H Ht Hpr) as (bm & B & P).
  destruct (given_outbound _ _ _ _ C ND P Ho) as (p & Po & G). rewrite G.
  unfold outbound_props in Po. rewrite Ex in Po. symmetry. exact Po.
Qed.

Lemma explicit_inbound tasks ps jt t pr c :
  configure tasks = Some ps -> nth_error tasks jt = Some t -> nth_error ps jt = Some pr ->
  t_chans t = true -> NoDup (names_of t) -> In c (t_in t) -> is_explicit (i_target c) = true ->
  given (i_name c) pr = Some (i_target c, m_bind, i_tr c).
Proof.
  intros H Ht Hpr C ND Hc Ex.
  destruct (configure_task _ _ _ _ _ H Ht Hpr) as (bm & B & P).
  destruct (given_inbound bm t pr c C ND P Hc) as (p & Pi & G). rewrite G.
  unfold inbound_props in Pi. rewrite Ex in Pi. symmetry. exact Pi.
Qed.

(* an inbound channel whose target is neither empty nor tcp:// / ipc:// fails the configuration *)
Lemma invalid_inbound_fails tasks t c :
  In t tasks -> t_chans t = true -> In c (t_in t) ->
  i_target c <> [] -> is_explicit (i_target c) = false -> configure tasks = None.
Proof.
  intros Ht C Hc T Ex. destruct (env_bindmap tasks) as [bm|] eqn:B; [|unfold configure; rewrite B; reflexivity].
  apply (configure_props_none tasks bm B). apply (all_props_none bm tasks t Ht). unfold task_props. rewrite C.
  rewrite (in_writes_none (t_local t) (t_in t) c Hc); [reflexivity|].
  unfold inbound_props. rewrite Ex. apply nonempty_true in T. rewrite T. reflexivity.
Qed.

Lemma unmatched_fails tasks t o :
  In t tasks -> t_chans t = true -> In o (t_out t) -> is_explicit (o_target o) = false ->
  (forall b c, In b tasks -> In c (t_in b) -> ~ names_target b c (o_target o)) ->
  configure tasks = None.
Proof.
  intros Ht C Ho Ex Hn. destruct (env_bindmap tasks) as [bm|] eqn:B; [|unfold configure; rewrite B; reflexivity].
  apply (configure_props_none tasks bm B). apply (all_props_none bm tasks t Ht). unfold task_props. rewrite C.
  rewrite (out_writes_none bm (t_out t) o Ho); [destruct (in_writes (t_local t) (t_in t)); reflexivity|].
  unfold outbound_props. rewrite Ex.
  unfold env_bindmap in B. rewrite (env_from_other _ _ _ (o_target o) B); [reflexivity|].
  intros b Hb Wk. destruct (writes_key_names _ _ Wk) as (c & Hc & Nt). apply (Hn b c Hb Hc Nt).
Qed.

(* an alias claimed by two tasks is rejected unless both stand for one and the same IPC endpoint *)
Lemma alias_two_tasks_rejected tasks j1 j2 b1 b2 k e1 e2 :
  (forall x, In x tasks -> path_ok (t_path x)) -> (forall x, In x tasks -> host_ok (t_host x)) ->
  nth_error tasks j1 = Some b1 -> nth_error tasks j2 = Some b2 -> j1 <> j2 ->
  is_alias_key k = true -> In (k, e1) (t_local b1) -> In (k, e2) (t_local b2) ->
  ~ (exists p tr, e1 = Ipc p tr /\ e2 = Ipc p tr) ->
  configure tasks = None.
Proof.
  intros Hp Hh H1 H2 Ne A I1 I2 Nx.
  destruct (env_bindmap tasks) as [bm|] eqn:B; [|unfold configure; rewrite B; reflexivity]. exfalso. apply Nx.
  destruct (Nat.lt_total j1 j2) as [Lt|[Eq|Gt]]; [|contradiction|].
  - destruct (nth_error_two _ _ _ _ _ H1 H2 Lt) as (pre & mid & post & E). subst tasks.
    apply (env_from_alias_two pre b1 mid b2 post bm k e1 e2 Hp Hh B A I1 I2).
  - destruct (nth_error_two _ _ _ _ _ H2 H1 Gt) as (pre & mid & post & E). subst tasks.
    destruct (env_from_alias_two pre b2 mid b1 post bm k e2 e1 Hp Hh B A I2 I1) as (p & tr & X & Y).
    exists p, tr. split; assumption.
Qed.

(* an alias declared by two channels of one task is rejected *)
Lemma alias_same_task_rejected tasks b i1 i2 c1 c2 :
  In b tasks -> nth_error (t_in b) i1 = Some c1 -> nth_error (t_in b) i2 = Some c2 -> i1 <> i2 ->
  i_global c1 <> [] -> i_global c2 = i_global c1 -> configure tasks = None.
Proof.
  intros Hb H1 H2 Ne G E. unfold configure, env_bindmap.
  rewrite (env_from_dup_none tasks [] b Hb (dup_two _ _ _ _ _ H1 H2 Ne G E)). reflexivity.
Qed.

(* any two distinct claims of one alias (by channels that take part in matching) whose endpoints
   differ are rejected *)
Lemma alias_conflict_rejected tasks j1 j2 b1 b2 i1 i2 c1 c2 :
  (forall x, In x tasks -> path_ok (t_path x)) -> (forall x, In x tasks -> host_ok (t_host x)) ->
  (forall x c, In x tasks -> In c (t_in x) -> is_alias_key (i_name c) = false) ->
  nth_error tasks j1 = Some b1 -> nth_error tasks j2 = Some b2 ->
  nth_error (t_in b1) i1 = Some c1 -> nth_error (t_in b2) i2 = Some c2 ->
  (j1, i1) <> (j2, i2) -> i_global c1 <> [] -> i_global c2 = i_global c1 ->
  i_target c1 = [] -> i_target c2 = [] ->
  to_target (t_host b1) (mk_ep c1 (t_alloc b1 i1)) <> to_target (t_host b2) (mk_ep c2 (t_alloc b2 i2)) ->
  configure tasks = None.
Proof.
  intros Hp Hh PL H1 H2 N1 N2 Ne G E T1 T2 D.
  destruct (Nat.eq_dec j1 j2) as [Ej|Nj].
  - subst j2. assert (b2 = b1) by congruence. subst b2.
    apply (alias_same_task_rejected tasks b1 i1 i2 c1 c2 (nth_error_In _ _ H1) N1 N2); try assumption.
    intro X. apply Ne. congruence.
  - destruct (configure tasks) as [ps|] eqn:Cf; [|reflexivity]. exfalso.
    assert (B : exists bm, env_bindmap tasks = Some bm).
    { destruct (configure_some _ _ Cf) as (bm0 & B0 & _). exists bm0. exact B0. }
    destruct B as (bm & B).
    assert (G2 : i_global c2 <> []) by congruence.
    assert (L : forall b i c, In b tasks -> nth_error (t_in b) i = Some c -> i_global c <> [] -> i_target c = [] ->
                              In (alias_key (i_global c), mk_ep c (t_alloc b i)) (t_local b)).
    { intros b i c Hb Hc Gc Tc. destruct (nth_error_split _ _ _ Hc) as (pre & post & Eb & Li).
      pose proof (env_from_no_dup _ _ _ _ B Hb) as AD. rewrite Eb in AD.
      apply local_In_assoc. unfold t_local. rewrite Eb, <- Li. apply local_bindmap_alias; try assumption.
      - rewrite <- Eb. intros c' Hc'. apply (PL b c' Hb Hc').
      - intros c' Hc'. apply (no_dup_unique pre c post AD Gc). apply in_or_app. right. exact Hc'. }
    pose proof (L b1 i1 c1 (nth_error_In _ _ H1) N1 G T1) as L1.
    pose proof (L b2 i2 c2 (nth_error_In _ _ H2) N2 G2 T2) as L2. rewrite E in L2.
    assert (X : configure tasks = None).
    { apply (alias_two_tasks_rejected tasks j1 j2 b1 b2 _ _ _ Hp Hh H1 H2 Nj (alias_key_is_alias _) L1 L2).
      intros (p & tr & X1 & X2). apply D. rewrite X1, X2. reflexivity. }
    congruence.
Qed.

(* ---------- witnesses (the former defects, now regression cases of the model) ---------- *)
Definition s_default : str := [100;101;102;97;117;108;116].
Definition s_in0 : str := [105;110;48].
Definition s_in1 : str := [105;110;49].
Definition s_out0 : str := [111;117;116;48].
Definition s_h1 : str := [104;49].
Definition s_h2 : str := [104;50].
Definition s_ga : str := [103;97].
Definition wit1_c : inbound := mkIn s_in0 s_default [116;99;112;58;47;47;42;58;53;53;53;53] [] false.
Definition wit1_o : outbound := mkOut s_out0 s_default [119;46;98;58;105;110;48].
Definition wit1_wb : wtask := mkW [[119];[98]] [[wit1_c]; []] [[]; []] true [] [] s_h1 [(9000, [])].
Definition wit1_wt : wtask := mkW [[119];[99]] [[]; []] [[wit1_o]; []] true [] [] s_h2 [].
Definition wit1_ws : list wtask := [wit1_wb; wit1_wt].
Definition wit1_tasks : list task := map task_of wit1_ws.
Lemma wit1_wf : wf_env wit1_tasks.
Proof.
  split.
  - cbn. constructor; [intros [H|[]]; discriminate|]. constructor; [intros []|constructor].
  - intros t [<-|[<-|[]]]; cbn; (split; [discriminate|]); (split; [|split; discriminate]);
      unfold no_colon; cbn; intuition discriminate.
Qed.
Lemma wit_names_ok w : nodupb str_eqb (names_of (task_of w)) = true ->
  forallb (fun i => negb (is_alias_key (i_name i))) (t_in (task_of w)) = true -> names_ok (task_of w).
Proof.
  intros H1 H2. split.
  - revert H1. generalize (names_of (task_of w)). induction l as [|x l IH]; cbn; intro H; [constructor|].
    apply andb_true_iff in H. destruct H as [Hx Hl]. constructor; [|apply IH, Hl].
    intro HI. apply negb_true_iff in Hx. assert (existsb (str_eqb x) l = true); [|congruence].
    apply existsb_exists. exists x. split; [exact HI|apply str_eqb_refl].
  - intros i Hi. rewrite forallb_forall in H2. apply negb_true_iff. apply H2, Hi.
Qed.

(* the peer names a channel that is told its own explicit target: refused *)
Lemma wit1_refused : configure wit1_tasks = None.
Proof. vm_compute. reflexivity. Qed.

(* a declaration the device interface refuses: refused *)
Definition wit2_c : inbound := mkIn s_in0 s_default [110;111;110;115;101;110;115;101] [] false.
Definition wit2_ws : list wtask :=
  [ mkW [[119];[98]] [[wit2_c]; []] [[]; []] true [] [] s_h1 [(9000, [])];
    mkW [[119];[99]] [[]; []] [[wit1_o]; []] true [] [] s_h2 [] ].

Lemma wit2_refused : configure_wf wit2_ws = None.
Proof. vm_compute. reflexivity. Qed.

(* one task, two channels with one alias: refused *)
Definition wit3_c1 : inbound := mkIn s_in0 s_default [] s_ga false.
Definition wit3_c2 : inbound := mkIn s_in1 s_default [] s_ga true.
Definition wit3_w : wtask :=
  mkW [[119];[98]] [[wit3_c1; wit3_c2]; []] [[]; []] true [] [] s_h1 [(9000, []); (0, [64;112])].
Definition wit3_ws : list wtask := [wit3_w].

Lemma wit3_refused : configure_wf wit3_ws = None.
Proof. vm_compute. reflexivity. Qed.

(* the two addresses name one endpoint: same port on the binder's host, or the same path *)
Lemma conn_bound_same_endpoint h c a :
  (i_ipc c = false -> conn_addr h c a = s_tcp ++ h ++ s_colon ++ dec (fst a) /\
                      bound_addr c a = s_tcp ++ s_star ++ s_colon ++ dec (fst a)) /\
  (i_ipc c = true -> conn_addr h c a = s_ipc ++ snd a /\ bound_addr c a = s_ipc ++ snd a).
Proof. unfold conn_addr, bound_addr. split; intros ->; split; reflexivity. Qed.

(* ====================================================================================== *)
(* converse: a configuration is refused only for the reasons the property names            *)
(* ====================================================================================== *)
Lemma all_props_none_inv : forall bm tasks,
  all_props bm tasks = None -> exists t, In t tasks /\ task_props bm t = None.
Proof.
  induction tasks as [|t r IH]; intro H; cbn [all_props] in H; [discriminate|].
  destruct (task_props bm t) as [p|] eqn:P.
  - destruct (all_props bm r) as [ps|] eqn:A; [discriminate|].
    destruct (IH eq_refl) as (t' & Ht' & P'). exists t'. split; [right; exact Ht'|exact P'].
  - exists t. split; [left; reflexivity|exact P].
Qed.

Lemma out_writes_none_inv : forall bm outs,
  out_writes bm outs = None -> exists o, In o outs /\ outbound_props bm o = None.
Proof.
  induction outs as [|o r IH]; intro H; cbn [out_writes] in H; [discriminate|].
  destruct (outbound_props bm o) as [p|] eqn:P.
  - destruct (out_writes bm r) as [w|] eqn:W; [discriminate|].
    destruct (IH eq_refl) as (o' & Ho' & P'). exists o'. split; [right; exact Ho'|exact P'].
  - exists o. split; [left; reflexivity|exact P].
Qed.

Lemma env_add_none : forall entries path host bm,
  path_ok path -> NoDup (map fst entries) -> env_add path host entries bm = None ->
  exists k ep, In (k, ep) entries /\ is_alias_key k = true /\ assoc k bm <> None.
Proof.
  induction entries as [|[n ep] r IH]; intros path host bm Hp ND H; cbn [env_add] in H; [discriminate|].
  cbn [map fst] in ND. inversion ND as [|x xs Hnot ND']; subst.
  assert (Step : forall key v, (is_alias_key key = false \/ key = n) ->
            (exists k ep', In (k, ep') r /\ is_alias_key k = true /\ assoc k (bm_set key v bm) <> None) ->
            exists k ep', In (k, ep') ((n, ep) :: r) /\ is_alias_key k = true /\ assoc k bm <> None).
  { intros key v Hk (k & ep' & Hi & A & P). exists k, ep'. split; [right; exact Hi|]. split; [exact A|].
    rewrite assoc_set_other in P; [exact P|]. intro X. subst key. destruct Hk as [Hk|Hk]; [congruence|].
    subst k. apply Hnot. change n with (fst (n, ep')). apply in_map. exact Hi. }
  destruct (is_alias_key n) eqn:A.
  - destruct (assoc n bm) as [ex|] eqn:E.
    + destruct (ep_eqb ex ep).
      * destruct (IH _ _ _ Hp ND' H) as (k & ep' & Hi & A' & P). exists k, ep'.
        split; [right; exact Hi|]. split; assumption.
      * exists n, ep. split; [left; reflexivity|]. split; [exact A|]. rewrite E. discriminate.
    + apply (Step n (to_target host ep)); [right; reflexivity|]. apply (IH _ _ _ Hp ND' H).
  - apply (Step (path ++ s_colon ++ n) (to_target host ep)); [left; apply path_key_not_alias, Hp|].
    apply (IH _ _ _ Hp ND' H).
Qed.

Definition alias_prov (bm : bindmap) (done : list task) : Prop :=
  forall k, is_alias_key k = true -> assoc k bm <> None ->
            exists j b e, nth_error done j = Some b /\ In (k, e) (t_local b).

Lemma env_from_none : forall rest done bm,
  (forall t, In t rest -> path_ok (t_path t)) -> alias_prov bm done -> env_from rest bm = None ->
  (exists t, In t rest /\ alias_dup (t_in t) = true) \/
  exists j1 j2 b1 b2 k e1 e2,
    (j1 < j2)%nat /\ nth_error (done ++ rest) j1 = Some b1 /\ nth_error (done ++ rest) j2 = Some b2 /\
    is_alias_key k = true /\ In (k, e1) (t_local b1) /\ In (k, e2) (t_local b2).
Proof.
  induction rest as [|t r IH]; intros done bm Hp Pv H; cbn [env_from] in H; [discriminate|].
  destruct (alias_dup (t_in t)) eqn:AD; [left; exists t; split; [left; reflexivity|exact AD]|].
  destruct (env_add (t_path t) (t_host t) (t_local t) bm) as [bm1|] eqn:E.
  - assert (Pv1 : alias_prov bm1 (done ++ [t])).
    { intros k A P. destruct (assoc k bm1) as [ex|] eqn:X; [|congruence].
      destruct (env_add_keys _ _ _ _ _ _ _ E X) as [P0|(n & ep & Hi & Bk)].
      - destruct (Pv k A P0) as (j & b & e & Hj & He). exists j, b, e. split; [|exact He].
        rewrite nth_error_app1; [exact Hj|]. apply nth_error_Some. congruence.
      - exists (length done), t, ep. split.
        + rewrite nth_error_app2 by lia. rewrite Nat.sub_diag. reflexivity.
        + destruct (is_alias_key n) eqn:An.
          * rewrite bind_key_alias in Bk by exact An. subst n. exact Hi.
          * rewrite bind_key_path in Bk by exact An. rewrite <- Bk in A.
            rewrite path_key_not_alias in A by (apply Hp; left; reflexivity). discriminate. }
    destruct (IH (done ++ [t]) bm1 (fun x Hx => Hp x (or_intror Hx)) Pv1 H)
      as [(t' & Ht' & AD')|(j1 & j2 & b1 & b2 & k & e1 & e2 & Lt & N1 & N2 & R)].
    + left. exists t'. split; [right; exact Ht'|exact AD'].
    + right. exists j1, j2, b1, b2, k, e1, e2. rewrite <- app_assoc in N1, N2. cbn [app] in N1, N2.
      split; [exact Lt|]. split; [exact N1|]. split; [exact N2|exact R].
  - right. destruct (env_add_none _ _ _ _ (Hp t (or_introl eq_refl)) (local_bindmap_nodup _ _) E) as (k & ep & Hi & A & P).
    destruct (Pv k A P) as (j & b & e & Hj & He).
    assert (Lj : (j < length done)%nat) by (apply nth_error_Some; congruence).
    exists j, (length done), b, t, k, e, ep. split; [exact Lj|]. split.
    + rewrite nth_error_app1 by exact Lj. exact Hj.
    + split; [rewrite nth_error_app2 by lia; rewrite Nat.sub_diag; reflexivity|].
      split; [exact A|]. split; assumption.
Qed.

Lemma fails_only_for_cause tasks :
  (forall t, In t tasks -> path_ok (t_path t)) -> configure tasks = None ->
  (exists t o, In t tasks /\ t_chans t = true /\ In o (t_out t) /\ is_explicit (o_target o) = false /\
               forall b c, In b tasks -> In c (t_in b) -> ~ names_target b c (o_target o)) \/
  (exists t c, In t tasks /\ t_chans t = true /\ In c (t_in t) /\
               i_target c <> [] /\ is_explicit (i_target c) = false) \/
  (exists t, In t tasks /\ alias_dup (t_in t) = true) \/
  (exists j1 j2 b1 b2 k e1 e2, (j1 < j2)%nat /\ nth_error tasks j1 = Some b1 /\ nth_error tasks j2 = Some b2 /\
               is_alias_key k = true /\ In (k, e1) (t_local b1) /\ In (k, e2) (t_local b2)) \/
  (exists bm t, env_bindmap tasks = Some bm /\ In t tasks /\ cross_ipc tasks bm t = true).
Proof.
  intros Hp H. unfold configure in H. destruct (env_bindmap tasks) as [bm|] eqn:B.
  - destruct (existsb (cross_ipc tasks bm) tasks) eqn:X.
    { right. right. right. right. apply existsb_exists in X. destruct X as (t & Ht & X).
      exists bm, t. repeat split; assumption. }
    destruct (all_props_none_inv _ _ H) as (t & Ht & P). unfold task_props in P.
    destruct (t_chans t) eqn:C; [|discriminate].
    destruct (in_writes (t_local t) (t_in t)) as [wi|] eqn:Wi.
    + left. destruct (out_writes bm (t_out t)) as [w|] eqn:W; [discriminate|].
      destruct (out_writes_none_inv _ _ W) as (o & Ho & Po). unfold outbound_props in Po.
      destruct (is_explicit (o_target o)) eqn:Ex; [discriminate|].
      destruct (assoc (o_target o) bm) as [ep|] eqn:As; [discriminate|].
      exists t, o. repeat (split; [assumption|]). intros b c Hb Hc Nt.
      apply (env_from_written tasks [] bm b (o_target o) Hb (names_target_writes _ _ _ Hc Nt) B). exact As.
    + right. left. destruct (in_writes_none_inv _ _ Wi) as (c & Hc & Pc). unfold inbound_props in Pc.
      destruct (is_explicit (i_target c)) eqn:Ex; [discriminate|].
      destruct (nonempty (i_target c)) eqn:Ne.
      * exists t, c. repeat (split; [assumption|]). split; [apply nonempty_true, Ne|exact Ex].
      * exfalso. apply nonempty_false in Ne.
        destruct (assoc (i_name c) (t_local t)) as [ep|] eqn:L; [discriminate|].
        revert L. unfold t_local, local_bindmap. apply local_from_present.
        right. exists c. split; [exact Hc|]. split; [exact Ne|]. left. reflexivity.
  - right. right. destruct (env_from_none tasks [] [] Hp) as [X|X]; [|exact B|left; exact X|right; left; exact X].
    intros k _ P. exfalso. apply P. reflexivity.
Qed.

(* ====================================================================================== *)
(* an IPC endpoint is reachable on the binder's host only                                  *)
(* ====================================================================================== *)
Lemma writes_keyb_spec t k : writes_keyb t k = true <-> writes_key t k.
Proof.
  unfold writes_keyb, writes_key. rewrite existsb_exists. split.
  - intros ([n ep] & Hi & E). apply str_eqb_spec in E. exists n, ep. split; assumption.
  - intros (n & ep & Hi & E). exists (n, ep). split; [exact Hi|]. cbn [fst]. rewrite E. apply str_eqb_refl.
Qed.

(* under [wf_env] a "path:name" key has one writer *)
Lemma path_key_writer_unique tasks b t k :
  wf_env tasks -> In b tasks -> In t tasks -> is_alias_key k = false ->
  writes_key b k -> writes_key t k -> t = b.
Proof.
  intros W Hb Ht A (n & ep & Hi & E) (n' & ep' & Hi' & E').
  assert (NA : forall x m, In x tasks -> bind_key (t_path x) m = k -> bind_key (t_path x) m = t_path x ++ s_colon ++ m).
  { intros x m Hx Em. destruct (is_alias_key m) eqn:Am; [|apply bind_key_path, Am].
    rewrite bind_key_alias in Em by exact Am. congruence. }
  rewrite (NA b n Hb E) in E. rewrite (NA t n' Ht E') in E'. destruct W as [ND Wf].
  destruct (key_inj _ _ _ _ (proj1 (proj2 (Wf t Ht))) (proj1 (proj2 (Wf b Hb))) (eq_trans E' (eq_sym E))) as [Ep _].
  apply (NoDup_map_In_eq t_path tasks); assumption.
Qed.

Lemma key_host_path tasks b k :
  wf_env tasks -> In b tasks -> is_alias_key k = false -> writes_key b k ->
  key_host tasks k = Some (t_host b).
Proof.
  intros W Hb A Wk. unfold key_host. rewrite A.
  destruct (find (fun t => writes_keyb t k) (rev tasks)) as [t|] eqn:F.
  - apply find_some in F. destruct F as [Ht Wt]. apply in_rev in Ht. apply writes_keyb_spec in Wt.
    rewrite (path_key_writer_unique tasks b t k W Hb Ht A Wk Wt). reflexivity.
  - exfalso. apply in_rev in Hb. pose proof (find_none _ _ F b Hb) as X. cbv beta in X.
    apply writes_keyb_spec in Wk. congruence.
Qed.

Lemma name_entry_writes b i c :
  names_ok b -> nth_error (t_in b) i = Some c -> i_target c = [] ->
  In (i_name c, mk_ep c (t_alloc b i)) (t_local b) /\
  writes_key b (t_path b ++ s_colon ++ i_name c) /\ is_alias_key (i_name c) = false.
Proof.
  intros [ND PL] Hc T.
  assert (A : is_alias_key (i_name c) = false) by (apply PL, (nth_error_In _ _ Hc)).
  assert (L : In (i_name c, mk_ep c (t_alloc b i)) (t_local b)).
  { apply local_In_assoc. unfold t_local. apply local_bindmap_name; [|exact PL|exact Hc|exact T].
    unfold names_of in ND. apply nodup_app_elim in ND. apply ND. }
  split; [exact L|]. split; [|exact A]. exists (i_name c), (mk_ep c (t_alloc b i)).
  split; [exact L|apply bind_key_path, A].
Qed.

(* a peer on another host that names an IPC-addressed channel fails the configuration *)
Lemma ipc_cross_host_rejected tasks b i c t o :
  wf_env tasks -> In b tasks -> names_ok b -> nth_error (t_in b) i = Some c ->
  i_target c = [] -> i_ipc c = true ->
  In t tasks -> t_chans t = true -> In o (t_out t) -> o_target o = t_path b ++ s_colon ++ i_name c ->
  t_host t <> t_host b -> configure tasks = None.
Proof.
  intros W Hb Nb Hc T Ip Ht C Ho Tg Hn.
  destruct (name_entry_writes b i c Nb Hc T) as (L & Wk & A).
  unfold configure. destruct (env_bindmap tasks) as [bm|] eqn:B; [|reflexivity].
  assert (X : existsb (cross_ipc tasks bm) tasks = true); [|rewrite X; reflexivity].
  apply existsb_exists. exists t. split; [exact Ht|]. unfold cross_ipc. rewrite C. cbn [andb].
  apply existsb_exists. exists o. split; [exact Ho|]. rewrite Tg.
  apply local_In_assoc in L. rewrite (env_bindmap_path _ _ _ _ _ W B Hb L A).
  unfold mk_ep. rewrite Ip. cbn [to_target is_ipc_ep andb].
  rewrite (key_host_path tasks b _ W Hb (path_key_not_alias _ _ (wf_env_path_ok _ _ W Hb)) Wk).
  cbn [option_eqb]. destruct (str_eqb (t_host b) (t_host t)) eqn:E; [|reflexivity].
  apply str_eqb_spec in E. congruence.
Qed.

(* in an accepted configuration such a peer runs on the binder's host *)
Lemma ipc_same_host tasks ps b i c t o :
  wf_env tasks -> configure tasks = Some ps -> In b tasks -> names_ok b -> nth_error (t_in b) i = Some c ->
  i_target c = [] -> i_ipc c = true ->
  In t tasks -> t_chans t = true -> In o (t_out t) -> o_target o = t_path b ++ s_colon ++ i_name c ->
  t_host t = t_host b.
Proof.
  intros W Cf Hb Nb Hc T Ip Ht C Ho Tg.
  destruct (str_eqb (t_host t) (t_host b)) eqn:E; [apply str_eqb_spec, E|].
  apply str_eqb_false in E.
  rewrite (ipc_cross_host_rejected tasks b i c t o W Hb Nb Hc T Ip Ht C Ho Tg E) in Cf. discriminate.
Qed.
