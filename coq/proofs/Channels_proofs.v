(* Lemmas about model/Channels.v *)
From Verif Require Import Common Channels.
Open Scope N_scope.

(* ====================================================================================== *)
(* strings, association lists, Go-map updates                                              *)
(* ====================================================================================== *)
Lemma str_eqb_false a b : str_eqb a b = false <-> a <> b.
Proof.
  split.
  - intros H E. apply str_eqb_spec in E. congruence.
  - intro H. destruct (str_eqb a b) eqn:E; [|reflexivity]. apply str_eqb_spec in E. contradiction.
Qed.

Lemma str_eqb_sym a b : str_eqb a b = str_eqb b a.
Proof.
  destruct (str_eqb a b) eqn:E.
  - apply str_eqb_spec in E. subst. symmetry. apply str_eqb_refl.
  - symmetry. apply str_eqb_false. apply str_eqb_false in E. congruence.
Qed.

Lemma assoc_In {V} k (l : list (str * V)) v : assoc k l = Some v -> In (k, v) l.
Proof.
  induction l as [|[k' v'] l IH]; cbn; [discriminate|].
  destruct (str_eqb k k') eqn:E.
  - intro H. inversion H; subst. apply str_eqb_spec in E. subst. left. reflexivity.
  - intro H. right. apply IH, H.
Qed.

Lemma assoc_None {V} k (l : list (str * V)) : assoc k l = None <-> ~ In k (map fst l).
Proof.
  induction l as [|[k' v'] l IH]; cbn.
  - split; [intros _ []|reflexivity].
  - destruct (str_eqb k k') eqn:E.
    + split; [discriminate|]. intro H. exfalso. apply H. left. apply str_eqb_spec in E. congruence.
    + rewrite IH. apply str_eqb_false in E. split.
      * intros H [H1|H1]; [congruence|contradiction].
      * intros H H1. apply H. right. exact H1.
Qed.

Lemma assoc_nodup_In {V} k v (l : list (str * V)) :
  NoDup (map fst l) -> In (k, v) l -> assoc k l = Some v.
Proof.
  induction l as [|[k' v'] l IH]; cbn; intros ND HI; [contradiction|].
  inversion ND as [|x xs Hnot ND']; subst.
  destruct HI as [HI|HI].
  - inversion HI; subst. rewrite str_eqb_refl. reflexivity.
  - destruct (str_eqb k k') eqn:E.
    + apply str_eqb_spec in E. subst. exfalso. apply Hnot.
      change k' with (fst (k', v)). apply in_map. exact HI.
    + apply IH; assumption.
Qed.

Lemma bm_remove_cons {V} k k' (v' : V) m :
  bm_remove k ((k', v') :: m) = if str_eqb k' k then bm_remove k m else (k', v') :: bm_remove k m.
Proof. unfold bm_remove. cbn [filter fst]. destruct (str_eqb k' k); reflexivity. Qed.

Lemma assoc_remove_same {V} k (m : list (str * V)) : assoc k (bm_remove k m) = None.
Proof.
  induction m as [|[k' v'] m IH]; [reflexivity|].
  rewrite bm_remove_cons. destruct (str_eqb k' k) eqn:E; [exact IH|].
  cbn [assoc]. rewrite str_eqb_sym, E. exact IH.
Qed.

Lemma assoc_remove_other {V} k k' (m : list (str * V)) :
  k <> k' -> assoc k' (bm_remove k m) = assoc k' m.
Proof.
  intro N. induction m as [|[k2 v2] m IH]; [reflexivity|].
  rewrite bm_remove_cons. destruct (str_eqb k2 k) eqn:E.
  - apply str_eqb_spec in E. subst. cbn [assoc].
    assert (str_eqb k' k = false) as ->. { apply str_eqb_false. congruence. }
    exact IH.
  - cbn [assoc]. rewrite IH. reflexivity.
Qed.

Lemma assoc_set_same {V} k (v : V) m : assoc k (bm_set k v m) = Some v.
Proof. unfold bm_set. cbn [assoc]. rewrite str_eqb_refl. reflexivity. Qed.

Lemma assoc_set_other {V} k k' (v : V) m : k <> k' -> assoc k' (bm_set k v m) = assoc k' m.
Proof.
  intro N. unfold bm_set. cbn [assoc].
  assert (str_eqb k' k = false) as ->. { apply str_eqb_false. congruence. }
  apply assoc_remove_other. exact N.
Qed.

Lemma assoc_set_inv {V} k (v : V) m k' v' :
  assoc k' (bm_set k v m) = Some v' -> (k' = k /\ v' = v) \/ (k' <> k /\ assoc k' m = Some v').
Proof.
  intro H. destruct (str_eqb k' k) eqn:E.
  - apply str_eqb_spec in E. subst. rewrite assoc_set_same in H. inversion H. left. split; reflexivity.
  - apply str_eqb_false in E. rewrite assoc_set_other in H by congruence. right. split; assumption.
Qed.

Lemma remove_keys_incl {V} k (m : list (str * V)) x : In x (map fst (bm_remove k m)) -> In x (map fst m) /\ x <> k.
Proof.
  induction m as [|[k' v'] m IH]; [intros []|].
  rewrite bm_remove_cons. destruct (str_eqb k' k) eqn:E.
  - intro H. destruct (IH H). split; [right|]; assumption.
  - cbn [map fst]. intros [H|H].
    + subst. split; [left; reflexivity|]. apply str_eqb_false. exact E.
    + destruct (IH H). split; [right|]; assumption.
Qed.

Lemma remove_nodup {V} k (m : list (str * V)) : NoDup (map fst m) -> NoDup (map fst (bm_remove k m)).
Proof.
  induction m as [|[k' v'] m IH]; intro ND; [constructor|].
  cbn [map fst] in ND. inversion ND as [|x xs Hnot ND']; subst.
  rewrite bm_remove_cons. destruct (str_eqb k' k); [apply IH, ND'|].
  cbn [map fst]. constructor; [|apply IH, ND'].
  intro H. apply remove_keys_incl in H. destruct H. contradiction.
Qed.

Lemma set_nodup {V} k (v : V) m : NoDup (map fst m) -> NoDup (map fst (bm_set k v m)).
Proof.
  intro ND. unfold bm_set. cbn [map fst]. constructor; [|apply remove_nodup, ND].
  intro H. apply remove_keys_incl in H. destruct H. congruence.
Qed.

Lemma assoc_some_key {V} k (m : list (str * V)) v : assoc k m = Some v -> In k (map fst m).
Proof. intro H. apply assoc_In in H. change k with (fst (k, v)). apply in_map. exact H. Qed.

(* NoDup over appends *)
Lemma nodup_app_intro {A} (a b : list A) :
  NoDup a -> NoDup b -> (forall x, In x a -> ~ In x b) -> NoDup (a ++ b).
Proof.
  induction a as [|x a IH]; cbn; intros Ha Hb Hd; [exact Hb|].
  inversion Ha; subst. constructor.
  - intro H. apply in_app_or in H. destruct H as [H|H]; [contradiction|].
    apply (Hd x); [left; reflexivity|exact H].
  - apply IH; try assumption. intros y Hy. apply Hd. right. exact Hy.
Qed.

Lemma nodup_app_elim {A} (a b : list A) :
  NoDup (a ++ b) -> NoDup a /\ NoDup b /\ (forall x, In x a -> ~ In x b).
Proof.
  induction a as [|x a IH]; cbn; intro H.
  - split; [constructor|]. split; [exact H|]. intros x [].
  - inversion H as [|y ys Hnot ND]; subst. destruct (IH ND) as (Ha & Hb & Hd).
    split; [|split; [exact Hb|]].
    + constructor; [|exact Ha]. intro Hx. apply Hnot. apply in_or_app. left. exact Hx.
    + intros y [Hy|Hy].
      * subst. intro Hb'. apply Hnot. apply in_or_app. right. exact Hb'.
      * apply Hd, Hy.
Qed.

(* ====================================================================================== *)
(* prefixes                                                                                *)
(* ====================================================================================== *)
Lemma has_prefix_app p s : has_prefix p (p ++ s) = true.
Proof. induction p as [|a p IH]; cbn; [reflexivity|]. rewrite N.eqb_refl. exact IH. Qed.

Lemma alias_key_is_alias g : is_alias_key (alias_key g) = true.
Proof. unfold is_alias_key, alias_key. apply has_prefix_app. Qed.

Lemma alias_key_inj g g' : alias_key g = alias_key g' -> g = g'.
Proof. unfold alias_key. apply app_inv_head. Qed.

(* a role path that does not start with a colon never produces an alias-looking key *)
Definition path_ok (p : str) : Prop := match p with [] => False | c :: _ => c <> 58 end.

Lemma path_key_not_alias p n : path_ok p -> is_alias_key (p ++ s_colon ++ n) = false.
Proof.
  destruct p as [|c p]; [intros []|]. intro H. cbn [path_ok] in H.
  unfold is_alias_key, s_alias. cbn [app has_prefix].
  destruct (58 =? c) eqn:E; [|reflexivity]. apply N.eqb_eq in E. congruence.
Qed.

(* ====================================================================================== *)
(* endpoints                                                                               *)
(* ====================================================================================== *)
Lemma ep_eqb_spec e f : ep_eqb e f = true <-> e = f.
Proof.
  destruct e as [h p t|p t], f as [h' p' t'|p' t']; cbn; split; intro H; try discriminate.
  - apply andb_true_iff in H. destruct H as [H H3]. apply andb_true_iff in H. destruct H as [H1 H2].
    apply str_eqb_spec in H1, H3. apply N.eqb_eq in H2. subst. reflexivity.
  - inversion H; subst. rewrite !str_eqb_refl, N.eqb_refl. reflexivity.
  - apply andb_true_iff in H. destruct H as [H1 H2]. apply str_eqb_spec in H1, H2. subst. reflexivity.
  - inversion H; subst. rewrite !str_eqb_refl. reflexivity.
Qed.

Lemma transport_to_target h e : ep_transport (to_target h e) = ep_transport e.
Proof. destruct e; reflexivity. Qed.

Lemma transport_to_bound e : ep_transport (to_bound e) = ep_transport e.
Proof. destruct e; reflexivity. Qed.

Lemma transport_mk_ep c a : ep_transport (mk_ep c a) = i_tr c.
Proof. unfold mk_ep. destruct (i_ipc c); reflexivity. Qed.

(* the address a peer is given / the binder is told, written out *)
Definition host_ok (h : str) : Prop := h <> [] /\ h <> s_star.

Definition conn_addr (host : str) (c : inbound) (a : N * str) : str :=
  if i_ipc c then s_ipc ++ snd a else s_tcp ++ host ++ s_colon ++ dec (fst a).
Definition bound_addr (c : inbound) (a : N * str) : str :=
  if i_ipc c then s_ipc ++ snd a else s_tcp ++ s_star ++ s_colon ++ dec (fst a).

Lemma address_target_mk_ep h c a :
  host_ok h -> ep_address (to_target h (mk_ep c a)) = conn_addr h c a.
Proof.
  intros [H1 H2]. unfold mk_ep, conn_addr. destruct (i_ipc c); cbn [to_target ep_address]; [reflexivity|].
  destruct h as [|x h]; [congruence|]. cbn [nonempty negb orb].
  assert (str_eqb (x :: h) s_star = false) as ->. { apply str_eqb_false. exact H2. }
  reflexivity.
Qed.

Lemma address_bound_mk_ep c a : ep_address (to_bound (mk_ep c a)) = bound_addr c a.
Proof.
  unfold mk_ep, bound_addr. destruct (i_ipc c); cbn [to_bound ep_address]; [reflexivity|].
  cbn. reflexivity.
Qed.

(* ====================================================================================== *)
(* MergeInbound / MergeOutbound / Collect*Channels                                         *)
(* ====================================================================================== *)
Section Merge.
  Context {A : Type} (nm : A -> str).

  Lemma find_by_app n (l1 l2 : list A) :
    find_by nm n (l1 ++ l2) =
    match find_by nm n l1 with Some c => Some c | None => find_by nm n l2 end.
  Proof.
    unfold find_by. induction l1 as [|c l1 IH]; cbn; [reflexivity|].
    destruct (str_eqb (nm c) n); [reflexivity|exact IH].
  Qed.

  Lemma has_name_find n (l : list A) : has_name nm n l = is_some (find_by nm n l).
  Proof.
    unfold has_name, find_by. induction l as [|c l IH]; cbn; [reflexivity|].
    destruct (str_eqb (nm c) n); [reflexivity|exact IH].
  Qed.

  Lemma has_name_false n (l : list A) : has_name nm n l = false <-> ~ In n (map nm l).
  Proof.
    unfold has_name. induction l as [|c l IH]; cbn.
    - split; [intros _ []|reflexivity].
    - destruct (str_eqb (nm c) n) eqn:E; cbn.
      + split; [discriminate|]. intro H. exfalso. apply H. left. apply str_eqb_spec. exact E.
      + rewrite IH. apply str_eqb_false in E. split.
        * intros H [H1|H1]; [contradiction|contradiction].
        * intros H H1. apply H. right. exact H1.
  Qed.

  Lemma find_by_some n (l : list A) c : find_by nm n l = Some c -> In c l /\ nm c = n.
  Proof.
    unfold find_by. intro H. apply find_some in H. destruct H as [H1 H2].
    apply str_eqb_spec in H2. split; assumption.
  Qed.

  Lemma find_by_none n (l : list A) : find_by nm n l = None <-> ~ In n (map nm l).
  Proof.
    rewrite <- has_name_false, has_name_find. destruct (find_by nm n l); cbn; split; congruence.
  Qed.

  (* with unique names, the declaration found under a name is the one that carries it *)
  Lemma find_by_unique (l : list A) c : NoDup (map nm l) -> In c l -> find_by nm (nm c) l = Some c.
  Proof.
    unfold find_by. induction l as [|d l IH]; cbn; intros ND HI; [contradiction|].
    inversion ND as [|x xs Hnot ND']; subst.
    destruct HI as [HI|HI].
    - subst. rewrite str_eqb_refl. reflexivity.
    - destruct (str_eqb (nm d) (nm c)) eqn:E.
      + apply str_eqb_spec in E. exfalso. apply Hnot. rewrite E. apply in_map. exact HI.
      + apply IH; assumption.
  Qed.

  Lemma merge_cons hp v lp : merge nm hp (v :: lp) = merge nm (merge_step nm hp v) lp.
  Proof. reflexivity. Qed.

  (* which declaration decides a name after a merge: the higher-priority list if it has one *)
  Lemma merge_find : forall lp hp n,
    find_by nm n (merge nm hp lp) =
    match find_by nm n hp with Some c => Some c | None => find_by nm n lp end.
  Proof.
    induction lp as [|v lp IH]; intros hp n.
    - unfold merge. cbn [fold_left]. destruct (find_by nm n hp); reflexivity.
    - rewrite merge_cons, IH. unfold merge_step.
      destruct (has_name nm (nm v) hp) eqn:H.
      + destruct (find_by nm n hp) eqn:F; [reflexivity|].
        unfold find_by at 2. cbn [find]. fold (find_by nm n lp).
        destruct (str_eqb (nm v) n) eqn:E; [|reflexivity].
        apply str_eqb_spec in E. subst. rewrite has_name_find, F in H. discriminate.
      + rewrite find_by_app. destruct (find_by nm n hp) eqn:F; [reflexivity|].
        unfold find_by at 1 3. cbn [find]. fold (find_by nm n lp).
        destruct (str_eqb (nm v) n); reflexivity.
  Qed.

  Lemma merge_step_nodup acc v : NoDup (map nm acc) -> NoDup (map nm (merge_step nm acc v)).
  Proof.
    intro ND. unfold merge_step. destruct (has_name nm (nm v) acc) eqn:H; [exact ND|].
    rewrite map_app. cbn. apply nodup_app_intro; [exact ND|constructor; [intros []|constructor]|].
    intros x Hx [Hy|[]]. subst. apply has_name_false in H. contradiction.
  Qed.

  (* names stay pairwise different when the higher-priority list has no duplicates *)
  Lemma merge_nodup : forall lp hp, NoDup (map nm hp) -> NoDup (map nm (merge nm hp lp)).
  Proof.
    induction lp as [|v lp IH]; intros hp ND; [exact ND|].
    rewrite merge_cons. apply IH. apply merge_step_nodup. exact ND.
  Qed.

  Lemma merge_In : forall lp hp c, In c (merge nm hp lp) -> In c hp \/ In c lp.
  Proof.
    induction lp as [|v lp IH]; intros hp c H; [left; exact H|].
    rewrite merge_cons in H. apply IH in H. destruct H as [H|H]; [|right; right; exact H].
    unfold merge_step in H. destruct (has_name nm (nm v) hp); [left; exact H|].
    apply in_app_or in H. destruct H as [H|[H|[]]]; [left; exact H|right; left; exact H].
  Qed.

  (* the higher-priority list is kept as it is, in front *)
  Lemma merge_keeps_hp : forall lp hp, exists rest, merge nm hp lp = hp ++ rest.
  Proof.
    induction lp as [|v lp IH]; intros hp; [exists []; symmetry; apply app_nil_r|].
    rewrite merge_cons. destruct (IH (merge_step nm hp v)) as [rest E]. rewrite E.
    unfold merge_step. destruct (has_name nm (nm v) hp); [exists rest; reflexivity|].
    exists ([v] ++ rest). rewrite app_assoc. reflexivity.
  Qed.

  Lemma collect_find n : forall chain, find_by nm n (collect nm chain) = nearest nm n chain.
  Proof.
    induction chain as [|l chain IH]; [reflexivity|].
    cbn [collect fold_right nearest]. fold (collect nm chain). rewrite merge_find, IH. reflexivity.
  Qed.

  Lemma collect_nodup : forall chain,
    Forall (fun l => NoDup (map nm l)) chain -> NoDup (map nm (collect nm chain)).
  Proof.
    induction chain as [|l chain IH]; intro H; [constructor|].
    cbn [collect fold_right]. apply merge_nodup. inversion H; assumption.
  Qed.
End Merge.

(* the declaration that applies to a task: nearest role, else the task template *)
Lemma w_in_decl w n :
  find_by i_name n (w_in w) =
  match nearest i_name n (w_binds w) with
  | Some c => Some c
  | None => find_by i_name n (w_cbind w)
  end.
Proof. unfold w_in. rewrite merge_find, collect_find. reflexivity. Qed.

Lemma find_by_map_clear n l :
  find_by o_name n (map clear_target l) = option_map clear_target (find_by o_name n l).
Proof.
  unfold find_by. induction l as [|c l IH]; cbn; [reflexivity|].
  destruct (str_eqb (o_name c) n); [reflexivity|exact IH].
Qed.

Lemma w_out_decl w n :
  find_by o_name n (w_out w) =
  match nearest o_name n (w_conns w) with
  | Some c => Some c
  | None => option_map clear_target (find_by o_name n (w_cconn w))
  end.
Proof. unfold w_out. rewrite merge_find, collect_find, find_by_map_clear. reflexivity. Qed.

Lemma w_in_nodup w :
  Forall (fun l => NoDup (map i_name l)) (w_binds w) -> NoDup (map i_name (w_in w)).
Proof. intro H. unfold w_in. apply merge_nodup, collect_nodup, H. Qed.

Lemma w_out_nodup w :
  Forall (fun l => NoDup (map o_name l)) (w_conns w) -> NoDup (map o_name (w_out w)).
Proof. intro H. unfold w_out. apply merge_nodup, collect_nodup, H. Qed.

(* ====================================================================================== *)
(* the task's local bind map                                                               *)
(* ====================================================================================== *)
(* channel [c] writes key [k] *)
Definition sets_key (c : inbound) (k : str) : Prop :=
  k = i_name c \/ (i_global c <> [] /\ k = alias_key (i_global c)).

Lemma nonempty_true {A} (l : list A) : nonempty l = true <-> l <> [].
Proof. destruct l; cbn; split; congruence. Qed.

Lemma local_step_sets c a m k : sets_key c k -> assoc k (local_step c a m) = Some (mk_ep c a).
Proof.
  intros [H|[H1 H2]]; unfold local_step; subst.
  - destruct (nonempty (i_global c)).
    + destruct (str_eqb (i_name c) (alias_key (i_global c))) eqn:E.
      * apply str_eqb_spec in E. rewrite E. apply assoc_set_same.
      * apply str_eqb_false in E. rewrite assoc_set_other by congruence. apply assoc_set_same.
    + apply assoc_set_same.
  - apply nonempty_true in H1. rewrite H1. apply assoc_set_same.
Qed.

Lemma local_step_other c a m k : ~ sets_key c k -> assoc k (local_step c a m) = assoc k m.
Proof.
  intro H. unfold local_step.
  assert (k <> i_name c) as N1. { intro E. apply H. left. exact E. }
  destruct (nonempty (i_global c)) eqn:G.
  - assert (k <> alias_key (i_global c)) as N2.
    { intro E. apply H. right. split; [apply nonempty_true, G|exact E]. }
    rewrite !assoc_set_other by congruence. reflexivity.
  - rewrite assoc_set_other by congruence. reflexivity.
Qed.

Lemma sets_key_dec c k : sets_key c k \/ ~ sets_key c k.
Proof.
  unfold sets_key. destruct (str_eqb k (i_name c)) eqn:E1.
  - left. left. apply str_eqb_spec. exact E1.
  - apply str_eqb_false in E1. destruct (i_global c) as [|x g] eqn:G.
    + right. intros [H|[H _]]; congruence.
    + destruct (str_eqb k (alias_key (x :: g))) eqn:E2.
      * left. right. split; [congruence|apply str_eqb_spec; exact E2].
      * apply str_eqb_false in E2. right. intros [H|[_ H]]; congruence.
Qed.

Lemma local_from_other : forall chs j al m k,
  (forall c, In c chs -> ~ sets_key c k) -> assoc k (local_from chs j al m) = assoc k m.
Proof.
  induction chs as [|c chs IH]; intros j al m k H; [reflexivity|].
  cbn [local_from]. rewrite IH.
  - apply local_step_other. apply H. left. reflexivity.
  - intros c' Hc'. apply H. right. exact Hc'.
Qed.

Lemma local_from_app : forall l1 l2 j al m,
  local_from (l1 ++ l2) j al m = local_from l2 (j + length l1)%nat al (local_from l1 j al m).
Proof.
  induction l1 as [|c l1 IH]; intros l2 j al m; cbn [app local_from length].
  - rewrite Nat.add_0_r. reflexivity.
  - rewrite IH. f_equal. lia.
Qed.

(* the entry found under a key is the endpoint of the last channel that writes the key *)
Lemma local_from_last pre c post j al m k :
  sets_key c k -> (forall c', In c' post -> ~ sets_key c' k) ->
  assoc k (local_from (pre ++ c :: post) j al m) = Some (mk_ep c (al (j + length pre)%nat)).
Proof.
  intros Hs Hp. rewrite local_from_app. cbn [local_from].
  rewrite local_from_other by exact Hp. apply local_step_sets, Hs.
Qed.

(* every entry comes from a channel of the list *)
Lemma local_from_inv : forall chs j al m k ep,
  assoc k (local_from chs j al m) = Some ep ->
  assoc k m = Some ep \/
  exists i c, nth_error chs i = Some c /\ sets_key c k /\ ep = mk_ep c (al (j + i)%nat).
Proof.
  induction chs as [|c chs IH]; intros j al m k ep H; [left; exact H|].
  cbn [local_from] in H. apply IH in H. destruct H as [H|(i & c' & H1 & H2 & H3)].
  - destruct (sets_key_dec c k) as [S|S].
    + rewrite (local_step_sets c (al j) m k S) in H. inversion H; subst.
      right. exists 0%nat, c. rewrite Nat.add_0_r. split; [reflexivity|]. split; [exact S|reflexivity].
    + rewrite local_step_other in H by exact S. left. exact H.
  - right. exists (S i), c'. cbn [nth_error]. split; [exact H1|]. split; [exact H2|].
    rewrite H3. f_equal. f_equal. lia.
Qed.

Lemma local_bindmap_inv chs al k ep :
  assoc k (local_bindmap chs al) = Some ep ->
  exists i c, nth_error chs i = Some c /\ sets_key c k /\ ep = mk_ep c (al i).
Proof.
  intro H. apply local_from_inv in H. destruct H as [H|H]; [discriminate|exact H].
Qed.

Lemma local_step_nodup c a m : NoDup (map fst m) -> NoDup (map fst (local_step c a m)).
Proof.
  intro ND. unfold local_step. destruct (nonempty (i_global c)); repeat apply set_nodup; exact ND.
Qed.

Lemma local_from_nodup : forall chs j al m, NoDup (map fst m) -> NoDup (map fst (local_from chs j al m)).
Proof.
  induction chs as [|c chs IH]; intros j al m ND; [exact ND|].
  cbn [local_from]. apply IH, local_step_nodup, ND.
Qed.

Lemma local_bindmap_nodup chs al : NoDup (map fst (local_bindmap chs al)).
Proof. apply local_from_nodup. constructor. Qed.

Lemma nth_error_split {A} (l : list A) i c :
  nth_error l i = Some c -> exists pre post, l = pre ++ c :: post /\ length pre = i.
Proof.
  revert i. induction l as [|x l IH]; intros [|i] H; cbn in H; try discriminate.
  - inversion H; subst. exists [], l. split; reflexivity.
  - destruct (IH i H) as (pre & post & E & L). exists (x :: pre), post. subst. split; reflexivity.
Qed.

(* with unique, alias-free names every inbound channel has its own entry under its name *)
Lemma local_bindmap_name chs al i c :
  NoDup (map i_name chs) -> (forall c', In c' chs -> is_alias_key (i_name c') = false) ->
  nth_error chs i = Some c ->
  assoc (i_name c) (local_bindmap chs al) = Some (mk_ep c (al i)).
Proof.
  intros ND PL H. destruct (nth_error_split _ _ _ H) as (pre & post & E & L). subst chs.
  unfold local_bindmap. rewrite (local_from_last pre c post 0 al [] (i_name c)).
  - cbn. rewrite L. reflexivity.
  - left. reflexivity.
  - intros c' Hc' [S|[_ S]].
    + rewrite map_app in ND. cbn in ND. apply NoDup_remove_2 in ND. apply ND.
      apply in_or_app. right. rewrite S. apply in_map. exact Hc'.
    + assert (is_alias_key (i_name c) = false) as P. { apply PL. apply in_or_app. right. left. reflexivity. }
      rewrite S, alias_key_is_alias in P. discriminate.
Qed.

(* an alias entry is the endpoint of the last channel that claims the alias *)
Lemma local_bindmap_alias pre c post al :
  (forall c', In c' (pre ++ c :: post) -> is_alias_key (i_name c') = false) ->
  i_global c <> [] -> (forall c', In c' post -> i_global c' <> i_global c) ->
  assoc (alias_key (i_global c)) (local_bindmap (pre ++ c :: post) al) = Some (mk_ep c (al (length pre))).
Proof.
  intros PL G Hp. unfold local_bindmap.
  rewrite (local_from_last pre c post 0 al [] (alias_key (i_global c))).
  - reflexivity.
  - right. split; [exact G|reflexivity].
  - intros c' Hc' [S|[_ S]].
    + assert (is_alias_key (i_name c') = false) as P. { apply PL. apply in_or_app. right. right. exact Hc'. }
      rewrite <- S, alias_key_is_alias in P. discriminate.
    + apply alias_key_inj in S. apply (Hp c' Hc'). congruence.
Qed.
