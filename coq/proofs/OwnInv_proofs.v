(* Invariants of the reachable states of model/Teardown.v and the step-level facts behind the
   theorems of C04 and C06. *)
From Coq Require Import FinFun.
From Verif Require Import Gen_AcqRoster Common Ownership Ownership_proofs Teardown Teardown_proofs OwnSpec.
Open Scope N_scope.

(* ------------------------------------------------------------------ what a request for [e] may do to the listing *)
Definition keeps_shape (f : env -> env) : Prop :=
  forall x, e_id (f x) = e_id x /\ e_roles (f x) = e_roles x /\ e_bound (f x) = e_bound x /\ e_dets (f x) = e_dets x.

Inductive lmoves (e : N) : list env -> list env -> Prop :=
| lm_refl l : lmoves e l l
| lm_upd l l' f : lmoves e l l' -> keeps_shape f -> lmoves e l (upd_env e f l')
| lm_rem l l' : lmoves e l l' -> lmoves e l (remove_env e l').

Lemma lmoves_trans e a b c : lmoves e a b -> lmoves e b c -> lmoves e a c.
Proof. intros H1 H2. induction H2; try (constructor; auto); auto. Qed.

Lemma keeps_estate s : keeps_shape (set_estate s).
Proof. intro x. cbn. auto. Qed.
Lemma keeps_pend p : keeps_shape (set_pend p).
Proof. intro x. cbn. auto. Qed.
Lemma keeps_add n : keeps_shape (add_pend n).
Proof. intro x. cbn. auto. Qed.
Lemma keeps_leave st : keeps_shape (leave_upd st).
Proof. intro x. cbn. auto. Qed.
Lemma keeps_comp f g : keeps_shape f -> keeps_shape g -> keeps_shape (fun y => f (g y)).
Proof.
  intros Hf Hg x. destruct (Hf (g x)) as [A1 [A2 [A3 A4]]]. destruct (Hg x) as [B1 [B2 [B3 B4]]].
  repeat split; congruence.
Qed.
Lemma keeps_goerr : keeps_shape (fun y => set_estate ES_ERROR (if N.leb (e_state y) ES_RUNNING then leave_upd (e_state y) y else y)).
Proof. intro x. destruct (N.leb (e_state x) ES_RUNNING); cbn; auto. Qed.

Lemma lmoves_kept e l l' : lmoves e l l' -> envs_kept e l l'.
Proof.
  induction 1 as [l|l l' f H IH Hf|l l' H IH].
  - apply envs_kept_refl.
  - eapply envs_kept_trans; [exact IH|apply envs_kept_upd].
  - eapply envs_kept_trans; [exact IH|apply envs_kept_remove].
Qed.

(* every entry of the result stems from an entry of the same id, roles, binding and detectors,
   and is that very entry unless its id is [e] *)
Lemma lmoves_origin e l l' :
  lmoves e l l' -> forall x', In x' l' ->
  exists x, In x l /\ e_id x = e_id x' /\ e_roles x = e_roles x' /\ e_bound x = e_bound x' /\
            e_dets x = e_dets x' /\ (e_id x' <> e -> x' = x).
Proof.
  induction 1 as [l|l l' f H IH Hf|l l' H IH]; intros x' Hin.
  - exists x'. repeat split; auto.
  - unfold upd_env in Hin. apply in_map_iff in Hin. destruct Hin as [y [Ey Hy]].
    destruct (IH y Hy) as [x [H1 [H2 [H3 [H4 [H5 H6]]]]]].
    destruct (N.eqb (e_id y) e) eqn:E.
    + subst x'. destruct (Hf y) as [F1 [F2 [F3 F4]]]. exists x. repeat split; try congruence.
      intro Hne. apply N.eqb_eq in E. congruence.
    + subst x'. exists x. repeat split; auto.
  - unfold remove_env in Hin. apply filter_In in Hin. destruct Hin as [Hin _]. apply IH, Hin.
Qed.

Lemma map_id_upd e f l : keeps_shape f -> map e_id (upd_env e f l) = map e_id l.
Proof.
  intro Hf. unfold upd_env. rewrite map_map. apply map_ext. intro x.
  destruct (N.eqb (e_id x) e); [apply Hf|reflexivity].
Qed.

Lemma nodup_filter_map {A B} (f : A -> B) (p : A -> bool) l :
  NoDup (map f l) -> NoDup (map f (filter p l)).
Proof.
  induction l as [|a l IH]; cbn [map filter]; [auto|].
  intro H. inversion H as [|y m Hnin Hnd]; subst.
  destruct (p a); cbn [map]; [|apply IH, Hnd].
  constructor; [|apply IH, Hnd].
  intro Hin. apply Hnin. apply in_map_iff in Hin. destruct Hin as [z [Ez Hz]].
  apply filter_In in Hz. apply in_map_iff. exists z. tauto.
Qed.

Lemma lmoves_nodup e l l' : lmoves e l l' -> NoDup (map e_id l) -> NoDup (map e_id l').
Proof.
  induction 1 as [l|l l' f H IH Hf|l l' H IH]; intro Hnd; auto.
  - rewrite map_id_upd by exact Hf. auto.
  - unfold remove_env. apply nodup_filter_map. auto.
Qed.

(* ------------------------------------------------------------------ one request, seen from its environment *)
Definition good (e : N) (s s' : st) (ks : list tid) : Prop :=
  emoves e (s_roster s) (s_roster s') /\
  lmoves e (s_envs s) (s_envs s') /\
  s_snaps s' = s_snaps s /\
  (forall k, In k ks -> touched e (s_roster s) k).

Lemma good_refl e s : good e s s [].
Proof. repeat split; try constructor. intros k []. Qed.

Lemma good_trans e s s1 s2 k1 k2 : good e s s1 k1 -> good e s1 s2 k2 -> good e s s2 (k1 ++ k2).
Proof.
  intros [A1 [B1 [C1 D1]]] [A2 [B2 [C2 D2]]]. repeat split.
  - eapply emoves_trans; eauto.
  - eapply lmoves_trans; eauto.
  - congruence.
  - intros k Hk. apply in_app_or in Hk. destruct Hk as [Hk|Hk]; [auto|].
    eapply touched_mono; eauto.
Qed.

Lemma good_weaken e s s' k k' : good e s s' k -> (forall x, In x k' -> In x k) -> good e s s' k'.
Proof. intros [A [B [C D]]] H. repeat split; auto. Qed.

(* ------------------------------------------------------------------ the invariant *)


Lemma inv_st0 : inv st0.
Proof. constructor; cbn; try constructor; intros; contradiction. Qed.

Lemma emoves_ids e r r' : emoves e r r' -> forall t', In t' r' -> In (t_id t') (map t_id r).
Proof.
  intros H t' Hin. destruct (emoves_origin e r r' H t' Hin) as [t [H1 [H2 _]]].
  rewrite <- H2. apply in_map, H1.
Qed.

Lemma bound_tids_shape x x' :
  e_id x = e_id x' -> e_roles x = e_roles x' -> e_bound x = e_bound x' -> bound_tids x = bound_tids x'.
Proof. intros H1 H2 H3. unfold bound_tids, task_iroles. rewrite H1, H2, H3. reflexivity. Qed.

Lemma good_inv e s s' ks : inv s -> good e s s' ks -> inv s'.
Proof.
  intros I [A [B [C D]]]. constructor.
  - eapply emoves_nodup; eauto. apply I.
  - intros t' e' Hin Ho. destruct (emoves_origin e _ _ A t' Hin) as [t [H1 [H2 [_ H3]]]].
    rewrite <- H2. destruct H3 as [H3|H3]; [|congruence].
    eapply inv_owner; eauto. congruence.
  - intros p t' Hp Hin. rewrite C in Hp.
    apply (emoves_ids e _ _ A) in Hin. apply in_map_iff in Hin. destruct Hin as [t [Et Ht]].
    rewrite <- Et. eapply inv_snap_r; eauto.
  - intros p x' Hp Hin. rewrite C in Hp.
    destruct (lmoves_origin e _ _ B x' Hin) as [x [H1 [H2 _]]]. rewrite <- H2.
    eapply inv_snap_e; eauto.
  - eapply lmoves_nodup; eauto. apply I.
  - intros x' t' Hx Ht Ho.
    destruct (lmoves_origin e _ _ B x' Hx) as [x [H1 [H2 [H3 [H4 _]]]]].
    destruct (emoves_origin e _ _ A t' Ht) as [t [T1 [T2 [_ T3]]]].
    destruct T3 as [T3|T3]; [|congruence].
    rewrite <- T2. rewrite <- (bound_tids_shape x x') by assumption.
    eapply inv_bound; eauto. congruence.
Qed.

(* ------------------------------------------------------------------ the requests are good moves *)
Definition ks (u : out) : list tid := o_kills u ++ o_cmds u.

Lemma ks_out_seq a b k : In k (ks (out_seq a b)) -> In k (ks a ++ ks b).
Proof.
  unfold ks, out_seq. cbn [o_kills o_cmds]. rewrite !in_app_iff. tauto.
Qed.

Lemma good_mk e s r' l' k :
  emoves e (s_roster s) r' -> lmoves e (s_envs s) l' ->
  (forall x, In x k -> touched e (s_roster s) x) ->
  good e s (mkSt l' r' (s_snaps s)) k.
Proof. intros A B D. repeat split; auto. Qed.

Lemma good_seq e s s1 s2 u1 u2 :
  good e s s1 (ks u1) -> good e s1 s2 (ks u2) -> good e s s2 (ks (out_seq u1 u2)).
Proof.
  intros H1 H2. eapply good_weaken; [eapply good_trans; eauto|].
  intros k Hk. apply ks_out_seq, Hk.
Qed.

Lemma teardown_good2 force e s : good e s (td_st (teardown force e s)) [].
Proof.
  unfold teardown.
  destruct (find_env e (s_envs s)) as [x|]; cbn [td_st]; [|apply good_refl].
  destruct (N.eqb (e_state x) ES_DONE); cbn [td_st]; [apply good_refl|].
  destruct (negb force && negb (N.eqb (e_state x) ES_STANDBY || N.eqb (e_state x) ES_DEPLOYED)); cbn [td_st];
    [apply good_refl|].
  set (groups := merged x).
  set (torelease := filter _ (bound_tids x)).
  destruct (release e torelease (s_roster s)) as [r1 n1] eqn:E1.
  assert (M1 : emoves e (s_roster s) r1).
  { replace r1 with (fst (release e torelease (s_roster s))) by (rewrite E1; reflexivity).
    constructor. constructor. }
  destruct (negb (N.eqb n1 0)); cbn [td_st].
  { apply good_mk; [exact M1|constructor; [constructor|apply keeps_add]|intros k []]. }
  set (lastmsg := flat_map (group_tasks e) groups).
  destruct (release e lastmsg r1) as [r2 n2] eqn:E2.
  assert (M2 : emoves e (s_roster s) r2).
  { replace r2 with (fst (release e lastmsg r1)) by (rewrite E2; reflexivity).
    constructor. exact M1. }
  destruct (negb (N.eqb n2 0)); cbn [td_st].
  - apply good_mk; [exact M2|constructor; [constructor|apply keeps_pend]|intros k []].
  - apply good_mk; [exact M2|constructor; constructor|intros k []].
Qed.

Lemma transition_spec x dst fail r r' tg ok :
  transition x dst fail r = (r', tg, ok) ->
  emoves (e_id x) r r' /\ forall k, In k tg -> touched (e_id x) r k.
Proof.
  unfold transition. intro H. inversion H; subst. split.
  - constructor. constructor.
  - intros k Hk. eapply active_owned_touched. exact Hk.
Qed.

Lemma go_error_good e s s' rc : go_error e s = (s', rc) -> good e s s' [].
Proof.
  unfold go_error. destruct (find_env e (s_envs s)); intro H; inversion H; subst.
  - unfold with_envs. apply good_mk; [constructor|constructor; [constructor|apply keeps_goerr]|intros k []].
  - apply good_refl.
Qed.

Lemma find_env_id e l x : find_env e l = Some x -> e_id x = e.
Proof. intro H. apply find_env_In in H. apply H. Qed.

Lemma control_good e ev fail s s' u : control e ev fail s = (s', u) -> good e s s' (ks u).
Proof.
  unfold control. destruct (find_env e (s_envs s)) as [x|] eqn:Ef.
  2:{ intro H; inversion H; subst. apply good_refl. }
  pose proof (find_env_id _ _ _ Ef) as Ex.
  destruct (ev_src_dst ev) as [[[src dst] tdst]|].
  2:{ intro H; inversion H; subst. apply good_refl. }
  destruct (negb (N.eqb (e_state x) src)).
  { destruct (go_error e s) as [s1 rc] eqn:Eg. intro H; inversion H; subst.
    eapply go_error_good; eauto. }
  destruct (transition x tdst fail (s_roster s)) as [[r' tg] ok] eqn:Et.
  apply transition_spec in Et. rewrite Ex in Et. destruct Et as [Em Etg].
  set (pend' := e_pend x + _ + _).
  destruct ok.
  - intro H; inversion H; subst. unfold ks; cbn [o_kills o_cmds app with_envs s_envs s_snaps].
    apply good_mk; [exact Em| |exact Etg].
    constructor; [constructor; [constructor|apply keeps_pend]|apply keeps_estate].
  - destruct (go_error e _) as [s2 rc] eqn:Eg. intro H; inversion H; subst.
    apply go_error_good in Eg. unfold ks; cbn [o_kills o_cmds app].
    replace tg with (tg ++ []) by apply app_nil_r.
    eapply good_trans; [|exact Eg].
    unfold with_roster, with_envs; cbn [s_envs s_snaps s_roster].
    apply good_mk; [exact Em| |exact Etg].
    constructor; [constructor|apply keeps_pend].
Qed.

Lemma dtc_good force keep x s s' u : dtc force keep x s = (s', u) -> good (e_id x) s s' (ks u).
Proof.
  unfold dtc. set (e := e_id x).
  set (t1 := teardown force e s).
  set (t := if td_ok t1 || force then t1 else _).
  assert (G : good e s (td_st t) []).
  { subst t. destruct (td_ok t1 || force); [apply teardown_good2|]. cbn [td_st].
    change (@nil tid) with (@nil tid ++ []). eapply good_trans; apply teardown_good2. }
  destruct (negb (td_ok t)).
  { intro H; inversion H; subst. exact G. }
  destruct keep.
  { intro H; inversion H; subst. exact G. }
  destruct (match bound_tids x with [] => cleanup (s_roster (td_st t)) | _ :: _ => _ end) as [r' k] eqn:Ek.
  intro H; inversion H; subst. unfold ks; cbn [o_kills o_cmds]. rewrite app_nil_r.
  change k with ([] ++ k). eapply good_trans; [exact G|].
  unfold with_roster. destruct (bound_tids x) as [|i ids].
  - apply good_mk; [|constructor|].
    + replace r' with (fst (cleanup (s_roster (td_st t)))) by (rewrite Ek; reflexivity). constructor. constructor.
    + intros y Hy. apply cleanup_touched. rewrite Ek. exact Hy.
  - apply good_mk; [|constructor|].
    + replace r' with (fst (kill_tasks (i :: ids) (s_roster (td_st t)))) by (rewrite Ek; reflexivity).
      constructor. constructor.
    + intros y Hy. eapply kill_touched. rewrite Ek. exact Hy.
Qed.

Lemma destroy_tail_good e x keep s s1 o1 go_on tf s' u :
  e_id x = e -> good e s s1 (ks o1) ->
  destroy_tail e x keep s1 o1 go_on tf = (s', u) -> good e s s' (ks u).
Proof.
  intros Ex G1. unfold destroy_tail.
  destruct (negb go_on).
  { destruct (dtc true false x s1) as [s2 o2] eqn:Ed. intro H; injection H as <- <-.
    apply dtc_good in Ed. rewrite Ex in Ed. eapply good_seq; eauto. }
  destruct (find_env e (s_envs s1)) as [x1|] eqn:Ef1.
  2:{ intro H; injection H as <- <-. eapply good_weaken; [exact G1|]. intros k []. }
  pose proof (find_env_id _ _ _ Ef1) as Ex1. cbv zeta.
  destruct (negb (N.eqb (e_state x1) ES_CONFIGURED || N.eqb (e_state x1) ES_DEPLOYED || N.eqb (e_state x1) ES_STANDBY)).
  { destruct (dtc true false x s1) as [s2 o2] eqn:Ed. intro H; injection H as <- <-.
    apply dtc_good in Ed. rewrite Ex in Ed. eapply good_seq; eauto. }
  destruct (N.eqb (e_state x1) ES_CONFIGURED).
  2:{ destruct (dtc false keep x s1) as [s3 o3] eqn:Ed. intro H; injection H as <- <-.
      apply dtc_good in Ed. rewrite Ex in Ed. eapply good_seq; eauto. }
  destruct (transition x1 TS_STANDBY tf (s_roster s1)) as [[r' tg] ok] eqn:Et.
  apply transition_spec in Et. rewrite Ex1 in Et. destruct Et as [Em Etg].
  assert (G2 : forall l', lmoves e (s_envs s1) l' ->
               good e s (mkSt l' r' (s_snaps s1)) (ks (out_seq o1 (mkOut 0 [] tg [] [] 0 [])))).
  { intros l' Hl. eapply good_seq; [exact G1|].
    unfold ks; cbn [o_kills o_cmds app]. apply good_mk; auto. }
  destruct ok.
  - destruct (dtc false keep x _) as [s3 o3] eqn:Ed. intro H; injection H as <- <-.
    apply dtc_good in Ed. rewrite Ex in Ed. eapply good_seq; [|exact Ed].
    apply G2. constructor; [constructor|]. apply keeps_comp; [apply keeps_estate|apply keeps_leave].
  - destruct (dtc true false x _) as [s3 o3] eqn:Ed. intro H; injection H as <- <-.
    apply dtc_good in Ed. rewrite Ex in Ed. eapply good_seq; [|exact Ed].
    apply G2. constructor; [constructor|apply keeps_leave].
Qed.

Lemma destroy_good e force allow keep tfail s s' u :
  destroy e force allow keep tfail s = (s', u) -> good e s s' (ks u).
Proof.
  unfold destroy. destruct (find_env e (s_envs s)) as [x|] eqn:Ef.
  2:{ intro H; injection H as <- <-. apply good_refl. }
  pose proof (find_env_id _ _ _ Ef) as Ex.
  destruct force.
  { intro H. apply dtc_good in H. rewrite Ex in H. exact H. }
  destruct (allow && N.eqb (e_state x) ES_RUNNING).
  - destruct (transition x TS_CONFIGURED tfail (s_roster s)) as [[r' tg] ok] eqn:Et.
    apply transition_spec in Et. rewrite Ex in Et. destruct Et as [Em Etg].
    destruct ok; apply destroy_tail_good; auto; unfold ks; cbn [o_kills o_cmds app]; apply good_mk; auto.
    + constructor; [constructor|]. apply keeps_comp; [apply keeps_estate|apply keeps_leave].
    + constructor; [constructor|apply keeps_leave].
  - apply destroy_tail_good; auto. apply good_refl.
Qed.

(* ------------------------------------------------------------------ creation *)
Lemma usedb_false s e : usedb s e = false ->
  (forall x, In x (s_envs s) -> e_id x <> e) /\
  (forall t, In t (s_roster s) -> fst (t_id t) <> e) /\
  (forall p, In p (s_snaps s) -> fst p <> e).
Proof.
  unfold usedb. intro H. apply orb_false_iff in H. destruct H as [H H3].
  apply orb_false_iff in H. destruct H as [H1 H2].
  repeat split; intros y Hy E.
  - rewrite <- not_true_iff_false in H1. apply H1. apply existsb_exists. exists y. split; [exact Hy|apply N.eqb_eq, E].
  - rewrite <- not_true_iff_false in H2. apply H2. apply existsb_exists. exists y. split; [exact Hy|apply N.eqb_eq, E].
  - rewrite <- not_true_iff_false in H3. apply H3. apply existsb_exists. exists y. split; [exact Hy|apply N.eqb_eq, E].
Qed.

Lemma assocN_In {V} k (l : list (N * V)) v : assocN k l = Some v -> In (k, v) l.
Proof.
  induction l as [|[a b] l IH]; cbn [assocN]; [discriminate|].
  destruct (N.eqb k a) eqn:E.
  - intro H. inversion H; subst. apply N.eqb_eq in E. subst. left. reflexivity.
  - intro H. right. apply IH, H.
Qed.

Lemma remove_snap_In e l p : In p (remove_snap e l) -> In p l /\ fst p <> e.
Proof.
  unfold remove_snap. intro H. apply filter_In in H. destruct H as [H1 H2].
  split; [exact H1|]. apply negb_true_iff in H2. apply N.eqb_neq, H2.
Qed.

Lemma index_from_lb {A} i (l : list A) p : In p (index_from i l) -> i <= fst p.
Proof.
  revert i. induction l as [|a l IH]; intros i; cbn [index_from In]; [tauto|].
  intros [<-|H]; [cbn; lia|]. apply IH in H. lia.
Qed.

Lemma index_from_nodup {A} i (l : list A) : NoDup (map fst (index_from i l)).
Proof.
  revert i. induction l as [|a l IH]; intros i; cbn [index_from map]; constructor; [|apply IH].
  intro H. apply in_map_iff in H. destruct H as [p [Ep Hp]]. apply index_from_lb in Hp.
  cbn [fst] in Ep. lia.
Qed.

Lemma bound_tids_fst x id : In id (bound_tids x) -> fst id = e_id x.
Proof.
  unfold bound_tids. destruct (e_bound x); [|intros []].
  intro H. apply in_map_iff in H. destruct H as [ir [E _]]. subst. reflexivity.
Qed.

Lemma bound_tids_nodup x : NoDup (bound_tids x).
Proof.
  unfold bound_tids. destruct (e_bound x); [|constructor].
  rewrite <- (map_map fst (fun i => tid_of (e_id x) i)).
  apply FinFun.Injective_map_NoDup.
  - intros a b E. unfold tid_of in E. inversion E. reflexivity.
  - unfold task_iroles, iroles. apply nodup_filter_map. apply index_from_nodup.
Qed.

Lemma nodup_app {A} (a b : list A) :
  NoDup a -> NoDup b -> (forall x, In x a -> In x b -> False) -> NoDup (a ++ b).
Proof.
  induction a as [|x a IH]; cbn [app]; intros Ha Hb Hd; [exact Hb|].
  inversion Ha as [|y m Hnin Hnd]; subst. constructor.
  - rewrite in_app_iff. intros [H|H]; [contradiction|]. apply (Hd x); [left; reflexivity|exact H].
  - apply IH; auto. intros z Hz1 Hz2. apply (Hd z); [right; exact Hz1|exact Hz2].
Qed.

Lemma index_from_ub {A} i (l : list A) p : In p (index_from i l) -> fst p < i + Nlen l.
Proof.
  revert i. induction l as [|a l IH]; intros i; cbn [index_from In]; [tauto|].
  unfold Nlen. cbn [length]. rewrite Nat2N.inj_succ.
  intros [<-|H]; [cbn; lia|]. apply IH in H. unfold Nlen in H. lia.
Qed.

(* the tasks of different deployment attempts have different names *)
Lemma att_nodup e n (trs : list (N * role)) (la : list N) :
  NoDup la -> NoDup (map fst trs) -> (forall ir, In ir trs -> fst ir < n) ->
  NoDup (map t_id (flat_map (fun a => map (att_task e n a) trs) la)).
Proof.
  intros Hla Htr Hub. induction la as [|a la IH]; cbn [flat_map map]; [constructor|].
  inversion Hla as [|y m Hnin Hnd']; subst. rewrite map_app. apply nodup_app.
  - rewrite map_map.
    rewrite (map_ext _ (fun ir : N * role => tid_of e (fst ir + a * n))) by (intro; reflexivity).
    rewrite <- (map_map fst (fun i => tid_of e (i + a * n))).
    apply FinFun.Injective_map_NoDup; [|exact Htr].
    intros x y E. unfold tid_of in E. injection E as E. lia.
  - apply IH, Hnd'.
  - intros k H1 H2. apply in_map_iff in H1. destruct H1 as [t1 [E1 T1]].
    apply in_map_iff in T1. destruct T1 as [ir1 [<- I1]].
    apply in_map_iff in H2. destruct H2 as [t2 [E2 T2]].
    apply in_flat_map in T2. destruct T2 as [a2 [A2 T2]].
    apply in_map_iff in T2. destruct T2 as [ir2 [<- I2]].
    cbn [att_task t_id] in E1, E2. subst k. unfold att_id, tid_of in E2. injection E2 as E2.
    assert (a2 <> a) by (intro; subst; contradiction).
    pose proof (Hub ir1 I1). pose proof (Hub ir2 I2). nia.
Qed.

(* the state right after the environment was inserted and its tasks were launched *)
Lemma inv_launch s e d x new :
  inv s -> In (e, d) (s_snaps s) -> e_id x = e ->
  NoDup (map t_id new) ->
  (forall t, In t new -> t_owner t = Some e /\ In (t_id t) (bound_tids x)) ->
  inv (mkSt (s_envs s ++ [x]) (s_roster s ++ new) (remove_snap e (s_snaps s))).
Proof.
  intros I Hp Ex Hnd Hnew.
  assert (Rfree : forall t, In t (s_roster s) -> fst (t_id t) <> e).
  { intros t Ht. apply (inv_snap_r s I (e, d) t Hp Ht). }
  assert (Efree : forall y, In y (s_envs s) -> e_id y <> e).
  { intros y Hy. apply (inv_snap_e s I (e, d) y Hp Hy). }
  assert (Nfst : forall t, In t new -> fst (t_id t) = e).
  { intros t Ht. destruct (Hnew t Ht) as [_ Hb]. apply bound_tids_fst in Hb. congruence. }
  constructor; cbn [s_roster s_envs s_snaps].
  - rewrite map_app. apply nodup_app; [apply I|exact Hnd|].
    intros k H1 H2. apply in_map_iff in H1. destruct H1 as [t1 [E1 T1]].
    apply in_map_iff in H2. destruct H2 as [t2 [E2 T2]].
    apply (Rfree t1 T1). rewrite E1, <- E2. apply Nfst, T2.
  - intros t e' Hin Ho. apply in_app_or in Hin. destruct Hin as [Hin|Hin].
    + eapply inv_owner; eauto.
    + destruct (Hnew t Hin) as [Ho' _]. rewrite (Nfst t Hin). congruence.
  - intros p t Hp' Hin. apply remove_snap_In in Hp'. destruct Hp' as [Hp1 Hp2].
    apply in_app_or in Hin. destruct Hin as [Hin|Hin].
    + eapply inv_snap_r; eauto.
    + rewrite (Nfst t Hin). auto.
  - intros p y Hp' Hin. apply remove_snap_In in Hp'. destruct Hp' as [Hp1 Hp2].
    apply in_app_or in Hin. destruct Hin as [Hin|[<-|[]]].
    + eapply inv_snap_e; eauto.
    + rewrite Ex. auto.
  - rewrite map_app. apply nodup_app; [apply I|cbn; constructor; [tauto|constructor]|].
    intros k H1 [<-|[]]. apply in_map_iff in H1. destruct H1 as [y [E1 Y1]].
    apply (Efree y Y1). congruence.
  - intros y t Hy Ht Ho. apply in_app_or in Hy. apply in_app_or in Ht.
    destruct Hy as [Hy|[<-|[]]], Ht as [Ht|Ht].
    + eapply inv_bound; eauto.
    + exfalso. destruct (Hnew t Ht) as [Ho' _]. apply (Efree y Hy). congruence.
    + exfalso. apply (Rfree t Ht). rewrite (inv_owner s I t _ Ht Ho). exact Ex.
    + apply Hnew, Ht.
Qed.

(* the same for launched tasks that never got a parent (a deployment that failed) *)
Lemma inv_launch_unowned s e d x new :
  inv s -> In (e, d) (s_snaps s) -> e_id x = e ->
  NoDup (map t_id new) ->
  (forall t, In t new -> t_owner t = None /\ fst (t_id t) = e) ->
  inv (mkSt (s_envs s ++ [x]) (s_roster s ++ new) (remove_snap e (s_snaps s))).
Proof.
  intros I Hp Ex Hnd Hnew.
  assert (Rfree : forall t, In t (s_roster s) -> fst (t_id t) <> e).
  { intros t Ht. apply (inv_snap_r s I (e, d) t Hp Ht). }
  assert (Efree : forall y, In y (s_envs s) -> e_id y <> e).
  { intros y Hy. apply (inv_snap_e s I (e, d) y Hp Hy). }
  constructor; cbn [s_roster s_envs s_snaps].
  - rewrite map_app. apply nodup_app; [apply I|exact Hnd|].
    intros k H1 H2. apply in_map_iff in H1. destruct H1 as [t1 [E1 T1]].
    apply in_map_iff in H2. destruct H2 as [t2 [E2 T2]].
    apply (Rfree t1 T1). rewrite E1, <- E2. apply Hnew, T2.
  - intros t e' Hin Ho. apply in_app_or in Hin. destruct Hin as [Hin|Hin].
    + eapply inv_owner; eauto.
    + destruct (Hnew t Hin) as [Ho' _]. congruence.
  - intros p t Hp' Hin. apply remove_snap_In in Hp'. destruct Hp' as [Hp1 Hp2].
    apply in_app_or in Hin. destruct Hin as [Hin|Hin].
    + eapply inv_snap_r; eauto.
    + destruct (Hnew t Hin) as [_ ->]. auto.
  - intros p y Hp' Hin. apply remove_snap_In in Hp'. destruct Hp' as [Hp1 Hp2].
    apply in_app_or in Hin. destruct Hin as [Hin|[<-|[]]].
    + eapply inv_snap_e; eauto.
    + rewrite Ex. auto.
  - rewrite map_app. apply nodup_app; [apply I|cbn; constructor; [tauto|constructor]|].
    intros k H1 [<-|[]]. apply in_map_iff in H1. destruct H1 as [y [E1 Y1]].
    apply (Efree y Y1). congruence.
  - intros y t Hy Ht Ho. apply in_app_or in Hy. apply in_app_or in Ht.
    destruct Hy as [Hy|[<-|[]]], Ht as [Ht|Ht].
    + eapply inv_bound; eauto.
    + exfalso. destruct (Hnew t Ht) as [Ho' _]. congruence.
    + exfalso. apply (Rfree t Ht). rewrite (inv_owner s I t _ Ht Ho). exact Ex.
    + exfalso. destruct (Hnew t Ht) as [Ho' _]. congruence.
Qed.

Lemma inv_remove_snap s e : inv s -> inv (mkSt (s_envs s) (s_roster s) (remove_snap e (s_snaps s))).
Proof.
  intro I. constructor; cbn [s_roster s_envs s_snaps]; try apply I.
  - intros p t Hp. apply remove_snap_In in Hp. apply (inv_snap_r s I). apply Hp.
  - intros p t Hp. apply remove_snap_In in Hp. apply (inv_snap_e s I). apply Hp.
Qed.

Lemma create_tail_good x s cmds l s' u :
  create_tail x s cmds l = (s', u) -> good (e_id x) s s' (o_kills u) /\ o_cmds u = cmds.
Proof.
  unfold create_tail. set (t := teardown true (e_id x) s).
  destruct (kill_tasks (bound_tids x) (s_roster (td_st t))) as [r' k] eqn:Ek.
  intro H; injection H as <- <-. cbn [o_kills o_cmds]. split; [|reflexivity].
  change k with ([] ++ k). eapply good_trans; [apply teardown_good2|].
  unfold with_roster. apply good_mk; [|constructor|].
  - replace r' with (fst (kill_tasks (bound_tids x) (s_roster (td_st t)))) by (rewrite Ek; reflexivity).
    constructor. constructor.
  - intros y Hy. eapply kill_touched. rewrite Ek. exact Hy.
Qed.

(* a request for [e], seen from everybody else: [new] are the tasks launched for [e] on the way *)
Definition framed (e : N) (s s' : st) (u : out) : Prop :=
  exists new,
    NoDup (map t_id (s_roster s ++ new)) /\
    emoves e (s_roster s ++ new) (s_roster s') /\
    envs_kept e (s_envs s) (s_envs s') /\
    (forall k, In k (ks u) -> touched e (s_roster s ++ new) k).

Lemma good_framed e s s' u : inv s -> good e s s' (ks u) -> framed e s s' u.
Proof.
  intros I [A [B [C D]]]. exists []. rewrite app_nil_r. repeat split; auto.
  - apply I.
  - apply lmoves_kept, B.
Qed.

(* the three frame facts themselves; they compose *)
Definition framed2 (e : N) (s s' : st) (u : out) : Prop :=
  (forall t e', In t (s_roster s) -> t_owner t = Some e' -> t_idok t = true -> e' <> e -> In t (s_roster s')) /\
  (forall k, In k (ks u) -> forall t e', In t (s_roster s) -> t_id t = k -> t_owner t = Some e' ->
                                         t_idok t = true -> e' = e) /\
  envs_kept e (s_envs s) (s_envs s').

Lemma framed_framed2 e s s' u : framed e s s' u -> framed2 e s s' u.
Proof.
  intros [new [Hnd [Hm [Hk Ht]]]]. repeat split; auto.
  - intros t e' Hin Ho Hok Hne. eapply emoves_keep; [exact Hm|apply in_or_app; left; exact Hin| |].
    + eapply locked_intro; eauto.
    + eapply owner_is_other; eauto.
  - intros k Hin t e' Ht0 Eid Ho Hok.
    eapply (touched_ok e (s_roster s ++ new) k Hnd (Ht k Hin) t e'); auto. apply in_or_app. left. exact Ht0.
Qed.

Lemma framed2_seq e s s1 s2 u1 u2 :
  framed2 e s s1 u1 -> framed2 e s1 s2 u2 -> framed2 e s s2 (out_seq u1 u2).
Proof.
  intros [A1 [B1 C1]] [A2 [B2 C2]]. repeat split.
  - intros t e' Hin Ho Hok Hne. eapply A2; eauto.
  - intros k Hk t e' Hin Eid Ho Hok. apply ks_out_seq in Hk. apply in_app_or in Hk. destruct Hk as [Hk|Hk].
    + eapply B1; eauto.
    + destruct (N.eq_dec e' e) as [|Hne]; [assumption|]. eapply B2; eauto.
  - eapply envs_kept_trans; eauto.
Qed.

Lemma framed_mid e s sm s' new u K :
  NoDup (map t_id (s_roster s ++ new)) ->
  emoves e (s_roster s ++ new) (s_roster sm) ->
  envs_kept e (s_envs s) (s_envs sm) ->
  good e sm s' K ->
  (forall k, In k (ks u) -> In k K \/ touched e (s_roster s ++ new) k) ->
  framed e s s' u.
Proof.
  intros Hnd Hm He [A [B [C D]]] Hk. exists new. repeat split; auto.
  - eapply emoves_trans; eauto.
  - eapply envs_kept_trans; [exact He|apply lmoves_kept, B].
  - intros k Hin. destruct (Hk k Hin) as [H|H]; [|exact H].
    eapply touched_mono; [exact Hm|]. apply D, H.
Qed.

Lemma launch_ids e rf l : map t_id (map (launch_task e rf) l) = map (fun ir => tid_of e (fst ir)) l.
Proof. rewrite map_map. apply map_ext. intro ir. reflexivity. Qed.

Lemma finish0_spec e c s s' u :
  inv s -> finish0 e c s = (s', u) -> inv s' /\ framed e s s' u.
Proof.
  intros I. unfold finish0.
  destruct (assocN e (s_snaps s)) as [snapdets|] eqn:Ea.
  2:{ intro H; injection H as <- <-. split; [exact I|]. apply good_framed; [exact I|apply good_refl]. }
  apply assocN_In in Ea.
  set (s0 := mkSt (s_envs s) (s_roster s) (remove_snap e (s_snaps s))).
  assert (I0 : inv s0) by (apply inv_remove_snap, I).
  assert (F0 : framed e s s0 (out_rc 1)).
  { exists []. rewrite app_nil_r. repeat split; [apply I|constructor|apply envs_kept_refl|intros k []]. }
  destruct (N.leb 1 (c_fail c) && N.leb (c_fail c) 3).
  { intro H; injection H as <- <-. auto. }
  destruct (existsb _ (c_dets c)).
  { intro H; injection H as <- <-. auto. }
  set (x0 := mkEnv e (c_dets c) ES_STANDBY (c_roles c) false 0).
  destruct (N.eqb (c_fail c) 4).
  { (* a critical role nobody can take: nothing was launched *)
    set (xe := set_estate ES_ERROR (leave_upd ES_STANDBY (leave_upd ES_STANDBY x0))).
    destruct (create_tail xe _ [] []) as [s2 u2] eqn:Ec. intro H; injection H as <- <-.
    apply create_tail_good in Ec. destruct Ec as [G Ecm]. change (e_id xe) with e in G.
    assert (Im : inv (with_envs s0 (s_envs s0 ++ [xe]))).
    { pose proof (inv_launch s e snapdets xe [] I Ea eq_refl) as L. rewrite app_nil_r in L.
      apply L; [constructor|intros t []]. }
    split; [eapply good_inv; eauto|].
    eapply (framed_mid e s _ s2 []); [rewrite app_nil_r; apply I| | |exact G|].
    - rewrite app_nil_r. constructor.
    - cbn [with_envs s_envs s0]. apply envs_kept_app.
    - intros k Hk. unfold ks in Hk. rewrite Ecm, app_nil_r in Hk. left. exact Hk. }
  destruct (N.eqb (c_fail c) 6).
  { (* partial deployment failure: the last attempt's tasks enter the roster unowned *)
    set (xe := set_estate ES_ERROR (leave_upd ES_STANDBY (leave_upd ES_STANDBY x0))).
    set (last := flat_map _ roster_attempts).
    destruct (create_tail xe _ [] _) as [s2 u2] eqn:Ec. intro H; injection H as <- <-.
    apply create_tail_good in Ec. destruct Ec as [G Ecm]. change (e_id xe) with e in G.
    assert (Hlast : forall t, In t last -> t_owner t = None /\ fst (t_id t) = e).
    { unfold last. intros t Ht. apply in_flat_map in Ht. destruct Ht as [a [_ Ht]].
      apply in_map_iff in Ht. destruct Ht as [ir [<- _]]. split; reflexivity. }
    assert (Hnd : NoDup (map t_id last)).
    { unfold last. apply att_nodup.
      - unfold roster_attempts. destruct acq_roster_retry, acq_roster_unconditional; cbn [app];
          repeat constructor; cbn; intuition discriminate.
      - unfold task_iroles, iroles. apply nodup_filter_map. apply index_from_nodup.
      - intros ir Hir. unfold task_iroles, iroles in Hir. apply filter_In in Hir. destruct Hir as [Hir _].
        apply index_from_ub in Hir. cbn [set_bound e_roles x0] in Hir. lia. }
    assert (Im : inv (mkSt (s_envs s0 ++ [xe]) (s_roster s0 ++ last) (s_snaps s0))).
    { apply (inv_launch_unowned s e snapdets xe last I Ea eq_refl Hnd Hlast). }
    split; [eapply good_inv; eauto|].
    eapply (framed_mid e s _ s2 last); [apply (inv_nodup _ Im)| | |exact G|].
    - cbn [s_roster s0]. constructor.
    - cbn [s_envs s0]. apply envs_kept_app.
    - intros k Hk. unfold ks in Hk. rewrite Ecm, app_nil_r in Hk. left. exact Hk. }
  set (x1 := set_bound x0).
  set (new := map (launch_task e (c_refuse c)) (task_iroles x1)).
  assert (Hids : map t_id new = bound_tids x1).
  { unfold new. rewrite launch_ids. reflexivity. }
  assert (Hnd : NoDup (map t_id new)) by (rewrite Hids; apply bound_tids_nodup).
  assert (Hnew : forall x, e_id x = e -> e_roles x = e_roles x1 -> e_bound x = true ->
                 forall t, In t new -> t_owner t = Some e /\ In (t_id t) (bound_tids x)).
  { intros x X1 X2 X3 t Ht. split.
    - unfold new in Ht. apply in_map_iff in Ht. destruct Ht as [ir [<- _]]. reflexivity.
    - rewrite (bound_tids_shape x x1) by (auto). rewrite <- Hids. apply in_map, Ht. }
  assert (HnewO : forall t, In t new -> t_owner t = Some e /\ fst (t_id t) = e /\ t_idok t = true).
  { intros t Ht. destruct (Hnew x1 eq_refl eq_refl eq_refl t Ht) as [H1 H2]. split; [exact H1|].
    apply bound_tids_fst in H2. split; [exact H2|].
    unfold new in Ht. apply in_map_iff in Ht. destruct Ht as [ir [<- _]]. reflexivity. }
  assert (IL : forall x, e_id x = e -> e_roles x = e_roles x1 -> e_bound x = true ->
               inv (mkSt (s_envs s ++ [x]) (s_roster s ++ new) (remove_snap e (s_snaps s)))).
  { intros x X1 X2 X3. eapply inv_launch; eauto. }
  assert (NDall : NoDup (map t_id (s_roster s ++ new))).
  { apply (inv_nodup _ (IL x1 eq_refl eq_refl eq_refl)). }
  destruct (existsb _ (c_roles c) || N.eqb (c_fail c) 5).
  { (* a task failed right after its launch / the deployment timed out *)
    set (xe := set_estate ES_ERROR (leave_upd ES_STANDBY (leave_upd ES_STANDBY x1))).
    destruct (create_tail xe _ [] _) as [s2 u2] eqn:Ec. intro H; injection H as <- <-.
    apply create_tail_good in Ec. destruct Ec as [G Ecm]. change (e_id xe) with e in G.
    split; [eapply good_inv; [|exact G]; apply (IL xe); reflexivity|].
    eapply (framed_mid e s _ s2 new); [exact NDall| | |exact G|].
    - cbn [s_roster s0]. constructor.
    - cbn [s_envs s0]. apply envs_kept_app.
    - intros k Hk. unfold ks in Hk. rewrite Ecm, app_nil_r in Hk. left. exact Hk. }
  (* CONFIGURE *)
  set (r1 := s_roster s0 ++ new).
  set (targets := active_owned_in e (bound_tids x1) r1).
  set (refuse := map _ (filter _ (task_iroles x1))).
  set (r2 := command e targets refuse TS_CONFIGURED r1).
  set (x2 := add_pend (pend_roles x1) (leave_upd ES_DEPLOYED (leave_upd ES_STANDBY x1))).
  assert (Tt : forall k, In k targets -> touched e (s_roster s ++ new) k).
  { intros k Hk. eapply active_owned_touched. exact Hk. }
  assert (I2 : forall x, e_id x = e -> e_roles x = e_roles x1 -> e_bound x = true ->
               inv (mkSt (s_envs s ++ [x]) r2 (remove_snap e (s_snaps s)))).
  { intros x X1 X2 X3. eapply good_inv; [apply (IL x X1 X2 X3)|].
    apply (good_mk e (mkSt (s_envs s ++ [x]) (s_roster s ++ new) (remove_snap e (s_snaps s))) r2 (s_envs s ++ [x]) []).
    - constructor. constructor.
    - constructor.
    - intros k []. }
  destruct (existsb _ (c_roles c)).
  { set (xe := set_estate ES_ERROR (leave_upd ES_DEPLOYED x2)).
    destruct (create_tail xe _ targets _) as [s2 u2] eqn:Ec. intro H; injection H as <- <-.
    apply create_tail_good in Ec. destruct Ec as [G Ecm]. change (e_id xe) with e in G.
    split; [eapply good_inv; [|exact G]; apply (I2 xe); reflexivity|].
    eapply (framed_mid e s _ s2 new); [exact NDall| | |exact G|].
    - cbn [s_roster]. constructor. constructor.
    - cbn [s_envs s0]. apply envs_kept_app.
    - intros k Hk. unfold ks in Hk. rewrite Ecm in Hk. apply in_app_or in Hk.
      destruct Hk as [Hk|Hk]; [left; exact Hk|right; apply Tt, Hk]. }
  intro H; injection H as <- <-.
  split; [apply (I2 (set_estate ES_CONFIGURED x2)); reflexivity|].
  eapply (framed_mid e s _ _ new); [exact NDall| | |apply good_refl|].
  - cbn [s_roster]. constructor. constructor.
  - cbn [s_envs s0]. apply envs_kept_app.
  - intros k Hk. unfold ks in Hk. cbn [o_kills o_cmds app] in Hk. right. apply Tt, Hk.
Qed.

(* ------------------------------------------------------------------ one step of a well-formed history *)
Lemma nodup_app_r {A} (a b : list A) : NoDup (a ++ b) -> NoDup b.
Proof.
  induction a as [|x a IH]; cbn [app]; [auto|]. intro H. inversion H; subst. auto.
Qed.

Lemma inv_add_snap s e d :
  inv s -> (forall x, In x (s_envs s) -> e_id x <> e) -> (forall t, In t (s_roster s) -> fst (t_id t) <> e) ->
  inv (mkSt (s_envs s) (s_roster s) ((e, d) :: remove_snap e (s_snaps s))).
Proof.
  intros I He Hr. constructor; cbn [s_roster s_envs s_snaps]; try apply I.
  - intros p t [<-|Hp] Ht; [apply Hr, Ht|]. apply remove_snap_In in Hp. apply (inv_snap_r s I); tauto.
  - intros p x [<-|Hp] Hx; [apply He, Hx|]. apply remove_snap_In in Hp. apply (inv_snap_e s I); tauto.
Qed.

Lemma dies_inv id s : inv s -> inv (with_roster s (task_dies id (s_roster s))).
Proof.
  intro I. unfold with_roster. constructor; cbn [s_roster s_envs s_snaps]; try apply I.
  - rewrite dies_ids. apply I.
  - intros t' e Hin Ho. apply dies_spec in Hin. destruct Hin as [t [Ht [->|[_ ->]]]].
    + eapply inv_owner; eauto.
    + cbn [set_dead t_id t_owner] in *. eapply inv_owner; eauto.
  - intros p t' Hp Hin. apply dies_spec in Hin. destruct Hin as [t [Ht [->|[_ ->]]]];
      [|cbn [set_dead t_id]]; eapply inv_snap_r; eauto.
  - intros x t' Hx Hin Ho. apply dies_spec in Hin. destruct Hin as [t [Ht [->|[_ ->]]]].
    + eapply inv_bound; eauto.
    + cbn [set_dead t_id t_owner] in *. eapply inv_bound; eauto.
Qed.

Lemma fail_inv ids s : inv s -> inv (with_roster s (fail_tasks ids (s_roster s))).
Proof.
  intro I. unfold with_roster. constructor; cbn [s_roster s_envs s_snaps]; try apply I.
  - rewrite fail_ids. apply I.
  - intros t' e Hin Ho. apply fail_spec in Hin. destruct Hin as [t [Ht [->| ->]]].
    + eapply inv_owner; eauto.
    + cbn [set_failed t_id t_owner] in *. eapply inv_owner; eauto.
  - intros p t' Hp Hin. apply fail_spec in Hin. destruct Hin as [t [Ht [->| ->]]];
      [|cbn [set_failed t_id]]; eapply inv_snap_r; eauto.
  - intros x t' Hx Hin Ho. apply fail_spec in Hin. destruct Hin as [t [Ht [->| ->]]].
    + eapply inv_bound; eauto.
    + cbn [set_failed t_id t_owner] in *. eapply inv_bound; eauto.
Qed.

Lemma refuse_inv ids s : inv s -> inv (with_roster s (refuse_tasks ids (s_roster s))).
Proof.
  intro I. unfold with_roster. constructor; cbn [s_roster s_envs s_snaps]; try apply I.
  - rewrite refuse_ids. apply I.
  - intros t' e Hin Ho. apply refuse_spec in Hin. destruct Hin as [t [Ht [->| ->]]].
    + eapply inv_owner; eauto.
    + cbn [set_kill t_id t_owner] in *. eapply inv_owner; eauto.
  - intros p t' Hp Hin. apply refuse_spec in Hin. destruct Hin as [t [Ht [->| ->]]];
      [|cbn [set_kill t_id]]; eapply inv_snap_r; eauto.
  - intros x t' Hx Hin Ho. apply refuse_spec in Hin. destruct Hin as [t [Ht [->| ->]]].
    + eapply inv_bound; eauto.
    + cbn [set_kill t_id t_owner] in *. eapply inv_bound; eauto.
Qed.

Lemma relock_inv id s : inv s -> inv (with_roster s (relock_task id (s_roster s))).
Proof.
  intro I. unfold with_roster. constructor; cbn [s_roster s_envs s_snaps]; try apply I.
  - rewrite relock_ids. apply I.
  - intros t' e Hin Ho. apply relock_spec in Hin. destruct Hin as [t [Ht [E1 E2]]].
    rewrite E1. eapply inv_owner; eauto. congruence.
  - intros p t' Hp Hin. apply relock_spec in Hin. destruct Hin as [t [Ht [E1 E2]]].
    rewrite E1. eapply inv_snap_r; eauto.
  - intros x t' Hx Hin Ho. apply relock_spec in Hin. destruct Hin as [t [Ht [E1 E2]]].
    rewrite E1. eapply inv_bound; eauto. congruence.
Qed.

Lemma snap_spec e s s' u :
  inv s -> usedb s e = false -> snap e false s = (s', u) ->
  inv s' /\ o_cmds u = [] /\ o_kills u = snd (cleanup (s_roster s)) /\
  s_roster s' = fst (cleanup (s_roster s)) /\ s_envs s' = s_envs s.
Proof.
  intros I Hu. unfold snap. destruct (cleanup (s_roster s)) as [r' k] eqn:Ec.
  intro H; injection H as <- <-. cbn [o_cmds o_kills s_roster s_envs fst snd].
  split; [|auto]. apply usedb_false in Hu. destruct Hu as [U1 [U2 U3]].
  assert (I1 : inv (mkSt (s_envs s) r' (s_snaps s))).
  { eapply good_inv; [exact I|]. apply (good_mk 0 s r' (s_envs s) []); [|constructor|intros x []].
    replace r' with (fst (cleanup (s_roster s))) by (rewrite Ec; reflexivity). constructor. constructor. }
  apply (inv_add_snap _ e _ I1); cbn [s_envs s_roster]; [exact U1|].
  intros t Ht. apply U2. apply cleanup_sub. rewrite Ec. exact Ht.
Qed.

Lemma framed2_weaken e s s' u u' :
  framed2 e s s' u -> (forall k, In k (ks u') -> In k (ks u)) -> framed2 e s s' u'.
Proof. intros [A [B C]] H. repeat split; auto. intros k Hk. apply B, H, Hk. Qed.

(* the creation with the claim path of reuseUnlockedTasks around it *)
Lemma finish_spec e c s s' u :
  inv s -> finish e c s = (s', u) -> inv s' /\ framed2 e s s' u.
Proof.
  intros I. unfold finish.
  assert (P0 : forall c0, finish0 e c0 s = (s', u) -> inv s' /\ framed2 e s s' u).
  { intros c0 H. destruct (finish0_spec e c0 s s' u I H) as [I' F]. split; [exact I'|apply framed_framed2, F]. }
  destruct (assocN e (s_snaps s)) as [snapdets|]; [|apply P0].
  set (cl := claims c (s_roster s)).
  destruct (negb (c_reuse c) || negb (N.eqb (c_fail c) 0 || N.eqb (c_fail c) 5) ||
            existsb (fun d => memN d snapdets) (c_dets c) || match cl with [] => true | _ => false end);
    [apply P0|].
  destruct (finish0 e (without_claimed cl c) s) as [s2 u2] eqn:E0.
  destruct (kill_tasks (map snd cl) (s_roster s2)) as [r3 k3] eqn:Ek. intro H; injection H as <- <-.
  destruct (finish0_spec e _ s s2 u2 I E0) as [I2 F2].
  assert (G : good e s2 (with_roster s2 r3) (ks (mkOut 0 k3 [] [] [] 0 []))).
  { unfold ks, with_roster; cbn [o_kills o_cmds]. rewrite app_nil_r. apply good_mk; [|constructor|].
    - replace r3 with (fst (kill_tasks (map snd cl) (s_roster s2))) by (rewrite Ek; reflexivity). constructor. constructor.
    - intros x Hx. eapply kill_touched. rewrite Ek. exact Hx. }
  split; [eapply good_inv; eauto|].
  eapply framed2_weaken; [eapply framed2_seq; [apply framed_framed2, F2|apply framed_framed2, good_framed; [exact I2|exact G]]|].
  intros k Hk. unfold ks in *. cbn [out_seq o_kills o_cmds] in *. rewrite !in_app_iff in *. cbn [In]. tauto.
Qed.

Definition frame_of (o : op) (s s' : st) (u : out) : Prop :=
  match op_env o with
  | Some e => framed2 e s s' u
  | None => forall e, framed2 e s s' u
  end.

Lemma snap_framed2 e e0 s s' u :
  inv s -> usedb s e = false -> snap e false s = (s', u) -> framed2 e0 s s' u.
Proof.
  intros I W H. destruct (snap_spec e s s' u I W H) as [I' [Hc [Hk [Hr He]]]].
  apply framed_framed2. exists []. rewrite app_nil_r. repeat split.
  - apply I.
  - rewrite Hr. constructor. constructor.
  - rewrite He. apply envs_kept_refl.
  - intros k Hin. unfold ks in Hin. rewrite Hc, app_nil_r, Hk in Hin. apply cleanup_touched, Hin.
Qed.

Lemma step_spec s o s' u :
  inv s -> wf_op s o = true -> step s o = (s', u) ->
  inv s' /\ (is_request o = true -> frame_of o s s' u).
Proof.
  intros I W. destruct o as [e missing|e c|e c|e ev fail|e force allow keep tfail| |ids|t|fids|rids|rt| |sids|];
    cbn [step wf_op is_request] in *; unfold frame_of; cbn [op_env].
  - (* OSnap *)
    apply negb_true_iff in W. destruct missing.
    { unfold snap. intro H; injection H as <- <-. split; [exact I|]. intros _.
      apply framed_framed2, good_framed; [exact I|apply good_refl]. }
    intro H. split; [apply (snap_spec e s s' u I W H)|]. intros _. eapply snap_framed2; eauto.
  - (* OFinish *)
    intro H. destruct (finish_spec e c s s' u I H) as [I' F]. split; [exact I'|]. intros _. exact F.
  - (* OCreate *)
    apply andb_true_iff in W. destruct W as [W _]. apply negb_true_iff in W.
    destruct (N.eqb (c_fail c) 1).
    { unfold snap. intro H; injection H as <- <-. split; [exact I|]. intros _.
      apply framed_framed2, good_framed; [exact I|apply good_refl]. }
    destruct (snap e false s) as [s1 o1] eqn:Es.
    destruct (finish e c s1) as [s2 o2] eqn:Ef. intro H; injection H as <- <-.
    destruct (snap_spec e s s1 o1 I W Es) as [I1 _].
    destruct (finish_spec e c s1 s2 o2 I1 Ef) as [I2 F2].
    split; [exact I2|]. intros _.
    eapply framed2_seq; [eapply snap_framed2; eauto|exact F2].
  - (* OControl *)
    intro H. apply control_good in H. split; [eapply good_inv; eauto|]. intros _.
    apply framed_framed2, good_framed; auto.
  - (* ODestroy *)
    intro H. apply destroy_good in H. split; [eapply good_inv; eauto|]. intros _.
    apply framed_framed2, good_framed; auto.
  - (* OCleanup *)
    destruct (cleanup (s_roster s)) as [r' k] eqn:Ec. intro H; injection H as <- <-.
    assert (G : forall e, good e s (with_roster s r') (ks (mkOut 0 k [] [] [] 0 []))).
    { intro e. unfold ks, with_roster; cbn [o_kills o_cmds]. rewrite app_nil_r.
      apply good_mk; [|constructor|].
      - replace r' with (fst (cleanup (s_roster s))) by (rewrite Ec; reflexivity). constructor. constructor.
      - intros x Hx. apply cleanup_touched. rewrite Ec. exact Hx. }
    split; [eapply good_inv; [exact I|apply (G 0)]|]. intros _ e. apply framed_framed2, good_framed; auto.
  - (* OKill *)
    destruct (kill_tasks ids (s_roster s)) as [r' k] eqn:Ec. intro H; injection H as <- <-.
    assert (G : forall e, good e s (with_roster s r') (ks (mkOut 0 k [] [] [] 0 []))).
    { intro e. unfold ks, with_roster; cbn [o_kills o_cmds]. rewrite app_nil_r.
      apply good_mk; [|constructor|].
      - replace r' with (fst (kill_tasks ids (s_roster s))) by (rewrite Ec; reflexivity). constructor. constructor.
      - intros x Hx. eapply kill_touched. rewrite Ec. exact Hx. }
    split; [eapply good_inv; [exact I|apply (G 0)]|]. intros _ e. apply framed_framed2, good_framed; auto.
  - (* ODies *)
    intro H; injection H as <- <-. split; [apply dies_inv, I|discriminate].
  - (* OFail *)
    intro H; injection H as <- <-. split; [apply fail_inv, I|discriminate].
  - (* ORefuse *)
    intro H; injection H as <- <-. split; [apply refuse_inv, I|discriminate].
  - (* ORelock *)
    intro H; injection H as <- <-. split; [apply relock_inv, I|discriminate].
  - (* ONop *)
    intro H; injection H as <- <-. split; [exact I|]. intros _ e. apply framed_framed2, good_framed; [exact I|apply good_refl].
  - (* OCleanupStale: by the source fact cleanup_is_atomic it is a KillTasks of tasks that are unlocked now *)
    rewrite stale_cleanup_is_kill.
    destruct (kill_tasks sids (s_roster s)) as [r' k] eqn:Ec. intro H; injection H as <- <-.
    assert (G : forall e, good e s (with_roster s r') (ks (mkOut 0 k [] [] [] 0 []))).
    { intro e. unfold ks, with_roster; cbn [o_kills o_cmds]. rewrite app_nil_r.
      apply good_mk; [|constructor|].
      - replace r' with (fst (kill_tasks sids (s_roster s))) by (rewrite Ec; reflexivity). constructor. constructor.
      - intros x Hx. eapply kill_touched. rewrite Ec. exact Hx. }
    split; [eapply good_inv; [exact I|apply (G 0)]|]. intros _ e. apply framed_framed2, good_framed; auto.
  - (* ORecon: by the source fact uts_executor_write_guarded the update changes nothing *)
    intro H; injection H as <- <-. rewrite recon_tasks_id. split; [|discriminate].
    destruct s; exact I.
Qed.

Lemma valid_run_inv ops : forall s, inv s -> valid_hist s ops = true -> inv (run s ops).
Proof.
  induction ops as [|o r IH]; intros s I V; cbn [run]; [exact I|].
  cbn [valid_hist] in V. apply andb_true_iff in V. destruct V as [W V].
  apply IH; [|exact V]. destruct (step s o) as [s' u] eqn:E.
  apply (step_spec s o s' u I W E).
Qed.

Lemma reachable_inv s : reachable s -> inv s.
Proof. intros [ops [V ->]]. apply valid_run_inv; [apply inv_st0|exact V]. Qed.
