(* Composition of the channel model (C13) with the placement model (C05): the TCP port an
   inbound channel is told to bind is one the offer contained.
   The allocation oracle of model/Channels.v ([t_alloc]) is tied to the scheduler's loop over
   wants.InboundChannels as modelled in model/Placement.v ([alloc_dyn]); Placement is not
   imported (both models have a record called [task]): its names are used qualified. *)
From Verif Require Import Common Channels Channels_proofs.
From Verif Require Gen_Placement Placement Placement_proofs.
Open Scope N_scope.

(* the inbound channels of a task as the placement model sees them: position as name; a port
   is needed for a TCP-addressed channel without a target of its own *)
Fixpoint place_chans_from (k : nat) (ins : list inbound) : list Placement.chan :=
  match ins with
  | [] => []
  | c :: r => Placement.mkChan (N.of_nat k) (negb (i_ipc c) && negb (nonempty (i_target c))) :: place_chans_from (S k) r
  end.
Definition place_chans (ins : list inbound) : list Placement.chan := place_chans_from 0 ins.

(* the oracle hands every TCP channel the port the loop allocated for it *)
Definition alloc_agrees (t : task) (dyn : list (N * N)) : Prop :=
  forall i c, nth_error (t_in t) i = Some c -> i_ipc c = false -> i_target c = [] ->
              assocN (N.of_nat i) dyn = Some (fst (t_alloc t i)).

Lemma assocN_In {V} k (l : list (N * V)) v : assocN k l = Some v -> In (k, v) l.
Proof.
  induction l as [|[k' v'] l IH]; cbn; [discriminate|].
  destruct (N.eqb k k') eqn:E.
  - intro H. inversion H; subst. apply N.eqb_eq in E. subst. left. reflexivity.
  - intro H. right. apply IH, H.
Qed.

Lemma port_from_offer t pr pr' dyn i c :
  Placement_proofs.pvalid pr ->
  Placement.alloc_dyn (place_chans (t_in t)) pr = Placement.AOk pr' dyn ->
  alloc_agrees t dyn -> nth_error (t_in t) i = Some c -> i_ipc c = false -> i_target c = [] ->
  Placement_proofs.pmem (fst (t_alloc t i)) pr = true /\ Gen_Placement.data_port_floor < fst (t_alloc t i).
Proof.
  intros Hv Ha Ag Hc Tcp Tg.
  destruct (Placement_proofs.alloc_dyn_spec _ _ _ _ Hv Ha) as (_ & _ & _ & Hin & _).
  apply Hin. specialize (Ag i c Hc Tcp Tg). apply assocN_In in Ag.
  change (fst (t_alloc t i)) with (snd (N.of_nat i, fst (t_alloc t i))). apply in_map. exact Ag.
Qed.

(* two TCP channels of one task never share a port *)
Lemma ports_distinct t pr pr' dyn i j c d :
  Placement_proofs.pvalid pr ->
  Placement.alloc_dyn (place_chans (t_in t)) pr = Placement.AOk pr' dyn ->
  alloc_agrees t dyn ->
  nth_error (t_in t) i = Some c -> i_ipc c = false -> i_target c = [] ->
  nth_error (t_in t) j = Some d -> i_ipc d = false -> i_target d = [] ->
  i <> j -> fst (t_alloc t i) <> fst (t_alloc t j).
Proof.
  intros Hv Ha Ag Hc Tc Gc Hd Td Gd Ne E.
  destruct (Placement_proofs.alloc_dyn_spec _ _ _ _ Hv Ha) as (_ & _ & ND & _ & _).
  pose proof (assocN_In _ _ _ (Ag i c Hc Tc Gc)) as I1. pose proof (assocN_In _ _ _ (Ag j d Hd Td Gd)) as I2.
  rewrite E in I1.
  assert (X : forall (l : list (N * N)) a b v, NoDup (map snd l) -> In (a, v) l -> In (b, v) l -> a = b).
  { induction l as [|[k0 v0] l IH]; intros a b v N1 Ha' Hb'; [contradiction|].
    cbn [map snd] in N1. inversion N1 as [|x xs Hnot N1']; subst.
    destruct Ha' as [Ha'|Ha'], Hb' as [Hb'|Hb'].
    - congruence.
    - inversion Ha'; subst. exfalso. apply Hnot. change v with (snd (b, v)). apply in_map. exact Hb'.
    - inversion Hb'; subst. exfalso. apply Hnot. change v with (snd (a, v)). apply in_map. exact Ha'.
    - apply (IH a b v N1' Ha' Hb'). }
  apply Ne. apply Nat2N.inj. apply (X dyn _ _ _ ND I1 I2).
Qed.

(* composed with the bind side of C13 *)
Lemma bind_told_port_from_offer tasks ps jb b prb i c pr pr' dyn :
  configure tasks = Some ps -> nth_error tasks jb = Some b -> nth_error ps jb = Some prb ->
  t_chans b = true -> names_ok b -> nth_error (t_in b) i = Some c -> i_target c = [] -> i_ipc c = false ->
  Placement_proofs.pvalid pr ->
  Placement.alloc_dyn (place_chans (t_in b)) pr = Placement.AOk pr' dyn -> alloc_agrees b dyn ->
  exists p, given (i_name c) prb = Some (s_tcp ++ s_star ++ s_colon ++ dec p, m_bind, i_tr c) /\
            Placement_proofs.pmem p pr = true /\ Gen_Placement.data_port_floor < p.
Proof.
  intros H Hb Hp C Nb Hc Tg Tcp Hv Ha Ag. exists (fst (t_alloc b i)). split.
  - rewrite (bind_told tasks ps jb b prb i c H Hb Hp C Nb Hc Tg). unfold bound_addr. rewrite Tcp. reflexivity.
  - apply (port_from_offer b pr pr' dyn i c Hv Ha Ag Hc Tcp Tg).
Qed.

(* the hypotheses are satisfiable: offer with ports 9000-9002, channels tcp, ipc, tcp *)
Definition pf_task : task :=
  mkTask [119] s_h1 true
         [mkIn s_in0 s_default [] [] false; mkIn s_in1 s_default [] [] true; mkIn s_ga s_default [] [] false] []
         (fun k => nth k [(9000, []); (0, [64;112]); (9001, [])] (0, [])).

Lemma pf_nonvacuous :
  exists pr', Placement.alloc_dyn (place_chans (t_in pf_task)) (Some [(9000, 9002)]) =
              Placement.AOk pr' [(0, 9000); (2, 9001)] /\
              Placement_proofs.pvalid (Some [(9000, 9002)]) /\ alloc_agrees pf_task [(0, 9000); (2, 9001)].
Proof.
  eexists. split; [vm_compute; reflexivity|]. split.
  - cbn. repeat constructor. unfold Placement_proofs.rvalid. cbn. lia.
  - intros [|[|[|i]]] c H T _; cbn in H; inversion H; subst; try discriminate; try reflexivity.
    destruct i; discriminate.
Qed.
