(* The bridge between the monitor of model/Channels.v (the property as it is evaluated on what
   the implementation did) and the theorems: the monitor is silent on the model's own output
   for every well-formed workflow, and a silent monitor entails the property's clauses for the
   observed run. *)
From Coq Require Import Permutation.
From Verif Require Import Common Channels Channels_proofs.
Open Scope N_scope.

(* ====================================================================================== *)
(* small facts                                                                             *)
(* ====================================================================================== *)
Lemma pick_zero l : pick l = 0 <-> forall c, In c l -> c = 0.
Proof.
  unfold pick. induction l as [|x l IH]; cbn [filter].
  - split; [intros _ c []|reflexivity].
  - destruct (x =? 0) eqn:E; cbn [negb].
    + apply N.eqb_eq in E. subst. rewrite IH. split.
      * intros H c [<-|Hc]; [reflexivity|apply H, Hc].
      * intros H c Hc. apply H. right. exact Hc.
    + apply N.eqb_neq in E. split.
      * intro H. subst. contradiction.
      * intro H. exfalso. apply E. apply H. left. reflexivity.
Qed.

Lemma drop_prefix_app p s : drop_prefix p (p ++ s) = Some s.
Proof. induction p as [|a p IH]; cbn; [reflexivity|]. rewrite N.eqb_refl. exact IH. Qed.

Lemma drop_prefix_some : forall p s r, drop_prefix p s = Some r -> s = p ++ r.
Proof.
  induction p as [|a p IH]; intros [|b s] r H; cbn in H; try discriminate.
  - inversion H. reflexivity.
  - inversion H. reflexivity.
  - destruct (a =? b) eqn:E; [|discriminate]. apply N.eqb_eq in E. subst. cbn. f_equal. apply IH, H.
Qed.

Lemma has_prefix_some : forall p s, has_prefix p s = true -> exists r, s = p ++ r.
Proof.
  induction p as [|a p IH]; intros s H; [exists s; reflexivity|].
  destruct s as [|b s]; cbn in H; [discriminate|]. apply andb_true_iff in H. destruct H as [E H].
  apply N.eqb_eq in E. subst. destruct (IH s H) as (r & ->). exists r. reflexivity.
Qed.

Lemma mem_str_In n l : mem_str n l = true <-> In n l.
Proof.
  unfold mem_str. rewrite existsb_exists. split.
  - intros (x & Hx & E). apply str_eqb_spec in E. subst. exact Hx.
  - intro H. exists n. split; [exact H|apply str_eqb_refl].
Qed.

Lemma port_in_intro p ports : In p ports -> port_in (dec p) ports = true.
Proof. intro H. unfold port_in. apply existsb_exists. exists p. split; [exact H|apply str_eqb_refl]. Qed.

Lemma port_in_elim ps ports : port_in ps ports = true -> exists p, In p ports /\ ps = dec p.
Proof.
  unfold port_in. rewrite existsb_exists. intros (p & Hp & E). apply str_eqb_spec in E. exists p. split; assumption.
Qed.

Lemma agree_ok h c a : agree h (bound_addr c a) (conn_addr h c a) = true.
Proof.
  unfold agree, bound_addr, conn_addr. destruct (i_ipc c).
  - assert (D : drop_prefix s_tcp_star (s_ipc ++ snd a) = None) by reflexivity.
    rewrite D, (has_prefix_app s_ipc (snd a)). apply str_eqb_refl.
  - change (s_tcp ++ s_star ++ s_colon ++ dec (fst a)) with (s_tcp_star ++ dec (fst a)).
    rewrite drop_prefix_app. apply str_eqb_refl.
Qed.

Lemma drop_tcp_star x : drop_prefix s_tcp_star (s_tcp ++ s_star ++ s_colon ++ x) = Some x.
Proof. exact (drop_prefix_app s_tcp_star x). Qed.

(* what [agree] says *)
Lemma agree_sound h baddr caddr :
  agree h baddr caddr = true ->
  (exists ps, baddr = s_tcp ++ s_star ++ s_colon ++ ps /\ caddr = s_tcp ++ h ++ s_colon ++ ps) \/
  (exists path, baddr = s_ipc ++ path /\ caddr = baddr).
Proof.
  unfold agree. destruct (drop_prefix s_tcp_star baddr) as [ps|] eqn:D.
  - intro H. apply str_eqb_spec in H. apply drop_prefix_some in D. left. exists ps. split; [exact D|exact H].
  - intro H. apply andb_true_iff in H. destruct H as [P E]. apply str_eqb_spec in E.
    destruct (has_prefix_some _ _ P) as (r & ->). right. exists r. split; [reflexivity|exact E].
Qed.

Lemma assoc_given (pr : props) n : NoDup (map fst pr) -> assoc n pr = given n pr.
Proof.
  intro ND. destruct (assoc n pr) as [v|] eqn:E.
  - symmetry. apply given_nodup; [exact ND|apply assoc_In, E].
  - symmetry. unfold given. apply assoc_None. rewrite map_rev. intro H. apply in_rev in H.
    apply assoc_None in E. contradiction.
Qed.

Lemma in_combine_nth {A B} : forall (la : list A) (lb : list B) a b,
  In (a, b) (combine la lb) -> exists j, nth_error la j = Some a /\ nth_error lb j = Some b.
Proof.
  induction la as [|x la IH]; intros [|y lb] a b H; cbn in H; try contradiction.
  destruct H as [H|H].
  - inversion H; subst. exists 0%nat. split; reflexivity.
  - destruct (IH lb a b H) as (j & H1 & H2). exists (S j). split; assumption.
Qed.

Lemma nth_combine_in {A B} : forall (la : list A) (lb : list B) j a b,
  nth_error la j = Some a -> nth_error lb j = Some b -> In (a, b) (combine la lb).
Proof.
  induction la as [|x la IH]; intros [|y lb] [|j] a b H1 H2; cbn in *; try discriminate.
  - inversion H1; inversion H2; subst. left. reflexivity.
  - right. apply (IH lb j a b H1 H2).
Qed.

Lemma combine_app_pad {A B} : forall (la : list A) (lb pad : list B),
  length la = length lb -> combine la (lb ++ pad) = combine la lb.
Proof.
  induction la as [|x la IH]; intros [|y lb] pad L; cbn in *; try discriminate; [reflexivity|].
  f_equal. apply IH. lia.
Qed.

Lemma map_fst_combine {A B} : forall (la : list A) (lb : list B),
  length la = length lb -> map fst (combine la lb) = la.
Proof.
  induction la as [|x la IH]; intros [|y lb] L; cbn in *; try discriminate; [reflexivity|].
  f_equal. apply IH. lia.
Qed.

Lemma map_snd_combine {A B} : forall (la : list A) (lb : list B),
  length la = length lb -> map snd (combine la lb) = lb.
Proof.
  induction la as [|x la IH]; intros [|y lb] L; cbn in *; try discriminate; [reflexivity|].
  f_equal. apply IH. lia.
Qed.

(* ====================================================================================== *)
(* the monitor's "declaration that applies" is the model's merged declaration              *)
(* ====================================================================================== *)
Section Eff.
  Context {A : Type} (nm : A -> str).

  Lemma find_by_concat n : forall l : list (list A), find_by nm n (concat l) = nearest nm n l.
  Proof.
    induction l as [|x l IH]; [reflexivity|]. cbn [concat nearest]. rewrite (find_by_app nm n x (concat l)). rewrite IH. reflexivity.
  Qed.

  Lemma dedup_names_cons x l :
    dedup_names (x :: l) = if mem_str x (dedup_names l) then dedup_names l else x :: dedup_names l.
  Proof. reflexivity. Qed.

  Lemma dedup_names_In : forall l n, In n (dedup_names l) <-> In n l.
  Proof.
    induction l as [|x l IH]; intro n; [cbn; tauto|]. rewrite dedup_names_cons.
    destruct (mem_str x (dedup_names l)) eqn:M.
    - apply mem_str_In in M. apply IH in M. cbn [In]. rewrite IH. split; [right; assumption|].
      intros [<-|H]; assumption.
    - cbn [In]. rewrite IH. tauto.
  Qed.

  Lemma dedup_names_nodup : forall l, NoDup (dedup_names l).
  Proof.
    induction l as [|x l IH]; [constructor|]. rewrite dedup_names_cons.
    destruct (mem_str x (dedup_names l)) eqn:M; [exact IH|].
    constructor; [|exact IH]. intro H. apply mem_str_In in H. congruence.
  Qed.

  Lemma eff_In decls e : In e (eff nm decls) <-> find_by nm (nm e) decls = Some e.
  Proof.
    unfold eff. rewrite in_flat_map. split.
    - intros (n & _ & H). destruct (find_by nm n decls) as [c|] eqn:F; [|contradiction].
      destruct H as [<-|[]]. destruct (find_by_some nm _ _ _ F) as [_ <-]. exact F.
    - intro F. exists (nm e). split.
      + apply dedup_names_In. apply in_map. apply (find_by_some nm _ _ _ F).
      + rewrite F. left. reflexivity.
  Qed.

  Lemma eff_nodup_names decls : NoDup (map nm (eff nm decls)).
  Proof.
    unfold eff. generalize (dedup_names_nodup (map nm decls)). generalize (dedup_names (map nm decls)).
    induction l as [|n l IH]; intro ND; cbn [flat_map map]; [constructor|].
    inversion ND as [|x xs Hnot ND']; subst. rewrite map_app. apply nodup_app_intro.
    - destruct (find_by nm n decls); cbn; [constructor; [intros []|constructor]|constructor].
    - apply IH, ND'.
    - intros x Hx Hy. destruct (find_by nm n decls) as [c|] eqn:F; cbn in Hx; [|contradiction].
      destruct Hx as [<-|[]]. destruct (find_by_some nm _ _ _ F) as [_ E].
      apply in_map_iff in Hy. destruct Hy as (c' & E' & Hc'). apply in_flat_map in Hc'.
      destruct Hc' as (n' & Hn' & Hc''). destruct (find_by nm n' decls) as [c2|] eqn:F2; [|contradiction].
      destruct Hc'' as [<-|[]]. destruct (find_by_some nm _ _ _ F2) as [_ E2].
      apply Hnot. congruence.
  Qed.

  (* two lists that answer every name alike, the second without duplicate names *)
  Lemma eff_same (decls l : list A) :
    (forall n, find_by nm n decls = find_by nm n l) -> NoDup (map nm l) ->
    (forall e, In e (eff nm decls) <-> In e l) /\ Permutation (eff nm decls) l.
  Proof.
    intros Same ND.
    assert (Iff : forall e, In e (eff nm decls) <-> In e l).
    { intro e. rewrite eff_In, Same. split.
      - intro F. apply (find_by_some nm _ _ _ F).
      - intro H. apply find_by_unique; assumption. }
    split; [exact Iff|]. apply NoDup_Permutation; [|apply (NoDup_map_inv nm), ND|exact Iff].
    apply (NoDup_map_inv nm). apply eff_nodup_names.
  Qed.
End Eff.

Lemma decls_in_find w n : find_by i_name n (decls_in w) = find_by i_name n (w_in w).
Proof. unfold decls_in. rewrite find_by_app, find_by_concat, w_in_decl. reflexivity. Qed.

Lemma decls_out_find w n : find_by o_name n (decls_out w) = find_by o_name n (w_out w).
Proof. unfold decls_out. rewrite find_by_app, find_by_concat, w_out_decl, find_by_map_clear. reflexivity. Qed.

Lemma forallb_block_nodup {A} (nm : A -> str) (ls : list (list A)) :
  forallb (block_clean nm) ls = true -> Forall (fun l => NoDup (map nm l)) ls.
Proof.
  intro H. apply Forall_forall. intros l Hl. rewrite forallb_forall in H.
  apply nodupb_NoDup. apply (H l Hl).
Qed.

(* what [w_clean] gives *)
Lemma clean_facts w :
  w_clean w = true ->
  NoDup (map i_name (w_in w)) /\ NoDup (map o_name (w_out w)) /\ names_ok (task_of w) /\
  (forall e, In e (eff_in w) <-> In e (w_in w)) /\ Permutation (eff_in w) (w_in w) /\
  (forall d, In d (eff_out w) <-> In d (w_out w)).
Proof.
  intro C. unfold w_clean in C. apply andb_true_iff in C. destruct C as [C C3].
  apply andb_true_iff in C. destruct C as [C1 C2].
  cbn [forallb] in C1, C2. apply andb_true_iff in C1, C2. destruct C1 as [_ C1], C2 as [_ C2].
  assert (N1 : NoDup (map i_name (w_in w))) by (apply w_in_nodup, forallb_block_nodup, C1).
  assert (N2 : NoDup (map o_name (w_out w))) by (apply w_out_nodup, forallb_block_nodup, C2).
  destruct (eff_same i_name (decls_in w) (w_in w) (decls_in_find w) N1) as [I1 P1].
  destruct (eff_same o_name (decls_out w) (w_out w) (decls_out_find w) N2) as [I2 _].
  assert (InD : forall e, In e (w_in w) -> In e (decls_in w)).
  { intros e He. apply (find_by_unique i_name _ _ N1) in He. rewrite <- decls_in_find in He.
    apply (find_by_some i_name _ _ _ He). }
  assert (OutD : forall d, In d (w_out w) -> In d (decls_out w)).
  { intros d Hd. apply (find_by_unique o_name _ _ N2) in Hd. rewrite <- decls_out_find in Hd.
    apply (find_by_some o_name _ _ _ Hd). }
  rewrite forallb_forall in C3.
  repeat split; try assumption; try apply I1; try apply I2.
  - unfold names_of. cbn [task_of t_in t_out]. apply nodup_app_intro; [exact N1|exact N2|].
    intros x Hx Hy. apply in_map_iff in Hx. destruct Hx as (e & <- & He).
    specialize (C3 (i_name e) (in_map i_name _ _ (InD e He))). apply andb_true_iff in C3. destruct C3 as [C3 _].
    apply negb_true_iff in C3. assert (mem_str (i_name e) (map o_name (decls_out w)) = true); [|congruence].
    apply mem_str_In. apply in_map_iff in Hy. destruct Hy as (d & E & Hd). rewrite <- E.
    apply in_map. apply OutD, Hd.
  - intros e He. cbn [task_of t_in] in He.
    specialize (C3 (i_name e) (in_map i_name _ _ (InD e He))). apply andb_true_iff in C3. destruct C3 as [_ C3].
    apply negb_true_iff in C3. exact C3.
Qed.

(* ====================================================================================== *)
(* the case the model itself produces                                                      *)
(* ====================================================================================== *)
(* ports the scheduler requests for a task: those of its TCP endpoints *)
Definition mports (t : task) : list N :=
  flat_map (fun kv : str * endpoint => match snd kv with Tcp _ p _ => [p] | Ipc _ _ => [] end) (t_local t).

Definition model_obs (ws : list wtask) : option (list (bindmap * props)) :=
  match configure_wf ws with
  | Some ps => Some (combine (map (fun w => t_local (task_of w)) ws) ps)
  | None => None
  end.
Definition model_case (ws : list wtask) : c13_case :=
  CEnv ws (model_obs ws) (map (fun w => mports (task_of w)) ws).

(* IPC paths handed out in different tasks are different (xid) *)
Definition fresh_ipc (ws : list wtask) : Prop :=
  forall j1 j2 w1 w2 i1 i2 c1 c2,
    nth_error ws j1 = Some w1 -> nth_error ws j2 = Some w2 -> j1 <> j2 ->
    nth_error (w_in w1) i1 = Some c1 -> nth_error (w_in w2) i2 = Some c2 ->
    i_ipc c1 = true -> i_ipc c2 = true ->
    snd (t_alloc (task_of w1) i1) <> snd (t_alloc (task_of w2) i2).

Definition wf_ws (ws : list wtask) : Prop := wf_env (map task_of ws) /\ fresh_ipc ws.

Lemma mports_In t n c a : In (n, mk_ep c a) (t_local t) -> i_ipc c = false -> In (fst a) (mports t).
Proof.
  intros H T. unfold mports. apply in_flat_map. exists (n, mk_ep c a). split; [exact H|].
  unfold mk_ep. rewrite T. left. reflexivity.
Qed.

Lemma wf_all_path_ok tasks : wf_env tasks -> forall x, In x tasks -> path_ok (t_path x).
Proof. intros W x Hx. apply (wf_env_path_ok _ _ W Hx). Qed.

Lemma wf_all_host_ok tasks : wf_env tasks -> forall x, In x tasks -> host_ok (t_host x).
Proof. intros W x Hx. apply (wf_env_host_ok _ _ W Hx). Qed.

(* the entry a channel's key resolves to is the channel's endpoint seen from outside *)
Lemma resolved_entry tasks bm b n c a ex :
  wf_env tasks -> env_bindmap tasks = Some bm -> In b tasks -> In (n, mk_ep c a) (t_local b) ->
  assoc (bind_key (t_path b) n) bm = Some ex ->
  ep_address ex = conn_addr (t_host b) c a /\ ep_transport ex = i_tr c /\ is_ipc_ep ex = i_ipc c.
Proof.
  intros W B Hb Hi As.
  assert (Ipc_mk : is_ipc_ep (mk_ep c a) = i_ipc c) by (unfold mk_ep; destruct (i_ipc c); reflexivity).
  assert (Ipc_tt : forall h e, is_ipc_ep (to_target h e) = is_ipc_ep e) by (intros h [? ? ?|? ?]; reflexivity).
  destruct (is_alias_key n) eqn:A.
  - rewrite bind_key_alias in As by exact A.
    destruct (env_bindmap_alias _ _ _ _ _ (wf_all_path_ok _ W) (wf_all_host_ok _ W) B Hb Hi A) as (ex' & E & Ad & Tr).
    destruct (env_bindmap_alias_entry _ _ _ _ _ (wf_all_path_ok _ W) B Hb Hi A) as (ex2 & E2 & D).
    rewrite E in As. inversion As; subst ex'. rewrite Ad, Tr.
    rewrite address_target_mk_ep by (apply (wf_env_host_ok _ _ W Hb)). rewrite transport_mk_ep.
    split; [reflexivity|]. split; [reflexivity|].
    rewrite E in E2. inversion E2; subst ex2. destruct D as [->| ->]; [rewrite Ipc_tt|]; exact Ipc_mk.
  - rewrite bind_key_path in As by exact A. apply local_In_assoc in Hi.
    rewrite (env_bindmap_path _ _ _ _ _ W B Hb Hi A) in As. inversion As; subst ex.
    rewrite address_target_mk_ep by (apply (wf_env_host_ok _ _ W Hb)).
    rewrite transport_to_target, transport_mk_ep, Ipc_tt. repeat split; try reflexivity. exact Ipc_mk.
Qed.

(* with fresh IPC paths an alias key has one writer in an accepted environment map *)
Lemma alias_writer_unique ws bm j1 j2 w1 w2 k e1 e2 :
  wf_env (map task_of ws) -> fresh_ipc ws -> env_bindmap (map task_of ws) = Some bm ->
  nth_error ws j1 = Some w1 -> nth_error ws j2 = Some w2 -> is_alias_key k = true ->
  In (k, e1) (t_local (task_of w1)) -> In (k, e2) (t_local (task_of w2)) -> j1 = j2.
Proof.
  intros W Fr B H1 H2 A L1 L2. destruct (Nat.eq_dec j1 j2) as [E|Ne]; [exact E|exfalso].
  assert (Go : forall ja jb wa wb ea eb, (ja < jb)%nat -> nth_error ws ja = Some wa -> nth_error ws jb = Some wb ->
                 In (k, ea) (t_local (task_of wa)) -> In (k, eb) (t_local (task_of wb)) -> False).
  { intros ja jb wa wb ea eb Lt Ha Hb La Lb.
    pose proof (map_nth_error task_of _ _ Ha) as Na. pose proof (map_nth_error task_of _ _ Hb) as Nb.
    destruct (nth_error_two _ _ _ _ _ Na Nb Lt) as (pre & mid & post & E).
    pose proof W as W'. pose proof B as B'. rewrite E in W', B'.
    destruct (env_from_alias_two pre (task_of wa) mid (task_of wb) post bm k ea eb
                (wf_all_path_ok _ W') (wf_all_host_ok _ W') B' A La Lb) as (p & tr & Xa & Xb).
    pose proof La as La'. pose proof Lb as Lb'.
    apply local_In_assoc in La'. apply local_bindmap_inv in La'. destruct La' as (ia & ca & Hca & _ & Ea).
    apply local_In_assoc in Lb'. apply local_bindmap_inv in Lb'. destruct Lb' as (ib & cb & Hcb & _ & Eb).
    rewrite Ea in Xa. rewrite Eb in Xb. unfold mk_ep in Xa, Xb.
    destruct (i_ipc ca) eqn:Pa; [|discriminate]. destruct (i_ipc cb) eqn:Pb; [|discriminate].
    inversion Xa. inversion Xb.
    apply (Fr ja jb wa wb ia ib ca cb Ha Hb); try assumption; [lia|congruence]. }
  destruct (Nat.lt_total j1 j2) as [Lt|[Eq|Gt]]; [|contradiction|].
  - apply (Go j1 j2 w1 w2 e1 e2 Lt H1 H2 L1 L2).
  - apply (Go j2 j1 w2 w1 e2 e1 Gt H2 H1 L2 L1).
Qed.

Lemma existsb_nth_false {A} (f : A -> bool) l : existsb f l = false -> forall x, In x l -> f x = false.
Proof.
  intros H x Hx. destruct (f x) eqn:E; [|reflexivity].
  assert (existsb f l = true) by (apply existsb_exists; exists x; split; assumption). congruence.
Qed.

Section Model.
  Variable ws : list wtask.
  Let ts := map task_of ws.
  Hypothesis W : wf_env ts.
  Hypothesis Cl : forall w, In w ws -> w_clean w = true.
  Variables (ps : list props) (bm : bindmap).
  Hypothesis B : env_bindmap ts = Some bm.
  Hypothesis AP : all_props bm ts = Some ps.
  Hypothesis Fr : fresh_ipc ws.
  Hypothesis NX : existsb (cross_ipc ts bm) ts = false.

  Let wpp := combine (combine ws ps) (map (fun w => mports (task_of w)) ws).
  Let bs := binders_of wpp.

  Lemma model_configure : configure ts = Some ps.
  Proof. unfold configure. rewrite B, NX. exact AP. Qed.

  Lemma wpp_in w pr pt :
    In (w, pr, pt) wpp ->
    exists j, nth_error ws j = Some w /\ nth_error ps j = Some pr /\ pt = mports (task_of w).
  Proof.
    intro H. apply in_combine_nth in H. destruct H as (j & H1 & H2).
    assert (H1' : In (w, pr) (combine ws ps)) by (apply (nth_error_In _ _ H1)).
    apply in_combine_nth in H1'. destruct H1' as (j' & Hw & Hp).
    (* the index is the same: recompute from j *)
    clear j' Hw Hp.
    assert (forall (la : list wtask) (lb : list props) k x y,
               nth_error (combine la lb) k = Some (x, y) -> nth_error la k = Some x /\ nth_error lb k = Some y) as Nc.
    { induction la as [|a la IH]; intros [|b lb] [|k] x y Hn; cbn in Hn; try discriminate.
      - inversion Hn. split; reflexivity.
      - apply (IH lb k x y Hn). }
    destruct (Nc _ _ _ _ _ H1) as [Hw Hp]. exists j. split; [exact Hw|]. split; [exact Hp|].
    rewrite (map_nth_error _ _ _ Hw) in H2. inversion H2. reflexivity.
  Qed.

  Lemma wpp_intro j w pr :
    nth_error ws j = Some w -> nth_error ps j = Some pr -> In (w, pr, mports (task_of w)) wpp.
  Proof.
    intros Hw Hp. unfold wpp.
    assert (forall (la : list wtask) (lb : list props) k x y,
               nth_error la k = Some x -> nth_error lb k = Some y -> nth_error (combine la lb) k = Some (x, y)) as Nc.
    { induction la as [|a la IH]; intros [|b lb] [|k] x y H1 H2; cbn in *; try discriminate.
      - inversion H1; inversion H2. reflexivity.
      - apply (IH lb k x y H1 H2). }
    apply (nth_combine_in _ _ j); [apply Nc; assumption|].
    apply (map_nth_error (fun w => mports (task_of w)) _ _ Hw).
  Qed.

  Lemma task_at j w : nth_error ws j = Some w -> nth_error ts j = Some (task_of w).
  Proof. intro H. apply (map_nth_error task_of _ _ H). Qed.

  Lemma props_at j w pr :
    nth_error ws j = Some w -> nth_error ps j = Some pr -> task_props bm (task_of w) = Some pr.
  Proof.
    intros Hw Hp. destruct (all_props_nth _ _ _ _ _ AP (task_at _ _ Hw)) as (pr' & E & P). congruence.
  Qed.

  Lemma props_exist j w : nth_error ws j = Some w -> exists pr, nth_error ps j = Some pr.
  Proof.
    intro Hw. destruct (all_props_nth _ _ _ _ _ AP (task_at _ _ Hw)) as (pr' & E & _). exists pr'. exact E.
  Qed.

  Lemma binder_intro j w pr e :
    nth_error ws j = Some w -> nth_error ps j = Some pr -> In e (w_in w) ->
    In (mports (task_of w), w, pr, e) bs.
  Proof.
    intros Hw Hp He. unfold bs, binders_of. apply in_flat_map. exists (w, pr, mports (task_of w)).
    split; [apply (wpp_intro j); assumption|]. apply in_map.
    destruct (clean_facts w (Cl w (nth_error_In _ _ Hw))) as (_ & _ & _ & I1 & _). apply I1, He.
  Qed.

  (* what a configured binder is told, in the monitor's reading ([assoc]) *)
  Lemma told_assoc j w pr n :
    nth_error ws j = Some w -> nth_error ps j = Some pr -> w_chans w = true ->
    assoc n pr = given n pr.
  Proof.
    intros Hw Hp C. apply assoc_given.
    destruct (clean_facts w (Cl w (nth_error_In _ _ Hw))) as (_ & _ & [Nok _] & _).
    apply (task_props_nodup bm (task_of w) pr C Nok (props_at _ _ _ Hw Hp)).
  Qed.

  Lemma check_in_model w pr pt e :
    In (w, pr, pt) wpp -> w_chans w = true -> In e (eff_in w) -> check_in pt pr e = 0.
  Proof.
    intros Hin C He. destruct (wpp_in _ _ _ Hin) as (j & Hw & Hp & ->).
    destruct (clean_facts w (Cl w (nth_error_In _ _ Hw))) as (_ & _ & Nok & I1 & _).
    apply I1 in He. destruct (In_nth_error _ _ He) as (i & Hi).
    pose proof (props_at _ _ _ Hw Hp) as P. destruct Nok as [ND PL].
    destruct (given_inbound bm (task_of w) pr e C ND P He) as (p & Pi & G).
    unfold check_in. rewrite (told_assoc j w pr (i_name e) Hw Hp C), G.
    unfold inbound_props in Pi. destruct (is_explicit (i_target e)) eqn:Ex.
    - inversion Pi; subst p. rewrite str_eqb_refl. cbn [negb]. rewrite !str_eqb_refl. reflexivity.
    - destruct (nonempty (i_target e)) eqn:Ne; [discriminate|]. apply nonempty_false in Ne.
      assert (L : assoc (i_name e) (t_local (task_of w)) = Some (mk_ep e (t_alloc (task_of w) i))).
      { unfold t_local. apply local_bindmap_name; [|exact PL|exact Hi|exact Ne].
        unfold names_of in ND. apply nodup_app_elim in ND. apply ND. }
      rewrite L, address_bound_mk_ep, transport_mk_ep in Pi. inversion Pi; subst p.
      rewrite str_eqb_refl. cbn [negb].
      unfold invalid_target. rewrite Ne. cbn [nonempty andb]. rewrite str_eqb_refl. cbn [negb].
      unfold bound_addr. destruct (i_ipc e) eqn:Ip.
      + rewrite (has_prefix_app s_ipc). reflexivity.
      + rewrite drop_tcp_star. rewrite port_in_intro; [reflexivity|].
        apply (mports_In (task_of w) (i_name e) e); [apply local_In_assoc; exact L|exact Ip].
  Qed.

  Lemma check_out_model w pr pt d :
    In (w, pr, pt) wpp -> w_chans w = true -> In d (eff_out w) -> check_out bs (w_host w) pr d = 0.
  Proof.
    intros Hin C Hd. destruct (wpp_in _ _ _ Hin) as (j & Hw & Hp & ->).
    destruct (clean_facts w (Cl w (nth_error_In _ _ Hw))) as (_ & _ & [ND _] & _ & _ & I2).
    apply I2 in Hd. pose proof (props_at _ _ _ Hw Hp) as P.
    destruct (given_outbound bm (task_of w) pr d C ND P Hd) as (p & Po & G).
    unfold check_out. rewrite (told_assoc j w pr (o_name d) Hw Hp C), G.
    unfold outbound_props in Po. destruct (is_explicit (o_target d)) eqn:Ex.
    - inversion Po; subst p. rewrite str_eqb_refl. cbn [negb]. rewrite !str_eqb_refl. reflexivity.
    - destruct (assoc (o_target d) bm) as [ex|] eqn:As; [|discriminate]. inversion Po; subst p.
      rewrite str_eqb_refl. cbn [negb].
      assert (X : exists b, In b (hits_of bs d) /\ good_hit (ep_address ex) (ep_transport ex) b = true /\
                            (has_prefix s_ipc (ep_address ex) = true -> binder_host b = w_host w)).
      2: { destruct X as (b & Hb & Gb & Hh).
           assert (X1 : existsb (good_hit (ep_address ex) (ep_transport ex)) (hits_of bs d) = true)
             by (apply existsb_exists; exists b; split; assumption).
           rewrite X1. destruct (has_prefix s_ipc (ep_address ex)) eqn:Pi; [|reflexivity].
           assert (X2 : existsb (fun b0 => good_hit (ep_address ex) (ep_transport ex) b0 &&
                                           str_eqb (binder_host b0) (w_host w)) (hits_of bs d) = true).
           { apply existsb_exists. exists b. split; [exact Hb|]. rewrite Gb, (Hh eq_refl). apply str_eqb_refl. }
           rewrite X2. reflexivity. }
      unfold env_bindmap in B. destruct (env_from_keys _ _ _ _ _ B As) as [X|(b & Hb & n & ep & Hi & Bk)];
        [exfalso; apply X; reflexivity|]. fold (env_bindmap ts) in B.
      apply in_map_iff in Hb. destruct Hb as (wb & <- & Hwb). destruct (In_nth_error _ _ Hwb) as (jb & Hjb).
      destruct (props_exist _ _ Hjb) as (prb & Hpb).
      pose proof Hi as Hi'. apply local_In_assoc in Hi'. apply local_bindmap_inv in Hi'.
      destruct Hi' as (i & c & Hc & [T S] & ->).
      destruct (clean_facts wb (Cl wb Hwb)) as (_ & _ & Nokb & _).
      exists (mports (task_of wb), wb, prb, c). split; [|split].
      + apply filter_In. split; [apply (binder_intro jb); [assumption|assumption|apply (nth_error_In _ _ Hc)]|].
        unfold target_hits, target_names. apply nonempty_false in T. rewrite T. cbn [negb andb].
        destruct S as [S|[Gl S]]; subst n.
        * rewrite bind_key_path in Bk by (apply (proj2 Nokb), (nth_error_In _ _ Hc)).
          rewrite <- Bk. change (w_path wb) with (t_path (task_of wb)). rewrite str_eqb_refl. reflexivity.
        * rewrite bind_key_alias in Bk by apply alias_key_is_alias. rewrite <- Bk, str_eqb_refl.
          apply nonempty_true in Gl. rewrite Gl. apply orb_true_r.
      + rewrite <- Bk in As.
        destruct (resolved_entry ts bm (task_of wb) n c _ ex W B (in_map task_of _ _ Hwb) Hi As) as (Ad & Tr & _).
        unfold good_hit. rewrite Ad, Tr. change (t_host (task_of wb)) with (w_host wb).
        destruct (w_chans wb) eqn:Cb.
        * rewrite (told_assoc jb wb prb (i_name c) Hjb Hpb Cb).
          rewrite (bind_told ts ps jb (task_of wb) prb i c model_configure (task_at _ _ Hjb) Hpb Cb Nokb Hc T).
          rewrite !str_eqb_refl, agree_ok. reflexivity.
        * unfold alloc_addr_ok. rewrite str_eqb_refl. cbn [andb]. unfold conn_addr.
          destruct (i_ipc c) eqn:Ip; [apply has_prefix_app|].
          replace (s_tcp ++ w_host wb ++ s_colon ++ dec (fst (t_alloc (task_of wb) i)))
            with ((s_tcp ++ w_host wb ++ s_colon) ++ dec (fst (t_alloc (task_of wb) i)))
            by (rewrite <- !app_assoc; reflexivity).
          rewrite drop_prefix_app. apply port_in_intro. apply (mports_In (task_of wb) n c); assumption.
      + (* an IPC endpoint: the binder runs on the connecting task's host *)
        intro Pi. cbn [binder_host]. pose proof As as As'. rewrite <- Bk in As'.
        destruct (resolved_entry ts bm (task_of wb) n c _ ex W B (in_map task_of _ _ Hwb) Hi As') as (Ad & _ & Ic).
        assert (Ip : i_ipc c = true).
        { destruct (i_ipc c) eqn:Q; [reflexivity|]. rewrite Ad in Pi. unfold conn_addr in Pi. rewrite Q in Pi.
          cbn in Pi. discriminate. }
        (* the cross-host check passed for this task and channel *)
        assert (KH : key_host ts (o_target d) = Some (w_host w)).
        { pose proof (existsb_nth_false _ _ NX (task_of w) (in_map task_of _ _ (nth_error_In _ _ Hw))) as Xw.
          unfold cross_ipc in Xw. change (t_chans (task_of w)) with (w_chans w) in Xw. rewrite C in Xw.
          cbn [andb] in Xw. pose proof (existsb_nth_false _ _ Xw d Hd) as Xd. cbv beta in Xd.
          rewrite As, Ic, Ip in Xd. cbn [andb] in Xd. apply negb_false_iff in Xd.
          destruct (key_host ts (o_target d)) as [h|]; [|discriminate]. cbn [option_eqb] in Xd.
          apply str_eqb_spec in Xd. change (t_host (task_of w)) with (w_host w) in Xd. congruence. }
        (* the recorded host is that of this binder *)
        assert (Wk : writes_key (task_of wb) (o_target d)) by (exists n, (mk_ep c (t_alloc (task_of wb) i)); split; assumption).
        destruct (is_alias_key (o_target d)) eqn:Ak.
        * unfold key_host in KH. rewrite Ak in KH.
          destruct (find (fun t => writes_keyb t (o_target d)) ts) as [t2|] eqn:F; [|discriminate].
          apply find_some in F. destruct F as [Ht2 W2]. apply writes_keyb_spec in W2.
          apply in_map_iff in Ht2. destruct Ht2 as (w2 & <- & Hw2). destruct (In_nth_error _ _ Hw2) as (j2 & Hj2).
          destruct W2 as (n2 & ep2 & Hi2 & Bk2).
          assert (n2 = o_target d).
          { destruct (is_alias_key n2) eqn:A2; [rewrite bind_key_alias in Bk2 by exact A2; exact Bk2|].
            rewrite bind_key_path in Bk2 by exact A2. rewrite <- Bk2 in Ak.
            rewrite path_key_not_alias in Ak by (apply (wf_env_path_ok _ _ W), in_map, Hw2). discriminate. }
          assert (n = o_target d).
          { destruct (is_alias_key n) eqn:A1; [rewrite bind_key_alias in Bk by exact A1; exact Bk|].
            rewrite bind_key_path in Bk by exact A1. rewrite <- Bk in Ak.
            rewrite path_key_not_alias in Ak by (apply (wf_env_path_ok _ _ W), in_map, Hwb). discriminate. }
          subst n n2.
          assert (j2 = jb) by (apply (alias_writer_unique ws bm j2 jb w2 wb (o_target d) _ _ W Fr B Hj2 Hjb Ak Hi2 Hi)).
          subst j2. assert (w2 = wb) by congruence. subst w2. cbn [option_map] in KH. inversion KH. reflexivity.
        * rewrite (key_host_path ts (task_of wb) (o_target d) W (in_map task_of _ _ Hwb) Ak Wk) in KH.
          inversion KH. reflexivity.
  Qed.
End Model.

(* ---------- aliases ---------- *)
Lemma perm_globals l l' : Permutation l l' -> Permutation (globals_of l) (globals_of l').
Proof.
  unfold globals_of. induction 1 as [|x l l' P IH|x y l|l l' l'' P1 IH1 P2 IH2]; cbn [map filter].
  - constructor.
  - destruct (nonempty (i_global x)); [constructor; exact IH|exact IH].
  - destruct (nonempty (i_global x)), (nonempty (i_global y)); try apply Permutation_refl.
    apply perm_swap.
  - apply (Permutation_trans IH1 IH2).
Qed.

Lemma nodupb_perm l l' : Permutation l l' -> nodupb str_eqb l = nodupb str_eqb l'.
Proof.
  intro P. destruct (nodupb str_eqb l) eqn:E, (nodupb str_eqb l') eqn:E'; try reflexivity.
  - apply nodupb_NoDup in E. apply (Permutation_NoDup P) in E. apply nodupb_NoDup in E. congruence.
  - apply nodupb_NoDup in E'. apply (Permutation_NoDup (Permutation_sym P)) in E'. apply nodupb_NoDup in E'. congruence.
Qed.

Lemma clean_globals w : w_clean w = true -> nodupb str_eqb (globals_of (eff_in w)) = negb (alias_dup (w_in w)).
Proof.
  intro C. destruct (clean_facts w C) as (_ & _ & _ & _ & P & _).
  unfold alias_dup. rewrite negb_involutive. apply nodupb_perm, perm_globals, P.
Qed.

Lemma cross_dup_elim : forall al,
  cross_dup al = true ->
  exists j1 j2 l1 l2 g, (j1 < j2)%nat /\ nth_error al j1 = Some l1 /\ nth_error al j2 = Some l2 /\
                        In g l1 /\ In g l2.
Proof.
  induction al as [|l r IH]; intro H; cbn [cross_dup] in H; [discriminate|].
  apply orb_true_iff in H. destruct H as [H|H].
  - apply existsb_exists in H. destruct H as (g & Hg & H). apply existsb_exists in H.
    destruct H as (l2 & Hl2 & M). apply mem_str_In in M. destruct (In_nth_error _ _ Hl2) as (j & Hj).
    exists 0%nat, (S j), l, l2, g. repeat split; try assumption. lia.
  - destruct (IH H) as (j1 & j2 & l1 & l2 & g & Lt & H1 & H2 & G1 & G2).
    exists (S j1), (S j2), l1, l2, g. repeat split; try assumption. lia.
Qed.

Lemma cross_dup_intro : forall al j1 j2 l1 l2 g,
  (j1 < j2)%nat -> nth_error al j1 = Some l1 -> nth_error al j2 = Some l2 -> In g l1 -> In g l2 ->
  cross_dup al = true.
Proof.
  induction al as [|l r IH]; intros j1 j2 l1 l2 g Lt H1 H2 G1 G2; [destruct j1; discriminate|].
  cbn [cross_dup]. apply orb_true_iff. destruct j1 as [|j1].
  - left. cbn in H1. inversion H1; subst l1. apply existsb_exists. exists g. split; [exact G1|].
    destruct j2 as [|j2]; [lia|]. cbn in H2. apply existsb_exists. exists l2.
    split; [apply (nth_error_In _ _ H2)|apply mem_str_In, G2].
  - right. destruct j2 as [|j2]; [lia|]. cbn in H1, H2. apply (IH j1 j2 l1 l2 g); try assumption. lia.
Qed.

Lemma free_alias_elim w g :
  In g (free_aliases w) -> exists e, In e (eff_in w) /\ i_target e = [] /\ i_global e = g /\ g <> [].
Proof.
  unfold free_aliases, globals_of. intro H. apply filter_In in H. destruct H as [H Ne].
  apply in_map_iff in H. destruct H as (e & E & He). apply filter_In in He. destruct He as [He T].
  exists e. split; [exact He|]. split; [apply nonempty_false, negb_true_iff, T|].
  split; [exact E|apply nonempty_true, Ne].
Qed.

Lemma free_alias_intro w e :
  In e (eff_in w) -> i_target e = [] -> i_global e <> [] -> In (i_global e) (free_aliases w).
Proof.
  intros He T G. unfold free_aliases, globals_of. apply filter_In. split; [|apply nonempty_true, G].
  apply in_map. apply filter_In. split; [exact He|]. rewrite T. reflexivity.
Qed.

Lemma alias_entry_of_claim t c :
  In c (t_in t) -> i_target c = [] -> i_global c <> [] ->
  exists i c', nth_error (t_in t) i = Some c' /\
               In (alias_key (i_global c), mk_ep c' (t_alloc t i)) (t_local t).
Proof.
  intros Hc T G. destruct (assoc (alias_key (i_global c)) (t_local t)) as [e|] eqn:E.
  - pose proof E as E'. unfold t_local in E'. apply local_bindmap_inv in E'.
    destruct E' as (i & c' & Hn & _ & ->). exists i, c'. split; [exact Hn|]. apply local_In_assoc. exact E.
  - exfalso. revert E. unfold t_local, local_bindmap. apply local_from_present.
    right. exists c. split; [exact Hc|]. split; [exact T|]. right. split; [exact G|reflexivity].
Qed.

Lemma nth_error_map_inv {A B} (f : A -> B) : forall l j y,
  nth_error (map f l) j = Some y -> exists x, nth_error l j = Some x /\ f x = y.
Proof.
  induction l as [|a l IH]; intros [|j] y H; cbn in H; try discriminate.
  - inversion H. exists a. split; reflexivity.
  - apply (IH j y H).
Qed.

Lemma static_not_local t e :
  names_ok t -> In e (t_in t) -> i_target e <> [] -> assoc (i_name e) (t_local t) = None.
Proof.
  intros [ND PL] He T. destruct (assoc (i_name e) (t_local t)) as [ep|] eqn:E; [|reflexivity]. exfalso.
  unfold t_local in E. apply local_bindmap_inv in E. destruct E as (i & c' & Hc' & [T' S] & _).
  unfold names_of in ND. apply nodup_app_elim in ND. destruct ND as (N1 & _ & _).
  destruct S as [S|[_ S]].
  - assert (c' = e); [|subst; contradiction].
    apply (NoDup_map_In_eq i_name (t_in t)); [exact N1|apply (nth_error_In _ _ Hc')|exact He|congruence].
  - specialize (PL e He). rewrite S, alias_key_is_alias in PL. discriminate.
Qed.

Section Model2.
  Variable ws : list wtask.
  Let ts := map task_of ws.
  Hypothesis W : wf_env ts.
  Hypothesis Fr : fresh_ipc ws.
  Hypothesis Cl : forall w, In w ws -> w_clean w = true.
  Variable bm : bindmap.
  Hypothesis B : env_bindmap ts = Some bm.

  Lemma codes9_model c : In c (codes9 ws) -> c = 0.
  Proof.
    unfold codes9. intro H. apply in_map_iff in H. destruct H as (w & <- & Hw).
    rewrite (clean_globals w (Cl w Hw)).
    pose proof (env_from_no_dup _ _ _ (task_of w) B (in_map task_of _ _ Hw)) as AD.
    cbn [task_of t_in] in AD. rewrite AD. reflexivity.
  Qed.

  Lemma codes8_model : cross_dup (map free_aliases ws) = false.
  Proof.
    destruct (cross_dup (map free_aliases ws)) eqn:X; [exfalso|reflexivity].
    destruct (cross_dup_elim _ X) as (j1 & j2 & l1 & l2 & g & Lt & H1 & H2 & G1 & G2).
    destruct (nth_error_map_inv _ _ _ _ H1) as (w1 & Hw1 & <-).
    destruct (nth_error_map_inv _ _ _ _ H2) as (w2 & Hw2 & <-).
    destruct (free_alias_elim _ _ G1) as (e1 & He1 & T1 & E1 & Ne).
    destruct (free_alias_elim _ _ G2) as (e2 & He2 & T2 & E2 & _).
    destruct (clean_facts w1 (Cl w1 (nth_error_In _ _ Hw1))) as (_ & _ & _ & I1 & _).
    destruct (clean_facts w2 (Cl w2 (nth_error_In _ _ Hw2))) as (_ & _ & _ & I2 & _).
    apply I1 in He1. apply I2 in He2.
    destruct (alias_entry_of_claim (task_of w1) e1 He1 T1) as (i1 & c1 & Hc1 & L1); [congruence|].
    destruct (alias_entry_of_claim (task_of w2) e2 He2 T2) as (i2 & c2 & Hc2 & L2); [congruence|].
    rewrite E1 in L1. rewrite E2 in L2.
    pose proof (map_nth_error task_of _ _ Hw1) as N1. pose proof (map_nth_error task_of _ _ Hw2) as N2.
    fold ts in N1, N2. destruct (nth_error_two _ _ _ _ _ N1 N2 Lt) as (pre & mid & post & E).
    pose proof W as W'. pose proof B as B'. rewrite E in W', B'.
    destruct (env_from_alias_two pre (task_of w1) mid (task_of w2) post bm (alias_key g) _ _
                (wf_all_path_ok _ W') (wf_all_host_ok _ W') B' (alias_key_is_alias g) L1 L2) as (p & tr & X1 & X2).
    unfold mk_ep in X1, X2. destruct (i_ipc c1) eqn:P1; [|discriminate]. destruct (i_ipc c2) eqn:P2; [|discriminate].
    inversion X1. inversion X2.
    apply (Fr j1 j2 w1 w2 i1 i2 c1 c2 Hw1 Hw2); try assumption; [lia|congruence].
  Qed.

  Lemma advertised_model c :
    In c (advertised_codes ws (map (fun w => t_local (task_of w)) ws)) -> c = 0.
  Proof.
    unfold advertised_codes. intro H. apply in_flat_map in H. destruct H as ([w loc] & Hx & H).
    apply in_combine_nth in Hx. destruct Hx as (j & Hw & Hl). rewrite (map_nth_error _ _ _ Hw) in Hl.
    inversion Hl; subst loc. cbn [fst snd] in H. apply in_map_iff in H. destruct H as (e & <- & He).
    destruct (clean_facts w (Cl w (nth_error_In _ _ Hw))) as (_ & _ & Nok & I1 & _). apply I1 in He.
    destruct (nonempty (i_target e)) eqn:T; [|reflexivity]. apply nonempty_true in T.
    rewrite (static_not_local (task_of w) e Nok He T). reflexivity.
  Qed.
End Model2.

(* ====================================================================================== *)
(* the monitor is silent on the model's output                                             *)
(* ====================================================================================== *)
Lemma forallb_clean ws : forallb w_clean ws = true -> forall w, In w ws -> w_clean w = true.
Proof. intro H. apply forallb_forall. exact H. Qed.

Lemma monitor_silent_on_accepted ws ps :
  wf_ws ws -> configure_wf ws = Some ps ->
  mon_env ws (Some (combine (map (fun w => t_local (task_of w)) ws) ps))
          (map (fun w => mports (task_of w)) ws) = 0.
Proof.
  intros [W Fr] Cf. unfold mon_env. destruct (forallb w_clean ws) eqn:Cl; [|reflexivity]. cbn [negb].
  pose proof (forallb_clean _ Cl) as Cl'.
  unfold configure_wf in Cf. destruct (configure_some _ _ Cf) as (bm & B & NX & AP). clear Cf. rename AP into Cf.
  pose proof (all_props_length _ _ _ Cf) as Lp. rewrite map_length in Lp.
  assert (Lc : length (combine (map (fun w => t_local (task_of w)) ws) ps) = length ws).
  { rewrite combine_length, map_length, Lp. apply Nat.min_id. }
  rewrite Lc, Nat.eqb_refl. cbn [negb].
  rewrite map_snd_combine, map_fst_combine by (rewrite map_length; lia).
  rewrite combine_app_pad by (rewrite combine_length, map_length, Lp, Nat.min_id; reflexivity).
  apply pick_zero. intros c Hc. apply in_app_or in Hc. destruct Hc as [Hc|Hc].
  - apply in_flat_map in Hc. destruct Hc as ([[w pr] pt] & Hx & Hc).
    destruct (w_chans w) eqn:C; [|contradiction]. apply in_app_or in Hc. destruct Hc as [Hc|Hc].
    + apply in_map_iff in Hc. destruct Hc as (d & <- & Hd).
      eapply check_out_model; eassumption.
    + apply in_map_iff in Hc. destruct Hc as (e & <- & He).
      eapply check_in_model; eassumption.
  - apply in_app_or in Hc. destruct Hc as [Hc|Hc]; [eapply codes9_model; eassumption|].
    apply in_app_or in Hc. destruct Hc as [Hc|Hc].
    + unfold codes8 in Hc. erewrite codes8_model in Hc by eassumption. contradiction.
    + eapply advertised_model; eassumption.
Qed.

Lemma target_hits_names w e tgt :
  is_alias_key (i_name e) = false -> target_hits tgt (w_path w) e = true -> names_target (task_of w) e tgt.
Proof.
  intros PL H. unfold target_hits in H. apply andb_true_iff in H. destruct H as [T H].
  apply negb_true_iff, nonempty_false in T. split; [exact T|].
  unfold target_names in H. apply orb_true_iff in H. destruct H as [H|H].
  - apply str_eqb_spec in H. left. rewrite bind_key_path by exact PL. exact H.
  - apply andb_true_iff in H. destruct H as [G H]. apply str_eqb_spec in H. right.
    split; [apply nonempty_true, G|exact H].
Qed.

Lemma filter_nil {A} (f : A -> bool) l : (forall x, In x l -> f x = false) -> filter f l = [].
Proof.
  induction l as [|x l IH]; intro H; [reflexivity|]. cbn. rewrite (H x (or_introl eq_refl)).
  apply IH. intros y Hy. apply H. right. exact Hy.
Qed.

Lemma monitor_silent_on_refused ws ports :
  wf_env (map task_of ws) -> configure_wf ws = None -> mon_env ws None ports = 0.
Proof.
  intros W Cf. unfold mon_env. destruct (forallb w_clean ws) eqn:Cl; [|reflexivity]. cbn [negb].
  pose proof (forallb_clean _ Cl) as Cl'.
  assert (X : unmatched_in ws || invalid_in ws || alias_twice ws || cross_ipc_in ws = true); [|rewrite X; reflexivity].
  destruct (fails_only_for_cause _ (wf_all_path_ok _ W) Cf)
    as [(t & o & Ht & C & Ho & Ex & Hn)|[(t & c & Ht & C & Hc & T & Ex)|[(t & Ht & AD)|
        [(j1 & j2 & b1 & b2 & k & e1 & e2 & Lt & N1 & N2 & A & L1 & L2)|(bm & t & B & Ht & X)]]]].
  - (* unmatched target *)
    apply orb_true_iff. left. apply orb_true_iff. left. apply orb_true_iff. left.
    apply in_map_iff in Ht. destruct Ht as (w & <- & Hw).
    destruct (clean_facts w (Cl' w Hw)) as (_ & _ & _ & _ & _ & I2).
    unfold unmatched_in. apply existsb_exists. exists w. split; [exact Hw|].
    apply andb_true_iff. split; [exact C|]. apply existsb_exists. exists o. split; [apply I2, Ho|].
    rewrite Ex. cbn [negb andb]. unfold hits_of. rewrite filter_nil; [reflexivity|].
    intros [[[pt w'] pr'] e] Hb. unfold binders_of in Hb. apply in_flat_map in Hb.
    destruct Hb as ([[w2 pr2] pt2] & Hy & Hb). apply in_map_iff in Hy. destruct Hy as (w3 & E3 & Hw3).
    inversion E3; subst w2 pr2 pt2. apply in_map_iff in Hb. destruct Hb as (e' & E' & He').
    inversion E'; subst pt w' pr' e'.
    destruct (clean_facts w3 (Cl' w3 Hw3)) as (_ & _ & [_ PL] & I1 & _). apply I1 in He'.
    destruct (target_hits (o_target o) (w_path w3) e) eqn:Th; [|reflexivity]. exfalso.
    apply (Hn (task_of w3) e (in_map task_of _ _ Hw3) He').
    apply target_hits_names; [apply (PL e He')|exact Th].
  - (* invalid inbound target *)
    apply orb_true_iff. left. apply orb_true_iff. left. apply orb_true_iff. right.
    apply in_map_iff in Ht. destruct Ht as (w & <- & Hw).
    destruct (clean_facts w (Cl' w Hw)) as (_ & _ & _ & I1 & _).
    unfold invalid_in. apply existsb_exists. exists w. split; [exact Hw|].
    apply andb_true_iff. split; [exact C|]. apply existsb_exists. exists c. split; [apply I1, Hc|].
    unfold invalid_target. rewrite Ex. apply nonempty_true in T. rewrite T. reflexivity.
  - (* alias twice in one task *)
    apply orb_true_iff. left. apply orb_true_iff. right. unfold alias_twice. apply orb_true_iff. left.
    apply in_map_iff in Ht. destruct Ht as (w & <- & Hw). cbn [task_of t_in] in AD.
    destruct (forallb (N.eqb 0) (codes9 ws)) eqn:F; [exfalso|reflexivity].
    rewrite forallb_forall in F.
    specialize (F (if nodupb str_eqb (globals_of (eff_in w)) then 0 else 9)).
    rewrite (clean_globals w (Cl' w Hw)), AD in F. cbn [negb] in F.
    assert (Q : (0 =? 9) = true); [|discriminate Q].
    apply F. unfold codes9. apply in_map_iff. exists w. split; [|exact Hw].
    rewrite (clean_globals w (Cl' w Hw)), AD. reflexivity.
  - (* alias in two tasks *)
    apply orb_true_iff. left. apply orb_true_iff. right. unfold alias_twice. apply orb_true_iff. right.
    destruct (nth_error_map_inv _ _ _ _ N1) as (w1 & Hw1 & <-).
    destruct (nth_error_map_inv _ _ _ _ N2) as (w2 & Hw2 & <-).
    assert (Claim : forall w e, In w ws -> In (k, e) (t_local (task_of w)) ->
                      exists c, In c (eff_in w) /\ i_target c = [] /\ i_global c <> [] /\ k = alias_key (i_global c)).
    { intros w e Hw Hl. destruct (clean_facts w (Cl' w Hw)) as (_ & _ & [_ PL] & I1 & _).
      apply local_In_assoc in Hl. unfold t_local in Hl. apply local_bindmap_inv in Hl.
      destruct Hl as (i & c & Hc & [T S] & _). pose proof (nth_error_In _ _ Hc) as Hc'.
      destruct S as [S|[G S]].
      - exfalso. specialize (PL c Hc'). rewrite <- S in PL. congruence.
      - exists c. split; [apply I1, Hc'|]. repeat split; assumption. }
    destruct (Claim w1 e1 (nth_error_In _ _ Hw1) L1) as (c1 & H1 & T1 & G1 & K1).
    destruct (Claim w2 e2 (nth_error_In _ _ Hw2) L2) as (c2 & H2 & T2 & G2 & K2).
    assert (Eg : i_global c2 = i_global c1) by (apply alias_key_inj; congruence).
    apply (cross_dup_intro _ j1 j2 (free_aliases w1) (free_aliases w2) (i_global c1) Lt).
    + apply (map_nth_error free_aliases _ _ Hw1).
    + apply (map_nth_error free_aliases _ _ Hw2).
    + apply free_alias_intro; assumption.
    + rewrite <- Eg. apply free_alias_intro; assumption.
  - (* an IPC endpoint bound on another host *)
    apply orb_true_iff. right.
    apply in_map_iff in Ht. destruct Ht as (w & <- & Hw).
    destruct (clean_facts w (Cl' w Hw)) as (_ & _ & _ & _ & _ & I2).
    unfold cross_ipc in X. apply andb_true_iff in X. destruct X as [C X].
    apply existsb_exists in X. destruct X as (o & Ho & X).
    destruct (assoc (o_target o) bm) as [ep|] eqn:As; [|discriminate].
    apply andb_true_iff in X. destruct X as [Ie X]. apply negb_true_iff in X.
    (* the task whose host was recorded for the key *)
    assert (Wr : exists t2, In t2 (map task_of ws) /\ writes_key t2 (o_target o) /\
                            key_host (map task_of ws) (o_target o) = Some (t_host t2)).
    { unfold env_bindmap in B. destruct (env_from_keys _ _ _ _ _ B As) as [Y|(b & Hb & Wb)];
        [exfalso; apply Y; reflexivity|].
      unfold key_host.
      destruct (find (fun t => writes_keyb t (o_target o))
                     (if is_alias_key (o_target o) then map task_of ws else rev (map task_of ws))) as [t2|] eqn:F.
      - apply find_some in F. destruct F as [H2 W2]. exists t2. split.
        + destruct (is_alias_key (o_target o)); [exact H2|apply in_rev in H2; exact H2].
        + split; [apply writes_keyb_spec, W2|reflexivity].
      - exfalso. apply writes_keyb_spec in Wb.
        assert (Hb' : In b (if is_alias_key (o_target o) then map task_of ws else rev (map task_of ws))).
        { destruct (is_alias_key (o_target o)); [exact Hb|apply in_rev in Hb; exact Hb]. }
        pose proof (find_none _ _ F b Hb') as Y. cbv beta in Y. congruence. }
    destruct Wr as (t2 & Ht2 & (n & ep2 & Hi & Bk) & KH). rewrite KH in X. cbn [option_eqb] in X.
    apply in_map_iff in Ht2. destruct Ht2 as (w2 & <- & Hw2).
    pose proof Hi as Hi'. apply local_In_assoc in Hi'. apply local_bindmap_inv in Hi'.
    destruct Hi' as (i & c & Hc & [T S] & ->).
    destruct (clean_facts w2 (Cl' w2 Hw2)) as (_ & _ & [_ PL] & I1 & _).
    rewrite <- Bk in As.
    destruct (resolved_entry _ bm (task_of w2) n c _ ep W B (in_map task_of _ _ Hw2) Hi As) as (_ & _ & Ic).
    unfold cross_ipc_in. apply existsb_exists. exists w. split; [exact Hw|].
    apply andb_true_iff. split; [exact C|]. apply existsb_exists. exists o. split; [apply I2, Ho|].
    apply existsb_exists. exists ([], w2, [], c). split.
    + apply filter_In. split.
      * unfold binders_of. apply in_flat_map. exists (w2, [], []). split.
        -- apply in_map_iff. exists w2. split; [reflexivity|exact Hw2].
        -- apply in_map. apply I1, (nth_error_In _ _ Hc).
      * unfold target_hits, target_names. apply nonempty_false in T. rewrite T. cbn [negb andb].
        destruct S as [S|[Gl S]]; subst n.
        -- rewrite bind_key_path in Bk by (apply PL, (nth_error_In _ _ Hc)).
           rewrite <- Bk. change (w_path w2) with (t_path (task_of w2)). rewrite str_eqb_refl. reflexivity.
        -- rewrite bind_key_alias in Bk by apply alias_key_is_alias. rewrite <- Bk, str_eqb_refl.
           apply nonempty_true in Gl. rewrite Gl. apply orb_true_r.
    + rewrite <- Ic, Ie. cbn [andb]. change (w_host w2) with (t_host (task_of w2)).
      change (w_host w) with (t_host (task_of w)). rewrite X. reflexivity.
Qed.

(* the bridge: on the case the model itself produces, the monitor reports nothing *)
Lemma monitor_silent_on_model ws : wf_ws ws -> mon13 (model_case ws) = 0.
Proof.
  intros Wf. unfold model_case, model_obs. cbn [mon13].
  destruct (configure_wf ws) as [ps|] eqn:Cf.
  - apply (monitor_silent_on_accepted ws ps Wf Cf).
  - apply (monitor_silent_on_refused ws _ (proj1 Wf) Cf).
Qed.

(* ---------- the pure-layer cases ---------- *)
Lemma in_eqb_refl a : in_eqb a a = true.
Proof. unfold in_eqb. rewrite !str_eqb_refl, Bool.eqb_reflx. reflexivity. Qed.

Lemma out_eqb_refl a : out_eqb a a = true.
Proof. unfold out_eqb. rewrite !str_eqb_refl. reflexivity. Qed.

Lemma merge_monitor {A} (nm : A -> str) (eqb : A -> A -> bool) (R : forall a, eqb a a = true) hp lp :
  forallb (fun c => option_eqb eqb (find_by nm (nm c) (merge nm hp lp)) (find_by nm (nm c) hp)) hp &&
  forallb (fun c => is_some (find_by nm (nm c) (merge nm hp lp))) lp = true.
Proof.
  apply andb_true_iff. split; apply forallb_forall; intros c Hc; rewrite merge_find.
  - destruct (find_by nm (nm c) hp) as [c'|] eqn:F; [apply R|].
    exfalso. apply (find_by_none nm) in F. apply F. apply in_map. exact Hc.
  - destruct (find_by nm (nm c) hp); [reflexivity|].
    destruct (find_by nm (nm c) lp) eqn:F; [reflexivity|].
    exfalso. apply (find_by_none nm) in F. apply F. apply in_map. exact Hc.
Qed.

Lemma monitor_silent_on_model_pure :
  (forall i bm, mon13 (CInFmq i bm (inbound_props bm i)) = 0) /\
  (forall o bm, mon13 (COutFmq o bm (outbound_props bm o)) = 0) /\
  (forall hp lp, mon13 (CMergeIn hp lp (merge i_name hp lp)) = 0) /\
  (forall hp lp, mon13 (CMergeOut hp lp (merge o_name hp lp)) = 0) /\
  (forall e host f, mon13 (CEndpoint e host f (ep_address e, to_target host e, to_bound e, ep_eqb e f)) = 0).
Proof.
  repeat split.
  - intros i bm. cbn [mon13]. unfold inbound_props. destruct (is_explicit (i_target i)).
    + rewrite !str_eqb_refl. reflexivity.
    + destruct (nonempty (i_target i)); [reflexivity|].
      destruct (assoc (i_name i) bm) as [ep|]; [|reflexivity].
      assert (X : bound_addr_ok (ep_address (to_bound ep)) ep = true).
      { destruct ep as [h p t|p t]; cbn [to_bound bound_addr_ok].
        - assert (E : ep_address (Tcp s_star p t) = s_tcp_star ++ dec p) by reflexivity.
          rewrite E. apply str_eqb_refl.
        - apply str_eqb_refl. }
      rewrite X, !str_eqb_refl. reflexivity.
  - intros o bm. cbn [mon13]. unfold outbound_props. destruct (is_explicit (o_target o)).
    + rewrite !str_eqb_refl. reflexivity.
    + destruct (assoc (o_target o) bm) as [ep|] eqn:As.
      * assert (X : existsb (fun kv : str * endpoint => str_eqb (fst kv) (o_target o) &&
                      str_eqb (ep_address ep) (ep_address (snd kv)) &&
                      str_eqb (ep_transport ep) (ep_transport (snd kv))) bm = true).
        { apply existsb_exists. exists (o_target o, ep). split; [apply assoc_In, As|].
          cbn [fst snd]. rewrite !str_eqb_refl. reflexivity. }
        rewrite X, str_eqb_refl. reflexivity.
      * unfold key_in. rewrite As. reflexivity.
  - intros hp lp. cbn [mon13]. rewrite (merge_monitor i_name in_eqb in_eqb_refl). reflexivity.
  - intros hp lp. cbn [mon13]. rewrite (merge_monitor o_name out_eqb out_eqb_refl). reflexivity.
  - intros e host f. cbn [mon13]. destruct e as [h p t|p t]; cbn [to_target to_bound].
    + rewrite !str_eqb_refl, !N.eqb_refl. reflexivity.
    + rewrite !str_eqb_refl. reflexivity.
Qed.

(* ====================================================================================== *)
(* what a silent monitor says about the observed run (each code, read backwards)           *)
(* ====================================================================================== *)
(* codes 2, 3, 4, 1, 5, 6, 15: an outbound channel *)
Lemma check_out_sound bs host pr d :
  check_out bs host pr d = 0 ->
  exists addr tr, assoc (o_name d) pr = Some (addr, m_connect, tr) /\
    (is_explicit (o_target d) = true -> addr = o_target d /\ tr = o_tr d) /\
    (is_explicit (o_target d) = false ->
     exists pt w prb e, In (pt, w, prb, e) bs /\ target_hits (o_target d) (w_path w) e = true /\
                        good_hit addr tr (pt, w, prb, e) = true /\
                        (has_prefix s_ipc addr = true -> w_host w = host)).
Proof.
  unfold check_out. destruct (assoc (o_name d) pr) as [[[addr meth] tr]|].
  2: { destruct (negb (is_explicit (o_target d)) && negb (nonempty (hits_of bs d))); discriminate. }
  destruct (str_eqb meth m_connect) eqn:M; cbn [negb]; [|discriminate]. apply str_eqb_spec in M. subst meth.
  intro H. exists addr, tr. split; [reflexivity|]. destruct (is_explicit (o_target d)).
  - split; [|discriminate]. intros _.
    destruct (str_eqb addr (o_target d) && str_eqb tr (o_tr d)) eqn:E; [|discriminate].
    apply andb_true_iff in E. destruct E as [E1 E2]. apply str_eqb_spec in E1, E2. split; assumption.
  - split; [discriminate|]. intros _.
    destruct (existsb (good_hit addr tr) (hits_of bs d)) eqn:G.
    + destruct (has_prefix s_ipc addr) eqn:Pi; cbn [andb] in H.
      * destruct (existsb (fun b => good_hit addr tr b && str_eqb (binder_host b) host) (hits_of bs d)) eqn:G2;
          cbn [negb] in H; [|discriminate].
        apply existsb_exists in G2. destruct G2 as ([[[pt w] prb] e] & Hb & G2). apply andb_true_iff in G2.
        destruct G2 as [G2 Hh]. apply str_eqb_spec in Hh. cbn [binder_host] in Hh.
        unfold hits_of in Hb. apply filter_In in Hb. destruct Hb as [Hb Th].
        exists pt, w, prb, e. repeat split; try assumption. intros _. exact Hh.
      * apply existsb_exists in G. destruct G as ([[[pt w] prb] e] & Hb & G). unfold hits_of in Hb.
        apply filter_In in Hb. destruct Hb as [Hb Th]. exists pt, w, prb, e. repeat split; try assumption.
        discriminate.
    + destruct (existsb (known_hit 5 addr tr) (named_by bs d)); [discriminate|].
      destruct (existsb (known_hit 6 addr tr) (named_by bs d)); [discriminate|].
      destruct (nonempty (hits_of bs d)); discriminate.
Qed.

(* what "agrees with the binder" means for a binder that receives channel configuration *)
Lemma good_hit_sound addr tr pt w pr e :
  w_chans w = true -> good_hit addr tr (pt, w, pr, e) = true ->
  exists baddr, assoc (i_name e) pr = Some (baddr, m_bind, tr) /\
    ((exists ps, baddr = s_tcp ++ s_star ++ s_colon ++ ps /\ addr = s_tcp ++ w_host w ++ s_colon ++ ps) \/
     (exists path, baddr = s_ipc ++ path /\ addr = baddr)).
Proof.
  intros C H. unfold good_hit in H. rewrite C in H.
  destruct (assoc (i_name e) pr) as [[[baddr bmeth] btr]|]; [|discriminate].
  apply andb_true_iff in H. destruct H as [H E3]. apply andb_true_iff in H. destruct H as [E1 Ag].
  apply str_eqb_spec in E1, E3. subst. exists baddr. split; [reflexivity|]. apply agree_sound, Ag.
Qed.

(* ... and for one that does not (control mode basic): the allocation is compared *)
Lemma alloc_addr_sound host pt e addr tr :
  alloc_addr_ok host pt e addr tr = true ->
  tr = i_tr e /\
  (i_ipc e = true -> exists path, addr = s_ipc ++ path) /\
  (i_ipc e = false -> exists p, In p pt /\ addr = s_tcp ++ host ++ s_colon ++ dec p).
Proof.
  unfold alloc_addr_ok. intro H. apply andb_true_iff in H. destruct H as [E H]. apply str_eqb_spec in E.
  split; [exact E|]. destruct (i_ipc e).
  - split; [|discriminate]. intros _. apply (has_prefix_some _ _ H).
  - split; [discriminate|]. intros _.
    destruct (drop_prefix (s_tcp ++ host ++ s_colon) addr) as [ps|] eqn:D; [|discriminate].
    apply drop_prefix_some in D. apply port_in_elim in H. destruct H as (p & Hp & ->).
    exists p. split; [exact Hp|]. rewrite D, <- !app_assoc. reflexivity.
Qed.

(* codes 3, 6, 7, 11: an inbound channel *)
Lemma check_in_sound pt pr e :
  check_in pt pr e = 0 ->
  exists baddr btr, assoc (i_name e) pr = Some (baddr, m_bind, btr) /\
    (is_explicit (i_target e) = true -> baddr = i_target e /\ btr = i_tr e) /\
    (is_explicit (i_target e) = false ->
       i_target e = [] /\ btr = i_tr e /\
       (i_ipc e = true -> exists path, baddr = s_ipc ++ path) /\
       (i_ipc e = false -> exists p, In p pt /\ baddr = s_tcp ++ s_star ++ s_colon ++ dec p)).
Proof.
  unfold check_in. destruct (assoc (i_name e) pr) as [[[baddr meth] btr]|].
  2: { destruct (invalid_target (i_target e)); discriminate. }
  destruct (str_eqb meth m_bind) eqn:M; cbn [negb]; [|discriminate]. apply str_eqb_spec in M. subst meth.
  intro H. exists baddr, btr. split; [reflexivity|]. unfold invalid_target in H.
  destruct (is_explicit (i_target e)).
  - split; [|discriminate]. intros _.
    destruct (str_eqb baddr (i_target e) && str_eqb btr (i_tr e)) eqn:E; [|discriminate].
    apply andb_true_iff in E. destruct E as [E1 E2]. apply str_eqb_spec in E1, E2. split; assumption.
  - split; [discriminate|]. intros _. cbn [negb andb] in H. rewrite andb_true_r in H.
    destruct (nonempty (i_target e)) eqn:Ne; [discriminate|]. apply nonempty_false in Ne.
    split; [exact Ne|].
    destruct (str_eqb btr (i_tr e)) eqn:T; cbn [negb] in H; [|discriminate]. apply str_eqb_spec in T.
    split; [exact T|]. destruct (i_ipc e).
    + split; [|discriminate]. intros _. destruct (has_prefix s_ipc baddr) eqn:P; [|discriminate].
      apply (has_prefix_some _ _ P).
    + split; [discriminate|]. intros _.
      destruct (drop_prefix s_tcp_star baddr) as [ps|] eqn:D; [|discriminate].
      destruct (port_in ps pt) eqn:Pi; [|discriminate].
      apply drop_prefix_some in D. apply port_in_elim in Pi. destruct Pi as (p & Hp & ->).
      exists p. split; [exact Hp|exact D].
Qed.

(* codes 8 and 9 *)
Lemma cross_dup_false_sound ws j1 j2 w1 w2 e1 e2 :
  cross_dup (map free_aliases ws) = false ->
  nth_error ws j1 = Some w1 -> nth_error ws j2 = Some w2 -> j1 <> j2 ->
  In e1 (eff_in w1) -> In e2 (eff_in w2) -> i_target e1 = [] -> i_target e2 = [] -> i_global e1 <> [] ->
  i_global e2 <> i_global e1.
Proof.
  intros X H1 H2 Ne I1 I2 T1 T2 G E.
  assert (G2 : i_global e2 <> []) by congruence.
  assert (cross_dup (map free_aliases ws) = true); [|congruence].
  destruct (Nat.lt_total j1 j2) as [Lt|[Eq|Gt]]; [|contradiction|].
  - apply (cross_dup_intro _ j1 j2 (free_aliases w1) (free_aliases w2) (i_global e1) Lt);
      try (apply (map_nth_error free_aliases); assumption).
    + apply free_alias_intro; assumption.
    + rewrite <- E. apply free_alias_intro; assumption.
  - apply (cross_dup_intro _ j2 j1 (free_aliases w2) (free_aliases w1) (i_global e1) Gt);
      try (apply (map_nth_error free_aliases); assumption).
    + rewrite <- E. apply free_alias_intro; assumption.
    + apply free_alias_intro; assumption.
Qed.

(* the whole: a silent monitor on an accepted configuration *)
Lemma monitor_silent_sound ws os ports :
  forallb w_clean ws = true -> mon_env ws (Some os) ports = 0 ->
  length ws = length os /\
  let wpp := combine (combine ws (map snd os)) (ports ++ repeat [] (length ws)) in
  let bs := binders_of wpp in
  (forall w pr pt, In (w, pr, pt) wpp -> w_chans w = true ->
     (forall d, In d (eff_out w) -> check_out bs (w_host w) pr d = 0) /\
     (forall e, In e (eff_in w) -> check_in pt pr e = 0)) /\
  (forall w, In w ws -> NoDup (globals_of (eff_in w))) /\
  cross_dup (map free_aliases ws) = false /\
  (forall w loc e, In (w, loc) (combine ws (map fst os)) -> In e (eff_in w) -> i_target e <> [] ->
     assoc (i_name e) loc = None).
Proof.
  intros Cl H. unfold mon_env in H. rewrite Cl in H. cbn [negb] in H.
  destruct (length ws =? length os)%nat eqn:L; cbn [negb] in H; [|discriminate].
  apply Nat.eqb_eq in L. split; [exact L|]. cbv zeta.
  rewrite pick_zero in H. repeat split.
  - intros d Hd. apply H. apply in_or_app. left. apply in_flat_map. exists (w, pr, pt).
    split; [assumption|]. rewrite H1. apply in_or_app. left. apply in_map. exact Hd.
  - intros e He. apply H. apply in_or_app. left. apply in_flat_map. exists (w, pr, pt).
    split; [assumption|]. rewrite H1. apply in_or_app. right. apply in_map. exact He.
  - intros w Hw. apply nodupb_NoDup.
    destruct (nodupb str_eqb (globals_of (eff_in w))) eqn:Nd; [reflexivity|]. exfalso.
    assert (9 = 0); [|discriminate]. apply H. apply in_or_app. right. apply in_or_app. left.
    unfold codes9. apply in_map_iff. exists w. split; [rewrite Nd; reflexivity|exact Hw].
  - destruct (cross_dup (map free_aliases ws)) eqn:X; [|reflexivity]. exfalso.
    assert (8 = 0); [|discriminate]. apply H. apply in_or_app. right. apply in_or_app. right.
    apply in_or_app. left. unfold codes8. rewrite X. left. reflexivity.
  - intros w loc e Hx He T. destruct (assoc (i_name e) loc) eqn:A; [|reflexivity]. exfalso.
    assert (5 = 0); [|discriminate]. apply H. apply in_or_app. right. apply in_or_app. right.
    apply in_or_app. right. unfold advertised_codes. apply in_flat_map. exists (w, loc). split; [exact Hx|].
    cbn [fst snd]. apply in_map_iff. exists e. split; [|exact He].
    apply nonempty_true in T. rewrite T, A. reflexivity.
Qed.

(* codes 12 (and 20): a refusal is justified by one of the causes the property names *)
Lemma monitor_silent_refused_sound ws ports :
  forallb w_clean ws = true -> mon_env ws None ports = 0 ->
  unmatched_in ws = true \/ invalid_in ws = true \/ alias_twice ws = true \/ cross_ipc_in ws = true.
Proof.
  intros Cl H. unfold mon_env in H. rewrite Cl in H. cbn [negb] in H.
  destruct (unmatched_in ws); [left; reflexivity|]. destruct (invalid_in ws); [right; left; reflexivity|].
  destruct (alias_twice ws); [right; right; left; reflexivity|].
  destruct (cross_ipc_in ws); [right; right; right; reflexivity|discriminate].
Qed.
