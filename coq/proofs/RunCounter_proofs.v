(* Proofs about model/RunCounter.v (property C07). *)
From Verif Require Import Common RunCounter.
From Coq Require Import DecimalN DecimalPos.
Open Scope N_scope.

(* ================= decimal strings ================= *)
Lemma bytes_uint_uint_bytes u : bytes_uint (uint_bytes u) = Some u.
Proof. induction u as [|u IH|u IH|u IH|u IH|u IH|u IH|u IH|u IH|u IH|u IH]; cbn [uint_bytes bytes_uint];
  try reflexivity; rewrite IH; reflexivity. Qed.

Lemma uint_bytes_nil u : uint_bytes u = [] -> u = Decimal.Nil.
Proof. destruct u; cbn; intro H; try reflexivity; discriminate. Qed.

Lemma to_uint_nonnil n : N.to_uint n <> Decimal.Nil.
Proof. destruct n as [|p]; cbn; [discriminate|apply Unsigned.to_uint_nonnil]. Qed.

Lemma parse_fmt n : n < two32 -> parse_u32 (fmt_u n) = Some n.
Proof.
  intro Hn. unfold parse_u32, fmt_u.
  destruct (uint_bytes (N.to_uint n)) eqn:E.
  - apply uint_bytes_nil in E. exfalso. exact (to_uint_nonnil n E).
  - rewrite <- E. rewrite bytes_uint_uint_bytes. cbv zeta.
    rewrite DecimalN.Unsigned.of_to.
    apply N.ltb_lt in Hn. rewrite Hn. reflexivity.
Qed.

Lemma parse_lt s v : parse_u32 s = Some v -> v < two32.
Proof.
  unfold parse_u32. destruct s as [|c r]; [discriminate|].
  destruct (bytes_uint (c :: r)) as [u|]; [|discriminate]. cbv zeta.
  destruct (N.of_uint u <? two32) eqn:E; [|discriminate].
  intro H. inversion H; subst. apply N.ltb_lt. exact E.
Qed.

Lemma parse_zero : parse_u32 [48] = Some 0.
Proof. reflexivity. Qed.

Lemma incr32_small v : v < max_u32 -> incr32 v = v + 1.
Proof. intro H. unfold incr32. apply N.mod_small. unfold max_u32, two32 in *. lia. Qed.

Lemma incr32_zero : incr32 0 = 1.
Proof. reflexivity. Qed.

(* the overflow check: the error branch is taken exactly at 2^32-1 *)
Lemma next32_zero : next32 0 = Some 1.
Proof. reflexivity. Qed.

Lemma next32_max : next32 max_u32 = None.
Proof. reflexivity. Qed.

Lemma next32_some v n : v < two32 -> next32 v = Some n -> v < max_u32 /\ n = v + 1.
Proof.
  intros Hv. unfold next32. cbv zeta. destruct (incr32 v =? 0) eqn:E; [discriminate|].
  intro H. inversion H; subst. apply N.eqb_neq in E.
  destruct (N.eq_dec v max_u32) as [->|Hne]; [exfalso; apply E; reflexivity|].
  assert (Hm : v < max_u32) by (unfold max_u32, two32 in *; lia).
  split; [exact Hm|apply incr32_small; exact Hm].
Qed.

Lemma next32_none v : v < two32 -> next32 v = None -> v = max_u32.
Proof.
  intros Hv. unfold next32. cbv zeta. destruct (incr32 v =? 0) eqn:E; [|discriminate].
  intros _. destruct (N.eq_dec v max_u32) as [->|Hne]; [reflexivity|exfalso].
  assert (Hm : v < max_u32) by (unfold max_u32, two32 in *; lia).
  rewrite (incr32_small v Hm) in E. apply N.eqb_eq in E. lia.
Qed.

(* ================= assoc-list callers ================= *)
Lemma get_upd_same cs i c : get (upd cs i c) i = c.
Proof. unfold get, upd. cbn. rewrite N.eqb_refl. reflexivity. Qed.

Lemma get_upd_other cs i j c : j <> i -> get (upd cs i c) j = get cs j.
Proof. intro H. unfold get, upd. cbn. apply N.eqb_neq in H. rewrite H. reflexivity. Qed.

(* ================= list helpers ================= *)
Inductive sublist {A} : list A -> list A -> Prop :=
| sl_nil : sublist [] []
| sl_skip x l1 l2 : sublist l1 l2 -> sublist l1 (x :: l2)
| sl_keep x l1 l2 : sublist l1 l2 -> sublist (x :: l1) (x :: l2).

Lemma sublist_Forall {A} (P : A -> Prop) l1 l2 : sublist l1 l2 -> Forall P l2 -> Forall P l1.
Proof.
  induction 1 as [|x l1 l2 H IH|x l1 l2 H IH]; intro F.
  - constructor.
  - inversion F; subst. auto.
  - inversion F; subst. constructor; auto.
Qed.

Lemma sublist_sorted {A} (R : A -> A -> Prop) l1 l2 :
  sublist l1 l2 -> StronglySorted R l2 -> StronglySorted R l1.
Proof.
  induction 1 as [|x l1 l2 H IH|x l1 l2 H IH]; intro S.
  - constructor.
  - inversion S; subst. auto.
  - inversion S; subst. constructor; [auto|]. eapply sublist_Forall; eauto.
Qed.

Lemma sublist_app {A} (a1 a2 b1 b2 : list A) :
  sublist a1 a2 -> sublist b1 b2 -> sublist (a1 ++ b1) (a2 ++ b2).
Proof.
  induction 1 as [|x l1 l2 H IH|x l1 l2 H IH]; intro Hb; cbn.
  - exact Hb.
  - apply sl_skip. auto.
  - apply sl_keep. auto.
Qed.

Lemma sublist_rev {A} (l1 l2 : list A) : sublist l1 l2 -> sublist (rev l1) (rev l2).
Proof.
  induction 1 as [|x l1 l2 H IH|x l1 l2 H IH]; cbn.
  - constructor.
  - rewrite <- (app_nil_r (rev l1)). apply sublist_app; [exact IH|]. apply sl_skip, sl_nil.
  - apply sublist_app; [exact IH|]. apply sl_keep, sl_nil.
Qed.

Lemma ssorted_snoc l a :
  StronglySorted N.lt l -> Forall (fun x => x < a) l -> StronglySorted N.lt (l ++ [a]).
Proof.
  induction l as [|x l IH]; cbn; intros S F.
  - constructor; constructor.
  - inversion S; subst. inversion F; subst. constructor; [auto|].
    apply Forall_app. split; [assumption|]. constructor; [assumption|constructor].
Qed.

Lemma ssorted_rev l : StronglySorted N.gt l -> StronglySorted N.lt (rev l).
Proof.
  induction l as [|x l IH]; cbn; intro S.
  - constructor.
  - inversion S as [|? ? S' F]; subst. apply ssorted_snoc; [auto|].
    apply Forall_forall. intros y Hy. apply in_rev in Hy.
    rewrite Forall_forall in F. specialize (F y Hy). lia.
Qed.

Lemma ssorted_nodup l : StronglySorted N.lt l -> NoDup l.
Proof.
  induction 1 as [|x l S IH F]; constructor; [|assumption].
  intro Hin. rewrite Forall_forall in F. specialize (F x Hin). lia.
Qed.

Lemma ssorted_app_lt a x b y c :
  StronglySorted N.lt (a ++ x :: b ++ y :: c) -> x < y.
Proof.
  induction a as [|z a IH]; cbn; intro S.
  - inversion S as [|? ? S' F]; subst. rewrite Forall_forall in F. apply F.
    apply in_or_app. right. left. reflexivity.
  - inversion S; subst. auto.
Qed.

Lemma in_two_split {A} (e1 e2 : A) l :
  In e1 l -> In e2 l -> e1 <> e2 ->
  (exists a b c, l = a ++ e1 :: b ++ e2 :: c) \/ (exists a b c, l = a ++ e2 :: b ++ e1 :: c).
Proof.
  induction l as [|x l IH]; intros H1 H2 Hne; [destruct H1|].
  destruct H1 as [->|H1], H2 as [->|H2].
  - congruence.
  - left. apply in_split in H2. destruct H2 as (b & c & ->). exists [], b, c. reflexivity.
  - right. apply in_split in H1. destruct H1 as (b & c & ->). exists [], b, c. reflexivity.
  - destruct (IH H1 H2 Hne) as [(a & b & c & ->)|(a & b & c & ->)].
    + left. exists (x :: a), b, c. reflexivity.
    + right. exists (x :: a), b, c. reflexivity.
Qed.

(* ================= views of the trace ================= *)
Lemma flat_consumed_rev tr : flat_map ev_consumed (rev tr) = rev (flat_map ev_consumed tr).
Proof.
  induction tr as [|e tr IH]; cbn; [reflexivity|].
  rewrite flat_map_app, IH. cbn. rewrite app_nil_r, rev_app_distr.
  destruct e; reflexivity.
Qed.

Lemma handed_sub_consumed l : sublist (flat_map ev_handed l) (flat_map ev_consumed l).
Proof.
  induction l as [|e l IH]; cbn; [constructor|].
  destruct e; cbn; [exact IH|apply sl_keep; exact IH|apply sl_skip; exact IH].
Qed.

Lemma in_ret_handed i n l : In (EvRet i n) l -> In n (flat_map ev_handed l).
Proof. intro H. apply in_flat_map. exists (EvRet i n). split; [assumption|left; reflexivity]. Qed.

Lemma in_handed_ret n l : In n (flat_map ev_handed l) -> exists i, In (EvRet i n) l.
Proof.
  intro H. apply in_flat_map in H. destruct H as (e & He & Hn).
  destruct e; cbn in Hn; try contradiction. destruct Hn as [->|[]]. eauto.
Qed.

(* ================= the link between results and the trace (no hypothesis needed) ================= *)
Definition link (st : state) : Prop :=
  forall i n, In (EvRet i n) (s_trace st) <-> get (s_callers st) i = Done (Some n).

Lemma after_read_not_done kv n : after_read kv <> Done (Some n).
Proof.
  unfold after_read, bump. destruct kv as [[b idx]|].
  - destruct (parse_u32 b) as [v|]; [destruct (next32 v)|]; discriminate.
  - rewrite parse_zero, next32_zero. discriminate.
Qed.

Lemma link_set_nonret st i c e :
  link st ->
  (forall n, get (s_callers st) i <> Done (Some n)) ->
  (forall n, c <> Done (Some n)) ->
  (forall j n, e <> [EvRet j n]) -> (length e <= 1)%nat ->
  forall s' lg, link (mkState s' (upd (s_callers st) i c) (e ++ s_trace st) lg).
Proof.
  intros L Hold Hnew He Hlen s' lg j n. cbn [s_trace s_callers].
  assert (Hin : In (EvRet j n) (e ++ s_trace st) <-> In (EvRet j n) (s_trace st)).
  { split; intro H.
    - apply in_app_or in H. destruct H as [H|H]; [|exact H].
      destruct e as [|x [|y e]]; cbn in *; try lia; try contradiction.
      destruct H as [->|[]]. exfalso. exact (He j n eq_refl).
    - apply in_or_app. right. exact H. }
  rewrite Hin. destruct (N.eq_dec j i) as [->|Hne].
  - rewrite get_upd_same. split; intro H.
    + apply L in H. exfalso. exact (Hold n H).
    + exfalso. exact (Hnew n H).
  - rewrite get_upd_other by assumption. apply L.
Qed.

Lemma link_step_caller st i mode : link st -> link (step_caller st i mode).
Proof.
  intro L. unfold step_caller.
  destruct (get (s_callers st) i) as [|n idx|r|] eqn:G; [| | exact L | exact L].
  - (* Idle *)
    destruct (mode =? 0).
    + apply (link_set_nonret st i _ [EvRead i] L).
      * intros n H. rewrite G in H. discriminate.
      * apply after_read_not_done.
      * intros j n H. discriminate.
      * cbn. lia.
    + apply (link_set_nonret st i _ [] L).
      * intros n H. rewrite G in H. discriminate.
      * intros n. destruct (mode =? 3); discriminate.
      * intros j n H. discriminate.
      * cbn. lia.
  - (* HasRead *)
    destruct ((mode =? 0) || (mode =? 2)) eqn:M.
    + destruct (cas_applies (s_store st) idx).
      * destruct (mode =? 0) eqn:M0.
        -- (* returns n *)
           intros j m. cbn [s_trace s_callers]. destruct (N.eq_dec j i) as [->|Hne].
           ++ rewrite get_upd_same. split; intro H.
              ** destruct H as [H|H]; [inversion H; reflexivity|].
                 apply L in H. rewrite G in H. discriminate.
              ** inversion H; subst. left. reflexivity.
           ++ rewrite get_upd_other by assumption. rewrite <- (L j m). split; intro H.
              ** destruct H as [H|H]; [inversion H; congruence|exact H].
              ** right. exact H.
        -- apply (link_set_nonret st i _ [EvLost i n] L).
           ++ intros m H. rewrite G in H. discriminate.
           ++ intros m. discriminate.
           ++ intros j m H. discriminate.
           ++ cbn. lia.
      * apply (link_set_nonret st i _ [] L).
        -- intros m H. rewrite G in H. discriminate.
        -- intros m. discriminate.
        -- intros j m H. discriminate.
        -- cbn. lia.
    + apply (link_set_nonret st i _ [] L).
      * intros m H. rewrite G in H. discriminate.
      * intros m. destruct (mode =? 3); discriminate.
      * intros j m H. discriminate.
      * cbn. lia.
Qed.

Lemma link_step st x : link st -> link (do_step st x).
Proof.
  intro L. destruct x; cbn [do_step]; try (apply link_step_caller; exact L);
    intros j n; cbn [s_trace s_callers]; apply L.
Qed.

Lemma link_run sched : forall st, link st -> link (run st sched).
Proof.
  induction sched as [|x r IH]; intros st L; cbn; [exact L|]. apply IH. apply link_step. exact L.
Qed.

Lemma link_init s0 : link (init s0).
Proof. intros i n. cbn. split; [intros []|discriminate]. Qed.

Lemma result_iff_ret s0 sched i n :
  result (run (init s0) sched) i = Some n <-> In (EvRet i n) (chron (run (init s0) sched)).
Proof.
  pose proof (link_run sched _ (link_init s0) i n) as L.
  unfold chron. rewrite <- in_rev. rewrite L. unfold result.
  destruct (get (s_callers (run (init s0) sched)) i) as [| | [m|] |]; split; intro H;
    try discriminate; try (inversion H; reflexivity).
Qed.

(* ================= the main invariant ================= *)
Definition caller_inv (s : store) (c : cstate) : Prop :=
  match c with
  | HasRead n idx =>
      idx <= st_clock s /\ n < two32 /\ (idx = 0 -> n = 1) /\
      (cas_applies s idx = true -> n = cur s + 1)
  | _ => True
  end.

Definition nums (tr : list ev) : list N := flat_map ev_consumed tr.

Record inv (v0 : N) (st : state) : Prop := mkInv {
  inv_wf : wf_store (s_store st);
  inv_v0 : v0 <= cur (s_store st);
  inv_le : Forall (fun n => n <= cur (s_store st)) (nums (s_trace st));
  inv_gt0 : Forall (fun n => v0 < n) (nums (s_trace st));
  inv_sorted : StronglySorted N.gt (nums (s_trace st));
  inv_callers : forall i, caller_inv (s_store st) (get (s_callers st) i)
}.

Lemma inv_init s0 : wf_store s0 -> inv (cur s0) (init s0).
Proof.
  intro W. constructor; cbn [init s_store s_trace s_callers nums flat_map].
  - exact W.
  - lia.
  - constructor.
  - constructor.
  - constructor.
  - intro i. exact I.
Qed.

Lemma cur_write s b v : parse_u32 b = Some v -> cur (write s b) = v.
Proof. intro H. unfold cur, write. cbn. rewrite H. reflexivity. Qed.

Lemma wf_write s b : wf_store (write s b).
Proof. unfold wf_store, write. cbn. lia. Qed.

(* after any write no reader's index matches any more *)
Lemma caller_inv_write s b c : caller_inv s c -> caller_inv (write s b) c.
Proof.
  destruct c as [|n idx|r|]; cbn; try exact (fun x => x).
  intros (Hc & Hn & H0 & _). repeat split; try assumption; try lia.
  intro Happ. exfalso. unfold cas_applies, write in Happ. cbn in Happ.
  apply andb_true_iff in Happ. destruct Happ as [_ Happ]. apply N.eqb_eq in Happ. lia.
Qed.

Lemma Forall_le_trans (l : list N) a b : a <= b -> Forall (fun n => n <= a) l -> Forall (fun n => n <= b) l.
Proof. intros H F. eapply Forall_impl; [|exact F]. cbn. intros. lia. Qed.

(* the step that takes a number out of the counter *)
Lemma inv_take v0 st i n idx (e : ev) c lg :
  inv v0 st ->
  get (s_callers st) i = HasRead n idx ->
  cas_applies (s_store st) idx = true ->
  ev_consumed e = [n] ->
  caller_inv (write (s_store st) (fmt_u n)) c ->
  inv v0 (mkState (write (s_store st) (fmt_u n)) (upd (s_callers st) i c) (e :: s_trace st) lg).
Proof.
  intros [W V Le G0 S C] G Happ He Hc.
  pose proof (C i) as Ci. rewrite G in Ci. cbn in Ci. destruct Ci as (_ & Hn & _ & Hcur).
  specialize (Hcur Happ).
  assert (Hc' : cur (write (s_store st) (fmt_u n)) = n) by (apply cur_write, parse_fmt, Hn).
  assert (Hnums : nums (e :: s_trace st) = n :: nums (s_trace st)).
  { unfold nums. cbn [flat_map]. rewrite He. reflexivity. }
  constructor; cbn [s_store s_callers s_trace]; rewrite ?Hnums, ?Hc'.
  - apply wf_write.
  - lia.
  - constructor; [lia|]. eapply Forall_le_trans; [|exact Le]. lia.
  - constructor; [lia|exact G0].
  - constructor; [exact S|]. eapply Forall_impl; [|exact Le]. cbn. intros a Ha. lia.
  - intro j. destruct (N.eq_dec j i) as [->|Hne].
    + rewrite get_upd_same. exact Hc.
    + rewrite get_upd_other by assumption. apply caller_inv_write. apply C.
Qed.

(* a step that changes only caller i, to a state without obligations, and adds no number *)
Lemma inv_quiet v0 st i (e : list ev) c lg :
  inv v0 st -> flat_map ev_consumed e = [] -> caller_inv (s_store st) c ->
  inv v0 (mkState (s_store st) (upd (s_callers st) i c) (e ++ s_trace st) lg).
Proof.
  intros [W V Le G0 S C] He Hc.
  constructor; cbn [s_store s_callers s_trace]; try assumption;
    try (unfold nums; rewrite flat_map_app, He; cbn; assumption).
  intro j. destruct (N.eq_dec j i) as [->|Hne].
  - rewrite get_upd_same. exact Hc.
  - rewrite get_upd_other by assumption. apply C.
Qed.

Lemma caller_inv_after_read s :
  wf_store s -> caller_inv s (after_read (st_kv s)).
Proof.
  intros W. unfold after_read, bump. destruct (st_kv s) as [[b idx]|] eqn:K.
  - destruct (parse_u32 b) as [v|] eqn:P; [|exact I].
    destruct (next32 v) as [n|] eqn:Nx; [|exact I].
    destruct (next32_some v n (parse_lt _ _ P) Nx) as [Hm ->].
    assert (Hv : cur s = v) by (unfold cur; rewrite K, P; reflexivity).
    unfold wf_store in W. rewrite K in W. cbn.
    unfold max_u32, two32 in *.
    repeat split; try lia.
  - rewrite parse_zero, next32_zero. cbn.
    assert (Hv : cur s = 0) by (unfold cur; rewrite K; reflexivity).
    unfold two32. repeat split; try lia.
Qed.

Lemma inv_step_caller v0 st i mode :
  inv v0 st ->
  inv v0 (step_caller st i mode).
Proof.
  intros Hinv. unfold step_caller.
  destruct (get (s_callers st) i) as [|n idx|r|] eqn:G; [| | exact Hinv | exact Hinv].
  - destruct (mode =? 0) eqn:M.
    + apply (inv_quiet v0 st i [EvRead i] _ _ Hinv); [reflexivity|].
      apply caller_inv_after_read. apply Hinv.
    + apply (inv_quiet v0 st i [] _ _ Hinv); [reflexivity|].
      destruct (mode =? 3); exact I.
  - destruct ((mode =? 0) || (mode =? 2)).
    + destruct (cas_applies (s_store st) idx) eqn:A.
      * destruct (mode =? 0).
        -- apply (inv_take v0 st i n idx _ _ _ Hinv G A); [reflexivity|exact I].
        -- apply (inv_take v0 st i n idx _ _ _ Hinv G A); [reflexivity|exact I].
      * apply (inv_quiet v0 st i [] _ _ Hinv); [reflexivity|exact I].
    + apply (inv_quiet v0 st i [] _ _ Hinv); [reflexivity|].
      destruct (mode =? 3); exact I.
Qed.

Lemma inv_step v0 st x : inv v0 st -> step_ok st x -> inv v0 (do_step st x).
Proof.
  intros Hinv Hok. destruct x as [i|i|i|i|v|]; cbn [do_step].
  - apply inv_step_caller; exact Hinv.
  - apply inv_step_caller; exact Hinv.
  - apply inv_step_caller; exact Hinv.
  - apply inv_step_caller; exact Hinv.
  - (* foreign put *)
    destruct Hok as (m & Pm & Hm). destruct Hinv as [W V Le G0 S C].
    pose proof (cur_write (s_store st) v m Pm) as Hc.
    constructor; cbn [s_store s_callers s_trace].
    + apply wf_write.
    + rewrite Hc. lia.
    + rewrite Hc. eapply Forall_le_trans; [|exact Le]. exact Hm.
    + exact G0.
    + exact S.
    + intro j. apply caller_inv_write. apply C.
  - (* foreign delete, only when the counter stands at 0 *)
    cbn in Hok. destruct Hinv as [W V Le G0 S C].
    unfold delete. destruct (st_kv (s_store st)) as [[b idx]|] eqn:K.
    + assert (Hc : cur (mkStore None (N.succ (st_clock (s_store st)))) = 0) by reflexivity.
      constructor; cbn [s_store s_callers s_trace].
      * exact I.
      * rewrite Hc. lia.
      * rewrite Hc. rewrite Hok in Le. exact Le.
      * exact G0.
      * exact S.
      * intro j. specialize (C j). destruct (get (s_callers st) j) as [|n' idx'|r|]; try exact I.
        cbn in C |- *. destruct C as (Hc1 & Hn & H0 & _). repeat split; try assumption; try lia.
        intro Happ. unfold cas_applies in Happ. cbn in Happ. apply N.eqb_eq in Happ.
        rewrite (H0 Happ). reflexivity.
    + constructor; cbn [s_store s_callers s_trace]; assumption.
Qed.

Lemma inv_run v0 sched : forall st, inv v0 st -> env_ok st sched -> inv v0 (run st sched).
Proof.
  induction sched as [|x r IH]; intros st Hinv Hok; cbn; [exact Hinv|].
  destruct Hok as [H1 H2]. apply IH; [apply inv_step; assumption|exact H2].
Qed.

(* ================= the theorems ================= *)
Lemma consumed_sorted s0 sched :
  wf_store s0 -> env_ok (init s0) sched ->
  StronglySorted N.lt (cur s0 :: consumed (run (init s0) sched)).
Proof.
  intros W Hok. pose proof (inv_run (cur s0) sched _ (inv_init s0 W) Hok) as [_ _ _ G0 S _].
  unfold consumed, chron. rewrite flat_consumed_rev. fold (nums (s_trace (run (init s0) sched))).
  constructor.
  - apply ssorted_rev. exact S.
  - apply Forall_forall. intros y Hy. apply in_rev in Hy. rewrite Forall_forall in G0. auto.
Qed.

Lemma handed_sublist st : sublist (handed st) (consumed st).
Proof. apply handed_sub_consumed. Qed.

Lemma handed_sorted s0 sched :
  wf_store s0 -> env_ok (init s0) sched ->
  StronglySorted N.lt (cur s0 :: handed (run (init s0) sched)).
Proof.
  intros W Hok. apply (sublist_sorted N.lt _ (cur s0 :: consumed (run (init s0) sched))).
  - apply sl_keep. apply handed_sublist.
  - apply consumed_sorted; assumption.
Qed.

Lemma handed_nodup s0 sched :
  wf_store s0 -> env_ok (init s0) sched -> NoDup (handed (run (init s0) sched)).
Proof.
  intros W Hok. pose proof (handed_sorted s0 sched W Hok) as S.
  inversion S; subst. apply ssorted_nodup. assumption.
Qed.

Lemma later_is_larger s0 sched t1 i ni t2 j nj t3 :
  wf_store s0 -> env_ok (init s0) sched ->
  chron (run (init s0) sched) = t1 ++ EvRet i ni :: t2 ++ EvRet j nj :: t3 ->
  cur s0 < ni /\ ni < nj.
Proof.
  intros W Hok E. pose proof (handed_sorted s0 sched W Hok) as S.
  unfold handed in S. rewrite E in S.
  rewrite flat_map_app in S. cbn [flat_map ev_handed] in S.
  rewrite flat_map_app in S. cbn [flat_map ev_handed app] in S.
  split.
  - inversion S as [|? ? _ F]; subst. rewrite Forall_forall in F. apply F.
    apply in_or_app. right. left. reflexivity.
  - inversion S as [|? ? S' _]; subst. eapply ssorted_app_lt. exact S'.
Qed.

Lemma results_distinct s0 sched i j ni nj :
  wf_store s0 -> env_ok (init s0) sched -> i <> j ->
  result (run (init s0) sched) i = Some ni ->
  result (run (init s0) sched) j = Some nj -> ni <> nj.
Proof.
  intros W Hok Hne Ri Rj. apply result_iff_ret in Ri. apply result_iff_ret in Rj.
  assert (Hd : EvRet i ni <> EvRet j nj) by congruence.
  destruct (in_two_split _ _ _ Ri Rj Hd) as [(a & b & c & E)|(a & b & c & E)].
  - destruct (later_is_larger s0 sched _ _ _ _ _ _ _ W Hok E). lia.
  - destruct (later_is_larger s0 sched _ _ _ _ _ _ _ W Hok E). lia.
Qed.

(* a number whose write was applied but never reported is never given to anybody *)
Lemma lost_number_skipped s0 sched i n :
  wf_store s0 -> env_ok (init s0) sched ->
  In (EvLost i n) (chron (run (init s0) sched)) -> ~ In n (handed (run (init s0) sched)).
Proof.
  intros W Hok Hl Hh. pose proof (consumed_sorted s0 sched W Hok) as S.
  inversion S as [|? ? S' _]; subst. apply ssorted_nodup in S'.
  unfold handed in Hh. apply in_handed_ret in Hh. destruct Hh as (j & Hj).
  apply in_split in Hl. destruct Hl as (a & b & E).
  unfold consumed in S'. rewrite E in S', Hj.
  rewrite flat_map_app in S'. cbn [flat_map ev_consumed app] in S'.
  apply NoDup_remove_2 in S'. apply S'.
  apply in_app_or in Hj. apply in_or_app.
  destruct Hj as [Hj|[Hj|Hj]]; [left|discriminate|right];
    apply in_flat_map; exists (EvRet j n); (split; [exact Hj|left; reflexivity]).
Qed.

(* refused CAS: error, nothing written, nothing handed out *)
Lemma cas_refused_fails st i n idx :
  get (s_callers st) i = HasRead n idx -> cas_applies (s_store st) idx = false ->
  s_store (do_step st (SServe i)) = s_store st /\
  s_trace (do_step st (SServe i)) = s_trace st /\
  get (s_callers (do_step st (SServe i))) i = Done None.
Proof.
  intros G A. cbn [do_step]. unfold step_caller. rewrite G. cbn [N.eqb orb]. rewrite A.
  cbn [s_store s_trace s_callers]. rewrite get_upd_same. auto.
Qed.

(* a number appears in the trace only through an applied CAS of exactly that number *)
Lemma ret_only_by_applied_cas st x i n :
  s_trace (do_step st x) = EvRet i n :: s_trace st ->
  exists idx, x = SServe i /\ get (s_callers st) i = HasRead n idx /\
              cas_applies (s_store st) idx = true /\
              s_store (do_step st x) = write (s_store st) (fmt_u n).
Proof.
  assert (Hcons : forall (e : ev) l, l <> e :: l).
  { intros e l H. apply (f_equal (@length ev)) in H. cbn in H. lia. }
  assert (Hc : forall k mode, s_trace (step_caller st k mode) = EvRet i n :: s_trace st ->
               mode = 0 /\ k = i /\ exists idx, get (s_callers st) k = HasRead n idx /\
               cas_applies (s_store st) idx = true /\
               s_store (step_caller st k mode) = write (s_store st) (fmt_u n)).
  { intros k mode. unfold step_caller.
    destruct (get (s_callers st) k) as [|n' idx|r|] eqn:G.
    - destruct (mode =? 0); cbn [s_trace]; intro H; [inversion H|exfalso; eapply Hcons; eauto].
    - destruct ((mode =? 0) || (mode =? 2)).
      + destruct (cas_applies (s_store st) idx) eqn:A.
        * destruct (mode =? 0) eqn:M; cbn [s_trace s_store]; intro H; inversion H; subst.
          apply N.eqb_eq in M. repeat split; try assumption. exists idx. auto.
        * cbn [s_trace]. intro H. exfalso; eapply Hcons; eauto.
      + cbn [s_trace]. intro H. exfalso; eapply Hcons; eauto.
    - intro H. exfalso; eapply Hcons; eauto.
    - intro H. exfalso; eapply Hcons; eauto. }
  destruct x as [k|k|k|k|v|]; cbn [do_step]; intro H;
    try (apply Hc in H; destruct H as (M & -> & idx & H1 & H2 & H3); try discriminate;
         exists idx; auto);
    cbn [s_trace] in H; exfalso; eapply Hcons; eauto.
Qed.

(* a caller may die anywhere: neither the store nor anything handed out changes *)
Lemma crash_changes_nothing st i :
  s_store (do_step st (SCrash i)) = s_store st /\
  s_trace (do_step st (SCrash i)) = s_trace st /\
  forall j, j <> i -> get (s_callers (do_step st (SCrash i))) j = get (s_callers st) j.
Proof.
  cbn [do_step]. unfold step_caller.
  destruct (get (s_callers st) i) as [|n idx|r|]; cbn [N.eqb orb s_store s_trace s_callers];
    repeat split; intros; try reflexivity; apply get_upd_other; assumption.
Qed.

(* ================= real-time order: a read is never preceded by the reader's own return ===== *)
Definition read_first (st : state) : Prop :=
  forall pre post j n, s_trace st = pre ++ EvRead j :: post -> ~ In (EvRet j n) post.

Lemma step_trace_shape st x :
  s_trace (do_step st x) = s_trace st \/
  (exists i, s_trace (do_step st x) = EvRead i :: s_trace st /\ get (s_callers st) i = Idle) \/
  (exists i n, s_trace (do_step st x) = EvRet i n :: s_trace st) \/
  (exists i n, s_trace (do_step st x) = EvLost i n :: s_trace st).
Proof.
  assert (Hc : forall k mode,
    s_trace (step_caller st k mode) = s_trace st \/
    (exists i, s_trace (step_caller st k mode) = EvRead i :: s_trace st /\ get (s_callers st) i = Idle) \/
    (exists i n, s_trace (step_caller st k mode) = EvRet i n :: s_trace st) \/
    (exists i n, s_trace (step_caller st k mode) = EvLost i n :: s_trace st)).
  { intros k mode. unfold step_caller.
    destruct (get (s_callers st) k) as [|n idx|r|] eqn:G; [| |left; reflexivity|left; reflexivity].
    - destruct (mode =? 0); cbn [s_trace]; [right; left; exists k; auto|left; reflexivity].
    - destruct ((mode =? 0) || (mode =? 2)); [|left; reflexivity].
      destruct (cas_applies (s_store st) idx); [|left; reflexivity].
      destruct (mode =? 0); cbn [s_trace]; right; right; [left|right]; exists k, n; reflexivity. }
  destruct x; cbn [do_step]; try apply Hc; left; reflexivity.
Qed.

Lemma read_first_step st x : link st -> read_first st -> read_first (do_step st x).
Proof.
  intros L R pre post j n E.
  destruct (step_trace_shape st x) as [H|[(i & H & G)|[(i & m & H)|(i & m & H)]]]; rewrite H in E.
  - eapply R; eauto.
  - destruct pre as [|e pre]; cbn in E; inversion E; subst.
    + intro Hin. apply L in Hin. rewrite G in Hin. discriminate.
    + eapply R; eauto.
  - destruct pre as [|e pre]; cbn in E; inversion E; subst. eapply R; eauto.
  - destruct pre as [|e pre]; cbn in E; inversion E; subst. eapply R; eauto.
Qed.

Lemma read_first_run sched : forall st, link st -> read_first st -> read_first (run st sched).
Proof.
  induction sched as [|x r IH]; intros st L R; cbn; [exact R|].
  apply IH; [apply link_step; exact L|apply read_first_step; assumption].
Qed.

Lemma read_first_init s0 : read_first (init s0).
Proof. intros pre post j n E. cbn in E. destruct pre; discriminate. Qed.

(* if caller i's number was written before caller j's read was served, j's number is larger *)
Lemma realtime_order s0 sched t1 i ni t2 j t3 nj :
  wf_store s0 -> env_ok (init s0) sched ->
  chron (run (init s0) sched) = t1 ++ EvRet i ni :: t2 ++ EvRead j :: t3 ->
  result (run (init s0) sched) j = Some nj -> ni < nj.
Proof.
  intros W Hok E Rj. apply result_iff_ret in Rj.
  pose proof (read_first_run sched _ (link_init s0) (read_first_init s0)) as RF.
  set (st := run (init s0) sched) in *.
  assert (Et : s_trace st = rev t3 ++ EvRead j :: rev (t1 ++ EvRet i ni :: t2)).
  { unfold chron in E. apply (f_equal (@rev ev)) in E. rewrite rev_involutive in E.
    rewrite E. rewrite app_comm_cons, app_assoc. rewrite rev_app_distr. cbn [rev].
    rewrite <- app_assoc. reflexivity. }
  specialize (RF _ _ _ nj Et).
  rewrite E in Rj. rewrite app_comm_cons, app_assoc in Rj. apply in_app_or in Rj.
  destruct Rj as [Rj|Rj].
  - exfalso. apply RF. apply -> in_rev. exact Rj.
  - destruct Rj as [Rj|Rj]; [discriminate|].
    apply in_split in Rj. destruct Rj as (u & w & ->).
    assert (E' : chron st = t1 ++ EvRet i ni :: (t2 ++ EvRead j :: u) ++ EvRet j nj :: w).
    { rewrite E. rewrite <- app_assoc. reflexivity. }
    destruct (later_is_larger s0 sched _ _ _ _ _ _ _ W Hok E'). assumption.
Qed.

(* ================= the exhausted counter ================= *)
Definition b_4294967294 : str := [52;50;57;52;57;54;55;50;57;52].

(* a caller that reads 2^32-1 returns an error: nothing is written, nothing is handed out *)
Lemma exhausted_fails st i b idx :
  get (s_callers st) i = Idle -> st_kv (s_store st) = Some (b, idx) ->
  parse_u32 b = Some max_u32 ->
  s_store (do_step st (SServe i)) = s_store st /\
  handed (do_step st (SServe i)) = handed st /\
  get (s_callers (do_step st (SServe i))) i = Done None.
Proof.
  intros G K P. cbn [do_step]. unfold step_caller. rewrite G. cbn [N.eqb].
  unfold after_read, bump. rewrite K, P, next32_max.
  cbn [s_store s_trace s_callers]. rewrite get_upd_same.
  split; [reflexivity|split; [|reflexivity]].
  unfold handed, chron. cbn [s_trace rev]. rewrite flat_map_app. cbn. apply app_nil_r.
Qed.

(* the schedule that used to wrap: 4294967294, two starts *)
Lemma boundary_example :
  let s0 := mkStore (Some (b_4294967294, 1)) 1 in
  let sched := [SServe 0; SServe 0; SServe 1; SServe 1] in
  wf_store s0 /\ env_ok (init s0) sched /\
  handed (run (init s0) sched) = [4294967295] /\
  map (result (run (init s0) sched)) [0; 1] = [Some 4294967295; None] /\
  cur (s_store (run (init s0) sched)) = 4294967295.
Proof. vm_compute. repeat split; try reflexivity; intro H; discriminate H. Qed.

(* ================= the hypothesis about other writers is needed ================= *)
Lemma lowering_witness :
  let s0 := mkStore None 0 in
  let sched := [SPut [53]; SServe 0; SServe 0; SPut [53]; SServe 1; SServe 1] in
  wf_store s0 /\ handed (run (init s0) sched) = [6; 6].
Proof. vm_compute. repeat split; try reflexivity; intro H; discriminate H. Qed.

Lemma lowering_refutes :
  ~ (forall s0 sched, wf_store s0 -> NoDup (handed (run (init s0) sched))).
Proof.
  intro H. destruct lowering_witness as (W & Hh).
  specialize (H _ [SPut [53]; SServe 0; SServe 0; SPut [53]; SServe 1; SServe 1] W).
  rewrite Hh in H.
  inversion H as [|? ? Hin _]; subst. apply Hin. left. reflexivity.
Qed.

(* ================= file backend ================= *)
(* without the mutex two overlapping calls return the same number *)
Lemma file_dup_witness :
  fhanded (frun_nolock (finit (Some [53])) [0; 1; 0; 1; 0; 1]) = [6; 6].
Proof. reflexivity. Qed.

Lemma file_nolock_refutes : ~ (forall f sched, NoDup (fhanded (frun_nolock (finit f) sched))).
Proof.
  intro H. specialize (H (Some [53]) [0; 1; 0; 1; 0; 1]). rewrite file_dup_witness in H.
  inversion H as [|? ? Hin _]; subst. apply Hin. left. reflexivity.
Qed.

(* who may hold the mutex, and what the holder knows *)
Definition fcaller_inv (v0 : N) (st : fstate) (i : N) : Prop :=
  match fget (f_callers st) i with
  | FCreating => f_lock st = Some i /\ v0 = 0 /\ f_rets st = []
  | FChecked => f_lock st = Some i
  | FHasRead n => f_lock st = Some i /\ fval (f_file st) = Some (n - 1) /\ 1 <= n /\ n < two32
  | FTrunc n => f_lock st = Some i /\ n < two32 /\ v0 < n /\
                Forall (fun m => m < n) (map snd (f_rets st))
  | _ => f_lock st <> Some i
  end.

Record finv (v0 : N) (st : fstate) : Prop := mkFinv {
  (* whenever the file reads as a number (absent: 0), it is not below anything handed out *)
  fi_val : forall v, fval (f_file st) = Some v ->
           v0 <= v /\ Forall (fun n => n <= v) (map snd (f_rets st));
  fi_gt0 : Forall (fun n => v0 < n) (map snd (f_rets st));
  fi_sorted : StronglySorted N.gt (map snd (f_rets st));
  fi_callers : forall i, fcaller_inv v0 st i
}.

Lemma fget_cons_other cs i j c : j <> i -> fget ((i, c) :: cs) j = fget cs j.
Proof. intro H. unfold fget. cbn. apply N.eqb_neq in H. rewrite H. reflexivity. Qed.

Lemma fget_cons_same cs i c : fget ((i, c) :: cs) i = c.
Proof. unfold fget. cbn. rewrite N.eqb_refl. reflexivity. Qed.

Lemma fget_kill cs j :
  fget (map (fun jc => (fst jc, fkill (snd jc))) cs) j = fkill (fget cs j).
Proof.
  unfold fget. induction cs as [|[k c] cs IH]; cbn; [reflexivity|].
  destruct (j =? k); [reflexivity|exact IH].
Qed.

(* while caller i holds the mutex, or nobody does, every other caller is outside; what it is
   required to know mentions the mutex only *)
Lemma fcaller_other v0 st st' i :
  (forall j, j <> i -> fget (f_callers st') j = fget (f_callers st) j) ->
  (f_lock st = Some i \/ f_lock st = None) ->
  (f_lock st' = Some i \/ f_lock st' = None) ->
  forall j, j <> i -> fcaller_inv v0 st j -> fcaller_inv v0 st' j.
Proof.
  intros Hsame Hl Hl' j Hne Cj. unfold fcaller_inv in *. rewrite (Hsame j Hne).
  destruct (fget (f_callers st) j) as [| | |m|m|r].
  - destruct Hl' as [Hl'|Hl']; rewrite Hl'; congruence.
  - exfalso. destruct Cj as [Cj _]. destruct Hl as [Hl|Hl]; rewrite Hl in Cj; congruence.
  - exfalso. destruct Hl as [Hl|Hl]; rewrite Hl in Cj; congruence.
  - exfalso. destruct Cj as [Cj _]. destruct Hl as [Hl|Hl]; rewrite Hl in Cj; congruence.
  - exfalso. destruct Cj as [Cj _]. destruct Hl as [Hl|Hl]; rewrite Hl in Cj; congruence.
  - destruct Hl' as [Hl'|Hl']; rewrite Hl'; congruence.
Qed.

Ltac others st i :=
  apply (fcaller_other _ st _ i); auto;
  intros ?k ?Hk; cbn [f_callers]; apply fget_cons_other; assumption.

Lemma fstep_inv v0 st i : finv v0 st -> finv v0 (fstep st i).
Proof.
  intros Hinv. pose proof Hinv as [V G0 S C].
  unfold fstep. pose proof (C i) as Ci. unfold fcaller_inv in Ci.
  destruct (fget (f_callers st) i) as [| | |n|n|r] eqn:G; [| | | | |exact Hinv].
  - (* FIdle: takes the mutex if it is free *)
    destruct (f_lock st) as [h|] eqn:L; [exact Hinv|].
    destruct (f_file st) as [b|] eqn:F.
    + constructor; cbn [f_file f_lock f_callers f_rets]; try assumption.
      intro j. destruct (N.eq_dec j i) as [->|Hne].
      * unfold fcaller_inv. cbn [f_callers f_lock]. rewrite fget_cons_same. reflexivity.
      * others st i.
    + (* absent: created, empty *)
      destruct (V 0 eq_refl) as [V0 Vle].
      assert (Hnil : f_rets st = []).
      { destruct (f_rets st) as [|[k m] rs]; [reflexivity|exfalso].
        cbn in Vle, G0. inversion Vle; subst. inversion G0; subst. lia. }
      constructor; cbn [f_file f_lock f_callers f_rets]; try assumption.
      * intros v Hv. discriminate Hv.
      * intro j. destruct (N.eq_dec j i) as [->|Hne].
        -- unfold fcaller_inv. cbn [f_callers f_lock f_rets]. rewrite fget_cons_same.
           repeat split; [lia|exact Hnil].
        -- others st i.
  - (* FCreating: writes "0" *)
    destruct Ci as (Hl & Hv0 & Hnil).
    constructor; cbn [f_file f_lock f_callers f_rets]; try assumption.
    + intros v Hv. cbn in Hv. inversion Hv; subst. rewrite Hnil. split; [lia|constructor].
    + intro j. destruct (N.eq_dec j i) as [->|Hne].
      * unfold fcaller_inv. cbn [f_callers f_lock]. rewrite fget_cons_same. exact Hl.
      * others st i.
  - (* FChecked: reads; a failure releases the mutex *)
    assert (Hfail : finv v0 (mkF (f_file st) None ((i, FDone None) :: f_callers st) (f_rets st))).
    { constructor; cbn [f_file f_lock f_callers f_rets]; try assumption.
      intro j. destruct (N.eq_dec j i) as [->|Hne].
      - unfold fcaller_inv. cbn [f_callers f_lock]. rewrite fget_cons_same. discriminate.
      - others st i. }
    destruct (f_file st) as [b|] eqn:F; [|exact Hfail].
    destruct (parse_u32 b) as [v|] eqn:P; [|exact Hfail].
    destruct (next32 v) as [n|] eqn:Nx; [|exact Hfail].
    destruct (next32_some v n (parse_lt _ _ P) Nx) as [Hm ->].
    constructor; cbn [f_file f_lock f_callers f_rets]; try assumption.
    intro j. destruct (N.eq_dec j i) as [->|Hne].
    + unfold fcaller_inv. cbn [f_callers f_lock f_file]. rewrite fget_cons_same.
      split; [exact Ci|]. cbn [fval]. rewrite P.
      unfold max_u32, two32 in *. repeat split; try lia. f_equal. lia.
    + others st i.
  - (* FHasRead: truncates *)
    destruct Ci as (Hl & Hv & H1 & Hlt). destruct (V _ Hv) as [V0 Vle].
    constructor; cbn [f_file f_lock f_callers f_rets]; try assumption.
    + intros v Hv'. discriminate Hv'.
    + intro j. destruct (N.eq_dec j i) as [->|Hne].
      * unfold fcaller_inv. cbn [f_callers f_lock f_rets]. rewrite fget_cons_same.
        repeat split; [exact Hl|exact Hlt|lia|].
        eapply Forall_impl; [|exact Vle]. cbn. intros a Ha. lia.
      * others st i.
  - (* FTrunc: writes the number and releases the mutex *)
    destruct Ci as (Hl & Hlt & Hv0 & Hall).
    assert (Hc : parse_u32 (fmt_u n) = Some n) by (apply parse_fmt; exact Hlt).
    constructor; cbn [f_file f_lock f_callers f_rets map snd].
    + intros v Hv. cbn [fval] in Hv. rewrite Hc in Hv. inversion Hv; subst.
      split; [lia|]. constructor; [lia|]. eapply Forall_impl; [|exact Hall]. cbn. intros a Ha. lia.
    + constructor; [exact Hv0|exact G0].
    + constructor; [exact S|]. eapply Forall_impl; [|exact Hall]. cbn. intros a Ha. lia.
    + intro j. destruct (N.eq_dec j i) as [->|Hne].
      * unfold fcaller_inv. cbn [f_callers f_lock]. rewrite fget_cons_same. discriminate.
      * others st i.
Qed.

Lemma fkill_outside c : match fkill c with FIdle => True | FDone _ => True | _ => False end.
Proof. destruct c; exact I. Qed.

Lemma fdo_inv v0 st e : finv v0 st -> fev_ok v0 st e -> finv v0 (fdo st e).
Proof.
  intros Hinv Hok. destruct e as [i|c]; [apply fstep_inv; exact Hinv|].
  destruct Hinv as [V G0 S C].
  constructor; cbn [fdo f_file f_lock f_callers f_rets]; try assumption.
  - intros v Hv. destruct c as [b|]; [|apply V; exact Hv].
    cbn [fval] in Hv. cbn [fev_ok] in Hok. rewrite Hv in Hok. exact Hok.
  - intro j. unfold fcaller_inv. cbn [f_callers f_lock]. rewrite fget_kill.
    pose proof (fkill_outside (fget (f_callers st) j)) as K.
    destruct (fkill (fget (f_callers st) j)); try contradiction; discriminate.
Qed.

Lemma frun_inv v0 sched : forall st, finv v0 st -> fenv_ok v0 st sched -> finv v0 (frun st sched).
Proof.
  induction sched as [|e r IH]; intros st Hinv Hok; [exact Hinv|].
  change (frun st (e :: r)) with (frun (fdo st e) r). destruct Hok as [H1 H2].
  apply IH; [apply fdo_inv; assumption|exact H2].
Qed.

Lemma finv_init f : finv (fcur f) (finit f).
Proof.
  constructor; cbn [finit f_file f_lock f_callers f_rets map]; try constructor.
  - destruct f as [b|]; cbn [fval fcur] in *.
    + rewrite H. lia.
    + inversion H. lia.
  - constructor.
  - intro i. unfold fcaller_inv. cbn. discriminate.
Qed.

(* every interleaving of any number of calls, with the process dying and restarting at any
   points: numbers strictly increasing from the stored one *)
Lemma file_sorted f sched :
  fenv_ok (fcur f) (finit f) sched ->
  StronglySorted N.lt (fcur f :: fhanded (frun (finit f) sched)).
Proof.
  intro Hok. pose proof (frun_inv (fcur f) sched _ (finv_init f) Hok) as [_ G0 S _].
  unfold fhanded. rewrite map_rev. constructor.
  - apply ssorted_rev. exact S.
  - apply Forall_forall. intros y Hy. apply in_rev in Hy. rewrite Forall_forall in G0. auto.
Qed.

Lemma file_nodup f sched :
  fenv_ok (fcur f) (finit f) sched -> NoDup (fhanded (frun (finit f) sched)).
Proof.
  intro Hok. pose proof (file_sorted f sched Hok) as S. inversion S; subst.
  apply ssorted_nodup. assumption.
Qed.

(* a schedule in which the file never gets a content from outside meets the hypothesis *)
Lemma fenv_ok_plain v0 sched : forall st,
  Forall (fun e => match e with FCrash (Some _) => False | _ => True end) sched ->
  fenv_ok v0 st sched.
Proof.
  induction sched as [|e r IH]; intros st F; [exact I|]. inversion F; subst.
  split; [|apply IH; assumption]. destruct e as [i|[b|]]; try exact I. contradiction.
Qed.

(* mutual exclusion: at most one call is between Lock and Unlock *)
Definition fcritical (st : fstate) (i : N) : Prop :=
  match fget (f_callers st) i with
  | FCreating => True | FChecked => True | FHasRead _ => True | FTrunc _ => True | _ => False
  end.

Lemma file_mutex f sched i j :
  fenv_ok (fcur f) (finit f) sched ->
  fcritical (frun (finit f) sched) i -> fcritical (frun (finit f) sched) j -> i = j.
Proof.
  intro Hok. pose proof (frun_inv (fcur f) sched _ (finv_init f) Hok) as [_ _ _ C].
  intros Hi Hj. pose proof (C i) as Ci. pose proof (C j) as Cj.
  unfold fcritical, fcaller_inv in *.
  assert (Li : f_lock (frun (finit f) sched) = Some i).
  { destruct (fget (f_callers (frun (finit f) sched)) i) as [| | |n|n|r]; try contradiction;
      [exact (proj1 Ci)|exact Ci|exact (proj1 Ci)|exact (proj1 Ci)]. }
  assert (Lj : f_lock (frun (finit f) sched) = Some j).
  { destruct (fget (f_callers (frun (finit f) sched)) j) as [| | |m|m|r]; try contradiction;
      [exact (proj1 Cj)|exact Cj|exact (proj1 Cj)|exact (proj1 Cj)]. }
  congruence.
Qed.

(* a call that finds the file at 2^32-1 fails and leaves it alone *)
Lemma file_exhausted_fails st i b :
  fget (f_callers st) i = FChecked -> f_file st = Some b -> parse_u32 b = Some max_u32 ->
  f_file (fstep st i) = f_file st /\ f_rets (fstep st i) = f_rets st /\
  fget (f_callers (fstep st i)) i = FDone None.
Proof.
  intros G F P. unfold fstep. rewrite G, F, P, next32_max.
  cbn [f_file f_rets f_callers]. rewrite fget_cons_same. auto.
Qed.

(* ----- a file that does not read as a number: every start fails, for ever ----- *)
Definition funreadable (st : fstate) : Prop :=
  fval (f_file st) = None /\
  forall i, match fget (f_callers st) i with
            | FIdle => True | FChecked => True | FDone _ => True | _ => False end.

Lemma funreadable_step st e :
  funreadable st -> match e with FCrash (Some _) => False | _ => True end ->
  funreadable (fdo st e) /\ f_rets (fdo st e) = f_rets st /\ f_file (fdo st e) = f_file st.
Proof.
  intros [Hv Hc] He. destruct e as [i|[b|]]; [|contradiction|].
  - cbn [fdo]. unfold fstep. pose proof (Hc i) as Ci.
    destruct (f_file st) as [b|] eqn:F; [|discriminate Hv]. cbn [fval] in Hv.
    destruct (fget (f_callers st) i) as [| | |n|n|r] eqn:G; try contradiction.
    + destruct (f_lock st); [repeat split; [rewrite F; exact Hv|exact Hc|congruence]|].
      cbn [f_rets f_file]. repeat split; [exact Hv|].
      intro j. cbn [f_callers]. destruct (N.eq_dec j i) as [->|Hne];
        [rewrite fget_cons_same; exact I|rewrite fget_cons_other by assumption; apply Hc].
    + rewrite Hv. cbn [f_rets f_file]. repeat split; [cbn [fval]; exact Hv|].
      intro j. cbn [f_callers]. destruct (N.eq_dec j i) as [->|Hne];
        [rewrite fget_cons_same; exact I|rewrite fget_cons_other by assumption; apply Hc].
    + repeat split; [rewrite F; exact Hv|exact Hc|congruence].
  - cbn [fdo f_rets f_file]. repeat split; [exact Hv|].
    intro j. cbn [f_callers]. rewrite fget_kill. specialize (Hc j).
    destruct (fget (f_callers st) j); try contradiction; exact I.
Qed.

Lemma funreadable_run sched : forall st,
  funreadable st -> Forall (fun e => match e with FCrash (Some _) => False | _ => True end) sched ->
  f_rets (frun st sched) = f_rets st /\ f_file (frun st sched) = f_file st.
Proof.
  induction sched as [|e r IH]; intros st U F; [auto|].
  change (frun st (e :: r)) with (frun (fdo st e) r). inversion F; subst.
  destruct (funreadable_step st e U H1) as (U' & R & Fi).
  destruct (IH _ U' H2) as [R' Fi']. rewrite R', Fi'. auto.
Qed.

(* after the process died, whatever state the calls were in: if the file does not read as a
   number (empty after a torn write-back, or any garbage) no number is ever handed out again *)
Lemma file_torn_fails_forever st c sched :
  fval (f_file (fdo st (FCrash c))) = None ->
  Forall (fun e => match e with FCrash (Some _) => False | _ => True end) sched ->
  f_rets (frun (fdo st (FCrash c)) sched) = f_rets st /\
  f_file (frun (fdo st (FCrash c)) sched) = f_file (fdo st (FCrash c)).
Proof.
  intros Hv F.
  assert (U : funreadable (fdo st (FCrash c))).
  { split; [exact Hv|].
    intro i. cbn [fdo f_callers]. rewrite fget_kill.
    pose proof (fkill_outside (fget (f_callers st) i)) as K.
    destruct (fkill (fget (f_callers st) i)); try contradiction; exact I. }
  destruct (funreadable_run sched _ U F) as [R Fi]. split; [rewrite R; reflexivity|exact Fi].
Qed.

(* the process dies between the truncate and the write of a write-back: the file is empty *)
Lemma file_torn_is_empty st i n :
  fget (f_callers st) i = FHasRead n ->
  f_file (fdo (fstep st i) (FCrash None)) = Some [] /\
  fval (f_file (fdo (fstep st i) (FCrash None))) = None.
Proof. intro G. unfold fstep. rewrite G. cbn. auto. Qed.

(* failing on it is what makes the theorem true: a reader that takes an empty file for "0"
   starts again at 1 after five numbers and a torn write *)
Lemma file_lenient_witness :
  fhanded (frun_lenient (finit None)
     (fserial [0; 1] ++ [FS 2; FS 2; FS 2; FCrash None] ++ fserial [3])) = [1; 2; 1].
Proof. reflexivity. Qed.

Lemma file_lenient_refutes :
  ~ (forall f sched, NoDup (fhanded (frun_lenient (finit f) sched))).
Proof.
  intro H. specialize (H None (fserial [0; 1] ++ [FS 2; FS 2; FS 2; FCrash None] ++ fserial [3])).
  rewrite file_lenient_witness in H.
  inversion H as [|? ? Hin _]; subst. apply Hin. right. left. reflexivity.
Qed.

(* ----- without a crash no update is lost ----- *)
Definition fcount (v0 : N) (st : fstate) : Prop :=
  let k := v0 + N.of_nat (length (f_rets st)) in
  match f_lock st with
  | None => fcur (f_file st) = k
  | Some h => match fget (f_callers st) h with
              | FTrunc n => n = k + 1
              | FCreating => True
              | _ => fcur (f_file st) = k
              end
  end.

Lemma fstep_count v0 st i : finv v0 st -> fcount v0 st -> fcount v0 (fstep st i).
Proof.
  intros [V G0 S C] K. unfold fstep. pose proof (C i) as Ci. unfold fcaller_inv in Ci.
  destruct (fget (f_callers st) i) as [| | |n|n|r] eqn:G; [| | | | |exact K].
  - destruct (f_lock st) as [h|] eqn:L; [exact K|].
    unfold fcount in *. rewrite L in K.
    destruct (f_file st) as [b|] eqn:F; cbn [f_lock f_callers f_file f_rets];
      rewrite fget_cons_same; [exact K|exact I].
  - destruct Ci as (Hl & Hv0 & Hnil). unfold fcount. cbn [f_lock f_callers f_file f_rets].
    rewrite Hl, fget_cons_same, Hnil, Hv0. reflexivity.
  - assert (Hk : fcur (f_file st) = v0 + N.of_nat (length (f_rets st))).
    { unfold fcount in K. rewrite Ci, G in K. exact K. }
    destruct (f_file st) as [b|] eqn:F;
      [|unfold fcount; cbn [f_lock f_callers f_file f_rets]; exact Hk].
    destruct (parse_u32 b) as [v|] eqn:P;
      [|unfold fcount; cbn [f_lock f_callers f_file f_rets]; exact Hk].
    destruct (next32 v) as [n|] eqn:Nx;
      [|unfold fcount; cbn [f_lock f_callers f_file f_rets]; exact Hk].
    unfold fcount. cbn [f_lock f_callers f_file f_rets]. rewrite Ci, fget_cons_same. exact Hk.
  - destruct Ci as (Hl & Hv & H1 & Hlt).
    assert (Hk : fcur (f_file st) = v0 + N.of_nat (length (f_rets st))).
    { unfold fcount in K. rewrite Hl, G in K. exact K. }
    unfold fcount. cbn [f_lock f_callers f_file f_rets]. rewrite Hl, fget_cons_same.
    assert (Hc : fcur (f_file st) = n - 1).
    { destruct (f_file st) as [b|]; cbn [fval fcur] in *; [rewrite Hv; reflexivity|].
      inversion Hv. reflexivity. }
    lia.
  - destruct Ci as (Hl & Hlt & _ & _).
    assert (Hk : n = v0 + N.of_nat (length (f_rets st)) + 1).
    { unfold fcount in K. rewrite Hl, G in K. exact K. }
    unfold fcount. cbn [f_lock f_file f_rets length fcur].
    rewrite (parse_fmt n Hlt). rewrite Nat2N.inj_succ. lia.
Qed.

Lemma frun_count v0 sched : forall st,
  no_crash sched -> finv v0 st -> fcount v0 st ->
  finv v0 (frun st sched) /\ fcount v0 (frun st sched).
Proof.
  induction sched as [|e r IH]; intros st N Hinv K; [auto|].
  change (frun st (e :: r)) with (frun (fdo st e) r). inversion N as [|? ? He Hr]; subst.
  destruct e as [i|c]; [|contradiction]. cbn [fdo].
  apply IH; [exact Hr|apply fstep_inv; exact Hinv|apply fstep_count; assumption].
Qed.

(* no number is skipped or lost while the process lives: whenever the mutex is free the file
   stands at the start value plus the number of calls that returned *)
Lemma file_dense f sched :
  no_crash sched -> f_lock (frun (finit f) sched) = None ->
  fcur (f_file (frun (finit f) sched)) =
  fcur f + N.of_nat (length (fhanded (frun (finit f) sched))).
Proof.
  intros N L.
  assert (K0 : fcount (fcur f) (finit f)) by (unfold fcount; cbn; lia).
  destruct (frun_count (fcur f) sched _ N (finv_init f) K0) as [_ K].
  unfold fcount in K. rewrite L in K.
  unfold fhanded. rewrite map_length, rev_length. exact K.
Qed.

(* ================= START_ACTIVITY ================= *)
Lemma start_without_number e neg_ok rest_ok :
  start_activity e neg_ok None rest_ok = (e, true).
Proof.
  unfold start_activity. destruct (e_state e =? E_CONFIGURED); cbn; [|reflexivity].
  destruct neg_ok; reflexivity.
Qed.

Lemma start_number_is_counter_number e neg_ok rn rest_ok e' :
  start_activity e neg_ok rn rest_ok = (e', false) ->
  e_state e = E_CONFIGURED /\ exists n, rn = Some n /\ e' = mkEnv E_RUNNING n.
Proof.
  unfold start_activity. destruct (e_state e =? E_CONFIGURED) eqn:S; cbn; [|discriminate].
  apply N.eqb_eq in S. destruct neg_ok; cbn; [|discriminate].
  destruct rn as [n|]; [|discriminate]. destruct rest_ok; [|discriminate].
  intro H. inversion H; subst. split; [assumption|]. exists n. auto.
Qed.

Lemma start_not_asked e neg_ok rn rn' rest_ok :
  asks_number e neg_ok = false ->
  start_activity e neg_ok rn rest_ok = start_activity e neg_ok rn' rest_ok /\
  start_activity e neg_ok rn rest_ok = (e, true).
Proof.
  unfold asks_number, start_activity. destruct (e_state e =? E_CONFIGURED); cbn.
  - intro H. rewrite H. cbn. auto.
  - auto.
Qed.

Lemma start_cancelled_run s0 sched i e neg_ok rest_ok :
  result (run (init s0) sched) i = None ->
  start_activity e neg_ok (result (run (init s0) sched) i) rest_ok = (e, true).
Proof. intro H. rewrite H. apply start_without_number. Qed.

(* ================= histories of START attempts ================= *)
Definition step_id (x : step) : option N :=
  match x with SServe i => Some i | SFail i => Some i | SLost i => Some i | SCrash i => Some i
             | _ => None end.

Lemma step_caller_other st i mode c :
  c <> i -> get (s_callers (step_caller st i mode)) c = get (s_callers st) c.
Proof.
  intro Hne. unfold step_caller.
  destruct (get (s_callers st) i) as [|n idx|r|]; [| |reflexivity|reflexivity].
  - destruct (mode =? 0); cbn [s_callers]; apply get_upd_other; exact Hne.
  - destruct ((mode =? 0) || (mode =? 2)).
    + destruct (cas_applies (s_store st) idx); cbn [s_callers]; apply get_upd_other; exact Hne.
    + cbn [s_callers]. apply get_upd_other. exact Hne.
Qed.

Lemma do_step_other st x c :
  step_id x <> Some c -> get (s_callers (do_step st x)) c = get (s_callers st) c.
Proof.
  intro H. destruct x as [i|i|i|i|v|]; cbn [do_step s_callers]; try reflexivity;
    apply step_caller_other; intro E; apply H; cbn; rewrite E; reflexivity.
Qed.

Lemma run_other sched : forall st c,
  Forall (fun x => step_id x <> Some c) sched ->
  get (s_callers (run st sched)) c = get (s_callers st) c.
Proof.
  induction sched as [|x r IH]; intros st c F; [reflexivity|].
  change (run st (x :: r)) with (run (do_step st x) r).
  inversion F; subst. rewrite IH by assumption. apply do_step_other. assumption.
Qed.

Lemma run_app st a b : run st (a ++ b) = run (run st a) b.
Proof. unfold run. apply fold_left_app. Qed.

Lemma run_trace_extends sched : forall st,
  exists new, s_trace (run st sched) = new ++ s_trace st.
Proof.
  induction sched as [|x r IH]; intros st.
  - exists []. reflexivity.
  - change (run st (x :: r)) with (run (do_step st x) r).
    destruct (IH (do_step st x)) as (new & E). rewrite E.
    destruct (step_trace_shape st x) as [H|[(i & H & _)|[(i & n & H)|(i & n & H)]]]; rewrite H.
    + exists new. reflexivity.
    + exists (new ++ [EvRead i]). rewrite <- app_assoc. reflexivity.
    + exists (new ++ [EvRet i n]). rewrite <- app_assoc. reflexivity.
    + exists (new ++ [EvLost i n]). rewrite <- app_assoc. reflexivity.
Qed.

Lemma aid_inj k k' : aid k = aid k' -> k = k'.
Proof. unfold aid. lia. Qed.
Lemma aid_oid k j : aid k <> oid j.
Proof. unfold aid, oid. lia. Qed.

Lemma to_step_id k k' a : k' <> k -> step_id (to_step k a) <> Some (aid k').
Proof.
  intro Hne. destruct a as [m|x]; cbn [to_step].
  - unfold own_step. destruct (m =? 0); [|destruct (m =? 1); [|destruct (m =? 2)]]; cbn;
      intro E; inversion E as [E']; apply aid_inj in E'; congruence.
  - destruct x as [j|j|j|j|v|]; cbn; try discriminate;
      intro E; inversion E as [E']; symmetry in E'; exact (aid_oid _ _ E').
Qed.

Lemma heff_op_other h k o k' :
  k' <> k -> Forall (fun x => step_id x <> Some (aid k')) (heff_op h k o).
Proof.
  intro Hne. unfold heff_op. destruct o as [ei neg_ok rest sched|ei ev done]; [|constructor].
  destruct (asks_number (eget (hs_envs h) ei) neg_ok); apply Forall_forall; intros x Hx;
    apply in_map_iff in Hx; destruct Hx as (a & <- & _); apply to_step_id; exact Hne.
Qed.

Lemma hstep_ctr h k o : hs_ctr (fst (hstep h k o)) = run (hs_ctr h) (heff_op h k o).
Proof.
  unfold hstep. destruct o as [ei neg_ok rest sched|ei ev done].
  - destruct (asks_number (eget (hs_envs h) ei) neg_ok); [|reflexivity].
    destruct (result _ (aid k)); reflexivity.
  - destruct (fsm_dst ev (e_state (eget (hs_envs h) ei))); [|reflexivity].
    destruct done; reflexivity.
Qed.

Lemma hrun_ctr ops : forall h k,
  hs_ctr (hrun_st h k ops) = run (hs_ctr h) (heff h k ops).
Proof.
  induction ops as [|o r IH]; intros h k; cbn [hrun_st heff]; [reflexivity|].
  rewrite IH, run_app, hstep_ctr. reflexivity.
Qed.

(* an attempt that went on did so under the number its own call obtained during the attempt *)
Lemma hstep_seen h k o n :
  hr_seen (snd (hstep h k o)) = Some n ->
  result (run (hs_ctr h) (heff_op h k o)) (aid k) = Some n.
Proof.
  unfold hstep. destruct o as [ei neg_ok rest sched|ei ev done].
  - destruct (asks_number (eget (hs_envs h) ei) neg_ok); [|discriminate].
    destruct (result _ (aid k)) as [m|] eqn:R; cbn [snd hr_seen]; [|discriminate].
    intro H. inversion H; subst. reflexivity.
  - destruct (fsm_dst ev (e_state (eget (hs_envs h) ei))); [|discriminate].
    destruct done; discriminate.
Qed.

Lemma sublist_single {A} (x : A) l : In x l -> sublist [x] l.
Proof.
  induction l as [|y l IH]; intros H; [destruct H|].
  destruct H as [->|H].
  - apply sl_keep. clear IH. induction l as [|z l IHl]; [constructor|apply sl_skip; exact IHl].
  - apply sl_skip. auto.
Qed.

Lemma sublist_nil {A} (l : list A) : sublist [] l.
Proof. induction l; [constructor|apply sl_skip; assumption]. Qed.

Definition fresh_from (st : state) (k : N) : Prop :=
  forall k', k <= k' -> get (s_callers st) (aid k') = Idle.

Lemma result_done st c n : result st c = Some n -> get (s_callers st) c = Done (Some n).
Proof.
  unfold result. destruct (get (s_callers st) c) as [| |[m|]|]; try discriminate.
  intro H. inversion H. reflexivity.
Qed.

(* the numbers of the attempts are, in the order of the attempts, numbers written to the counter
   by the attempts' own calls after the history began *)
Lemma hrun_sub ops : forall h k,
  link (hs_ctr h) -> fresh_from (hs_ctr h) k ->
  exists new, s_trace (hs_ctr (hrun_st h k ops)) = new ++ s_trace (hs_ctr h) /\
              sublist (hnums (hrun_res h k ops)) (flat_map ev_handed (rev new)).
Proof.
  induction ops as [|o r IH]; intros h k L F; cbn [hrun_st hrun_res].
  - exists []. split; [reflexivity|constructor].
  - set (h' := fst (hstep h k o)).
    assert (Hc : hs_ctr h' = run (hs_ctr h) (heff_op h k o)) by apply hstep_ctr.
    destruct (run_trace_extends (heff_op h k o) (hs_ctr h)) as (new1 & E1).
    assert (L' : link (hs_ctr h')) by (rewrite Hc; apply link_run; exact L).
    assert (F' : fresh_from (hs_ctr h') (N.succ k)).
    { intros k' Hk'. rewrite Hc. rewrite run_other; [apply F; lia|].
      apply heff_op_other. lia. }
    destruct (IH h' (N.succ k) L' F') as (new2 & E2 & S2).
    exists (new2 ++ new1). split.
    + rewrite E2, Hc, E1. apply app_assoc.
    + rewrite rev_app_distr, flat_map_app. unfold hnums. cbn [flat_map].
      apply sublist_app; [|exact S2].
      destruct (hr_seen (snd (hstep h k o))) as [n|] eqn:Sn; [|apply sublist_nil].
      apply sublist_single. apply hstep_seen in Sn. apply result_done in Sn.
      apply (in_ret_handed (aid k)). apply -> in_rev.
      assert (Hin : In (EvRet (aid k) n) (s_trace (run (hs_ctr h) (heff_op h k o)))).
      { rewrite <- Hc in *. apply L'. exact Sn. }
      rewrite E1 in Hin. apply in_app_or in Hin. destruct Hin as [Hin|Hin]; [exact Hin|].
      exfalso. apply L in Hin. rewrite (F k) in Hin by lia. discriminate.
Qed.

Lemma fresh_init s0 k : fresh_from (init s0) k.
Proof. intros k' _. reflexivity. Qed.

Lemma hist_sublist s0 states ops :
  sublist (hnums (hrun_res (hinit s0 states) 0 ops))
          (handed (hs_ctr (hrun_st (hinit s0 states) 0 ops))).
Proof.
  destruct (hrun_sub ops (hinit s0 states) 0 (link_init s0) (fresh_init s0 0)) as (new & E & S).
  unfold handed, chron. rewrite E. cbn [hinit hs_ctr init s_trace]. rewrite app_nil_r. exact S.
Qed.

(* every attempt that goes on does so under a number larger than that of every earlier attempt
   of any environment, and larger than the counter at the start *)
Lemma hist_sorted s0 states ops :
  wf_store s0 -> env_ok (init s0) (heff (hinit s0 states) 0 ops) ->
  StronglySorted N.lt (cur s0 :: hnums (hrun_res (hinit s0 states) 0 ops)).
Proof.
  intros W Hok.
  apply (sublist_sorted N.lt _ (cur s0 :: handed (hs_ctr (hrun_st (hinit s0 states) 0 ops)))).
  - apply sl_keep. apply hist_sublist.
  - rewrite hrun_ctr. cbn [hinit hs_ctr]. apply handed_sorted; assumption.
Qed.

Lemma hist_nodup s0 states ops :
  wf_store s0 -> env_ok (init s0) (heff (hinit s0 states) 0 ops) ->
  NoDup (hnums (hrun_res (hinit s0 states) 0 ops)).
Proof.
  intros W Hok. pose proof (hist_sorted s0 states ops W Hok) as S.
  inversion S; subst. apply ssorted_nodup. assumption.
Qed.

(* one attempt: it goes on only under a number obtained by its own fresh call — the caller was
   idle when the attempt began and returned that number through an applied CAS during it *)
Lemma attempt_draws_fresh h k o n :
  link (hs_ctr h) -> get (s_callers (hs_ctr h)) (aid k) = Idle ->
  hr_seen (snd (hstep h k o)) = Some n ->
  ~ In (EvRet (aid k) n) (s_trace (hs_ctr h)) /\
  In (EvRet (aid k) n) (s_trace (hs_ctr (fst (hstep h k o)))).
Proof.
  intros L G Sn. split.
  - intro Hin. apply L in Hin. rewrite G in Hin. discriminate.
  - rewrite hstep_ctr. apply hstep_seen in Sn. apply result_done in Sn.
    apply (link_run (heff_op h k o) _ L). exact Sn.
Qed.

(* what the environment keeps: after an attempt that went on, its run number is the drawn one
   (or 0 if tasks failed to start); a cancelled or refused attempt changes nothing *)
Lemma attempt_env h k ei neg_ok rest sched :
  let x := snd (hstep h k (HStart ei neg_ok rest sched)) in
  let e := eget (hs_envs h) ei in
  match hr_seen x with
  | Some n => hr_rn x = (if rest <=? 1 then n else 0) /\ hr_err x = negb (rest =? 0) /\
              eget (hs_envs (fst (hstep h k (HStart ei neg_ok rest sched)))) ei =
              mkEnv (hr_state x) (hr_rn x)
  | None => hr_err x = true /\ hr_state x = e_state e /\ hr_rn x = e_rn e /\
            hs_envs (fst (hstep h k (HStart ei neg_ok rest sched))) = hs_envs h
  end.
Proof.
  cbv zeta. unfold hstep.
  destruct (asks_number (eget (hs_envs h) ei) neg_ok); [|cbn; auto].
  destruct (result _ (aid k)) as [n|]; [|cbn; auto].
  cbn [snd fst hr_seen hr_rn hr_err hr_state hs_envs].
  unfold eget. cbn [assocN]. rewrite N.eqb_refl.
  destruct (rest =? 0) eqn:R0.
  - apply N.eqb_eq in R0. subst. cbn. auto.
  - destruct (rest =? 1) eqn:R1.
    + apply N.eqb_eq in R1. subst. cbn. auto.
    + apply N.eqb_neq in R0. apply N.eqb_neq in R1.
      assert (H : (rest <=? 1) = false) by (apply N.leb_gt; lia). rewrite H. cbn. auto.
Qed.

(* with crashes at any points but no content from outside: no hypothesis at all *)
Lemma file_sorted_plain f sched :
  Forall (fun e => match e with FCrash (Some _) => False | _ => True end) sched ->
  StronglySorted N.lt (fcur f :: fhanded (frun (finit f) sched)).
Proof. intro F. apply file_sorted. apply fenv_ok_plain. exact F. Qed.

(* ================= the glue: remote client and server wrapper ================= *)
Lemma remote_client_faithful reply n :
  remote_client reply = Some n -> reply = Some (Some n).
Proof. destruct reply as [[m|]|]; cbn; intro H; inversion H; reflexivity. Qed.

Lemma remote_client_error reply :
  (reply = None \/ reply = Some None) -> remote_client reply = None.
Proof. intros [->| ->]; reflexivity. Qed.

(* through the remote path a caller only ever gets a number that the service returned, without
   error, during that very call *)
Lemma remote_only_service_numbers ops : forall st up c,
  Forall (fun o => match fst o with Some n => In (Some n) (snd o) | None => True end) (rrun st up c ops).
Proof.
  induction ops as [|o r IH]; intros st up c; [constructor|].
  destruct o as [| | |b]; cbn [rrun].
  - destruct up.
    + constructor; [|apply IH]. cbn [fst snd remote_client].
      destruct (fres (frun st (fserial [c])) c) as [n|]; [left; reflexivity|exact I].
    + constructor; [exact I|apply IH].
  - constructor; [exact I|apply IH].
  - constructor; [exact I|apply IH].
  - constructor; [exact I|apply IH].
Qed.
