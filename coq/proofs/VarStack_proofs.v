(* Lemmas about the variable-hierarchy model (property C14). *)
From Verif Require Import Common VarStack.
Open Scope N_scope.

(* ---------- keys ---------- *)
Lemma str_eqb_neq a b : str_eqb a b = false <-> a <> b.
Proof.
  split.
  - intros H E. apply str_eqb_spec in E. congruence.
  - intro H. destruct (str_eqb a b) eqn:E; [|reflexivity].
    apply str_eqb_spec in E. contradiction.
Qed.

(* ---------- one map ---------- *)
Lemma assoc_set_kv k k' v (m : gmap) :
  assoc k (set_kv k' v m) = if str_eqb k k' then Some v else assoc k m.
Proof.
  induction m as [|[kk vv] r IH]; cbn [set_kv assoc].
  - reflexivity.
  - destruct (str_eqb k' kk) eqn:E1.
    + apply str_eqb_spec in E1. subst kk. cbn [assoc].
      destruct (str_eqb k k'); reflexivity.
    + cbn [assoc]. rewrite IH.
      destruct (str_eqb k kk) eqn:E2; [|reflexivity].
      destruct (str_eqb k k') eqn:E3; [|reflexivity].
      apply str_eqb_spec in E2. apply str_eqb_spec in E3. subst.
      rewrite str_eqb_refl in E1. discriminate.
Qed.

Lemma assoc_del_kv k k' (m : gmap) :
  assoc k (del_kv k' m) = if str_eqb k k' then None else assoc k m.
Proof.
  unfold del_kv. induction m as [|[kk vv] r IH]; cbn [filter assoc fst].
  - destruct (str_eqb k k'); reflexivity.
  - destruct (str_eqb k' kk) eqn:E1; cbn [negb].
    + apply str_eqb_spec in E1. subst kk. rewrite IH.
      destruct (str_eqb k k'); reflexivity.
    + cbn [assoc]. rewrite IH.
      destruct (str_eqb k kk) eqn:E2; [|reflexivity].
      destruct (str_eqb k k') eqn:E3; [|reflexivity].
      apply str_eqb_spec in E2. apply str_eqb_spec in E3. subst.
      rewrite str_eqb_refl in E1. discriminate.
Qed.

(* mergo.Merge with override: the source decides wherever it defines the key *)
Lemma assoc_merge k (dst src : gmap) :
  assoc k (merge dst src) =
  match assoc k src with Some v => Some v | None => assoc k dst end.
Proof.
  unfold merge. induction src as [|[kk vv] r IH]; cbn [fold_right assoc fst snd].
  - reflexivity.
  - rewrite assoc_set_kv. destruct (str_eqb k kk); [reflexivity|exact IH].
Qed.

(* ---------- ranked sources ---------- *)
Lemma first_hit_app k a b :
  first_hit k (a ++ b) =
  match first_hit k a with Some v => Some v | None => first_hit k b end.
Proof.
  induction a as [|m r IH]; cbn [app first_hit].
  - reflexivity.
  - destruct (assoc k m); [reflexivity|exact IH].
Qed.

Lemma first_hit_some k l v :
  first_hit k l = Some v <->
  exists pre m post, l = pre ++ m :: post /\ assoc k m = Some v /\
                     forall x, In x pre -> assoc k x = None.
Proof.
  induction l as [|m r IH]; cbn [first_hit].
  - split; [discriminate|]. intros (pre & m & post & E & _). destruct pre; discriminate.
  - destruct (assoc k m) as [w|] eqn:Em.
    + split.
      * intro H. exists [], m, r. repeat split; [congruence|]. intros x [].
      * intros (pre & m' & post & E & Hm & Hpre). destruct pre as [|p0 pre].
        -- cbn in E. inversion E; subst. congruence.
        -- cbn in E. inversion E; subst. specialize (Hpre p0 (or_introl eq_refl)). congruence.
    + rewrite IH. split.
      * intros (pre & m' & post & E & Hm & Hpre). exists (m :: pre), m', post.
        subst r. repeat split; [exact Hm|]. intros x [<-|Hx]; [exact Em|apply Hpre, Hx].
      * intros (pre & m' & post & E & Hm & Hpre). destruct pre as [|p0 pre].
        -- cbn in E. inversion E; subst. congruence.
        -- cbn in E. inversion E; subst. exists pre, m', post.
           repeat split; [exact Hm|]. intros x Hx. apply Hpre. right. exact Hx.
Qed.

Lemma first_hit_none k l :
  first_hit k l = None <-> forall m, In m l -> assoc k m = None.
Proof.
  induction l as [|m r IH]; cbn [first_hit].
  - split; [intros _ x []|reflexivity].
  - destruct (assoc k m) as [w|] eqn:Em.
    + split; [discriminate|]. intro H. specialize (H m (or_introl eq_refl)). congruence.
    + rewrite IH. split.
      * intros H x [<-|Hx]; [exact Em|apply H, Hx].
      * intros H x Hx. apply H. right. exact Hx.
Qed.

(* ---------- hierarchies ---------- *)
Lemma gera_get_first_hit k h : gera_get k h = first_hit k h.
Proof. induction h as [|m r IH]; cbn; [reflexivity|]. rewrite IH. reflexivity. Qed.

Lemma assoc_flattened k h : assoc k (flattened h) = first_hit k h.
Proof.
  induction h as [|m r IH]; cbn [flattened first_hit].
  - reflexivity.
  - rewrite assoc_merge, IH. reflexivity.
Qed.

Lemma get_agrees h k : gera_get k h = assoc k (flattened h).
Proof. rewrite assoc_flattened. apply gera_get_first_hit. Qed.

Lemma nearest_wins h k v :
  assoc k (flattened h) = Some v <->
  exists pre m post, h = pre ++ m :: post /\ assoc k m = Some v /\
                     forall x, In x pre -> assoc k x = None.
Proof. rewrite assoc_flattened. apply first_hit_some. Qed.

Lemma assoc_flattened_parent k h : assoc k (flattened_parent h) = first_hit k (tl h).
Proof. destruct h as [|m r]; cbn [flattened_parent tl]; [reflexivity|apply assoc_flattened]. Qed.

Lemma assoc_waf k own m :
  assoc k (wrapped_and_flattened own m) = first_hit k (own :: m).
Proof.
  unfold wrapped_and_flattened. rewrite assoc_merge, assoc_flattened. reflexivity.
Qed.

Lemma first_hit_flattened_concat k hs :
  first_hit k (map flattened hs) = first_hit k (concat hs).
Proof.
  induction hs as [|h r IH]; cbn [map concat first_hit].
  - reflexivity.
  - rewrite first_hit_app, assoc_flattened, IH. reflexivity.
Qed.

Lemma assoc_flatten_stack k hs :
  assoc k (flatten_stack hs) = first_hit k (concat (rev hs)).
Proof.
  unfold flatten_stack. rewrite assoc_flattened, first_hit_app.
  rewrite <- map_rev, first_hit_flattened_concat. cbn [first_hit assoc].
  destruct (first_hit k (concat (rev hs))); reflexivity.
Qed.

(* Set / Del at one level change that level's answer only *)
Lemma get_after_set k k' v m ps :
  gera_get k (set_kv k' v m :: ps) = if str_eqb k k' then Some v else gera_get k (m :: ps).
Proof. cbn [gera_get]. rewrite assoc_set_kv. destruct (str_eqb k k'); reflexivity. Qed.

(* ---------- roles ---------- *)
Lemma assoc_consolidated_of k d v u :
  assoc k (consolidated_of d v u) = first_hit k (u ++ v ++ d).
Proof.
  unfold consolidated_of. rewrite assoc_flattened.
  change [flattened u; flattened v; flattened d] with (map flattened [u; v; d]).
  rewrite first_hit_flattened_concat. cbn [concat]. rewrite app_nil_r. reflexivity.
Qed.

Lemma assoc_consolidated k p : assoc k (consolidated p) = first_hit k (sources p).
Proof. unfold consolidated, sources. apply assoc_consolidated_of. Qed.

Lemma precedence p k v :
  assoc k (consolidated p) = Some v <->
  exists pre m post, sources p = pre ++ m :: post /\ assoc k m = Some v /\
                     forall x, In x pre -> assoc k x = None.
Proof. rewrite assoc_consolidated. apply first_hit_some. Qed.

Lemma undefined_iff p k :
  assoc k (consolidated p) = None <-> forall m, In m (sources p) -> assoc k m = None.
Proof. rewrite assoc_consolidated. apply first_hit_none. Qed.

Lemma sources_ranking roles env :
  sources (roles ++ [env]) =
  map l_user roles ++ [l_user env] ++ map l_vars roles ++ [l_vars env] ++
  map l_defaults roles ++ [l_defaults env].
Proof.
  unfold sources, chain. rewrite !map_app. cbn [map]. rewrite <- !app_assoc. reflexivity.
Qed.

Lemma empty_defines p k pre m post :
  sources p = pre ++ m :: post -> assoc k m = Some [] ->
  (forall x, In x pre -> assoc k x = None) ->
  assoc k (consolidated p) = Some [].
Proof. intros E Hm Hpre. apply precedence. exists pre, m, post. auto. Qed.

Lemma flatten_stack_agrees d v u k :
  assoc k (flatten_stack [d; v; u]) = assoc k (consolidated_of d v u).
Proof.
  rewrite assoc_flatten_stack, assoc_consolidated_of. cbn [rev app concat].
  rewrite app_nil_r. reflexivity.
Qed.

(* ---------- stages ---------- *)
Lemma stage_count_is : stage_count = 6.
Proof. reflexivity. Qed.

Lemma stage_table_documented :
  stage_rows =
  [ (0, [false; false; false; true; true; true; true]);
    (1, [false; false; false; true; true; true; true]);
    (2, [true;  false; false; true; true; true; true]);
    (3, [true;  true;  false; true; true; true; true]);
    (4, [true;  true;  true;  true; true; true; true]);
    (5, [true;  true;  true;  true; true; true; true]) ].
Proof. reflexivity. Qed.

Lemma stage_thresholds s :
  s < stage_count ->
  sees_own_defaults s = (2 <=? s) /\ sees_own_vars s = (3 <=? s) /\ sees_own_user s = (4 <=? s).
Proof.
  rewrite stage_count_is. intro H.
  assert (Hs : s = 0 \/ s = 1 \/ s = 2 \/ s = 3 \/ s = 4 \/ s = 5) by lia.
  destruct Hs as [-> | [-> | [-> | [-> | [-> | ->]]]]]; vm_compute; repeat split; reflexivity.
Qed.

Lemma assoc_pick k b m ps :
  assoc k (pick b (m :: ps)) = first_hit k ((if b then [m] else []) ++ ps).
Proof.
  destruct b; cbn [pick app].
  - apply assoc_flattened.
  - apply assoc_flattened_parent.
Qed.

Lemma first_hit_nil_r k l : first_hit k (l ++ [[]]) = first_hit k l.
Proof.
  rewrite first_hit_app. cbn [first_hit assoc]. destruct (first_hit k l); reflexivity.
Qed.

Lemma staged_generic bd bv bu locals (own : level) (anc : path) k :
  assoc k (flattened [locals; pick bu (l_user own :: chain l_user anc);
                      pick bv (l_vars own :: chain l_vars anc);
                      pick bd (l_defaults own :: chain l_defaults anc)]) =
  first_hit k ([locals]
               ++ (if bu then [l_user own] else []) ++ chain l_user anc
               ++ (if bv then [l_vars own] else []) ++ chain l_vars anc
               ++ (if bd then [l_defaults own] else []) ++ chain l_defaults anc).
Proof.
  rewrite assoc_flattened. cbn [first_hit]. rewrite !assoc_pick.
  cbn [app first_hit]. rewrite !first_hit_app.
  destruct (assoc k locals); [reflexivity|].
  destruct (first_hit k (if bu then [l_user own] else [])); [reflexivity|].
  destruct (first_hit k (chain l_user anc)); [reflexivity|].
  destruct (first_hit k (if bv then [l_vars own] else [])); [reflexivity|].
  destruct (first_hit k (chain l_vars anc)); [reflexivity|].
  destruct (first_hit k (if bd then [l_defaults own] else [])); [reflexivity|].
  destruct (first_hit k (chain l_defaults anc)); reflexivity.
Qed.

Lemma stage_visibility s locals own anc k :
  s < stage_count ->
  assoc k (staged s locals (own :: anc)) = first_hit k (stage_sources s locals own anc).
Proof.
  intro Hs. destruct (stage_thresholds s Hs) as (Hd & Hv & Hu).
  unfold staged, staged_of, stage_sources. cbn [chain map].
  rewrite Hd, Hv, Hu. apply staged_generic.
Qed.

(* the last stages without locals see exactly the consolidated stack *)
Lemma final_stage_is_consolidated s own anc k :
  4 <= s < stage_count ->
  assoc k (staged s [] (own :: anc)) = assoc k (consolidated (own :: anc)).
Proof.
  intros [H4 Hs]. rewrite stage_visibility by exact Hs. rewrite assoc_consolidated.
  unfold stage_sources, sources. cbn [chain map].
  assert (E4 : (4 <=? s) = true) by (apply N.leb_le; exact H4).
  assert (E3 : (3 <=? s) = true) by (apply N.leb_le; lia).
  assert (E2 : (2 <=? s) = true) by (apply N.leb_le; lia).
  rewrite E4, E3, E2. cbn [app first_hit assoc]. reflexivity.
Qed.

(* ---------- template references ---------- *)
Lemma assoc_eval_map look (m : rmap) m' k :
  eval_map_with look m = Some m' ->
  assoc k m' = match assoc k m with Some t => eval_with look t | None => None end.
Proof.
  revert m'. induction m as [|[kk t] r IH]; intros m' H; cbn [eval_map_with] in H.
  - inversion H; subst. reflexivity.
  - destruct (eval_with look t) as [x|] eqn:Ex; [|discriminate].
    destruct (eval_map_with look r) as [r'|] eqn:Er; [|discriminate].
    inversion H; subst. cbn [assoc].
    destruct (str_eqb k kk); [symmetry; exact Ex|]. apply IH. reflexivity.
Qed.

Lemma resolve_level_inv anc locals nm d v n lv :
  resolve_level anc locals nm d v = Some (n, lv) ->
  exists d' v',
    eval_map (staged 1 locals (mkLevel (raw_map d) (raw_map v) [] :: anc)) d = Some d' /\
    eval_map (staged 2 locals (mkLevel d' (raw_map v) [] :: anc)) v = Some v' /\
    lv = mkLevel d' (merge v' locals) [].
Proof.
  unfold resolve_level. intro H.
  destruct (eval_map _ d) as [d'|] eqn:Ed; [|discriminate].
  destruct (eval_map _ v) as [v'|] eqn:Ev; [|discriminate].
  destruct nm as [k|].
  - destruct (assoc k _) as [x|]; [|discriminate]. inversion H; subst.
    exists d', v'. auto.
  - inversion H; subst. exists d', v'. auto.
Qed.

Lemma one_lt_count : 1 < stage_count. Proof. reflexivity. Qed.
Lemma two_lt_count : 2 < stage_count. Proof. reflexivity. Qed.

(* a reference written in the own defaults is resolved against locals + ancestors only *)
Lemma reference_in_defaults anc locals nm d v n lv k r :
  resolve_level anc locals nm d v = Some (n, lv) ->
  assoc k d = Some (VRef r) ->
  assoc k (l_defaults lv) =
  first_hit r ([locals] ++ chain l_user anc ++ chain l_vars anc ++ chain l_defaults anc).
Proof.
  intros H Hk. destruct (resolve_level_inv _ _ _ _ _ _ _ H) as (d' & v' & Ed & Ev & ->).
  cbn [l_defaults]. unfold eval_map in Ed.
  rewrite (assoc_eval_map _ _ _ k Ed), Hk. cbn [eval_with].
  rewrite stage_visibility by exact one_lt_count.
  unfold stage_sources. cbn [N.leb N.compare Pos.compare Pos.compare_cont app]. reflexivity.
Qed.

(* a reference written in the own vars additionally sees the own (resolved) defaults;
   own vars and user vars are not visible to it *)
Lemma reference_in_vars anc locals nm d v n lv k r :
  resolve_level anc locals nm d v = Some (n, lv) ->
  assoc k v = Some (VRef r) -> assoc k locals = None ->
  assoc k (l_vars lv) =
  first_hit r ([locals] ++ chain l_user anc ++ chain l_vars anc ++
               [l_defaults lv] ++ chain l_defaults anc).
Proof.
  intros H Hk Hl. destruct (resolve_level_inv _ _ _ _ _ _ _ H) as (d' & v' & Ed & Ev & ->).
  cbn [l_vars l_defaults]. rewrite assoc_merge, Hl. unfold eval_map in Ev.
  rewrite (assoc_eval_map _ _ _ k Ev), Hk. cbn [eval_with].
  rewrite stage_visibility by exact two_lt_count.
  unfold stage_sources. cbn [N.leb N.compare Pos.compare Pos.compare_cont app l_defaults].
  reflexivity.
Qed.

(* a literal is kept as written *)
Lemma literal_in_defaults anc locals nm d v n lv k s :
  resolve_level anc locals nm d v = Some (n, lv) ->
  assoc k d = Some (VLit s) -> assoc k (l_defaults lv) = Some s.
Proof.
  intros H Hk. destruct (resolve_level_inv _ _ _ _ _ _ _ H) as (d' & v' & Ed & Ev & ->).
  cbn [l_defaults]. unfold eval_map in Ed.
  rewrite (assoc_eval_map _ _ _ k Ed), Hk. reflexivity.
Qed.

(* the iterator's local becomes a var of the generated role *)
Lemma iterator_local anc locals nm d v n lv k x :
  resolve_level anc locals nm d v = Some (n, lv) ->
  assoc k locals = Some x -> assoc k (l_vars lv) = Some x.
Proof.
  intros H Hk. destruct (resolve_level_inv _ _ _ _ _ _ _ H) as (d' & v' & Ed & Ev & ->).
  cbn [l_vars]. rewrite assoc_merge, Hk. reflexivity.
Qed.

(* ---------- every role of every tree ---------- *)
Section LtreeInd.
  Variable P : ltree -> Prop.
  Hypothesis HN : forall n lv hid ch, Forall P ch -> P (LNode n lv hid ch).
  Fixpoint ltree_ind' (t : ltree) : P t :=
    match t with
    | LNode n lv hid ch =>
      HN n lv hid ch ((fix go (l : list ltree) : Forall P l :=
                         match l with
                         | [] => Forall_nil P
                         | c :: r => Forall_cons c (ltree_ind' c) (go r)
                         end) ch)
    end.
End LtreeInd.

Lemma in_flat_mapi {A B} (g : N -> A -> list B) x l i :
  In x (flat_mapi g i l) -> exists j c, In c l /\ In x (g j c).
Proof.
  revert i. induction l as [|c r IH]; intros i H; cbn [flat_mapi] in H.
  - contradiction.
  - apply in_app_or in H. destruct H as [H|H].
    + exists i, c. split; [left; reflexivity|exact H].
    + destruct (IH _ H) as (j & c' & Hc & Hx). exists j, c'. split; [right; exact Hc|exact Hx].
Qed.

(* the path of a role: its visible level, its hidden levels, then possibly more roles, then
   what the tree was loaded under *)
Lemma nodes_path t : forall anc raddr a n hid p,
  In (a, n, hid, p) (nodes anc raddr t) ->
  exists lv rest, p = lv :: hid ++ rest ++ anc.
Proof.
  induction t as [nm lv hd0 ch IH] using ltree_ind'. intros anc raddr a n hid p H.
  cbn [nodes] in H. destruct H as [E|H].
  - inversion E; subst. exists lv, []. reflexivity.
  - apply in_flat_mapi in H. destruct H as (j & c & Hc & Hx).
    rewrite Forall_forall in IH. destruct (IH c Hc _ _ _ _ _ _ Hx) as (lv' & rest & ->).
    exists lv', (rest ++ lv :: hd0). rewrite <- !app_assoc. reflexivity.
Qed.

(* the roles of the subtree of a node all have the node's visible and hidden levels, in this
   order, right above what the node was loaded under *)
Lemma nodes_below t : forall anc raddr a n hid p,
  In (a, n, hid, p) (nodes anc raddr t) ->
  match t with LNode _ lv hd0 _ => exists roles, p = roles ++ lv :: hd0 ++ anc end.
Proof.
  destruct t as [nm lv hd0 ch]. intros anc raddr a n hid p H.
  cbn [nodes] in H. destruct H as [E|H].
  - inversion E; subst. exists []. reflexivity.
  - apply in_flat_mapi in H. destruct H as (j & c & Hc & Hx).
    destruct (nodes_path c _ _ _ _ _ _ Hx) as (lv' & rest & ->).
    exists (lv' :: hid ++ rest). cbn [app]. rewrite <- !app_assoc. reflexivity.
Qed.

Lemma forest_nodes_path anc ts a n hid p :
  In (a, n, hid, p) (forest_nodes anc ts) -> exists lv rest, p = lv :: hid ++ rest ++ anc.
Proof.
  unfold forest_nodes. intro H. apply in_flat_mapi in H.
  destruct H as (j & t & _ & Hx). eapply nodes_path. exact Hx.
Qed.

Lemma every_role env t ops vs w :
  run_tree env t ops = Some vs -> In w vs ->
  exists above, let roles := w_own w :: w_hid w ++ above in
    (forall k, assoc k (w_stack w) = first_hit k (sources (roles ++ [env]))) /\
    (forall k, assoc k (l_defaults (w_maps w)) = first_hit k (chain l_defaults (roles ++ [env]))) /\
    (forall k, assoc k (l_vars (w_maps w)) = first_hit k (chain l_vars (roles ++ [env]))) /\
    (forall k, assoc k (l_user (w_maps w)) = first_hit k (chain l_user (roles ++ [env]))).
Proof.
  unfold run_tree. destruct (load [env] [] t) as [f|]; [|discriminate].
  intros E Hw. inversion E; subst. apply in_map_iff in Hw.
  destruct Hw as ([[[a n] hid] p] & <- & Hin).
  destruct (forest_nodes_path _ _ _ _ _ _ Hin) as (lv & rest & ->).
  exists rest. cbn [view_of w_own w_hid w_stack w_maps l_defaults l_vars l_user hd].
  replace ((lv :: hid ++ rest) ++ [env]) with (lv :: hid ++ rest ++ [env])
    by (cbn [app]; rewrite <- app_assoc; reflexivity).
  split; [intro k; apply assoc_consolidated|].
  repeat split; intro k; apply assoc_flattened.
Qed.

(* ---------- include roles ---------- *)
(* loading an include role: its own level is resolved like any role's, the sub-workflow root's
   level is resolved under it, and every role of the included subtree (the include role itself:
   roles = []) has the root's level and then the include role's own level right above the
   include role's ancestors *)
Lemma include_levels anc locals nm d v sd sv ch ts :
  load anc locals (RIncl nm d v sd sv ch) = Some ts ->
  exists n lvi sn lvs,
    resolve_level anc locals nm (decode d) (decode v) = Some (n, lvi) /\
    resolve_level (lvi :: anc) [] None (decode sd) (decode sv) = Some (sn, lvs) /\
    forall a n' hid p, In (a, n', hid, p) (forest_nodes anc ts) ->
      exists roles, p = roles ++ lvs :: lvi :: anc.
Proof.
  cbn [load]. destruct (resolve_level anc locals nm (decode d) (decode v)) as [[n lvi]|] eqn:E1;
    [|discriminate].
  destruct (resolve_level (lvi :: anc) [] None (decode sd) (decode sv)) as [[sn lvs]|] eqn:E2;
    [|discriminate].
  destruct (opt_concat_map _ ch) as [kids|]; [|discriminate].
  intro E. inversion E; subst. exists n, lvi, sn, lvs.
  split; [reflexivity|]. split; [exact E2|].
  intros a n' hid p H. unfold forest_nodes in H. cbn [flat_mapi] in H. rewrite app_nil_r in H.
  exact (nodes_below _ _ _ _ _ _ _ H).
Qed.

(* a var of the include role (for instance the iterator local that generated it) is what the
   included subtree sees, unless a user var on the path or a var below the include role's own
   level defines the key *)
Lemma include_var_reaches_subtree roles lvs lvi anc k x :
  first_hit k (chain l_user (roles ++ lvs :: lvi :: anc)) = None ->
  first_hit k (chain l_vars (roles ++ [lvs])) = None ->
  assoc k (l_vars lvi) = Some x ->
  assoc k (consolidated (roles ++ lvs :: lvi :: anc)) = Some x.
Proof.
  intros Hu Hv Hx. rewrite assoc_consolidated. unfold sources.
  rewrite first_hit_app, Hu.
  replace (roles ++ lvs :: lvi :: anc) with ((roles ++ [lvs]) ++ lvi :: anc)
    by (rewrite <- app_assoc; reflexivity).
  unfold chain at 1. rewrite map_app. fold (chain l_vars (roles ++ [lvs])).
  rewrite !first_hit_app, Hv. cbn [map first_hit]. rewrite Hx. reflexivity.
Qed.

(* a default of the include role outranks the defaults of all its ancestors, environment-wide
   ones included, for the whole included subtree *)
Lemma include_default_reaches_subtree roles lvs lvi anc k x :
  first_hit k (chain l_user (roles ++ lvs :: lvi :: anc)) = None ->
  first_hit k (chain l_vars (roles ++ lvs :: lvi :: anc)) = None ->
  first_hit k (chain l_defaults (roles ++ [lvs])) = None ->
  assoc k (l_defaults lvi) = Some x ->
  assoc k (consolidated (roles ++ lvs :: lvi :: anc)) = Some x.
Proof.
  intros Hu Hv Hd Hx. rewrite assoc_consolidated. unfold sources.
  rewrite first_hit_app, Hu, first_hit_app, Hv.
  replace (roles ++ lvs :: lvi :: anc) with ((roles ++ [lvs]) ++ lvi :: anc)
    by (rewrite <- app_assoc; reflexivity).
  unfold chain. rewrite map_app. fold (chain l_defaults (roles ++ [lvs])).
  rewrite first_hit_app, Hd. cbn [map first_hit]. rewrite Hx. reflexivity.
Qed.

(* ---------- written forms ---------- *)
(* whatever is written as a definition - plain scalar or annotated form, empty text included -
   is an entry of the decoded map *)
Lemma written_definition (w : wmap) k e v :
  assoc k w = Some e -> entry_def e = Some v -> assoc k (decode w) = Some v.
Proof.
  induction w as [|[k' e'] r IH]; cbn [assoc decode]; [discriminate|].
  destruct (str_eqb k k') eqn:E.
  - intros H Hv. inversion H; subst e'. rewrite Hv. cbn [assoc]. rewrite E. reflexivity.
  - intros H Hv. destruct (entry_def e'); [cbn [assoc]; rewrite E|]; apply IH; assumption.
Qed.

Lemma unwritten_undefined (w : wmap) k : assoc k w = None -> assoc k (decode w) = None.
Proof.
  induction w as [|[k' e'] r IH]; cbn [assoc decode]; [reflexivity|].
  destruct (str_eqb k k') eqn:E; [discriminate|].
  intro H. destruct (entry_def e'); [cbn [assoc]; rewrite E|]; apply IH; exact H.
Qed.

(* a literal written in a role's defaults / vars block, in either form, the empty text included,
   is the role's own default / var (a var unless an iterator local of the same name replaces it) *)
Lemma written_literal_in_defaults anc locals nm d v n lv k e s :
  resolve_level anc locals nm (decode d) (decode v) = Some (n, lv) ->
  assoc k d = Some e -> entry_def e = Some (VLit s) -> assoc k (l_defaults lv) = Some s.
Proof.
  intros H Hk He. eapply literal_in_defaults; [exact H|].
  eapply written_definition; eassumption.
Qed.

Lemma written_literal_in_vars anc locals nm d v n lv k e s :
  resolve_level anc locals nm (decode d) (decode v) = Some (n, lv) ->
  assoc k v = Some e -> entry_def e = Some (VLit s) -> assoc k locals = None ->
  assoc k (l_vars lv) = Some s.
Proof.
  intros H Hk He Hl. destruct (resolve_level_inv _ _ _ _ _ _ _ H) as (d' & v' & Ed & Ev & ->).
  cbn [l_vars]. rewrite assoc_merge, Hl. unfold eval_map in Ev.
  rewrite (assoc_eval_map _ _ _ k Ev), (written_definition _ _ _ _ Hk He). reflexivity.
Qed.

(* ---------- iterators ---------- *)
(* every time an iterator is loaded - an iterator inside the template of another one once per
   role the outer one generates - its range is evaluated against the consolidated stack of the
   role it is loaded under, and one copy of the template is loaded per value *)
Lemma iterator_range anc locals var rng tpl ts :
  load anc locals (RIter var rng tpl) = Some ts ->
  exists vals, eval_range (consolidated anc) rng = Some vals /\
               opt_concat_map (fun x => load anc [(var, x)] tpl) vals = Some ts.
Proof.
  cbn [load]. destruct (eval_range (consolidated anc) rng) as [vals|]; [|discriminate].
  intro H. exists vals. split; [reflexivity|exact H].
Qed.

(* a reference in a range is resolved by the ranking of the sources seen from that role *)
Lemma range_reference anc k :
  eval_val (consolidated anc) (VRef k) = first_hit k (sources anc).
Proof. unfold eval_val. cbn [eval_with]. apply assoc_consolidated. Qed.

(* so the bound of an iterator loaded under a role generated by an outer iterator is that role's
   value of the outer variable (unless a user var on the path or a nearer var defines the name) *)
Lemma nested_range_sees_own_outer_value anc' locals nm d v n lv anc var x :
  resolve_level anc' locals nm d v = Some (n, lv) -> assoc var locals = Some x ->
  first_hit var (chain l_user (lv :: anc)) = None ->
  eval_val (consolidated (lv :: anc)) (VRef var) = Some x.
Proof.
  intros Hr Hl Hu. rewrite range_reference. unfold sources. rewrite first_hit_app, Hu.
  cbn [chain map app first_hit]. rewrite (iterator_local _ _ _ _ _ _ _ _ _ Hr Hl). reflexivity.
Qed.

(* ---------- task level ---------- *)
Lemma assoc_cmd_final wf sp d v k :
  assoc k (wrapped_and_flattened (merge wf sp) [v; d]) = first_hit k [sp; wf; v; d].
Proof.
  rewrite assoc_waf. cbn [first_hit]. rewrite assoc_merge.
  destruct (assoc k sp); [reflexivity|]. destruct (assoc k wf); reflexivity.
Qed.

(* command line: special > workflow > class vars > class defaults, in full *)
Lemma cmd_stack_precedence wf sp cd cv d v st k :
  cmd_resolved wf sp cd cv = Some (d, v) -> cmd_stack wf sp cd cv = Some st ->
  assoc k st = first_hit k [sp; wf; v; d].
Proof.
  unfold cmd_stack. intros -> H. inversion H; subst. apply assoc_cmd_final.
Qed.

(* in particular a class var outranks a class default of the same key (what fix C14-a repaired) *)
Lemma class_var_over_class_default wf sp cd cv d v st k x :
  cmd_resolved wf sp cd cv = Some (d, v) -> cmd_stack wf sp cd cv = Some st ->
  first_hit k [sp; wf] = None -> assoc k v = Some x -> assoc k st = Some x.
Proof.
  intros Hr Hs Hn Hv. rewrite (cmd_stack_precedence _ _ _ _ _ _ _ k Hr Hs). cbn [first_hit] in *.
  destruct (assoc k sp); [discriminate|]. destruct (assoc k wf); [discriminate|].
  rewrite Hv. reflexivity.
Qed.

Lemma workflow_over_class_cmd wf sp cd cv st k x :
  cmd_stack wf sp cd cv = Some st -> first_hit k [sp; wf] = Some x -> assoc k st = Some x.
Proof.
  unfold cmd_stack. destruct (cmd_resolved wf sp cd cv) as [[d v]|]; [|discriminate].
  intros H Hx. inversion H; subst. rewrite assoc_cmd_final. cbn [first_hit] in *.
  destruct (assoc k sp); [exact Hx|].
  destruct (assoc k wf); [exact Hx|discriminate].
Qed.

Lemma assoc_prop_stack wf sp cd cv k :
  assoc k (prop_stack wf sp cd cv) = first_hit k [sp; wf; raw_map cv; raw_map cd].
Proof.
  unfold prop_stack. rewrite assoc_merge, assoc_waf. cbn [first_hit]. reflexivity.
Qed.

Lemma workflow_over_class_prop wf sp cd cv k x :
  first_hit k [sp; wf] = Some x -> assoc k (prop_stack wf sp cd cv) = Some x.
Proof.
  intro Hx. rewrite assoc_prop_stack. cbn [first_hit] in *.
  destruct (assoc k sp); [exact Hx|]. destruct (assoc k wf); [exact Hx|discriminate].
Qed.

(* a class value is visible iff neither the workflow nor the special values define the key *)
Lemma class_visible_iff_cmd wf sp cd cv d v st k :
  cmd_resolved wf sp cd cv = Some (d, v) -> cmd_stack wf sp cd cv = Some st ->
  first_hit k [sp; wf] = None -> assoc k st = first_hit k [v; d].
Proof.
  intros Hr Hs Hn. rewrite (cmd_stack_precedence _ _ _ _ _ _ _ k Hr Hs). cbn [first_hit] in *.
  destruct (assoc k sp); [discriminate|]. destruct (assoc k wf); [discriminate|]. reflexivity.
Qed.

(* class defaults are resolved against the workflow, class vars against workflow + defaults *)
Lemma cmd_resolved_inv wf sp cd cv d v :
  cmd_resolved wf sp cd cv = Some (d, v) ->
  eval_map (merge wf sp) cd = Some d /\
  eval_map (wrapped_and_flattened (merge wf sp) [d]) cv = Some v.
Proof.
  unfold cmd_resolved. destruct (eval_map (merge wf sp) cd) as [d'|]; [|discriminate].
  destruct (eval_map _ cv) as [v'|] eqn:Ev; [|discriminate].
  intro H. inversion H; subst. auto.
Qed.

(* ---------- calls ---------- *)
Lemma assoc_call_stack p sp k :
  assoc k (call_stack p sp) = first_hit k (sp :: sources p).
Proof.
  unfold call_stack. rewrite assoc_merge, assoc_consolidated. reflexivity.
Qed.
