(* C16 — lemmas about model/FairMQ.v.
   Shape of the argument: [run] (any script, any length) always ends in one of the finitely many
   complete executions [leaves] (one branch per outcome at every request that is issued); the
   property clauses are decided on all of them by [vm_compute] and lifted to all scripts.  The
   number of arguments forwarded ([nargs]) stays a variable throughout. *)
From Verif Require Import Common Gen_FairMQ FairMQ Gen_FairMQTable.
Open Scope N_scope.

(* ---------- every run is one of the enumerated executions ---------- *)
Lemma hd_in_all_outcomes : forall sc, In (hd Done sc) all_outcomes.
Proof. intros [|o sc]; [left; reflexivity|]. destruct o; cbn; tauto. Qed.

Lemma run_in_leaves : forall sp strict p dev sc log,
  In (run sp strict p dev sc log) (leaves sp strict p dev log).
Proof.
  intros sp strict p. induction p as [f e|ei k IH]; intros dev sc log.
  - left. reflexivity.
  - cbn [run leaves]. apply in_flat_map. exists (hd Done sc). split.
    + apply hd_in_all_outcomes.
    + apply IH.
Qed.

Lemma all_runs (P : root -> obs -> bool) (dom : list root) :
  forallb (fun r => forallb (P r) (leaves_root r)) dom = true ->
  forall r sc, In r dom -> P r (run_root r sc) = true.
Proof.
  intros H r sc Hr. rewrite forallb_forall in H. specialize (H r Hr).
  rewrite forallb_forall in H. apply H. apply run_in_leaves.
Qed.

Lemma in_roots : forall evs nargs mode strict evt dst src,
  In mode modes -> In (evt, dst) evs -> In src o2_states ->
  In (mk_root mode strict evt dst src nargs) (roots evs nargs).
Proof.
  intros evs nargs mode strict evt dst src Hm He Hs. unfold roots.
  apply in_flat_map. exists mode. split; [exact Hm|].
  apply in_flat_map. exists (evt, dst). split; [exact He|].
  apply in_flat_map. exists src. split; [exact Hs|].
  apply in_map_iff. exists strict. split; [reflexivity|].
  destruct strict; cbn; tauto.
Qed.

Lemma ne_true a b : ne a b = true <-> a <> b.
Proof.
  unfold ne. rewrite negb_true_iff. split.
  - intros H E. apply str_eqb_spec in E. congruence.
  - intros H. destruct (str_eqb a b) eqn:E; [|reflexivity]. apply str_eqb_spec in E. contradiction.
Qed.

(* ---------- the reply acceptance rule (client.go:doTransition) ---------- *)
Lemma do_transition_rpcerr ei : do_transition ei RpcErr = ([], true).
Proof. reflexivity. Qed.

Lemma do_transition_state ei trg st ev ok : fst (do_transition ei (Reply trg st ev ok)) = st.
Proof. cbn. destruct (_ && _ && _ && _); reflexivity. Qed.

Lemma do_transition_accepts ei trg st ev ok :
  snd (do_transition ei (Reply trg st ev ok)) = false <->
  ok = true /\ trg = trigger_EXECUTOR /\ ev = ei_evt ei /\ st = ei_dst ei.
Proof.
  cbn [do_transition].
  destruct (ok && N.eqb trg trigger_EXECUTOR && str_eqb ev (ei_evt ei) && str_eqb st (ei_dst ei)) eqn:E;
    cbn [snd]; split; intro H; try reflexivity; try discriminate.
  - apply andb_true_iff in E. destruct E as [E E4]. apply andb_true_iff in E. destruct E as [E E3].
    apply andb_true_iff in E. destruct E as [E1 E2].
    apply N.eqb_eq in E2. apply str_eqb_spec in E3. apply str_eqb_spec in E4. tauto.
  - destruct H as (H1 & H2 & H3 & H4). subst.
    rewrite N.eqb_refl, !str_eqb_refl in E. discriminate.
Qed.

(* ---------- the code's state map is the documented one ---------- *)
Lemma inverse_map_is_image : forall d, state_for_fmq_state d = image MODE_FAIRMQ d.
Proof.
  intro d. unfold state_for_fmq_state, image, spec_image_table, state_map.
  cbv [MODE_FAIRMQ N.eqb Pos.eqb rassoc assoc
       fmq_READY fmq_EXITING fmq_ERROR fmq_RUNNING fmq_IDLE
       D_IDLE D_READY D_RUNNING D_ERROR D_EXITING].
  repeat match goal with
         | |- context [str_eqb d ?c] => destruct (str_eqb d c) eqn:?
         end; try reflexivity; exfalso;
    repeat match goal with H : str_eqb _ _ = true |- _ => apply str_eqb_spec in H end;
    congruence.
Qed.

Lemma forward_map_is_dev_of : forall st,
  In st o2_states -> fmq_state_for_state st = dev_of MODE_FAIRMQ st.
Proof.
  intros st H. cbn in H.
  repeat (destruct H as [H|H]; [subst st; vm_compute; reflexivity|]). contradiction.
Qed.

(* ---------- checks over all complete executions ---------- *)
Definition P_image_notransport (r : root) (ob : obs) : bool :=
  negb (no_transport ob) || image_ok r ob.
Definition P_image_or_unknown (r : root) (ob : obs) : bool :=
  image_ok r ob || (str_eqb (o_final ob) [] && some_rpcerr ob).
Definition P_mon (r : root) (ob : obs) : bool :=
  memN (mon16 (CRun r [] ob)) [0; 1].
Definition P_mon_clean (r : root) (ob : obs) : bool :=
  negb (no_transport ob) || N.eqb (mon16 (CRun r [] ob)) 0.

Lemma chk_image_notransport nargs :
  forallb (fun r => forallb (P_image_notransport r) (leaves_root r)) (roots task_events nargs) = true.
Proof. vm_compute. reflexivity. Qed.

Lemma chk_image_or_unknown nargs :
  forallb (fun r => forallb (P_image_or_unknown r) (leaves_root r)) (roots task_events nargs) = true.
Proof. vm_compute. reflexivity. Qed.

Lemma chk_success nargs :
  forallb (fun r => forallb (success_ok r) (leaves_root r)) (roots task_events nargs) = true.
Proof. vm_compute. reflexivity. Qed.

Lemma chk_rollback nargs :
  forallb (fun r => forallb (rollback_ok r) (leaves_root r)) (roots task_events nargs) = true.
Proof. vm_compute. reflexivity. Qed.

Lemma chk_mon nargs :
  forallb (fun r => forallb (P_mon r) (leaves_root r)) (roots task_events nargs) = true.
Proof. vm_compute. reflexivity. Qed.

Lemma chk_mon_clean nargs :
  forallb (fun r => forallb (P_mon_clean r) (leaves_root r)) (roots task_events nargs) = true.
Proof. vm_compute. reflexivity. Qed.

(* ---------- clause 1: image ---------- *)
Lemma image_notransport : forall mode strict evt dst src nargs sc,
  In mode modes -> In (evt, dst) task_events -> In src o2_states ->
  let ob := run_root (mk_root mode strict evt dst src nargs) sc in
  no_transport ob = true ->
  o_final ob = image mode (o_dev ob).
Proof.
  intros mode strict evt dst src nargs sc Hm He Hs ob Hnt.
  pose proof (all_runs _ _ (chk_image_notransport nargs) _ sc
                       (in_roots _ nargs mode strict evt dst src Hm He Hs)) as H.
  fold ob in H. unfold P_image_notransport in H.
  rewrite Hnt in H. cbn [negb orb] in H. unfold image_ok in H.
  apply str_eqb_spec in H. exact H.
Qed.

Lemma image_or_unknown : forall mode strict evt dst src nargs sc,
  In mode modes -> In (evt, dst) task_events -> In src o2_states ->
  let ob := run_root (mk_root mode strict evt dst src nargs) sc in
  o_final ob = image mode (o_dev ob) \/
  (o_final ob = [] /\ exists st, In st (o_log ob) /\ s_rpcerr st = true).
Proof.
  intros mode strict evt dst src nargs sc Hm He Hs ob.
  pose proof (all_runs _ _ (chk_image_or_unknown nargs) _ sc
                       (in_roots _ nargs mode strict evt dst src Hm He Hs)) as H.
  fold ob in H. unfold P_image_or_unknown in H.
  apply orb_true_iff in H. destruct H as [H|H].
  - left. unfold image_ok in H. apply str_eqb_spec in H. exact H.
  - right. apply andb_true_iff in H. destruct H as [H1 H2].
    apply str_eqb_spec in H1. split; [exact H1|].
    unfold some_rpcerr in H2. apply existsb_exists in H2. exact H2.
Qed.

Lemma image_refuted :
  ~ (forall mode strict evt dst src nargs sc,
        In mode modes -> In (evt, dst) implemented_events -> In src o2_states ->
        let ob := run_root (mk_root mode strict evt dst src nargs) sc in
        o_final ob = image mode (o_dev ob)).
Proof.
  intro H.
  specialize (H MODE_FAIRMQ false E_CONFIGURE O2_CONFIGURED O2_STANDBY 1
                [Done; Done; Done; Done; TAfter]).
  cbn zeta in H.
  assert (Hm : In MODE_FAIRMQ modes) by (cbn; tauto).
  assert (He : In (E_CONFIGURE, O2_CONFIGURED) implemented_events) by (cbn; tauto).
  assert (Hs : In O2_STANDBY o2_states) by (cbn; tauto).
  specialize (H Hm He Hs). vm_compute in H. discriminate H.
Qed.

(* ---------- clause 3: success only in the destination ---------- *)
Lemma success_sound : forall mode strict evt dst src nargs sc,
  In mode modes -> In (evt, dst) task_events -> In src o2_states ->
  let ob := run_root (mk_root mode strict evt dst src nargs) sc in
  o_err ob = false ->
  o_dev ob = dev_of mode dst /\ o_final ob = dst.
Proof.
  intros mode strict evt dst src nargs sc Hm He Hs ob Herr.
  pose proof (all_runs _ _ (chk_success nargs) _ sc
                       (in_roots _ nargs mode strict evt dst src Hm He Hs)) as H.
  fold ob in H. unfold success_ok in H. rewrite Herr in H. cbn [orb] in H.
  apply andb_true_iff in H. destruct H as [H1 H2].
  apply str_eqb_spec in H1. apply str_eqb_spec in H2. split; [exact H1|exact H2].
Qed.

(* ---------- clause 2: roll-back ---------- *)
Definition rollback_holds (g : list (str * str * str)) (srcd dstd : str) (ob : obs) : Prop :=
  forall pre st post,
    o_log ob = pre ++ st :: post ->
    (forall x, In x pre -> in_place x = false) ->
    in_place st = true ->
    s_after st <> srcd -> s_after st <> dstd -> has_edge g (s_after st) srcd = true ->
    exists rb post', post = rb :: post' /\
      is_edge g (s_after st) (ei_evt (s_ei rb)) srcd = true /\
      (reached rb srcd = true -> o_dev ob = srcd).

Lemma rollback_from_sound g srcd dstd fd : forall log,
  rollback_from g srcd dstd fd log = true ->
  forall pre st post,
    log = pre ++ st :: post ->
    (forall x, In x pre -> in_place x = false) ->
    in_place st = true ->
    s_after st <> srcd -> s_after st <> dstd -> has_edge g (s_after st) srcd = true ->
    exists rb post', post = rb :: post' /\
      is_edge g (s_after st) (ei_evt (s_ei rb)) srcd = true /\
      (reached rb srcd = true -> fd = srcd).
Proof.
  induction log as [|x log IH]; intros H pre st post E Hpre Hst Hs Hd He.
  - destruct pre; discriminate E.
  - destruct pre as [|y pre]; cbn [app] in E; inversion E; subst; clear E.
    + cbn [rollback_from] in H. rewrite Hst in H.
      apply ne_true in Hs. apply ne_true in Hd. rewrite Hs, Hd, He in H. cbn [andb] in H.
      destruct post as [|rb post']; [discriminate H|].
      apply andb_true_iff in H. destruct H as [H1 H2].
      exists rb, post'. split; [reflexivity|]. split; [exact H1|].
      intro Hr. rewrite Hr in H2. cbn [negb orb] in H2. apply str_eqb_spec in H2. exact H2.
    + cbn [rollback_from] in H. rewrite (Hpre y (or_introl eq_refl)) in H.
      apply (IH H pre st post eq_refl); try assumption.
      intros z Hz. apply Hpre. right. exact Hz.
Qed.

Lemma rollback : forall mode strict evt dst src nargs sc,
  In mode modes -> In (evt, dst) task_events -> In src o2_states ->
  rollback_holds (d_graph (spec_of mode)) (dev_of mode src) (dev_of mode dst)
                 (run_root (mk_root mode strict evt dst src nargs) sc).
Proof.
  intros mode strict evt dst src nargs sc Hm He Hs.
  pose proof (all_runs _ _ (chk_rollback nargs) _ sc
                       (in_roots _ nargs mode strict evt dst src Hm He Hs)) as H.
  unfold rollback_ok in H.
  intros pre st post E. eapply rollback_from_sound; [exact H|exact E].
Qed.

(* ---------- a device that does everything it is asked ---------- *)
Lemma run_all_done : forall sp strict p dev sc log,
  Forall (fun o => o = Done) sc -> run sp strict p dev sc log = run sp strict p dev [] log.
Proof.
  intros sp strict p. induction p as [f e|ei k IH]; intros dev sc log Hsc; [reflexivity|].
  cbn [run]. destruct sc as [|o sc]; [reflexivity|].
  inversion Hsc as [|? ? Ho Hsc']; subst. cbn [hd tl]. rewrite (IH _ _ _ sc _ Hsc').
  symmetry. apply (IH _ _ _ [] _ (Forall_nil _)).
Qed.

(* the (event, destination, source) triples of the task state machine that a task really gets *)
Definition legit_transitions : list (str * str * str) :=
  [ (E_CONFIGURE, O2_CONFIGURED, O2_STANDBY); (E_START, O2_RUNNING, O2_CONFIGURED);
    (E_STOP, O2_CONFIGURED, O2_RUNNING); (E_RESET, O2_STANDBY, O2_CONFIGURED);
    (E_EXIT, O2_DONE, O2_STANDBY); (E_EXIT, O2_DONE, O2_CONFIGURED) ].

Lemma chk_compliant nargs :
  forallb (fun mode => forallb (fun strict => forallb (fun t =>
     let ob := run_root (mk_root mode strict (fst (fst t)) (snd (fst t)) (snd t) nargs) [] in
     negb (o_err ob) && str_eqb (o_final ob) (snd (fst t))
     && str_eqb (o_dev ob) (dev_of mode (snd (fst t)))) legit_transitions) [false; true]) modes = true.
Proof. vm_compute. reflexivity. Qed.

Lemma compliant : forall mode strict evt dst src nargs sc,
  In mode modes -> In (evt, dst, src) legit_transitions -> Forall (fun o => o = Done) sc ->
  let ob := run_root (mk_root mode strict evt dst src nargs) sc in
  o_err ob = false /\ o_final ob = dst /\ o_dev ob = dev_of mode dst.
Proof.
  intros mode strict evt dst src nargs sc Hm Ht Hsc ob.
  unfold ob, run_root. rewrite run_all_done by exact Hsc.
  pose proof (chk_compliant nargs) as H. rewrite forallb_forall in H. specialize (H mode Hm).
  rewrite forallb_forall in H.
  assert (Hst : In strict [false; true]) by (destruct strict; cbn; tauto).
  specialize (H strict Hst).
  rewrite forallb_forall in H. specialize (H (evt, dst, src) Ht). cbn [fst snd] in H.
  unfold run_root in H.
  apply andb_true_iff in H. destruct H as [H H3]. apply andb_true_iff in H. destruct H as [H1 H2].
  apply negb_true_iff in H1. apply str_eqb_spec in H2. apply str_eqb_spec in H3.
  split; [exact H1|]. split; [exact H2|exact H3].
Qed.

(* ---------- the monitor on the model ---------- *)
Lemma monitor_bridge : forall mode strict evt dst src nargs sc,
  In mode modes -> In (evt, dst) task_events -> In src o2_states ->
  let r := mk_root mode strict evt dst src nargs in
  In (mon16 (CRun r sc (run_root r sc))) [0; 1].
Proof.
  intros mode strict evt dst src nargs sc Hm He Hs r.
  pose proof (all_runs _ _ (chk_mon nargs) _ sc
                       (in_roots _ nargs mode strict evt dst src Hm He Hs)) as H.
  fold r in H. unfold P_mon in H.
  change (mon16 (CRun r sc (run_root r sc))) with (mon16 (CRun r [] (run_root r sc))).
  unfold memN in H. apply existsb_exists in H. destruct H as [x [Hx E]].
  apply N.eqb_eq in E. rewrite E. exact Hx.
Qed.

Lemma monitor_clean : forall mode strict evt dst src nargs sc,
  In mode modes -> In (evt, dst) task_events -> In src o2_states ->
  let r := mk_root mode strict evt dst src nargs in
  no_transport (run_root r sc) = true ->
  mon16 (CRun r sc (run_root r sc)) = 0.
Proof.
  intros mode strict evt dst src nargs sc Hm He Hs r Hnt.
  pose proof (all_runs _ _ (chk_mon_clean nargs) _ sc
                       (in_roots _ nargs mode strict evt dst src Hm He Hs)) as H.
  fold r in H. unfold P_mon_clean in H.
  rewrite Hnt in H. cbn [negb orb] in H.
  apply N.eqb_eq in H. exact H.
Qed.

(* ---------- the complete tie with the Go code ---------- *)
Lemma walk_tree_of : forall sp strict p dev sc log,
  walk (tree_of sp strict p dev) sc log = run sp strict p dev sc log.
Proof.
  intros sp strict p. induction p as [f e|ei k IH]; intros dev sc log; [reflexivity|].
  cbn [tree_of walk run all_outcomes map].
  destruct (hd Done sc); cbn [oidx]; apply IH.
Qed.

Lemma table_roots : map fst fmq_table = table_domain.
Proof. vm_compute. reflexivity. Qed.

Lemma table_trees : map tree_root (map fst fmq_table) = map snd fmq_table.
Proof. vm_compute. reflexivity. Qed.

Lemma map_pair_eq {A B} (f : A -> B) : forall (l : list (A * B)),
  map f (map fst l) = map snd l -> forall x t, In (x, t) l -> f x = t.
Proof.
  induction l as [|[a b] l IH]; intros E x t H; [contradiction|].
  cbn [map fst snd] in E. injection E as E1 E2. destruct H as [H|H].
  - injection H as Hx Ht. subst. reflexivity.
  - apply (IH E2 x t H).
Qed.

Lemma table_is_model : forall r t, In (r, t) fmq_table -> tree_root r = t.
Proof. apply map_pair_eq. exact table_trees. Qed.

Lemma table_is_behaviour : forall r t sc,
  In (r, t) fmq_table -> walk t sc [] = run_root r sc.
Proof.
  intros r t sc H. rewrite <- (table_is_model r t H). unfold tree_root, run_root.
  apply walk_tree_of.
Qed.

Lemma table_complete : forall mode strict evt dst src,
  In mode modes -> In (evt, dst) table_events -> In src o2_states ->
  exists t, In (mk_root mode strict evt dst src 1, t) fmq_table.
Proof.
  intros mode strict evt dst src Hm He Hs.
  pose proof (in_roots table_events 1 mode strict evt dst src Hm He Hs) as H.
  change (roots table_events 1) with table_domain in H. rewrite <- table_roots in H.
  apply in_map_iff in H. destruct H as [[r t] [E H]]. cbn [fst] in E. subst r.
  exists t. exact H.
Qed.

(* C16: image_or_unknown read from the receiver's side - whatever the device and the transport do,
   a NON-EMPTY state reported after a transition is the image of the state the device is really in;
   only "unknown" (the empty state) can stand for anything else *)
Lemma reported_state_is_real : forall mode strict evt dst src nargs sc,
  In mode modes -> In (evt, dst) task_events -> In src o2_states ->
  let ob := run_root (mk_root mode strict evt dst src nargs) sc in
  o_final ob <> [] -> o_final ob = image mode (o_dev ob).
Proof.
  intros mode strict evt dst src nargs sc Hm He Hs ob Hne.
  destruct (image_or_unknown mode strict evt dst src nargs sc Hm He Hs) as [H | [H _]];
    [exact H | exact (False_ind _ (Hne H))].
Qed.
