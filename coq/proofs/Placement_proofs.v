(* Lemmas about the placement model (coq/model/Placement.v) for property C05. *)
From Coq Require Import List NArith Bool Lia Permutation.
From Verif Require Import Common Gen_Placement Placement.
Import ListNotations.
Open Scope N_scope.

(* ================================================================ small helpers *)

Lemma str_eqb_sym a b : str_eqb a b = str_eqb b a.
Proof.
  destruct (str_eqb a b) eqn:E1, (str_eqb b a) eqn:E2; try reflexivity.
  - apply str_eqb_spec in E1. subst. rewrite str_eqb_refl in E2. discriminate.
  - apply str_eqb_spec in E2. subst. rewrite str_eqb_refl in E1. discriminate.
Qed.

Lemma str_eqb_false a b : str_eqb a b = false <-> a <> b.
Proof.
  split.
  - intros E H. subst. rewrite str_eqb_refl in E. discriminate.
  - intro H. destruct (str_eqb a b) eqn:E; [|reflexivity].
    apply str_eqb_spec in E. contradiction.
Qed.

(* ================================================================ A. Attributes.Satisfy *)

Lemma split_on_nonempty sep s : split_on sep s <> [].
Proof.
  induction s as [|c r IH]; cbn; [discriminate|].
  destruct (N.eqb c sep); [discriminate|].
  destruct (split_on sep r); [congruence|discriminate].
Qed.

Lemma split_on_no_sep sep s :
  existsb (N.eqb sep) s = false -> split_on sep s = [s].
Proof.
  induction s as [|c r IH]; cbn; intro H; [reflexivity|].
  apply orb_false_iff in H. destruct H as [H1 H2].
  rewrite N.eqb_sym in H1. rewrite H1. rewrite (IH H2). reflexivity.
Qed.

(* what one round of the loop decides *)
Lemma sat1_step a c v :
  attr_get (c_attr c) a = Some v ->
  sat1 a c = (has_comma v && mem_str (c_val c) (split_on comma v)) || str_eqb v (c_val c).
Proof.
  intro G. unfold sat1. rewrite G. unfold mem_str. cbn [existsb].
  rewrite (str_eqb_sym (c_val c) v).
  destruct (has_comma v) eqn:HC; cbn [andb].
  - apply orb_comm.
  - unfold has_comma in HC. rewrite (split_on_no_sep _ _ HC). cbn [existsb].
    rewrite orb_false_r. rewrite (str_eqb_sym (c_val c) v). rewrite orb_diag. reflexivity.
Qed.

Lemma satisfy_loop_char a cts : forall ok,
  satisfy_loop a cts ok =
  forallb (sat1 a) (filter is_equals cts) && (ok || existsb is_equals cts).
Proof.
  induction cts as [|c r IH]; intro ok; cbn [satisfy_loop filter forallb existsb].
  - rewrite orb_false_r. reflexivity.
  - change (N.eqb (c_op c) 0) with (is_equals c). destruct (is_equals c) eqn:EO.
    + cbn [forallb orb]. rewrite orb_true_r.
      destruct (attr_get (c_attr c) a) as [v|] eqn:G.
      * rewrite (sat1_step _ _ _ G).
        destruct (has_comma v && mem_str (c_val c) (split_on comma v)) eqn:E1; cbn [orb andb].
        -- rewrite IH. cbn [orb]. rewrite andb_true_r. reflexivity.
        -- destruct (str_eqb v (c_val c)); cbn [andb].
           ++ rewrite IH. cbn [orb]. rewrite andb_true_r. reflexivity.
           ++ reflexivity.
      * unfold sat1. rewrite G. reflexivity.
    + cbn [orb]. apply IH.
Qed.

(* full characterisation of Attributes.Satisfy *)
Lemma satisfy_char a cts :
  satisfy a cts =
  match cts with
  | [] => true
  | _ => forallb (sat1 a) (filter is_equals cts) && existsb is_equals cts
  end.
Proof.
  destruct cts as [|c r]; [reflexivity|].
  unfold satisfy. rewrite satisfy_loop_char. reflexivity.
Qed.

Lemma filter_all {A} (f : A -> bool) l : forallb f l = true -> filter f l = l.
Proof.
  induction l as [|x l IH]; cbn; intro H; [reflexivity|].
  apply andb_true_iff in H. destruct H as [H1 H2]. rewrite H1, (IH H2). reflexivity.
Qed.

(* with the only operator that can be written in a template (Equals), Satisfy is "every
   constraint is met" *)
Lemma satisfy_equals a cts :
  forallb is_equals cts = true -> satisfy a cts = sat_all a cts.
Proof.
  intro H. rewrite satisfy_char. destruct cts as [|c r]; [reflexivity|].
  rewrite (filter_all _ _ H). unfold sat_all.
  cbn [forallb] in H. apply andb_true_iff in H. destruct H as [H1 _].
  cbn [existsb]. rewrite H1. cbn [orb]. apply andb_true_r.
Qed.

Lemma satisfy_sound a cts :
  satisfy a cts = true -> forall c, In c cts -> is_equals c = true -> sat1 a c = true.
Proof.
  rewrite satisfy_char. destruct cts as [|c0 r]; [intros _ c []|].
  intros H c Hin He. apply andb_true_iff in H. destruct H as [H _].
  rewrite forallb_forall in H. apply H. apply filter_In. split; assumption.
Qed.

(* ================================================================ B. MergeParent / getConstraints *)

Lemma lookup_c_app a l1 l2 :
  lookup_c a (l1 ++ l2) = match lookup_c a l1 with Some v => Some v | None => lookup_c a l2 end.
Proof.
  induction l1 as [|c r IH]; cbn; [reflexivity|].
  destruct (str_eqb (c_attr c) a); [reflexivity|apply IH].
Qed.

Lemma lookup_c_none a l : lookup_c a l = None <-> ~ In a (attrs_of l).
Proof.
  induction l as [|c r IH]; cbn.
  - split; [intros _ []|reflexivity].
  - destruct (str_eqb (c_attr c) a) eqn:E.
    + apply str_eqb_spec in E. split; [discriminate|]. intro H. exfalso. apply H. left. exact E.
    + apply str_eqb_false in E. rewrite IH. split.
      * intros H [H1|H1]; [contradiction|apply H, H1].
      * intros H H1. apply H. right. exact H1.
Qed.

Lemma replace_first_none c l : replace_first c l = None <-> ~ In (c_attr c) (attrs_of l).
Proof.
  induction l as [|p r IH]; cbn.
  - split; [intros _ []|reflexivity].
  - destruct (str_eqb (c_attr c) (c_attr p)) eqn:E.
    + apply str_eqb_spec in E. split; [discriminate|]. intro H. exfalso. apply H. left. symmetry. exact E.
    + apply str_eqb_false in E. destruct (replace_first c r) eqn:R.
      * split; [discriminate|]. intro H. exfalso.
        assert (H' : ~ In (c_attr c) (attrs_of r)) by (intro X; apply H; right; exact X).
        apply IH in H'. discriminate.
      * split; [|reflexivity]. intros _ [H1|H1]; [congruence|].
        destruct IH as [IH1 _]. apply (IH1 eq_refl). exact H1.
Qed.

Lemma replace_first_some c l m :
  replace_first c l = Some m ->
  attrs_of m = attrs_of l /\
  (forall a, lookup_c a m = if str_eqb (c_attr c) a then Some (c_val c) else lookup_c a l) /\
  (forall x, In x m -> x = c \/ In x l).
Proof.
  revert m. induction l as [|p r IH]; cbn; intros m H; [discriminate|].
  destruct (str_eqb (c_attr c) (c_attr p)) eqn:E.
  - inversion H; subst m. clear H. apply str_eqb_spec in E. split; [|split].
    + unfold attrs_of. cbn [map]. rewrite E. reflexivity.
    + intro a. cbn. rewrite <- E. destruct (str_eqb (c_attr c) a); reflexivity.
    + intros x [Hx|Hx]; [left; symmetry; exact Hx|right; right; exact Hx].
  - destruct (replace_first c r) as [r'|] eqn:R; [|discriminate].
    inversion H; subst m. clear H.
    destruct (IH r' eq_refl) as [IH1 [IH2 IH3]]. split; [|split].
    + unfold attrs_of in *. cbn [map]. rewrite IH1. reflexivity.
    + intro a. cbn. rewrite IH2.
      destruct (str_eqb (c_attr p) a) eqn:E2; [|reflexivity].
      apply str_eqb_spec in E2. subst a. rewrite E. reflexivity.
    + intros x [Hx|Hx]; [right; left; exact Hx|].
      destruct (IH3 x Hx) as [H1|H1]; [left; exact H1|right; right; exact H1].
Qed.

(* one step of MergeParent, read as a map: holds for every list *)
Lemma merge_one_lookup l c a :
  lookup_c a (merge_one l c) = if str_eqb (c_attr c) a then Some (c_val c) else lookup_c a l.
Proof.
  unfold merge_one. destruct (replace_first c l) as [m|] eqn:R.
  - apply (replace_first_some _ _ _ R).
  - rewrite lookup_c_app. cbn. apply replace_first_none in R.
    destruct (str_eqb (c_attr c) a) eqn:E.
    + apply str_eqb_spec in E. subst a. apply lookup_c_none in R. rewrite R. reflexivity.
    + destruct (lookup_c a l); reflexivity.
Qed.

Lemma NoDup_snoc {A} (l : list A) x : NoDup l -> ~ In x l -> NoDup (l ++ [x]).
Proof.
  induction 1 as [|y l Hy Hl IH]; cbn; intro Hx.
  - constructor; [intros []|constructor].
  - constructor.
    + intro H2. apply in_app_or in H2. destruct H2 as [H2|[H2|[]]]; [contradiction|].
      subst. apply Hx. left. reflexivity.
    + apply IH. intro H2. apply Hx. right. exact H2.
Qed.

Lemma merge_one_nodup l c : NoDup (attrs_of l) -> NoDup (attrs_of (merge_one l c)).
Proof.
  intro H. unfold merge_one. destruct (replace_first c l) as [m|] eqn:R.
  - destruct (replace_first_some _ _ _ R) as [E _]. rewrite E. exact H.
  - apply replace_first_none in R. unfold attrs_of. rewrite map_app. cbn.
    apply NoDup_snoc; assumption.
Qed.

Lemma merge_one_in l c x : In x (merge_one l c) -> x = c \/ In x l.
Proof.
  unfold merge_one. destruct (replace_first c l) as [m|] eqn:R.
  - apply (replace_first_some _ _ _ R).
  - intro H. apply in_app_or in H. destruct H as [H|[H|[]]]; [right; exact H|left; symmetry; exact H].
Qed.

(* MergeParent read as a map: own definition (its last entry for the attribute) else parent;
   holds for every pair of lists *)
Lemma merge_parent_lookup own : forall parent a,
  lookup_c a (merge_parent own parent) =
  match level_def a own with Some v => Some v | None => lookup_c a parent end.
Proof.
  unfold merge_parent. induction own as [|c r IH]; intros parent a; cbn [fold_left level_def].
  - reflexivity.
  - rewrite IH. destruct (level_def a r); [reflexivity|].
    rewrite merge_one_lookup. destruct (str_eqb (c_attr c) a); reflexivity.
Qed.

Lemma merge_parent_nodup own : forall parent,
  NoDup (attrs_of parent) -> NoDup (attrs_of (merge_parent own parent)).
Proof.
  unfold merge_parent. induction own as [|c r IH]; intros parent H; cbn [fold_left]; [exact H|].
  apply IH. apply merge_one_nodup. exact H.
Qed.

Lemma merge_parent_in own : forall parent x,
  In x (merge_parent own parent) -> In x own \/ In x parent.
Proof.
  unfold merge_parent. induction own as [|c r IH]; intros parent x H; cbn [fold_left] in H.
  - right. exact H.
  - destruct (IH _ _ H) as [H1|H1]; [left; right; exact H1|].
    destruct (merge_one_in _ _ _ H1) as [H2|H2]; [left; left; symmetry; exact H2|right; exact H2].
Qed.

(* in a list that names every attribute once, first entry = last entry *)
Lemma nodup_lookup_level_def a l : NoDup (attrs_of l) -> lookup_c a l = level_def a l.
Proof.
  induction l as [|c r IH]; cbn; intro H; [reflexivity|].
  inversion H as [|x xs Hx Hr]; subst. rewrite <- (IH Hr).
  destruct (str_eqb (c_attr c) a) eqn:E.
  - apply str_eqb_spec in E. subst a.
    assert (N : lookup_c (c_attr c) r = None) by (apply lookup_c_none; exact Hx).
    rewrite N. reflexivity.
  - destruct (lookup_c a r); reflexivity.
Qed.

Lemma nodupb_NoDup (l : list str) : nodupb str_eqb l = true <-> NoDup l.
Proof.
  induction l as [|x r IH]; cbn.
  - split; [constructor|reflexivity].
  - rewrite andb_true_iff, negb_true_iff, IH. split.
    + intros [H1 H2]. constructor; [|exact H2]. intro Hin.
      assert (E : existsb (str_eqb x) r = true).
      { apply existsb_exists. exists x. split; [exact Hin|apply str_eqb_refl]. }
      congruence.
    + intro H. inversion H as [|y ys Hy Hr]; subst. split; [|exact Hr].
      destruct (existsb (str_eqb x) r) eqn:E; [|reflexivity].
      apply existsb_exists in E. destruct E as [y [Hy1 Hy2]]. apply str_eqb_spec in Hy2. subst y.
      contradiction.
Qed.

Lemma nodup_attrs_NoDup l : nodup_attrs l = true <-> NoDup (attrs_of l).
Proof. apply nodupb_NoDup. Qed.

Lemma nearest_app a l1 l2 :
  nearest a (l1 ++ l2) = match nearest a l1 with Some v => Some v | None => nearest a l2 end.
Proof.
  induction l1 as [|l r IH]; cbn; [reflexivity|].
  destruct (level_def a l); [reflexivity|apply IH].
Qed.

(* getConstraints: provided the top-level role's own list names no attribute twice, the result
   names no attribute twice and reads as "nearest definition", for every depth *)
Lemma get_constraints_nearest levels :
  levels <> [] ->
  NoDup (attrs_of (last levels [])) ->
  NoDup (attrs_of (get_constraints levels)) /\
  forall a, lookup_c a (get_constraints levels) = nearest a levels.
Proof.
  induction levels as [|l r IH]; intros Hne Htop; [congruence|].
  destruct r as [|l2 r2].
  - cbn in *. split; [exact Htop|]. intro a. rewrite (nodup_lookup_level_def _ _ Htop).
    destruct (level_def a l); reflexivity.
  - assert (Hne2 : l2 :: r2 <> []) by discriminate.
    change (last (l :: l2 :: r2) []) with (last (l2 :: r2) []) in Htop.
    destruct (IH Hne2 Htop) as [IH1 IH2].
    change (get_constraints (l :: l2 :: r2)) with (merge_parent l (get_constraints (l2 :: r2))).
    split.
    + apply merge_parent_nodup. exact IH1.
    + intro a. rewrite merge_parent_lookup, IH2. reflexivity.
Qed.

Lemma get_constraints_in levels x :
  In x (get_constraints levels) -> exists l, In l levels /\ In x l.
Proof.
  induction levels as [|l r IH]; intro H; [destruct H|].
  destruct r as [|l2 r2].
  - exists l. split; [left; reflexivity|exact H].
  - change (get_constraints (l :: l2 :: r2)) with (merge_parent l (get_constraints (l2 :: r2))) in H.
    destruct (merge_parent_in _ _ _ H) as [H1|H1].
    + exists l. split; [left; reflexivity|exact H1].
    + destruct (IH H1) as [l' [A B]]. exists l'. split; [right; exact A|exact B].
Qed.

(* BuildDescriptorConstraints *)
Lemma desc_constraints_nearest levels k :
  levels <> [] ->
  NoDup (attrs_of (last levels [])) ->
  match k with Some kc => NoDup (attrs_of kc) | None => True end ->
  NoDup (attrs_of (desc_constraints levels k)) /\
  forall a, lookup_c a (desc_constraints levels k) = nearest a (all_levels levels k).
Proof.
  intros Hne Htop Hk. destruct (get_constraints_nearest levels Hne Htop) as [G1 G2].
  destruct k as [kc|]; cbn [desc_constraints all_levels].
  - split.
    + apply merge_parent_nodup. exact Hk.
    + intro a. rewrite merge_parent_lookup.
      rewrite <- (nodup_lookup_level_def _ _ G1). rewrite G2.
      rewrite nearest_app. destruct (nearest a levels); [reflexivity|].
      cbn. rewrite (nodup_lookup_level_def _ _ Hk). destruct (level_def a kc); reflexivity.
  - split; [exact G1|exact G2].
Qed.

Lemma desc_constraints_in levels k x :
  In x (desc_constraints levels k) -> exists l, In l (all_levels levels k) /\ In x l.
Proof.
  destruct k as [kc|]; cbn [desc_constraints all_levels]; intro H.
  - destruct (merge_parent_in _ _ _ H) as [H1|H1].
    + destruct (get_constraints_in _ _ H1) as [l [A B]]. exists l. split; [|exact B].
      apply in_or_app. left. exact A.
    + exists kc. split; [|exact H1]. apply in_or_app. right. left. reflexivity.
  - apply get_constraints_in. exact H.
Qed.

Lemma lookup_c_in a l v :
  lookup_c a l = Some v -> exists c, In c l /\ c_attr c = a /\ c_val c = v.
Proof.
  induction l as [|c r IH]; cbn; [discriminate|].
  destruct (str_eqb (c_attr c) a) eqn:E.
  - intro H. inversion H; subst. apply str_eqb_spec in E. exists c. auto.
  - intro H. destruct (IH H) as [c' [A B]]. exists c'. auto.
Qed.

Lemma sat1_ext a c c' : c_attr c = c_attr c' -> c_val c = c_val c' -> sat1 a c = sat1 a c'.
Proof. intros E1 E2. unfold sat1. rewrite E1, E2. reflexivity. Qed.

(* the counterexample to unconditional "nearest wins": the top-level role names zone twice *)
Definition w_zone : str := [122;111;110;101].
Definition w_z1 : str := [122;49].
Definition w_z2 : str := [122;50].
Definition w_z3 : str := [122;51].
Definition w_levels : list (list cstr) :=
  [[mkC w_zone w_z3 0]; [mkC w_zone w_z1 0; mkC w_zone w_z2 0]].

Lemma merge_nearest_counterexample :
  lookup_c w_zone (desc_constraints w_levels (Some [])) = Some w_z2 /\
  nearest w_zone (all_levels w_levels (Some [])) = Some w_z3.
Proof. vm_compute. split; reflexivity. Qed.

(* ================================================================ C. port ranges *)

Ltac bool_arith :=
  repeat match goal with
         | H : _ = true |- _ => revert H
         | H : _ = false |- _ => revert H
         end;
  repeat match goal with
         | |- context[N.leb ?a ?b] => destruct (N.leb_spec a b)
         | |- context[N.ltb ?a ?b] => destruct (N.ltb_spec a b)
         | |- context[N.eqb ?a ?b] => destruct (N.eqb_spec a b)
         end;
  cbn [andb orb negb]; intros; try discriminate; try reflexivity; try lia.

Definition rvalid (r : range) : Prop := fst r <= snd r.
Definition in1 (p : N) (r : range) : bool := (fst r <=? p) && (p <=? snd r).

Lemma inr_cons p r l : inr p (r :: l) = in1 p r || inr p l.
Proof. reflexivity. Qed.
Lemma inr_nil p : inr p [] = false.
Proof. reflexivity. Qed.
Lemma inr_app p l1 l2 : inr p (l1 ++ l2) = inr p l1 || inr p l2.
Proof. unfold inr. apply existsb_app. Qed.

Fixpoint sortedb (l : ranges) : Prop :=
  match l with
  | [] => True
  | r :: t => Forall (fun x => fst r <= fst x) t /\ sortedb t
  end.

(* canonical form: valid ranges, each later one starts beyond the end of the earlier one + 1 *)
Fixpoint canonp (l : ranges) : Prop :=
  match l with
  | [] => True
  | r :: t => rvalid r /\ Forall (fun x => snd r + 1 < fst x) t /\ canonp t
  end.

Lemma canonp_valid l : canonp l -> Forall rvalid l.
Proof.
  induction l as [|r t IH]; cbn; intro H; [constructor|].
  destruct H as [H1 [_ H3]]. constructor; [exact H1|apply IH, H3].
Qed.

Lemma canonp_sorted l : canonp l -> sortedb l.
Proof.
  induction l as [|r t IH]; cbn; intro H; [exact I|].
  destruct H as [H1 [H2 H3]]. split; [|apply IH, H3].
  eapply Forall_impl; [|exact H2]. intros x Hx. cbn in Hx. unfold rvalid in H1. lia.
Qed.

Lemma Forall_rinsert (P : range -> Prop) r l : Forall P (rinsert r l) <-> P r /\ Forall P l.
Proof.
  induction l as [|h t IH]; cbn.
  - split; [intro H; inversion H; auto|intros [H1 H2]; constructor; auto].
  - destruct (range_leb r h).
    + split; [intro H; inversion H; auto|intros [H1 H2]; constructor; auto].
    + split.
      * intro H. inversion H as [|x xs Hh Ht]; subst. apply IH in Ht. destruct Ht as [A B].
        split; [exact A|constructor; assumption].
      * intros [H1 H2]. inversion H2 as [|x xs Hh Ht]; subst. constructor; [exact Hh|].
        apply IH. split; assumption.
Qed.

Lemma rinsert_inr p r l : inr p (rinsert r l) = inr p (r :: l).
Proof.
  induction l as [|h t IH]; cbn [rinsert]; [reflexivity|].
  destruct (range_leb r h); [reflexivity|].
  rewrite inr_cons, IH, !inr_cons. rewrite !orb_assoc. f_equal. apply orb_comm.
Qed.

Lemma rsort_inr p l : inr p (rsort l) = inr p l.
Proof.
  induction l as [|r t IH]; [reflexivity|].
  change (rsort (r :: t)) with (rinsert r (rsort t)).
  rewrite rinsert_inr, !inr_cons, IH. reflexivity.
Qed.

Lemma rsort_Forall (P : range -> Prop) l : Forall P (rsort l) <-> Forall P l.
Proof.
  induction l as [|r t IH].
  - reflexivity.
  - change (rsort (r :: t)) with (rinsert r (rsort t)). rewrite Forall_rinsert, IH.
    split; [intros [A B]; constructor; assumption|intro H; inversion H; auto].
Qed.

Lemma rinsert_sorted r l : sortedb l -> sortedb (rinsert r l).
Proof.
  induction l as [|h t IH]; cbn [rinsert]; intro Hs.
  - cbn. split; [constructor|exact I].
  - destruct (range_leb r h) eqn:E.
    + cbn [sortedb]. split; [|exact Hs].
      destruct Hs as [Hs1 _].
      assert (Hrh : fst r <= fst h).
      { unfold range_leb in E. bool_arith. }
      constructor; [exact Hrh|]. eapply Forall_impl; [|exact Hs1]. intros x Hx. cbn in Hx. lia.
    + destruct Hs as [Hs1 Hs2]. cbn [sortedb]. split; [|apply IH, Hs2].
      apply Forall_rinsert. split; [|exact Hs1].
      unfold range_leb in E. bool_arith.
Qed.

Lemma rsort_sorted l : sortedb (rsort l).
Proof.
  induction l as [|r t IH]; [exact I|].
  change (rsort (r :: t)) with (rinsert r (rsort t)). apply rinsert_sorted, IH.
Qed.

Lemma squash_go_spec : forall rest cur,
  rvalid cur -> Forall rvalid rest -> Forall (fun x => fst cur <= fst x) rest -> sortedb rest ->
  canonp (squash_go cur rest) /\
  Forall (fun y => fst cur <= fst y) (squash_go cur rest) /\
  forall p, inr p (squash_go cur rest) = inr p (cur :: rest).
Proof.
  induction rest as [|x r IH]; intros cur Hc Hv Hlb Hs.
  - cbn [squash_go]. split; [|split].
    + cbn. split; [exact Hc|]. split; [constructor|exact I].
    + constructor; [lia|constructor].
    + reflexivity.
  - cbn [squash_go].
    inversion Hv as [|x0 r0 Hvx Hvr]; subst.
    inversion Hlb as [|x0 r0 Hlx Hlr]; subst.
    destruct Hs as [Hs1 Hs2]. unfold rvalid in *.
    destruct (1 + snd cur <? fst x) eqn:E1.
    + apply N.ltb_lt in E1.
      destruct (IH x Hvx Hvr Hs1 Hs2) as [A [B C]].
      split; [|split].
      * cbn [canonp]. split; [exact Hc|]. split; [|exact A].
        eapply Forall_impl; [|exact B]. intros y Hy. cbn in Hy. lia.
      * constructor; [lia|]. eapply Forall_impl; [|exact B]. intros y Hy. cbn in Hy. lia.
      * intro p. rewrite inr_cons, C. reflexivity.
    + apply N.ltb_ge in E1. destruct (snd cur <=? snd x) eqn:E2.
      * apply N.leb_le in E2.
        assert (Hc' : fst (fst cur, snd x) <= snd (fst cur, snd x)) by (cbn; lia).
        assert (Hlb' : Forall (fun y => fst (fst cur, snd x) <= fst y) r).
        { eapply Forall_impl; [|exact Hs1]. intros y Hy. cbn in *. lia. }
        destruct (IH (fst cur, snd x) Hc' Hvr Hlb' Hs2) as [A [B C]].
        split; [exact A|]. split; [exact B|].
        intro p. rewrite C, !inr_cons. rewrite orb_assoc. f_equal.
        unfold in1. cbn [fst snd]. bool_arith.
      * apply N.leb_gt in E2.
        destruct (IH cur Hc Hvr Hlr Hs2) as [A [B C]].
        split; [exact A|]. split; [exact B|].
        intro p. rewrite C, !inr_cons.
        assert (Hsub : in1 p x = true -> in1 p cur = true).
        { unfold in1. bool_arith. }
        destruct (in1 p x) eqn:Ex; [|rewrite orb_false_l; reflexivity].
        rewrite (Hsub eq_refl). reflexivity.
Qed.

Lemma squash_spec l :
  sortedb l -> Forall rvalid l -> canonp (squash l) /\ forall p, inr p (squash l) = inr p l.
Proof.
  destruct l as [|c r]; intros Hs Hv; [split; [exact I|reflexivity]|].
  cbn [squash]. destruct Hs as [Hs1 Hs2]. inversion Hv; subst.
  destruct (squash_go_spec r c) as [A [_ C]]; auto.
Qed.

Lemma canon_spec l :
  Forall rvalid l -> canonp (canon l) /\ forall p, inr p (canon l) = inr p l.
Proof.
  intro Hv. unfold canon.
  destruct (squash_spec (rsort l) (rsort_sorted l)) as [A B]; [apply rsort_Forall; exact Hv|].
  split; [exact A|]. intro p. rewrite B. apply rsort_inr.
Qed.

Lemma renorm_spec l :
  Forall rvalid l -> canonp (renorm l) /\ forall p, inr p (renorm l) = inr p l.
Proof.
  intro Hv. destruct l as [|a [|b r]].
  - split; [exact I|reflexivity].
  - cbn [renorm]. inversion Hv; subst. split; [|reflexivity]. cbn. auto.
  - change (renorm (a :: b :: r)) with (canon (a :: b :: r)). apply canon_spec. exact Hv.
Qed.

(* Remove *)
Lemma remove_raw_inr l lo hi p :
  lo <= hi -> Forall rvalid l ->
  inr p (remove_raw l lo hi) = inr p l && negb ((lo <=? p) && (p <=? hi)).
Proof.
  intro Hlh. induction l as [|[b e] r IH]; intro Hv; [reflexivity|].
  inversion Hv as [|x xs Hb Hr]; subst. unfold rvalid in Hb. cbn [fst snd] in Hb.
  cbn [remove_raw].
  destruct ((lo <=? b) && (e <=? hi)) eqn:E1.
  { rewrite (IH Hr), inr_cons. unfold in1. cbn [fst snd]. destruct (inr p r); bool_arith. }
  destruct ((b <? lo) && (hi <? e)) eqn:E2.
  { rewrite !inr_cons, (IH Hr). unfold in1. cbn [fst snd]. destruct (inr p r); bool_arith. }
  destruct ((e <? lo) || (hi <? b)) eqn:E3.
  { rewrite !inr_cons, (IH Hr). unfold in1. cbn [fst snd]. destruct (inr p r); bool_arith. }
  destruct (hi <? e) eqn:E4.
  { rewrite !inr_cons, (IH Hr). unfold in1. cbn [fst snd]. destruct (inr p r); bool_arith. }
  rewrite !inr_cons, (IH Hr). unfold in1. cbn [fst snd]. destruct (inr p r); bool_arith.
Qed.

Lemma remove_raw_lb l lo hi k :
  lo <= hi -> Forall (fun x => k < fst x) l -> Forall (fun x => k < fst x) (remove_raw l lo hi).
Proof.
  intro Hlh. induction l as [|[b e] r IH]; intro H; [constructor|].
  inversion H as [|x xs Hb Hr]; subst. cbn [fst] in Hb. cbn [remove_raw].
  destruct ((lo <=? b) && (e <=? hi)) eqn:E1; [apply IH, Hr|].
  destruct ((b <? lo) && (hi <? e)) eqn:E2.
  { constructor; [cbn; lia|]. constructor; [cbn; bool_arith|apply IH, Hr]. }
  destruct ((e <? lo) || (hi <? b)) eqn:E3; [constructor; [cbn; lia|apply IH, Hr]|].
  destruct (hi <? e) eqn:E4.
  { constructor; [cbn; bool_arith|apply IH, Hr]. }
  constructor; [cbn; lia|apply IH, Hr].
Qed.

Lemma remove_raw_canon l lo hi : lo <= hi -> canonp l -> canonp (remove_raw l lo hi).
Proof.
  intro Hlh. induction l as [|[b e] r IH]; intro H; [exact I|].
  cbn [canonp] in H. destruct H as [Hv [Hgap Hc]]. unfold rvalid in Hv. cbn [fst snd] in *.
  cbn [remove_raw].
  destruct ((lo <=? b) && (e <=? hi)) eqn:E1; [apply IH, Hc|].
  destruct ((b <? lo) && (hi <? e)) eqn:E2.
  { cbn [canonp]. unfold rvalid. cbn [fst snd]. split; [bool_arith|]. split.
    - constructor; [cbn; bool_arith|]. apply remove_raw_lb; [exact Hlh|].
      eapply Forall_impl; [|exact Hgap]. intros x Hx. cbn in Hx. bool_arith.
    - split; [bool_arith|]. split; [|apply IH, Hc].
      apply remove_raw_lb; [exact Hlh|exact Hgap]. }
  destruct ((e <? lo) || (hi <? b)) eqn:E3.
  { cbn [canonp]. unfold rvalid. cbn [fst snd]. split; [exact Hv|]. split; [|apply IH, Hc].
    apply remove_raw_lb; [exact Hlh|exact Hgap]. }
  destruct (hi <? e) eqn:E4.
  { cbn [canonp]. unfold rvalid. cbn [fst snd]. split; [bool_arith|]. split; [|apply IH, Hc].
    apply remove_raw_lb; [exact Hlh|exact Hgap]. }
  cbn [canonp]. unfold rvalid. cbn [fst snd]. split; [bool_arith|]. split; [|apply IH, Hc].
  apply remove_raw_lb; [exact Hlh|].
  eapply Forall_impl; [|exact Hgap]. intros x Hx. cbn in Hx. bool_arith.
Qed.

Lemma rremove_spec a lo hi :
  lo <= hi -> canonp a ->
  canonp (rremove a lo hi) /\
  forall p, inr p (rremove a lo hi) = inr p a && negb ((lo <=? p) && (p <=? hi)).
Proof.
  intros Hlh Hc. unfold rremove.
  pose proof (remove_raw_canon a lo hi Hlh Hc) as Hrc.
  destruct (squash_spec (remove_raw a lo hi) (canonp_sorted _ Hrc) (canonp_valid _ Hrc)) as [A B].
  split; [exact A|]. intro p. rewrite B. apply remove_raw_inr; [exact Hlh|]. apply canonp_valid. exact Hc.
Qed.

Lemma rmin_in a p : canonp a -> rmin a = Some p -> inr p a = true.
Proof.
  destruct a as [|[b e] r]; cbn [rmin]; [discriminate|].
  intros [Hv _] H. inversion H; subst. unfold rvalid in Hv. cbn [fst snd] in Hv.
  rewrite inr_cons. unfold in1. cbn [fst snd]. bool_arith.
Qed.

(* ---- the "ports" resource ---- *)
Definition pvalid (pr : portres) : Prop :=
  match pr with Some raw => Forall rvalid raw | None => True end.
Definition pmem (p : N) (pr : portres) : bool :=
  match pr with Some raw => inr p raw | None => false end.

Lemma ports_of_spec pr av :
  pvalid pr -> ports_of pr = Some av -> canonp av /\ forall p, inr p av = pmem p pr.
Proof.
  destruct pr as [raw|]; cbn [ports_of pvalid pmem]; intros Hv H; [|discriminate].
  inversion H; subst av. destruct raw as [|r t].
  - split; [exact I|reflexivity].
  - apply canon_spec. exact Hv.
Qed.

Lemma ports_of_none pr : ports_of pr = None -> pr = None.
Proof. destruct pr; cbn; [discriminate|reflexivity]. Qed.

Lemma subtract_port_spec pr q :
  pvalid pr ->
  pvalid (subtract_port pr q) /\
  forall p, pmem p (subtract_port pr q) = pmem p pr && negb (N.eqb p q).
Proof.
  destruct pr as [raw|]; cbn [subtract_port pvalid pmem]; intro Hv; [|split; [exact I|reflexivity]].
  destruct (renorm_spec raw Hv) as [A B].
  destruct (rremove_spec (renorm raw) q q (N.le_refl q) A) as [C D].
  assert (Heq : forall p, inr p (rremove (renorm raw) q q) = inr p raw && negb (N.eqb p q)).
  { intro p. rewrite D, B. f_equal. bool_arith. }
  destruct (rremove (renorm raw) q q) as [|x xs] eqn:ER.
  - split; [exact I|]. intro p. cbn [pmem]. rewrite <- Heq. reflexivity.
  - split; [cbn [pvalid]; apply canonp_valid; exact C|]. intro p. cbn [pmem]. apply Heq.
Qed.

(* ================================================================ D. Resources.Satisfy *)

Lemma in1_within p a b : within a b = true -> in1 p a = true -> in1 p b = true.
Proof. unfold within, in1. bool_arith. Qed.

(* Compare = "subset" really means: every port of x is a port of y *)
Lemma rcompare_subset x y :
  Forall rvalid x -> Forall rvalid y -> rcompare x y = 1 ->
  forall p, inr p x = true -> inr p y = true.
Proof.
  intros Hx Hy H p Hp. unfold rcompare in H.
  destruct (ranges_eqb (renorm x) (renorm y)); [discriminate|].
  destruct (forallb (fun a => existsb (within a) (renorm y)) (renorm x)) eqn:F; [|discriminate].
  rewrite <- (proj2 (renorm_spec x Hx)) in Hp. rewrite <- (proj2 (renorm_spec y Hy)).
  unfold inr in *. apply existsb_exists in Hp. destruct Hp as [a [Ha Hpa]].
  rewrite forallb_forall in F. specialize (F a Ha). apply existsb_exists in F.
  destruct F as [b [Hb Hab]]. apply existsb_exists. exists b. split; [exact Hb|].
  apply (in1_within p a b Hab Hpa).
Qed.

Lemma mul_div_le_1000 m : (m / 1000) * 1000 <= m.
Proof. rewrite N.mul_comm. apply N.mul_div_le. discriminate. Qed.

(* what a positive answer of Resources.Satisfy guarantees *)
Lemma res_satisfy_sound cpu mem pr wc wm static n :
  pvalid pr -> res_satisfy cpu mem pr wc wm static n = true ->
  (exists c, cpu = Some c /\ wc <= c) /\
  (exists m, mem = Some m /\ wm <= m) /\
  (exists av, ports_of pr = Some av /\ n <= rsize av - rsize (canon static)) /\
  (Forall rvalid static -> forall p, inr p static = true -> pmem p pr = true).
Proof.
  intros Hv H. unfold res_satisfy in H.
  destruct cpu as [c|]; [|discriminate].
  destruct (c <? wc) eqn:Ec; [discriminate|]. apply N.ltb_ge in Ec.
  destruct mem as [m|]; [|discriminate].
  destruct ((m / 1000) * 1000 <? wm) eqn:Em; [discriminate|]. apply N.ltb_ge in Em.
  destruct (ports_of pr) as [av|] eqn:Ep; [|discriminate].
  destruct (negb (N.eqb (rcompare (canon static) av) 1)) eqn:Er; [discriminate|].
  apply negb_false_iff in Er. apply N.eqb_eq in Er.
  destruct (rsize av - rsize (canon static) <? n) eqn:En; [discriminate|]. apply N.ltb_ge in En.
  destruct (ports_of_spec pr av Hv Ep) as [Cav Mav].
  split; [exists c; split; [reflexivity|exact Ec]|].
  split; [exists m; split; [reflexivity|]|].
  { pose proof (mul_div_le_1000 m). lia. }
  split; [exists av; split; [reflexivity|exact En]|].
  intros Hs p Hp. destruct (canon_spec static Hs) as [Cs Ms].
  rewrite <- Mav. apply (rcompare_subset (canon static) av).
  - apply canonp_valid. exact Cs.
  - apply canonp_valid. exact Cav.
  - exact Er.
  - rewrite Ms. exact Hp.
Qed.

(* ================================================================ E. makeTaskForMesosResources *)

Definition picked (t : task) : list N := map snd (t_dyn t) ++ [t_ctl t].
Definition all_picked (ts : list task) : list N := flat_map picked ts.

Lemma memN_In p l : memN p l = true <-> In p l.
Proof.
  unfold memN. rewrite existsb_exists. split.
  - intros [x [Hx E]]. apply N.eqb_eq in E. subst. exact Hx.
  - intro H. exists p. split; [exact H|apply N.eqb_refl].
Qed.

Lemma memN_cons p q l : memN p (q :: l) = N.eqb p q || memN p l.
Proof. reflexivity. Qed.

Lemma memN_app p l1 l2 : memN p (l1 ++ l2) = memN p l1 || memN p l2.
Proof. unfold memN. apply existsb_app. Qed.

Lemma pmem_none p : pmem p None = false.
Proof. reflexivity. Qed.

Lemma alloc_dyn_spec : forall chans pr pr' dyn,
  pvalid pr -> alloc_dyn chans pr = AOk pr' dyn ->
  pvalid pr' /\
  (forall p, pmem p pr' = pmem p pr && negb (memN p (map snd dyn))) /\
  NoDup (map snd dyn) /\
  (forall p, In p (map snd dyn) -> pmem p pr = true /\ data_port_floor < p) /\
  map fst dyn = map ch_name (filter ch_tcp chans).
Proof.
  induction chans as [|c r IH]; intros pr pr' dyn Hv H; cbn [alloc_dyn] in H.
  - inversion H; subst. cbn. split; [exact Hv|]. split; [intro p; rewrite andb_true_r; reflexivity|].
    split; [constructor|]. split; [intros p []|reflexivity].
  - cbn [filter]. destruct (ch_tcp c) eqn:Et.
    + destruct (ports_of pr) as [av|] eqn:Ep; [|discriminate].
      destruct (rmin (rremove av 0 data_port_floor)) as [q|] eqn:Eq; [|discriminate].
      destruct (alloc_dyn r (subtract_port pr q)) as [pr2 dyn2| |] eqn:Ea; try discriminate.
      inversion H; subst pr' dyn. clear H.
      destruct (ports_of_spec pr av Hv Ep) as [Cav Mav].
      destruct (rremove_spec av 0 data_port_floor (N.le_0_l _) Cav) as [Cr Mr].
      pose proof (rmin_in _ _ Cr Eq) as Hq. rewrite Mr in Hq.
      apply andb_true_iff in Hq. destruct Hq as [Hq1 Hq2]. rewrite Mav in Hq1.
      assert (Hqf : data_port_floor < q).
      { revert Hq2. bool_arith. }
      destruct (subtract_port_spec pr q Hv) as [Vs Ms].
      destruct (IH _ _ _ Vs Ea) as [V2 [M2 [N2 [I2 F2]]]].
      split; [exact V2|]. cbn [map fst snd].
      split.
      { intro p. rewrite M2, Ms, memN_cons, negb_orb, !andb_assoc. reflexivity. }
      split.
      { constructor; [|exact N2]. intro Hin. destruct (I2 q Hin) as [X _].
        rewrite Ms, N.eqb_refl in X. cbn in X. rewrite andb_false_r in X. discriminate. }
      split.
      { intros p [Hp|Hp]; [subst p; split; assumption|].
        destruct (I2 p Hp) as [X Y]. rewrite Ms in X. apply andb_true_iff in X.
        split; [apply X|exact Y]. }
      f_equal. exact F2.
    + apply (IH _ _ _ Hv H).
Qed.

Lemma inr_spans p l : inr p (map span1 l) = memN p l.
Proof.
  induction l as [|q r IH]; [reflexivity|].
  cbn [map]. rewrite inr_cons, memN_cons, IH. f_equal. unfold in1, span1. cbn [fst snd]. bool_arith.
Qed.

Lemma spans_valid l : Forall rvalid (map span1 l).
Proof. induction l; constructor; [apply N.le_refl|assumption]. Qed.

(* everything a successfully built task guarantees, relative to the ports that were still free *)
Definition built (exec : N * N) (o : offer) (d : desc) (k : klass) (chans : list chan)
           (pr pr' : portres) (t : task) : Prop :=
  pvalid pr' /\
  (forall p, pmem p pr' = pmem p pr && negb (memN p (picked t))) /\
  NoDup (picked t) /\
  (forall p, In p (picked t) -> pmem p pr = true) /\
  (forall p, In p (map snd (t_dyn t)) -> data_port_floor < p) /\
  control_port_floor < t_ctl t.

Definition shaped (exec : N * N) (o : offer) (d : desc) (k : klass) (chans : list chan) (t : task) : Prop :=
  t_desc t = d /\
  map fst (t_dyn t) = map ch_name (filter ch_tcp chans) /\
  t_handed t = (if k_controllable k then Some (t_ctl t) else None) /\
  t_req t = canon (k_static k ++ map span1 (picked t)) /\
  t_cpu t = k_cpu k + fst exec /\ t_mem t = k_mem k + snd exec /\
  t_reuse t = (0 <? o_execs o).

Lemma alloc_dyn_names : forall chans pr pr' dyn,
  alloc_dyn chans pr = AOk pr' dyn -> map fst dyn = map ch_name (filter ch_tcp chans).
Proof.
  induction chans as [|c r IH]; intros pr pr' dyn H; cbn [alloc_dyn] in H.
  - inversion H; subst. reflexivity.
  - cbn [filter]. destruct (ch_tcp c) eqn:Et.
    + destruct (ports_of pr) as [av|] eqn:Ep; [|discriminate].
      destruct (rmin (rremove av 0 data_port_floor)) as [q|] eqn:Eq; [|discriminate].
      destruct (alloc_dyn r (subtract_port pr q)) as [pr2 dyn2| |] eqn:Ea; try discriminate.
      inversion H; subst pr' dyn. cbn [map fst]. f_equal. apply (IH _ _ _ Ea).
    + apply (IH _ _ _ H).
Qed.

Lemma make_task_shape exec o d k chans pr pr' t :
  make_task exec o d k chans pr = MkOk pr' t -> shaped exec o d k chans t /\
  exists pr1, alloc_dyn chans pr = AOk pr1 (t_dyn t) /\
    exists av, ports_of pr1 = Some av /\ rmin (rremove av 0 control_port_floor) = Some (t_ctl t) /\
    pr' = subtract_port pr1 (t_ctl t).
Proof.
  unfold make_task. intro H.
  destruct (alloc_dyn chans pr) as [pr1 dyn| |] eqn:Ea; try discriminate.
  destruct (ports_of pr1) as [av|] eqn:Ep; [|discriminate].
  destruct (rmin (rremove av 0 control_port_floor)) as [cp|] eqn:Ec; [|discriminate].
  inversion H; subst pr' t. clear H.
  split.
  - unfold shaped, picked. cbn [t_dyn t_ctl t_desc t_handed t_req t_cpu t_mem t_reuse].
    split; [reflexivity|]. split; [apply (alloc_dyn_names _ _ _ _ Ea)|].
    split; [reflexivity|]. split; [rewrite map_app, map_map; reflexivity|].
    repeat split; reflexivity.
  - cbn [t_dyn t_ctl]. exists pr1. split; [reflexivity|]. exists av. repeat split; assumption.
Qed.

Lemma make_task_built exec o d k chans pr pr' t :
  pvalid pr -> make_task exec o d k chans pr = MkOk pr' t -> built exec o d k chans pr pr' t.
Proof.
  intros Hv H. destruct (make_task_shape _ _ _ _ _ _ _ _ H) as [_ [pr1 [Ea [av [Ep [Ec Epr]]]]]].
  destruct (alloc_dyn_spec _ _ _ _ Hv Ea) as [V1 [M1 [N1 [I1 _]]]].
  destruct (ports_of_spec pr1 av V1 Ep) as [Cav Mav].
  destruct (rremove_spec av 0 control_port_floor (N.le_0_l _) Cav) as [Cr Mr].
  pose proof (rmin_in _ _ Cr Ec) as Hq. rewrite Mr in Hq.
  apply andb_true_iff in Hq. destruct Hq as [Hq1 Hq2]. rewrite Mav in Hq1.
  assert (Hqf : control_port_floor < t_ctl t).
  { revert Hq2. bool_arith. }
  destruct (subtract_port_spec pr1 (t_ctl t) V1) as [Vs Ms]. subst pr'.
  unfold built, picked.
  split; [exact Vs|]. split.
  { intro p. rewrite Ms, M1, memN_app, memN_cons, negb_orb. cbn [memN existsb].
    rewrite orb_false_r, !andb_assoc. reflexivity. }
  split.
  { apply NoDup_snoc; [exact N1|]. intro Hin. rewrite M1 in Hq1.
    apply andb_true_iff in Hq1. destruct Hq1 as [_ X]. apply negb_true_iff in X.
    apply memN_In in Hin. congruence. }
  split.
  { intros p Hp. apply in_app_or in Hp. destruct Hp as [Hp|[Hp|[]]].
    - apply (I1 p Hp).
    - subst p. rewrite M1 in Hq1. apply andb_true_iff in Hq1. apply Hq1. }
  split; [intros p Hp; apply (I1 p Hp)|exact Hqf].
Qed.

Lemma make_task_abandon exec o d k chans pr pr' :
  make_task exec o d k chans pr = MkEarly pr' \/ make_task exec o d k chans pr = MkLate pr' -> pr' = None.
Proof.
  unfold make_task.
  destruct (alloc_dyn chans pr) as [pr1 dyn| |]; [|intros [H|H]; inversion H; reflexivity|intros [H|H]; discriminate].
  destruct (ports_of pr1) as [av|]; [|intros [H|H]; inversion H; reflexivity].
  destruct (rmin (rremove av 0 control_port_floor)); intros [H|H]; discriminate.
Qed.

(* the requested ports of a task are exactly its static ranges, its dynamic ports and the
   control port *)
Lemma shaped_req exec o d k chans t :
  shaped exec o d k chans t -> Forall rvalid (k_static k) ->
  forall p, inr p (t_req t) = inr p (k_static k) || memN p (picked t).
Proof.
  intros [_ [_ [_ [Hr _]]]] Hs p. rewrite Hr.
  assert (Hv : Forall rvalid (k_static k ++ map span1 (picked t))).
  { apply Forall_app. split; [exact Hs|apply spans_valid]. }
  rewrite (proj2 (canon_spec _ Hv)), inr_app, inr_spans. reflexivity.
Qed.

(* ================================================================ F. the offer loops *)

(* what holds for a launched task whatever the port ranges look like *)
Definition task_base (exec : N * N) (o : offer) (t : task) : Prop :=
  satisfy (o_attrs o) (d_constraints (t_desc t)) = true /\
  exists k, d_class (t_desc t) = Some k /\
    (exists c, o_cpu o = Some c /\ k_cpu k <= c) /\
    (exists m, o_mem o = Some m /\ k_mem k <= m) /\
    shaped exec o (t_desc t) k (merge_inbound (d_rbind (t_desc t)) (k_bind k)) t.

(* what holds in addition when the offer's port ranges are well formed (begin <= end) *)
Definition task_ports (o : offer) (t : task) : Prop :=
  (forall p, In p (picked t) -> pmem p (o_ports o) = true) /\
  (forall p, In p (map snd (t_dyn t)) -> data_port_floor < p) /\
  control_port_floor < t_ctl t /\
  (forall k, d_class (t_desc t) = Some k -> Forall rvalid (k_static k) ->
     forall p, inr p (k_static k) = true -> pmem p (o_ports o) = true).

Record ports_inv (o : offer) (st : ost) : Prop := mkPI {
  pi_valid : pvalid (s_rem st);
  pi_sub : forall p, pmem p (s_rem st) = true -> pmem p (o_ports o) = true;
  pi_fresh : forall p, In p (all_picked (s_tasks st)) -> pmem p (s_rem st) = false;
  pi_nodup : NoDup (all_picked (s_tasks st));
  pi_tasks : Forall (task_ports o) (s_tasks st)
}.

Record inv (exec : N * N) (o : offer) (st : ost) : Prop := mkInv {
  inv_base : Forall (task_base exec o) (s_tasks st);
  inv_undecl : s_undecl st = true -> s_tasks st <> [] \/ s_aband st = true;
  inv_tasks_undecl : s_tasks st <> [] -> s_undecl st = true;
  inv_ports : pvalid (o_ports o) -> ports_inv o st
}.

Lemma inv_init exec o : inv exec o (mkOst (o_ports o) [] false false).
Proof.
  constructor; cbn.
  - constructor.
  - discriminate.
  - congruence.
  - intro Hv. constructor; cbn.
    + exact Hv.
    + auto.
    + intros p [].
    + constructor.
    + constructor.
Qed.

Lemma try_desc_mk exec o pr d r :
  try_desc exec o pr d = TMk r ->
  satisfy (o_attrs o) (d_constraints d) = true /\
  exists k, d_class d = Some k /\
    res_satisfy (o_cpu o) (o_mem o) pr (k_cpu k) (k_mem k) (k_static k)
                (Nlen (merge_inbound (d_rbind d) (k_bind k))) = true /\
    r = make_task exec o d k (merge_inbound (d_rbind d) (k_bind k)) pr.
Proof.
  unfold try_desc. destruct (satisfy (o_attrs o) (d_constraints d)); cbn [negb]; [|discriminate].
  destruct (d_class d) as [k|]; [|discriminate].
  destruct (res_satisfy (o_cpu o) (o_mem o) pr (k_cpu k) (k_mem k) (k_static k)
                        (Nlen (merge_inbound (d_rbind d) (k_bind k)))) eqn:E; cbn [negb]; [|discriminate].
  intro H. inversion H. split; [reflexivity|]. exists k. auto.
Qed.

Lemma all_picked_snoc ts t : all_picked (ts ++ [t]) = all_picked ts ++ picked t.
Proof. unfold all_picked. rewrite flat_map_app. cbn. rewrite app_nil_r. reflexivity. Qed.

Lemma NoDup_app_intro {A} (l1 l2 : list A) :
  NoDup l1 -> NoDup l2 -> (forall x, In x l1 -> ~ In x l2) -> NoDup (l1 ++ l2).
Proof.
  induction l1 as [|a l1 IH]; intros H1 H2 Hd; [exact H2|].
  inversion H1 as [|x xs Ha Hl]; subst. cbn. constructor.
  - intro Hin. apply in_app_or in Hin. destruct Hin as [Hin|Hin]; [contradiction|].
    apply (Hd a (or_introl eq_refl) Hin).
  - apply IH; [exact Hl|exact H2|]. intros x Hx. apply Hd. right. exact Hx.
Qed.

(* a task was built and appended *)
Lemma inv_step_ok exec o st d pr t :
  inv exec o st -> try_desc exec o (s_rem st) d = TMk (MkOk pr t) ->
  inv exec o (mkOst pr (s_tasks st ++ [t]) true (s_aband st)).
Proof.
  intros [Hb Hu Htu Hp] Ht.
  destruct (try_desc_mk _ _ _ _ _ Ht) as [Hsat [k [Hk [Hres Hmk]]]]. symmetry in Hmk.
  destruct (make_task_shape _ _ _ _ _ _ _ _ Hmk) as [Hsh _].
  assert (Hd : t_desc t = d) by apply Hsh.
  constructor; cbn [s_rem s_tasks s_undecl s_aband].
  - apply Forall_app. split; [exact Hb|]. constructor; [|constructor].
    unfold task_base. rewrite Hd. split; [exact Hsat|]. exists k. split; [exact Hk|].
    unfold res_satisfy in Hres.
    destruct (o_cpu o) as [c|]; [|discriminate].
    destruct (c <? k_cpu k) eqn:Ec; [discriminate|]. apply N.ltb_ge in Ec.
    destruct (o_mem o) as [m|]; [|discriminate].
    destruct ((m / 1000) * 1000 <? k_mem k) eqn:Em; [discriminate|]. apply N.ltb_ge in Em.
    split; [exists c; split; [reflexivity|exact Ec]|].
    split; [exists m; split; [reflexivity|pose proof (mul_div_le_1000 m); lia]|].
    exact Hsh.
  - intros _. left. destruct (s_tasks st); discriminate.
  - reflexivity.
  - intro Hv. destruct (Hp Hv) as [Pv Ps Pf Pn Pt].
    destruct (make_task_built _ _ _ _ _ _ _ _ Pv Hmk) as [Bv [Bm [Bn [Bi [Bd Bc]]]]].
    destruct (res_satisfy_sound _ _ _ _ _ _ _ Pv Hres) as [_ [_ [_ Hst]]].
    constructor; cbn [s_rem s_tasks].
    + exact Bv.
    + intros p H. rewrite Bm in H. apply andb_true_iff in H. apply Ps. apply H.
    + intros p H. rewrite all_picked_snoc in H. rewrite Bm. apply in_app_or in H.
      destruct H as [H|H].
      * rewrite (Pf p H). reflexivity.
      * apply memN_In in H. rewrite H. apply andb_false_r.
    + rewrite all_picked_snoc. apply NoDup_app_intro; [exact Pn|exact Bn|].
      intros p H1 H2. pose proof (Pf p H1) as X. pose proof (Bi p H2) as Y. congruence.
    + apply Forall_app. split; [exact Pt|]. constructor; [|constructor].
      unfold task_ports. split; [intros p H; apply Ps, Bi, H|]. split; [exact Bd|].
      split; [exact Bc|]. rewrite Hd. intros k' Hk' Hs p H.
      rewrite Hk in Hk'. inversion Hk'; subst k'. apply Ps. apply (Hst Hs p H).
Qed.

(* the ports resource is gone; the task list is unchanged *)
Lemma inv_step_none exec o st u a :
  inv exec o st -> (u = true -> s_tasks st <> [] \/ a = true) -> (s_tasks st <> [] -> u = true) ->
  inv exec o (mkOst None (s_tasks st) u a).
Proof.
  intros [Hb Hu Htu Hp] H1 H2. constructor; cbn [s_rem s_tasks s_undecl s_aband]; try assumption.
  intro Hv. destruct (Hp Hv) as [Pv Ps Pf Pn Pt]. constructor; cbn [s_rem s_tasks]; try assumption.
  - exact I.
  - intros p H. discriminate.
  - reflexivity.
Qed.

Lemma inv_step_early exec o st d pr :
  inv exec o st -> try_desc exec o (s_rem st) d = TMk (MkEarly pr) ->
  inv exec o (mkOst pr (s_tasks st) (s_undecl st) (s_aband st)).
Proof.
  intros Hi Ht. destruct (try_desc_mk _ _ _ _ _ Ht) as [_ [k [_ [_ Hmk]]]].
  assert (pr = None) by (eapply make_task_abandon; left; symmetry; exact Hmk). subst pr.
  apply inv_step_none; [exact Hi|apply Hi|apply Hi].
Qed.

Lemma inv_step_late exec o st d pr :
  inv exec o st -> try_desc exec o (s_rem st) d = TMk (MkLate pr) ->
  inv exec o (mkOst pr (s_tasks st) true true).
Proof.
  intros Hi Ht. destruct (try_desc_mk _ _ _ _ _ Ht) as [_ [k [_ [_ Hmk]]]].
  assert (pr = None) by (eapply make_task_abandon; right; symmetry; exact Hmk). subst pr.
  apply inv_step_none; [exact Hi|intros _; right; reflexivity|reflexivity].
Qed.

Lemma prematch_loop_inv exec o : forall pm st st' und p,
  inv exec o st -> prematch_loop exec o pm st = (st', und, p) -> inv exec o st'.
Proof.
  induction pm as [|d r IH]; intros st st' und p Hi H; cbn [prematch_loop] in H.
  - inversion H; subst. exact Hi.
  - destruct (try_desc exec o (s_rem st) d) as [| | |[pr t|pr|pr|]] eqn:Et;
      try (inversion H; subst; exact Hi).
    + apply (IH _ _ _ _ (inv_step_ok _ _ _ _ _ _ Hi Et) H).
    + inversion H; subst. apply (inv_step_early _ _ _ _ _ Hi Et).
    + inversion H; subst. apply (inv_step_late _ _ _ _ _ Hi Et).
Qed.

Lemma still_loop_inv exec o : forall ds st st' lft p,
  inv exec o st -> still_loop exec o ds st = (st', lft, p) -> inv exec o st'.
Proof.
  induction ds as [|d r IH]; intros st st' lft p Hi H; cbn [still_loop] in H.
  - inversion H; subst. exact Hi.
  - destruct (try_desc exec o (s_rem st) d) as [| | |[pr t|pr|pr|]] eqn:Et.
    + destruct (still_loop exec o r st) as [[s l] q] eqn:E. inversion H; subst. apply (IH _ _ _ _ Hi E).
    + destruct (still_loop exec o r st) as [[s l] q] eqn:E. inversion H; subst. apply (IH _ _ _ _ Hi E).
    + destruct (still_loop exec o r st) as [[s l] q] eqn:E. inversion H; subst. apply (IH _ _ _ _ Hi E).
    + apply (IH _ _ _ _ (inv_step_ok _ _ _ _ _ _ Hi Et) H).
    + destruct (still_loop exec o r (mkOst pr (s_tasks st) (s_undecl st) (s_aband st))) as [[s l] q] eqn:E.
      inversion H; subst. apply (IH _ _ _ _ (inv_step_early _ _ _ _ _ Hi Et) E).
    + destruct (still_loop exec o r (mkOst pr (s_tasks st) true true)) as [[s l] q] eqn:E.
      inversion H; subst. apply (IH _ _ _ _ (inv_step_late _ _ _ _ _ Hi Et) E).
    + inversion H; subst. exact Hi.
Qed.

(* ================================================================ G. one OFFERS round *)

Definition offer_ok (exec : N * N) (x : offer * list task) : Prop :=
  Forall (task_base exec (fst x)) (snd x) /\
  (pvalid (o_ports (fst x)) -> NoDup (all_picked (snd x)) /\ Forall (task_ports (fst x)) (snd x)).

Record ginv (exec : N * N) (ids : list N) (g : gst) : Prop := mkGI {
  gi_ok : Forall (offer_ok exec) (g_accepts g);
  gi_used : forall o ts, In (o, ts) (g_accepts g) -> ts <> [] -> ~ In (o_id o) (g_decline g);
  gi_unused : forall id, In id ids -> ~ In id (g_decline g) ->
     (exists o ts, In (o, ts) (g_accepts g) /\ o_id o = id /\ ts <> []) \/ In id (g_aband g)
}.

Lemma ginv_init exec ids s u : ginv exec ids (mkGst s u ids [] []).
Proof.
  constructor; cbn.
  - constructor.
  - intros o ts [].
  - intros id H1 H2. contradiction.
Qed.

Lemma remove_id_In x y l : In y (remove_id x l) <-> In y l /\ y <> x.
Proof.
  unfold remove_id. rewrite filter_In. split; intros [H1 H2]; split; try exact H1.
  - apply negb_true_iff in H2. apply N.eqb_neq in H2. congruence.
  - apply negb_true_iff. apply N.eqb_neq. congruence.
Qed.

Lemma inv_offer_ok exec o st : inv exec o st -> offer_ok exec (o, s_tasks st).
Proof.
  intros [Hb _ _ Hp]. split; [exact Hb|]. cbn [fst snd]. intro Hv.
  destruct (Hp Hv) as [_ _ _ Pn Pt]. split; assumption.
Qed.

(* the effect of one offer goroutine on the round's bookkeeping, given the final loop state *)
Lemma ginv_after exec ids g o st still' undep :
  ginv exec ids g -> inv exec o st ->
  ginv exec ids
       (mkGst still' undep
              (if s_undecl st then remove_id (o_id o) (g_decline g) else g_decline g)
              (g_accepts g ++ [(o, s_tasks st)])
              (if s_aband st then g_aband g ++ [o_id o] else g_aband g)).
Proof.
  intros [Gok Gu Gn] Hi. constructor; cbn [g_accepts g_decline g_aband].
  - apply Forall_app. split; [exact Gok|]. constructor; [|constructor]. apply inv_offer_ok. exact Hi.
  - intros o' ts Hin Hne Hd.
    assert (Hd' : In (o_id o') (g_decline g)).
    { destruct (s_undecl st); [apply remove_id_In in Hd; apply Hd|exact Hd]. }
    apply in_app_or in Hin. destruct Hin as [Hin|[Hin|[]]].
    + apply (Gu o' ts Hin Hne Hd').
    + inversion Hin; subst o' ts. rewrite (inv_tasks_undecl _ _ _ Hi Hne) in Hd.
      apply remove_id_In in Hd. destruct Hd as [_ X]. apply X. reflexivity.
  - intros id Hid Hd.
    destruct (in_dec N.eq_dec id (g_decline g)) as [Hin|Hnin].
    + (* it was still to be declined: this goroutine took it out *)
      destruct (s_undecl st) eqn:Eu; [|contradiction].
      assert (id = o_id o).
      { destruct (N.eq_dec id (o_id o)) as [E|E]; [exact E|].
        exfalso. apply Hd. apply remove_id_In. split; assumption. }
      subst id. destruct (inv_undecl _ _ _ Hi Eu) as [Ht|Ha].
      * left. exists o, (s_tasks st). split; [apply in_or_app; right; left; reflexivity|].
        split; [reflexivity|exact Ht].
      * right. rewrite Ha. apply in_or_app. right. left. reflexivity.
    + destruct (Gn id Hid Hnin) as [[o' [ts [A [B C]]]]|Ha].
      * left. exists o', ts. split; [apply in_or_app; left; exact A|]. split; assumption.
      * right. destruct (s_aband st); [apply in_or_app; left; exact Ha|exact Ha].
Qed.

Lemma process_offer_ginv exec ids offers descs g o g' :
  ginv exec ids g -> process_offer exec offers descs g o = Some g' -> ginv exec ids g'.
Proof.
  intros Hg H. unfold process_offer in H.
  destruct (prematch_loop exec o
              (filter (fun d => is_pin_to (o_id o) (pin_of offers d)) descs)
              (mkOst (o_ports o) [] false false)) as [[st1 und] p1] eqn:E1.
  pose proof (prematch_loop_inv _ _ _ _ _ _ _ (inv_init exec o) E1) as Hi1.
  destruct p1; [discriminate|].
  destruct (g_undep g ++ und) as [|u0 ur] eqn:Eu.
  - destruct (still_loop exec o (rev (g_still g)) st1) as [[s lft] p] eqn:E2.
    pose proof (still_loop_inv _ _ _ _ _ _ _ Hi1 E2) as Hi2.
    destruct p; [discriminate|]. inversion H; subst g'. apply ginv_after; assumption.
  - inversion H; subst g'. apply ginv_after; assumption.
Qed.

Lemma process_all_ginv exec ids offers descs : forall sched g g',
  ginv exec ids g -> process_all exec offers descs sched g = Some g' -> ginv exec ids g'.
Proof.
  induction sched as [|o r IH]; intros g g' Hg H; cbn [process_all] in H.
  - inversion H; subst. exact Hg.
  - destruct (process_offer exec offers descs g o) as [g1|] eqn:E; [|discriminate].
    apply (IH _ _ (process_offer_ginv _ _ _ _ _ _ _ Hg E) H).
Qed.

Lemma run_round_ginv exec offers sched descs acc dec ab still und :
  run_round exec offers sched descs = Done acc dec ab still und ->
  ginv exec (map o_id offers) (mkGst still und dec acc ab).
Proof.
  unfold run_round. destruct descs as [|d0 dr].
  - intro H. inversion H; subst. apply ginv_init.
  - set (descs := d0 :: dr).
    destruct (filter (fun d => is_pin_nowhere (pin_of offers d)) (rev descs)) as [|n0 nr].
    + destruct (process_all exec offers descs sched
                  (mkGst (filter (fun d => is_pin_none (pin_of offers d)) descs) []
                         (map o_id offers) [] [])) as [g|] eqn:E; [|discriminate].
      intro H. inversion H; subst.
      pose proof (process_all_ginv _ _ _ _ _ _ _ (ginv_init exec (map o_id offers) _ _) E) as G.
      destruct g. exact G.
    + intro H. inversion H; subst. apply ginv_init.
Qed.

(* ================================================================ H. what a finished round guarantees *)

Lemma round_accept_ok exec offers sched descs acc dec ab still und o ts :
  run_round exec offers sched descs = Done acc dec ab still und ->
  In (o, ts) acc -> offer_ok exec (o, ts).
Proof.
  intros H Hin. pose proof (run_round_ginv _ _ _ _ _ _ _ _ _ H) as G.
  pose proof (gi_ok _ _ _ G) as F. cbn [g_accepts] in F. rewrite Forall_forall in F. apply (F _ Hin).
Qed.

Lemma round_task_base exec offers sched descs acc dec ab still und o ts t :
  run_round exec offers sched descs = Done acc dec ab still und ->
  In (o, ts) acc -> In t ts -> task_base exec o t.
Proof.
  intros H Hin Ht. destruct (round_accept_ok _ _ _ _ _ _ _ _ _ _ _ H Hin) as [F _].
  cbn [fst snd] in F. rewrite Forall_forall in F. apply (F _ Ht).
Qed.

Lemma round_task_ports exec offers sched descs acc dec ab still und o ts t :
  run_round exec offers sched descs = Done acc dec ab still und ->
  In (o, ts) acc -> In t ts -> pvalid (o_ports o) -> task_ports o t.
Proof.
  intros H Hin Ht Hv. destruct (round_accept_ok _ _ _ _ _ _ _ _ _ _ _ H Hin) as [_ F].
  cbn [fst snd] in F. destruct (F Hv) as [_ F2]. rewrite Forall_forall in F2. apply (F2 _ Ht).
Qed.

(* ---- constraints ---- *)
Lemma round_constraints exec offers sched descs acc dec ab still und o ts t c :
  run_round exec offers sched descs = Done acc dec ab still und ->
  In (o, ts) acc -> In t ts ->
  In c (d_constraints (t_desc t)) -> is_equals c = true -> sat1 (o_attrs o) c = true.
Proof.
  intros H Hin Ht Hc He. destruct (round_task_base _ _ _ _ _ _ _ _ _ _ _ _ H Hin Ht) as [Hs _].
  apply (satisfy_sound _ _ Hs c Hc He).
Qed.

Lemma round_class exec offers sched descs acc dec ab still und o ts t :
  run_round exec offers sched descs = Done acc dec ab still und ->
  In (o, ts) acc -> In t ts -> exists k, d_class (t_desc t) = Some k.
Proof.
  intros H Hin Ht. destruct (round_task_base _ _ _ _ _ _ _ _ _ _ _ _ H Hin Ht) as [_ [k [Hk _]]].
  exists k. exact Hk.
Qed.

Lemma round_constraints_nearest exec offers sched descs acc dec ab still und o ts t k a v :
  run_round exec offers sched descs = Done acc dec ab still und ->
  In (o, ts) acc -> In t ts -> d_class (t_desc t) = Some k ->
  d_levels (t_desc t) <> [] ->
  NoDup (attrs_of (last (d_levels (t_desc t)) [])) ->
  NoDup (attrs_of (k_cts k)) ->
  (forall l, In l (d_levels (t_desc t) ++ [k_cts k]) -> forallb is_equals l = true) ->
  nearest a (d_levels (t_desc t) ++ [k_cts k]) = Some v ->
  sat1 (o_attrs o) (mkC a v 0) = true.
Proof.
  intros H Hin Ht Hk Hne Htop Hkc Heq Hn.
  assert (Hdc : d_constraints (t_desc t) = desc_constraints (d_levels (t_desc t)) (Some (k_cts k))).
  { unfold d_constraints. rewrite Hk. reflexivity. }
  destruct (desc_constraints_nearest (d_levels (t_desc t)) (Some (k_cts k)) Hne Htop Hkc) as [_ L].
  specialize (L a). cbn [all_levels] in L. rewrite Hn in L.
  destruct (lookup_c_in _ _ _ L) as [c [Hc [Ea Ev]]].
  rewrite <- (sat1_ext (o_attrs o) c (mkC a v 0) Ea Ev).
  apply (round_constraints _ _ _ _ _ _ _ _ _ _ _ _ c H Hin Ht).
  - rewrite Hdc. exact Hc.
  - destruct (desc_constraints_in _ _ _ Hc) as [l [Hl Hcl]]. cbn [all_levels] in Hl.
    specialize (Heq l Hl). rewrite forallb_forall in Heq. apply (Heq c Hcl).
Qed.

Lemma satisfy_iff a cts :
  forallb is_equals cts = true ->
  (satisfy a cts = true <-> forall c, In c cts -> sat1 a c = true).
Proof.
  intro H. rewrite (satisfy_equals a cts H). unfold sat_all. apply forallb_forall.
Qed.

(* ---- resources ---- *)
Lemma round_resources exec offers sched descs acc dec ab still und o ts t k :
  run_round exec offers sched descs = Done acc dec ab still und ->
  In (o, ts) acc -> In t ts -> d_class (t_desc t) = Some k ->
  (exists c, o_cpu o = Some c /\ k_cpu k <= c) /\
  (exists m, o_mem o = Some m /\ k_mem k <= m) /\
  (pvalid (o_ports o) -> Forall rvalid (k_static k) ->
   forall p, inr p (k_static k) = true -> pmem p (o_ports o) = true).
Proof.
  intros H Hin Ht Hk.
  destruct (round_task_base _ _ _ _ _ _ _ _ _ _ _ _ H Hin Ht) as [_ [k' [Hk' [Hc [Hm _]]]]].
  rewrite Hk in Hk'. inversion Hk'; subst k'. split; [exact Hc|]. split; [exact Hm|].
  intros Hv Hs p Hp.
  destruct (round_task_ports _ _ _ _ _ _ _ _ _ _ _ _ H Hin Ht Hv) as [_ [_ [_ X]]].
  apply (X k Hk Hs p Hp).
Qed.

(* ---- ports ---- *)
Lemma round_ports_from_offer exec offers sched descs acc dec ab still und o ts t :
  run_round exec offers sched descs = Done acc dec ab still und ->
  In (o, ts) acc -> In t ts -> pvalid (o_ports o) ->
  (forall p, In p (picked t) -> pmem p (o_ports o) = true) /\
  (forall p, In p (map snd (t_dyn t)) -> data_port_floor < p) /\
  control_port_floor < t_ctl t.
Proof.
  intros H Hin Ht Hv.
  destruct (round_task_ports _ _ _ _ _ _ _ _ _ _ _ _ H Hin Ht Hv) as [A [B [C _]]]. auto.
Qed.

Lemma round_ports_per_channel exec offers sched descs acc dec ab still und o ts t k :
  run_round exec offers sched descs = Done acc dec ab still und ->
  In (o, ts) acc -> In t ts -> d_class (t_desc t) = Some k ->
  map fst (t_dyn t) = map ch_name (filter ch_tcp (merge_inbound (d_rbind (t_desc t)) (k_bind k))) /\
  t_handed t = (if k_controllable k then Some (t_ctl t) else None).
Proof.
  intros H Hin Ht Hk.
  destruct (round_task_base _ _ _ _ _ _ _ _ _ _ _ _ H Hin Ht) as [_ [k' [Hk' [_ [_ Hsh]]]]].
  rewrite Hk in Hk'. inversion Hk'; subst k'. destruct Hsh as [_ [A [B _]]]. auto.
Qed.

Lemma round_request exec offers sched descs acc dec ab still und o ts t k :
  run_round exec offers sched descs = Done acc dec ab still und ->
  In (o, ts) acc -> In t ts -> d_class (t_desc t) = Some k ->
  t_cpu t = k_cpu k + fst exec /\ t_mem t = k_mem k + snd exec /\
  (Forall rvalid (k_static k) ->
   forall p, inr p (t_req t) = inr p (k_static k) || memN p (picked t)).
Proof.
  intros H Hin Ht Hk.
  destruct (round_task_base _ _ _ _ _ _ _ _ _ _ _ _ H Hin Ht) as [_ [k' [Hk' [_ [_ Hsh]]]]].
  rewrite Hk in Hk'. inversion Hk'; subst k'.
  pose proof (shaped_req _ _ _ _ _ _ Hsh) as R.
  destruct Hsh as [_ [_ [_ [_ [A [B _]]]]]]. auto.
Qed.

Lemma floors_le : data_port_floor <= control_port_floor.
Proof. vm_compute. discriminate. Qed.

Lemma all_picked_In p ts : In p (all_picked ts) <-> exists t, In t ts /\ In p (picked t).
Proof. unfold all_picked. apply in_flat_map. Qed.

Lemma picked_above_floor o t p : task_ports o t -> In p (picked t) -> data_port_floor < p.
Proof.
  intros [_ [B [C _]]] Hp. unfold picked in Hp. apply in_app_or in Hp. destruct Hp as [Hp|[Hp|[]]].
  - apply (B p Hp).
  - subst p. pose proof floors_le. lia.
Qed.

Lemma round_ports_distinct exec offers sched descs acc dec ab still und o ts :
  run_round exec offers sched descs = Done acc dec ab still und ->
  In (o, ts) acc -> pvalid (o_ports o) ->
  NoDup (all_picked ts) /\
  (forall t k p, In t ts -> d_class (t_desc t) = Some k -> inr p (k_static k) = true ->
                 p <= data_port_floor -> ~ In p (all_picked ts)) /\
  (forall o2 ts2, In (o2, ts2) acc -> pvalid (o_ports o2) ->
                  (forall p, pmem p (o_ports o) = true -> pmem p (o_ports o2) = false) ->
                  forall p, In p (all_picked ts) -> ~ In p (all_picked ts2)).
Proof.
  intros H Hin Hv. destruct (round_accept_ok _ _ _ _ _ _ _ _ _ _ _ H Hin) as [_ F].
  cbn [fst snd] in F. destruct (F Hv) as [N1 F1]. rewrite Forall_forall in F1.
  split; [exact N1|]. split.
  - intros t k p _ _ _ Hle Hp. apply all_picked_In in Hp. destruct Hp as [t' [Ht' Hp]].
    pose proof (picked_above_floor o t' p (F1 _ Ht') Hp). lia.
  - intros o2 ts2 Hin2 Hv2 Hdis p Hp Hp2.
    apply all_picked_In in Hp. destruct Hp as [t1 [Ht1 Hp]].
    apply all_picked_In in Hp2. destruct Hp2 as [t2 [Ht2 Hp2]].
    destruct (F1 _ Ht1) as [A1 _].
    destruct (round_task_ports _ _ _ _ _ _ _ _ _ _ _ _ H Hin2 Ht2 Hv2) as [A2 _].
    specialize (Hdis p (A1 p Hp)). rewrite (A2 p Hp2) in Hdis. discriminate.
Qed.

(* ---- decline ---- *)
Lemma round_decline exec offers sched descs acc dec ab still und :
  run_round exec offers sched descs = Done acc dec ab still und ->
  (forall o ts, In (o, ts) acc -> ts <> [] -> ~ In (o_id o) dec) /\
  (forall o, In o offers -> ~ In (o_id o) dec ->
     (exists o' ts, In (o', ts) acc /\ o_id o' = o_id o /\ ts <> []) \/ In (o_id o) ab).
Proof.
  intro H. destruct (run_round_ginv _ _ _ _ _ _ _ _ _ H) as [_ Gu Gn].
  cbn [g_accepts g_decline g_aband] in *. split; [exact Gu|].
  intros o Ho Hd. apply (Gn (o_id o)); [apply in_map; exact Ho|exact Hd].
Qed.

(* ================================================================ I. witnesses of the refuted statements *)

Definition w_exec : N * N := (10, 64000).
Definition w_full : portres := Some [(9000, 9100); (30000, 30100)].
Definition w_offer (attrs : attrs) (cpu : N) (ports : portres) : offer :=
  mkOffer 0 0 attrs (Some cpu) (Some 4096000) ports 0.
Definition w_class (cpu : N) (static : ranges) (bind : list chan) : klass :=
  mkClass [] cpu 64000 static bind true.
Definition w_desc (i : N) (levels : list (list cstr)) (k : klass) : desc := mkDesc i levels [] (Some k).
Definition w_round (o : offer) (ds : list desc) : outcome := run_round w_exec [o] [o] ds.

(* C05-c: wants.ports "9000" and one inbound TCP channel *)
Definition w1_o := w_offer [] 1000 w_full.
Definition w1_k := w_class 100 [(9000, 9000)] [mkChan 1 true].
Definition w1_d := w_desc 0 [[]] w1_k.
Definition w1_t := mkTask w1_d [(1, 9000)] 30000 (Some 30000) [(9000, 9000); (30000, 30000)] 110 128000 false.
Lemma w1_run : w_round w1_o [w1_d] = Done [(w1_o, [w1_t])] [] [] [] [].
Proof. vm_compute. reflexivity. Qed.

(* C05-d: two tasks wanting 0.6 cpu each, 1.0 cpu offered *)
Definition w2_o := w_offer [] 1000 w_full.
Definition w2_k := w_class 600 [] [].
Definition w2_d0 := w_desc 0 [[]] w2_k.
Definition w2_d1 := w_desc 1 [[]] w2_k.
Definition w2_t1 := mkTask w2_d1 [] 30000 (Some 30000) [(30000, 30000)] 610 128000 false.
Definition w2_t0 := mkTask w2_d0 [] 30001 (Some 30001) [(30001, 30001)] 610 128000 false.
Lemma w2_run : w_round w2_o [w2_d0; w2_d1] = Done [(w2_o, [w2_t1; w2_t0])] [] [] [] [].
Proof. vm_compute. reflexivity. Qed.

(* C05-g: no port above the control cut-off *)
Definition w3_o := w_offer [] 1000 (Some [(9000, 9100)]).
Definition w3_d := w_desc 0 [[]] (w_class 100 [] []).
Lemma w3_run : w_round w3_o [w3_d] = Crash.
Proof. vm_compute. reflexivity. Qed.

(* C05-f: the only port goes to the channel, the control port finds no ports resource *)
Definition w4_o := w_offer [] 1000 (Some [(9000, 9000)]).
Definition w4_d := w_desc 0 [[]] (w_class 100 [] [mkChan 1 true]).
Lemma w4_run : w_round w4_o [w4_d] = Done [(w4_o, [])] [] [0] [w4_d] [].
Proof. vm_compute. reflexivity. Qed.

(* C05-e: the top-level role names zone twice *)
Definition w5_o := w_offer [(w_zone, w_z2)] 1000 w_full.
Definition w5_k := w_class 100 [] [].
Definition w5_d := w_desc 0 w_levels w5_k.
Definition w5_t := mkTask w5_d [] 30000 (Some 30000) [(30000, 30000)] 110 128000 false.
Lemma w5_run : w_round w5_o [w5_d] = Done [(w5_o, [w5_t])] [] [] [] [].
Proof. vm_compute. reflexivity. Qed.

(* C05-h: wants exactly the offered cpu *)
Definition w6_o := w_offer [] 1000 w_full.
Definition w6_k := w_class 1000 [] [].
Definition w6_d := w_desc 0 [[]] w6_k.
Definition w6_t := mkTask w6_d [] 30000 (Some 30000) [(30000, 30000)] 1010 128000 false.
Lemma w6_run : w_round w6_o [w6_d] = Done [(w6_o, [w6_t])] [] [] [] [].
Proof. vm_compute. reflexivity. Qed.

Lemma w_full_valid : pvalid w_full.
Proof. cbn. repeat constructor; unfold rvalid; cbn; lia. Qed.

(* ---- the full statements that the unchanged code does not satisfy ---- *)

(* nearest definition wins, whatever the lists look like *)
Definition st_merge_nearest : Prop :=
  forall levels k a, levels <> [] ->
    lookup_c a (desc_constraints levels k) = nearest a (all_levels levels k).

Lemma merge_nearest_refuted : ~ st_merge_nearest.
Proof.
  intro H. specialize (H w_levels (Some []) w_zone).
  destruct merge_nearest_counterexample as [A B]. rewrite A, B in H.
  assert (X : w_levels <> []) by discriminate. specialize (H X). discriminate.
Qed.

(* a launched task's agent satisfies the nearest definition of every attribute *)
Definition st_constraints_nearest : Prop :=
  forall exec offers sched descs acc dec ab still und o ts t k a v,
    run_round exec offers sched descs = Done acc dec ab still und ->
    In (o, ts) acc -> In t ts -> d_class (t_desc t) = Some k ->
    nearest a (d_levels (t_desc t) ++ [k_cts k]) = Some v ->
    sat1 (o_attrs o) (mkC a v 0) = true.

Lemma constraints_nearest_refuted : ~ st_constraints_nearest.
Proof.
  intro H.
  specialize (H w_exec [w5_o] [w5_o] [w5_d] _ _ _ _ _ w5_o [w5_t] w5_t w5_k w_zone w_z3 w5_run
                (or_introl eq_refl) (or_introl eq_refl) eq_refl eq_refl).
  vm_compute in H. discriminate.
Qed.

(* static, dynamic and control ports of the tasks on one offer are pairwise distinct *)
Definition st_ports_distinct : Prop :=
  forall exec offers sched descs acc dec ab still und o ts,
    run_round exec offers sched descs = Done acc dec ab still und ->
    In (o, ts) acc -> pvalid (o_ports o) ->
    NoDup (all_picked ts) /\
    (forall t k p, In t ts -> d_class (t_desc t) = Some k -> inr p (k_static k) = true ->
                   ~ In p (all_picked ts)) /\
    (forall i j ti tj ki kj p, i <> j -> nth_error ts i = Some ti -> nth_error ts j = Some tj ->
        d_class (t_desc ti) = Some ki -> d_class (t_desc tj) = Some kj ->
        inr p (k_static ki) = true -> inr p (k_static kj) = false).

Lemma ports_distinct_refuted : ~ st_ports_distinct.
Proof.
  intro H.
  destruct (H w_exec [w1_o] [w1_o] [w1_d] _ _ _ _ _ w1_o [w1_t] w1_run (or_introl eq_refl) w_full_valid)
    as [_ [H2 _]].
  apply (H2 w1_t w1_k 9000 (or_introl eq_refl) eq_refl eq_refl).
  vm_compute. left. reflexivity.
Qed.

Definition want_cpu (t : task) : N := match d_class (t_desc t) with Some k => k_cpu k | None => 0 end.
Definition want_mem (t : task) : N := match d_class (t_desc t) with Some k => k_mem k | None => 0 end.

(* what the templates of all tasks launched on one offer ask for does not exceed the offer *)
Definition st_request_within_offer : Prop :=
  forall exec offers sched descs acc dec ab still und o ts,
    run_round exec offers sched descs = Done acc dec ab still und ->
    In (o, ts) acc -> ts <> [] ->
    exists c m, o_cpu o = Some c /\ o_mem o = Some m /\
                sumN (map want_cpu ts) <= c /\ sumN (map want_mem ts) <= m.

Lemma request_within_offer_refuted : ~ st_request_within_offer.
Proof.
  intro H.
  destruct (H w_exec [w2_o] [w2_o] [w2_d0; w2_d1] _ _ _ _ _ w2_o [w2_t1; w2_t0] w2_run
              (or_introl eq_refl)) as [c [m [Hc [_ [Hs _]]]]]; [discriminate|].
  inversion Hc; subst c. vm_compute in Hs. apply Hs. reflexivity.
Qed.

Lemma request_within_offer_single exec offers sched descs acc dec ab still und o t :
  run_round exec offers sched descs = Done acc dec ab still und ->
  In (o, [t]) acc ->
  exists c m, o_cpu o = Some c /\ o_mem o = Some m /\
              sumN (map want_cpu [t]) <= c /\ sumN (map want_mem [t]) <= m.
Proof.
  intros H Hin.
  destruct (round_task_base _ _ _ _ _ _ _ _ _ _ _ _ H Hin (or_introl eq_refl))
    as [_ [k [Hk [[c [Hc Lc]] [[m [Hm Lm]] _]]]]].
  exists c, m. unfold want_cpu, want_mem. cbn [map sumN fold_right]. rewrite Hk, !N.add_0_r. auto.
Qed.

(* the cpu / memory a TaskInfo asks for is covered by the offer *)
Definition st_taskinfo_within_offer : Prop :=
  forall exec offers sched descs acc dec ab still und o t,
    run_round exec offers sched descs = Done acc dec ab still und ->
    In (o, [t]) acc ->
    exists c m, o_cpu o = Some c /\ o_mem o = Some m /\ t_cpu t <= c /\ t_mem t <= m.

Lemma taskinfo_within_offer_refuted : ~ st_taskinfo_within_offer.
Proof.
  intro H.
  destruct (H w_exec [w6_o] [w6_o] [w6_d] _ _ _ _ _ w6_o w6_t w6_run (or_introl eq_refl))
    as [c [m [Hc [_ [Hs _]]]]].
  inversion Hc; subst c. vm_compute in Hs. apply Hs. reflexivity.
Qed.

(* an offer is in the DECLINE call exactly when no task was launched on it *)
Definition st_unused_declined : Prop :=
  forall exec offers sched descs acc dec ab still und,
    run_round exec offers sched descs = Done acc dec ab still und ->
    (forall o ts, In (o, ts) acc -> ts <> [] -> ~ In (o_id o) dec) /\
    (forall o, In o offers -> ~ In (o_id o) dec ->
       exists o' ts, In (o', ts) acc /\ o_id o' = o_id o /\ ts <> []).

Lemma unused_declined_refuted : ~ st_unused_declined.
Proof.
  intro H.
  destruct (H w_exec [w4_o] [w4_o] [w4_d] _ _ _ _ _ w4_run) as [_ H2].
  destruct (H2 w4_o (or_introl eq_refl)) as [o' [ts [Hin [_ Hne]]]].
  - intros [].
  - destruct Hin as [Hin|[]]. inversion Hin; subst. apply Hne. reflexivity.
Qed.

Lemma unused_declined_no_abandon exec offers sched descs acc dec still und :
  run_round exec offers sched descs = Done acc dec [] still und ->
  (forall o ts, In (o, ts) acc -> ts <> [] -> ~ In (o_id o) dec) /\
  (forall o, In o offers -> ~ In (o_id o) dec ->
     exists o' ts, In (o', ts) acc /\ o_id o' = o_id o /\ ts <> []).
Proof.
  intro H. destruct (round_decline _ _ _ _ _ _ _ _ _ H) as [A B]. split; [exact A|].
  intros o Ho Hd. destruct (B o Ho Hd) as [X|[]]. exact X.
Qed.

(* the handler finishes the round (does not take the core down) *)
Definition st_round_completes : Prop :=
  forall exec offers sched descs,
    (forall o, In o offers -> pvalid (o_ports o)) -> run_round exec offers sched descs <> Crash.

Lemma round_crash_witness : ~ st_round_completes.
Proof.
  intro H. apply (H w_exec [w3_o] [w3_o] [w3_d]); [|exact w3_run].
  intros o [Ho|[]]. subst o. cbn. repeat constructor; unfold rvalid; cbn; lia.
Qed.

(* ================================================================ J. RangesFromExpression *)

Fixpoint p10 (f : nat) : N := match f with O => 1 | S f' => 10 * p10 f' end.

Lemma digits_val_app s : forall c acc,
  digits_val (s ++ [c]) acc =
  match digits_val s acc with
  | Some v => if is_digit c then Some (v * 10 + (c - 48)) else None
  | None => None
  end.
Proof.
  induction s as [|d r IH]; intros c acc; cbn [app digits_val].
  - destruct (is_digit c); reflexivity.
  - destruct (is_digit d); [apply IH|reflexivity].
Qed.

Lemma is_digit_small n : n < 10 -> is_digit (48 + n) = true.
Proof. intro H. unfold is_digit. bool_arith. Qed.

Lemma dec_fuel_val : forall f n, n < p10 f -> digits_val (dec_fuel f n) 0 = Some n.
Proof.
  induction f as [|f IH]; intros n H; cbn [p10] in H.
  - assert (n = 0) by lia. subst n. reflexivity.
  - cbn [dec_fuel]. destruct (n <? 10) eqn:E.
    + apply N.ltb_lt in E. cbn [digits_val]. rewrite (is_digit_small n E). f_equal. lia.
    + apply N.ltb_ge in E. rewrite digits_val_app.
      assert (Hq : n / 10 < p10 f) by (apply N.div_lt_upper_bound; lia).
      rewrite (IH _ Hq).
      assert (Hm : n mod 10 < 10) by (apply N.mod_lt; discriminate).
      rewrite (is_digit_small _ Hm). f_equal.
      pose proof (N.div_mod n 10 ltac:(discriminate)) as X.
      clear IH Hq. generalize dependent (n / 10). generalize dependent (n mod 10). intros r Hr q Hx. lia.
Qed.

Lemma dec_fuel_digits : forall f n, forallb is_digit (dec_fuel f n) = true.
Proof.
  induction f as [|f IH]; intro n; [reflexivity|]. cbn [dec_fuel]. destruct (n <? 10) eqn:E.
  - apply N.ltb_lt in E. cbn [forallb]. rewrite (is_digit_small n E). reflexivity.
  - rewrite forallb_app, IH. cbn [forallb andb].
    assert (Hm : n mod 10 < 10) by (apply N.mod_lt; discriminate).
    rewrite (is_digit_small _ Hm). reflexivity.
Qed.

Lemma dec_fuel_nonempty f n : dec_fuel (S f) n <> [].
Proof.
  cbn [dec_fuel]. destruct (n <? 10); [discriminate|]. intro H. apply app_eq_nil in H. destruct H. discriminate.
Qed.

Lemma two64_lt_p10_40 : two64 < p10 40.
Proof. vm_compute. reflexivity. Qed.

Lemma parse_uint_dec n : n < two64 -> parse_uint (dec n) = Some n.
Proof.
  intro H. unfold parse_uint, dec. destruct (dec_fuel 40 n) eqn:E.
  - exfalso. apply (dec_fuel_nonempty 39 n). exact E.
  - rewrite <- E. rewrite dec_fuel_val; [|pose proof two64_lt_p10_40; lia].
    apply N.ltb_lt in H. rewrite H. reflexivity.
Qed.

Lemma forallb_existsb_false {A} (P Q : A -> bool) s :
  (forall c, P c = true -> Q c = false) -> forallb P s = true -> existsb Q s = false.
Proof.
  intro H. induction s as [|c r IH]; cbn; intro F; [reflexivity|].
  apply andb_true_iff in F. destruct F as [F1 F2]. rewrite (H c F1), (IH F2). reflexivity.
Qed.

Lemma digit_not c k : is_digit c = true -> (k <? 48) || (57 <? k) = true -> N.eqb k c = false.
Proof. unfold is_digit. bool_arith. Qed.

Lemma digits_no sep s :
  (sep <? 48) || (57 <? sep) = true -> forallb is_digit s = true -> existsb (N.eqb sep) s = false.
Proof.
  intros Hs. apply forallb_existsb_false. intros c Hc. apply (digit_not c sep Hc Hs).
Qed.

Lemma digit_no_space c : is_digit c = true -> is_space c = false.
Proof. unfold is_digit, is_space. bool_arith. Qed.

Lemma split_on_app sep a b :
  existsb (N.eqb sep) a = false -> split_on sep (a ++ sep :: b) = a :: split_on sep b.
Proof.
  induction a as [|c r IH]; cbn [app existsb]; intro H.
  - cbn [split_on]. rewrite N.eqb_refl. reflexivity.
  - apply orb_false_iff in H. destruct H as [H1 H2]. cbn [split_on].
    rewrite N.eqb_sym in H1. rewrite H1. rewrite (IH H2). reflexivity.
Qed.

Definition no_space (s : str) : Prop := existsb is_space s = false.

Lemma trim_left_id s : no_space s -> trim_left s = s.
Proof.
  unfold no_space. destruct s as [|c r]; [reflexivity|]. cbn. intro H.
  apply orb_false_iff in H. destruct H as [H _]. rewrite H. reflexivity.
Qed.

Lemma no_space_rev s : no_space s -> no_space (rev s).
Proof.
  unfold no_space. intro H. destruct (existsb is_space (rev s)) eqn:E; [|reflexivity].
  apply existsb_exists in E. destruct E as [c [Hc1 Hc2]]. apply in_rev in Hc1.
  assert (X : existsb is_space s = true) by (apply existsb_exists; exists c; auto). congruence.
Qed.

Lemma trim_space_id s : no_space s -> trim_space s = s.
Proof.
  intro H. unfold trim_space. rewrite (trim_left_id s H), (trim_left_id _ (no_space_rev s H)).
  apply rev_involutive.
Qed.

Lemma no_space_app a b : no_space a -> no_space b -> no_space (a ++ b).
Proof. unfold no_space. intros Ha Hb. rewrite existsb_app, Ha, Hb. reflexivity. Qed.

Lemma digits_no_space s : forallb is_digit s = true -> no_space s.
Proof. apply forallb_existsb_false. exact digit_no_space. Qed.

Lemma dec_digits n : forallb is_digit (dec n) = true.
Proof. apply dec_fuel_digits. Qed.

Definition fits (r : range) : Prop := fst r < two64 /\ snd r < two64.

Lemma print_item_no_space r : no_space (print_item r).
Proof.
  unfold print_item. destruct (N.eqb (fst r) (snd r)).
  - apply digits_no_space, dec_digits.
  - apply no_space_app; [apply digits_no_space, dec_digits|].
    apply no_space_app; [reflexivity|apply digits_no_space, dec_digits].
Qed.

Lemma print_item_no_comma r : existsb (N.eqb comma) (print_item r) = false.
Proof.
  unfold print_item. destruct (N.eqb (fst r) (snd r)).
  - apply digits_no; [reflexivity|apply dec_digits].
  - rewrite !existsb_app. rewrite !(digits_no comma _ eq_refl (dec_digits _)). reflexivity.
Qed.

Lemma parse_item_print r : fits r -> parse_item (print_item r) = Some r.
Proof.
  intros [H1 H2]. unfold parse_item. rewrite (trim_space_id _ (print_item_no_space r)).
  unfold print_item. destruct (N.eqb (fst r) (snd r)) eqn:E.
  - apply N.eqb_eq in E. rewrite (split_on_no_sep dash (dec (fst r))).
    + rewrite (parse_uint_dec _ H1). destruct r as [a b]. cbn in *. subst b. reflexivity.
    + apply digits_no; [reflexivity|apply dec_digits].
  - cbn [app]. rewrite split_on_app; [|apply digits_no; [reflexivity|apply dec_digits]].
    rewrite (split_on_no_sep dash (dec (snd r))); [|apply digits_no; [reflexivity|apply dec_digits]].
    rewrite (parse_uint_dec _ H1), (parse_uint_dec _ H2). destruct r; reflexivity.
Qed.

Lemma print_ranges_cons r t :
  t <> [] -> print_ranges (r :: t) = print_item r ++ comma :: print_ranges t.
Proof. destruct t; [congruence|reflexivity]. Qed.

Lemma parse_items_print : forall l, l <> [] -> Forall fits l ->
  parse_items (split_on comma (print_ranges l)) = Some l.
Proof.
  induction l as [|r t IH]; intros Hne Hf; [congruence|].
  inversion Hf as [|x xs Hr Ht]; subst. destruct t as [|r2 t2].
  - cbn [print_ranges]. rewrite (split_on_no_sep comma _ (print_item_no_comma r)).
    cbn [parse_items]. rewrite (parse_item_print r Hr). reflexivity.
  - rewrite print_ranges_cons by discriminate.
    rewrite (split_on_app comma _ _ (print_item_no_comma r)).
    cbn [parse_items]. rewrite (parse_item_print r Hr).
    rewrite IH; [reflexivity|discriminate|exact Ht].
Qed.

Lemma print_ranges_no_space : forall l, no_space (print_ranges l).
Proof.
  induction l as [|r t IH]; [reflexivity|]. destruct t as [|r2 t2].
  - apply print_item_no_space.
  - rewrite print_ranges_cons by discriminate.
    apply no_space_app; [apply print_item_no_space|].
    change (comma :: print_ranges (r2 :: t2)) with ([comma] ++ print_ranges (r2 :: t2)).
    apply no_space_app; [reflexivity|exact IH].
Qed.

Lemma print_item_nonempty r : print_item r <> [].
Proof.
  unfold print_item. destruct (N.eqb (fst r) (snd r)).
  - apply (dec_fuel_nonempty 39).
  - intro H. apply app_eq_nil in H. destruct H as [H _]. apply (dec_fuel_nonempty 39 _ H).
Qed.

(* static ranges exactly as written: whatever list of ranges a template spells in the
   "a", "a-b", comma-separated notation is what RangesFromExpression returns *)
Lemma parse_print_roundtrip l : Forall fits l -> parse_ranges (print_ranges l) = Some l.
Proof.
  intro Hf. unfold parse_ranges. rewrite (trim_space_id _ (print_ranges_no_space l)).
  destruct l as [|r t]; [reflexivity|].
  destruct (print_ranges (r :: t)) eqn:E.
  - exfalso. destruct t as [|r2 t2].
    + apply (print_item_nonempty r E).
    + rewrite print_ranges_cons in E by discriminate. apply app_eq_nil in E. destruct E as [E _].
      apply (print_item_nonempty r E).
  - rewrite <- E. apply parse_items_print; [discriminate|exact Hf].
Qed.
