(* Lemmas about the placement model (coq/model/Placement.v) for property C05. *)
From Coq Require Import List NArith Bool Lia Permutation.
From Verif Require Import Common Gen_Placement Placement.
Import ListNotations.
Open Scope N_scope.

(* ================================================================ small helpers *)

Lemma str_eqb_sym a b : str_eqb a b = str_eqb b a.
Proof.
  destruct (str_eqb a b) eqn:E1, (str_eqb b a) eqn:E2; try reflexivity.
  - apply str_eqb_spec in E1. subst. rewrite str_eqb_refl in E2. discriminate.
  - apply str_eqb_spec in E2. subst. rewrite str_eqb_refl in E1. discriminate.
Qed.

Lemma str_eqb_false a b : str_eqb a b = false <-> a <> b.
Proof.
  split.
  - intros E H. subst. rewrite str_eqb_refl in E. discriminate.
  - intro H. destruct (str_eqb a b) eqn:E; [|reflexivity].
    apply str_eqb_spec in E. contradiction.
Qed.

(* ================================================================ A. Attributes.Satisfy *)

Lemma split_on_nonempty sep s : split_on sep s <> [].
Proof.
  induction s as [|c r IH]; cbn; [discriminate|].
  destruct (N.eqb c sep); [discriminate|].
  destruct (split_on sep r); [congruence|discriminate].
Qed.

Lemma split_on_no_sep sep s :
  existsb (N.eqb sep) s = false -> split_on sep s = [s].
Proof.
  induction s as [|c r IH]; cbn; intro H; [reflexivity|].
  apply orb_false_iff in H. destruct H as [H1 H2].
  rewrite N.eqb_sym in H1. rewrite H1. rewrite (IH H2). reflexivity.
Qed.

(* what one round of the loop decides *)
Lemma sat1_step a c v :
  attr_get (c_attr c) a = Some v ->
  sat1 a c = (has_comma v && mem_str (c_val c) (split_on comma v)) || str_eqb v (c_val c).
Proof.
  intro G. unfold sat1. rewrite G. unfold mem_str. cbn [existsb].
  rewrite (str_eqb_sym (c_val c) v).
  destruct (has_comma v) eqn:HC; cbn [andb].
  - apply orb_comm.
  - unfold has_comma in HC. rewrite (split_on_no_sep _ _ HC). cbn [existsb].
    rewrite orb_false_r. rewrite (str_eqb_sym (c_val c) v). rewrite orb_diag. reflexivity.
Qed.

Lemma satisfy_loop_char a cts : forall ok,
  satisfy_loop a cts ok =
  forallb (sat1 a) (filter is_equals cts) && (ok || existsb is_equals cts).
Proof.
  induction cts as [|c r IH]; intro ok; cbn [satisfy_loop filter forallb existsb].
  - rewrite orb_false_r. reflexivity.
  - change (N.eqb (c_op c) 0) with (is_equals c). destruct (is_equals c) eqn:EO.
    + cbn [forallb orb]. rewrite orb_true_r.
      destruct (attr_get (c_attr c) a) as [v|] eqn:G.
      * rewrite (sat1_step _ _ _ G).
        destruct (has_comma v && mem_str (c_val c) (split_on comma v)) eqn:E1; cbn [orb andb].
        -- rewrite IH. cbn [orb]. rewrite andb_true_r. reflexivity.
        -- destruct (str_eqb v (c_val c)); cbn [andb].
           ++ rewrite IH. cbn [orb]. rewrite andb_true_r. reflexivity.
           ++ reflexivity.
      * unfold sat1. rewrite G. reflexivity.
    + cbn [orb]. apply IH.
Qed.

(* full characterisation of Attributes.Satisfy *)
Lemma satisfy_char a cts :
  satisfy a cts =
  match cts with
  | [] => true
  | _ => forallb (sat1 a) (filter is_equals cts) && existsb is_equals cts
  end.
Proof.
  destruct cts as [|c r]; [reflexivity|].
  unfold satisfy. rewrite satisfy_loop_char. reflexivity.
Qed.

Lemma filter_all {A} (f : A -> bool) l : forallb f l = true -> filter f l = l.
Proof.
  induction l as [|x l IH]; cbn; intro H; [reflexivity|].
  apply andb_true_iff in H. destruct H as [H1 H2]. rewrite H1, (IH H2). reflexivity.
Qed.

(* with the only operator that can be written in a template (Equals), Satisfy is "every
   constraint is met" *)
Lemma satisfy_equals a cts :
  forallb is_equals cts = true -> satisfy a cts = sat_all a cts.
Proof.
  intro H. rewrite satisfy_char. destruct cts as [|c r]; [reflexivity|].
  rewrite (filter_all _ _ H). unfold sat_all.
  cbn [forallb] in H. apply andb_true_iff in H. destruct H as [H1 _].
  cbn [existsb]. rewrite H1. cbn [orb]. apply andb_true_r.
Qed.

Lemma satisfy_sound a cts :
  satisfy a cts = true -> forall c, In c cts -> is_equals c = true -> sat1 a c = true.
Proof.
  rewrite satisfy_char. destruct cts as [|c0 r]; [intros _ c []|].
  intros H c Hin He. apply andb_true_iff in H. destruct H as [H _].
  rewrite forallb_forall in H. apply H. apply filter_In. split; assumption.
Qed.

(* ================================================================ B. MergeParent / getConstraints *)

Lemma lookup_c_app a l1 l2 :
  lookup_c a (l1 ++ l2) = match lookup_c a l1 with Some v => Some v | None => lookup_c a l2 end.
Proof.
  induction l1 as [|c r IH]; cbn; [reflexivity|].
  destruct (str_eqb (c_attr c) a); [reflexivity|apply IH].
Qed.

Lemma lookup_c_none a l : lookup_c a l = None <-> ~ In a (attrs_of l).
Proof.
  induction l as [|c r IH]; cbn.
  - split; [intros _ []|reflexivity].
  - destruct (str_eqb (c_attr c) a) eqn:E.
    + apply str_eqb_spec in E. split; [discriminate|]. intro H. exfalso. apply H. left. exact E.
    + apply str_eqb_false in E. rewrite IH. split.
      * intros H [H1|H1]; [contradiction|apply H, H1].
      * intros H H1. apply H. right. exact H1.
Qed.

Lemma replace_first_none c l : replace_first c l = None <-> ~ In (c_attr c) (attrs_of l).
Proof.
  induction l as [|p r IH]; cbn.
  - split; [intros _ []|reflexivity].
  - destruct (str_eqb (c_attr c) (c_attr p)) eqn:E.
    + apply str_eqb_spec in E. split; [discriminate|]. intro H. exfalso. apply H. left. symmetry. exact E.
    + apply str_eqb_false in E. destruct (replace_first c r) eqn:R.
      * split; [discriminate|]. intro H. exfalso.
        assert (H' : ~ In (c_attr c) (attrs_of r)) by (intro X; apply H; right; exact X).
        apply IH in H'. discriminate.
      * split; [|reflexivity]. intros _ [H1|H1]; [congruence|].
        destruct IH as [IH1 _]. apply (IH1 eq_refl). exact H1.
Qed.

Lemma replace_first_some c l m :
  replace_first c l = Some m ->
  attrs_of m = attrs_of l /\
  (forall a, lookup_c a m = if str_eqb (c_attr c) a then Some (c_val c) else lookup_c a l) /\
  (forall x, In x m -> x = c \/ In x l).
Proof.
  revert m. induction l as [|p r IH]; cbn; intros m H; [discriminate|].
  destruct (str_eqb (c_attr c) (c_attr p)) eqn:E.
  - inversion H; subst m. clear H. apply str_eqb_spec in E. split; [|split].
    + unfold attrs_of. cbn [map]. rewrite E. reflexivity.
    + intro a. cbn. rewrite <- E. destruct (str_eqb (c_attr c) a); reflexivity.
    + intros x [Hx|Hx]; [left; symmetry; exact Hx|right; right; exact Hx].
  - destruct (replace_first c r) as [r'|] eqn:R; [|discriminate].
    inversion H; subst m. clear H.
    destruct (IH r' eq_refl) as [IH1 [IH2 IH3]]. split; [|split].
    + unfold attrs_of in *. cbn [map]. rewrite IH1. reflexivity.
    + intro a. cbn. rewrite IH2.
      destruct (str_eqb (c_attr p) a) eqn:E2; [|reflexivity].
      apply str_eqb_spec in E2. subst a. rewrite E. reflexivity.
    + intros x [Hx|Hx]; [right; left; exact Hx|].
      destruct (IH3 x Hx) as [H1|H1]; [left; exact H1|right; right; exact H1].
Qed.

(* one step of MergeParent, read as a map: holds for every list *)
Lemma merge_one_lookup l c a :
  lookup_c a (merge_one l c) = if str_eqb (c_attr c) a then Some (c_val c) else lookup_c a l.
Proof.
  unfold merge_one. destruct (replace_first c l) as [m|] eqn:R.
  - apply (replace_first_some _ _ _ R).
  - rewrite lookup_c_app. cbn. apply replace_first_none in R.
    destruct (str_eqb (c_attr c) a) eqn:E.
    + apply str_eqb_spec in E. subst a. apply lookup_c_none in R. rewrite R. reflexivity.
    + destruct (lookup_c a l); reflexivity.
Qed.

Lemma NoDup_snoc {A} (l : list A) x : NoDup l -> ~ In x l -> NoDup (l ++ [x]).
Proof.
  induction 1 as [|y l Hy Hl IH]; cbn; intro Hx.
  - constructor; [intros []|constructor].
  - constructor.
    + intro H2. apply in_app_or in H2. destruct H2 as [H2|[H2|[]]]; [contradiction|].
      subst. apply Hx. left. reflexivity.
    + apply IH. intro H2. apply Hx. right. exact H2.
Qed.

Lemma merge_one_nodup l c : NoDup (attrs_of l) -> NoDup (attrs_of (merge_one l c)).
Proof.
  intro H. unfold merge_one. destruct (replace_first c l) as [m|] eqn:R.
  - destruct (replace_first_some _ _ _ R) as [E _]. rewrite E. exact H.
  - apply replace_first_none in R. unfold attrs_of. rewrite map_app. cbn.
    apply NoDup_snoc; assumption.
Qed.

Lemma merge_one_in l c x : In x (merge_one l c) -> x = c \/ In x l.
Proof.
  unfold merge_one. destruct (replace_first c l) as [m|] eqn:R.
  - apply (replace_first_some _ _ _ R).
  - intro H. apply in_app_or in H. destruct H as [H|[H|[]]]; [right; exact H|left; symmetry; exact H].
Qed.

(* MergeParent read as a map: own definition (its last entry for the attribute) else parent;
   holds for every pair of lists *)
Lemma merge_parent_lookup own : forall parent a,
  lookup_c a (merge_parent own parent) =
  match level_def a own with Some v => Some v | None => lookup_c a parent end.
Proof.
  unfold merge_parent. induction own as [|c r IH]; intros parent a; cbn [fold_left level_def].
  - reflexivity.
  - rewrite IH. destruct (level_def a r); [reflexivity|].
    rewrite merge_one_lookup. destruct (str_eqb (c_attr c) a); reflexivity.
Qed.

Lemma merge_parent_nodup own : forall parent,
  NoDup (attrs_of parent) -> NoDup (attrs_of (merge_parent own parent)).
Proof.
  unfold merge_parent. induction own as [|c r IH]; intros parent H; cbn [fold_left]; [exact H|].
  apply IH. apply merge_one_nodup. exact H.
Qed.

Lemma merge_parent_in own : forall parent x,
  In x (merge_parent own parent) -> In x own \/ In x parent.
Proof.
  unfold merge_parent. induction own as [|c r IH]; intros parent x H; cbn [fold_left] in H.
  - right. exact H.
  - destruct (IH _ _ H) as [H1|H1]; [left; right; exact H1|].
    destruct (merge_one_in _ _ _ H1) as [H2|H2]; [left; left; symmetry; exact H2|right; exact H2].
Qed.

(* in a list that names every attribute once, first entry = last entry *)
Lemma nodup_lookup_level_def a l : NoDup (attrs_of l) -> lookup_c a l = level_def a l.
Proof.
  induction l as [|c r IH]; cbn; intro H; [reflexivity|].
  inversion H as [|x xs Hx Hr]; subst. rewrite <- (IH Hr).
  destruct (str_eqb (c_attr c) a) eqn:E.
  - apply str_eqb_spec in E. subst a.
    assert (N : lookup_c (c_attr c) r = None) by (apply lookup_c_none; exact Hx).
    rewrite N. reflexivity.
  - destruct (lookup_c a r); reflexivity.
Qed.

Lemma nodupb_NoDup (l : list str) : nodupb str_eqb l = true <-> NoDup l.
Proof.
  induction l as [|x r IH]; cbn.
  - split; [constructor|reflexivity].
  - rewrite andb_true_iff, negb_true_iff, IH. split.
    + intros [H1 H2]. constructor; [|exact H2]. intro Hin.
      assert (E : existsb (str_eqb x) r = true).
      { apply existsb_exists. exists x. split; [exact Hin|apply str_eqb_refl]. }
      congruence.
    + intro H. inversion H as [|y ys Hy Hr]; subst. split; [|exact Hr].
      destruct (existsb (str_eqb x) r) eqn:E; [|reflexivity].
      apply existsb_exists in E. destruct E as [y [Hy1 Hy2]]. apply str_eqb_spec in Hy2. subst y.
      contradiction.
Qed.

Lemma nodup_attrs_NoDup l : nodup_attrs l = true <-> NoDup (attrs_of l).
Proof. apply nodupb_NoDup. Qed.

Lemma nearest_app a l1 l2 :
  nearest a (l1 ++ l2) = match nearest a l1 with Some v => Some v | None => nearest a l2 end.
Proof.
  induction l1 as [|l r IH]; cbn; [reflexivity|].
  destruct (level_def a l); [reflexivity|apply IH].
Qed.

(* getConstraints: provided the top-level role's own list names no attribute twice, the result
   names no attribute twice and reads as "nearest definition", for every depth *)
Lemma get_constraints_nearest levels :
  levels <> [] ->
  NoDup (attrs_of (last levels [])) ->
  NoDup (attrs_of (get_constraints levels)) /\
  forall a, lookup_c a (get_constraints levels) = nearest a levels.
Proof.
  induction levels as [|l r IH]; intros Hne Htop; [congruence|].
  destruct r as [|l2 r2].
  - cbn in *. split; [exact Htop|]. intro a. rewrite (nodup_lookup_level_def _ _ Htop).
    destruct (level_def a l); reflexivity.
  - assert (Hne2 : l2 :: r2 <> []) by discriminate.
    change (last (l :: l2 :: r2) []) with (last (l2 :: r2) []) in Htop.
    destruct (IH Hne2 Htop) as [IH1 IH2].
    change (get_constraints (l :: l2 :: r2)) with (merge_parent l (get_constraints (l2 :: r2))).
    split.
    + apply merge_parent_nodup. exact IH1.
    + intro a. rewrite merge_parent_lookup, IH2. reflexivity.
Qed.

Lemma get_constraints_in levels x :
  In x (get_constraints levels) -> exists l, In l levels /\ In x l.
Proof.
  induction levels as [|l r IH]; intro H; [destruct H|].
  destruct r as [|l2 r2].
  - exists l. split; [left; reflexivity|exact H].
  - change (get_constraints (l :: l2 :: r2)) with (merge_parent l (get_constraints (l2 :: r2))) in H.
    destruct (merge_parent_in _ _ _ H) as [H1|H1].
    + exists l. split; [left; reflexivity|exact H1].
    + destruct (IH H1) as [l' [A B]]. exists l'. split; [right; exact A|exact B].
Qed.

(* BuildDescriptorConstraints *)
Lemma desc_constraints_nearest levels k :
  levels <> [] ->
  NoDup (attrs_of (last levels [])) ->
  match k with Some kc => NoDup (attrs_of kc) | None => True end ->
  NoDup (attrs_of (desc_constraints levels k)) /\
  forall a, lookup_c a (desc_constraints levels k) = nearest a (all_levels levels k).
Proof.
  intros Hne Htop Hk. destruct (get_constraints_nearest levels Hne Htop) as [G1 G2].
  destruct k as [kc|]; cbn [desc_constraints all_levels].
  - split.
    + apply merge_parent_nodup. exact Hk.
    + intro a. rewrite merge_parent_lookup.
      rewrite <- (nodup_lookup_level_def _ _ G1). rewrite G2.
      rewrite nearest_app. destruct (nearest a levels); [reflexivity|].
      cbn. rewrite (nodup_lookup_level_def _ _ Hk). destruct (level_def a kc); reflexivity.
  - split; [exact G1|exact G2].
Qed.

Lemma desc_constraints_in levels k x :
  In x (desc_constraints levels k) -> exists l, In l (all_levels levels k) /\ In x l.
Proof.
  destruct k as [kc|]; cbn [desc_constraints all_levels]; intro H.
  - destruct (merge_parent_in _ _ _ H) as [H1|H1].
    + destruct (get_constraints_in _ _ H1) as [l [A B]]. exists l. split; [|exact B].
      apply in_or_app. left. exact A.
    + exists kc. split; [|exact H1]. apply in_or_app. right. left. reflexivity.
  - apply get_constraints_in. exact H.
Qed.

Lemma lookup_c_in a l v :
  lookup_c a l = Some v -> exists c, In c l /\ c_attr c = a /\ c_val c = v.
Proof.
  induction l as [|c r IH]; cbn; [discriminate|].
  destruct (str_eqb (c_attr c) a) eqn:E.
  - intro H. inversion H; subst. apply str_eqb_spec in E. exists c. auto.
  - intro H. destruct (IH H) as [c' [A B]]. exists c'. auto.
Qed.

Lemma sat1_ext a c c' : c_attr c = c_attr c' -> c_val c = c_val c' -> sat1 a c = sat1 a c'.
Proof. intros E1 E2. unfold sat1. rewrite E1, E2. reflexivity. Qed.

(* the counterexample to unconditional "nearest wins": the top-level role names zone twice *)
Definition w_zone : str := [122;111;110;101].
Definition w_z1 : str := [122;49].
Definition w_z2 : str := [122;50].
Definition w_z3 : str := [122;51].
Definition w_levels : list (list cstr) :=
  [[mkC w_zone w_z3 0]; [mkC w_zone w_z1 0; mkC w_zone w_z2 0]].

Lemma merge_nearest_counterexample :
  lookup_c w_zone (desc_constraints w_levels (Some [])) = Some w_z2 /\
  nearest w_zone (all_levels w_levels (Some [])) = Some w_z3.
Proof. vm_compute. split; reflexivity. Qed.

(* ================================================================ C. port ranges *)

Ltac bool_arith :=
  repeat match goal with
         | H : _ = true |- _ => revert H
         | H : _ = false |- _ => revert H
         end;
  repeat match goal with
         | |- context[N.leb ?a ?b] => destruct (N.leb_spec a b)
         | |- context[N.ltb ?a ?b] => destruct (N.ltb_spec a b)
         | |- context[N.eqb ?a ?b] => destruct (N.eqb_spec a b)
         end;
  cbn [andb orb negb]; intros; try discriminate; try reflexivity; try lia.

Definition rvalid (r : range) : Prop := fst r <= snd r.
Definition in1 (p : N) (r : range) : bool := (fst r <=? p) && (p <=? snd r).

Lemma inr_cons p r l : inr p (r :: l) = in1 p r || inr p l.
Proof. reflexivity. Qed.
Lemma inr_nil p : inr p [] = false.
Proof. reflexivity. Qed.
Lemma inr_app p l1 l2 : inr p (l1 ++ l2) = inr p l1 || inr p l2.
Proof. unfold inr. apply existsb_app. Qed.

Fixpoint sortedb (l : ranges) : Prop :=
  match l with
  | [] => True
  | r :: t => Forall (fun x => fst r <= fst x) t /\ sortedb t
  end.

(* canonical form: valid ranges, each later one starts beyond the end of the earlier one + 1 *)
Fixpoint canonp (l : ranges) : Prop :=
  match l with
  | [] => True
  | r :: t => rvalid r /\ Forall (fun x => snd r + 1 < fst x) t /\ canonp t
  end.

Lemma canonp_valid l : canonp l -> Forall rvalid l.
Proof.
  induction l as [|r t IH]; cbn; intro H; [constructor|].
  destruct H as [H1 [_ H3]]. constructor; [exact H1|apply IH, H3].
Qed.

Lemma canonp_sorted l : canonp l -> sortedb l.
Proof.
  induction l as [|r t IH]; cbn; intro H; [exact I|].
  destruct H as [H1 [H2 H3]]. split; [|apply IH, H3].
  eapply Forall_impl; [|exact H2]. intros x Hx. cbn in Hx. unfold rvalid in H1. lia.
Qed.

Lemma Forall_rinsert (P : range -> Prop) r l : Forall P (rinsert r l) <-> P r /\ Forall P l.
Proof.
  induction l as [|h t IH]; cbn.
  - split; [intro H; inversion H; auto|intros [H1 H2]; constructor; auto].
  - destruct (range_leb r h).
    + split; [intro H; inversion H; auto|intros [H1 H2]; constructor; auto].
    + split.
      * intro H. inversion H as [|x xs Hh Ht]; subst. apply IH in Ht. destruct Ht as [A B].
        split; [exact A|constructor; assumption].
      * intros [H1 H2]. inversion H2 as [|x xs Hh Ht]; subst. constructor; [exact Hh|].
        apply IH. split; assumption.
Qed.

Lemma rinsert_inr p r l : inr p (rinsert r l) = inr p (r :: l).
Proof.
  induction l as [|h t IH]; cbn [rinsert]; [reflexivity|].
  destruct (range_leb r h); [reflexivity|].
  rewrite inr_cons, IH, !inr_cons. rewrite !orb_assoc. f_equal. apply orb_comm.
Qed.

Lemma rsort_inr p l : inr p (rsort l) = inr p l.
Proof.
  induction l as [|r t IH]; [reflexivity|].
  change (rsort (r :: t)) with (rinsert r (rsort t)).
  rewrite rinsert_inr, !inr_cons, IH. reflexivity.
Qed.

Lemma rsort_Forall (P : range -> Prop) l : Forall P (rsort l) <-> Forall P l.
Proof.
  induction l as [|r t IH].
  - reflexivity.
  - change (rsort (r :: t)) with (rinsert r (rsort t)). rewrite Forall_rinsert, IH.
    split; [intros [A B]; constructor; assumption|intro H; inversion H; auto].
Qed.

Lemma rinsert_sorted r l : sortedb l -> sortedb (rinsert r l).
Proof.
  induction l as [|h t IH]; cbn [rinsert]; intro Hs.
  - cbn. split; [constructor|exact I].
  - destruct (range_leb r h) eqn:E.
    + cbn [sortedb]. split; [|exact Hs].
      destruct Hs as [Hs1 _].
      assert (Hrh : fst r <= fst h).
      { unfold range_leb in E. bool_arith. }
      constructor; [exact Hrh|]. eapply Forall_impl; [|exact Hs1]. intros x Hx. cbn in Hx. lia.
    + destruct Hs as [Hs1 Hs2]. cbn [sortedb]. split; [|apply IH, Hs2].
      apply Forall_rinsert. split; [|exact Hs1].
      unfold range_leb in E. bool_arith.
Qed.

Lemma rsort_sorted l : sortedb (rsort l).
Proof.
  induction l as [|r t IH]; [exact I|].
  change (rsort (r :: t)) with (rinsert r (rsort t)). apply rinsert_sorted, IH.
Qed.

Lemma squash_go_spec : forall rest cur,
  rvalid cur -> Forall rvalid rest -> Forall (fun x => fst cur <= fst x) rest -> sortedb rest ->
  canonp (squash_go cur rest) /\
  Forall (fun y => fst cur <= fst y) (squash_go cur rest) /\
  forall p, inr p (squash_go cur rest) = inr p (cur :: rest).
Proof.
  induction rest as [|x r IH]; intros cur Hc Hv Hlb Hs.
  - cbn [squash_go]. split; [|split].
    + cbn. split; [exact Hc|]. split; [constructor|exact I].
    + constructor; [lia|constructor].
    + reflexivity.
  - cbn [squash_go].
    inversion Hv as [|x0 r0 Hvx Hvr]; subst.
    inversion Hlb as [|x0 r0 Hlx Hlr]; subst.
    destruct Hs as [Hs1 Hs2]. unfold rvalid in *.
    destruct (1 + snd cur <? fst x) eqn:E1.
    + apply N.ltb_lt in E1.
      destruct (IH x Hvx Hvr Hs1 Hs2) as [A [B C]].
      split; [|split].
      * cbn [canonp]. split; [exact Hc|]. split; [|exact A].
        eapply Forall_impl; [|exact B]. intros y Hy. cbn in Hy. lia.
      * constructor; [lia|]. eapply Forall_impl; [|exact B]. intros y Hy. cbn in Hy. lia.
      * intro p. rewrite inr_cons, C. reflexivity.
    + apply N.ltb_ge in E1. destruct (snd cur <=? snd x) eqn:E2.
      * apply N.leb_le in E2.
        assert (Hc' : fst (fst cur, snd x) <= snd (fst cur, snd x)) by (cbn; lia).
        assert (Hlb' : Forall (fun y => fst (fst cur, snd x) <= fst y) r).
        { eapply Forall_impl; [|exact Hs1]. intros y Hy. cbn in *. lia. }
        destruct (IH (fst cur, snd x) Hc' Hvr Hlb' Hs2) as [A [B C]].
        split; [exact A|]. split; [exact B|].
        intro p. rewrite C, !inr_cons. rewrite orb_assoc. f_equal.
        unfold in1. cbn [fst snd]. bool_arith.
      * apply N.leb_gt in E2.
        destruct (IH cur Hc Hvr Hlr Hs2) as [A [B C]].
        split; [exact A|]. split; [exact B|].
        intro p. rewrite C, !inr_cons.
        assert (Hsub : in1 p x = true -> in1 p cur = true).
        { unfold in1. bool_arith. }
        destruct (in1 p x) eqn:Ex; [|rewrite orb_false_l; reflexivity].
        rewrite (Hsub eq_refl). reflexivity.
Qed.

Lemma squash_spec l :
  sortedb l -> Forall rvalid l -> canonp (squash l) /\ forall p, inr p (squash l) = inr p l.
Proof.
  destruct l as [|c r]; intros Hs Hv; [split; [exact I|reflexivity]|].
  cbn [squash]. destruct Hs as [Hs1 Hs2]. inversion Hv; subst.
  destruct (squash_go_spec r c) as [A [_ C]]; auto.
Qed.

Lemma canon_spec l :
  Forall rvalid l -> canonp (canon l) /\ forall p, inr p (canon l) = inr p l.
Proof.
  intro Hv. unfold canon.
  destruct (squash_spec (rsort l) (rsort_sorted l)) as [A B]; [apply rsort_Forall; exact Hv|].
  split; [exact A|]. intro p. rewrite B. apply rsort_inr.
Qed.

Lemma renorm_spec l :
  Forall rvalid l -> canonp (renorm l) /\ forall p, inr p (renorm l) = inr p l.
Proof.
  intro Hv. destruct l as [|a [|b r]].
  - split; [exact I|reflexivity].
  - cbn [renorm]. inversion Hv; subst. split; [|reflexivity]. cbn. auto.
  - change (renorm (a :: b :: r)) with (canon (a :: b :: r)). apply canon_spec. exact Hv.
Qed.

(* Remove *)
Lemma remove_raw_inr l lo hi p :
  lo <= hi -> Forall rvalid l ->
  inr p (remove_raw l lo hi) = inr p l && negb ((lo <=? p) && (p <=? hi)).
Proof.
  intro Hlh. induction l as [|[b e] r IH]; intro Hv; [reflexivity|].
  inversion Hv as [|x xs Hb Hr]; subst. unfold rvalid in Hb. cbn [fst snd] in Hb.
  cbn [remove_raw].
  destruct ((lo <=? b) && (e <=? hi)) eqn:E1.
  { rewrite (IH Hr), inr_cons. unfold in1. cbn [fst snd]. destruct (inr p r); bool_arith. }
  destruct ((b <? lo) && (hi <? e)) eqn:E2.
  { rewrite !inr_cons, (IH Hr). unfold in1. cbn [fst snd]. destruct (inr p r); bool_arith. }
  destruct ((e <? lo) || (hi <? b)) eqn:E3.
  { rewrite !inr_cons, (IH Hr). unfold in1. cbn [fst snd]. destruct (inr p r); bool_arith. }
  destruct (hi <? e) eqn:E4.
  { rewrite !inr_cons, (IH Hr). unfold in1. cbn [fst snd]. destruct (inr p r); bool_arith. }
  rewrite !inr_cons, (IH Hr). unfold in1. cbn [fst snd]. destruct (inr p r); bool_arith.
Qed.

Lemma remove_raw_lb l lo hi k :
  lo <= hi -> Forall (fun x => k < fst x) l -> Forall (fun x => k < fst x) (remove_raw l lo hi).
Proof.
  intro Hlh. induction l as [|[b e] r IH]; intro H; [constructor|].
  inversion H as [|x xs Hb Hr]; subst. cbn [fst] in Hb. cbn [remove_raw].
  destruct ((lo <=? b) && (e <=? hi)) eqn:E1; [apply IH, Hr|].
  destruct ((b <? lo) && (hi <? e)) eqn:E2.
  { constructor; [cbn; lia|]. constructor; [cbn; bool_arith|apply IH, Hr]. }
  destruct ((e <? lo) || (hi <? b)) eqn:E3; [constructor; [cbn; lia|apply IH, Hr]|].
  destruct (hi <? e) eqn:E4.
  { constructor; [cbn; bool_arith|apply IH, Hr]. }
  constructor; [cbn; lia|apply IH, Hr].
Qed.

Lemma remove_raw_canon l lo hi : lo <= hi -> canonp l -> canonp (remove_raw l lo hi).
Proof.
  intro Hlh. induction l as [|[b e] r IH]; intro H; [exact I|].
  cbn [canonp] in H. destruct H as [Hv [Hgap Hc]]. unfold rvalid in Hv. cbn [fst snd] in *.
  cbn [remove_raw].
  destruct ((lo <=? b) && (e <=? hi)) eqn:E1; [apply IH, Hc|].
  destruct ((b <? lo) && (hi <? e)) eqn:E2.
  { cbn [canonp]. unfold rvalid. cbn [fst snd]. split; [bool_arith|]. split.
    - constructor; [cbn; bool_arith|]. apply remove_raw_lb; [exact Hlh|].
      eapply Forall_impl; [|exact Hgap]. intros x Hx. cbn in Hx. bool_arith.
    - split; [bool_arith|]. split; [|apply IH, Hc].
      apply remove_raw_lb; [exact Hlh|exact Hgap]. }
  destruct ((e <? lo) || (hi <? b)) eqn:E3.
  { cbn [canonp]. unfold rvalid. cbn [fst snd]. split; [exact Hv|]. split; [|apply IH, Hc].
    apply remove_raw_lb; [exact Hlh|exact Hgap]. }
  destruct (hi <? e) eqn:E4.
  { cbn [canonp]. unfold rvalid. cbn [fst snd]. split; [bool_arith|]. split; [|apply IH, Hc].
    apply remove_raw_lb; [exact Hlh|exact Hgap]. }
  cbn [canonp]. unfold rvalid. cbn [fst snd]. split; [bool_arith|]. split; [|apply IH, Hc].
  apply remove_raw_lb; [exact Hlh|].
  eapply Forall_impl; [|exact Hgap]. intros x Hx. cbn in Hx. bool_arith.
Qed.

Lemma rremove_spec a lo hi :
  lo <= hi -> canonp a ->
  canonp (rremove a lo hi) /\
  forall p, inr p (rremove a lo hi) = inr p a && negb ((lo <=? p) && (p <=? hi)).
Proof.
  intros Hlh Hc. unfold rremove.
  pose proof (remove_raw_canon a lo hi Hlh Hc) as Hrc.
  destruct (squash_spec (remove_raw a lo hi) (canonp_sorted _ Hrc) (canonp_valid _ Hrc)) as [A B].
  split; [exact A|]. intro p. rewrite B. apply remove_raw_inr; [exact Hlh|]. apply canonp_valid. exact Hc.
Qed.

Lemma rmin_in a p : canonp a -> rmin a = Some p -> inr p a = true.
Proof.
  destruct a as [|[b e] r]; cbn [rmin]; [discriminate|].
  intros [Hv _] H. inversion H; subst. unfold rvalid in Hv. cbn [fst snd] in Hv.
  rewrite inr_cons. unfold in1. cbn [fst snd]. bool_arith.
Qed.

(* ---- the "ports" resource ---- *)
Definition pvalid (pr : portres) : Prop :=
  match pr with Some raw => Forall rvalid raw | None => True end.
Definition pmem (p : N) (pr : portres) : bool :=
  match pr with Some raw => inr p raw | None => false end.

Lemma ports_of_spec pr av :
  pvalid pr -> ports_of pr = Some av -> canonp av /\ forall p, inr p av = pmem p pr.
Proof.
  destruct pr as [raw|]; cbn [ports_of pvalid pmem]; intros Hv H; [|discriminate].
  inversion H; subst av. destruct raw as [|r t].
  - split; [exact I|reflexivity].
  - apply canon_spec. exact Hv.
Qed.

Lemma ports_of_none pr : ports_of pr = None -> pr = None.
Proof. destruct pr; cbn; [discriminate|reflexivity]. Qed.

Lemma subtract_port_spec pr q :
  pvalid pr ->
  pvalid (subtract_port pr q) /\
  forall p, pmem p (subtract_port pr q) = pmem p pr && negb (N.eqb p q).
Proof.
  destruct pr as [raw|]; cbn [subtract_port pvalid pmem]; intro Hv; [|split; [exact I|reflexivity]].
  destruct (renorm_spec raw Hv) as [A B].
  destruct (rremove_spec (renorm raw) q q (N.le_refl q) A) as [C D].
  assert (Heq : forall p, inr p (rremove (renorm raw) q q) = inr p raw && negb (N.eqb p q)).
  { intro p. rewrite D, B. f_equal. bool_arith. }
  destruct (rremove (renorm raw) q q) as [|x xs] eqn:ER.
  - split; [exact I|]. intro p. cbn [pmem]. rewrite <- Heq. reflexivity.
  - split; [cbn [pvalid]; apply canonp_valid; exact C|]. intro p. cbn [pmem]. apply Heq.
Qed.
