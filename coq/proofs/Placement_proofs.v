(* Lemmas about the placement model (coq/model/Placement.v) for property C05. *)
From Coq Require Import List NArith Bool Lia Permutation.
From Verif Require Import Common Gen_Placement Placement.
Import ListNotations.
Open Scope N_scope.

(* ================================================================ small helpers *)

Lemma str_eqb_sym a b : str_eqb a b = str_eqb b a.
Proof.
  destruct (str_eqb a b) eqn:E1, (str_eqb b a) eqn:E2; try reflexivity.
  - apply str_eqb_spec in E1. subst. rewrite str_eqb_refl in E2. discriminate.
  - apply str_eqb_spec in E2. subst. rewrite str_eqb_refl in E1. discriminate.
Qed.

Lemma str_eqb_false a b : str_eqb a b = false <-> a <> b.
Proof.
  split.
  - intros E H. subst. rewrite str_eqb_refl in E. discriminate.
  - intro H. destruct (str_eqb a b) eqn:E; [|reflexivity].
    apply str_eqb_spec in E. contradiction.
Qed.

(* ================================================================ A. Attributes.Satisfy *)

Lemma split_on_nonempty sep s : split_on sep s <> [].
Proof.
  induction s as [|c r IH]; cbn; [discriminate|].
  destruct (N.eqb c sep); [discriminate|].
  destruct (split_on sep r); [congruence|discriminate].
Qed.

Lemma split_on_no_sep sep s :
  existsb (N.eqb sep) s = false -> split_on sep s = [s].
Proof.
  induction s as [|c r IH]; cbn; intro H; [reflexivity|].
  apply orb_false_iff in H. destruct H as [H1 H2].
  rewrite N.eqb_sym in H1. rewrite H1. rewrite (IH H2). reflexivity.
Qed.

(* what one round of the loop decides *)
Lemma sat1_step a c v :
  attr_get (c_attr c) a = Some v ->
  sat1 a c = (has_comma v && mem_str (c_val c) (split_on comma v)) || str_eqb v (c_val c).
Proof.
  intro G. unfold sat1. rewrite G. unfold mem_str. cbn [existsb].
  rewrite (str_eqb_sym (c_val c) v).
  destruct (has_comma v) eqn:HC; cbn [andb].
  - apply orb_comm.
  - unfold has_comma in HC. rewrite (split_on_no_sep _ _ HC). cbn [existsb].
    rewrite orb_false_r. rewrite (str_eqb_sym (c_val c) v). rewrite orb_diag. reflexivity.
Qed.

Lemma satisfy_loop_char a cts : forall ok,
  satisfy_loop a cts ok =
  forallb (sat1 a) (filter is_equals cts) && (ok || existsb is_equals cts).
Proof.
  induction cts as [|c r IH]; intro ok; cbn [satisfy_loop filter forallb existsb].
  - rewrite orb_false_r. reflexivity.
  - change (N.eqb (c_op c) 0) with (is_equals c). destruct (is_equals c) eqn:EO.
    + cbn [forallb orb]. rewrite orb_true_r.
      destruct (attr_get (c_attr c) a) as [v|] eqn:G.
      * rewrite (sat1_step _ _ _ G).
        destruct (has_comma v && mem_str (c_val c) (split_on comma v)) eqn:E1; cbn [orb andb].
        -- rewrite IH. cbn [orb]. rewrite andb_true_r. reflexivity.
        -- destruct (str_eqb v (c_val c)); cbn [andb].
           ++ rewrite IH. cbn [orb]. rewrite andb_true_r. reflexivity.
           ++ reflexivity.
      * unfold sat1. rewrite G. reflexivity.
    + cbn [orb]. apply IH.
Qed.

(* full characterisation of Attributes.Satisfy *)
Lemma satisfy_char a cts :
  satisfy a cts =
  match cts with
  | [] => true
  | _ => forallb (sat1 a) (filter is_equals cts) && existsb is_equals cts
  end.
Proof.
  destruct cts as [|c r]; [reflexivity|].
  unfold satisfy. rewrite satisfy_loop_char. reflexivity.
Qed.

Lemma filter_all {A} (f : A -> bool) l : forallb f l = true -> filter f l = l.
Proof.
  induction l as [|x l IH]; cbn; intro H; [reflexivity|].
  apply andb_true_iff in H. destruct H as [H1 H2]. rewrite H1, (IH H2). reflexivity.
Qed.

(* with the only operator that can be written in a template (Equals), Satisfy is "every
   constraint is met" *)
Lemma satisfy_equals a cts :
  forallb is_equals cts = true -> satisfy a cts = sat_all a cts.
Proof.
  intro H. rewrite satisfy_char. destruct cts as [|c r]; [reflexivity|].
  rewrite (filter_all _ _ H). unfold sat_all.
  cbn [forallb] in H. apply andb_true_iff in H. destruct H as [H1 _].
  cbn [existsb]. rewrite H1. cbn [orb]. apply andb_true_r.
Qed.

Lemma satisfy_sound a cts :
  satisfy a cts = true -> forall c, In c cts -> is_equals c = true -> sat1 a c = true.
Proof.
  rewrite satisfy_char. destruct cts as [|c0 r]; [intros _ c []|].
  intros H c Hin He. apply andb_true_iff in H. destruct H as [H _].
  rewrite forallb_forall in H. apply H. apply filter_In. split; assumption.
Qed.

(* ================================================================ B. MergeParent / getConstraints *)

Lemma lookup_c_app a l1 l2 :
  lookup_c a (l1 ++ l2) = match lookup_c a l1 with Some v => Some v | None => lookup_c a l2 end.
Proof.
  induction l1 as [|c r IH]; cbn; [reflexivity|].
  destruct (str_eqb (c_attr c) a); [reflexivity|apply IH].
Qed.

Lemma lookup_c_none a l : lookup_c a l = None <-> ~ In a (attrs_of l).
Proof.
  induction l as [|c r IH]; cbn.
  - split; [intros _ []|reflexivity].
  - destruct (str_eqb (c_attr c) a) eqn:E.
    + apply str_eqb_spec in E. split; [discriminate|]. intro H. exfalso. apply H. left. exact E.
    + apply str_eqb_false in E. rewrite IH. split.
      * intros H [H1|H1]; [contradiction|apply H, H1].
      * intros H H1. apply H. right. exact H1.
Qed.

Lemma replace_first_none c l : replace_first c l = None <-> ~ In (c_attr c) (attrs_of l).
Proof.
  induction l as [|p r IH]; cbn.
  - split; [intros _ []|reflexivity].
  - destruct (str_eqb (c_attr c) (c_attr p)) eqn:E.
    + apply str_eqb_spec in E. split; [discriminate|]. intro H. exfalso. apply H. left. symmetry. exact E.
    + apply str_eqb_false in E. destruct (replace_first c r) eqn:R.
      * split; [discriminate|]. intro H. exfalso.
        assert (H' : ~ In (c_attr c) (attrs_of r)) by (intro X; apply H; right; exact X).
        apply IH in H'. discriminate.
      * split; [|reflexivity]. intros _ [H1|H1]; [congruence|].
        destruct IH as [IH1 _]. apply (IH1 eq_refl). exact H1.
Qed.

Lemma replace_first_some c l m :
  replace_first c l = Some m ->
  attrs_of m = attrs_of l /\
  (forall a, lookup_c a m = if str_eqb (c_attr c) a then Some (c_val c) else lookup_c a l) /\
  (forall x, In x m -> x = c \/ In x l).
Proof.
  revert m. induction l as [|p r IH]; cbn; intros m H; [discriminate|].
  destruct (str_eqb (c_attr c) (c_attr p)) eqn:E.
  - inversion H; subst m. clear H. apply str_eqb_spec in E. split; [|split].
    + unfold attrs_of. cbn [map]. rewrite E. reflexivity.
    + intro a. cbn. rewrite <- E. destruct (str_eqb (c_attr c) a); reflexivity.
    + intros x [Hx|Hx]; [left; symmetry; exact Hx|right; right; exact Hx].
  - destruct (replace_first c r) as [r'|] eqn:R; [|discriminate].
    inversion H; subst m. clear H.
    destruct (IH r' eq_refl) as [IH1 [IH2 IH3]]. split; [|split].
    + unfold attrs_of in *. cbn [map]. rewrite IH1. reflexivity.
    + intro a. cbn. rewrite IH2.
      destruct (str_eqb (c_attr p) a) eqn:E2; [|reflexivity].
      apply str_eqb_spec in E2. subst a. rewrite E. reflexivity.
    + intros x [Hx|Hx]; [right; left; exact Hx|].
      destruct (IH3 x Hx) as [H1|H1]; [left; exact H1|right; right; exact H1].
Qed.

(* one step of MergeParent, read as a map: holds for every list *)
Lemma merge_one_lookup l c a :
  lookup_c a (merge_one l c) = if str_eqb (c_attr c) a then Some (c_val c) else lookup_c a l.
Proof.
  unfold merge_one. destruct (replace_first c l) as [m|] eqn:R.
  - apply (replace_first_some _ _ _ R).
  - rewrite lookup_c_app. cbn. apply replace_first_none in R.
    destruct (str_eqb (c_attr c) a) eqn:E.
    + apply str_eqb_spec in E. subst a. apply lookup_c_none in R. rewrite R. reflexivity.
    + destruct (lookup_c a l); reflexivity.
Qed.

Lemma NoDup_snoc {A} (l : list A) x : NoDup l -> ~ In x l -> NoDup (l ++ [x]).
Proof.
  induction 1 as [|y l Hy Hl IH]; cbn; intro Hx.
  - constructor; [intros []|constructor].
  - constructor.
    + intro H2. apply in_app_or in H2. destruct H2 as [H2|[H2|[]]]; [contradiction|].
      subst. apply Hx. left. reflexivity.
    + apply IH. intro H2. apply Hx. right. exact H2.
Qed.

Lemma merge_one_nodup l c : NoDup (attrs_of l) -> NoDup (attrs_of (merge_one l c)).
Proof.
  intro H. unfold merge_one. destruct (replace_first c l) as [m|] eqn:R.
  - destruct (replace_first_some _ _ _ R) as [E _]. rewrite E. exact H.
  - apply replace_first_none in R. unfold attrs_of. rewrite map_app. cbn.
    apply NoDup_snoc; assumption.
Qed.

Lemma merge_one_in l c x : In x (merge_one l c) -> x = c \/ In x l.
Proof.
  unfold merge_one. destruct (replace_first c l) as [m|] eqn:R.
  - apply (replace_first_some _ _ _ R).
  - intro H. apply in_app_or in H. destruct H as [H|[H|[]]]; [right; exact H|left; symmetry; exact H].
Qed.

(* MergeParent read as a map: own definition (its last entry for the attribute) else parent;
   holds for every pair of lists *)
Lemma merge_parent_lookup own : forall parent a,
  lookup_c a (merge_parent own parent) =
  match level_def a own with Some v => Some v | None => lookup_c a parent end.
Proof.
  unfold merge_parent. induction own as [|c r IH]; intros parent a; cbn [fold_left level_def].
  - reflexivity.
  - rewrite IH. destruct (level_def a r); [reflexivity|].
    rewrite merge_one_lookup. destruct (str_eqb (c_attr c) a); reflexivity.
Qed.

Lemma merge_parent_nodup own : forall parent,
  NoDup (attrs_of parent) -> NoDup (attrs_of (merge_parent own parent)).
Proof.
  unfold merge_parent. induction own as [|c r IH]; intros parent H; cbn [fold_left]; [exact H|].
  apply IH. apply merge_one_nodup. exact H.
Qed.

Lemma merge_parent_in own : forall parent x,
  In x (merge_parent own parent) -> In x own \/ In x parent.
Proof.
  unfold merge_parent. induction own as [|c r IH]; intros parent x H; cbn [fold_left] in H.
  - right. exact H.
  - destruct (IH _ _ H) as [H1|H1]; [left; right; exact H1|].
    destruct (merge_one_in _ _ _ H1) as [H2|H2]; [left; left; symmetry; exact H2|right; exact H2].
Qed.

(* in a list that names every attribute once, first entry = last entry *)
Lemma nodup_lookup_level_def a l : NoDup (attrs_of l) -> lookup_c a l = level_def a l.
Proof.
  induction l as [|c r IH]; cbn; intro H; [reflexivity|].
  inversion H as [|x xs Hx Hr]; subst. rewrite <- (IH Hr).
  destruct (str_eqb (c_attr c) a) eqn:E.
  - apply str_eqb_spec in E. subst a.
    assert (N : lookup_c (c_attr c) r = None) by (apply lookup_c_none; exact Hx).
    rewrite N. reflexivity.
  - destruct (lookup_c a r); reflexivity.
Qed.

Lemma nodupb_NoDup (l : list str) : nodupb str_eqb l = true <-> NoDup l.
Proof.
  induction l as [|x r IH]; cbn.
  - split; [constructor|reflexivity].
  - rewrite andb_true_iff, negb_true_iff, IH. split.
    + intros [H1 H2]. constructor; [|exact H2]. intro Hin.
      assert (E : existsb (str_eqb x) r = true).
      { apply existsb_exists. exists x. split; [exact Hin|apply str_eqb_refl]. }
      congruence.
    + intro H. inversion H as [|y ys Hy Hr]; subst. split; [|exact Hr].
      destruct (existsb (str_eqb x) r) eqn:E; [|reflexivity].
      apply existsb_exists in E. destruct E as [y [Hy1 Hy2]]. apply str_eqb_spec in Hy2. subst y.
      contradiction.
Qed.

Lemma nodup_attrs_NoDup l : nodup_attrs l = true <-> NoDup (attrs_of l).
Proof. apply nodupb_NoDup. Qed.

Lemma nearest_app a l1 l2 :
  nearest a (l1 ++ l2) = match nearest a l1 with Some v => Some v | None => nearest a l2 end.
Proof.
  induction l1 as [|l r IH]; cbn; [reflexivity|].
  destruct (level_def a l); [reflexivity|apply IH].
Qed.

(* getConstraints (repaired C05-e): for every depth and every list, the result names no attribute
   twice and reads as "nearest definition" *)
Lemma get_constraints_nearest levels :
  NoDup (attrs_of (get_constraints levels)) /\
  forall a, lookup_c a (get_constraints levels) = nearest a levels.
Proof.
  induction levels as [|l r [IH1 IH2]]; cbn [get_constraints nearest].
  - split; [constructor|reflexivity].
  - split; [apply merge_parent_nodup; exact IH1|].
    intro a. rewrite merge_parent_lookup, IH2. reflexivity.
Qed.

Lemma get_constraints_in levels x :
  In x (get_constraints levels) -> exists l, In l levels /\ In x l.
Proof.
  induction levels as [|l r IH]; cbn [get_constraints]; intro H; [destruct H|].
  destruct (merge_parent_in _ _ _ H) as [H1|H1].
  - exists l. split; [left; reflexivity|exact H1].
  - destruct (IH H1) as [l' [A B]]. exists l'. split; [right; exact A|exact B].
Qed.

(* BuildDescriptorConstraints *)
Lemma desc_constraints_nearest levels k :
  match k with Some kc => NoDup (attrs_of kc) | None => True end ->
  NoDup (attrs_of (desc_constraints levels k)) /\
  forall a, lookup_c a (desc_constraints levels k) = nearest a (all_levels levels k).
Proof.
  intros Hk. destruct (get_constraints_nearest levels) as [G1 G2].
  destruct k as [kc|]; cbn [desc_constraints all_levels].
  - split.
    + apply merge_parent_nodup. exact Hk.
    + intro a. rewrite merge_parent_lookup.
      rewrite <- (nodup_lookup_level_def _ _ G1). rewrite G2.
      rewrite nearest_app. destruct (nearest a levels); [reflexivity|].
      cbn. rewrite (nodup_lookup_level_def _ _ Hk). destruct (level_def a kc); reflexivity.
  - split; [exact G1|exact G2].
Qed.

Lemma desc_constraints_in levels k x :
  In x (desc_constraints levels k) -> exists l, In l (all_levels levels k) /\ In x l.
Proof.
  destruct k as [kc|]; cbn [desc_constraints all_levels]; intro H.
  - destruct (merge_parent_in _ _ _ H) as [H1|H1].
    + destruct (get_constraints_in _ _ H1) as [l [A B]]. exists l. split; [|exact B].
      apply in_or_app. left. exact A.
    + exists kc. split; [|exact H1]. apply in_or_app. right. left. reflexivity.
  - apply get_constraints_in. exact H.
Qed.

Lemma lookup_c_in a l v :
  lookup_c a l = Some v -> exists c, In c l /\ c_attr c = a /\ c_val c = v.
Proof.
  induction l as [|c r IH]; cbn; [discriminate|].
  destruct (str_eqb (c_attr c) a) eqn:E.
  - intro H. inversion H; subst. apply str_eqb_spec in E. exists c. auto.
  - intro H. destruct (IH H) as [c' [A B]]. exists c'. auto.
Qed.

Lemma level_def_in a l v :
  level_def a l = Some v -> exists c, In c l /\ c_attr c = a /\ c_val c = v.
Proof.
  induction l as [|c r IH]; cbn; [discriminate|].
  destruct (level_def a r) as [w|] eqn:E.
  - intro H. inversion H; subst w. destruct (IH eq_refl) as [c' [A B]]. exists c'. auto.
  - destruct (str_eqb (c_attr c) a) eqn:E2; [|discriminate].
    intro H. inversion H; subst. apply str_eqb_spec in E2. exists c. auto.
Qed.

Lemma sat1_ext a c c' : c_attr c = c_attr c' -> c_val c = c_val c' -> sat1 a c = sat1 a c'.
Proof. intros E1 E2. unfold sat1. rewrite E1, E2. reflexivity. Qed.

(* entries of the parent whose attribute the child does not name survive the merge *)
Lemma replace_first_keeps c l m x :
  replace_first c l = Some m -> In x l -> c_attr x <> c_attr c -> In x m.
Proof.
  revert m. induction l as [|p r IH]; cbn; intros m H Hin Hne; [destruct Hin|].
  destruct (str_eqb (c_attr c) (c_attr p)) eqn:E.
  - inversion H; subst m. apply str_eqb_spec in E. destruct Hin as [Hin|Hin].
    + subst p. congruence.
    + right. exact Hin.
  - destruct (replace_first c r) as [r'|] eqn:R; [|discriminate]. inversion H; subst m.
    destruct Hin as [Hin|Hin]; [left; exact Hin|right; apply (IH r' eq_refl Hin Hne)].
Qed.

Lemma merge_one_keeps l c x : In x l -> c_attr x <> c_attr c -> In x (merge_one l c).
Proof.
  intros Hin Hne. unfold merge_one. destruct (replace_first c l) as [m|] eqn:R.
  - apply (replace_first_keeps _ _ _ _ R Hin Hne).
  - apply in_or_app. left. exact Hin.
Qed.

Lemma merge_parent_keeps own : forall parent x,
  In x parent -> ~ In (c_attr x) (attrs_of own) -> In x (merge_parent own parent).
Proof.
  unfold merge_parent. induction own as [|c r IH]; intros parent x Hin Hn; cbn [fold_left]; [exact Hin|].
  apply IH.
  - apply merge_one_keeps; [exact Hin|]. intro E. apply Hn. left. symmetry. exact E.
  - intro H. apply Hn. right. exact H.
Qed.

(* whatever the class list looks like: the nearest definition of every attribute is an entry of
   the merged list *)
Lemma desc_constraints_has_nearest levels k a v :
  nearest a (all_levels levels k) = Some v ->
  exists c, In c (desc_constraints levels k) /\ c_attr c = a /\ c_val c = v.
Proof.
  destruct (get_constraints_nearest levels) as [G1 G2].
  destruct k as [kc|]; cbn [desc_constraints all_levels]; intro H.
  - rewrite nearest_app in H. destruct (nearest a levels) as [w|] eqn:En.
    + inversion H; subst w. apply lookup_c_in. rewrite merge_parent_lookup.
      rewrite <- (nodup_lookup_level_def _ _ G1), G2, En. reflexivity.
    + cbn in H. destruct (level_def a kc) as [w|] eqn:Ek; [|discriminate]. inversion H; subst w.
      destruct (level_def_in _ _ _ Ek) as [c [Hc [Ea Ev]]]. exists c. split; [|auto].
      apply merge_parent_keeps; [exact Hc|]. rewrite Ea. apply lookup_c_none. rewrite G2. exact En.
  - apply lookup_c_in. rewrite G2. exact H.
Qed.

(* the reading "first entry" still differs from "nearest" when the class list itself names an
   attribute twice (both entries are kept, so the task is only more constrained) *)
Definition w_zone : str := [122;111;110;101].
Definition w_z1 : str := [122;49].
Definition w_z2 : str := [122;50].
Definition w_z3 : str := [122;51].
Definition w_levels : list (list cstr) :=
  [[mkC w_zone w_z3 0]; [mkC w_zone w_z1 0; mkC w_zone w_z2 0]].

(* the old witness of C05-e: the top-level role names zone twice; the nearer z3 now wins *)
Lemma merge_nearest_regression :
  lookup_c w_zone (desc_constraints w_levels (Some [])) = Some w_z3 /\
  nearest w_zone (all_levels w_levels (Some [])) = Some w_z3.
Proof. vm_compute. split; reflexivity. Qed.

(* ================================================================ C. port ranges *)

Ltac bool_arith :=
  repeat match goal with
         | H : _ = true |- _ => revert H
         | H : _ = false |- _ => revert H
         end;
  repeat match goal with
         | |- context[N.leb ?a ?b] => destruct (N.leb_spec a b)
         | |- context[N.ltb ?a ?b] => destruct (N.ltb_spec a b)
         | |- context[N.eqb ?a ?b] => destruct (N.eqb_spec a b)
         end;
  cbn [andb orb negb]; intros; try discriminate; try reflexivity; try lia.

Definition rvalid (r : range) : Prop := fst r <= snd r.
Definition in1 (p : N) (r : range) : bool := (fst r <=? p) && (p <=? snd r).

Lemma inr_cons p r l : inr p (r :: l) = in1 p r || inr p l.
Proof. reflexivity. Qed.
Lemma inr_nil p : inr p [] = false.
Proof. reflexivity. Qed.
Lemma inr_app p l1 l2 : inr p (l1 ++ l2) = inr p l1 || inr p l2.
Proof. unfold inr. apply existsb_app. Qed.

Fixpoint sortedb (l : ranges) : Prop :=
  match l with
  | [] => True
  | r :: t => Forall (fun x => fst r <= fst x) t /\ sortedb t
  end.

(* canonical form: valid ranges, each later one starts beyond the end of the earlier one + 1 *)
Fixpoint canonp (l : ranges) : Prop :=
  match l with
  | [] => True
  | r :: t => rvalid r /\ Forall (fun x => snd r + 1 < fst x) t /\ canonp t
  end.

Lemma canonp_valid l : canonp l -> Forall rvalid l.
Proof.
  induction l as [|r t IH]; cbn; intro H; [constructor|].
  destruct H as [H1 [_ H3]]. constructor; [exact H1|apply IH, H3].
Qed.

Lemma canonp_sorted l : canonp l -> sortedb l.
Proof.
  induction l as [|r t IH]; cbn; intro H; [exact I|].
  destruct H as [H1 [H2 H3]]. split; [|apply IH, H3].
  eapply Forall_impl; [|exact H2]. intros x Hx. cbn in Hx. unfold rvalid in H1. lia.
Qed.

Lemma Forall_rinsert (P : range -> Prop) r l : Forall P (rinsert r l) <-> P r /\ Forall P l.
Proof.
  induction l as [|h t IH]; cbn.
  - split; [intro H; inversion H; auto|intros [H1 H2]; constructor; auto].
  - destruct (range_leb r h).
    + split; [intro H; inversion H; auto|intros [H1 H2]; constructor; auto].
    + split.
      * intro H. inversion H as [|x xs Hh Ht]; subst. apply IH in Ht. destruct Ht as [A B].
        split; [exact A|constructor; assumption].
      * intros [H1 H2]. inversion H2 as [|x xs Hh Ht]; subst. constructor; [exact Hh|].
        apply IH. split; assumption.
Qed.

Lemma rinsert_inr p r l : inr p (rinsert r l) = inr p (r :: l).
Proof.
  induction l as [|h t IH]; cbn [rinsert]; [reflexivity|].
  destruct (range_leb r h); [reflexivity|].
  rewrite inr_cons, IH, !inr_cons. rewrite !orb_assoc. f_equal. apply orb_comm.
Qed.

Lemma rsort_inr p l : inr p (rsort l) = inr p l.
Proof.
  induction l as [|r t IH]; [reflexivity|].
  change (rsort (r :: t)) with (rinsert r (rsort t)).
  rewrite rinsert_inr, !inr_cons, IH. reflexivity.
Qed.

Lemma rsort_Forall (P : range -> Prop) l : Forall P (rsort l) <-> Forall P l.
Proof.
  induction l as [|r t IH].
  - reflexivity.
  - change (rsort (r :: t)) with (rinsert r (rsort t)). rewrite Forall_rinsert, IH.
    split; [intros [A B]; constructor; assumption|intro H; inversion H; auto].
Qed.

Lemma rinsert_sorted r l : sortedb l -> sortedb (rinsert r l).
Proof.
  induction l as [|h t IH]; cbn [rinsert]; intro Hs.
  - cbn. split; [constructor|exact I].
  - destruct (range_leb r h) eqn:E.
    + cbn [sortedb]. split; [|exact Hs].
      destruct Hs as [Hs1 _].
      assert (Hrh : fst r <= fst h).
      { unfold range_leb in E. bool_arith. }
      constructor; [exact Hrh|]. eapply Forall_impl; [|exact Hs1]. intros x Hx. cbn in Hx. lia.
    + destruct Hs as [Hs1 Hs2]. cbn [sortedb]. split; [|apply IH, Hs2].
      apply Forall_rinsert. split; [|exact Hs1].
      unfold range_leb in E. bool_arith.
Qed.

Lemma rsort_sorted l : sortedb (rsort l).
Proof.
  induction l as [|r t IH]; [exact I|].
  change (rsort (r :: t)) with (rinsert r (rsort t)). apply rinsert_sorted, IH.
Qed.

Lemma squash_go_spec : forall rest cur,
  rvalid cur -> Forall rvalid rest -> Forall (fun x => fst cur <= fst x) rest -> sortedb rest ->
  canonp (squash_go cur rest) /\
  Forall (fun y => fst cur <= fst y) (squash_go cur rest) /\
  forall p, inr p (squash_go cur rest) = inr p (cur :: rest).
Proof.
  induction rest as [|x r IH]; intros cur Hc Hv Hlb Hs.
  - cbn [squash_go]. split; [|split].
    + cbn. split; [exact Hc|]. split; [constructor|exact I].
    + constructor; [lia|constructor].
    + reflexivity.
  - cbn [squash_go].
    inversion Hv as [|x0 r0 Hvx Hvr]; subst.
    inversion Hlb as [|x0 r0 Hlx Hlr]; subst.
    destruct Hs as [Hs1 Hs2]. unfold rvalid in *.
    destruct (1 + snd cur <? fst x) eqn:E1.
    + apply N.ltb_lt in E1.
      destruct (IH x Hvx Hvr Hs1 Hs2) as [A [B C]].
      split; [|split].
      * cbn [canonp]. split; [exact Hc|]. split; [|exact A].
        eapply Forall_impl; [|exact B]. intros y Hy. cbn in Hy. lia.
      * constructor; [lia|]. eapply Forall_impl; [|exact B]. intros y Hy. cbn in Hy. lia.
      * intro p. rewrite inr_cons, C. reflexivity.
    + apply N.ltb_ge in E1. destruct (snd cur <=? snd x) eqn:E2.
      * apply N.leb_le in E2.
        assert (Hc' : fst (fst cur, snd x) <= snd (fst cur, snd x)) by (cbn; lia).
        assert (Hlb' : Forall (fun y => fst (fst cur, snd x) <= fst y) r).
        { eapply Forall_impl; [|exact Hs1]. intros y Hy. cbn in *. lia. }
        destruct (IH (fst cur, snd x) Hc' Hvr Hlb' Hs2) as [A [B C]].
        split; [exact A|]. split; [exact B|].
        intro p. rewrite C, !inr_cons. rewrite orb_assoc. f_equal.
        unfold in1. cbn [fst snd]. bool_arith.
      * apply N.leb_gt in E2.
        destruct (IH cur Hc Hvr Hlr Hs2) as [A [B C]].
        split; [exact A|]. split; [exact B|].
        intro p. rewrite C, !inr_cons.
        assert (Hsub : in1 p x = true -> in1 p cur = true).
        { unfold in1. bool_arith. }
        destruct (in1 p x) eqn:Ex; [|rewrite orb_false_l; reflexivity].
        rewrite (Hsub eq_refl). reflexivity.
Qed.

Lemma squash_spec l :
  sortedb l -> Forall rvalid l -> canonp (squash l) /\ forall p, inr p (squash l) = inr p l.
Proof.
  destruct l as [|c r]; intros Hs Hv; [split; [exact I|reflexivity]|].
  cbn [squash]. destruct Hs as [Hs1 Hs2]. inversion Hv; subst.
  destruct (squash_go_spec r c) as [A [_ C]]; auto.
Qed.

Lemma canon_spec l :
  Forall rvalid l -> canonp (canon l) /\ forall p, inr p (canon l) = inr p l.
Proof.
  intro Hv. unfold canon.
  destruct (squash_spec (rsort l) (rsort_sorted l)) as [A B]; [apply rsort_Forall; exact Hv|].
  split; [exact A|]. intro p. rewrite B. apply rsort_inr.
Qed.

Lemma renorm_spec l :
  Forall rvalid l -> canonp (renorm l) /\ forall p, inr p (renorm l) = inr p l.
Proof.
  intro Hv. destruct l as [|a [|b r]].
  - split; [exact I|reflexivity].
  - cbn [renorm]. inversion Hv; subst. split; [|reflexivity]. cbn. auto.
  - change (renorm (a :: b :: r)) with (canon (a :: b :: r)). apply canon_spec. exact Hv.
Qed.

(* Remove *)
Lemma remove_raw_inr l lo hi p :
  lo <= hi -> Forall rvalid l ->
  inr p (remove_raw l lo hi) = inr p l && negb ((lo <=? p) && (p <=? hi)).
Proof.
  intro Hlh. induction l as [|[b e] r IH]; intro Hv; [reflexivity|].
  inversion Hv as [|x xs Hb Hr]; subst. unfold rvalid in Hb. cbn [fst snd] in Hb.
  cbn [remove_raw].
  destruct ((lo <=? b) && (e <=? hi)) eqn:E1.
  { rewrite (IH Hr), inr_cons. unfold in1. cbn [fst snd]. destruct (inr p r); bool_arith. }
  destruct ((b <? lo) && (hi <? e)) eqn:E2.
  { rewrite !inr_cons, (IH Hr). unfold in1. cbn [fst snd]. destruct (inr p r); bool_arith. }
  destruct ((e <? lo) || (hi <? b)) eqn:E3.
  { rewrite !inr_cons, (IH Hr). unfold in1. cbn [fst snd]. destruct (inr p r); bool_arith. }
  destruct (hi <? e) eqn:E4.
  { rewrite !inr_cons, (IH Hr). unfold in1. cbn [fst snd]. destruct (inr p r); bool_arith. }
  rewrite !inr_cons, (IH Hr). unfold in1. cbn [fst snd]. destruct (inr p r); bool_arith.
Qed.

Lemma remove_raw_lb l lo hi k :
  lo <= hi -> Forall (fun x => k < fst x) l -> Forall (fun x => k < fst x) (remove_raw l lo hi).
Proof.
  intro Hlh. induction l as [|[b e] r IH]; intro H; [constructor|].
  inversion H as [|x xs Hb Hr]; subst. cbn [fst] in Hb. cbn [remove_raw].
  destruct ((lo <=? b) && (e <=? hi)) eqn:E1; [apply IH, Hr|].
  destruct ((b <? lo) && (hi <? e)) eqn:E2.
  { constructor; [cbn; lia|]. constructor; [cbn; bool_arith|apply IH, Hr]. }
  destruct ((e <? lo) || (hi <? b)) eqn:E3; [constructor; [cbn; lia|apply IH, Hr]|].
  destruct (hi <? e) eqn:E4.
  { constructor; [cbn; bool_arith|apply IH, Hr]. }
  constructor; [cbn; lia|apply IH, Hr].
Qed.

Lemma remove_raw_canon l lo hi : lo <= hi -> canonp l -> canonp (remove_raw l lo hi).
Proof.
  intro Hlh. induction l as [|[b e] r IH]; intro H; [exact I|].
  cbn [canonp] in H. destruct H as [Hv [Hgap Hc]]. unfold rvalid in Hv. cbn [fst snd] in *.
  cbn [remove_raw].
  destruct ((lo <=? b) && (e <=? hi)) eqn:E1; [apply IH, Hc|].
  destruct ((b <? lo) && (hi <? e)) eqn:E2.
  { cbn [canonp]. unfold rvalid. cbn [fst snd]. split; [bool_arith|]. split.
    - constructor; [cbn; bool_arith|]. apply remove_raw_lb; [exact Hlh|].
      eapply Forall_impl; [|exact Hgap]. intros x Hx. cbn in Hx. bool_arith.
    - split; [bool_arith|]. split; [|apply IH, Hc].
      apply remove_raw_lb; [exact Hlh|exact Hgap]. }
  destruct ((e <? lo) || (hi <? b)) eqn:E3.
  { cbn [canonp]. unfold rvalid. cbn [fst snd]. split; [exact Hv|]. split; [|apply IH, Hc].
    apply remove_raw_lb; [exact Hlh|exact Hgap]. }
  destruct (hi <? e) eqn:E4.
  { cbn [canonp]. unfold rvalid. cbn [fst snd]. split; [bool_arith|]. split; [|apply IH, Hc].
    apply remove_raw_lb; [exact Hlh|exact Hgap]. }
  cbn [canonp]. unfold rvalid. cbn [fst snd]. split; [bool_arith|]. split; [|apply IH, Hc].
  apply remove_raw_lb; [exact Hlh|].
  eapply Forall_impl; [|exact Hgap]. intros x Hx. cbn in Hx. bool_arith.
Qed.

Lemma rremove_spec a lo hi :
  lo <= hi -> canonp a ->
  canonp (rremove a lo hi) /\
  forall p, inr p (rremove a lo hi) = inr p a && negb ((lo <=? p) && (p <=? hi)).
Proof.
  intros Hlh Hc. unfold rremove.
  pose proof (remove_raw_canon a lo hi Hlh Hc) as Hrc.
  destruct (squash_spec (remove_raw a lo hi) (canonp_sorted _ Hrc) (canonp_valid _ Hrc)) as [A B].
  split; [exact A|]. intro p. rewrite B. apply remove_raw_inr; [exact Hlh|]. apply canonp_valid. exact Hc.
Qed.

Lemma rmin_in a p : canonp a -> rmin a = Some p -> inr p a = true.
Proof.
  destruct a as [|[b e] r]; cbn [rmin]; [discriminate|].
  intros [Hv _] H. inversion H; subst. unfold rvalid in Hv. cbn [fst snd] in Hv.
  rewrite inr_cons. unfold in1. cbn [fst snd]. bool_arith.
Qed.

(* ---- the "ports" resource ---- *)
Definition pvalid (pr : portres) : Prop :=
  match pr with Some raw => Forall rvalid raw | None => True end.
Definition pmem (p : N) (pr : portres) : bool :=
  match pr with Some raw => inr p raw | None => false end.

Lemma ports_of_spec pr av :
  pvalid pr -> ports_of pr = Some av -> canonp av /\ forall p, inr p av = pmem p pr.
Proof.
  destruct pr as [raw|]; cbn [ports_of pvalid pmem]; intros Hv H; [|discriminate].
  inversion H; subst av. destruct raw as [|r t].
  - split; [exact I|reflexivity].
  - apply canon_spec. exact Hv.
Qed.

Lemma ports_of_none pr : ports_of pr = None -> pr = None.
Proof. destruct pr; cbn; [discriminate|reflexivity]. Qed.

Lemma subtract_port_spec pr q :
  pvalid pr ->
  pvalid (subtract_port pr q) /\
  forall p, pmem p (subtract_port pr q) = pmem p pr && negb (N.eqb p q).
Proof.
  destruct pr as [raw|]; cbn [subtract_port pvalid pmem]; intro Hv; [|split; [exact I|reflexivity]].
  destruct (renorm_spec raw Hv) as [A B].
  destruct (rremove_spec (renorm raw) q q (N.le_refl q) A) as [C D].
  assert (Heq : forall p, inr p (rremove (renorm raw) q q) = inr p raw && negb (N.eqb p q)).
  { intro p. rewrite D, B. f_equal. bool_arith. }
  destruct (rremove (renorm raw) q q) as [|x xs] eqn:ER.
  - split; [exact I|]. intro p. cbn [pmem]. rewrite <- Heq. reflexivity.
  - split; [cbn [pvalid]; apply canonp_valid; exact C|]. intro p. cbn [pmem]. apply Heq.
Qed.

(* ================================================================ D. Resources.Satisfy *)

Lemma in1_within p a b : within a b = true -> in1 p a = true -> in1 p b = true.
Proof. unfold within, in1. bool_arith. Qed.

(* Compare = "subset" really means: every port of x is a port of y *)
Lemma rcompare_subset x y :
  Forall rvalid x -> Forall rvalid y -> rcompare x y = 1 ->
  forall p, inr p x = true -> inr p y = true.
Proof.
  intros Hx Hy H p Hp. unfold rcompare in H.
  destruct (ranges_eqb (renorm x) (renorm y)); [discriminate|].
  destruct (forallb (fun a => existsb (within a) (renorm y)) (renorm x)) eqn:F; [|discriminate].
  rewrite <- (proj2 (renorm_spec x Hx)) in Hp. rewrite <- (proj2 (renorm_spec y Hy)).
  unfold inr in *. apply existsb_exists in Hp. destruct Hp as [a [Ha Hpa]].
  rewrite forallb_forall in F. specialize (F a Ha). apply existsb_exists in F.
  destruct F as [b [Hb Hab]]. apply existsb_exists. exists b. split; [exact Hb|].
  apply (in1_within p a b Hab Hpa).
Qed.

Lemma mul_div_le_1000 m : (m / 1000) * 1000 <= m.
Proof. rewrite N.mul_comm. apply N.mul_div_le. discriminate. Qed.

(* what a positive answer of Resources.Satisfy guarantees *)
Lemma res_satisfy_sound cpu mem pr wc wm static n :
  pvalid pr -> res_satisfy cpu mem pr wc wm static n = true ->
  (exists c, cpu = Some c /\ wc <= c) /\
  (exists m, mem = Some m /\ wm <= m) /\
  (exists av, ports_of pr = Some av /\ n <= rsize av - rsize (canon static)) /\
  (Forall rvalid static -> forall p, inr p static = true -> pmem p pr = true).
Proof.
  intros Hv H. unfold res_satisfy in H.
  destruct cpu as [c|]; [|discriminate].
  destruct (c <? wc) eqn:Ec; [discriminate|]. apply N.ltb_ge in Ec.
  destruct mem as [m|]; [|discriminate].
  destruct ((m / 1000) * 1000 <? wm) eqn:Em; [discriminate|]. apply N.ltb_ge in Em.
  destruct (ports_of pr) as [av|] eqn:Ep; [|discriminate].
  destruct (negb (N.eqb (rcompare (canon static) av) 1)) eqn:Er; [discriminate|].
  apply negb_false_iff in Er. apply N.eqb_eq in Er.
  destruct (rsize av - rsize (canon static) <? n) eqn:En; [discriminate|]. apply N.ltb_ge in En.
  destruct (ports_of_spec pr av Hv Ep) as [Cav Mav].
  split; [exists c; split; [reflexivity|exact Ec]|].
  split; [exists m; split; [reflexivity|]|].
  { pose proof (mul_div_le_1000 m). lia. }
  split; [exists av; split; [reflexivity|exact En]|].
  intros Hs p Hp. destruct (canon_spec static Hs) as [Cs Ms].
  rewrite <- Mav. apply (rcompare_subset (canon static) av).
  - apply canonp_valid. exact Cs.
  - apply canonp_valid. exact Cav.
  - exact Er.
  - rewrite Ms. exact Hp.
Qed.

(* ================================================================ E. makeTaskForMesosResources *)

Definition picked (t : task) : list N := map snd (t_dyn t) ++ [t_ctl t].
Definition all_picked (ts : list task) : list N := flat_map picked ts.

Lemma memN_In p l : memN p l = true <-> In p l.
Proof.
  unfold memN. rewrite existsb_exists. split.
  - intros [x [Hx E]]. apply N.eqb_eq in E. subst. exact Hx.
  - intro H. exists p. split; [exact H|apply N.eqb_refl].
Qed.

Lemma memN_cons p q l : memN p (q :: l) = N.eqb p q || memN p l.
Proof. reflexivity. Qed.

Lemma memN_app p l1 l2 : memN p (l1 ++ l2) = memN p l1 || memN p l2.
Proof. unfold memN. apply existsb_app. Qed.

Lemma pmem_none p : pmem p None = false.
Proof. reflexivity. Qed.

(* ---- Resources.Subtract on the ports resource ---- *)
Lemma valid_ranges_Forall rs : valid_ranges rs = true <-> Forall rvalid rs.
Proof.
  unfold valid_ranges. rewrite forallb_forall, Forall_forall. split; intros H r Hr.
  - apply N.leb_le. apply (H r Hr).
  - apply N.leb_le. apply (H r Hr).
Qed.

Lemma fold_rremove_spec : forall rs a, canonp a -> Forall rvalid rs ->
  canonp (fold_left (fun a r => rremove a (fst r) (snd r)) rs a) /\
  forall p, inr p (fold_left (fun a r => rremove a (fst r) (snd r)) rs a) = inr p a && negb (inr p rs).
Proof.
  induction rs as [|r rs IH]; intros a Ha Hv; cbn [fold_left].
  - split; [exact Ha|]. intro p. cbn. rewrite andb_true_r. reflexivity.
  - inversion Hv as [|x xs Hr Hrs]; subst.
    destruct (rremove_spec a (fst r) (snd r) Hr Ha) as [C M].
    destruct (IH _ C Hrs) as [C2 M2]. split; [exact C2|].
    intro p. rewrite M2, M, inr_cons, negb_orb, andb_assoc. reflexivity.
Qed.

Lemma subtract_ranges_spec pr rs :
  pvalid pr ->
  pvalid (subtract_ranges pr rs) /\
  (forall p, pmem p (subtract_ranges pr rs) = true -> pmem p pr = true) /\
  (Forall rvalid rs -> forall p, pmem p (subtract_ranges pr rs) = pmem p pr && negb (inr p rs)).
Proof.
  destruct pr as [raw|]; cbn [subtract_ranges pvalid]; intro Hv.
  2:{ split; [exact I|]. split; [auto|]. intros _ p. reflexivity. }
  destruct rs as [|r0 rs0].
  { split; [exact Hv|]. split; [auto|]. intros _ p. cbn. rewrite andb_true_r. reflexivity. }
  destruct (valid_ranges (r0 :: rs0)) eqn:Ev.
  - apply valid_ranges_Forall in Ev. destruct (renorm_spec raw Hv) as [A B].
    destruct (fold_rremove_spec (r0 :: rs0) (renorm raw) A Ev) as [C M].
    assert (Heq : forall p, inr p (fold_left (fun a r => rremove a (fst r) (snd r)) (r0 :: rs0) (renorm raw))
                            = inr p raw && negb (inr p (r0 :: rs0))).
    { intro p. rewrite M, B. reflexivity. }
    destruct (fold_left (fun a r => rremove a (fst r) (snd r)) (r0 :: rs0) (renorm raw)) as [|x xs] eqn:EF.
    + split; [exact I|]. split; [intros p H; discriminate|]. intros _ p. cbn [pmem]. rewrite <- Heq. reflexivity.
    + split; [cbn [pvalid]; apply canonp_valid; exact C|]. split.
      * intros p H. cbn [pmem] in *. rewrite Heq in H. apply andb_true_iff in H. apply H.
      * intros _ p. cbn [pmem]. apply Heq.
  - split; [exact Hv|]. split; [auto|]. intros Hf. apply valid_ranges_Forall in Hf. congruence.
Qed.

Lemma alloc_dyn_spec : forall chans pr pr' dyn,
  pvalid pr -> alloc_dyn chans pr = AOk pr' dyn ->
  pvalid pr' /\
  (forall p, pmem p pr' = pmem p pr && negb (memN p (map snd dyn))) /\
  NoDup (map snd dyn) /\
  (forall p, In p (map snd dyn) -> pmem p pr = true /\ data_port_floor < p) /\
  map fst dyn = map ch_name (filter ch_tcp chans).
Proof.
  induction chans as [|c r IH]; intros pr pr' dyn Hv H; cbn [alloc_dyn] in H.
  - inversion H; subst. cbn. split; [exact Hv|]. split; [intro p; rewrite andb_true_r; reflexivity|].
    split; [constructor|]. split; [intros p []|reflexivity].
  - cbn [filter]. destruct (ch_tcp c) eqn:Et.
    + destruct (ports_of pr) as [av|] eqn:Ep; [|discriminate].
      destruct (rmin (rremove av 0 data_port_floor)) as [q|] eqn:Eq; [|discriminate].
      destruct (alloc_dyn r (subtract_port pr q)) as [pr2 dyn2|pr2] eqn:Ea; try discriminate.
      inversion H; subst pr' dyn. clear H.
      destruct (ports_of_spec pr av Hv Ep) as [Cav Mav].
      destruct (rremove_spec av 0 data_port_floor (N.le_0_l _) Cav) as [Cr Mr].
      pose proof (rmin_in _ _ Cr Eq) as Hq. rewrite Mr in Hq.
      apply andb_true_iff in Hq. destruct Hq as [Hq1 Hq2]. rewrite Mav in Hq1.
      assert (Hqf : data_port_floor < q).
      { revert Hq2. bool_arith. }
      destruct (subtract_port_spec pr q Hv) as [Vs Ms].
      destruct (IH _ _ _ Vs Ea) as [V2 [M2 [N2 [I2 F2]]]].
      split; [exact V2|]. cbn [map fst snd].
      split.
      { intro p. rewrite M2, Ms, memN_cons, negb_orb, !andb_assoc. reflexivity. }
      split.
      { constructor; [|exact N2]. intro Hin. destruct (I2 q Hin) as [X _].
        rewrite Ms, N.eqb_refl in X. cbn in X. rewrite andb_false_r in X. discriminate. }
      split.
      { intros p [Hp|Hp]; [subst p; split; assumption|].
        destruct (I2 p Hp) as [X Y]. rewrite Ms in X. apply andb_true_iff in X.
        split; [apply X|exact Y]. }
      f_equal. exact F2.
    + apply (IH _ _ _ Hv H).
Qed.

(* giving up leaves a well-formed remainder that is part of what was there *)
Lemma alloc_dyn_fail : forall chans pr pr',
  pvalid pr -> alloc_dyn chans pr = AFail pr' ->
  pvalid pr' /\ forall p, pmem p pr' = true -> pmem p pr = true.
Proof.
  induction chans as [|c r IH]; intros pr pr' Hv H; cbn [alloc_dyn] in H; [discriminate|].
  destruct (ch_tcp c).
  - destruct (ports_of pr) as [av|] eqn:Ep.
    + destruct (rmin (rremove av 0 data_port_floor)) as [q|] eqn:Eq.
      * destruct (alloc_dyn r (subtract_port pr q)) as [pr2 dyn2|pr2] eqn:Ea; [discriminate|].
        inversion H; subst pr2. destruct (subtract_port_spec pr q Hv) as [Vs Ms].
        destruct (IH _ _ Vs Ea) as [V M]. split; [exact V|].
        intros p Hp. specialize (M p Hp). rewrite Ms in M. apply andb_true_iff in M. apply M.
      * inversion H; subst. auto.
    + inversion H; subst. auto.
  - apply (IH _ _ Hv H).
Qed.

Lemma inr_spans p l : inr p (map span1 l) = memN p l.
Proof.
  induction l as [|q r IH]; [reflexivity|].
  cbn [map]. rewrite inr_cons, memN_cons, IH. f_equal. unfold in1, span1. cbn [fst snd]. bool_arith.
Qed.

Lemma spans_valid l : Forall rvalid (map span1 l).
Proof. induction l; constructor; [apply N.le_refl|assumption]. Qed.

(* everything a successfully built task guarantees about the ports, relative to what was left *)
Definition built (k : klass) (pr pr' : portres) (t : task) : Prop :=
  pvalid pr' /\
  (forall p, pmem p pr' = true -> pmem p pr = true /\ ~ In p (picked t)) /\
  (Forall rvalid (k_static k) -> forall p, pmem p pr' = true -> inr p (k_static k) = false) /\
  NoDup (picked t) /\
  (forall p, In p (picked t) -> pmem p pr = true) /\
  (Forall rvalid (k_static k) -> forall p, In p (picked t) -> inr p (k_static k) = false) /\
  (forall p, In p (map snd (t_dyn t)) -> data_port_floor < p) /\
  control_port_floor < t_ctl t.

Definition shaped (exec : N * N) (o : offer) (d : desc) (k : klass) (chans : list chan) (t : task) : Prop :=
  t_desc t = d /\
  map fst (t_dyn t) = map ch_name (filter ch_tcp chans) /\
  t_handed t = (if k_controllable k then Some (t_ctl t) else None) /\
  t_req t = canon (k_static k ++ map span1 (picked t)) /\
  t_cpu t = k_cpu k + fst exec /\ t_mem t = k_mem k + snd exec /\
  t_reuse t = (0 <? o_execs o).

Lemma alloc_dyn_names : forall chans pr pr' dyn,
  alloc_dyn chans pr = AOk pr' dyn -> map fst dyn = map ch_name (filter ch_tcp chans).
Proof.
  induction chans as [|c r IH]; intros pr pr' dyn H; cbn [alloc_dyn] in H.
  - inversion H; subst. reflexivity.
  - cbn [filter]. destruct (ch_tcp c) eqn:Et.
    + destruct (ports_of pr) as [av|] eqn:Ep; [|discriminate].
      destruct (rmin (rremove av 0 data_port_floor)) as [q|] eqn:Eq; [|discriminate].
      destruct (alloc_dyn r (subtract_port pr q)) as [pr2 dyn2|pr2] eqn:Ea; try discriminate.
      inversion H; subst pr' dyn. cbn [map fst]. f_equal. apply (IH _ _ _ Ea).
    + apply (IH _ _ _ H).
Qed.

Lemma make_task_shape exec o d k chans pr cpu mem pr' cpu' mem' t :
  make_task exec o d k chans pr cpu mem = MkOk pr' cpu' mem' t -> shaped exec o d k chans t /\
  cpu' = subtract_scalar cpu (t_cpu t) /\ mem' = subtract_scalar mem (t_mem t) /\
  exists pr1, alloc_dyn chans (subtract_ranges pr (canon (k_static k))) = AOk pr1 (t_dyn t) /\
    exists av, ports_of pr1 = Some av /\ rmin (rremove av 0 control_port_floor) = Some (t_ctl t) /\
    pr' = subtract_ranges (subtract_port pr1 (t_ctl t)) (t_req t).
Proof.
  unfold make_task. intro H.
  destruct (alloc_dyn chans (subtract_ranges pr (canon (k_static k)))) as [pr1 dyn|pr1] eqn:Ea; try discriminate.
  destruct (ports_of pr1) as [av|] eqn:Ep; [|discriminate].
  destruct (rmin (rremove av 0 control_port_floor)) as [cp|] eqn:Ec; [|discriminate].
  inversion H; subst pr' cpu' mem' t. clear H.
  split.
  - unfold shaped, picked. cbn [t_dyn t_ctl t_desc t_handed t_req t_cpu t_mem t_reuse].
    split; [reflexivity|]. split; [apply (alloc_dyn_names _ _ _ _ Ea)|].
    split; [reflexivity|]. split; [rewrite map_app, map_map; reflexivity|].
    repeat split; reflexivity.
  - cbn [t_dyn t_ctl t_cpu t_mem t_req]. split; [reflexivity|]. split; [reflexivity|].
    exists pr1. split; [reflexivity|]. exists av. repeat split; assumption.
Qed.

Lemma static_removed pr st :
  pvalid pr -> Forall rvalid st ->
  forall p, pmem p (subtract_ranges pr (canon st)) = pmem p pr && negb (inr p st).
Proof.
  intros Hv Hs p. destruct (canon_spec st Hs) as [C M].
  destruct (subtract_ranges_spec pr (canon st) Hv) as [_ [_ X]].
  rewrite (X (canonp_valid _ C) p), M. reflexivity.
Qed.

Lemma make_task_built exec o d k chans pr cpu mem pr' cpu' mem' t :
  pvalid pr -> make_task exec o d k chans pr cpu mem = MkOk pr' cpu' mem' t -> built k pr pr' t.
Proof.
  intros Hv H.
  destruct (make_task_shape _ _ _ _ _ _ _ _ _ _ _ _ H) as [_ [_ [_ [pr1 [Ea [av [Ep [Ec Epr]]]]]]]].
  destruct (subtract_ranges_spec pr (canon (k_static k)) Hv) as [V0 [S0 _]].
  destruct (alloc_dyn_spec _ _ _ _ V0 Ea) as [V1 [M1 [N1 [I1 _]]]].
  destruct (ports_of_spec pr1 av V1 Ep) as [Cav Mav].
  destruct (rremove_spec av 0 control_port_floor (N.le_0_l _) Cav) as [Cr Mr].
  pose proof (rmin_in _ _ Cr Ec) as Hq. rewrite Mr in Hq.
  apply andb_true_iff in Hq. destruct Hq as [Hq1 Hq2]. rewrite Mav in Hq1.
  assert (Hqf : control_port_floor < t_ctl t).
  { revert Hq2. bool_arith. }
  destruct (subtract_port_spec pr1 (t_ctl t) V1) as [Vs Ms].
  destruct (subtract_ranges_spec (subtract_port pr1 (t_ctl t)) (t_req t) Vs) as [V3 [S3 _]].
  subst pr'.
  (* a port still there at the end was there after the control port was taken *)
  assert (Hback : forall p, pmem p (subtract_ranges (subtract_port pr1 (t_ctl t)) (t_req t)) = true ->
                            pmem p (subtract_ranges pr (canon (k_static k))) = true /\ ~ In p (picked t)).
  { intros p Hp. specialize (S3 p Hp). rewrite Ms, M1 in S3.
    apply andb_true_iff in S3. destruct S3 as [S3 S4]. apply andb_true_iff in S3. destruct S3 as [S5 S6].
    split; [exact S5|]. unfold picked. intro Hin. apply in_app_or in Hin. destruct Hin as [Hin|[Hin|[]]].
    - apply memN_In in Hin. rewrite Hin in S6. discriminate.
    - subst p. rewrite N.eqb_refl in S4. discriminate. }
  assert (Hpick : forall p, In p (picked t) -> pmem p (subtract_ranges pr (canon (k_static k))) = true).
  { intros p Hp. unfold picked in Hp. apply in_app_or in Hp. destruct Hp as [Hp|[Hp|[]]].
    - apply (I1 p Hp).
    - subst p. rewrite M1 in Hq1. apply andb_true_iff in Hq1. apply Hq1. }
  unfold built.
  split; [exact V3|]. split.
  { intros p Hp. destruct (Hback p Hp) as [A B]. split; [apply S0; exact A|exact B]. }
  split.
  { intros Hs p Hp. destruct (Hback p Hp) as [A _]. rewrite (static_removed pr _ Hv Hs) in A.
    apply andb_true_iff in A. destruct A as [_ A]. apply negb_true_iff in A. exact A. }
  split.
  { unfold picked. apply NoDup_snoc; [exact N1|]. intro Hin. rewrite M1 in Hq1.
    apply andb_true_iff in Hq1. destruct Hq1 as [_ X]. apply negb_true_iff in X.
    apply memN_In in Hin. congruence. }
  split; [intros p Hp; apply S0, Hpick, Hp|].
  split.
  { intros Hs p Hp. pose proof (Hpick p Hp) as A. rewrite (static_removed pr _ Hv Hs) in A.
    apply andb_true_iff in A. destruct A as [_ A]. apply negb_true_iff in A. exact A. }
  split; [intros p Hp; apply (I1 p Hp)|exact Hqf].
Qed.

Lemma make_task_fail exec o d k chans pr cpu mem pr' :
  pvalid pr -> make_task exec o d k chans pr cpu mem = MkFail pr' ->
  pvalid pr' /\ forall p, pmem p pr' = true -> pmem p pr = true.
Proof.
  intros Hv H. unfold make_task in H.
  destruct (subtract_ranges_spec pr (canon (k_static k)) Hv) as [V0 [S0 _]].
  destruct (alloc_dyn chans (subtract_ranges pr (canon (k_static k)))) as [pr1 dyn|pr1] eqn:Ea.
  - destruct (alloc_dyn_spec _ _ _ _ V0 Ea) as [V1 [M1 _]].
    assert (X : pvalid pr1 /\ forall p, pmem p pr1 = true -> pmem p pr = true).
    { split; [exact V1|]. intros p Hp. rewrite M1 in Hp. apply andb_true_iff in Hp. apply S0, Hp. }
    destruct (ports_of pr1) as [av|]; [|inversion H; subst; exact X].
    destruct (rmin (rremove av 0 control_port_floor)); [discriminate|inversion H; subst; exact X].
  - inversion H; subst pr1. destruct (alloc_dyn_fail _ _ _ V0 Ea) as [V M].
    split; [exact V|]. intros p Hp. apply S0, M, Hp.
Qed.

(* the requested ports of a task are exactly its static ranges, its dynamic ports and the
   control port *)
Lemma shaped_req exec o d k chans t :
  shaped exec o d k chans t -> Forall rvalid (k_static k) ->
  forall p, inr p (t_req t) = inr p (k_static k) || memN p (picked t).
Proof.
  intros [_ [_ [_ [Hr _]]]] Hs p. rewrite Hr.
  assert (Hv : Forall rvalid (k_static k ++ map span1 (picked t))).
  { apply Forall_app. split; [exact Hs|apply spans_valid]. }
  rewrite (proj2 (canon_spec _ Hv)), inr_app, inr_spans. reflexivity.
Qed.

(* ================================================================ F. the offer loops *)

Definition static_of_task (t : task) : ranges :=
  match d_class (t_desc t) with Some k => k_static k | None => [] end.

(* a port a task holds: one of its dynamic ports, its control port, or - when its static ranges
   are well formed - one of its static ports *)
Definition claimed (p : N) (t : task) : Prop :=
  In p (picked t) \/ (Forall rvalid (static_of_task t) /\ inr p (static_of_task t) = true).

Definition disjoint_claims (t1 t2 : task) : Prop := forall p, claimed p t1 -> ~ claimed p t2.

(* what holds for a launched task whatever the port ranges look like *)
Definition task_base (exec : N * N) (o : offer) (t : task) : Prop :=
  satisfy (o_attrs o) (d_constraints (t_desc t)) = true /\
  exists k, d_class (t_desc t) = Some k /\
    (exists c, o_cpu o = Some c /\ k_cpu k <= c) /\
    (exists m, o_mem o = Some m /\ k_mem k <= m) /\
    shaped exec o (t_desc t) k (merge_inbound (d_rbind (t_desc t)) (k_bind k)) t.

(* what holds in addition when the offer's port ranges are well formed (begin <= end) *)
Definition task_ports (o : offer) (t : task) : Prop :=
  (forall p, In p (picked t) -> pmem p (o_ports o) = true) /\
  (forall p, In p (map snd (t_dyn t)) -> data_port_floor < p) /\
  control_port_floor < t_ctl t /\
  NoDup (picked t) /\
  (forall p, claimed p t -> pmem p (o_ports o) = true) /\
  (Forall rvalid (static_of_task t) -> forall p, In p (picked t) -> inr p (static_of_task t) = false).

Record ports_inv (o : offer) (st : ost) : Prop := mkPI {
  pi_valid : pvalid (s_rem st);
  pi_sub : forall p, pmem p (s_rem st) = true -> pmem p (o_ports o) = true;
  pi_fresh : forall t p, In t (s_tasks st) -> claimed p t -> pmem p (s_rem st) = false;
  pi_pairs : ForallOrdPairs disjoint_claims (s_tasks st);
  pi_tasks : Forall (task_ports o) (s_tasks st)
}.

Definition used_cpu (ts : list task) : N := sumN (map t_cpu ts).
Definition used_mem (ts : list task) : N := sumN (map t_mem ts).
Definition want_cpu (t : task) : N := match d_class (t_desc t) with Some k => k_cpu k | None => 0 end.
Definition want_mem (t : task) : N := match d_class (t_desc t) with Some k => k_mem k | None => 0 end.

(* bookkeeping of one scalar resource: [rem] is what is left of [offered], [used] what the
   TaskInfos ask for, [wants] what the templates ask for, [e] the executor's share per task *)
Definition scal_inv (offered rem : option N) (used wants e : N) (nonempty : bool) : Prop :=
  match offered with
  | None => rem = None
  | Some c =>
    match rem with Some r => r + used = c | None => True end /\
    wants <= used /\ wants <= c /\ (nonempty = true -> used <= c + e)
  end.

Record inv (exec : N * N) (o : offer) (st : ost) : Prop := mkInv {
  inv_base : Forall (task_base exec o) (s_tasks st);
  inv_cpu : scal_inv (o_cpu o) (s_cpu st) (used_cpu (s_tasks st)) (sumN (map want_cpu (s_tasks st)))
                     (fst exec) (match s_tasks st with [] => false | _ => true end);
  inv_mem : scal_inv (o_mem o) (s_mem st) (used_mem (s_tasks st)) (sumN (map want_mem (s_tasks st)))
                     (snd exec) (match s_tasks st with [] => false | _ => true end);
  inv_ports : pvalid (o_ports o) -> ports_inv o st
}.

Lemma inv_init exec o : inv exec o (mkOst (o_ports o) (o_cpu o) (o_mem o) []).
Proof.
  constructor; cbn.
  - constructor.
  - unfold scal_inv. destruct (o_cpu o) as [c|]; [|reflexivity]. cbn.
    split; [apply N.add_0_r|]. split; [apply N.le_refl|]. split; [apply N.le_0_l|discriminate].
  - unfold scal_inv. destruct (o_mem o) as [c|]; [|reflexivity]. cbn.
    split; [apply N.add_0_r|]. split; [apply N.le_refl|]. split; [apply N.le_0_l|discriminate].
  - intro Hv. constructor; cbn.
    + exact Hv.
    + auto.
    + intros t p [].
    + constructor.
    + constructor.
Qed.

Lemma try_desc_mk exec o pr cpu mem d r :
  try_desc exec o pr cpu mem d = TMk r ->
  satisfy (o_attrs o) (d_constraints d) = true /\
  exists k, d_class d = Some k /\
    res_satisfy cpu mem pr (k_cpu k) (k_mem k) (k_static k)
                (Nlen (merge_inbound (d_rbind d) (k_bind k))) = true /\
    r = make_task exec o d k (merge_inbound (d_rbind d) (k_bind k)) pr cpu mem.
Proof.
  unfold try_desc. destruct (satisfy (o_attrs o) (d_constraints d)); cbn [negb]; [|discriminate].
  destruct (d_class d) as [k|]; [|discriminate].
  destruct (res_satisfy cpu mem pr (k_cpu k) (k_mem k) (k_static k)
                        (Nlen (merge_inbound (d_rbind d) (k_bind k)))) eqn:E; cbn [negb]; [|discriminate].
  intro H. inversion H. split; [reflexivity|]. exists k. auto.
Qed.

Lemma sumN_snoc l x : sumN (l ++ [x]) = sumN l + x.
Proof.
  unfold sumN. induction l as [|a l IH]; cbn [app fold_right]; [lia|]. rewrite IH. lia.
Qed.

Lemma map_snoc {A B} (f : A -> B) l x : map f (l ++ [x]) = map f l ++ [f x].
Proof. rewrite map_app. reflexivity. Qed.

(* one more task: it wanted [k] (checked against what was left), its TaskInfo asks for [k + e] *)
Lemma scal_inv_step offered r used wants e ne k :
  scal_inv offered (Some r) used wants e ne -> k <= r ->
  scal_inv offered (subtract_scalar (Some r) (k + e)) (used + (k + e)) (wants + k) e true.
Proof.
  unfold scal_inv, subtract_scalar. destruct offered as [c|]; [|discriminate].
  intros [H1 [H0 [H2 H3]]] Hk.
  split.
  - destruct (N.eqb (k + e) 0) eqn:E0.
    + apply N.eqb_eq in E0. lia.
    + destruct (k + e <? r) eqn:E1; [|exact I]. apply N.ltb_lt in E1. lia.
  - split; [lia|]. split; [lia|]. intros _. lia.
Qed.

Lemma all_picked_snoc ts t : all_picked (ts ++ [t]) = all_picked ts ++ picked t.
Proof. unfold all_picked. rewrite flat_map_app. cbn. rewrite app_nil_r. reflexivity. Qed.

Lemma FOP_snoc {A} (R : A -> A -> Prop) l x :
  ForallOrdPairs R l -> Forall (fun y => R y x) l -> ForallOrdPairs R (l ++ [x]).
Proof.
  induction 1 as [|a l Ha Hl IH]; intro Hx; cbn.
  - constructor; constructor.
  - inversion Hx as [|y ys Hax Hlx]; subst. constructor.
    + apply Forall_app. split; [exact Ha|]. constructor; [exact Hax|constructor].
    + apply IH. exact Hlx.
Qed.

Lemma bool_not_true b : b <> true -> b = false.
Proof. destruct b; congruence. Qed.

(* a task was built and appended *)
Lemma inv_step_ok exec o st d pr cpu mem t :
  inv exec o st -> try_st exec o st d = TMk (MkOk pr cpu mem t) ->
  inv exec o (st_ok st pr cpu mem t).
Proof.
  intros [Hb Hc Hm Hp] Ht. unfold try_st in Ht.
  destruct (try_desc_mk _ _ _ _ _ _ _ Ht) as [Hsat [k [Hk [Hres Hmk]]]]. symmetry in Hmk.
  destruct (make_task_shape _ _ _ _ _ _ _ _ _ _ _ _ Hmk) as [Hsh [Ecpu [Emem _]]].
  assert (Hd : t_desc t = d) by apply Hsh.
  assert (Htc : t_cpu t = k_cpu k + fst exec) by apply Hsh.
  assert (Htm : t_mem t = k_mem k + snd exec) by apply Hsh.
  (* what the resource check saw *)
  assert (Hchk : (exists r, s_cpu st = Some r /\ k_cpu k <= r) /\ (exists r, s_mem st = Some r /\ k_mem k <= r)).
  { unfold res_satisfy in Hres.
    destruct (s_cpu st) as [c|]; [|discriminate].
    destruct (c <? k_cpu k) eqn:Ec; [discriminate|]. apply N.ltb_ge in Ec.
    destruct (s_mem st) as [m|]; [|discriminate].
    destruct ((m / 1000) * 1000 <? k_mem k) eqn:Em; [discriminate|]. apply N.ltb_ge in Em.
    split; [exists c; auto|]. exists m. split; [reflexivity|]. pose proof (mul_div_le_1000 m). lia. }
  destruct Hchk as [[rc [Erc Lrc]] [rm [Erm Lrm]]].
  assert (Hwc : want_cpu t = k_cpu k) by (unfold want_cpu; rewrite Hd, Hk; reflexivity).
  assert (Hwm : want_mem t = k_mem k) by (unfold want_mem; rewrite Hd, Hk; reflexivity).
  assert (Hne : match s_tasks st ++ [t] with [] => false | _ => true end = true)
    by (destruct (s_tasks st); reflexivity).
  constructor; unfold st_ok; cbn [s_rem s_cpu s_mem s_tasks].
  - apply Forall_app. split; [exact Hb|]. constructor; [|constructor].
    unfold task_base. rewrite Hd. split; [exact Hsat|]. exists k. split; [exact Hk|].
    split.
    { rewrite Erc in Hc. unfold scal_inv in Hc. destruct (o_cpu o) as [c|]; [|discriminate].
      exists c. split; [reflexivity|]. destruct Hc as [Hc _]. lia. }
    split.
    { rewrite Erm in Hm. unfold scal_inv in Hm. destruct (o_mem o) as [m|]; [|discriminate].
      exists m. split; [reflexivity|]. destruct Hm as [Hm _]. lia. }
    exact Hsh.
  - rewrite Hne. unfold used_cpu. rewrite !map_snoc, !sumN_snoc, Hwc, Htc, Ecpu, Erc, Htc.
    rewrite Erc in Hc. apply (scal_inv_step _ _ _ _ _ _ _ Hc Lrc).
  - rewrite Hne. unfold used_mem. rewrite !map_snoc, !sumN_snoc, Hwm, Htm, Emem, Erm, Htm.
    rewrite Erm in Hm. apply (scal_inv_step _ _ _ _ _ _ _ Hm Lrm).
  - intro Hv. destruct (Hp Hv) as [Pv Ps Pf Pn Pt].
    destruct (make_task_built _ _ _ _ _ _ _ _ _ _ _ _ Pv Hmk) as [Bv [Bm [Bs [Bn [Bi [Bis [Bd Bc]]]]]]].
    destruct (res_satisfy_sound _ _ _ _ _ _ _ Pv Hres) as [_ [_ [_ Hst]]].
    assert (Est : static_of_task t = k_static k) by (unfold static_of_task; rewrite Hd, Hk; reflexivity).
    (* whatever the new task holds was free before it was built *)
    assert (Hfree : forall p, claimed p t -> pmem p (s_rem st) = true).
    { intros p [Hp1|[Hs Hp2]]; [apply Bi, Hp1|]. rewrite Est in *. apply (Hst Hs p Hp2). }
    constructor; cbn [s_rem s_tasks].
    + exact Bv.
    + intros p H. apply Ps. apply (Bm p H).
    + intros t' p Hin Hcl. apply in_app_or in Hin. destruct Hin as [Hin|[Hin|[]]].
      * apply bool_not_true. intro H. destruct (Bm p H) as [H1 _]. rewrite (Pf t' p Hin Hcl) in H1. discriminate.
      * subst t'. apply bool_not_true. intro H. destruct Hcl as [Hp1|[Hs Hp2]].
        -- destruct (Bm p H) as [_ H2]. contradiction.
        -- rewrite Est in *. rewrite (Bs Hs p H) in Hp2. discriminate.
    + apply FOP_snoc; [exact Pn|]. apply Forall_forall. intros t' Hin p Hcl' Hcl.
      pose proof (Pf t' p Hin Hcl') as X. pose proof (Hfree p Hcl) as Y. congruence.
    + apply Forall_app. split; [exact Pt|]. constructor; [|constructor].
      unfold task_ports. split; [intros p H; apply Ps, Bi, H|]. split; [exact Bd|].
      split; [exact Bc|]. split; [exact Bn|].
      split; [intros p H; apply Ps, Hfree, H|]. rewrite Est. exact Bis.
Qed.

(* gave up: tasks, cpus and mem as before, possibly fewer ports left *)
Lemma inv_step_fail exec o st d pr :
  inv exec o st -> try_st exec o st d = TMk (MkFail pr) -> inv exec o (st_fail st pr).
Proof.
  intros [Hb Hc Hm Hp] Ht. unfold try_st in Ht.
  destruct (try_desc_mk _ _ _ _ _ _ _ Ht) as [_ [k [_ [_ Hmk]]]]. symmetry in Hmk.
  constructor; unfold st_fail; cbn [s_rem s_cpu s_mem s_tasks]; try assumption.
  intro Hv. destruct (Hp Hv) as [Pv Ps Pf Pn Pt].
  destruct (make_task_fail _ _ _ _ _ _ _ _ _ Pv Hmk) as [V M].
  constructor; cbn [s_rem s_tasks]; try assumption.
  - intros p H. apply Ps, M, H.
  - intros t p Hin Hcl. apply bool_not_true. intro H.
    pose proof (Pf t p Hin Hcl) as X. pose proof (M p H) as Y. congruence.
Qed.

Lemma prematch_loop_inv exec o : forall pm st st' und,
  inv exec o st -> prematch_loop exec o pm st = (st', und) -> inv exec o st'.
Proof.
  induction pm as [|d r IH]; intros st st' und Hi H; cbn [prematch_loop] in H.
  - inversion H; subst. exact Hi.
  - destruct (try_st exec o st d) as [| | |[pr cpu mem t|pr]] eqn:Et;
      try (inversion H; subst; exact Hi).
    + apply (IH _ _ _ (inv_step_ok _ _ _ _ _ _ _ _ Hi Et) H).
    + inversion H; subst. apply (inv_step_fail _ _ _ _ _ Hi Et).
Qed.

Lemma still_loop_inv exec o : forall ds st st' lft,
  inv exec o st -> still_loop exec o ds st = (st', lft) -> inv exec o st'.
Proof.
  induction ds as [|d r IH]; intros st st' lft Hi H; cbn [still_loop] in H.
  - inversion H; subst. exact Hi.
  - destruct (try_st exec o st d) as [| | |[pr cpu mem t|pr]] eqn:Et.
    + destruct (still_loop exec o r st) as [s l] eqn:E. inversion H; subst. apply (IH _ _ _ Hi E).
    + destruct (still_loop exec o r st) as [s l] eqn:E. inversion H; subst. apply (IH _ _ _ Hi E).
    + destruct (still_loop exec o r st) as [s l] eqn:E. inversion H; subst. apply (IH _ _ _ Hi E).
    + apply (IH _ _ _ (inv_step_ok _ _ _ _ _ _ _ _ Hi Et) H).
    + destruct (still_loop exec o r (st_fail st pr)) as [s l] eqn:E.
      inversion H; subst. apply (IH _ _ _ (inv_step_fail _ _ _ _ _ Hi Et) E).
Qed.

(* ================================================================ G. one OFFERS round *)

Definition scal_ok (offered : option N) (used wants e : N) (ts : list task) : Prop :=
  forall c, offered = Some c -> wants <= c /\ (ts <> [] -> used <= c + e).

Definition offer_ok (exec : N * N) (x : offer * list task) : Prop :=
  Forall (task_base exec (fst x)) (snd x) /\
  scal_ok (o_cpu (fst x)) (used_cpu (snd x)) (sumN (map want_cpu (snd x))) (fst exec) (snd x) /\
  scal_ok (o_mem (fst x)) (used_mem (snd x)) (sumN (map want_mem (snd x))) (snd exec) (snd x) /\
  (pvalid (o_ports (fst x)) ->
   ForallOrdPairs disjoint_claims (snd x) /\ Forall (task_ports (fst x)) (snd x)).

Record ginv (exec : N * N) (ids : list N) (g : gst) : Prop := mkGI {
  gi_ok : Forall (offer_ok exec) (g_accepts g);
  gi_used : forall o ts, In (o, ts) (g_accepts g) -> ts <> [] -> ~ In (o_id o) (g_decline g);
  gi_unused : forall id, In id ids -> ~ In id (g_decline g) ->
     exists o ts, In (o, ts) (g_accepts g) /\ o_id o = id /\ ts <> []
}.

Lemma ginv_init exec ids s u : ginv exec ids (mkGst s u ids []).
Proof.
  constructor; cbn.
  - constructor.
  - intros o ts [].
  - intros id H1 H2. contradiction.
Qed.

Lemma remove_id_In x y l : In y (remove_id x l) <-> In y l /\ y <> x.
Proof.
  unfold remove_id. rewrite filter_In. split; intros [H1 H2]; split; try exact H1.
  - apply negb_true_iff in H2. apply N.eqb_neq in H2. congruence.
  - apply negb_true_iff. apply N.eqb_neq. congruence.
Qed.

Lemma scal_inv_ok offered rem used wants e ts :
  scal_inv offered rem used wants e (match ts with [] => false | _ => true end) ->
  scal_ok offered used wants e ts.
Proof.
  unfold scal_inv, scal_ok. intros H c Hc. subst offered. destruct H as [_ [_ [H2 H3]]].
  split; [exact H2|]. intro Hne. apply H3. destruct ts; [congruence|reflexivity].
Qed.

Lemma inv_offer_ok exec o st : inv exec o st -> offer_ok exec (o, s_tasks st).
Proof.
  intros [Hb Hc Hm Hp]. unfold offer_ok. cbn [fst snd].
  split; [exact Hb|]. split; [apply (scal_inv_ok _ _ _ _ _ _ Hc)|]. split; [apply (scal_inv_ok _ _ _ _ _ _ Hm)|].
  intro Hv. destruct (Hp Hv) as [_ _ _ Pn Pt]. split; assumption.
Qed.

(* the effect of one offer goroutine on the round's bookkeeping, given the final loop state *)
Lemma ginv_after exec ids g o st still' undep :
  ginv exec ids g -> inv exec o st ->
  ginv exec ids
       (mkGst still' undep
              (match s_tasks st with [] => g_decline g | _ => remove_id (o_id o) (g_decline g) end)
              (g_accepts g ++ [(o, s_tasks st)])).
Proof.
  intros [Gok Gu Gn] Hi. constructor; cbn [g_accepts g_decline].
  - apply Forall_app. split; [exact Gok|]. constructor; [|constructor]. apply inv_offer_ok. exact Hi.
  - intros o' ts Hin Hne Hd.
    assert (Hd' : In (o_id o') (g_decline g)).
    { destruct (s_tasks st); [exact Hd|apply remove_id_In in Hd; apply Hd]. }
    apply in_app_or in Hin. destruct Hin as [Hin|[Hin|[]]].
    + apply (Gu o' ts Hin Hne Hd').
    + inversion Hin; subst o' ts. destruct (s_tasks st) as [|t0 tr]; [congruence|].
      apply remove_id_In in Hd. destruct Hd as [_ X]. apply X. reflexivity.
  - intros id Hid Hd.
    destruct (in_dec N.eq_dec id (g_decline g)) as [Hin|Hnin].
    + (* it was still to be declined: this goroutine took it out, so it launched something *)
      destruct (s_tasks st) as [|t0 tr] eqn:Et; [contradiction|].
      assert (id = o_id o).
      { destruct (N.eq_dec id (o_id o)) as [E|E]; [exact E|].
        exfalso. apply Hd. apply remove_id_In. split; assumption. }
      subst id. exists o, (t0 :: tr). split; [apply in_or_app; right; left; reflexivity|].
      split; [reflexivity|discriminate].
    + destruct (Gn id Hid Hnin) as [o' [ts [A [B C]]]].
      exists o', ts. split; [apply in_or_app; left; exact A|]. split; assumption.
Qed.

Lemma process_offer_ginv exec ids offers descs g o :
  ginv exec ids g -> ginv exec ids (process_offer exec offers descs g o).
Proof.
  intros Hg. unfold process_offer.
  destruct (prematch_loop exec o
              (filter (fun d => is_pin_to (o_id o) (pin_of offers d)) descs)
              (mkOst (o_ports o) (o_cpu o) (o_mem o) [])) as [st1 und] eqn:E1.
  pose proof (prematch_loop_inv _ _ _ _ _ _ (inv_init exec o) E1) as Hi1.
  destruct (g_undep g ++ und) as [|u0 ur] eqn:Eu.
  - destruct (still_loop exec o (rev (g_still g)) st1) as [s lft] eqn:E2.
    pose proof (still_loop_inv _ _ _ _ _ _ Hi1 E2) as Hi2. apply ginv_after; assumption.
  - apply ginv_after; assumption.
Qed.

Lemma process_all_ginv exec ids offers descs : forall sched g,
  ginv exec ids g -> ginv exec ids (process_all exec offers descs sched g).
Proof.
  unfold process_all. induction sched as [|o r IH]; intros g Hg; cbn [fold_left]; [exact Hg|].
  apply IH. apply process_offer_ginv. exact Hg.
Qed.

Lemma ginv_eta exec ids g :
  ginv exec ids g -> ginv exec ids (mkGst (g_still g) (g_undep g) (g_decline g) (g_accepts g)).
Proof. destruct g. auto. Qed.

Lemma run_round_ginv exec offers sched descs acc dec still und :
  run_round exec offers sched descs = Done acc dec still und ->
  ginv exec (map o_id offers) (mkGst still und dec acc).
Proof.
  unfold run_round. destruct descs as [|d0 dr].
  - intro H. inversion H. apply ginv_init.
  - destruct (filter (fun d => is_pin_nowhere (pin_of offers d)) (rev (d0 :: dr))) as [|n0 nr].
    + intro H. inversion H. apply ginv_eta. apply process_all_ginv. apply ginv_init.
    + intro H. inversion H. apply ginv_init.
Qed.

(* the handler always finishes the round (repaired C05-g: no outcome of the model is a crash) *)
Lemma run_round_completes exec offers sched descs :
  exists acc dec still und, run_round exec offers sched descs = Done acc dec still und.
Proof. destruct (run_round exec offers sched descs) as [a d s u]. exists a, d, s, u. reflexivity. Qed.

(* ================================================================ H. what a finished round guarantees *)

Lemma round_accept_ok exec offers sched descs acc dec still und o ts :
  run_round exec offers sched descs = Done acc dec still und ->
  In (o, ts) acc -> offer_ok exec (o, ts).
Proof.
  intros H Hin. pose proof (run_round_ginv _ _ _ _ _ _ _ _ H) as G.
  pose proof (gi_ok _ _ _ G) as F. cbn [g_accepts] in F. rewrite Forall_forall in F. apply (F _ Hin).
Qed.

Lemma round_task_base exec offers sched descs acc dec still und o ts t :
  run_round exec offers sched descs = Done acc dec still und ->
  In (o, ts) acc -> In t ts -> task_base exec o t.
Proof.
  intros H Hin Ht. destruct (round_accept_ok _ _ _ _ _ _ _ _ _ _ H Hin) as [F _].
  cbn [fst snd] in F. rewrite Forall_forall in F. apply (F _ Ht).
Qed.

Lemma round_task_ports exec offers sched descs acc dec still und o ts t :
  run_round exec offers sched descs = Done acc dec still und ->
  In (o, ts) acc -> In t ts -> pvalid (o_ports o) -> task_ports o t.
Proof.
  intros H Hin Ht Hv. destruct (round_accept_ok _ _ _ _ _ _ _ _ _ _ H Hin) as [_ [_ [_ F]]].
  cbn [fst snd] in F. destruct (F Hv) as [_ F2]. rewrite Forall_forall in F2. apply (F2 _ Ht).
Qed.

(* ---- constraints ---- *)
Lemma round_constraints exec offers sched descs acc dec still und o ts t c :
  run_round exec offers sched descs = Done acc dec still und ->
  In (o, ts) acc -> In t ts ->
  In c (d_constraints (t_desc t)) -> is_equals c = true -> sat1 (o_attrs o) c = true.
Proof.
  intros H Hin Ht Hc He. destruct (round_task_base _ _ _ _ _ _ _ _ _ _ _ H Hin Ht) as [Hs _].
  apply (satisfy_sound _ _ Hs c Hc He).
Qed.

Lemma round_class exec offers sched descs acc dec still und o ts t :
  run_round exec offers sched descs = Done acc dec still und ->
  In (o, ts) acc -> In t ts -> exists k, d_class (t_desc t) = Some k.
Proof.
  intros H Hin Ht. destruct (round_task_base _ _ _ _ _ _ _ _ _ _ _ H Hin Ht) as [_ [k [Hk _]]].
  exists k. exact Hk.
Qed.

(* the property's first sentence end to end, whatever the constraint lists look like (duplicates,
   any depth): the agent satisfies the nearest definition of every attribute *)
Lemma round_constraints_nearest exec offers sched descs acc dec still und o ts t k a v :
  run_round exec offers sched descs = Done acc dec still und ->
  In (o, ts) acc -> In t ts -> d_class (t_desc t) = Some k ->
  (forall l, In l (d_levels (t_desc t) ++ [k_cts k]) -> forallb is_equals l = true) ->
  nearest a (d_levels (t_desc t) ++ [k_cts k]) = Some v ->
  sat1 (o_attrs o) (mkC a v 0) = true.
Proof.
  intros H Hin Ht Hk Heq Hn.
  assert (Hdc : d_constraints (t_desc t) = desc_constraints (d_levels (t_desc t)) (Some (k_cts k))).
  { unfold d_constraints. rewrite Hk. reflexivity. }
  destruct (desc_constraints_has_nearest (d_levels (t_desc t)) (Some (k_cts k)) a v Hn) as [c [Hc [Ea Ev]]].
  rewrite <- (sat1_ext (o_attrs o) c (mkC a v 0) Ea Ev).
  apply (round_constraints _ _ _ _ _ _ _ _ _ _ _ c H Hin Ht).
  - rewrite Hdc. exact Hc.
  - destruct (desc_constraints_in _ _ _ Hc) as [l [Hl Hcl]]. cbn [all_levels] in Hl.
    specialize (Heq l Hl). rewrite forallb_forall in Heq. apply (Heq c Hcl).
Qed.

Lemma satisfy_iff a cts :
  forallb is_equals cts = true ->
  (satisfy a cts = true <-> forall c, In c cts -> sat1 a c = true).
Proof.
  intro H. rewrite (satisfy_equals a cts H). unfold sat_all. apply forallb_forall.
Qed.

(* ---- resources ---- *)
Lemma static_of_class t k : d_class (t_desc t) = Some k -> static_of_task t = k_static k.
Proof. intro H. unfold static_of_task. rewrite H. reflexivity. Qed.

Lemma round_resources exec offers sched descs acc dec still und o ts t k :
  run_round exec offers sched descs = Done acc dec still und ->
  In (o, ts) acc -> In t ts -> d_class (t_desc t) = Some k ->
  (exists c, o_cpu o = Some c /\ k_cpu k <= c) /\
  (exists m, o_mem o = Some m /\ k_mem k <= m) /\
  (pvalid (o_ports o) -> Forall rvalid (k_static k) ->
   forall p, inr p (k_static k) = true -> pmem p (o_ports o) = true).
Proof.
  intros H Hin Ht Hk.
  destruct (round_task_base _ _ _ _ _ _ _ _ _ _ _ H Hin Ht) as [_ [k' [Hk' [Hc [Hm _]]]]].
  rewrite Hk in Hk'. inversion Hk'; subst k'. split; [exact Hc|]. split; [exact Hm|].
  intros Hv Hs p Hp.
  destruct (round_task_ports _ _ _ _ _ _ _ _ _ _ _ H Hin Ht Hv) as [_ [_ [_ [_ [X _]]]]].
  apply X. right. rewrite (static_of_class t k Hk). auto.
Qed.

(* ---- ports ---- *)
Lemma round_ports_from_offer exec offers sched descs acc dec still und o ts t :
  run_round exec offers sched descs = Done acc dec still und ->
  In (o, ts) acc -> In t ts -> pvalid (o_ports o) ->
  (forall p, In p (picked t) -> pmem p (o_ports o) = true) /\
  (forall p, In p (map snd (t_dyn t)) -> data_port_floor < p) /\
  control_port_floor < t_ctl t.
Proof.
  intros H Hin Ht Hv.
  destruct (round_task_ports _ _ _ _ _ _ _ _ _ _ _ H Hin Ht Hv) as [A [B [C _]]]. auto.
Qed.

Lemma round_ports_per_channel exec offers sched descs acc dec still und o ts t k :
  run_round exec offers sched descs = Done acc dec still und ->
  In (o, ts) acc -> In t ts -> d_class (t_desc t) = Some k ->
  map fst (t_dyn t) = map ch_name (filter ch_tcp (merge_inbound (d_rbind (t_desc t)) (k_bind k))) /\
  t_handed t = (if k_controllable k then Some (t_ctl t) else None).
Proof.
  intros H Hin Ht Hk.
  destruct (round_task_base _ _ _ _ _ _ _ _ _ _ _ H Hin Ht) as [_ [k' [Hk' [_ [_ Hsh]]]]].
  rewrite Hk in Hk'. inversion Hk'; subst k'. destruct Hsh as [_ [A [B _]]]. auto.
Qed.

Lemma round_request exec offers sched descs acc dec still und o ts t k :
  run_round exec offers sched descs = Done acc dec still und ->
  In (o, ts) acc -> In t ts -> d_class (t_desc t) = Some k ->
  t_cpu t = k_cpu k + fst exec /\ t_mem t = k_mem k + snd exec /\
  (Forall rvalid (k_static k) ->
   forall p, inr p (t_req t) = inr p (k_static k) || memN p (picked t)).
Proof.
  intros H Hin Ht Hk.
  destruct (round_task_base _ _ _ _ _ _ _ _ _ _ _ H Hin Ht) as [_ [k' [Hk' [_ [_ Hsh]]]]].
  rewrite Hk in Hk'. inversion Hk'; subst k'.
  pose proof (shaped_req _ _ _ _ _ _ Hsh) as R.
  destruct Hsh as [_ [_ [_ [_ [A [B _]]]]]]. auto.
Qed.

Lemma all_picked_In p ts : In p (all_picked ts) <-> exists t, In t ts /\ In p (picked t).
Proof. unfold all_picked. apply in_flat_map. Qed.

Lemma NoDup_app_intro {A} (l1 l2 : list A) :
  NoDup l1 -> NoDup l2 -> (forall x, In x l1 -> ~ In x l2) -> NoDup (l1 ++ l2).
Proof.
  induction l1 as [|a l1 IH]; intros H1 H2 Hd; [exact H2|].
  inversion H1 as [|x xs Ha Hl]; subst. cbn. constructor.
  - intro Hin. apply in_app_or in Hin. destruct Hin as [Hin|Hin]; [contradiction|].
    apply (Hd a (or_introl eq_refl) Hin).
  - apply IH; [exact Hl|exact H2|]. intros x Hx. apply Hd. right. exact Hx.
Qed.

Lemma nodup_all_picked ts :
  ForallOrdPairs disjoint_claims ts -> Forall (fun t => NoDup (picked t)) ts -> NoDup (all_picked ts).
Proof.
  induction 1 as [|a l Ha Hl IH]; intro Hn; [constructor|].
  inversion Hn as [|x xs Hna Hnl]; subst. cbn [all_picked flat_map].
  apply NoDup_app_intro; [exact Hna|apply IH; exact Hnl|].
  intros p Hp Hp2. apply all_picked_In in Hp2. destruct Hp2 as [t [Ht Hpt]].
  rewrite Forall_forall in Ha. apply (Ha t Ht p); left; assumption.
Qed.

(* ports handed to tasks are pairwise distinct (repaired C05-c): no port is held by two tasks of
   an offer - as dynamic, control or (well-formed) static port -, within a task the dynamic and
   control ports differ from each other and from its static ports, and offers with disjoint
   ports (two offers of one agent) never share a port *)
Lemma round_ports_distinct exec offers sched descs acc dec still und o ts :
  run_round exec offers sched descs = Done acc dec still und ->
  In (o, ts) acc -> pvalid (o_ports o) ->
  ForallOrdPairs disjoint_claims ts /\
  NoDup (all_picked ts) /\
  (forall t, In t ts -> NoDup (picked t) /\
     (Forall rvalid (static_of_task t) -> forall p, In p (picked t) -> inr p (static_of_task t) = false)) /\
  (forall o2 ts2 t t2, In (o2, ts2) acc -> pvalid (o_ports o2) ->
     (forall p, pmem p (o_ports o) = true -> pmem p (o_ports o2) = false) ->
     In t ts -> In t2 ts2 -> disjoint_claims t t2).
Proof.
  intros H Hin Hv. destruct (round_accept_ok _ _ _ _ _ _ _ _ _ _ H Hin) as [_ [_ [_ F]]].
  cbn [fst snd] in F. destruct (F Hv) as [N1 F1]. pose proof F1 as F1'. rewrite Forall_forall in F1.
  split; [exact N1|]. split.
  { apply nodup_all_picked; [exact N1|]. apply Forall_forall. intros t Ht. apply (F1 t Ht). }
  split.
  { intros t Ht. destruct (F1 t Ht) as [_ [_ [_ [A [_ B]]]]]. auto. }
  intros o2 ts2 t t2 Hin2 Hv2 Hdis Ht Ht2 p Hc Hc2.
  destruct (F1 t Ht) as [_ [_ [_ [_ [A _]]]]].
  destruct (round_task_ports _ _ _ _ _ _ _ _ _ _ _ H Hin2 Ht2 Hv2) as [_ [_ [_ [_ [A2 _]]]]].
  specialize (Hdis p (A p Hc)). rewrite (A2 p Hc2) in Hdis. discriminate.
Qed.

(* what is requested for all tasks launched on one offer does not exceed that offer (repaired
   C05-d): the template wants add up to at most the offered cpu / memory; the TaskInfo totals
   exceed it by at most one executor share (C05-h) *)
Lemma round_request_within_offer exec offers sched descs acc dec still und o ts :
  run_round exec offers sched descs = Done acc dec still und ->
  In (o, ts) acc -> ts <> [] ->
  exists c m, o_cpu o = Some c /\ o_mem o = Some m /\
              sumN (map want_cpu ts) <= c /\ sumN (map want_mem ts) <= m /\
              used_cpu ts <= c + fst exec /\ used_mem ts <= m + snd exec.
Proof.
  intros H Hin Hne. destruct (round_accept_ok _ _ _ _ _ _ _ _ _ _ H Hin) as [Fb [Sc [Sm _]]].
  cbn [fst snd] in *. destruct ts as [|t0 tr]; [congruence|].
  inversion Fb as [|x xs Hb0 _]; subst.
  destruct Hb0 as [_ [k [_ [[c [Ec _]] [[m [Em _]] _]]]]].
  destruct (Sc c Ec) as [C1 C2]. destruct (Sm m Em) as [M1 M2].
  exists c, m. repeat split; auto.
Qed.

(* ---- decline (repaired C05-f) ---- *)
Lemma round_decline exec offers sched descs acc dec still und :
  run_round exec offers sched descs = Done acc dec still und ->
  (forall o ts, In (o, ts) acc -> ts <> [] -> ~ In (o_id o) dec) /\
  (forall o, In o offers -> ~ In (o_id o) dec ->
     exists o' ts, In (o', ts) acc /\ o_id o' = o_id o /\ ts <> []).
Proof.
  intro H. destruct (run_round_ginv _ _ _ _ _ _ _ _ H) as [_ Gu Gn].
  cbn [g_accepts g_decline] in *. split; [exact Gu|].
  intros o Ho Hd. apply (Gn (o_id o)); [apply in_map; exact Ho|exact Hd].
Qed.

(* ================================================================ I. the old witnesses, and what remains *)

Definition w_exec : N * N := (10, 64000).
Definition w_full : portres := Some [(9000, 9100); (30000, 30100)].
Definition w_offer (attrs : attrs) (cpu : N) (ports : portres) : offer :=
  mkOffer 0 0 attrs (Some cpu) (Some 4096000) ports 0.
Definition w_class (cpu : N) (static : ranges) (bind : list chan) : klass :=
  mkClass [] cpu 64000 static bind true.
Definition w_desc (i : N) (levels : list (list cstr)) (k : klass) : desc := mkDesc i levels [] (Some k).
Definition w_round (o : offer) (ds : list desc) : outcome := run_round w_exec [o] [o] ds.

(* was C05-c: wants.ports "9000" and one inbound TCP channel: the channel now gets 9001 *)
Definition w1_o := w_offer [] 1000 w_full.
Definition w1_k := w_class 100 [(9000, 9000)] [mkChan 1 true].
Definition w1_d := w_desc 0 [[]] w1_k.
Definition w1_t := mkTask w1_d [(1, 9001)] 30000 (Some 30000) [(9000, 9001); (30000, 30000)] 110 128000 false.
Lemma w1_run : w_round w1_o [w1_d] = Done [(w1_o, [w1_t])] [] [] [].
Proof. vm_compute. reflexivity. Qed.

(* was C05-d: two tasks wanting 0.6 cpu each, 1.0 cpu offered: only one is launched *)
Definition w2_o := w_offer [] 1000 w_full.
Definition w2_k := w_class 600 [] [].
Definition w2_d0 := w_desc 0 [[]] w2_k.
Definition w2_d1 := w_desc 1 [[]] w2_k.
Definition w2_t1 := mkTask w2_d1 [] 30000 (Some 30000) [(30000, 30000)] 610 128000 false.
Lemma w2_run : w_round w2_o [w2_d0; w2_d1] = Done [(w2_o, [w2_t1])] [] [w2_d0] [].
Proof. vm_compute. reflexivity. Qed.

(* was C05-g: no port above the control cut-off: the task does not fit, the offer is declined *)
Definition w3_o := w_offer [] 1000 (Some [(9000, 9100)]).
Definition w3_d := w_desc 0 [[]] (w_class 100 [] []).
Lemma w3_run : w_round w3_o [w3_d] = Done [(w3_o, [])] [0] [w3_d] [].
Proof. vm_compute. reflexivity. Qed.

(* was C05-f: the only port goes to the channel, no control port: not launched, declined *)
Definition w4_o := w_offer [] 1000 (Some [(9000, 9000)]).
Definition w4_d := w_desc 0 [[]] (w_class 100 [] [mkChan 1 true]).
Lemma w4_run : w_round w4_o [w4_d] = Done [(w4_o, [])] [0] [w4_d] [].
Proof. vm_compute. reflexivity. Qed.

(* was C05-e: the top-level role names zone twice, the task role says z3, the agent is z2 *)
Definition w5_o := w_offer [(w_zone, w_z2)] 1000 w_full.
Definition w5_d := w_desc 0 w_levels (w_class 100 [] []).
Lemma w5_run : w_round w5_o [w5_d] = Done [(w5_o, [])] [0] [w5_d] [].
Proof. vm_compute. reflexivity. Qed.

(* C05-h (kept): wants exactly the offered cpu, the TaskInfo asks for the executor's share on top *)
Definition w6_o := w_offer [] 1000 w_full.
Definition w6_k := w_class 1000 [] [].
Definition w6_d := w_desc 0 [[]] w6_k.
Definition w6_t := mkTask w6_d [] 30000 (Some 30000) [(30000, 30000)] 1010 128000 false.
Lemma w6_run : w_round w6_o [w6_d] = Done [(w6_o, [w6_t])] [] [] [].
Proof. vm_compute. reflexivity. Qed.

Lemma w_full_valid : pvalid w_full.
Proof. cbn. repeat constructor; unfold rvalid; cbn; lia. Qed.

(* the cpu / memory a TaskInfo asks for is covered by the offer *)
Definition st_taskinfo_within_offer : Prop :=
  forall exec offers sched descs acc dec still und o t,
    run_round exec offers sched descs = Done acc dec still und ->
    In (o, [t]) acc ->
    exists c m, o_cpu o = Some c /\ o_mem o = Some m /\ t_cpu t <= c /\ t_mem t <= m.

Lemma taskinfo_within_offer_refuted : ~ st_taskinfo_within_offer.
Proof.
  intro H.
  destruct (H w_exec [w6_o] [w6_o] [w6_d] _ _ _ _ w6_o w6_t w6_run (or_introl eq_refl))
    as [c [m [Hc [_ [Hs _]]]]].
  inversion Hc; subst c. vm_compute in Hs. apply Hs. reflexivity.
Qed.

(* ================================================================ J. RangesFromExpression *)

Fixpoint p10 (f : nat) : N := match f with O => 1 | S f' => 10 * p10 f' end.

Lemma digits_val_app s : forall c acc,
  digits_val (s ++ [c]) acc =
  match digits_val s acc with
  | Some v => if is_digit c then Some (v * 10 + (c - 48)) else None
  | None => None
  end.
Proof.
  induction s as [|d r IH]; intros c acc; cbn [app digits_val].
  - destruct (is_digit c); reflexivity.
  - destruct (is_digit d); [apply IH|reflexivity].
Qed.

Lemma is_digit_small n : n < 10 -> is_digit (48 + n) = true.
Proof. intro H. unfold is_digit. bool_arith. Qed.

Lemma dec_fuel_val : forall f n, n < p10 f -> digits_val (dec_fuel f n) 0 = Some n.
Proof.
  induction f as [|f IH]; intros n H; cbn [p10] in H.
  - assert (n = 0) by lia. subst n. reflexivity.
  - cbn [dec_fuel]. destruct (n <? 10) eqn:E.
    + apply N.ltb_lt in E. cbn [digits_val]. rewrite (is_digit_small n E). f_equal. lia.
    + apply N.ltb_ge in E. rewrite digits_val_app.
      assert (Hq : n / 10 < p10 f) by (apply N.div_lt_upper_bound; lia).
      rewrite (IH _ Hq).
      assert (Hm : n mod 10 < 10) by (apply N.mod_lt; discriminate).
      rewrite (is_digit_small _ Hm). f_equal.
      pose proof (N.div_mod n 10 ltac:(discriminate)) as X.
      clear IH Hq. generalize dependent (n / 10). generalize dependent (n mod 10). intros r Hr q Hx. lia.
Qed.

Lemma dec_fuel_digits : forall f n, forallb is_digit (dec_fuel f n) = true.
Proof.
  induction f as [|f IH]; intro n; [reflexivity|]. cbn [dec_fuel]. destruct (n <? 10) eqn:E.
  - apply N.ltb_lt in E. cbn [forallb]. rewrite (is_digit_small n E). reflexivity.
  - rewrite forallb_app, IH. cbn [forallb andb].
    assert (Hm : n mod 10 < 10) by (apply N.mod_lt; discriminate).
    rewrite (is_digit_small _ Hm). reflexivity.
Qed.

Lemma dec_fuel_nonempty f n : dec_fuel (S f) n <> [].
Proof.
  cbn [dec_fuel]. destruct (n <? 10); [discriminate|]. intro H. apply app_eq_nil in H. destruct H. discriminate.
Qed.

Lemma two64_lt_p10_40 : two64 < p10 40.
Proof. vm_compute. reflexivity. Qed.

Lemma parse_uint_dec n : n < two64 -> parse_uint (dec n) = Some n.
Proof.
  intro H. unfold parse_uint, dec. destruct (dec_fuel 40 n) eqn:E.
  - exfalso. apply (dec_fuel_nonempty 39 n). exact E.
  - rewrite <- E. rewrite dec_fuel_val; [|pose proof two64_lt_p10_40; lia].
    apply N.ltb_lt in H. rewrite H. reflexivity.
Qed.

Lemma forallb_existsb_false {A} (P Q : A -> bool) s :
  (forall c, P c = true -> Q c = false) -> forallb P s = true -> existsb Q s = false.
Proof.
  intro H. induction s as [|c r IH]; cbn; intro F; [reflexivity|].
  apply andb_true_iff in F. destruct F as [F1 F2]. rewrite (H c F1), (IH F2). reflexivity.
Qed.

Lemma digit_not c k : is_digit c = true -> (k <? 48) || (57 <? k) = true -> N.eqb k c = false.
Proof. unfold is_digit. bool_arith. Qed.

Lemma digits_no sep s :
  (sep <? 48) || (57 <? sep) = true -> forallb is_digit s = true -> existsb (N.eqb sep) s = false.
Proof.
  intros Hs. apply forallb_existsb_false. intros c Hc. apply (digit_not c sep Hc Hs).
Qed.

Lemma digit_no_space c : is_digit c = true -> is_space c = false.
Proof. unfold is_digit, is_space. bool_arith. Qed.

Lemma split_on_app sep a b :
  existsb (N.eqb sep) a = false -> split_on sep (a ++ sep :: b) = a :: split_on sep b.
Proof.
  induction a as [|c r IH]; cbn [app existsb]; intro H.
  - cbn [split_on]. rewrite N.eqb_refl. reflexivity.
  - apply orb_false_iff in H. destruct H as [H1 H2]. cbn [split_on].
    rewrite N.eqb_sym in H1. rewrite H1. rewrite (IH H2). reflexivity.
Qed.

Definition no_space (s : str) : Prop := existsb is_space s = false.

Lemma trim_left_id s : no_space s -> trim_left s = s.
Proof.
  unfold no_space. destruct s as [|c r]; [reflexivity|]. cbn. intro H.
  apply orb_false_iff in H. destruct H as [H _]. rewrite H. reflexivity.
Qed.

Lemma no_space_rev s : no_space s -> no_space (rev s).
Proof.
  unfold no_space. intro H. destruct (existsb is_space (rev s)) eqn:E; [|reflexivity].
  apply existsb_exists in E. destruct E as [c [Hc1 Hc2]]. apply in_rev in Hc1.
  assert (X : existsb is_space s = true) by (apply existsb_exists; exists c; auto). congruence.
Qed.

Lemma trim_space_id s : no_space s -> trim_space s = s.
Proof.
  intro H. unfold trim_space. rewrite (trim_left_id s H), (trim_left_id _ (no_space_rev s H)).
  apply rev_involutive.
Qed.

Lemma no_space_app a b : no_space a -> no_space b -> no_space (a ++ b).
Proof. unfold no_space. intros Ha Hb. rewrite existsb_app, Ha, Hb. reflexivity. Qed.

Lemma digits_no_space s : forallb is_digit s = true -> no_space s.
Proof. apply forallb_existsb_false. exact digit_no_space. Qed.

Lemma dec_digits n : forallb is_digit (dec n) = true.
Proof. apply dec_fuel_digits. Qed.

Definition fits (r : range) : Prop := fst r < two64 /\ snd r < two64.

Lemma print_item_no_space r : no_space (print_item r).
Proof.
  unfold print_item. destruct (N.eqb (fst r) (snd r)).
  - apply digits_no_space, dec_digits.
  - apply no_space_app; [apply digits_no_space, dec_digits|].
    apply no_space_app; [reflexivity|apply digits_no_space, dec_digits].
Qed.

Lemma print_item_no_comma r : existsb (N.eqb comma) (print_item r) = false.
Proof.
  unfold print_item. destruct (N.eqb (fst r) (snd r)).
  - apply digits_no; [reflexivity|apply dec_digits].
  - rewrite !existsb_app. rewrite !(digits_no comma _ eq_refl (dec_digits _)). reflexivity.
Qed.

Lemma parse_item_print r : fits r -> parse_item (print_item r) = Some r.
Proof.
  intros [H1 H2]. unfold parse_item. rewrite (trim_space_id _ (print_item_no_space r)).
  unfold print_item. destruct (N.eqb (fst r) (snd r)) eqn:E.
  - apply N.eqb_eq in E. rewrite (split_on_no_sep dash (dec (fst r))).
    + rewrite (parse_uint_dec _ H1). destruct r as [a b]. cbn in *. subst b. reflexivity.
    + apply digits_no; [reflexivity|apply dec_digits].
  - cbn [app]. rewrite split_on_app; [|apply digits_no; [reflexivity|apply dec_digits]].
    rewrite (split_on_no_sep dash (dec (snd r))); [|apply digits_no; [reflexivity|apply dec_digits]].
    rewrite (parse_uint_dec _ H1), (parse_uint_dec _ H2). destruct r; reflexivity.
Qed.

Lemma print_ranges_cons r t :
  t <> [] -> print_ranges (r :: t) = print_item r ++ comma :: print_ranges t.
Proof. destruct t; [congruence|reflexivity]. Qed.

Lemma parse_items_print : forall l, l <> [] -> Forall fits l ->
  parse_items (split_on comma (print_ranges l)) = Some l.
Proof.
  induction l as [|r t IH]; intros Hne Hf; [congruence|].
  inversion Hf as [|x xs Hr Ht]; subst. destruct t as [|r2 t2].
  - cbn [print_ranges]. rewrite (split_on_no_sep comma _ (print_item_no_comma r)).
    cbn [parse_items]. rewrite (parse_item_print r Hr). reflexivity.
  - rewrite print_ranges_cons by discriminate.
    rewrite (split_on_app comma _ _ (print_item_no_comma r)).
    cbn [parse_items]. rewrite (parse_item_print r Hr).
    rewrite IH; [reflexivity|discriminate|exact Ht].
Qed.

Lemma print_ranges_no_space : forall l, no_space (print_ranges l).
Proof.
  induction l as [|r t IH]; [reflexivity|]. destruct t as [|r2 t2].
  - apply print_item_no_space.
  - rewrite print_ranges_cons by discriminate.
    apply no_space_app; [apply print_item_no_space|].
    change (comma :: print_ranges (r2 :: t2)) with ([comma] ++ print_ranges (r2 :: t2)).
    apply no_space_app; [reflexivity|exact IH].
Qed.

Lemma print_item_nonempty r : print_item r <> [].
Proof.
  unfold print_item. destruct (N.eqb (fst r) (snd r)).
  - apply (dec_fuel_nonempty 39).
  - intro H. apply app_eq_nil in H. destruct H as [H _]. apply (dec_fuel_nonempty 39 _ H).
Qed.

(* static ranges exactly as written: whatever list of ranges a template spells in the
   "a", "a-b", comma-separated notation is what RangesFromExpression returns *)
Lemma parse_print_roundtrip l : Forall fits l -> parse_ranges (print_ranges l) = Some l.
Proof.
  intro Hf. unfold parse_ranges. rewrite (trim_space_id _ (print_ranges_no_space l)).
  destruct l as [|r t]; [reflexivity|].
  destruct (print_ranges (r :: t)) eqn:E.
  - exfalso. destruct t as [|r2 t2].
    + apply (print_item_nonempty r E).
    + rewrite print_ranges_cons in E by discriminate. apply app_eq_nil in E. destruct E as [E _].
      apply (print_item_nonempty r E).
  - rewrite <- E. apply parse_items_print; [discriminate|exact Hf].
Qed.

(* ================================================================ K. the task class cache *)

Lemma cache_update_get {V} k k' (v : V) c :
  cache_get k (cache_update k' v c) = if N.eqb k k' then Some v else cache_get k c.
Proof.
  unfold cache_get. induction c as [|[k2 v2] r IH]; cbn [cache_update assocN].
  - destruct (N.eqb k k'); reflexivity.
  - destruct (N.eqb k' k2) eqn:E.
    + apply N.eqb_eq in E. subst k2. cbn [assocN]. destruct (N.eqb k k'); reflexivity.
    + cbn [assocN]. destruct (N.eqb k k2) eqn:E2.
      * apply N.eqb_eq in E2. subst k2. rewrite N.eqb_sym in E. rewrite E. reflexivity.
      * exact IH.
Qed.

Lemma assocN_app {V} k (l1 l2 : list (N * V)) :
  assocN k (l1 ++ l2) = match assocN k l1 with Some v => Some v | None => assocN k l2 end.
Proof.
  induction l1 as [|[k1 v1] r IH]; cbn [app assocN]; [reflexivity|].
  destruct (N.eqb k k1); [reflexivity|exact IH].
Qed.

Lemma cache_fold_get {V} (ops : list (N * V)) : forall c k,
  cache_get k (fold_left (fun c kv => cache_update (fst kv) (snd kv) c) ops c) =
  match last_written k ops with Some v => Some v | None => cache_get k c end.
Proof.
  unfold last_written. induction ops as [|[k1 v1] r IH]; intros c k; cbn [fold_left rev]; [reflexivity|].
  rewrite IH, assocN_app. destruct (assocN k (rev r)); [reflexivity|].
  cbn [assocN fst snd]. rewrite cache_update_get. destruct (N.eqb k k1); reflexivity.
Qed.

(* after any sequence of UpdateClass calls GetClass returns, for every identifier, the class that
   was written last (nothing if none was) *)
Lemma cache_last_write_wins {V} (ops : list (N * V)) k :
  cache_get k (cache_run ops) = last_written k ops.
Proof.
  unfold cache_run. rewrite cache_fold_get. destruct (last_written k ops); reflexivity.
Qed.

(* in particular a reload under the same identifier replaces the template, whatever the two
   versions have in common *)
Lemma cache_reload {V} (ops : list (N * V)) k v :
  cache_get k (cache_run (ops ++ [(k, v)])) = Some v.
Proof.
  rewrite cache_last_write_wins. unfold last_written. rewrite rev_app_distr. cbn. rewrite N.eqb_refl. reflexivity.
Qed.
